#!/usr/bin/env python3
"""
check.py — the one entry point of the verification machinery.

  tools/check.py --setup                     build the Lean project and the harness
  tools/check.py C07 --tier quick|thorough   decide property C07 on /repo's working tree
  tools/check.py C07 --replay <file>         re-run one recorded case

Stages (DESIGN.md §2.1): proof (lake build + audit) → correspondence (harness vs. compiled
Lean model) → property oracle on the implementation → verdict, evidence, replay.
Exit 0 = the property held on everything explored; exit 1 = a line
"VIOLATION property=<id> replay=<path>" was printed.
"""
import sys, os, json, subprocess, time, hashlib, re, argparse, shutil
from concurrent.futures import ThreadPoolExecutor

ROOT = os.path.dirname(os.path.dirname(os.path.abspath(__file__)))
LEAN = os.path.join(ROOT, 'lean')
HARNESS = os.path.join(ROOT, 'harness')
WORK = os.path.join(ROOT, '.work')
MODEL_EXE = os.path.join(LEAN, '.lake', 'build', 'bin', 'suiron_model')
HARNESS_EXE = os.path.join(HARNESS, 'target', 'debug', 'suiron_harness')
ALLOWED_AXIOMS = {'propext', 'Classical.choice', 'Quot.sound'}
FORBIDDEN = ['sorry', 'admit', 'native_decide', 'bv_decide', 'implemented_by', 'unsafe ', 'maxHeartbeats 0']

sys.path.insert(0, os.path.join(ROOT, 'tools'))
from props import PROPS, TRUSTED_BASE          # noqa: E402
from protocol import pretty                    # noqa: E402
import engine_oracle                           # noqa: E402

RUN_TIMEOUT = [300]
ENV = dict(os.environ, CARGO_NET_OFFLINE='true', GOPROXY='off', PIP_NO_INDEX='1')


def run(cmd, cwd=None, timeout=None, inp=None):
    p = subprocess.run(cmd, cwd=cwd, env=ENV, stdout=subprocess.PIPE, stderr=subprocess.STDOUT,
                       timeout=timeout, input=inp, text=True, errors='replace')
    return p.returncode, p.stdout


# ----------------------------------------------------------------------------- proof stage

def project_imports(module, seen=None):
    """project files transitively imported by a module"""
    seen = seen if seen is not None else {}
    if module in seen:
        return seen
    path = os.path.join(LEAN, module.replace('.', '/') + '.lean')
    if not os.path.exists(path):
        return seen
    seen[module] = path
    for line in open(path, encoding='utf-8'):
        m = re.match(r'\s*import\s+(SuironVerif\.[\w.]+)', line)
        if m:
            project_imports(m.group(1), seen)
    return seen


def strip_comments(text):
    text = re.sub(r'/-.*?-/', '', text, flags=re.S)
    return re.sub(r'--.*', '', text)


def proof_stage(pid, spec, tier):
    """returns (obligations, discharged, problems, checker_cmd)"""
    problems = []
    module = spec['module']
    theorems = spec['theorems']
    cmd = ['lake', 'build', module, 'suiron_model']
    rc, out = run(cmd, cwd=LEAN, timeout=3600)
    if rc != 0:
        errs = [l for l in out.splitlines() if 'error' in l][:5]
        problems.append({'kind': 'build', 'module': module, 'detail': errs})
        return len(theorems), 0, problems, ' '.join(cmd)
    # textual audit
    for mod, path in project_imports(module).items():
        txt = strip_comments(open(path, encoding='utf-8').read())
        for w in FORBIDDEN:
            if w in txt:
                problems.append({'kind': 'audit-text', 'module': mod, 'detail': 'contains %r' % w})
        if re.search(r'^\s*axiom\s', txt, flags=re.M):
            problems.append({'kind': 'audit-text', 'module': mod, 'detail': 'declares an axiom'})
    # axiom audit
    os.makedirs(os.path.join(LEAN, '.audit'), exist_ok=True)
    af = os.path.join(LEAN, '.audit', 'Audit_%s.lean' % pid)
    with open(af, 'w') as f:
        f.write('import %s\n' % module)
        for t in theorems:
            f.write('#print axioms %s\n' % t)
    rc, out = run(['lake', 'env', 'lean', af], cwd=LEAN, timeout=1800)
    discharged = 0
    seen = {}
    for m in re.finditer(r"'([^']+)' (depends on axioms: \[([^\]]*)\]|does not depend on any axioms)", out.replace('\n', ' ')):
        name = m.group(1)
        axs = set(a.strip() for a in (m.group(3) or '').split(',') if a.strip())
        seen[name] = axs
    for t in theorems:
        if t not in seen:
            problems.append({'kind': 'missing-theorem', 'theorem': t, 'detail': out[-400:]})
        elif not seen[t] <= ALLOWED_AXIOMS:
            problems.append({'kind': 'axioms', 'theorem': t, 'detail': sorted(seen[t] - ALLOWED_AXIOMS)})
        else:
            discharged += 1
    if tier == 'thorough' and not problems:
        rc, out = run(['lake', 'env', 'leanchecker', module], cwd=LEAN, timeout=3600)
        if rc != 0:
            problems.append({'kind': 'leanchecker', 'module': module, 'detail': out[-400:]})
    return len(theorems), discharged, problems, ' '.join(cmd) + ' && lake env lean .audit/Audit_%s.lean  (#print axioms)' % pid


# ----------------------------------------------------------------------------- correspondence + oracle stage

def build_harness():
    rc, out = run(['cargo', 'build', '--offline'], cwd=HARNESS, timeout=3600)
    if rc != 0:
        return [l for l in out.splitlines() if l.startswith('error')][:8] or [out[-600:]]
    return None


def _big_stack():
    import resource
    try:
        resource.setrlimit(resource.RLIMIT_STACK, (1 << 30, 1 << 30))
    except Exception:
        try:
            soft, hard = resource.getrlimit(resource.RLIMIT_STACK)
            resource.setrlimit(resource.RLIMIT_STACK, (hard, hard))
        except Exception:
            pass


def run_model(minp, timeout=3600):
    """pipe CASE lines through the compiled Lean driver; returns (rc, model records, spec records)"""
    try:
        mp = subprocess.run([MODEL_EXE], env=ENV, input=minp.encode(), stdout=subprocess.PIPE, stderr=subprocess.PIPE,
                            timeout=timeout, preexec_fn=_big_stack)
        rc = mp.returncode; out = mp.stdout.decode('utf-8', 'replace')
    except subprocess.TimeoutExpired as e:
        rc = -999; out = (e.stdout or b'').decode('utf-8', 'replace')
    model = {}; spec = {}
    for line in out.splitlines():
        k = line.split(' ', 2)
        if k[0] == 'MODEL': model[k[1]] = k[2] if len(k) > 2 else ''
        elif k[0] == 'SPEC': spec[k[1]] = k[2] if len(k) > 2 else ''
    return rc, model, spec


def one_run(idx, pid, spec_run, seed):
    """run one harness invocation (resumed after cases on which implementation AND model diverge)
    + the model on its cases; returns a result dict"""
    base = [HARNESS_EXE, spec_run['suite']] + spec_run['args'] + ['--seed', str(seed + 7919 * idx)]
    t0 = time.time()
    cases, impl, oracle, stats, triv = {}, {}, [], {}, set()
    aborted = None; diverging = []
    skip = 0
    deadline = t0 + spec_run.get('timeout', RUN_TIMEOUT[0])
    for attempt in range(40):
        args = base + (['--skip', str(skip)] if skip else [])
        try:
            p = subprocess.run(args, env=ENV, stdout=subprocess.PIPE, stderr=subprocess.PIPE, timeout=max(5, deadline - time.time()))
            hout = p.stdout.decode('utf-8', 'replace'); rc = p.returncode; herr = p.stderr.decode('utf-8', 'replace')
        except subprocess.TimeoutExpired as e:
            hout = (e.stdout or b'').decode('utf-8', 'replace'); rc = -999; herr = 'timeout'
        done = False; last = None
        for line in hout.splitlines():
            k = line.split(' ', 2)
            if k[0] == 'CASE': cases[k[1]] = k[2]; last = k[1]
            elif k[0] == 'IMPL': impl[k[1]] = k[2] if len(k) > 2 else ''
            elif k[0] == 'ORACLE':
                q = line.split(' ', 4)
                oracle.append((q[1], q[2], q[3], q[4] if len(q) > 4 else ''))
            elif k[0] == 'STAT': stats[k[1]] = stats.get(k[1], 0) + int(k[2])
            elif k[0] == 'TRIV': triv.add(k[1])
            elif k[0] == 'DONE': done = True
        if done:
            break
        # the implementation did not return on case `last` (abort, stack overflow, watchdog, timeout)
        if last is None or rc == -999:
            aborted = {'case_id': last, 'rc': rc, 'stderr': herr[-300:]}
            break
        if rc == 86:
            # the per-case watchdog ended the run: on a loaded machine a harmless case can exceed it. Run that one case
            # again on its own (generous limit); only if it still does not return is it an abort.
            try:
                rp = subprocess.run([HARNESS_EXE, spec_run['suite']] + spec_run['args'] + ['--replay-case', cases[last], '--case-timeout-ms', '120000'],
                                    env=ENV, stdout=subprocess.PIPE, stderr=subprocess.PIPE, timeout=150)
                rout = rp.stdout.decode('utf-8', 'replace')
            except subprocess.TimeoutExpired:
                rout = ''
            rimpl = [l for l in rout.splitlines() if l.startswith('IMPL ')]
            if len(rimpl) == 1 and 'DONE' in rout:
                k = rimpl[0].split(' ', 2)
                impl[last] = k[2] if len(k) > 2 else ''
                for l in rout.splitlines():
                    if l.startswith('ORACLE'):
                        q = l.split(' ', 4)
                        oracle.append((last, q[2], q[3], q[4] if len(q) > 4 else ''))
                stats['watchdog_retry_ok'] = stats.get('watchdog_retry_ok', 0) + 1
                skip = int(last)
                continue
        mrc, m1, _ = run_model('CASE %s %s\n' % (last, cases[last]), timeout=120)
        mres = m1.get(last)
        if mrc != 0 or mres is None or 'OOF' in mres or 'oof' in mres or 'CYCLIC' in mres:
            # the model does not return either: an occurs-check situation (outside every claim); resume after it
            diverging.append(last)
            impl.pop(last, None)
            oracle = [o for o in oracle if o[0] != last]
            skip = int(last)
            continue
        aborted = {'case_id': last, 'rc': rc, 'stderr': herr[-300:], 'model': mres}
        break
    for c in diverging:
        cases.pop(c, None)
    if diverging:
        stats['diverging_in_impl_and_model'] = len(diverging)
    minp = ''.join('CASE %s %s\n' % (c, cases[c]) for c in cases if c in impl)
    mrc, model, spec = run_model(minp)
    # property oracle of the engine suites: implementation vs reference machine
    so = spec_run.get('spec_oracle')
    if so:
        npass = 0
        for c in impl:
            if c in spec:
                msg = engine_oracle.compare(impl[c], spec[c], so['what'])
                if msg: oracle.append((c, so['prop'], 'FAIL', msg))
                else: npass += 1
        stats['spec_oracle_pass'] = npass
    mism = [c for c in impl if model.get(c) != impl[c]]
    return {'idx': idx, 'run': spec_run, 'seed': seed + 7919 * idx, 'cases': cases, 'impl': impl, 'model': model, 'spec': spec, 'oracle': oracle,
            'stats': stats, 'triv': triv, 'aborted': aborted, 'mismatch': mism, 'wall': time.time() - t0,
            'model_rc': mrc}


def load_findings():
    p = os.path.join(ROOT, 'known_findings.json')
    if not os.path.exists(p):
        return []
    return json.load(open(p))['findings']


def finding_for(pid, case_body, message, findings):
    for f in findings:
        if f.get('status') != 'open' or f.get('property') != pid:
            continue
        m = f.get('match', {})
        if 'case_regex' in m and not re.search(m['case_regex'], pretty(case_body)):
            continue
        if 'message_regex' in m and not re.search(m['message_regex'], message):
            continue
        return f
    return None


def write_replay(pid, kind, payload):
    os.makedirs(os.path.join(ROOT, 'replays'), exist_ok=True)
    h = hashlib.sha1(json.dumps(payload, sort_keys=True).encode()).hexdigest()[:10]
    path = os.path.join(ROOT, 'replays', '%s-%s-%s.json' % (pid, kind, h))
    payload = dict(payload, property=pid, kind=kind,
                   replay_cmd='tools/check.py %s --replay %s' % (pid, path))
    json.dump(payload, open(path, 'w'), indent=1)
    return path


def check(pid, tier, seed):
    t0 = time.time()
    spec = PROPS[pid]
    RUN_TIMEOUT[0] = 300 if tier == 'quick' else 3600
    findings = load_findings()
    obligations, discharged, problems, checker_cmd = proof_stage(pid, spec, tier)
    herr = build_harness()
    results = []
    if herr is None:
        runs = spec['suites'][tier]
        with ThreadPoolExecutor(max_workers=min(16, max(1, len(runs)))) as ex:
            futs = [ex.submit(one_run, i, pid, r, seed) for i, r in enumerate(runs)]
            results = [f.result() for f in futs]
    # ---- collect
    evaluations = 0; distinct = set(); samples = []; stats = {}
    oracle_fail = []; mismatches = []; aborts = []; known_hit = {}
    oracle_names = spec.get('oracles', [pid])
    for r in results:
        evaluations += len(r['impl'])
        for c, body in r['cases'].items():
            if c not in r['triv']:
                distinct.add(hashlib.md5(body.encode()).digest())
        for k, v in r['stats'].items():
            stats[k] = stats.get(k, 0) + v
        if len(samples) < 4 and r['cases']:
            c = sorted(r['cases'], key=int)[min(len(r['cases']) - 1, 3 + 5 * len(samples))]
            samples.append({'suite': r['run']['suite'], 'case': pretty(r['cases'][c]), 'impl': pretty(r['impl'].get(c, '')), 'model': pretty(r['model'].get(c, ''))})
        for (cid, prop, verdict, msg) in r['oracle']:
            if prop in oracle_names and verdict == 'FAIL':
                body = r['cases'].get(cid, '')
                f = finding_for(pid, body, msg, findings)
                if f:
                    known_hit.setdefault(f['id'], f)
                else:
                    oracle_fail.append((r, cid, msg))
        for cid in r['mismatch']:
            mismatches.append((r, cid))
        if r['aborted']:
            aborts.append(r)
        if r['model_rc'] != 0:
            problems.append({'kind': 'model-driver', 'detail': 'driver exited with %s' % r['model_rc']})
    violations = 0
    lines = []
    for fid, f in known_hit.items():
        lines.append('KNOWN-FINDING: property=%s %s' % (pid, f['what']))

    def case_payload(r, cid, extra):
        return dict({'suite': r['run']['suite'], 'suite_args': r['run']['args'], 'spec_oracle': r['run'].get('spec_oracle'), 'seed': r['seed'], 'case_id': cid,
                     'case': r['cases'].get(cid), 'case_pretty': pretty(r['cases'].get(cid, '')),
                     'impl': r['impl'].get(cid), 'model': r['model'].get(cid), 'spec': r.get('spec', {}).get(cid)}, **extra)

    if herr is not None:
        path = write_replay(pid, 'harness-build', {'detail': herr, 'note': 'the harness no longer builds against /repo; nothing could be run'})
        lines.append('VIOLATION property=%s replay=%s no-failing-input-found' % (pid, path)); violations += 1
    elif oracle_fail:
        r, cid, msg = oracle_fail[0]
        path = write_replay(pid, 'oracle', case_payload(r, cid, {'message': msg, 'more_failing_cases': len(oracle_fail) - 1}))
        lines.append('VIOLATION property=%s replay=%s' % (pid, path)); violations += len(oracle_fail)
    elif aborts:
        r = aborts[0]; cid = r['aborted']['case_id']
        path = write_replay(pid, 'abort', case_payload(r, cid, {'message': 'the implementation did not return on this case (abort / stack overflow / timeout)', 'detail': r['aborted']}))
        lines.append('VIOLATION property=%s replay=%s' % (pid, path)); violations += 1
    elif mismatches or problems:
        # the theorem no longer speaks about this code (or is no longer proved): no oracle failure was found
        payload = {'message': 'no failing input found by the property oracle', 'proof_problems': problems,
                   'correspondence_mismatches': len(mismatches)}
        if mismatches:
            r, cid = mismatches[0]
            payload.update(case_payload(r, cid, {}))
            payload['broken'] = 'correspondence of suite %s (model and implementation disagree on this case)' % r['run']['suite']
        else:
            payload['broken'] = 'proof obligations of %s: %s' % (spec['module'], json.dumps(problems)[:600])
        path = write_replay(pid, 'unproved', payload)
        lines.append('VIOLATION property=%s replay=%s no-failing-input-found' % (pid, path)); violations += 1
    # ---- evidence
    ev = {
        'property_id': pid, 'tier': tier, 'seed': seed, 'level': 'proof',
        'coverage': {
            'obligations': obligations, 'discharged': discharged,
            'checker_cmd': 'cd /verif/lean && ' + checker_cmd,
            'trusted_base': TRUSTED_BASE + spec.get('trusted_extra', []),
            'theorems': spec['theorems'],
            'evaluations': evaluations, 'distinct_nontrivial': len(distinct),
            'rule': spec.get('rule', ''),
            'samples': samples or [{'note': 'no correspondence case was run'}],
            'exhaustive': bool(spec.get('exhaustive_in', {}).get(tier, False)),
            'correspondence_mismatches': len(mismatches),
            'oracle_failures': len(oracle_fail), 'aborts': len(aborts),
            'known_findings_hit': sorted(known_hit.keys()),
            'suite_stats': stats,
            'runs': [{'suite': r['run']['suite'], 'args': r['run']['args'], 'cases': len(r['impl']), 'wall_s': round(r['wall'], 2)} for r in results],
            'proof_problems': problems,
        },
        'assumptions': spec.get('assumptions', []),
        'wall_s': round(time.time() - t0, 2),
        'violations': violations,
    }
    os.makedirs(os.path.join(ROOT, 'evidence'), exist_ok=True)
    json.dump(ev, open(os.path.join(ROOT, 'evidence', pid + '.json'), 'w'), indent=1)
    for l in lines:
        print(l)
    print('%s %s: theorems %d/%d, cases %d (distinct non-trivial %d), mismatches %d, oracle failures %d, aborts %d, %.1fs'
          % (pid, tier, discharged, obligations, evaluations, len(distinct), len(mismatches), len(oracle_fail), len(aborts), time.time() - t0))
    return 1 if violations else 0


def replay(pid, path):
    d = json.load(open(path))
    if not d.get('case'):
        print('replay file names no input: %s' % d.get('broken', d.get('message')))
        print(json.dumps(d.get('proof_problems', []), indent=1))
        return check(pid, 'quick', 1)
    herr = build_harness()
    if herr:
        print('harness does not build:', herr); return 1
    args = [HARNESS_EXE, d['suite']] + d.get('suite_args', []) + ['--replay-case', d['case']]
    rc, out = run(args, timeout=120)
    cid = None
    for l in out.splitlines():
        if l.startswith('CASE'): cid = l.split(' ', 2)[1]
    mrc, model_d, spec_d = run_model('\n'.join(l for l in out.splitlines() if l.startswith('CASE')) + '\n', timeout=300)
    print(pretty(d['case']))
    bad = False
    impl = None
    for l in out.splitlines():
        if l.startswith('IMPL'): impl = l.split(' ', 2)[2] if len(l.split(' ', 2)) > 2 else ''; print('IMPL  ', pretty(impl))
        if l.startswith('ORACLE'):
            print(l)
            q = l.split(' ', 4)
            if q[3] == 'FAIL' and q[2] in PROPS[pid].get('oracles', [pid]): bad = True
    model = model_d.get(cid)
    if model is not None: print('MODEL ', pretty(model))
    if cid in spec_d: print('SPEC  ', pretty(spec_d[cid]))
    so = d.get('spec_oracle')
    if so and impl is not None and cid in spec_d:
        msg = engine_oracle.compare(impl, spec_d[cid], so['what'])
        if msg: print('ORACLE %s %s FAIL %s' % (cid, so['prop'], msg)); bad = True
    if impl is None: print('implementation did not return'); bad = True
    elif impl != model: print('model and implementation disagree'); bad = True
    print('replay: %s' % ('still failing' if bad else 'passes now'))
    return 1 if bad else 0


def setup():
    rc, out = run(['lake', 'build', 'SuironVerif', 'suiron_model'], cwd=LEAN, timeout=7200)
    print(out[-2000:])
    if rc != 0: return rc
    herr = build_harness()
    if herr: print(herr); return 1
    print('setup ok'); return 0


def main():
    ap = argparse.ArgumentParser()
    ap.add_argument('prop', nargs='?')
    ap.add_argument('--tier', default=os.environ.get('VERIF_TIER', 'quick'))
    ap.add_argument('--replay')
    ap.add_argument('--setup', action='store_true')
    a = ap.parse_args()
    if a.setup:
        sys.exit(setup())
    if a.prop not in PROPS:
        print('unknown property', a.prop); sys.exit(2)
    if a.replay:
        sys.exit(replay(a.prop, a.replay))
    seed = int(os.environ.get('VERIF_SEED', '1'))
    sys.exit(check(a.prop, a.tier, seed))


if __name__ == '__main__':
    main()
