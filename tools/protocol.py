"""Decode the harness line protocol into readable Suiron-like text (for replays / debugging)."""

def unhex(h):
    return bytes.fromhex(h).decode('utf-8', 'replace')

def dec_term(toks, i):
    t = toks[i]; p = t.split(':')
    if t == 'N': return 'Nil', i + 1
    if t == '_': return '$_', i + 1
    if t == '-': return '-', i + 1
    k = p[0]
    if k == 'A': return unhex(p[1]) if p[1] else "''", i + 1
    if k == 'F':
        import struct
        return repr(struct.unpack('<d', struct.pack('<Q', int(p[1])))[0]) + 'f', i + 1
    if k == 'I': return p[1], i + 1
    if k == 'V': return '%s_%s' % (unhex(p[2]), p[1]), i + 1
    if k == 'C':
        n = int(p[1]); i += 1; args = []
        for _ in range(n):
            a, i = dec_term(toks, i); args.append(a)
        return (args[0] if args else '') + '(' + ', '.join(args[1:]) + ')', i
    if k == 'L':
        cnt, tv = p[1], p[2]
        a, i = dec_term(toks, i + 1)
        b, i = dec_term(toks, i)
        return '<%s%s#%s . %s>' % ('|' if tv == '1' else '', a, cnt, b), i
    if k == 'Fn':
        n = int(p[2]); i += 1; args = []
        for _ in range(n):
            a, i = dec_term(toks, i); args.append(a)
        return '@' + unhex(p[1]) + '(' + ', '.join(args) + ')', i
    if k == 'S':
        n = int(p[1]); i += 1; es = []
        for j in range(n):
            a, i = dec_term(toks, i); es.append('%d=%s' % (j, a))
        return '{' + ', '.join(es) + '}', i
    return t, i + 1

def pretty(line):
    toks = line.split()
    out = []; i = 0
    while i < len(toks):
        try:
            s, i = dec_term(toks, i)
        except Exception:
            s = toks[i]; i += 1
        out.append(s)
    return ' '.join(out)

if __name__ == '__main__':
    import sys
    for l in sys.stdin:
        print(pretty(l.rstrip('\n')))
