#!/usr/bin/env python3
"""Regenerate MANIFEST.json from tools/props.py (claimed checks) + the fixed list of properties."""
import json, os, sys
ROOT = os.path.dirname(os.path.dirname(os.path.abspath(__file__)))
sys.path.insert(0, os.path.join(ROOT, 'tools'))
from props import PROPS, NOT_APPLICABLE, LEVEL_TEXT
ids = [json.loads(l)['id'] for l in open(os.path.join(ROOT, 'properties.jsonl'))]
checks = []
for pid in ids:
    if pid not in PROPS: continue
    s = PROPS[pid]
    checks.append({
        'property_id': pid,
        'quick_cmd': 'tools/check.py %s --tier quick' % pid,
        'thorough_cmd': 'tools/check.py %s --tier thorough' % pid,
        'evidence_file': '/verif/evidence/%s.json' % pid,
        'replay_cmd_template': 'tools/check.py %s --replay {path}' % pid,
        'engine': 'lean-model+rust-harness',
        'level_claimed': {'category': 'proof', 'text': LEVEL_TEXT[pid], 'design_ref': s.get('design_ref', '')},
        'level_note': s.get('level_note', 'Trusted: Lean kernel; axioms propext/Classical.choice/Quot.sound only; the hand-written model is tied to /repo by differential correspondence suites (bounded by their generators); harness, codecs, check.py; FloatOps parameters. See DESIGN.md §10.'),
        'technique': s.get('technique', 'Lean 4 theorems about a hand-written executable model + differential correspondence check against the implementation'),
    })
na = [{'property_id': pid, 'reason': NOT_APPLICABLE.get(pid, 'not yet covered by a check in this revision; see DESIGN.md')} for pid in ids if pid not in PROPS]
m = {
    'version': 1,
    'setup_cmd': 'cd /verif && tools/check.py --setup',
    'hooks': {'guard': 'suiron_verif', 'enable': 'RUSTFLAGS="--cfg suiron_verif" (set in /verif/harness/.cargo/config.toml)',
              'baseline_off_cmd': 'cd /repo && cargo test --workspace --no-fail-fast --offline',
              'source_commits': json.load(open(os.path.join(ROOT, 'hooks.json')))['source_commits'] if os.path.exists(os.path.join(ROOT, 'hooks.json')) else [],
              'add_only': True},
    'engines': [
        {'name': 'lean-model', 'path': '/verif/lean', 'serves_properties': sorted(PROPS), 'kind_free_text': 'Lean 4 executable model + property theorems (lake project SuironVerif, driver exe suiron_model)'},
        {'name': 'rust-harness', 'path': '/verif/harness', 'serves_properties': sorted(PROPS), 'kind_free_text': 'Rust crate with a path dependency on /repo: generators, in-process runs of the implementation, property oracles, line protocol'},
    ],
    'checks': checks,
    'not_applicable': na,
    'notes': 'Every check = proof stage (lake build + axiom audit) + correspondence stage (harness vs compiled Lean model) + property oracle on the implementation. See DESIGN.md.',
}
json.dump(m, open(os.path.join(ROOT, 'MANIFEST.json'), 'w'), indent=1)
print('MANIFEST.json: %d checks, %d not_applicable' % (len(checks), len(na)))
