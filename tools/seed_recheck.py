#!/usr/bin/env python3
"""Re-run our checks against an already confirmed seeded change (after strengthening a check).
usage: seed_recheck.py <seed-id> <check ids, comma separated> [--tier quick|thorough]
Applies /verif/seeded/<id>/patch.diff to /repo, runs the checks, undoes it, records the outcome in meta.json."""
import sys, os, subprocess, json
sid, checks = sys.argv[1], sys.argv[2].split(',')
tier = sys.argv[sys.argv.index('--tier') + 1] if '--tier' in sys.argv else 'quick'
d = os.path.join('/verif/seeded', sid)
def sh(cmd, cwd='/verif', timeout=3600):
    p = subprocess.run(cmd, shell=True, cwd=cwd, stdout=subprocess.PIPE, stderr=subprocess.STDOUT, text=True, timeout=timeout)
    return p.returncode, p.stdout
meta = json.load(open(os.path.join(d, 'meta.json')))
rc, o = sh('git -C /repo status --porcelain --untracked-files=no')
if o.strip(): print('refusing: /repo has uncommitted changes'); sys.exit(2)
rc, o = sh('git -C /repo apply %s/patch.diff' % d)
if rc != 0: print('patch does not apply:', o); sys.exit(2)
res = {}
try:
    for c in checks:
        rc, o = sh('tools/check.py %s --tier %s' % (c, tier))
        res[c] = {'rc': rc, 'output': [l for l in o.splitlines() if l.startswith('VIOLATION') or (' %s:' % tier) in l]}
        print(c, res[c])
finally:
    sh('git -C /repo checkout -- .')
meta.setdefault('rechecks', []).append({'tier': tier, 'checks': res})
caught = set(meta.get('caught_by', [])) | {c for c in checks if res[c]['rc'] == 1}
meta['caught_by'] = sorted(caught)
json.dump(meta, open(os.path.join(d, 'meta.json'), 'w'), indent=1)
