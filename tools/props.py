"""Per-property configuration of check.py: theorem lists, correspondence suites, oracle names."""

TRUSTED_BASE = [
    "Lean 4.33.0 kernel (thorough tier: re-checked by leanchecker)",
    "axioms allowed per theorem: propext, Classical.choice, Quot.sound (audited with #print axioms); no sorry/admit/axiom/native_decide/bv_decide/implemented_by/unsafe",
    "the hand-written Lean model (lean/SuironVerif/Model) is tied to /repo only by the correspondence suites (differential testing, bounded by their generators)",
    "harness (harness/src), line-protocol codecs on both sides, tools/check.py",
    "f64 + - * /, i64->f64 and float printing are parameters of the model (FloatOps); the driver instantiates them with the machine's doubles",
    "rustc/std semantics of the operations the model mirrors (Vec indexing, String comparison, overflow checks in the dev profile)",
]

U_RULE = ("cases are sequences of 1-4 unifications run from the empty substitution set (the last pair is the subject, "
          "the earlier ones build the prior substitution); terms are drawn from atoms, integers, floats, 5 variables, "
          "complex terms f/1-3, g/1-3 and lists with optional tail variable, depth <= 3; half of the pairs are mutations of "
          "each other; sequences on which a reference unifier meets an occurs-check situation are dropped. A case is "
          "non-trivial when its last pair is not two identical terms or two constants; distinct = distinct encoded case text.")


def unify_runs(props, n, flagsets, exhaustive=None):
    runs = []
    for fl in flagsets:
        runs.append({'suite': 'unify', 'args': ['--props', props, '--n', str(n)] + fl})
    if exhaustive:
        for fl, shards in exhaustive:
            for i in range(shards):
                runs.append({'suite': 'unify', 'args': ['--props', props, '--exhaustive', '--shard', '%d/%d' % (i, shards)] + fl})
    return runs


PROPS = {}

PROPS['C09'] = {
    'module': 'SuironVerif.Props.C09',
    'theorems': ['Suiron.C09.anon_left', 'Suiron.C09.anon_right', 'Suiron.C09.var_stays_unbound', 'Suiron.C09.as_if_unseen',
                 'Suiron.C09.arg_skip_left', 'Suiron.C09.arg_skip_right', 'Suiron.C09.elem_skip_left', 'Suiron.C09.elem_skip_right',
                 'Suiron.C09.tail_skip_left', 'Suiron.C09.tail_skip_right', 'Suiron.C09.never_bound'],
    'oracles': ['C09'],
    'suites': {
        'quick': unify_runs('C09', 3000, [['--anon'], ['--anon', '--func']], exhaustive=[(['--anon'], 1)]),
        'thorough': unify_runs('C09', 100000, [['--anon']] * 6 + [['--anon', '--func'], ['--anon', '--oddfloats']],
                               exhaustive=[(['--anon'], 4), (['--anon', '--func'], 4)]),
    },
    'exhaustive_in': {'quick': True, 'thorough': True},
    'rule': U_RULE + " Every run here allows `$_` as operand, argument, list element and list tail. The exhaustive part enumerates all ordered "
            "pairs of a 60-term universe under each of 10 prior substitutions.",
    'assumptions': [
        "theorems are about the Lean model of unify(); the model is tied to src/unifiable.rs by the unify correspondence suite",
        "oracle on the implementation: `$_` against each operand (both orders) succeeds and leaves the set unchanged; no variable is bound to `$_`; "
        "resolved operands match with `$_` as wildcard; dropping earlier `X = $_` steps does not change later results; success agrees with a "
        "reference unifier that reads each `$_` as a fresh variable (when no earlier binding contains `$_`)",
    ],
}

PROPS['C06'] = {
    'module': 'SuironVerif.Props.C06',
    'theorems': ['Suiron.C06.unify_extends', 'Suiron.C06.unify_result_wf'],
    'oracles': ['C06'],
    'suites': {
        'quick': unify_runs('C06', 4000, [[], ['--anon']], exhaustive=[([], 1)]),
        'thorough': unify_runs('C06', 100000, [[]] * 8 + [['--anon']] * 2 + [['--oddfloats']], exhaustive=[([], 2), (['--anon'], 2)]),
    },
    'exhaustive_in': {'quick': True, 'thorough': True},
    'rule': U_RULE,
    'design_ref': '5.6',
    'assumptions': [
        "oracle on the implementation (anon-free, function-free cases): success agrees with Robinson unification with occurs check under the prior "
        "substitution (occurs-check situations dropped); every earlier binding is kept verbatim; both operands resolve to the same term; the resolved "
        "values of all variables are a variant of the reference mgu under one variable bijection",
        "NaN operands are compared with the model only (NaN equals nothing, itself included; the property does not speak about it)",
    ],
}

PROPS['C07'] = {
    'module': 'SuironVerif.Props.C07',
    'theorems': ['Suiron.C07.const_const_symm_partial', 'Suiron.C07.nonvar_var_forward_partial', 'Suiron.C07.empty_vs_nonempty_partial'],
    'oracles': ['C07'],
    'suites': {
        'quick': unify_runs('C07', 4000, [[], ['--anon']], exhaustive=[(['--anon'], 1)]),
        'thorough': unify_runs('C07', 100000, [[]] * 6 + [['--anon']] * 4, exhaustive=[([], 2), (['--anon'], 2)]),
    },
    'exhaustive_in': {'quick': True, 'thorough': True},
    'rule': U_RULE + " Every subject pair is unified in both orders by the oracle.",
    'design_ref': '5.7',
    'assumptions': [
        "PARTIAL: the proved theorems cover the symmetric dispatch (constants, term-vs-variable forwarding, empty list vs list pattern); the full "
        "statement (success iff, results variants) is stated in Props/C07.lean and not yet proved for the list/complex recursion",
        "oracle on the implementation: A=B and B=A succeed/fail/panic alike under the same prior substitution and resolve every variable to variants",
    ],
}

PROPS['C08'] = {
    'module': 'SuironVerif.Props.C08',
    'theorems': ['Suiron.C08.unify_chainWF', 'Suiron.C08.unify_seq_chainWF', 'Suiron.C08.walk_terminates', 'Suiron.C08.alias_adds_no_binding'],
    'oracles': ['C08'],
    'suites': {
        'quick': unify_runs('C08', 4000, [[], ['--anon'], ['--func']], exhaustive=[(['--anon'], 1)]),
        'thorough': unify_runs('C08', 100000, [[]] * 6 + [['--anon']] * 3 + [['--func']], exhaustive=[([], 2), (['--anon'], 2)]),
    },
    'exhaustive_in': {'quick': True, 'thorough': True},
    'rule': U_RULE + " Half of the non-final steps have a variable as one operand, so chains of aliased variables are frequent.",
    'design_ref': '5.8',
    'assumptions': [
        "unify_chainWF is unconditional (all operands, all substitution sets): variable-to-anything chains stay finite, so get_ground_term always returns; "
        "termination of full resolution (replace_variables) additionally needs the absence of occurs-check situations, which the property excludes",
        "oracle on the implementation: after every successful step, following variable bindings from every index ends within len+1 steps; unifying two "
        "variables whose chains end at the same unbound variable succeeds in both orders and leaves the set unchanged",
    ],
}

PROPS['C13'] = {
    'module': 'SuironVerif.Props.C13',
    'theorems': ['Suiron.C13.func_left', 'Suiron.C13.func_right', 'Suiron.C13.either_side', 'Suiron.C13.func_func'],
    'oracles': ['C13'],
    'suites': {
        'quick': unify_runs('C13', 5000, [['--func'], ['--func', '--anon']], exhaustive=[(['--func'], 1)]),
        'thorough': unify_runs('C13', 100000, [['--func']] * 6 + [['--func', '--anon']] * 2, exhaustive=[(['--func'], 2), (['--func', '--anon'], 2)]),
    },
    'exhaustive_in': {'quick': True, 'thorough': True},
    'rule': U_RULE + " Runs here add built-in function terms (add/subtract/multiply/divide over 1-3 numbers, join over words and punctuation) as operands "
            "and as arguments / list elements.",
    'design_ref': '5.13',
    'assumptions': [
        "oracle on the implementation: for a subject pair with a function term as a whole operand, unifying it gives the same success/failure and the same "
        "resolved variable values (up to renaming) as unifying its value, computed by the harness' own fold, in the same position",
        "function terms nested inside arguments of other function terms are outside the property (the implementation panics on them)",
    ],
}

NOT_APPLICABLE = {
    'C24': 'Undefined behaviour (aliasing of raw-pointer writes, data races on static mut) is a property of pointers, borrows and threads, '
           'which a pure functional Lean model erases by construction; no executable Lean model can express it (DESIGN.md 5.24).',
}

LEVEL_TEXT = {
    'C06': 'Proved in Lean for all well-formed operands, substitution sets and fuel: a successful unification keeps every earlier binding verbatim and only '
           'adds bindings of previously unbound variables (to terms that are neither `$_` nor function calls). Agreement with a reference mgu (soundness, '
           'generality, no false failure) is decided on the implementation by the oracle over random and exhaustive universes and by the correspondence '
           'with the model; the corresponding theorems are work in progress and are not claimed.',
    'C07': 'PARTIAL proof: symmetric dispatch lemmas (constants; term facing a variable; empty list facing a list pattern) are proved for all inputs; the '
           'full symmetry statement is decided on the implementation by running every generated pair in both orders (random + all ordered pairs of a '
           '60-term universe under 10 priors) and by the model correspondence.',
    'C08': 'Proved in Lean, unconditionally (any operands, any set, any fuel, any sequence): if following bindings ends from every term before a successful '
           'unification it still does afterwards; unifying an unbound variable with a variable aliased to it returns the set unchanged. Ties to the code '
           'through the unify correspondence suite; the oracle walks the real substitution sets.',
    'C13': 'Proved in Lean for all operands: a function term on the right of a variable, constant, complex term or list is forwarded to the function side, '
           'and a function term on the left is evaluated and its value unified with the other operand, so both orders reduce to unify(value, other). '
           'Tied to src/unifiable.rs and built_in_functions.rs by the correspondence suite with function terms.',
    'C09': 'Proved in Lean for all terms, substitution sets and fuel: `$_ = t` and `t = $_` return the substitution set unchanged; a `$_` in an '
           'argument, list-element or list-tail position is skipped; no successful unification ever binds a variable to `$_`; a variable '
           'unified with `$_` behaves afterwards as if it had not been. The theorems are about the model; the correspondence suite (random + '
           'all ordered pairs of a 60-term universe under 10 priors) ties the model to src/unifiable.rs on every run.',
}
