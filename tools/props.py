"""Per-property configuration of check.py: theorem lists, correspondence suites, oracle names."""

TRUSTED_BASE = [
    "Lean 4.33.0 kernel (thorough tier: re-checked by leanchecker)",
    "axioms allowed per theorem: propext, Classical.choice, Quot.sound (audited with #print axioms); no sorry/admit/axiom/native_decide/bv_decide/implemented_by/unsafe",
    "the hand-written Lean model (lean/SuironVerif/Model) is tied to /repo only by the correspondence suites (differential testing, bounded by their generators)",
    "harness (harness/src), line-protocol codecs on both sides, tools/check.py",
    "f64 + - * /, i64->f64 and float printing are parameters of the model (FloatOps); the driver instantiates them with the machine's doubles",
    "rustc/std semantics of the operations the model mirrors (Vec indexing, String comparison, overflow checks in the dev profile)",
]

U_RULE = ("cases are sequences of 1-4 unifications run from the empty substitution set (the last pair is the subject, "
          "the earlier ones build the prior substitution); terms are drawn from atoms, integers, floats, 5 variables, "
          "complex terms f/1-3, g/1-3 and lists with optional tail variable, depth <= 3; half of the pairs are mutations of "
          "each other; sequences on which a reference unifier meets an occurs-check situation are dropped. A case is "
          "non-trivial when its last pair is not two identical terms or two constants; distinct = distinct encoded case text.")


def unify_runs(props, n, flagsets, exhaustive=None):
    runs = []
    for fl in flagsets:
        runs.append({'suite': 'unify', 'args': ['--props', props, '--n', str(n)] + fl})
    if exhaustive:
        for fl, shards in exhaustive:
            for i in range(shards):
                runs.append({'suite': 'unify', 'args': ['--props', props, '--exhaustive', '--shard', '%d/%d' % (i, shards)] + fl})
    return runs


PROPS = {}

PROPS['C09'] = {
    'module': 'SuironVerif.Props.C09',
    'theorems': ['Suiron.C09.anon_left', 'Suiron.C09.anon_right', 'Suiron.C09.var_stays_unbound', 'Suiron.C09.as_if_unseen',
                 'Suiron.C09.arg_skip_left', 'Suiron.C09.arg_skip_right', 'Suiron.C09.elem_skip_left', 'Suiron.C09.elem_skip_right',
                 'Suiron.C09.tail_skip_left', 'Suiron.C09.tail_skip_right', 'Suiron.C09.never_bound'],
    'oracles': ['C09'],
    'suites': {
        'quick': unify_runs('C09', 3000, [['--anon'], ['--anon', '--func']], exhaustive=[(['--anon'], 1)]),
        'thorough': unify_runs('C09', 100000, [['--anon']] * 6 + [['--anon', '--func'], ['--anon', '--oddfloats']],
                               exhaustive=[(['--anon'], 4), (['--anon', '--func'], 4)]),
    },
    'exhaustive_in': {'quick': True, 'thorough': True},
    'rule': U_RULE + " Every run here allows `$_` as operand, argument, list element and list tail. The exhaustive part enumerates all ordered "
            "pairs of a 60-term universe under each of 10 prior substitutions.",
    'assumptions': [
        "theorems are about the Lean model of unify(); the model is tied to src/unifiable.rs by the unify correspondence suite",
        "oracle on the implementation: `$_` against each operand (both orders) succeeds and leaves the set unchanged; no variable is bound to `$_`; "
        "resolved operands match with `$_` as wildcard; dropping earlier `X = $_` steps does not change later results; success agrees with a "
        "reference unifier that reads each `$_` as a fresh variable (when no earlier binding contains `$_`)",
    ],
}

NOT_APPLICABLE = {
    'C24': 'Undefined behaviour (aliasing of raw-pointer writes, data races on static mut) is a property of pointers, borrows and threads, '
           'which a pure functional Lean model erases by construction; no executable Lean model can express it (DESIGN.md 5.24).',
}

LEVEL_TEXT = {
    'C09': 'Proved in Lean for all terms, substitution sets and fuel: `$_ = t` and `t = $_` return the substitution set unchanged; a `$_` in an '
           'argument, list-element or list-tail position is skipped; no successful unification ever binds a variable to `$_`; a variable '
           'unified with `$_` behaves afterwards as if it had not been. The theorems are about the model; the correspondence suite (random + '
           'all ordered pairs of a 60-term universe under 10 priors) ties the model to src/unifiable.rs on every run.',
}
