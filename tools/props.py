"""Per-property configuration of check.py: theorem lists, correspondence suites, oracle names."""

TRUSTED_BASE = [
    "Lean 4.33.0 kernel (thorough tier: re-checked by leanchecker)",
    "axioms allowed per theorem: propext, Classical.choice, Quot.sound (audited with #print axioms); no sorry/admit/axiom/native_decide/bv_decide/implemented_by/unsafe",
    "the hand-written Lean model (lean/SuironVerif/Model) is tied to /repo only by the correspondence suites (differential testing, bounded by their generators)",
    "harness (harness/src), line-protocol codecs on both sides, tools/check.py",
    "f64 + - * /, i64->f64 and float printing are parameters of the model (FloatOps); the driver instantiates them with the machine's doubles",
    "rustc/std semantics of the operations the model mirrors (Vec indexing, String comparison, overflow checks in the dev profile)",
]

U_RULE = ("cases are sequences of 1-4 unifications run from the empty substitution set (the last pair is the subject, "
          "the earlier ones build the prior substitution); terms are drawn from atoms, integers, floats, 5 variables, "
          "complex terms f/1-3, g/1-3 and lists with optional tail variable, depth <= 3; half of the pairs are mutations of "
          "each other; sequences on which a reference unifier meets an occurs-check situation are dropped. A case is "
          "non-trivial when its last pair is not two identical terms or two constants; distinct = distinct encoded case text.")


def unify_runs(props, n, flagsets, exhaustive=None):
    runs = []
    for fl in flagsets:
        runs.append({'suite': 'unify', 'args': ['--props', props, '--n', str(n)] + fl})
    if exhaustive:
        for fl, shards in exhaustive:
            for i in range(shards):
                runs.append({'suite': 'unify', 'args': ['--props', props, '--exhaustive', '--shard', '%d/%d' % (i, shards)] + fl})
    return runs


PROPS = {}

PROPS['C09'] = {
    'module': 'SuironVerif.Props.C09',
    'theorems': ['Suiron.C09.anon_left', 'Suiron.C09.anon_right', 'Suiron.C09.var_stays_unbound', 'Suiron.C09.as_if_unseen',
                 'Suiron.C09.arg_skip_left', 'Suiron.C09.arg_skip_right', 'Suiron.C09.elem_skip_left', 'Suiron.C09.elem_skip_right',
                 'Suiron.C09.tail_skip_left', 'Suiron.C09.tail_skip_right', 'Suiron.C09.never_bound'],
    'oracles': ['C09'],
    'suites': {
        'quick': unify_runs('C09', 3000, [['--anon'], ['--anon', '--func']], exhaustive=[(['--anon'], 1)]),
        'thorough': unify_runs('C09', 100000, [['--anon']] * 6 + [['--anon', '--func'], ['--anon', '--oddfloats']],
                               exhaustive=[(['--anon'], 4), (['--anon', '--func'], 4)]),
    },
    'exhaustive_in': {'quick': True, 'thorough': True},
    'rule': U_RULE + " Every run here allows `$_` as operand, argument, list element and list tail. The exhaustive part enumerates all ordered "
            "pairs of a 60-term universe under each of 10 prior substitutions.",
    'assumptions': [
        "theorems are about the Lean model of unify(); the model is tied to src/unifiable.rs by the unify correspondence suite",
        "oracle on the implementation: `$_` against each operand (both orders) succeeds and leaves the set unchanged; no variable is bound to `$_`; "
        "resolved operands match with `$_` as wildcard; dropping earlier `X = $_` steps does not change later results; success agrees with a "
        "reference unifier that reads each `$_` as a fresh variable (when no earlier binding contains `$_`)",
    ],
}

PROPS['C06'] = {
    'module': 'SuironVerif.Props.C06',
    'theorems': ['Suiron.C06.unify_extends', 'Suiron.C06.unify_result_wf', 'Suiron.C06.unify_general', 'Suiron.C06.unify_no_false_failure',
                 'Suiron.C06.unify_keeps_wf', 'Suiron.C06.failure_means_no_unifier', 'Suiron.C06.unify_sound', 'Suiron.C06.unify_mgu', 'Suiron.C06.unify_outcome_unique'],
    'oracles': ['C06'],
    'suites': {
        'quick': unify_runs('C06', 4000, [[], ['--anon']], exhaustive=[([], 1)]),
        'thorough': unify_runs('C06', 100000, [[]] * 8 + [['--anon']] * 2 + [['--oddfloats']], exhaustive=[([], 2), (['--anon'], 2)]),
    },
    'exhaustive_in': {'quick': True, 'thorough': True},
    'rule': U_RULE,
    'design_ref': '5.6',
    'assumptions': [
        "proved against the first-order reading of Spec/FOSubst.lean (a tail-variable cell denotes its variable; counts, names and the sign of zero are representation): "
        "E (earlier bindings kept), G (every unifier validating the prior set validates the result), C (a reported failure means no unifier extends the prior set), S (every "
        "substitution validating the result unifies the operands; `$_`-free operands), hence `unify_mgu`: the solutions of the result are exactly the unifiers of the operands "
        "among the solutions of the prior set; well-formedness is preserved so the theorems chain. Outside the theorems: existence of a solution of the result (acyclicity; "
        "fails only in occurs-check situations, which the property excludes), termination (that SOME fuel suffices; the outcome is proved independent of the fuel, unify_outcome_unique), `$_` in the S direction (C09)",
        "oracle on the implementation (anon-free, function-free cases): success agrees with Robinson unification with occurs check under the prior "
        "substitution (occurs-check situations dropped); every earlier binding is kept verbatim; both operands resolve to the same term; the resolved "
        "values of all variables are a variant of the reference mgu under one variable bijection",
        "NaN operands are compared with the model only (NaN equals nothing, itself included; the property does not speak about it)",
    ],
}

PROPS['C07'] = {
    'module': 'SuironVerif.Props.C07',
    'theorems': ['Suiron.C07.symmetric_values', 'Suiron.C07.symmetric_success', 'Suiron.C07.const_const_symm_partial', 'Suiron.C07.nonvar_var_forward_partial', 'Suiron.C07.empty_vs_nonempty_partial'],
    'oracles': ['C07'],
    'suites': {
        'quick': unify_runs('C07', 4000, [[], ['--anon'], ['--anon', '--renamed']], exhaustive=[(['--anon'], 1), (['--anon', '--renamed'], 1)]),
        'thorough': unify_runs('C07', 100000, [[]] * 6 + [['--anon']] * 4 + [['--anon', '--renamed']] * 4, exhaustive=[([], 2), (['--anon'], 2), (['--anon', '--renamed'], 2)]),
    },
    'exhaustive_in': {'quick': True, 'thorough': True},
    'rule': U_RULE + " Every subject pair is unified in both orders by the oracle; the `--renamed` runs first rename each side apart with recreate_variables (own name "
            "maps, as a rule head and a goal are), so list patterns and literal empty lists are seen as the engine sees them.",
    'design_ref': '5.7',
    'assumptions': [
        "proved (well-formed, function-free, `$_`-free operands, any fuel): if A=B and B=A both succeed their results have exactly the same solutions (every variable the "
        "same resolved value, up to the naming of what stays unbound); if one order succeeds with a solvable result the other does not report failure. Outside the "
        "theorems: that the other order actually returns (termination) and operands containing `$_` - decided by the oracle",
        "oracle on the implementation: A=B and B=A succeed/fail/panic alike under the same prior substitution and resolve every variable to variants",
    ],
}

PROPS['C08'] = {
    'module': 'SuironVerif.Props.C08',
    'theorems': ['Suiron.C08.unify_chainWF', 'Suiron.C08.unify_seq_chainWF', 'Suiron.C08.walk_terminates', 'Suiron.C08.alias_adds_no_binding'],
    'oracles': ['C08'],
    'suites': {
        'quick': unify_runs('C08', 4000, [[], ['--anon'], ['--func']], exhaustive=[(['--anon'], 1)]),
        'thorough': unify_runs('C08', 100000, [[]] * 6 + [['--anon']] * 3 + [['--func']], exhaustive=[([], 2), (['--anon'], 2)]),
    },
    'exhaustive_in': {'quick': True, 'thorough': True},
    'rule': U_RULE + " Half of the non-final steps have a variable as one operand, so chains of aliased variables are frequent.",
    'design_ref': '5.8',
    'assumptions': [
        "unify_chainWF is unconditional (all operands, all substitution sets): variable-to-anything chains stay finite, so get_ground_term always returns; "
        "termination of full resolution (replace_variables) additionally needs the absence of occurs-check situations, which the property excludes",
        "oracle on the implementation: after every successful step, following variable bindings from every index ends within len+1 steps; unifying two "
        "variables whose chains end at the same unbound variable succeeds in both orders and leaves the set unchanged",
    ],
}

PROPS['C13'] = {
    'module': 'SuironVerif.Props.C13',
    'theorems': ['Suiron.C13.func_left', 'Suiron.C13.func_right', 'Suiron.C13.either_side', 'Suiron.C13.func_func'],
    'oracles': ['C13'],
    'suites': {
        'quick': unify_runs('C13', 5000, [['--func'], ['--func', '--anon']], exhaustive=[(['--func'], 1)]),
        'thorough': unify_runs('C13', 100000, [['--func']] * 6 + [['--func', '--anon']] * 2, exhaustive=[(['--func'], 2), (['--func', '--anon'], 2)]),
    },
    'exhaustive_in': {'quick': True, 'thorough': True},
    'rule': U_RULE + " Runs here add built-in function terms (add/subtract/multiply/divide over 1-3 numbers, join over words and punctuation) as operands "
            "and as arguments / list elements.",
    'design_ref': '5.13',
    'assumptions': [
        "oracle on the implementation: for a subject pair with a function term as a whole operand, unifying it gives the same success/failure and the same "
        "resolved variable values (up to renaming) as unifying its value, computed by the harness' own fold, in the same position",
        "function terms nested inside arguments of other function terms are outside the property (the implementation panics on them)",
    ],
}

E_RULE = ("cases are stratified programs (2-5 predicates p0..p4 of arity 0-2, 1-3 clauses each; a clause of p_i calls only p_j with j > i) whose "
          "bodies are built from calls, unification, comparisons, arithmetic function terms, append/count/include/functor, and/or groups nested to "
          "depth 2, and - depending on the run - `!`, `fail`, not(...), print/print_list/nl; arguments are variables, atoms, small integers, `$_`, "
          "lists with optional tail variable and f/1 terms. The query is asked with next_solution() until it reports no more answers (at most 40 "
          "requests) and then re-asked 1-3 more times. Compared per request: the returned substitution set (with variable ids), the resolved query, "
          "the variable counter and the text written to stdout. Non-trivial = at least two clauses or at least one answer; distinct = distinct "
          "encoded program text. Programs in which an occurs-check situation arises stop at that point in both runs. "
          "Every run also enumerates ALL 16478 programs `t($X) :- BODY.` + `t(other).` (in both clause orders) + `g(1). g(2). h(2). h(3). c($X) :- g($X), !. c(3). r($X) :- g($X).` whose BODY is a "
          "conjunction/disjunction of 1-3 goals (flat, `(a;b),c`, `a,(b;c)`, `(a,b);c`, `a;(b,c)`, `(a,b),c`) over the 11-goal alphabet "
          "{g($X), h($X), !, fail, $X = 2, print, not(h($X)), g($Y), $X < 2, c($X), r($X)} (c/1 cuts in its own clause, r/1 is a rule whose body has several answers).")


def engine_runs(prop, n, flagsets, what=None, exhaustive=1):
    runs = []
    for fl in flagsets:
        r = {'suite': 'engine', 'args': ['--props', prop, '--n', str(n)] + fl}
        if what:
            r['spec_oracle'] = {'prop': prop, 'what': what}
        runs.append(r)
    for i in range(exhaustive):
        r = {'suite': 'engine', 'args': ['--props', prop, '--exhaustive', '--shard', '%d/%d' % (i, exhaustive)]}
        if what:
            r['spec_oracle'] = {'prop': prop, 'what': what}
        runs.append(r)
    return runs


ENGINE_ASSUME = ("the property oracle compares the implementation's answers / output with the reference choicepoint-stack machine "
                 "(lean/SuironVerif/Spec/Machine.lean, run by the driver) up to renaming of unbound variables; cases on which the reference does not "
                 "finish within 400000 steps or meets an occurs-check situation are outside the comparison; a panicking built-in (e.g. arithmetic on an "
                 "unbound variable) ends the comparison at that point")

PROPS['C01'] = {
    'exhaustive_in': {'quick': True, 'thorough': True},
    'module': 'SuironVerif.Props.C01',
    'theorems': ['Suiron.C01.C01_pure', 'Suiron.C01.C01_exact', 'Suiron.C01.C01_full_language', 'Suiron.C01.C01_full_language_exact', 'Suiron.C01.okG_of_pureG', 'Suiron.C01.request_independent_of_fuel', 'Suiron.C01.C01_pure_node', 'Suiron.C01.askN_sound', 'Suiron.C01.answers_are_derivable_partial', 'Suiron.C01.sigma_const_partial', 'Suiron.C01.format_var_partial', 'Suiron.C01.format_skip_nonvar_partial', 'Suiron.C01.machine_answer_partial'],
    'oracles': ['C01'],
    'suites': {
        'quick': engine_runs('C01', 1500, [['--pure'], ['--pure', '--print', '2'], []], what='answers'),
        'thorough': engine_runs('C01', 20000, [['--pure']] * 8 + [['--pure', '--print', '2']] * 2 + [[]] * 4, what='answers'),
    },
    'rule': E_RULE, 'design_ref': '5.1',
    'assumptions': ["proved: (1) REFINEMENT on the cut-free fragment (C01_pure): for every knowledge base whose bodies use calls, built-ins other than `!`, "
                    "conjunction, disjunction and not(...), every query, fuel and number of requests, the answers (and the text written so far) of the successive requests are exactly "
                    "those of the reference machine Spec/PureMachine.lean started on the query - same answers, order, multiplicity, none for ever once it is exhausted; "
                    "(2) SOUNDNESS for all programs (every answer is SLD-derivable, Spec/SLD.lean), whatever cuts / negations ran; (3) no leakage between alternatives, the "
                    "answer formatting. The machine is proved deterministic (Lemmas/MachineDet.lean, from the fuel monotonicity of every model function, Lemmas/FuelMono.lean), so `exactly` is literal: "
                    "C01_exact. PARTIAL: the refinement for programs with `!` or time(...) is not proved (machine comparison on every run); termination (that a request "
                    "returns for some fuel) is outside the theorems - the outcome is proved independent of the fuel (request_independent_of_fuel)",
                    ENGINE_ASSUME],
}
PROPS['C02'] = {
    'exhaustive_in': {'quick': True, 'thorough': True},
    'module': 'SuironVerif.Props.C02',
    'theorems': ['Suiron.C02.cut_executes', 'Suiron.C02.marked_node_blocks', 'Suiron.C02.no_later_clause', 'Suiron.C02.cut_then_fail_ends_call',
                 'Suiron.C02.cut_is_local', 'Suiron.C02.cut_marks', 'Suiron.C02.cut_yields_at_most_this_answer',
                 'Suiron.C02.C02_flat', 'Suiron.C02.C02_flat_exact', 'Suiron.C02.machine_barriers_wf', 'Suiron.C02.machine_cut',
                 'Suiron.C02.machine_commit', 'Suiron.C02.C02_groups', 'Suiron.C02.C02_groups_exact', 'Suiron.C02.group_machine_barriers_wf',
                 'Suiron.C02.group_machine_cut', 'Suiron.C02.group_machine_commit_group', 'Suiron.C02.group_machine_commit_body'],
    'oracles': ['C02'],
    'suites': {
        'quick': engine_runs('C02', 1500, [['--cut', '8', '--not', '0'], ['--cut', '5'], ['--cut', '10', '--print', '3', '--not', '0']], what='both'),
        'thorough': engine_runs('C02', 20000, [['--cut', '8', '--not', '0']] * 6 + [['--cut', '5']] * 4 + [['--cut', '10', '--print', '3', '--not', '0']] * 4, what='both'),
    },
    'rule': E_RULE + " Runs here put `!` at every position of conjunctions and disjunctions (never inside not/time), often followed by `fail`.",
    'design_ref': '5.2',
    'assumptions': ["the theorems are about the engine model: a cut marks every node it passes on its way up, a marked node is never entered again and "
                    "changes nothing, a call whose body cut and failed tries no later clause, a call never passes a cut on to its caller; the refinement to the "
                    "reference machine with cut and groups (Spec/GroupMachine.lean) is proved for rule bodies in which no `!` is written directly inside not(...) or time(...)",
                    ENGINE_ASSUME],
}
PROPS['C03'] = {
    'exhaustive_in': {'quick': True, 'thorough': True},
    'module': 'SuironVerif.Props.C03',
    'theorems': ['Suiron.C03.not_once', 'Suiron.C03.not_hides_bindings', 'Suiron.C03.not_iff', 'Suiron.C03.not_then_exhausted',
                 'Suiron.C03.inner_search_is_reference', 'Suiron.C03.C03_reference', 'Suiron.C03.C03_iff',
                 'Suiron.C03.inner_search_is_reference_with_cut', 'Suiron.C03.C03_reference_with_cut', 'Suiron.C03.C03_iff_with_cut'],
    'oracles': ['C03'],
    'suites': {
        'quick': engine_runs('C03', 1500, [['--not', '8', '--cut', '0'], ['--not', '6', '--cut', '2'], ['--not', '8', '--print', '3', '--cut', '0'], ['--not', '8', '--cut', '4', '--cut-in-not']], what='both'),
        'thorough': engine_runs('C03', 20000, [['--not', '8', '--cut', '0']] * 6 + [['--not', '6', '--cut', '2']] * 4 + [['--not', '8', '--print', '3', '--cut', '0']] * 2 + [['--not', '8', '--cut', '4', '--cut-in-not']] * 3, what='both'),
    },
    'rule': E_RULE + " Runs here wrap calls, conjunctions, disjunctions, unifications and comparisons in not(...); the `--cut-in-not` run also puts `!` inside the "
            "negated goal (for those programs only implementation and engine model are compared: the reference machine does not define a cut under not).",
    'design_ref': '5.3',
    'assumptions': ["`G has no answer` is proved against the reference machine (Spec/PureMachine.lean) for every cut-free G over a cut-free knowledge base "
                    "(C03_reference), and against the machine with cut, groups, negation and timing (Spec/GroupMachine.lean) for every G in which no `!` is "
                    "written, over knowledge bases whose clauses may cut (C03_reference_with_cut); for a G with a `!` written directly inside it is read on the "
                    "engine model (G's node, asked once, reports none) and the agreement with the reference search is decided by the machine comparison", ENGINE_ASSUME],
}
PROPS['C04'] = {
    'exhaustive_in': {'quick': True, 'thorough': True},
    'module': 'SuironVerif.Props.C04',
    'theorems': ['Suiron.C04.output_in_search_order', 'Suiron.C04.output_in_search_order_with_cut', 'Suiron.C04.bip_effect_once', 'Suiron.C04.bip_output_appended', 'Suiron.C04.interleave_eq', 'Suiron.C04.interleave_no_markers',
                 'Suiron.C04.print_shows_bound_value'],
    'oracles': ['C04'],
    'suites': {
        'quick': engine_runs('C04', 1500, [['--print', '8'], ['--print', '8', '--cut', '0', '--not', '0'], ['--print', '6', '--cut', '6'], ['--print', '6', '--time', '4']], what='output'),
        'thorough': engine_runs('C04', 20000, [['--print', '8']] * 6 + [['--print', '8', '--cut', '0', '--not', '0']] * 4 + [['--print', '6', '--cut', '6']] * 4, what='output'),
    },
    'rule': E_RULE + " Runs here place print / print_list / nl goals among backtracking goals; stdout is captured per request.",
    'design_ref': '5.4',
    'assumptions': ["output order and multiplicity are decided by comparing the captured stdout per request with the reference machine's output; "
                    "the duration written by `time(...)` is replaced by a placeholder on both sides", ENGINE_ASSUME],
}
PROPS['C05'] = {
    'exhaustive_in': {'quick': True, 'thorough': True},
    'module': 'SuironVerif.Props.C05',
    'theorems': ['Suiron.C05.none_exhausts', 'Suiron.C05.exhausted_stays', 'Suiron.C05.reasked', 'Suiron.C05.C05'],
    'oracles': ['C05'],
    'suites': {
        'quick': engine_runs('C05', 1500, [[], ['--not', '6'], ['--cut', '6', '--print', '4'], ['--time', '6', '--print', '3']]) +
                 [{'suite': 'timer', 'args': ['--props', 'C05', '--n', '150', '--stopped']}],
        'thorough': engine_runs('C05', 20000, [[]] * 6 + [['--not', '6']] * 4 + [['--cut', '6', '--print', '4']] * 4 + [['--time', '6', '--print', '3']] * 3) +
                 [{'suite': 'timer', 'args': ['--props', 'C05', '--n', '3000', '--stopped']}],
    },
    'rule': E_RULE + " Every case is re-asked 1-3 times after the first `no more answers`. The `--time` run wraps goals in time(...) (the duration it writes is replaced by a placeholder).",
    'design_ref': '5.5',
    'assumptions': ["theorems: for every node, knowledge base, global state and fuel; a request that runs out of fuel (the model's rendering of "
                    "non-termination) is the only alternative to `none` the statement allows",
                    "oracle on the implementation: after the first None every further next_solution() returns None and writes nothing"],
}

B_RULE = ("cases are one-clause programs `t($V1..$Vn) :- <bindings>, <built-in goal>.` asked through next_solution(); each operand of the built-in is written "
          "literally or reached through a chain of 1-3 bound variables (either orientation of the binding goal); compared with the model exactly as in "
          "the engine suite (substitution sets with ids, resolved answer, counter, stdout). Non-trivial = not (no answer and fewer than two clauses); "
          "distinct = distinct encoded program text.")


def builtin_runs(prop, kind, n, count, exhaustive=0):
    runs = [{'suite': 'builtins', 'args': ['--kind', kind, '--props', prop, '--n', str(n)]} for _ in range(count)]
    for i in range(exhaustive):
        runs.append({'suite': 'builtins', 'args': ['--kind', kind, '--props', prop, '--exhaustive', '--shard', '%d/%d' % (i, exhaustive)]})
    return runs


PROPS['C12'] = {
    'module': 'SuironVerif.Props.C12',
    'theorems': ['Suiron.C12.foldInt_eq', 'Suiron.C12.add_ints', 'Suiron.C12.multiply_ints', 'Suiron.C12.subtract_ints', 'Suiron.C12.divide_ints',
                 'Suiron.C12.add_floats', 'Suiron.C12.multiply_floats', 'Suiron.C12.subtract_floats', 'Suiron.C12.divide_floats',
                 'Suiron.C12.toFloats_spec', 'Suiron.C12.numbers_through_bindings', 'Suiron.C12.value_is_unified'],
    'oracles': ['C12'],
    'suites': {'quick': builtin_runs('C12', 'arith', 3000, 2, exhaustive=1), 'thorough': builtin_runs('C12', 'arith', 50000, 8, exhaustive=4)},
    'exhaustive_in': {'quick': True, 'thorough': True},
    'rule': B_RULE + " Here: `$R = f(args)` / `f(args) = $R` for f in add/subtract/multiply/divide over 1-4 numbers from a pool of 16 integers and floats "
            "(negatives, zeros incl. -0.0, 1e300, values whose products overflow); the exhaustive part enumerates all argument lists of length 1-3 over 8 numbers.",
    'design_ref': '5.12',
    'assumptions': ["float + - * / and i64->f64 are parameters (FloatOps): the theorems hold for every implementation of them; the driver uses the machine's doubles",
                    "oracle on the implementation: the bound result equals the harness' own left fold (checked i64 arithmetic with truncating division, else f64 with "
                    "integers converted), compared numerically (NaN = NaN); cases whose fold overflows or divides an integer by zero are outside the claim"],
}
PROPS['C14'] = {
    'module': 'SuironVerif.Props.C14',
    'theorems': ['Suiron.C14.compare_constants', 'Suiron.C14.fails_left', 'Suiron.C14.fails_right', 'Suiron.C14.constant_literal', 'Suiron.C14.constant_unbound',
                 'Suiron.C14.nonconstant', 'Suiron.C14.atom_number', 'Suiron.C14.int_order', 'Suiron.C14.atom_order', 'Suiron.C14.float_order'],
    'oracles': ['C14'],
    'suites': {'quick': builtin_runs('C14', 'cmp', 2000, 2, exhaustive=1), 'thorough': builtin_runs('C14', 'cmp', 50000, 6, exhaustive=4)},
    'exhaustive_in': {'quick': True, 'thorough': True},
    'rule': B_RULE + " Here: the five comparison predicates over 24 constants (integers incl. i64 extremes and 2^53+1, floats incl. -0.0, fractions and 2^63, "
            "atoms incl. unicode, spaces and digit strings), lists, complex terms and unbound variables; the exhaustive part is the full table "
            "27 x 27 operands x 5 predicates, literal and chained; every case is paired with the same program without the comparison.",
    'design_ref': '5.14',
    'assumptions': ["i64->f64 conversion is the FloatOps parameter `ofInt` (the driver uses the machine conversion); IEEE comparison is defined in Lean on bit patterns",
                    "oracle on the implementation: exactly one answer when Rust's own comparison of the two constants holds (i64 cmp, f64 partial_cmp after `as f64`, "
                    "String cmp), none otherwise (incl. unbound / non-constant / atom-vs-number); on success the substitution set equals that of the program "
                    "without the comparison goal"],
}
PROPS['C16'] = {
    'module': 'SuironVerif.Props.C16',
    'theorems': ['Suiron.C16.collect_cons', 'Suiron.C16.collect_nil', 'Suiron.C16.append_spec', 'Suiron.C16.append_result_elems', 'Suiron.C16.contribution_atom',
                 'Suiron.C16.contribution_bound', 'Suiron.C16.listHeads_proper', 'Suiron.C16.getTerms_proper'],
    'oracles': ['C16'],
    'suites': {'quick': builtin_runs('C16', 'append', 3000, 3), 'thorough': builtin_runs('C16', 'append', 50000, 10)},
    'rule': B_RULE + " Here: append with 1-4 inputs: atoms, numbers, complex terms and lists of 0-4 elements (nested and empty lists as elements, elements that are "
            "variables bound to constants, a front part plus a bound tail variable), each possibly behind a variable chain.",
    'design_ref': '5.16',
    'assumptions': ["oracle on the implementation: exactly one answer whose resolved output is the proper list of all logical elements, in order",
                    "unbound variables as inputs are outside the property's quantifier (the implementation skips them)"],
}
PROPS['C17'] = {
    'module': 'SuironVerif.Props.C17',
    'theorems': ['Suiron.C17.count_spec', 'Suiron.C17.listHeads_count', 'Suiron.C17.count_proper', 'Suiron.C17.count_empty', 'Suiron.C17.filter_spec',
                 'Suiron.C17.filter_unifies_under_sigma', 'Suiron.C17.functor_match', 'Suiron.C17.functor_noncomplex', 'Suiron.C17.join_words',
                 'Suiron.C17.join_first', 'Suiron.C17.join_punct', 'Suiron.C17.join_uses_values'],
    'oracles': ['C17'],
    'suites': {'quick': builtin_runs('C17', 'c17', 3000, 3), 'thorough': builtin_runs('C17', 'c17', 50000, 10)},
    'rule': B_RULE + " Here: count, include, exclude, functor (2 and 3 arguments, exact and `prefix*` patterns, arity 0-4) and join (words, punctuation, numbers, "
            "list arguments) over lists as in C16, filter patterns a / $_ / unbound variable / [$_] / f($V).",
    'design_ref': '5.17',
    'assumptions': ["oracle on the implementation: count = number of logical elements; include/exclude = the elements that do / do not unify with the pattern "
                    "(computed by unifying a renamed pattern with each element on an empty set) and pattern variables still unbound afterwards; functor name/arity "
                    "and prefix matching; join = the documented spacing rule on the resolved words"],
}

PROPS['C10'] = {
    'module': 'SuironVerif.Props.C10',
    'theorems': ['Suiron.C10.rename_shape', 'Suiron.C10.rename_shapeL', 'Suiron.C10.rename_ok', 'Suiron.C10.rename_okL', 'Suiron.C10.rename_consistent',
                 'Suiron.C10.rename_list_consistent', 'Suiron.C10.make_query_fresh', 'Suiron.C10.ids_stay_below_counter', 'Suiron.C10.fresh_in_search'],
    'oracles': ['C10'],
    'suites': {
        'quick': [{'suite': 'rename', 'args': ['--props', 'C10', '--n', '4000']}, {'suite': 'rename', 'args': ['--props', 'C10', '--exhaustive']},
                  {'suite': 'engine', 'args': ['--props', 'C10', '--n', '800']}],
        'thorough': [{'suite': 'rename', 'args': ['--props', 'C10', '--n', '50000']} for _ in range(6)] + [{'suite': 'rename', 'args': ['--props', 'C10', '--exhaustive']}]
                    + [{'suite': 'engine', 'args': ['--props', 'C10', '--n', '20000']} for _ in range(3)],
    },
    'exhaustive_in': {'quick': True, 'thorough': True},
    'rule': "rename suite: Rule::recreate_variables called directly on rules of the engine generator and on rules with rich heads (nested lists with and without tail "
            "variable, empty lists, `$_`, function terms, complex terms, repeated names) at a random counter value 0-49; exhaustive part: all lists of length <= 3 over "
            "7 element kinds (with/without tail variable) as fact heads. Compared with the model: the complete renamed rule (every id, count and flag) and the counter. "
            "The engine runs add renamings taken in the middle of a search (ids and counter after every request). Non-trivial/distinct = distinct encoded case text.",
    'design_ref': '5.10',
    'assumptions': ["oracle on the implementation: with all ids erased the rule is unchanged; each name has one id and each id one name; every id is above the counter the "
                    "renaming started from; the counter advances by the number of distinct names",
                    "`no fresh variable is in use elsewhere in the current search` is PROVED for the reference machine with cut (fresh_in_search, ids_stay_below_counter, "
                    "Lemmas/FreshInSearch.lean): along every run from a query every variable id in the configuration - goal lists, substitution sets, kept alternatives, inner "
                    "searches of not / time - is at most the counter, and the clause get_rule hands out from that counter has ids above it only; fragment: the control language with "
                    "!, fail, nl, =, the comparisons, no function terms (the invariant carried by the renaming simulation of C11, taken at the identity renaming). Beyond the "
                    "fragment the engine runs check the counter after every request against the model"],
}
PROPS['C11'] = {
    'module': 'SuironVerif.Props.C11',
    'theorems': ['Suiron.C11.rename_commutes_partial', 'Suiron.C11.rename_commutesL_partial', 'Suiron.C11.counter_independent_partial',
                 'Suiron.C11.beq_names_partial', 'Suiron.C11.beqL_names_partial', 'Suiron.C11.unification_blind_to_names', 'Suiron.C11.rename_apart_commutes',
                 'Suiron.C11.C11_machine', 'Suiron.C11.C11_machine_with_cut', 'Suiron.C11.C11_engine'],
    'oracles': ['C11'],
    'suites': {
        'quick': [{'suite': 'engine', 'args': ['--alpha', '--props', 'C11', '--n', '700']}, {'suite': 'engine', 'args': ['--alpha', '--props', 'C11', '--n', '500', '--pure']},
                  {'suite': 'engine', 'args': ['--alpha', '--props', 'C11', '--n', '500', '--print', '6']}],
        'thorough': [{'suite': 'engine', 'args': ['--alpha', '--props', 'C11', '--n', '10000']} for _ in range(8)] +
                    [{'suite': 'engine', 'args': ['--alpha', '--props', 'C11', '--n', '10000', '--print', '6']} for _ in range(4)],
    },
    'rule': E_RULE + " Each program is run four times: as generated (rules and query share one pool of variable names), with per-rule fresh names, with one permutation "
            "of the shared pool applied to all rules, and with long non-ASCII names.",
    'design_ref': '5.11',
    'assumptions': ["PARTIAL: C11_engine proves the property for the ENGINE MODEL on the whole control language (calls with atom functors, !, conjunctions and disjunctions nested to any "
                    "depth, not, time) with the built-in predicates fail, nl, = (unify) and the five comparisons, without the other built-in predicates and without function terms: a knowledge base whose rules are each renamed by an injective map of their own gives, "
                    "request by request, the renamed answers with the same output. It follows from C11_machine_with_cut / C11_machine (the reference machines are blind to names: "
                    "every step on kb is the same step on kb' between renamed configurations), the refinement of C01 for both knowledge bases and the determinism of the machine; "
                    "underneath, unification_blind_to_names (unify commutes with a renaming that is injective for each id) and rename_apart_commutes (same ids whatever the names). "
                    "Programs with the other built-in predicates or function terms (print, print_list, join write variable names; append, count, include, exclude, functor are not taken through the renaming) are decided by the oracle",
                    "oracle on the implementation: the four runs give the same answers (variables numbered by first occurrence), in the same order, with the same output "
                    "(names of printed unbound variables masked)"],
}
PROPS['C15'] = {
    'module': 'SuironVerif.Props.C15',
    'theorems': ['Suiron.C15.built_list_elems', 'Suiron.C15.built_list_wf', 'Suiron.C15.constructor_plain', 'Suiron.C15.constructor_tail', 'Suiron.C15.constructor_splice',
                 'Suiron.C15.constructor_splice_empty', 'Suiron.C15.constructor_count', 'Suiron.C15.rename_keeps_cells', 'Suiron.C15.rename_keeps_empty'],
    'oracles': ['C15', 'C10', 'C16', 'C17'],
    'suites': {
        'quick': [{'suite': 'lists', 'args': ['--props', 'C15', '--n', '3000']}, {'suite': 'lists', 'args': ['--props', 'C15', '--exhaustive']},
                  {'suite': 'rename', 'args': ['--props', 'C10', '--exhaustive']},
                  {'suite': 'builtins', 'args': ['--kind', 'append', '--props', 'C16', '--n', '2000', '--no-tails']},
                  {'suite': 'builtins', 'args': ['--kind', 'c17', '--props', 'C17', '--n', '2000', '--only-filter', '--no-tails']},
                  {'suite': 'builtins', 'args': ['--kind', 'c17', '--props', 'C17', '--n', '1500', '--only-filter']}],
        'thorough': [{'suite': 'lists', 'args': ['--props', 'C15', '--n', '100000']} for _ in range(4)] + [{'suite': 'lists', 'args': ['--props', 'C15', '--exhaustive']},
                  {'suite': 'rename', 'args': ['--props', 'C10', '--exhaustive']}, {'suite': 'rename', 'args': ['--props', 'C10', '--n', '50000']},
                  {'suite': 'builtins', 'args': ['--kind', 'append', '--props', 'C16', '--n', '50000', '--no-tails']},
                  {'suite': 'builtins', 'args': ['--kind', 'c17', '--props', 'C17', '--n', '50000', '--only-filter', '--no-tails']},
                  {'suite': 'builtins', 'args': ['--kind', 'c17', '--props', 'C17', '--n', '30000', '--only-filter']}],
    },
    'exhaustive_in': {'quick': True, 'thorough': True},
    'rule': "lists suite: make_linked_list (tail flag on/off) and make_list_of_terms called on vectors of 0-5 terms over atoms, integers, floats, variables, `$_`, the empty list, "
            "a 2-element list, a list with tail variable and a complex term; exhaustive part: all vectors of length <= 3 over those 9 kinds x both builders x tail flag. "
            "Compared with the model: the complete structure (every count and flag). Renamed clause lists come from the rename suite, append/include/exclude results from "
            "the builtins suite (inputs without bound tail variables, so that only the building of the result is judged here). Non-trivial/distinct = distinct encoded case text.",
    'design_ref': '5.15',
    'assumptions': ["oracle on the implementation: the result is well formed (counts = remaining cells, ends in the empty node, tail variable last) and holds exactly the given "
                    "terms, resp. — for the documented constructor — the terms, a trailing tail variable as tail, a trailing list spliced in as the rest",
                    "parsed lists are compared with lists built node by node once the parser suite exists (C19/C20)"],
}

T_RULE = ("cases are histories on one knowledge base (programs of the engine generator without arithmetic, pre-screened: no panic, no occurs-check situation, "
          "finite): 1-5 operations, each building a query with make_query and running it with next_solution (until None), solve (until `No more.` or the "
          "timeout message) or solve_all; for solve/solve_all the verification hook makes the timer's flag write land at the n-th count_rules() call, n in 0 "
          "(never) or 1-12; `--interleave` histories keep up to 3 query handles and interleave single next_solution() requests with the construction and the "
          "complete runs of other queries; `--all-ticks` takes a program and places the write at EVERY tick 1..T+1 of its solve_all run, for solve and solve_all. "
          "Compared with the model per operation: every returned string / resolved answer and the captured stdout. Non-trivial/distinct = distinct encoded history.")

PROPS['C22'] = {
    'module': 'SuironVerif.Props.C22',
    'theorems': ['Suiron.C22.build_forgets_history', 'Suiron.C22.request_ignores_history', 'Suiron.C22.base_node_ignores_history', 'Suiron.C22.first_request_independent',
                 'Suiron.C22.out_grows', 'Suiron.C22.run_ignores_history', 'Suiron.C22.C22'],
    'oracles': ['C22'],
    'suites': {
        'quick': [{'suite': 'timer', 'args': ['--props', 'C22', '--n', '400']}, {'suite': 'timer', 'args': ['--props', 'C22', '--n', '300', '--interleave']},
                  {'suite': 'timer', 'args': ['--props', 'C22', '--real', '--n', '1', '--case-timeout-ms', '90000'], 'timeout': 180}],
        'thorough': [{'suite': 'timer', 'args': ['--props', 'C22', '--n', '8000']} for _ in range(6)] + [{'suite': 'timer', 'args': ['--props', 'C22', '--n', '8000', '--interleave']} for _ in range(4)]
                    + [{'suite': 'timer', 'args': ['--props', 'C22', '--real', '--n', '6', '--case-timeout-ms', '200000'], 'timeout': 400}],
    },
    'rule': T_RULE, 'design_ref': '5.22',
    'assumptions': ["theorem C22: the same query built (make_query + make_base_node) in two arbitrary histories gives, for any number of next_solution requests incl. re-asks "
                    "after exhaustion, the same answers and writes the same text per request; runs through solve / solve_all (which add the timer) are covered by the "
                    "C23 theorems for one call and otherwise decided by the oracle",
                    "oracle on the implementation: every whole-run operation of a history returns exactly what the same operation returns in a fresh process state; the "
                    "requests on each kept handle return what the handle's query returns when run alone (ids canonicalised); a stress of 3000 start/cancel cycles of the "
                    "query timer must leave the stop flag clear 1.3 s later",
                    "KNOWN FINDING F1 (open): constructing a query while an earlier one is still being asked corrupts the earlier one (shared counter reset)"],
}
PROPS['C23'] = {
    'module': 'SuironVerif.Props.C23',
    'theorems': ['Suiron.C23.stop_monotone', 'Suiron.C23.no_spontaneous_stop', 'Suiron.C23.stopped_counts_zero', 'Suiron.C23.solve_spec', 'Suiron.C23.solve_never_early',
                 'Suiron.C23.solveAllLoop_extends', 'Suiron.C23.solveAll_spec', 'Suiron.C23.solveAllLoop_no_stop', 'Suiron.C23.solveAll_never_early'],
    'oracles': ['C23'],
    'suites': {
        'quick': [{'suite': 'timer', 'args': ['--props', 'C23', '--n', '400']}, {'suite': 'timer', 'args': ['--props', 'C23', '--n', '25', '--all-ticks']},
                  {'suite': 'timer', 'args': ['--props', 'C23', '--real', '--n', '2', '--case-timeout-ms', '90000'], 'timeout': 180}],
        'thorough': [{'suite': 'timer', 'args': ['--props', 'C23', '--n', '8000']} for _ in range(4)] + [{'suite': 'timer', 'args': ['--props', 'C23', '--n', '500', '--all-ticks']} for _ in range(6)]
                    + [{'suite': 'timer', 'args': ['--props', 'C23', '--real', '--n', '40', '--case-timeout-ms', '500000'], 'timeout': 900}],
    },
    'exhaustive_in': {'quick': False, 'thorough': False},
    'rule': T_RULE + " The `--real` run uses the real 1 s timer thread without the hook: 200 fast histories must never show the timeout message; searches of 12^7 "
            "combinations (several seconds) must show it, return within 2.5 s, and report only answers of the untimed sequence before it.",
    'design_ref': '5.23',
    'assumptions': ["PARTIAL with respect to real time: the model has ticks, not seconds; that the thread writes the flag only after >= 1 s and that cancel_timer() "
                    "prevents a later write are exercised by the real-timer runs and the cancel stress, not proved",
                    "oracle on the implementation: solve_all's result is a prefix of the untimed answers, complete unless followed by the timeout message, which appears "
                    "only when the hook fired; each solve() call returns the next untimed answer, `No more.` at the end, or the timeout message (only when the hook fired)"],
}

P_RULE = ("cases are strings handed to the parser entry points parse_term, parse_linked_list, parse_complex, parse_function, parse_query, parse_subgoal, "
          "generate_goal and parse_rule. Streams: `grammar` = text of random canonical terms / subgoals / bodies / rules rendered by the harness' own renderer "
          "(atoms incl. blanks and non-ASCII letters, integers, floats, variables, `$_`, lists with tail variable, complex terms of arity 0-3, built-ins, "
          "unification with function terms, not(...), conjunctions, disjunctions of conjunctions); `mutate` = 1-2 single-character deletions / insertions / "
          "replacements (from the 22 syntax characters) of such text, sometimes through another entry point; `random` = random strings of length <= 13 over "
          "the syntax characters plus a few letters and digits; `spellings` = documented non-printed spellings (quoted atoms with blanks, commas, brackets and "
          "non-ASCII text, extra blanks, zero-arity goals and facts without parentheses, infix comparison and arithmetic); `strings` = ALL strings of length <= n "
          "over the 12 symbols `a $ X 1 ( ) [ ] , blank = \\` through all 8 entry points; `goalstrings` = ALL strings of length <= n over `a ( ) , ; blank [ ] \" \\` "
          "through generate_goal and as rule bodies. Compared with the model per case: ok + the complete parsed value (every count, flag and float bit) + the "
          "text the implementation prints for it, or err, or panic. Non-trivial = at least 2 characters; distinct = distinct encoded case text.")


def parse_runs(props, kinds):
    runs = []
    for kind, n, extra in kinds:
        if isinstance(extra, int):
            for i in range(extra):
                runs.append({'suite': 'parse', 'args': ['--kind', kind, '--props', props, '--n', str(n), '--shard', '%d/%d' % (i, extra)]})
        else:
            runs.append({'suite': 'parse', 'args': ['--kind', kind, '--props', props, '--n', str(n)] + (extra or [])})
    return runs


PROPS['C18'] = {
    'module': 'SuironVerif.Props.C18',
    'theorems': ['Suiron.C18.term_parsers_never_panic', 'Suiron.C18.parse_term_never_panics', 'Suiron.C18.parse_arguments_never_panics',
                 'Suiron.C18.parse_linked_list_never_panics', 'Suiron.C18.parse_complex_never_panics', 'Suiron.C18.parse_function_never_panics',
                 'Suiron.C18.parse_query_never_panics', 'Suiron.C18.parse_subgoal_never_panics', 'Suiron.C18.tokenize_never_panics', 'Suiron.C18.generate_goal_never_panics',
                 'Suiron.C18.parse_rule_never_panics', 'Suiron.C18.tokenizer_output_shape', 'Suiron.C18.C18_term', 'Suiron.C18.C18_subgoal',
                 'Suiron.C18.C18_query', 'Suiron.C18.C18_goal', 'Suiron.C18.C18_rule',
                 'Suiron.C18.parse_term_terminates', 'Suiron.C18.parse_arguments_terminates', 'Suiron.C18.parse_linked_list_terminates',
                 'Suiron.C18.parse_complex_terminates', 'Suiron.C18.parse_function_terminates', 'Suiron.C18.parse_query_terminates',
                 'Suiron.C18.parse_subgoal_terminates', 'Suiron.C18.tokenize_terminates', 'Suiron.C18.group_tokens_terminates', 'Suiron.C18.group_tokens_linear_work',
                 'Suiron.C18.generate_goal_terminates', 'Suiron.C18.parse_rule_terminates', 'Suiron.C18.parse_rule_outcome_unique',
                 'Suiron.C18.parse_term_outcome_unique'],
    'oracles': ['C18'],
    'suites': {
        'quick': parse_runs('C18', [('grammar', 3000, None), ('mutate', 8000, None), ('mutate', 8000, None), ('random', 8000, None),
                                    ('spellings', 1500, None), ('strings', 4, 2), ('goalstrings', 5, 2), ('listtokens', 5, 2)]),
        'thorough': parse_runs('C18', [('grammar', 50000, None)] + [('mutate', 200000, None) for i in range(5)] +
                               [('random', 200000, None) for i in range(3)] + [('spellings', 20000, None), ('strings', 5, 6), ('goalstrings', 6, 6), ('listtokens', 7, 6)]),
    },
    'exhaustive_in': {'quick': True, 'thorough': True},
    'rule': P_RULE, 'design_ref': '5.18',
    'assumptions': ["proved for all eight entry points (every index, slice, unwrap and panic! of the Rust code is an "
                    "explicit panic branch of the model, shown unreachable for every input); TERMINATION is proved for all eight entry points (the model's out-of-fuel "
                    "outcome is impossible: 3|s|+3 units of fuel for parse_term, 3|s|+4 for parse_subgoal, some fuel for generate_goal / parse_rule; the outcome does "
                    "not depend on the fuel); the token grouping stage of generate_goal / parse_rule never panics by shape invariants carried from the tokenizer "
                    "through group_tokens, group_and_tokens and group_or_tokens (Lemmas/ParseGroup.lean). Outside the theorems: the fidelity of the model "
                    "(correspondence suite, no-panic oracle); the fuel bounds recursion depth, not work: polynomial time is decided by the timed deep-nesting cases (D18)",
                    "oracle on the implementation: every call returns Ok or Err (catch_unwind per call; goals and rules with parentheses nested 24-31 deep must come back within a second; a watchdog turns a call that does not return within 20 s into an abort)",
                    "float parsing (str::parse::<f64>) and char::is_alphabetic are parameters of the model; the driver supplies an exact decimal-to-double conversion and the "
                    "Unicode classification for Latin, Greek and Cyrillic letters; the generators stay inside that alphabet"],
}
PROPS['C19'] = {
    'module': 'SuironVerif.Props.C19',
    'theorems': ['Suiron.C19.show_and_groups_or', 'Suiron.C19.show_and_groups_and', 'Suiron.C19.show_or_keeps_and', 'Suiron.C19.show_or_groups_or',
                 'Suiron.C19.show_fact', 'Suiron.C19.show_rule', 'Suiron.C19.show_unify', 'Suiron.C19.integers_round_trip', 'Suiron.C19.complex_terms_round_trip', 'Suiron.C19.lists_round_trip', 'Suiron.C19.facts_round_trip', 'Suiron.C19.zero_arity_facts_round_trip', 'Suiron.C19.unification_goals_round_trip'],
    'oracles': ['C19'],
    'suites': {
        'quick': parse_runs('C19', [('grammar', 6000, None), ('grammar', 6000, None), ('spellings', 2500, None), ('mutate', 4000, None)]),
        'thorough': parse_runs('C19', [('grammar', 200000, None) for i in range(6)] + [('spellings', 50000, None), ('mutate', 100000, None)]),
    },
    'rule': P_RULE, 'design_ref': '5.19',
    'assumptions': ["PARTIAL: the printer lemmas (grouping parentheses, rule and unification layout) are proved; the round trip parse(show v) = v is proved for integers, word atoms, variables, $_, "
                    "complex terms, lists and lists with a tail variable of such terms nested to any depth (Canon), reduced to make_term for the other token-level "
                    "terms (through the C20 lemmas) and is otherwise decided by the grammar stream: text rendered by the harness must parse to the denoted value, print back as "
                    "the same text and re-parse to the same value, and the model's parser and printer must agree with the implementation's on every case",
                    "canonical text = what the printer writes: comparisons in their named form (less_than(a, b)), zero-arity terms as f(), conjunctions inside disjunctions "
                    "without parentheses; floats are taken from a set whose shortest decimal form is exact",
                    "parenthesised groups nested inside each other (to depth 3) are part of the grammar stream since repair D18 (former finding F2)"],
}
PROPS['C20'] = {
    'module': 'SuironVerif.Props.C20',
    'theorems': ['Suiron.C20.alone', 'Suiron.C20.as_argument', 'Suiron.C20.as_complex_argument', 'Suiron.C20.as_list_element', 'Suiron.C20.as_infix_operand',
                 'Suiron.C20.as_query_argument', 'Suiron.C20.C20_token', 'Suiron.C20.as_argument_structured', 'Suiron.C20.as_complex_argument_structured', 'Suiron.C20.as_query_argument_structured', 'Suiron.C20.as_list_element_structured', 'Suiron.C20.among_other_arguments', 'Suiron.C20.complex_with_arguments', 'Suiron.C20.list_with_elements', 'Suiron.C20.list_with_tail', 'Suiron.C20.as_infix_operand_structured', 'Suiron.C20.canonical_term_as_infix_operand', 'Suiron.C20.as_comparison_operand_structured', 'Suiron.C20.canonical_term_as_comparison_operand'],
    'oracles': ['C20'],
    'suites': {
        'quick': parse_runs('C20', [('contexts', 6000, None), ('contexts', 6000, None), ('mutate', 3000, None), ('ctxstrings', 4, 2)]),
        'thorough': parse_runs('C20', [('contexts', 200000, None) for i in range(6)] + [('mutate', 100000, None), ('ctxstrings', 5, 8)]),
    },
    'rule': "contexts stream: a term text (random canonical term of depth <= 2, one of 100 special spellings, or - ctxstrings - EVERY string up to length 4 / 5 over the 12 characters `a 1 . - \" \\ ( ) [ ] blank $`; spellings: signed numbers, digit strings with blanks inside, signs "
            "alone, `1e5`, `3.`, `.5`, i64 extremes, odd variable names, escaped commas and other escapes, quoted numbers, quoted texts with parentheses, digits next to brackets, stray quotes, arithmetic infix) is parsed alone, as `f(T)`, "
            "as `[T]`, as `T = x`, as the query `q(T)`, after a float, among other arguments and after a float in a list; compared with the model: the eight results (ids erased). " + P_RULE,
    'design_ref': '5.20',
    'assumptions': ["PARTIAL: proved for token texts (no blanks, none of `[ ] ( ) , \" \\ |`): all five contexts give parse_term's result; structured texts are decided by "
                    "the contexts stream",
                    "oracle on the implementation: the eight results are equal whenever the text is a single embeddable term text: no unescaped top-level comma / bar, parentheses, "
                    "brackets and quotes closed (quotes pairing at every depth), not ending in an escape",
                    "KNOWN FINDING F3 (open): a text with a top-level arithmetic infix is a function term alone, in a list and next to `=`, but an atom or a variable as an argument",
                    "KNOWN FINDING F4 (open): a backslash inside the parentheses, brackets or quotes of a text, directly before its closing quote, or an escaped backslash, is read differently in some contexts"],
}
PROPS['C21'] = {
    'module': 'SuironVerif.Props.C21',
    'theorems': ['Suiron.C21.load_is_parse_each', 'Suiron.C21.parseAll_spec', 'Suiron.C21.load_or_reject', 'Suiron.C21.separate_rules_exact', 'Suiron.C21.join_lines_exact',
                 'Suiron.C21.bad_line_rejected', 'Suiron.C21.layout_of_rule', 'Suiron.C21.strip_comments_exact', 'Suiron.C21.clean_line_closed', 'Suiron.C21.line_of_piece',
                 'Suiron.C21.comment_line_ignored', 'Suiron.C21.blank_line_ignored', 'Suiron.C21.C21'],
    'oracles': ['C21'],
    'suites': {
        'quick': parse_runs('C21', [('reader', 2500, None), ('reader', 2500, None), ('reader', 2500, None)]),
        'thorough': parse_runs('C21', [('reader', 60000, None) for i in range(8)]),
    },
    'rule': "reader stream: files of 1-5 random canonical rules laid out with line breaks after `:-`, `,`, `;`, `=` outside brackets and quotes (the blank after the separator "
            "becomes the line break), indentation, blank lines between and inside rules, `#` / `%` / `//` comment lines and trailing comments; each file is loaded with "
            "load_kb_from_file and read with read_facts_and_rules. Compared with the model: the list of separated rule texts and the loaded knowledge base (rules grouped "
            "by predicate, complete structure). Non-trivial/distinct = distinct file text.",
    'design_ref': '5.21',
    'assumptions': ["the rule parser is a parameter of the reader theorems; comment stripping is proved for lines of the form indentation + piece + blanks + optional "
                    "`#` / `%` / `//` comment, where the piece has its brackets closed, no comment character outside brackets and does not end in a slash",
                    "a rule text that begins with a digit right after another rule is outside the theorem (`OneRule` demands a non-digit first character: a period in front of a "
                    "digit is read as a decimal point)",
                    "oracle on the implementation: a file whose rules all parse on their own loads without error and format_kb() of the loaded knowledge base equals that of "
                    "the knowledge base built by parse_rule on each rule text"],
}

NOT_APPLICABLE = {
    'C24': 'Undefined behaviour (aliasing of raw-pointer writes, data races on static mut) is a property of pointers, borrows and threads, '
           'which a pure functional Lean model erases by construction; no executable Lean model can express it (DESIGN.md 5.24).',
}

LEVEL_TEXT = {
    'C18': 'Proved in Lean for every input string, every fuel and every instance of the std parameters: none of the eight entry points (parse_term, parse_linked_list, '
           'parse_complex, parse_function, parse_query, parse_subgoal, generate_goal, parse_rule) reaches a panic branch of the model (each index, slice, unwrap and panic! '
           'of the Rust code is one), including the token grouping stage (tokenizer output shape -> group_tokens -> group_and_tokens / group_or_tokens -> token_tree_to_goal), '
           'and none fails to return (3|s|+3 units of fuel for parse_term, 3|s|+4 for parse_subgoal, some fuel for generate_goal / parse_rule; parsers are monotone in the '
           'fuel, so the outcome does not depend on it): C18_term ... C18_rule. The fuel bounds recursion depth, not work: for group_tokens the work is proved linear (at most 6n+1 calls on n tokens), elsewhere polynomial time is decided by timed deep-nesting '
           'cases; the work on termination exposed defect D18 (exponential time on nested parentheses), repaired. The model is tied to the code by the correspondence '
           'suite (random, mutated, documented-spelling and ALL short strings through all eight entry points) and the no-panic oracle.',
    'C19': 'PARTIAL proof: the printer model is proved to parenthesise exactly the nested operators the parser would regroup and to lay out rules and unifications as '
           'documented; parse(show v) = v is proved outright for every i64 integer and for every term built from integers, atoms that are words (also with blanks between them), variables, $_, complex terms (also without arguments: f()), the empty list, lists and lists with a tail variable of such terms, nested to any depth (printer and parser sides, by induction on the nesting), for FACTS fn(T1, ..., Tn). and fn(). over such terms through parse_rule and the rule printer, for UNIFICATION GOALS T = R over such terms through parse_subgoal and the goal printer, and reduced to make_term for the other token-level terms. The round trip for quoted atoms, floats, atoms with other characters, the other goals and rules with bodies is decided by the grammar stream on the '
           'implementation, with the model parser and printer compared on every case. Nested parenthesised groups are generated since repair D18 (former finding F2); double-quoted atoms (with separators, brackets and parentheses between the quotes) since D22-D24. Open known finding F5: an atom that needs its quotes is printed without them.',
    'C20': 'PARTIAL proof: for every token text (no blanks, none of [ ] ( ) , " \\ |: atoms, signed numbers, variables, $_) all five contexts - alone, argument, list element, '
           'infix operand, query argument - are proved to hand the text to the same make_term with the same classification flags, so they yield the same term, for every '
           'fuel. For every STRUCTURED text (lists, complex terms, quoted atoms, atoms with blanks: trimmed, no backslash, no comma of its own outside quotes / parentheses / brackets, parentheses, brackets and quotes closed, no arithmetic infix) the argument, complex-argument, query-argument and (without a bar of its own) list-element contexts are proved to give parse_term of the text, also among other arguments (parse_arguments of T1, ..., Tn = the list of parse_term Ti; parse_complex fn(T1, ..., Tn) likewise; parse_linked_list [T1, ..., Tn] = parse_term Tn, ..., parse_term T1 linked in front of the empty list, and [T1, ..., Tn | V] in front of the node of the tail variable) (the loop of parse_arguments and unescape + flag loop of parse_term simulated side by side; the backward scan of parse_linked_list shown to see the same nesting as the forward scans). As the LEFT OPERAND OF = (and of ==, <, <=, >, >=) a structured text is proved to be parse_term of the text whenever it has no <, >, = and no quote and each of its ( is followed by a ) (check_infix skips to the NEXT parenthesis, not the matching one; shown harmless for such texts), which holds of every canonical term text (canonical_term_as_infix_operand). Structured infix operands with quotes or comparison characters, and texts with backslashes, are decided by the contexts stream (random canonical terms, 100 special spellings, and ALL strings up to length 4 / 5 over the 12 characters the scanners treat specially, each in eight contexts). Stating the structured version exposed and led to the repair of D19-D23. Open known findings: F3 (arithmetic infix as an argument), F4 (backslashes below the top level of a text).',
    'C21': 'Proved in Lean on the reader model, with the rule parser as a parameter: a file is rejected or its knowledge base is exactly parse_rule of each separated rule text, '
           'in order; the separation returns exactly the rule texts of a concatenation (decimal points, periods inside brackets and quotes never end a rule); the joined text '
           'is the stripped non-empty lines with one blank after every unfinished line; a line (indentation, piece, blanks, optional # / % / // comment) is stripped to '
           'exactly its piece; blank and comment-only lines contribute nothing; a line ending in the middle of a word rejects the file.',
    'C22': 'Proved in Lean (frame lemma over the whole engine, by induction on fuel): text written by earlier queries is never read, and once a query has been built the '
           'globals the engine reads (variable counter, stop flag) depend on the query alone; hence a query built in any two histories gives, request after request and for '
           'any number of requests, the same answers and the same output (theorem C22). Histories through solve / solve_all with hook-forced and real timeouts, leftover '
           'timers and prepared queries are decided by the timer suite. One open known finding (F1: constructing a query while another is still being asked).',
    'C23': 'Proved in Lean for every tick at which the timer write may land: the stop flag is only ever set; without a pending write no request sets it, so solve / solve_all '
           'never report a timeout then; solve returns the timeout message iff the flag is set on return, else `No more.` or the formatted answer; solve_all returns the '
           'collected answers followed by the message iff the flag is set. Real time (>= 1 s, cancellation) is exercised by real-timer runs and a cancel stress, not proved.',
    'C10': 'Proved in Lean by structural recursion over all terms: renaming apart leaves a term unchanged once ids are erased (atoms, numbers, list cells with counts and '
           'tail markers, the empty list, nesting); there is one map from names to ids such that every variable carries the id of its name, distinct names get distinct '
           'ids, every new id is above the starting counter and at most the new counter; make_query starts from 0. Mid-search (fresh_in_search): along every run of the reference machine with cut from a query, every variable in use anywhere in the configuration has an id at most the counter and the clause taken at that moment has ids above it only, so no fresh variable is in use elsewhere in the current search (fragment: control language with cut, fail, nl, =, comparisons; no function terms). Tied to unifiable.rs / rule.rs / goal.rs by the rename '
           'suite (whole renamed rules compared) and, mid-search, by the engine suite.',
    'C11': 'PARTIAL proof: for the ENGINE MODEL (and the reference machines its requests are runs of, C01) on programs whose built-in predicates are the cut, fail, nl, = (unify) and the five comparisons and which have no function terms - calls, conjunction and disjunction nested to any depth, not, time - the property is proved outright (C11_engine, C11_machine_with_cut, C11_machine): if each rule of the knowledge base is renamed by an injective map of its own - maps may differ from rule to rule and may reuse the names of the query - then request by request every query gets the same answers in the same order with the same output, the bindings renamed by a map that is the identity on the variables of the query. Underneath: unification commutes with a renaming that is injective for each variable id; renaming apart hands out ids by first occurrence only and commutes with a renaming of names; a renaming commutes with everything the cut does; term comparison is blind to it. '
           'Programs with other built-in predicates and function terms are decided on the implementation by running every generated program under four alpha-renamings and comparing answers, order and output.',
    'C15': 'Proved in Lean for all element lists: lists built by append/include/exclude hold exactly their elements (a list-valued or empty element stays one element), are '
           'well formed and record their length; the documented constructor yields the given terms, a trailing tail variable as tail, a trailing (possibly empty) list '
           'spliced in as the rest; renaming keeps every cell, count and tail marker and the empty list. Tied to the code by the lists, rename and builtins suites.',
    'C12': 'Proved in Lean for all argument lists and every implementation of the float operations: with integer arguments only, add/subtract/multiply/divide '
           'are the plain left folds of + - * and truncating division whenever no intermediate leaves the i64 range and no divisor is zero; with a float among '
           'the arguments every argument is converted and the fold is done with the float operations; arguments are read through their bindings; the value is '
           'unified with the other operand. The parser part of the property (infix forms) is exercised by the harness through the real parser.',
    'C14': 'Proved in Lean: with both operands (bound to) constants the predicate returns the unchanged substitution set exactly when the documented relation '
           'holds (integer order, IEEE order with integers converted, string order; atom vs number never) and fails otherwise; unbound or non-constant '
           'operands fail. The exhaustive 27x27x5 table is run against the implementation on every check.',
    'C16': 'Proved in Lean: append processes its inputs left to right, each contributing the elements of a list (through bound tails), the value of a bound '
           'variable or itself; the output is unified with the list built from exactly those elements (nothing spliced), which is well formed with the right '
           'length. Tied to built_in_append.rs by the builtins correspondence suite.',
    'C17': 'Proved in Lean: count = number of visited cells (= length for literal lists); include/exclude keep, in order, the elements whose test unification '
           'under the unchanged set succeeds / fails and bind nothing; functor matches exactly or by prefix; join follows the spacing rule on the values of '
           'its terms. Tied to the code by the builtins correspondence suite and its oracles.',
    'C01': 'Proved in Lean for all knowledge bases, queries, fuel values and numbers of requests: (1) on the cut-free fragment (calls, built-ins, `,`, `;`, not) the engine model REFINES the '
           'reference machine (depth-first, left-to-right, clause-order resolution as a stack of goals/try/negation frames): successive requests return exactly the machine\'s '
           'answers, in order, with multiplicity, and none for ever once it is exhausted, with the same output at every point - and the machine is deterministic, so these are '
           'THE answers of the reference (C01_exact); the outcome of a request does not depend on the fuel of the model; (2) for ALL programs every answer ever '
           'returned is an SLD-derivable answer (soundness); (3) node substitution sets are immutable (no leakage between alternatives); the answer formatting; (4) the same '
           'refinement, with determinism, for the whole language - `!`, conjunctions and disjunctions nested to any depth, not, time - against the machine with cut, groups, negation '
           'and timing (C01_full_language, C01_full_language_exact; only a `!` written directly inside not(...) / time(...) is excluded, and the cut-free fragment is shown to lie inside). '
           'Implementation, engine model and the marker machine (executable Lean) also run on the same generated programs on every check, request by request '
           '(substitution sets with ids, counters, stdout) resp. answer by answer.',
    'C02': 'Proved in Lean on the engine model for all nodes, knowledge bases, states and fuel: `!` marks its node and raises the cut flag; every node that '
           'passes the flag on is marked when it returns; a marked node answers none and changes nothing (no retry to the left of the cut, no answer '
           'beyond the one being derived); a call whose body cut and then failed tries no later clause; a call never reports a cut to its caller '
           '(callers and siblings unaffected). For every knowledge base whose rule bodies are built from calls, built-ins, `!`, conjunctions and disjunctions '
           'nested to any depth - the programs the property quantifies over - the request-by-request answers and output of the engine are exactly the run of a '
           'reference machine with cut and groups (refinement C02_groups; the machine is deterministic: C02_groups_exact), and on that machine a cut at any depth '
           'leaves exactly the stack that was there when its clause was chosen (no later clause, no other member of an enclosing disjunction, no alternative '
           'to its left, caller untouched), as does the end of every group and of the body in which a cut ran; the same against a smaller machine for flat '
           'bodies. not(...) and time(...) are part of that machine; only a `!` written directly inside them is decided by comparing implementation, engine model and executable reference machine on every run.',
    'C03': 'Proved in Lean: the first request on a not-node asks G once and returns its own, unchanged substitution set iff G has no '
           'answer, none otherwise; afterwards the node is exhausted; for every cut-free G and knowledge base `G has no answer` is the reference search for G running '
           'to the empty stack, and `none` is that search showing an answer, as equivalences (C03_iff: the reference machine is deterministic; negation is part of the refinement theorem of C01); '
           'the same equivalences (C03_iff_with_cut) for every G of the full language in which no `!` is written, over knowledge bases whose clauses cut, against the machine with cut, groups, '
           'negation and timing. G with a `!` written directly inside: agreement with the reference search is decided by the machine comparison.',
    'C04': 'Proved in Lean: on the cut-free fragment (negation included) the text written up to every request equals the text the reference machine has written at that point of '
           'its depth-first run (output component of the refinement theorem: once per execution, in execution order, retries included); a built-in node runs its effect '
           'on the first request only and appends exactly its text; print interleaves its arguments with the pieces of the format (or concatenates without markers) and '
           'shows bound values. The same refinement, output included, is proved for the whole language: `!` in conjunctions and disjunctions nested to any depth, not, time (machine with cut, groups, negation and timing); only a `!` written directly inside not(...) / time(...) is excluded - there order and multiplicity are decided by comparing captured stdout per request with the reference machine.',
    'C05': 'Proved in Lean for all nodes, knowledge bases, global states and fuel values: a request that answers none leaves an exhausted node, and an '
           'exhausted node answers none again with the global state (output, counter, ticks) unchanged, for any number of further requests.',
    'C06': 'Proved in Lean for all well-formed function-free operands, substitution sets, substitutions and fuel: a successful unification keeps every earlier binding verbatim '
           '(E); the substitutions that validate the result are exactly the unifiers of the operands that validate the prior set (unify_mgu = G + S: the result is a most '
           'general unifier extending the prior bindings); when such a unifier exists unification never reports failure (C); well-formedness is preserved. Outside the '
           'theorems: existence of a solution of the result (acyclicity: fails only in occurs-check situations), termination, `$_` in the S direction - decided on the '
           'implementation by a reference unifier over random sequences and all ordered pairs of a 60-term universe under 10 prior sets, and by the model correspondence.',
    'C07': 'Proved in Lean (from the mgu theorems of C06) for well-formed, function-free, `$_`-free operands and every fuel: when A=B and B=A both succeed, a substitution '
           'validates one result iff it validates the other (same resolved values up to the naming of unbound variables); when one order succeeds with a solvable result '
           'the other order does not report failure. Termination of the other order and operands with `$_` are decided on the implementation by running every generated '
           'pair in both orders (random + all ordered pairs of a 60-term universe under 10 priors, also after renaming apart) and by the model correspondence.',
    'C08': 'Proved in Lean, unconditionally (any operands, any set, any fuel, any sequence): if following bindings ends from every term before a successful '
           'unification it still does afterwards; unifying an unbound variable with a variable aliased to it returns the set unchanged. Ties to the code '
           'through the unify correspondence suite; the oracle walks the real substitution sets.',
    'C13': 'Proved in Lean for all operands: a function term on the right of a variable, constant, complex term or list is forwarded to the function side, '
           'and a function term on the left is evaluated and its value unified with the other operand, so both orders reduce to unify(value, other). '
           'Tied to src/unifiable.rs and built_in_functions.rs by the correspondence suite with function terms.',
    'C09': 'Proved in Lean for all terms, substitution sets and fuel: `$_ = t` and `t = $_` return the substitution set unchanged; a `$_` in an '
           'argument, list-element or list-tail position is skipped; no successful unification ever binds a variable to `$_`; a variable '
           'unified with `$_` behaves afterwards as if it had not been. The theorems are about the model; the correspondence suite (random + '
           'all ordered pairs of a 60-term universe under 10 priors) ties the model to src/unifiable.rs on every run.',
}
