#!/usr/bin/env python3
"""developer helper: run one harness suite invocation, pipe its cases through the model, list disagreements.
usage: pdiff.py <suite> [harness args...]"""
import sys, subprocess, os
sys.path.insert(0, os.path.dirname(os.path.abspath(__file__)))
from protocol import pretty
H='/verif/harness/target/debug/suiron_harness'; M='/verif/lean/.lake/build/bin/suiron_model'
p=subprocess.run([H]+sys.argv[1:],stdout=subprocess.PIPE,stderr=subprocess.DEVNULL)
cases={};impl={}
for l in p.stdout.decode('utf-8','replace').splitlines():
    k=l.split(' ',2)
    if k[0]=='CASE': cases[k[1]]=k[2]
    elif k[0]=='IMPL': impl[k[1]]=k[2] if len(k)>2 else ''
inp=''.join('CASE %s %s\n'%(c,cases[c]) for c in cases)
m=subprocess.run([M],input=inp.encode(),stdout=subprocess.PIPE)
model={}
for l in m.stdout.decode('utf-8','replace').splitlines():
    k=l.split(' ',2)
    if k[0]=='MODEL': model[k[1]]=k[2] if len(k)>2 else ''
bad=[c for c in impl if model.get(c)!=impl[c]]
print('cases',len(impl),'mismatches',len(bad))
def unhex(tok):
    try: return bytes.fromhex(tok).decode('utf-8','replace')
    except Exception: return tok
for c in bad[:int(os.environ.get('SHOW','8'))]:
    body=cases[c].split(' ')
    print('---',c,body[0],body[1] if len(body)>1 else '', repr(unhex(body[-1])) if body[0] in('parse','contexts','reader') else '')
    print('  IMPL ',impl[c][:400]); print('  MODEL',(model.get(c) or '')[:400])
