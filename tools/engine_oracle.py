"""Property oracle for the engine suites: compares what the implementation answered and printed
(IMPL records) with the reference stack machine (SPEC records), up to renaming of unbound variables."""
import re


def _fields(rec):
    return rec.split(' ')


def norm_impl(s):
    """IMPL records up to and including the first 'no more' -> list of (kind, answer, output)"""
    out = []
    for rec in s.split(' ; '):
        t = _fields(rec)
        if t[0] == 'S':
            a = t.index('A')
            c = len(t) - 1 - t[::-1].index('C')
            o = t[c + 3] if len(t) > c + 3 else ''
            out.append(('A', ' '.join(t[a + 1:c]), o))
        elif t[0] == 'N':
            o = t[4] if len(t) > 4 else ''
            out.append(('N', '', o))
            break
        else:
            out.append((t[0], '', ''))
            break
    return out


def norm_spec(s):
    out = []
    for rec in s.split(' ; '):
        t = _fields(rec)
        if t[0] == 'A':
            oo = len(t) - 1 - t[::-1].index('O')
            out.append(('A', ' '.join(t[1:oo]), t[oo + 1] if len(t) > oo + 1 else ''))
        elif t[0] == 'N':
            out.append(('N', '', t[2] if len(t) > 2 else ''))
        else:
            out.append((t[0], '', ''))
    return out


def canon_vars(term):
    m = {}

    def f(x):
        k = x.group(1)
        if k not in m:
            m[k] = str(len(m))
        return 'V:#' + m[k] + ':'
    return re.sub(r'V:(\d+):', f, term)


def unhex(h):
    try:
        return bytes.fromhex(h).decode('utf-8', 'replace')
    except Exception:
        return h


def compare(impl, spec, what):
    """what: 'answers' | 'output' | 'both'. returns None if fine / not comparable, else a message"""
    si = norm_impl(impl)
    ss = norm_spec(spec)
    if not ss or ss[-1][0] in ('B', 'MORE', 'CYCLIC', 'BUILD-PANIC', '?'):
        return None      # reference did not finish within its budget / occurs-check situation: outside the claim
    if si and si[-1][0] in ('CYCLIC', 'BUILD-PANIC', 'BASE-PANIC'):
        return None
    if ss[-1][0] == 'P' or (si and si[-1][0] == 'P'):
        # a panicking built-in (unbound arithmetic etc.) is outside the properties; compare what came before it
        n = min(len(si), len(ss)) - 1
        si, ss = si[:n], ss[:n]
    if what in ('answers', 'both'):
        ai = [canon_vars(a) for (k, a, o) in si if k == 'A']
        as_ = [canon_vars(a) for (k, a, o) in ss if k == 'A']
        if ai != as_:
            for i in range(max(len(ai), len(as_))):
                x = ai[i] if i < len(ai) else None
                y = as_[i] if i < len(as_) else None
                if x != y:
                    return 'answer %d: implementation %s, reference %s (implementation %d answers, reference %d)' % (
                        i + 1, 'gives ' + x if x else 'has none', 'gives ' + y if y else 'has none', len(ai), len(as_))
    if what in ('output', 'both'):
        oi = [unhex(o) for (k, a, o) in si]
        os_ = [unhex(o) for (k, a, o) in ss]
        if oi != os_:
            for i in range(max(len(oi), len(os_))):
                x = oi[i] if i < len(oi) else None
                y = os_[i] if i < len(os_) else None
                if x != y:
                    return 'output before result %d: implementation wrote %r, reference %r' % (i + 1, x, y)
    return None
