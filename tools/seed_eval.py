#!/usr/bin/env python3
"""Confirm a seeded change produced by a sub-agent and run our checks against it.
usage: seed_eval.py <seed-id> <worktree> <property> <check ids, comma separated> [needs text]
Steps (all outcomes recorded in /verif/seeded/<seed-id>/meta.json):
 1. in the scratch worktree: revert to HEAD, apply mutant.diff, run the repository's test suite (must pass)
 2. copy demo.rs to tests/, run it with the change (must fail) and without it (must pass)
 3. apply the change to /repo, run the named checks (quick tier), undo it (git checkout -- .)
"""
import sys, os, subprocess, json, shutil, re
sid, wt, prop, checks = sys.argv[1], sys.argv[2], sys.argv[3], sys.argv[4].split(',')
needs = sys.argv[5] if len(sys.argv) > 5 else ''
ENV = dict(os.environ, CARGO_NET_OFFLINE='true')
def sh(cmd, cwd, timeout=3600):
    p = subprocess.run(cmd, shell=True, cwd=cwd, env=ENV, stdout=subprocess.PIPE, stderr=subprocess.STDOUT, text=True, timeout=timeout)
    return p.returncode, p.stdout
out = os.path.join('/verif/seeded', sid); os.makedirs(out, exist_ok=True)
for f in ('mutant.diff', 'demo.rs', 'notes.md'):
    if os.path.exists(os.path.join(wt, f)): shutil.copy(os.path.join(wt, f), os.path.join(out, 'patch.diff' if f == 'mutant.diff' else f))
meta = {'id': sid, 'property': prop, 'needs': needs, 'ran': []}
demo_name = 'demo_%s.rs' % sid.lower().replace('-', '_')
sh('git checkout -- . && rm -f tests/demo_*.rs', wt)
rc, o = sh('git apply %s/patch.diff' % out, wt); meta['ran'].append({'cmd': 'git apply patch.diff (scratch worktree)', 'rc': rc})
# nextest runs every test in its own process (the unit tests share process globals and are flaky under `cargo test` threads)
rc, o = sh('cargo nextest run --offline --workspace --no-fail-fast 2>&1 | tail -5; cargo test --offline --doc 2>&1 | grep -E "^test result"', wt)
suite_ok = bool(re.search(r'\d+ tests run: \d+ passed', o)) and ' failed' not in o.split('tests run:')[1].split('\n')[0] and 'test result: ok' in o
meta['ran'].append({'cmd': 'cargo nextest run --offline --workspace --no-fail-fast && cargo test --offline --doc (with the change)', 'passes': suite_ok, 'tail': o[-400:]})
shutil.copy(os.path.join(out, 'demo.rs'), os.path.join(wt, 'tests', demo_name))
rc1, o1 = sh('cargo test --offline --test %s 2>&1 | grep -E "^test result|error\\[" ' % demo_name[:-3], wt)
demo_fails_with = bool(re.search(r'test result: FAILED', o1))
meta['ran'].append({'cmd': 'demo with the change', 'fails': demo_fails_with, 'tail': o1[-300:]})
sh('git apply -R %s/patch.diff' % out, wt)
rc2, o2 = sh('cargo test --offline --test %s 2>&1 | grep -E "^test result|error\\[" ' % demo_name[:-3], wt)
demo_passes_without = ('test result: ok' in o2 and not re.search(r'[1-9]\d* failed;', o2))
meta['ran'].append({'cmd': 'demo without the change', 'passes': demo_passes_without, 'tail': o2[-300:]})
os.remove(os.path.join(wt, 'tests', demo_name))
meta['confirmed'] = bool(suite_ok and demo_fails_with and demo_passes_without)
# our checks
res = {}
rc, o = sh('git -C /repo apply %s/patch.diff' % out, '/verif')
if rc != 0:
    res['apply'] = 'patch does not apply to /repo: ' + o[-200:]
else:
    try:
        for c in checks:
            rc, o = sh('tools/check.py %s --tier quick' % c, '/verif', timeout=1800)
            lines = [l for l in o.splitlines() if l.startswith('VIOLATION') or ' quick:' in l]
            res[c] = {'rc': rc, 'output': lines}
    finally:
        sh('git -C /repo checkout -- .', '/verif')
meta['checks'] = res
meta['caught_by'] = [c for c in checks if isinstance(res.get(c), dict) and res[c]['rc'] == 1]
json.dump(meta, open(os.path.join(out, 'meta.json'), 'w'), indent=1)
print(json.dumps({k: meta[k] for k in ('id', 'confirmed', 'caught_by')}, indent=1))
for c in checks:
    if isinstance(res.get(c), dict): print(c, res[c]['output'])
