#!/bin/sh
# build the model, the driver and every property module (the default target is the model only)
cd /verif/lean && lake build SuironVerif suiron_model $(for i in 01 02 03 04 05 06 07 08 09 10 11 12 13 14 15 16 17 18 19 20 21 22 23; do echo SuironVerif.Props.C$i; done) 2>&1 | grep -E "error|✖|completed" | head -40
