import SuironVerif.Model.Codec
import SuironVerif.Model.Native
import SuironVerif.Model.Driver
open Suiron Suiron.Codec

def FUEL : Nat := 100000

/-- run a sequence of unifications from `σ`; statuses, then the last good σ. -/
def runUnifySeq (σ : Subst) : List (Term × Term) → List String → String
  | [], acc => String.intercalate "," acc.reverse ++ " " ++ encSubst σ
  | (a, b) :: rest, acc =>
    match unify Native.ops FUEL a b σ with
    | .ok σ' => runUnifySeq σ' rest ("ok" :: acc)
    | .fail => String.intercalate "," ("fail" :: acc).reverse ++ " " ++ encSubst σ
    | .panic => String.intercalate "," ("panic" :: acc).reverse ++ " " ++ encSubst σ
    | .oof => String.intercalate "," ("oof" :: acc).reverse ++ " " ++ encSubst σ

def decPairs : Nat → List String → Option (List (Term × Term) × List String)
  | 0, r => some ([], r)
  | k+1, r => do
    let (a, r1) ← decTerm r
    let (b, r2) ← decTerm r1
    let (ps, r3) ← decPairs k r2
    pure ((a, b) :: ps, r3)

def handle (op : String) (toks : List String) : String :=
  match op with
  | "unifyseq" =>
    match toks with
    | n :: rest =>
      match n.toNat? with
      | some k =>
        match decPairs k rest with
        | some (ps, _) => runUnifySeq [] ps []
        | none => "decode-error"
      | none => "decode-error"
    | _ => "decode-error"
  | "engine" => Driver.handleEngine toks
  | "rename" => Driver.handleRename toks
  | "timer" => Driver.handleTimer toks
  | "mklist" => Driver.handleMkList false toks
  | "mkproper" => Driver.handleMkList true toks
  | "parse" => Driver.handleParse toks
  | "contexts" => Driver.handleContexts toks
  | "reader" => Driver.handleReader toks
  | "show" =>
    match decTerm toks with
    | some (t, _) => "ok A:" ++ hex (Term.show Native.showF64 t)
    | none => "decode-error"
  | _ => "unknown-op"

partial def loop (h : IO.FS.Stream) (out : IO.FS.Stream) : IO Unit := do
  let line ← h.getLine
  if line.isEmpty then return ()
  let toks := (line.trimAscii.toString.splitOn " ").filter (· ≠ "")
  match toks with
  | ["CASE", id, "timer-real"] => out.putStrLn ("MODEL " ++ id ++ " real")
  | ["CASE", id, "timer-stopped"] => out.putStrLn ("MODEL " ++ id ++ " stopped")
  | "CASE" :: id :: op :: rest =>
    -- a handler may append further records after a newline ("SPEC ..."): give them the case id too
    let res := handle op rest
    match res.splitOn "\nSPEC " with
    | [m, s] => do
      out.putStrLn ("MODEL " ++ id ++ " " ++ m)
      out.putStrLn ("SPEC " ++ id ++ " " ++ s)
    | _ => out.putStrLn ("MODEL " ++ id ++ " " ++ res)
  | _ => pure ()
  loop h out

def main : IO Unit := do
  let stdin ← IO.getStdin
  let stdout ← IO.getStdout
  loop stdin stdout
