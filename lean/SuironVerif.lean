import SuironVerif.Model.Term
import SuironVerif.Model.Subst
import SuironVerif.Model.SList
import SuironVerif.Model.Arith
import SuironVerif.Model.Unify
import SuironVerif.Model.Codec
import SuironVerif.Model.Native
