/-
  First-order reading of suiron terms, for the mgu statements of C06:
  * `abs` forgets what is representation only: variable names, the `count` of list cells, the
    empty-list node's fields; a cell marked `tail_var` *is* its variable (`[a | $T]` is
    `lcons a $T`), the empty list is `lnil`;
  * `θ : Nat → FO` is a substitution on variable ids, `FO.subst θ` its homomorphic extension;
  * `Solves θ σ`: θ validates every binding of the substitution set σ.
-/
import SuironVerif.Model.Unify
namespace Suiron.Spec
open Suiron

mutual
inductive FO where
  | atom (s : String)
  | flt (b : UInt64)
  | int (i : Int)
  | var (id : Nat)
  | anon
  | app (args : FOList)
  | lnil
  | lcons (h t : FO)
  | junk                       -- `Nil` on its own, function terms: outside the first-order reading
inductive FOList where
  | nil
  | cons (h : FO) (t : FOList)
end

def negZero : UInt64 := 0x8000000000000000
/-- `0.0` and `-0.0` are one number (`0.0 = -0.0` succeeds): the reading identifies them -/
def canonF (b : UInt64) : UInt64 := if b == negZero then 0 else b

mutual
def abs : Term → FO
  | .nil => .junk
  | .anon => .anon
  | .atom s => .atom s
  | .flt b => .flt (canonF b)
  | .int i => .int i
  | .var id _ => .var id
  | .cplx args => .app (absL args)
  | .cons t n _ tv => if tv then abs t else if t.isNil then .lnil else .lcons (abs t) (abs n)
  | .func _ _ => .junk
def absL : TermList → FOList
  | .nil => .nil
  | .cons h t => .cons (abs h) (absL t)
end

mutual
def FO.subst (θ : Nat → FO) : FO → FO
  | .var id => θ id
  | .app args => .app (FOList.subst θ args)
  | .lcons h t => .lcons (FO.subst θ h) (FO.subst θ t)
  | t => t
def FOList.subst (θ : Nat → FO) : FOList → FOList
  | .nil => .nil
  | .cons h t => .cons (FO.subst θ h) (FOList.subst θ t)
end

/-- θ validates every binding of σ -/
def Solves (θ : Nat → FO) (σ : Subst) : Prop :=
  ∀ i t, σ.get i = some t → θ i = FO.subst θ (abs t)

/-- θ unifies `a` and `b` -/
def Unifies (θ : Nat → FO) (a b : Term) : Prop := FO.subst θ (abs a) = FO.subst θ (abs b)

mutual
/-- function-free -/
def Term.FF : Term → Bool
  | .cplx args => TermList.FF args
  | .cons t n _ _ => Term.FF t && Term.FF n
  | .func _ _ => false
  | _ => true
def TermList.FF : TermList → Bool
  | .nil => true
  | .cons a as => Term.FF a && TermList.FF as
end

def SubstFF (σ : Subst) : Prop := ∀ i t, σ.get i = some t → Term.FF t = true

end Suiron.Spec
