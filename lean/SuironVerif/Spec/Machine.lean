/-
  The reference semantics the engine is compared with and proved against:
  depth-first, left-to-right, clause-order resolution as a choicepoint-stack
  machine (DESIGN.md §5.1).  No node graph, no fuel: one total `step` function
  on configurations.

  * a configuration is the goal list being executed (`cur`) plus a stack of
    choicepoints (`stack`, top first);
  * `!` removes every choicepoint created since the call whose clause contains it
    started (the call's later clauses, the alternatives and retries to its left),
    and — Suiron's documented rule, "backtracking is disabled on the cut and all its
    ancestors up to that call" — turns the end markers of all enclosing groups and of
    the clause body into `commit`s, so each of them, once it has produced the answer
    being derived, can produce no other.
-/
import SuironVerif.Model.Engine
namespace Suiron.Spec

inductive MGoal where
  | goal (g : Goal) (bar : Nat)   -- a goal of a clause whose call started at stack height `bar`
  | endGroup                      -- end of a nested and/or group (no effect)
  | endBody                       -- end of a clause body (no effect)
  | commit (h : Nat)              -- cut the choicepoint stack back to height `h`
  | commitBody (h : Nat)          -- the same, at the end of a clause body in which a cut ran
  | notFail (h : Nat)             -- the goal under `not` succeeded: drop to height `h`, then fail
  | timeDone (h : Nat)            -- the goal under `time` succeeded: drop to height `h`, report, go on

inductive Frame where
  | goals (k : List MGoal) (σ : Subst)                       -- resume this continuation
  | try (t : Term) (σ : Subst) (idx n : Nat) (k : List MGoal) -- remaining clauses of a call
  | timeFail                                                 -- `time(g)`: g failed: report, fail

structure Config where
  cur : Option (List MGoal × Subst)
  stack : List Frame          -- top first
  counter : Nat
  out : List String           -- newest first
  answers : List Subst        -- newest first

inductive Status where
  | running | done | panic
  deriving DecidableEq

/-- keep the bottom `h` entries of a stack whose top is first. -/
def truncStack (stack : List Frame) (h : Nat) : List Frame := stack.drop (stack.length - h)

/-- rewrite the group end markers of the clause body the cut is in, and its body end marker, into
    commits (`commitBody` marks the body end of a clause in which a cut already ran). -/
def commitMarkers (bar : Nat) : List MGoal → List MGoal
  | [] => []
  | .endGroup :: k => .commit bar :: commitMarkers bar k
  | .endBody :: k => .commitBody bar :: k
  | .commitBody h :: k => .commitBody h :: k
  | m :: k => m :: commitMarkers bar k

def emit (c : Config) (s : String) : Config := if s = "" then c else { c with out := s :: c.out }

def FUEL : Nat := 100000

/-- one step of the machine. -/
def step (fo : FloatOps) (kb : KB) (c : Config) : Config × Status :=
  match c.cur with
  | none =>
    match c.stack with
    | [] => (c, .done)
    | .goals k σ :: rest => ({ c with cur := some (k, σ), stack := rest }, .running)
    | .timeFail :: rest => (emit { c with stack := rest } "<elapsed>", .running)
    | .try t σ idx n k :: rest =>
      -- this call's barrier is the height of the stack below its `try` frame
      let bar := rest.length
      match termKey fo.showF t with
      | .ok key =>
        match getRule kb key idx c.counter with
        | .ok (rule, ctr') =>
          match unify fo FUEL rule.head t σ with
          | .ok σ' =>
            let stack' := if idx + 1 < n then Frame.try t σ (idx + 1) n k :: rest else rest
            let body : List MGoal := if rule.body.isNil then k else .goal rule.body bar :: .endBody :: k
            ({ c with cur := some (body, σ'), stack := stack', counter := ctr' }, .running)
          | .fail =>
            let stack' := if idx + 1 < n then Frame.try t σ (idx + 1) n k :: rest else rest
            ({ c with stack := stack' }, .running)
          | _ => (c, .panic)
        | _ => (c, .panic)
      | _ => (c, .panic)
  | some ([], σ) => ({ c with cur := none, answers := σ :: c.answers }, .running)
  | some (m :: k, σ) =>
    match m with
    | .endGroup => ({ c with cur := some (k, σ) }, .running)
    | .endBody => ({ c with cur := some (k, σ) }, .running)
    | .commit h => ({ c with cur := some (k, σ), stack := truncStack c.stack h }, .running)
    | .commitBody h => ({ c with cur := some (k, σ), stack := truncStack c.stack h }, .running)
    | .notFail h => ({ c with cur := none, stack := truncStack c.stack h }, .running)
    | .timeDone h => (emit { c with cur := some (k, σ), stack := truncStack c.stack h } "<elapsed>", .running)
    | .goal g bar =>
      match g with
      | .call t =>
        match termKey fo.showF t with
        | .ok key =>
          let n := match kb.get key with | some rs => rs.length | none => 0
          if n = 0 then ({ c with cur := none }, .running)
          else ({ c with cur := none, stack := Frame.try t σ 0 n k :: c.stack }, .running)
        | _ => (c, .panic)
      | .bip name args =>
        if name = "!" then
          ({ c with cur := some (commitMarkers bar k, σ), stack := truncStack c.stack bar }, .running)
        else
          match runBip fo FUEL name (optList args) σ with
          | .ok r =>
            let c' := emit c r.out
            match r.sol with
            | some σ' => ({ c' with cur := some (k, σ') }, .running)
            | none => ({ c' with cur := none }, .running)
          | _ => (c, .panic)
      | .and gs =>
        match gs with
        | .nil => (c, .panic)
        | gs => ({ c with cur := some (gs.toList.map (fun g => MGoal.goal g bar) ++ .endGroup :: k, σ) }, .running)
      | .or gs =>
        match gs with
        | .nil => (c, .panic)
        | .cons g1 rest =>
          let stack' := if rest.length = 0 then c.stack else Frame.goals (.goal (.or rest) bar :: k) σ :: c.stack
          ({ c with cur := some (.goal g1 bar :: .endGroup :: k, σ), stack := stack' }, .running)
      | .not gs =>
        match gs with
        | .nil => (c, .panic)
        | .cons g1 _ =>
          -- else-branch first, so that it is what remains when g1 has no answer
          let h := c.stack.length
          ({ c with cur := some ([.goal g1 bar, .notFail h], σ), stack := Frame.goals k σ :: c.stack }, .running)
      | .time gs =>
        match gs with
        | .nil => (c, .panic)
        | .cons g1 _ =>
          let h := c.stack.length
          ({ c with cur := some (.goal g1 bar :: .timeDone h :: k, σ), stack := Frame.timeFail :: c.stack }, .running)
      | .nil => (c, .panic)

/-- initial configuration for a query (already renamed by `make_query`, counter as it left it). -/
def init (q : Term) (counter : Nat) : Config :=
  ⟨some ([.goal (.call q) 0], []), [], counter, [], []⟩

/-- iterate `step` at most `n` times, stopping as soon as a new answer has been recorded. -/
def runToAnswer (fo : FloatOps) (kb : KB) : Nat → Config → Config × Status × Bool
  | 0, c => (c, .running, false)
  | n+1, c =>
    let r := step fo kb c
    match r.2 with
    | .running => if r.1.answers.length > c.answers.length then (r.1, .running, true) else runToAnswer fo kb n r.1
    | s => (r.1, s, false)

end Suiron.Spec
