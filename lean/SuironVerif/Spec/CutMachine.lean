/-
  Reference semantics for programs with the cut, in the fragment "flat bodies": a rule body is empty, one
  call / built-in / cut, or a conjunction of those (no nested groups, no disjunction, no negation).  Depth-first,
  left-to-right, clause-order resolution on a stack of frames, as `Spec/PureMachine.lean`, plus:

    * every goal of a clause body knows the BARRIER of its clause: the height of the stack below the `try`
      frame of the call that chose the clause (what was there before the call began);
    * `!` removes every frame above the barrier — the later clauses of the call, the alternatives of the goals
      to its left — and turns the end marker of its body into a committing one;
    * Suiron's documented rule ("backtracking is disabled on the cut and all its ancestors up to that call"):
      when a body in which a cut ran is finished, the stack is cut back to the barrier once more, so the
      goals to the right of the cut contribute one answer and the call yields no answer beyond the one being
      derived.
-/
import SuironVerif.Model.Engine
namespace Suiron.Spec
open Suiron

/-- an entry of a continuation -/
inductive CG where
  | g (goal : Goal) (bar : Nat)          -- a goal of a clause whose barrier is `bar`
  | endB (bar : Nat) (cut : Bool)        -- end of a clause body; `cut` = a cut ran in it
  deriving Inhabited

inductive CFrame where
  | goals (k : List CG) (σ : Subst)
  | try (t : Term) (σ : Subst) (idx n : Nat) (k : List CG)

structure CConf where
  stack : List CFrame
  ctr : Nat
  out : List String

/-- keep the bottom `h` frames (the stack has its top first) -/
def truncate (S : List CFrame) (h : Nat) : List CFrame := S.drop (S.length - h)

/-- the end marker of the body the cut is in becomes a committing one -/
def markCut : List CG → List CG
  | [] => []
  | .endB b _ :: k => .endB b true :: k
  | x :: k => x :: markCut k

def cTry (t : Term) (σ : Subst) (idx n : Nat) (k : List CG) : List CFrame :=
  if idx < n then [.try t σ idx n k] else []

/-- the goals of a body, all with the barrier `h`, and its end marker -/
def bodyGoals (body : Goal) (h : Nat) : List CG :=
  if body.isNil then []
  else (match body with
        | .and gs => gs.toList.map (fun g => CG.g g h)
        | b => [CG.g b h]) ++ [.endB h false]

def cEmit (out : List String) (s : String) : List String := if s = "" then out else s :: out
def cRuleCount (kb : KB) (key : String) : Nat := match kb.get key with | some rs => rs.length | none => 0

inductive CStep (fo : FloatOps) (kb : KB) : CConf → CConf → Prop where
  | call {t b k σ S c o key} : termKey fo.showF t = .ok key →
      CStep fo kb ⟨.goals (.g (.call t) b :: k) σ :: S, c, o⟩ ⟨cTry t σ 0 (cRuleCount kb key) k ++ S, c, o⟩
  | bipOk {name args b k σ σ' S c o f txt} : name ≠ "!" → runBip fo f name (optList args) σ = .ok ⟨some σ', txt⟩ →
      CStep fo kb ⟨.goals (.g (.bip name args) b :: k) σ :: S, c, o⟩ ⟨.goals k σ' :: S, c, cEmit o txt⟩
  | bipFail {name args b k σ S c o f txt} : name ≠ "!" → runBip fo f name (optList args) σ = .ok ⟨none, txt⟩ →
      CStep fo kb ⟨.goals (.g (.bip name args) b :: k) σ :: S, c, o⟩ ⟨S, c, cEmit o txt⟩
  /-- the cut -/
  | cut {args b k σ S c o} :
      CStep fo kb ⟨.goals (.g (.bip "!" args) b :: k) σ :: S, c, o⟩ ⟨.goals (markCut k) σ :: truncate S b, c, o⟩
  | clauseOk {t σ σ' idx n k S c o key rule c' f} : termKey fo.showF t = .ok key → getRule kb key idx c = .ok (rule, c') →
      unify fo f rule.head t σ = .ok σ' →
      CStep fo kb ⟨.try t σ idx n k :: S, c, o⟩
        ⟨.goals (bodyGoals rule.body S.length ++ k) σ' :: (cTry t σ (idx + 1) n k ++ S), c', o⟩
  | clauseFail {t σ idx n k S c o key rule c' f} : termKey fo.showF t = .ok key → getRule kb key idx c = .ok (rule, c') →
      unify fo f rule.head t σ = .fail →
      CStep fo kb ⟨.try t σ idx n k :: S, c, o⟩ ⟨cTry t σ (idx + 1) n k ++ S, c, o⟩
  /-- the end of a body in which no cut ran -/
  | endBody {h k σ S c o} : CStep fo kb ⟨.goals (.endB h false :: k) σ :: S, c, o⟩ ⟨.goals k σ :: S, c, o⟩
  /-- the end of a body in which a cut ran: nothing created since the call began survives -/
  | commitBody {h k σ S c o} : CStep fo kb ⟨.goals (.endB h true :: k) σ :: S, c, o⟩ ⟨.goals k σ :: truncate S h, c, o⟩

inductive CSteps (fo : FloatOps) (kb : KB) : CConf → CConf → Prop where
  | refl {c} : CSteps fo kb c c
  | step {a b c} : CStep fo kb a b → CSteps fo kb b c → CSteps fo kb a c

theorem CSteps.trans {fo : FloatOps} {kb : KB} {a b c : CConf} (h1 : CSteps fo kb a b) (h2 : CSteps fo kb b c) : CSteps fo kb a c := by
  induction h1 with
  | refl => exact h2
  | step hs _ ih => exact .step hs (ih h2)

theorem CSteps.one {fo : FloatOps} {kb : KB} {a b : CConf} (h : CStep fo kb a b) : CSteps fo kb a b := .step h .refl

/-- what successive observers see (as `MRun` of the cut-free machine) -/
inductive CRun (fo : FloatOps) (kb : KB) : CConf → List (Option Subst × List String) → Prop where
  | nil {c} : CRun fo kb c []
  | ans {c σ S ctr out rest} : CSteps fo kb c ⟨.goals [] σ :: S, ctr, out⟩ → CRun fo kb ⟨S, ctr, out⟩ rest →
      CRun fo kb c ((some σ, out) :: rest)
  | fin {c ctr out rest} : CSteps fo kb c ⟨[], ctr, out⟩ → CRun fo kb ⟨[], ctr, out⟩ rest →
      CRun fo kb c ((none, out) :: rest)

theorem truncate_append_of_le (X B : List CFrame) (h : Nat) (hb : h ≤ B.length) : truncate (X ++ B) h = truncate B h := by
  unfold truncate
  rw [List.length_append]
  have : X.length + B.length - h = X.length + (B.length - h) := by omega
  rw [this, List.drop_append]
  simp

theorem truncate_self (B : List CFrame) : truncate B B.length = B := by simp [truncate]

theorem truncate_length (B : List CFrame) (h : Nat) (hb : h ≤ B.length) : (truncate B h).length = h := by
  simp [truncate, List.length_drop]; omega

theorem truncate_idem (B : List CFrame) (h : Nat) (hb : h ≤ B.length) : truncate (truncate B h) h = truncate B h := by
  have hl := truncate_length B h hb
  unfold truncate at hl ⊢
  rw [hl]; simp

theorem markCut_idem : ∀ k, markCut (markCut k) = markCut k := by
  intro k
  induction k with
  | nil => rfl
  | cons x k ih => cases x <;> simp [markCut, ih]

end Suiron.Spec
