/-
  Reference semantics for programs with the cut, for rule bodies built from calls, built-ins, `!`, conjunctions
  and disjunctions nested to any depth, `not(...)` and `time(...)`: the machine of `Spec/CutMachine.lean` with groups,
  and the negation of `Spec/PureMachine.lean`.

    * every goal of a clause body knows the BARRIER of its clause: the height of the stack below the `try`
      frame of the call that chose the clause;
    * a conjunction `(a, b, c)` is spliced into the continuation followed by an END-OF-GROUP marker; a disjunction
      `(a ; b ; c)` becomes the entry `alt [a, b, c]` followed by an end-of-group marker, and `alt` runs its first
      member now and leaves the others in a frame of their own;
    * `!` removes every frame above the barrier and turns every end-of-group marker between itself and the end of
      its body, and the end-of-body marker, into committing ones;
    * a committing marker, when reached, cuts the stack back to the barrier once more (Suiron's documented rule:
      "backtracking is disabled on the cut and all its ancestors up to that call": each enclosing group, and
      finally the call, yields nothing beyond the answer being derived);
    * `not(G)` and `time(G)` run a search of their own for G (frames `notF` / `timeF` holding the stack of that
      search): `not` continues under its own, unchanged bindings when the search runs empty and fails as soon as it
      shows an answer; `time` continues under the first answer (there is no second) or fails when there is none,
      and writes the elapsed time either way.  The counter and the text written by the inner search are kept.
      (What a `!` written directly inside `not(...)` / `time(...)` does is not defined here: the refinement theorem
      excludes it, as the property does.)
-/
import SuironVerif.Model.Engine
namespace Suiron.Spec.Grp
open Suiron

/-- an entry of a continuation -/
inductive CG where
  | g (goal : Goal) (bar : Nat)          -- a goal of a clause whose barrier is `bar`
  | alt (gs : GoalList) (bar : Nat)      -- the remaining members of a disjunction
  | endG (bar : Nat) (cut : Bool)        -- end of a group; `cut` = a cut ran in it
  | endB (bar : Nat) (cut : Bool)        -- end of a clause body
  deriving Inhabited

inductive CFrame where
  | goals (k : List CG) (σ : Subst)
  | try (t : Term) (σ : Subst) (idx n : Nat) (k : List CG)
  | notF (alts : List CFrame) (σ : Subst) (k : List CG)
  | timeF (alts : List CFrame) (k : List CG)

structure CConf where
  stack : List CFrame
  ctr : Nat
  out : List String

/-- keep the bottom `h` frames (the stack has its top first) -/
def truncate (S : List CFrame) (h : Nat) : List CFrame := S.drop (S.length - h)

/-- the end markers of the groups the cut is in, and the end marker of its body, become committing ones -/
def markCut : List CG → List CG
  | [] => []
  | .endB b _ :: k => .endB b true :: k
  | .endG b _ :: k => .endG b true :: markCut k
  | x :: k => x :: markCut k

def cTry (t : Term) (σ : Subst) (idx n : Nat) (k : List CG) : List CFrame :=
  if idx < n then [.try t σ idx n k] else []

def gl (rest : GoalList) (bar : Nat) : List CG := rest.toList.map (fun g => CG.g g bar)

/-- the frame that keeps the remaining members of a disjunction -/
def altF (gs : GoalList) (bar : Nat) (k : List CG) (σ : Subst) : List CFrame :=
  if gs.length = 0 then [] else [.goals (.alt gs bar :: k) σ]

/-- the body of a clause chosen on a stack of height `h`, then what followed the call -/
def bodyK (body : Goal) (h : Nat) (k : List CG) : List CG :=
  if body.isNil then k else .g body h :: .endB h false :: k

def cEmit (out : List String) (s : String) : List String := if s = "" then out else s :: out
def cRuleCount (kb : KB) (key : String) : Nat := match kb.get key with | some rs => rs.length | none => 0

inductive CStep (fo : FloatOps) (kb : KB) : CConf → CConf → Prop where
  | call {t b k σ S c o key} : termKey fo.showF t = .ok key →
      CStep fo kb ⟨.goals (.g (.call t) b :: k) σ :: S, c, o⟩ ⟨cTry t σ 0 (cRuleCount kb key) k ++ S, c, o⟩
  | bipOk {name args b k σ σ' S c o f txt} : name ≠ "!" → runBip fo f name (optList args) σ = .ok ⟨some σ', txt⟩ →
      CStep fo kb ⟨.goals (.g (.bip name args) b :: k) σ :: S, c, o⟩ ⟨.goals k σ' :: S, c, cEmit o txt⟩
  | bipFail {name args b k σ S c o f txt} : name ≠ "!" → runBip fo f name (optList args) σ = .ok ⟨none, txt⟩ →
      CStep fo kb ⟨.goals (.g (.bip name args) b :: k) σ :: S, c, o⟩ ⟨S, c, cEmit o txt⟩
  /-- the cut -/
  | cut {args b k σ S c o} :
      CStep fo kb ⟨.goals (.g (.bip "!" args) b :: k) σ :: S, c, o⟩ ⟨.goals (markCut k) σ :: truncate S b, c, o⟩
  /-- a conjunction is spliced in, closed by its end marker -/
  | conj {gs b k σ S c o} :
      CStep fo kb ⟨.goals (.g (.and gs) b :: k) σ :: S, c, o⟩ ⟨.goals (gl gs b ++ .endG b false :: k) σ :: S, c, o⟩
  /-- a disjunction: its members, closed by its end marker -/
  | disj {gs b k σ S c o} :
      CStep fo kb ⟨.goals (.g (.or gs) b :: k) σ :: S, c, o⟩ ⟨.goals (.alt gs b :: .endG b false :: k) σ :: S, c, o⟩
  /-- the first member now, the others later -/
  | altStep {g gs b k σ S c o} :
      CStep fo kb ⟨.goals (.alt (.cons g gs) b :: k) σ :: S, c, o⟩ ⟨.goals (.g g b :: k) σ :: (altF gs b k σ ++ S), c, o⟩
  | clauseOk {t σ σ' idx n k S c o key rule c' f} : termKey fo.showF t = .ok key → getRule kb key idx c = .ok (rule, c') →
      unify fo f rule.head t σ = .ok σ' →
      CStep fo kb ⟨.try t σ idx n k :: S, c, o⟩
        ⟨.goals (bodyK rule.body S.length k) σ' :: (cTry t σ (idx + 1) n k ++ S), c', o⟩
  | clauseFail {t σ idx n k S c o key rule c' f} : termKey fo.showF t = .ok key → getRule kb key idx c = .ok (rule, c') →
      unify fo f rule.head t σ = .fail →
      CStep fo kb ⟨.try t σ idx n k :: S, c, o⟩ ⟨cTry t σ (idx + 1) n k ++ S, c, o⟩
  /-- the end of a group in which no cut ran -/
  | endGroup {h k σ S c o} : CStep fo kb ⟨.goals (.endG h false :: k) σ :: S, c, o⟩ ⟨.goals k σ :: S, c, o⟩
  /-- the end of a group in which a cut ran -/
  | commitGroup {h k σ S c o} : CStep fo kb ⟨.goals (.endG h true :: k) σ :: S, c, o⟩ ⟨.goals k σ :: truncate S h, c, o⟩
  /-- the end of a body in which no cut ran -/
  | endBody {h k σ S c o} : CStep fo kb ⟨.goals (.endB h false :: k) σ :: S, c, o⟩ ⟨.goals k σ :: S, c, o⟩
  /-- the end of a body in which a cut ran: nothing created since the call began survives -/
  | commitBody {h k σ S c o} : CStep fo kb ⟨.goals (.endB h true :: k) σ :: S, c, o⟩ ⟨.goals k σ :: truncate S h, c, o⟩
  /-- negation: the negated goal (the first operand) gets a search of its own -/
  | notEnter {g gs b k σ S c o} :
      CStep fo kb ⟨.goals (.g (.not (.cons g gs)) b :: k) σ :: S, c, o⟩ ⟨.notF [.goals [.g g 0] σ] σ k :: S, c, o⟩
  | notIn {A A' σ k S c o c' o'} : CStep fo kb ⟨A, c, o⟩ ⟨A', c', o'⟩ →
      CStep fo kb ⟨.notF A σ k :: S, c, o⟩ ⟨.notF A' σ k :: S, c', o'⟩
  /-- the inner search ran empty: the negation holds, nothing is bound -/
  | notOk {σ k S c o} : CStep fo kb ⟨.notF [] σ k :: S, c, o⟩ ⟨.goals k σ :: S, c, o⟩
  /-- the inner search shows an answer: the negation fails, once and for all -/
  | notFail {σ' A σ k S c o} : CStep fo kb ⟨.notF (.goals [] σ' :: A) σ k :: S, c, o⟩ ⟨S, c, o⟩
  /-- timing: the timed goal (the first operand) gets a search of its own -/
  | timeEnter {g gs b k σ S c o} :
      CStep fo kb ⟨.goals (.g (.time (.cons g gs)) b :: k) σ :: S, c, o⟩ ⟨.timeF [.goals [.g g 0] σ] k :: S, c, o⟩
  | timeIn {A A' k S c o c' o'} : CStep fo kb ⟨A, c, o⟩ ⟨A', c', o'⟩ →
      CStep fo kb ⟨.timeF A k :: S, c, o⟩ ⟨.timeF A' k :: S, c', o'⟩
  /-- no answer: the timed goal fails; the elapsed time is written -/
  | timeNone {k S c o} : CStep fo kb ⟨.timeF [] k :: S, c, o⟩ ⟨S, c, cEmit o "<elapsed>"⟩
  /-- the first answer is the only one: the rest of the inner search is dropped; the elapsed time is written -/
  | timeSome {σ' A k S c o} : CStep fo kb ⟨.timeF (.goals [] σ' :: A) k :: S, c, o⟩ ⟨.goals k σ' :: S, c, cEmit o "<elapsed>"⟩

inductive CSteps (fo : FloatOps) (kb : KB) : CConf → CConf → Prop where
  | refl {c} : CSteps fo kb c c
  | step {a b c} : CStep fo kb a b → CSteps fo kb b c → CSteps fo kb a c

theorem CSteps.trans {fo : FloatOps} {kb : KB} {a b c : CConf} (h1 : CSteps fo kb a b) (h2 : CSteps fo kb b c) : CSteps fo kb a c := by
  induction h1 with
  | refl => exact h2
  | step hs _ ih => exact .step hs (ih h2)

theorem CSteps.one {fo : FloatOps} {kb : KB} {a b : CConf} (h : CStep fo kb a b) : CSteps fo kb a b := .step h .refl

/-- a run of the inner search is a run of the frame that holds it -/
theorem CSteps.notIn {fo : FloatOps} {kb : KB} {x y : CConf} (h : CSteps fo kb x y) (σ : Subst) (k : List CG) (S : List CFrame) :
    CSteps fo kb ⟨.notF x.stack σ k :: S, x.ctr, x.out⟩ ⟨.notF y.stack σ k :: S, y.ctr, y.out⟩ := by
  induction h with
  | refl => exact .refl
  | step hs _ ih => exact .step (.notIn hs) ih

theorem CSteps.timeIn {fo : FloatOps} {kb : KB} {x y : CConf} (h : CSteps fo kb x y) (k : List CG) (S : List CFrame) :
    CSteps fo kb ⟨.timeF x.stack k :: S, x.ctr, x.out⟩ ⟨.timeF y.stack k :: S, y.ctr, y.out⟩ := by
  induction h with
  | refl => exact .refl
  | step hs _ ih => exact .step (.timeIn hs) ih

/-- what successive observers see (as `MRun` of the cut-free machine) -/
inductive CRun (fo : FloatOps) (kb : KB) : CConf → List (Option Subst × List String) → Prop where
  | nil {c} : CRun fo kb c []
  | ans {c σ S ctr out rest} : CSteps fo kb c ⟨.goals [] σ :: S, ctr, out⟩ → CRun fo kb ⟨S, ctr, out⟩ rest →
      CRun fo kb c ((some σ, out) :: rest)
  | fin {c ctr out rest} : CSteps fo kb c ⟨[], ctr, out⟩ → CRun fo kb ⟨[], ctr, out⟩ rest →
      CRun fo kb c ((none, out) :: rest)

theorem truncate_append_of_le (X B : List CFrame) (h : Nat) (hb : h ≤ B.length) : truncate (X ++ B) h = truncate B h := by
  unfold truncate
  rw [List.length_append]
  have : X.length + B.length - h = X.length + (B.length - h) := by omega
  rw [this, List.drop_append]
  simp

theorem truncate_self (B : List CFrame) : truncate B B.length = B := by simp [truncate]

theorem truncate_length (B : List CFrame) (h : Nat) (hb : h ≤ B.length) : (truncate B h).length = h := by
  simp [truncate, List.length_drop]; omega

theorem truncate_idem (B : List CFrame) (h : Nat) (hb : h ≤ B.length) : truncate (truncate B h) h = truncate B h := by
  have hl := truncate_length B h hb
  unfold truncate at hl ⊢
  rw [hl]; simp

theorem markCut_idem : ∀ k, markCut (markCut k) = markCut k := by
  intro k
  induction k with
  | nil => rfl
  | cons x k ih => cases x <;> simp [markCut, ih]

theorem gl_cons (g : Goal) (gs : GoalList) (bar : Nat) : gl (.cons g gs) bar = CG.g g bar :: gl gs bar := by
  simp [gl, GoalList.toList]

theorem gl_nil (bar : Nat) : gl .nil bar = [] := by simp [gl, GoalList.toList]

end Suiron.Spec.Grp
