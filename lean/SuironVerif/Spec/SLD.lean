/-
  Declarative reference for soundness: which substitution sets are *answers* of a goal in the
  sense of SLD resolution (some clause of the predicate, renamed apart with some counter value,
  whose head unifies with the goal and whose body is answered in turn; conjunction threads the
  substitution set left to right; a disjunction is answered by any alternative).
  Order, multiplicity and completeness are not expressed here (they are the business of
  `Spec/Machine.lean`); `!` is read as `true`, `not(G)` as "leaves the set as it is".
-/
import SuironVerif.Model.Engine
namespace Suiron.Spec

def GoalList.mem (g : Goal) : GoalList → Prop
  | .nil => False
  | .cons h t => g = h ∨ GoalList.mem g t

mutual
inductive Derives (fo : FloatOps) (kb : KB) : Goal → Subst → Subst → Prop where
  /-- a fact: the renamed head unifies with the goal -/
  | fact {t : Term} {σ σ' : Subst} {key : String} {idx counter c' : Nat} {rule : Rule} {f : Nat} :
      termKey fo.showF t = .ok key → getRule kb key idx counter = .ok (rule, c') →
      unify fo f rule.head t σ = .ok σ' → rule.body.isNil = true → Derives fo kb (.call t) σ σ'
  /-- a rule: the renamed head unifies with the goal and the body is answered -/
  | rule {t : Term} {σ σ1 σ' : Subst} {key : String} {idx counter c' : Nat} {rule : Rule} {f : Nat} :
      termKey fo.showF t = .ok key → getRule kb key idx counter = .ok (rule, c') →
      unify fo f rule.head t σ = .ok σ1 → Derives fo kb rule.body σ1 σ' → Derives fo kb (.call t) σ σ'
  | bip {name : String} {args : Option TermList} {σ σ' : Subst} {f : Nat} {out : String} :
      runBip fo f name (optList args) σ = .ok ⟨some σ', out⟩ → Derives fo kb (.bip name args) σ σ'
  | cut {args : Option TermList} {σ : Subst} : Derives fo kb (.bip "!" args) σ σ
  | and {gs : GoalList} {σ σ' : Subst} : DerivesList fo kb gs σ σ' → Derives fo kb (.and gs) σ σ'
  | or {g : Goal} {gs : GoalList} {σ σ' : Subst} : GoalList.mem g gs → Derives fo kb g σ σ' → Derives fo kb (.or gs) σ σ'
  | not {gs : GoalList} {σ : Subst} : Derives fo kb (.not gs) σ σ
  | time {g : Goal} {gs : GoalList} {σ σ' : Subst} : Derives fo kb g σ σ' → Derives fo kb (.time (.cons g gs)) σ σ'
inductive DerivesList (fo : FloatOps) (kb : KB) : GoalList → Subst → Subst → Prop where
  | nil {σ : Subst} : DerivesList fo kb .nil σ σ
  | cons {g : Goal} {gs : GoalList} {σ σ1 σ' : Subst} :
      Derives fo kb g σ σ1 → DerivesList fo kb gs σ1 σ' → DerivesList fo kb (.cons g gs) σ σ'
end

end Suiron.Spec
