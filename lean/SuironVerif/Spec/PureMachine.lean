/-
  Reference semantics for the cut-free fragment (calls, built-ins, `,`, `;`, `not`): depth-first,
  left-to-right, clause-order resolution as a machine whose whole state is a stack of frames (top
  first), the variable counter and the text written so far.

    goals k σ          "continue with the goal list k under σ"; `goals [] σ` is an answer
    try t σ idx n k    "clauses idx .. n-1 of the predicate of t are still to be tried for the
                        call t (made under σ, followed by k)"
    notF A σ k         "negation in progress": A is the stack of a search of its own for the negated
                        goal (started under σ); when A runs empty the negation succeeds and `k`
                        continues under the UNCHANGED σ; as soon as A shows an answer the negation
                        fails and A is thrown away, bindings and alternatives alike.  The counter and
                        the text written by the inner search are kept in both cases.

  One (silent) step pops the top frame and pushes what it stands for; a frame `goals [] σ` on top is an
  ANSWER σ — it is not popped by a silent step but by the observer (`MRun` below), so the silent
  runs between two answers contain no other answer.  Nothing else is ever consulted:
  in particular the alternatives below the top frame are untouched by the work above them
  (no binding leaks), clauses are tried in knowledge-base order, goals left to right, and the
  counter is advanced only by a clause whose head unifies (`getRule` renames apart from it).
  Fuel of the unification / built-in models is existential: a step exists when SOME fuel makes
  the sub-computation return.
-/
import SuironVerif.Model.Engine
namespace Suiron.Spec
open Suiron

inductive PFrame where
  | goals (k : List Goal) (σ : Subst)
  | try (t : Term) (σ : Subst) (idx n : Nat) (k : List Goal)
  | notF (alts : List PFrame) (σ : Subst) (k : List Goal)

structure PConf where
  stack : List PFrame
  ctr : Nat
  out : List String            -- newest first

def emitOut (out : List String) (s : String) : List String := if s = "" then out else s :: out

def ruleCount (kb : KB) (key : String) : Nat := match kb.get key with | some rs => rs.length | none => 0

def tryFrame (t : Term) (σ : Subst) (idx n : Nat) (k : List Goal) : List PFrame :=
  if idx < n then [.try t σ idx n k] else []

inductive PStep (fo : FloatOps) (kb : KB) : PConf → PConf → Prop where
  /-- a call: all clauses of the predicate become one choicepoint -/
  | call {t k σ S c o key} : termKey fo.showF t = .ok key →
      PStep fo kb ⟨.goals (.call t :: k) σ :: S, c, o⟩ ⟨tryFrame t σ 0 (ruleCount kb key) k ++ S, c, o⟩
  /-- a built-in that succeeds -/
  | bipOk {name args k σ σ' S c o f txt} : name ≠ "!" → runBip fo f name (optList args) σ = .ok ⟨some σ', txt⟩ →
      PStep fo kb ⟨.goals (.bip name args :: k) σ :: S, c, o⟩ ⟨.goals k σ' :: S, c, emitOut o txt⟩
  /-- a built-in that fails -/
  | bipFail {name args k σ S c o f txt} : name ≠ "!" → runBip fo f name (optList args) σ = .ok ⟨none, txt⟩ →
      PStep fo kb ⟨.goals (.bip name args :: k) σ :: S, c, o⟩ ⟨S, c, emitOut o txt⟩
  /-- a conjunction is spliced into the goal list -/
  | conj {gs k σ S c o} : PStep fo kb ⟨.goals (.and gs :: k) σ :: S, c, o⟩ ⟨.goals (gs.toList ++ k) σ :: S, c, o⟩
  /-- a disjunction: first alternative now, the others later -/
  | disj {g gs k σ S c o} :
      PStep fo kb ⟨.goals (.or (.cons g gs) :: k) σ :: S, c, o⟩
        ⟨.goals (g :: k) σ :: ((if gs.length = 0 then [] else [.goals (.or gs :: k) σ]) ++ S), c, o⟩
  /-- clause `idx`: renamed apart from the counter, head unified with the call; its body (if any) then the rest -/
  | clauseOk {t σ σ' idx n k S c o key rule c' f} : termKey fo.showF t = .ok key → getRule kb key idx c = .ok (rule, c') →
      unify fo f rule.head t σ = .ok σ' →
      PStep fo kb ⟨.try t σ idx n k :: S, c, o⟩
        ⟨.goals (if rule.body.isNil then k else rule.body :: k) σ' :: (tryFrame t σ (idx + 1) n k ++ S), c', o⟩
  /-- clause `idx` does not match: on to the next one, counter given back -/
  | clauseFail {t σ idx n k S c o key rule c' f} : termKey fo.showF t = .ok key → getRule kb key idx c = .ok (rule, c') →
      unify fo f rule.head t σ = .fail →
      PStep fo kb ⟨.try t σ idx n k :: S, c, o⟩ ⟨tryFrame t σ (idx + 1) n k ++ S, c, o⟩
  /-- negation: the negated goal (the first operand) gets a search of its own -/
  | notEnter {g gs k σ S c o} :
      PStep fo kb ⟨.goals (.not (.cons g gs) :: k) σ :: S, c, o⟩ ⟨.notF [.goals [g] σ] σ k :: S, c, o⟩
  /-- a step of the inner search -/
  | notIn {A A' σ k S c o c' o'} : PStep fo kb ⟨A, c, o⟩ ⟨A', c', o'⟩ →
      PStep fo kb ⟨.notF A σ k :: S, c, o⟩ ⟨.notF A' σ k :: S, c', o'⟩
  /-- the inner search ran empty: the negation holds, nothing is bound -/
  | notOk {σ k S c o} : PStep fo kb ⟨.notF [] σ k :: S, c, o⟩ ⟨.goals k σ :: S, c, o⟩
  /-- the inner search shows an answer: the negation fails, once and for all -/
  | notFail {σ' A σ k S c o} : PStep fo kb ⟨.notF (.goals [] σ' :: A) σ k :: S, c, o⟩ ⟨S, c, o⟩

/-- zero or more steps -/
inductive PSteps (fo : FloatOps) (kb : KB) : PConf → PConf → Prop where
  | refl {c} : PSteps fo kb c c
  | step {a b c} : PStep fo kb a b → PSteps fo kb b c → PSteps fo kb a c

theorem PSteps.trans {fo : FloatOps} {kb : KB} {a b c : PConf} (h1 : PSteps fo kb a b) (h2 : PSteps fo kb b c) : PSteps fo kb a c := by
  induction h1 with
  | refl => exact h2
  | step hs _ ih => exact .step hs (ih h2)

theorem PSteps.one {fo : FloatOps} {kb : KB} {a b : PConf} (h : PStep fo kb a b) : PSteps fo kb a b := .step h .refl

/-- a run of the inner search is a run of the frame that holds it -/
theorem PSteps.notIn {fo : FloatOps} {kb : KB} {x y : PConf} (h : PSteps fo kb x y) (σ : Subst) (k : List Goal) (S : List PFrame) :
    PSteps fo kb ⟨.notF x.stack σ k :: S, x.ctr, x.out⟩ ⟨.notF y.stack σ k :: S, y.ctr, y.out⟩ := by
  induction h with
  | refl => exact .refl
  | step hs _ ih => exact .step (.notIn hs) ih

/-- the observable behaviour of the machine from a configuration: the sequence of what successive
    requests see — `some σ` with the text written so far when silent steps lead to an answer frame (which
    is then removed), `none` when they lead to the empty stack (and then `none` for ever) -/
inductive MRun (fo : FloatOps) (kb : KB) : PConf → List (Option Subst × List String) → Prop where
  | nil {c} : MRun fo kb c []
  | ans {c σ S ctr out rest} : PSteps fo kb c ⟨.goals [] σ :: S, ctr, out⟩ → MRun fo kb ⟨S, ctr, out⟩ rest →
      MRun fo kb c ((some σ, out) :: rest)
  | fin {c ctr out rest} : PSteps fo kb c ⟨[], ctr, out⟩ → MRun fo kb ⟨[], ctr, out⟩ rest →
      MRun fo kb c ((none, out) :: rest)

theorem MRun.pre {fo : FloatOps} {kb : KB} {a b : PConf} {tr : List (Option Subst × List String)}
    (h : PSteps fo kb a b) (r : MRun fo kb b tr) : MRun fo kb a tr := by
  cases r with
  | nil => exact .nil
  | ans h1 t => exact .ans (h.trans h1) t
  | fin h1 t => exact .fin (h.trans h1) t

end Suiron.Spec
