/-
  C04 — output side effects occur once per execution, in search order.
  Proved: on the cut-free fragment (negation included) the text written up to every request is the text
  the reference machine has written at the corresponding point of its run (`output_in_search_order`,
  the output component of the refinement theorem C01_pure: the machine executes a print / print_list
  / nl goal exactly when depth-first search reaches it, once per execution, retries included); and the
  local facts below; the same for programs with `!` in conjunctions and disjunctions nested to any depth
  (`output_in_search_order_with_cut`, the output component of the refinement to the machine with cut and groups:
  a goal the cut removed from the search is never executed, a goal after the cut is executed once).
  For programs that mix `!` with `not`, and for `time`, the agreement of the output with the
  reference search is the output component of the engine-vs-machine comparison, run on every check.
-/
import SuironVerif.Lemmas.Exhausted
import SuironVerif.Lemmas.EngineRefine
import SuironVerif.Lemmas.GroupMachineProps
namespace Suiron.C04

/-- the text written so far, request after request, is the reference machine's (each trace entry pairs the
    answer with the complete output at that moment) -/
theorem output_in_search_order (fo : FloatOps) (kb : KB)
    (hkb : ∀ key rs, kb.get key = some rs → ∀ r ∈ rs, r.body.isNil = true ∨ Spec.pureG r.body = true)
    (q : Term) (σ0 : Subst) (g0 g1 : G) (node : Node)
    (hmk : mkNode fo.showF kb (.call q) σ0 g0 = .ok (node, g1)) (hg : Spec.GOK g0) (fs : List Nat) :
    Spec.MRun fo kb ⟨[.goals [.call q] σ0], g0.counter, g0.out⟩ (Spec.askOut fo kb fs node g1) :=
  Spec.query_refines_machine fo kb (Spec.pureKB_of_rules kb hkb) q σ0 g0 g1 node hmk hg fs

/-- the same for programs with the cut (bodies built from calls, built-ins, `!`, conjunctions and disjunctions): the
    text written so far, request after request, is the text the machine with cut and groups has written — and that
    machine's run is unique (`Spec.Grp.CRun.det`) -/
theorem output_in_search_order_with_cut (fo : FloatOps) (kb : KB)
    (hkb : ∀ key rs, kb.get key = some rs → ∀ r ∈ rs, r.body.isNil = true ∨ Spec.Grp.okG r.body = true)
    (q : Term) (σ0 : Subst) (g0 g1 : G) (node : Node)
    (hmk : mkNode fo.showF kb (.call q) σ0 g0 = .ok (node, g1)) (hg : Spec.GOK g0) (fs : List Nat) :
    Spec.Grp.CRun fo kb ⟨[.goals [.g (.call q) 0] σ0], g0.counter, g0.out⟩ (Spec.askOut fo kb fs node g1) ∧
    ∀ tr', Spec.Grp.CRun fo kb ⟨[.goals [.g (.call q) 0] σ0], g0.counter, g0.out⟩ tr' →
      ∀ (i : Nat) (x y : Option Subst × List String), (Spec.askOut fo kb fs node g1)[i]? = some x → tr'[i]? = some y → x = y :=
  have h := Spec.Grp.query_refines_group_machine fo kb (Spec.Grp.okKB_of_rules kb hkb) q σ0 g0 g1 node hmk hg fs
  ⟨h, fun tr' hm i x y hx hy => Spec.Grp.CRun.det h hm i x y hx hy⟩

/-- a built-in node runs its effect on the first request only: afterwards it is exhausted, and an
    exhausted node writes nothing. -/
theorem bip_effect_once (fo : FloatOps) (kb : KB) (f : Nat) (name : String) (args : Option TermList) (σ : Subst) (g : G)
    (st : Step) (h : next fo kb (f+1) (.bip name args σ false true) g = .ok st) :
    Exhausted st.node ∨ st.node.nb = true := by
  simp only [next, Node.nb] at h; simp at h
  by_cases hc : name = "!"
  · simp [hc] at h; subst h; right; rfl
  · simp [hc] at h
    obtain ⟨r, _, h⟩ := Res.bind_eq_ok.mp h
    cases h; left; exact Exhausted.bip _ _ _ _

/-- executing a built-in appends exactly the text it produced to the output, after everything
    written before (search order), and nothing else. -/
theorem bip_output_appended (fo : FloatOps) (kb : KB) (f : Nat) (name : String) (args : Option TermList) (σ : Subst) (g : G)
    (hc : name ≠ "!") (r : BipOut) (hr : runBip fo f name (optList args) σ = .ok r) :
    next fo kb (f+1) (.bip name args σ false true) g = .ok ⟨r.sol, .bip name args σ false false, false, g.emit r.out⟩ := by
  simp only [next, Node.nb]; simp [hc, hr]

/-- `print`: with as many arguments as `%s` markers, the output is the format's pieces with the
    arguments in between. -/
theorem interleave_eq (args pieces : List String) (h : args.length = pieces.length) :
    interleave args pieces = concatStr (List.zipWith (· ++ ·) args pieces) := by
  induction args generalizing pieces with
  | nil => cases pieces <;> simp_all [interleave, concatStr]
  | cons a as ih =>
    cases pieces with
    | nil => simp at h
    | cons p ps =>
      simp at h
      simp [interleave, ih ps h, concatStr, List.zipWith, String.append_assoc]

/-- `print` without markers concatenates its arguments. -/
theorem interleave_no_markers (args : List String) : interleave args [] = concatStr args := by
  induction args with
  | nil => simp [interleave, concatStr]
  | cons a as ih => simp [interleave, ih, concatStr]

/-- each argument of `print` is shown as the term it is bound to, or as itself when unbound. -/
theorem print_shows_bound_value (fo : FloatOps) (f : Nat) (σ : Subst) (t v : Term)
    (h : walk f σ t = .ok (some v)) : showGround fo f σ t = .ok (Term.show fo.showF v) := by
  simp [showGround, h]

def fo0 : FloatOps := ⟨fun a _ => a, fun a _ => a, fun a _ => a, fun a _ => a, fun _ => 0, fun _ => ""⟩
example : formatForPrint ["Hello %s, %s.", "a", "b"] = .ok "Hello a, b." := by decide
example : formatForPrint ["x", "y", "z"] = .ok "xyz" := by decide
example : bipPrint fo0 5 (some [.atom "v=%s;", .var 1 "$X"]) [none, some (.atom "q")] = .ok "v=q;" := by decide

end Suiron.C04
