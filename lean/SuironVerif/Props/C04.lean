/-
  C04 — output side effects occur once per execution, in search order.
  (Agreement of the engine's output with the reference search is the output component of the
  engine-vs-machine comparison, run on every check; theorems below are the local facts.)
-/
import SuironVerif.Lemmas.Exhausted
namespace Suiron.C04

/-- a built-in node runs its effect on the first request only: afterwards it is exhausted, and an
    exhausted node writes nothing. -/
theorem bip_effect_once (fo : FloatOps) (kb : KB) (f : Nat) (name : String) (args : Option TermList) (σ : Subst) (g : G)
    (st : Step) (h : next fo kb (f+1) (.bip name args σ false true) g = .ok st) :
    Exhausted st.node ∨ st.node.nb = true := by
  simp only [next, Node.nb] at h; simp at h
  by_cases hc : name = "!"
  · simp [hc] at h; subst h; right; rfl
  · simp [hc] at h
    obtain ⟨r, _, h⟩ := Res.bind_eq_ok.mp h
    cases h; left; exact Exhausted.bip _ _ _ _

/-- executing a built-in appends exactly the text it produced to the output, after everything
    written before (search order), and nothing else. -/
theorem bip_output_appended (fo : FloatOps) (kb : KB) (f : Nat) (name : String) (args : Option TermList) (σ : Subst) (g : G)
    (hc : name ≠ "!") (r : BipOut) (hr : runBip fo f name (optList args) σ = .ok r) :
    next fo kb (f+1) (.bip name args σ false true) g = .ok ⟨r.sol, .bip name args σ false false, false, g.emit r.out⟩ := by
  simp only [next, Node.nb]; simp [hc, hr]

/-- `print`: with as many arguments as `%s` markers, the output is the format's pieces with the
    arguments in between. -/
theorem interleave_eq (args pieces : List String) (h : args.length = pieces.length) :
    interleave args pieces = concatStr (List.zipWith (· ++ ·) args pieces) := by
  induction args generalizing pieces with
  | nil => cases pieces <;> simp_all [interleave, concatStr]
  | cons a as ih =>
    cases pieces with
    | nil => simp at h
    | cons p ps =>
      simp at h
      simp [interleave, ih ps h, concatStr, List.zipWith, String.append_assoc]

/-- `print` without markers concatenates its arguments. -/
theorem interleave_no_markers (args : List String) : interleave args [] = concatStr args := by
  induction args with
  | nil => simp [interleave, concatStr]
  | cons a as ih => simp [interleave, ih, concatStr]

/-- each argument of `print` is shown as the term it is bound to, or as itself when unbound. -/
theorem print_shows_bound_value (fo : FloatOps) (f : Nat) (σ : Subst) (t v : Term)
    (h : walk f σ t = .ok (some v)) : showGround fo f σ t = .ok (Term.show fo.showF v) := by
  simp [showGround, h]

def fo0 : FloatOps := ⟨fun a _ => a, fun a _ => a, fun a _ => a, fun a _ => a, fun _ => 0, fun _ => ""⟩
example : formatForPrint ["Hello %s, %s.", "a", "b"] = .ok "Hello a, b." := by decide
example : formatForPrint ["x", "y", "z"] = .ok "xyz" := by decide
example : bipPrint fo0 5 (some [.atom "v=%s;", .var 1 "$X"]) [none, some (.atom "q")] = .ok "v=q;" := by decide

end Suiron.C04
