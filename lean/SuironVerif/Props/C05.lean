/-
  C05 — an exhausted query stays exhausted.
-/
import SuironVerif.Lemmas.Exhausted
namespace Suiron.C05

/-- a request that reports "no more answers" leaves the node exhausted. -/
theorem none_exhausts (fo : FloatOps) (kb : KB) (f : Nat) (n : Node) (g : G) (st : Step)
    (h : next fo kb f n g = .ok st) (hs : st.sol = none) : Exhausted st.node :=
  (none_exh_all fo kb f).1 n g st h hs

/-- an exhausted node answers "no more" again, stays exhausted, and the global state — output
    written so far, variable counter, tick count — is exactly what it was. -/
theorem exhausted_stays (fo : FloatOps) (kb : KB) (f : Nat) (n : Node) (g : G) (h : Exhausted n) :
    next fo kb f n g = .oof ∨ ∃ n', next fo kb f n g = .ok ⟨none, n', false, g⟩ ∧ Exhausted n' :=
  (stays_all fo kb f).1 n g h

/-- any number of further requests, each with whatever fuel: every one that returns, returns
    "no more" and leaves the global state (hence the output) unchanged. -/
def AllNoneSilent (fo : FloatOps) (kb : KB) : List Nat → Node → G → Prop
  | [], _, _ => True
  | f :: fs, n, g =>
    next fo kb f n g = .oof ∨ ∃ n', next fo kb f n g = .ok ⟨none, n', false, g⟩ ∧ AllNoneSilent fo kb fs n' g

theorem reasked (fo : FloatOps) (kb : KB) : ∀ (fs : List Nat) (n : Node) (g : G), Exhausted n → AllNoneSilent fo kb fs n g
  | [], _, _, _ => trivial
  | f :: fs, n, g, h => by
    rcases exhausted_stays fo kb f n g h with ho | ⟨n', hn, he⟩
    · exact Or.inl ho
    · exact Or.inr ⟨n', hn, reasked fo kb fs n' g he⟩

/-- C05: once a request on a query has reported "no more answers", all further requests do. -/
theorem C05 (fo : FloatOps) (kb : KB) (f : Nat) (n : Node) (g : G) (st : Step)
    (h : next fo kb f n g = .ok st) (hs : st.sol = none) (fs : List Nat) :
    AllNoneSilent fo kb fs st.node st.g :=
  reasked fo kb fs st.node st.g (none_exhausts fo kb f n g st h hs)

/-! Non-vacuity: the program `t :- not(ggg). ggg.` (on which the pinned tree answered `t()` when re-asked). -/
def fo0 : FloatOps := ⟨fun a _ => a, fun a _ => a, fun a _ => a, fun a _ => a, fun _ => 0, fun _ => ""⟩
def cp (s : String) : Term := .cplx (.cons (.atom s) .nil)
def kb0 : KB := [("t/0", [⟨cp "t", .not (.cons (.call (cp "ggg")) .nil)⟩]), ("ggg/0", [⟨cp "ggg", .nil⟩])]
def node0 : Node := .call (cp "t") [] false none 0 1
def firstAsk : Option (Option Subst × Node) :=
  match next fo0 kb0 20 node0 G.init with | .ok st => some (st.sol, st.node) | _ => none
example : (firstAsk.map (·.1)) = some none := by decide +kernel
example : ((firstAsk.map (·.2)).map (fun n => match next fo0 kb0 20 n G.init with | .ok st => st.sol | _ => some [])) = some none := by decide +kernel

end Suiron.C05
