/-
  C08 — variable bindings never form a cycle.
-/
import SuironVerif.Lemmas.Chain
namespace Suiron.C08

/-- Every successful unification — whatever the operands — keeps all binding chains finite:
    if following bindings ended from every term before, it still does afterwards. -/
theorem unify_chainWF (fo : FloatOps) (f : Nat) (a b : Term) (σ σ' : Subst)
    (h : unify fo f a b σ = .ok σ') (hσ : ChainWF σ) : ChainWF σ' :=
  (unify_inv_all fo ChainWF chainWF_nil
    (fun σ id b hP hb => chainWF_bind σ id b hP hb.unbound hb.notAliased) f).1 a b σ σ' h hσ

/-- the same for any sequence of successful unifications started from the empty set. -/
theorem unify_seq_chainWF (fo : FloatOps) (f : Nat) :
    ∀ (ps : List (Term × Term)) (σ σ' : Subst), ChainWF σ →
      ps.foldlM (fun s (p : Term × Term) => match unify fo f p.1 p.2 s with | .ok s' => some s' | _ => none) σ = some σ' →
      ChainWF σ'
  | [], σ, σ', hσ, h => by simp [List.foldlM] at h; cases h; exact hσ
  | p :: ps, σ, σ', hσ, h => by
    simp only [List.foldlM] at h
    cases hu : unify fo f p.1 p.2 σ with
    | ok s =>
      simp [hu] at h
      exact unify_seq_chainWF fo f ps s σ' (unify_chainWF fo f _ _ _ _ hu hσ) h
    | fail => simp [hu] at h
    | panic => simp [hu] at h
    | oof => simp [hu] at h

/-- "following bindings from any variable ends": `get_ground_term` returns for some fuel. -/
theorem walk_terminates (σ : Subst) (hσ : ChainWF σ) (t : Term) : ∃ f r, walk f σ t = .ok r := hσ t

/-- Unifying an unbound variable with a variable whose bindings lead back to it adds no binding. -/
theorem alias_adds_no_binding (fo : FloatOps) (f : Nat) (i j : Nat) (n m : String) (σ : Subst)
    (hi : i ≠ 0) (hun : σ.get i = none) (hne : (Term.var i n).beq (.var j m) = false)
    (hal : aliased f σ i (.var j m) = .ok true) :
    unify fo (f+1) (.var i n) (.var j m) σ = .ok σ := by
  unfold unify
  simp [hne, Term.isAnon, hi, Term.isFunc, hun, hal]

/-! Non-vacuity -/
def fo0 : FloatOps := ⟨fun a _ => a, fun a _ => a, fun a _ => a, fun a _ => a, fun _ => 0, fun _ => ""⟩
-- `$Y = $X` then `$X = $Y`: the second unification leaves the set unchanged (the pinned tree built a cycle here)
example : unify fo0 4 (.var 2 "$Y") (.var 1 "$X") [] = .ok [none, none, some (.var 1 "$X")] := by decide
example : unify fo0 4 (.var 1 "$X") (.var 2 "$Y") [none, none, some (.var 1 "$X")] = .ok [none, none, some (.var 1 "$X")] := by decide
example : ChainWF [] := chainWF_nil

end Suiron.C08
