/-
  C01 — answers equal depth-first SLD resolution, in order.

  FULL STATEMENT (the target; kept visible, NOT yet proved): for every knowledge base, query and
  number m of requests, the answers and the stdout segments of the first m calls of `next` on the
  base node equal the first m answers (and interleaved outputs) of `Spec.step` iterated from
  `Spec.init`; once the machine's stack is empty every further call returns none.
  That refinement is decided on every run by comparing implementation, engine model and reference
  machine on generated programs.  Proved below (`_partial`):
    * SOUNDNESS, for every knowledge base, query, number of requests and fuel: every answer the
      engine returns — at the first request or at any later one, whatever cuts, disjunctions,
      negations ran in between — is an answer of SLD resolution in the declarative sense of
      `Spec/SLD.lean` (some clause, renamed apart, whose head unifies with the goal and whose
      body is answered in turn, left to right): `answers_are_derivable_partial`;
    * the facts the statement's last two sentences rest on (no leakage between alternatives,
      answer formatting).
    * REFINEMENT on the cut-free fragment (calls, built-ins other than `!`, conjunctions, disjunctions,
      negations, in queries and in every rule body) — `C01_pure`: for every such knowledge base, query,
      number of requests and fuel, what the successive requests return (answer or none, and the text
      written so far) is exactly what the reference machine of `Spec/PureMachine.lean` shows when started
      on the query: the same answers in the same order with the same multiplicity, none once the
      machine's stack is empty and for ever after. The machine is depth-first, left-to-right,
      clause-order resolution by construction (a stack of `goals` / `try` / `notF` frames; a negation runs a search of its
      own for the negated goal and keeps nothing of it but the counter and the text written) and the silent runs between two answers contain no other answer.
  NOT proved: the refinement for programs with `!` or `time` (for those: soundness above, the C02 /
  C03 / C05 theorems, and the machine comparison on every run).  The machine's run is unique
  (`C01_exact`, from `Lemmas/MachineDet.lean` and the fuel monotonicity of `Lemmas/FuelMono.lean`), and so is
  the outcome of every request that returns (`request_independent_of_fuel`); that a request returns at all
  (termination) is outside the theorems.
-/
import SuironVerif.Model.Solve
import SuironVerif.Lemmas.MachineDet
import SuironVerif.Spec.Machine
import SuironVerif.Lemmas.Exhausted
import SuironVerif.Lemmas.EngineSound
import SuironVerif.Lemmas.EngineRefine
import SuironVerif.Lemmas.GroupMachineProps
namespace Suiron.C01

/-- the answers of a sequence of requests on one query (one fuel value per request) -/
def askN (fo : FloatOps) (kb : KB) : List Nat → Node → G → List (Option Subst)
  | [], _, _ => []
  | f :: fs, node, g =>
    match next fo kb f node g with
    | .ok st => st.sol :: askN fo kb fs st.node st.g
    | _ => []

theorem askN_sound (fo : FloatOps) (kb : KB) : ∀ (fs : List Nat) (node : Node) (g : G) (P : Subst → Prop),
    Spec.NodeSound fo kb node P → ∀ σ', some σ' ∈ askN fo kb fs node g → P σ' := by
  intro fs
  induction fs with
  | nil => intro node g P _ σ' h; simp [askN] at h
  | cons f fs ih =>
    intro node g P hs σ' h
    simp only [askN] at h
    cases hn : next fo kb f node g with
    | ok st =>
      rw [hn] at h
      have := (Spec.next_sound fo kb f).1 node g st P hs hn
      rcases List.mem_cons.mp h with h1 | h2
      · exact this.1 σ' h1.symm
      · exact ih st.node st.g P this.2 σ' h2
    | fail => rw [hn] at h; simp at h
    | panic => rw [hn] at h; simp at h
    | oof => rw [hn] at h; simp at h

/-- SOUNDNESS: every answer returned by any request on the base node of a query is an SLD answer of
    the query from the substitution set the query was started with. -/
theorem answers_are_derivable_partial (fo : FloatOps) (kb : KB) (q : Term) (σ0 : Subst) (g0 g1 : G) (node : Node)
    (hmk : mkNode fo.showF kb (.call q) σ0 g0 = .ok (node, g1)) (fs : List Nat) (σ' : Subst)
    (h : some σ' ∈ askN fo kb fs node g1) : Spec.Derives fo kb (.call q) σ0 σ' :=
  askN_sound fo kb fs node g1 _ (Spec.mkNode_sound fo kb _ σ0 g0 node g1 _ hmk (fun _ h => h)) σ' h

/-- REFINEMENT, cut-free fragment (negation included): the requests on the base node of a query show exactly
    the behaviour of the reference machine started on that query. -/
theorem C01_pure (fo : FloatOps) (kb : KB)
    (hkb : ∀ key rs, kb.get key = some rs → ∀ r ∈ rs, r.body.isNil = true ∨ Spec.pureG r.body = true)
    (q : Term) (σ0 : Subst) (g0 g1 : G) (node : Node)
    (hmk : mkNode fo.showF kb (.call q) σ0 g0 = .ok (node, g1)) (hg : Spec.GOK g0) (fs : List Nat) :
    Spec.MRun fo kb ⟨[.goals [.call q] σ0], g0.counter, g0.out⟩ (Spec.askOut fo kb fs node g1) :=
  Spec.query_refines_machine fo kb (Spec.pureKB_of_rules kb hkb) q σ0 g0 g1 node hmk hg fs

/-- EXACTLY: the reference machine is deterministic (`MRun.det`: one successor per configuration whatever fuel the
    unification and built-in models get), so its run from the query is unique; whatever it can be observed to
    show — any `tr'` — agrees position by position (answer or none, and the text written so far) with what the
    engine's successive requests return. -/
theorem C01_exact (fo : FloatOps) (kb : KB)
    (hkb : ∀ key rs, kb.get key = some rs → ∀ r ∈ rs, r.body.isNil = true ∨ Spec.pureG r.body = true)
    (q : Term) (σ0 : Subst) (g0 g1 : G) (node : Node)
    (hmk : mkNode fo.showF kb (.call q) σ0 g0 = .ok (node, g1)) (hg : Spec.GOK g0) (fs : List Nat)
    (tr' : List (Option Subst × List String)) (hm : Spec.MRun fo kb ⟨[.goals [.call q] σ0], g0.counter, g0.out⟩ tr')
    (i : Nat) (x y : Option Subst × List String) (hx : (Spec.askOut fo kb fs node g1)[i]? = some x) (hy : tr'[i]? = some y) : x = y :=
  (C01_pure fo kb hkb q σ0 g0 g1 node hmk hg fs).det hm i x y hx hy

/-! ## the whole language: `!`, conjunctions and disjunctions nested to any depth, `not`, `time`
    (only a `!` written directly inside `not(...)` / `time(...)` is excluded) -/

/-- REFINEMENT for the whole language: the requests on the base node of a query show exactly the behaviour of the
    reference machine with cut, groups, negation and timing (`Spec/GroupMachine.lean`) started on that query. -/
theorem C01_full_language (fo : FloatOps) (kb : KB)
    (hkb : ∀ key rs, kb.get key = some rs → ∀ r ∈ rs, r.body.isNil = true ∨ Spec.Grp.okG r.body = true)
    (q : Term) (σ0 : Subst) (g0 g1 : G) (node : Node)
    (hmk : mkNode fo.showF kb (.call q) σ0 g0 = .ok (node, g1)) (hg : Spec.GOK g0) (fs : List Nat) :
    Spec.Grp.CRun fo kb ⟨[.goals [.g (.call q) 0] σ0], g0.counter, g0.out⟩ (Spec.askOut fo kb fs node g1) :=
  Spec.Grp.query_refines_group_machine fo kb (Spec.Grp.okKB_of_rules kb hkb) q σ0 g0 g1 node hmk hg fs

/-- and that machine's run is unique -/
theorem C01_full_language_exact (fo : FloatOps) (kb : KB)
    (hkb : ∀ key rs, kb.get key = some rs → ∀ r ∈ rs, r.body.isNil = true ∨ Spec.Grp.okG r.body = true)
    (q : Term) (σ0 : Subst) (g0 g1 : G) (node : Node)
    (hmk : mkNode fo.showF kb (.call q) σ0 g0 = .ok (node, g1)) (hg : Spec.GOK g0) (fs : List Nat)
    (tr' : List (Option Subst × List String)) (hm : Spec.Grp.CRun fo kb ⟨[.goals [.g (.call q) 0] σ0], g0.counter, g0.out⟩ tr')
    (i : Nat) (x y : Option Subst × List String) (hx : (Spec.askOut fo kb fs node g1)[i]? = some x) (hy : tr'[i]? = some y) : x = y :=
  (C01_full_language fo kb hkb q σ0 g0 g1 node hmk hg fs).det hm i x y hx hy

mutual
/-- the cut-free fragment of `C01_pure` lies inside the fragment of `C01_full_language` -/
theorem okG_of_pureG : (g : Goal) → Spec.pureG g = true → Spec.Grp.okG g = true ∧ Spec.Grp.ncG g = true
  | .call _, _ => ⟨rfl, rfl⟩
  | .bip name _, h => ⟨rfl, by simpa [Spec.pureG, Spec.Grp.ncG] using h⟩
  | .and gs, h => by
    simp only [Spec.pureG, Bool.and_eq_true] at h
    have := okGL_of_pureGL gs h.2
    simp only [Spec.Grp.okG, Spec.Grp.ncG, Bool.and_eq_true]
    exact ⟨⟨h.1, this.1⟩, this.2⟩
  | .or gs, h => by
    simp only [Spec.pureG, Bool.and_eq_true] at h
    have := okGL_of_pureGL gs h.2
    simp only [Spec.Grp.okG, Spec.Grp.ncG, Bool.and_eq_true]
    exact ⟨⟨h.1, this.1⟩, this.2⟩
  | .not gs, h => by
    simp only [Spec.pureG, Bool.and_eq_true] at h
    have := okGL_of_pureGL gs h.2
    simp only [Spec.Grp.okG, Spec.Grp.ncG, Bool.and_eq_true]
    exact ⟨⟨⟨h.1, this.1⟩, this.2⟩, this.2⟩
  | .time _, h => by simp [Spec.pureG] at h
  | .nil, h => by simp [Spec.pureG] at h
theorem okGL_of_pureGL : (gs : GoalList) → Spec.pureGL gs = true → Spec.Grp.okGL gs = true ∧ Spec.Grp.ncGL gs = true
  | .nil, _ => ⟨rfl, rfl⟩
  | .cons g gs, h => by
    simp only [Spec.pureGL, Bool.and_eq_true] at h
    have a := okG_of_pureG g h.1
    have b := okGL_of_pureGL gs h.2
    simp only [Spec.Grp.okGL, Spec.Grp.ncGL, Bool.and_eq_true]
    exact ⟨⟨a.1, b.1⟩, ⟨a.2, b.2⟩⟩
end

/-- fuel is a modelling device only: a request that returns with two fuel values returns the same answer, the same
    successor node and the same global state -/
theorem request_independent_of_fuel (fo : FloatOps) (kb : KB) (N : Node) (g : G) (f f' : Nat) (st st' : Step)
    (h : next fo kb f N g = .ok st) (h' : next fo kb f' N g = .ok st') : st = st' := by
  have := next_unique fo kb N g f f' (by rw [h]; simp) (by rw [h']; simp)
  rw [h, h'] at this; cases this; rfl

/-- the same for any node of the fragment reached during a search (re-asked nodes, stale children included) -/
theorem C01_pure_node (fo : FloatOps) (kb : KB)
    (hkb : ∀ key rs, kb.get key = some rs → ∀ r ∈ rs, r.body.isNil = true ∨ Spec.pureG r.body = true)
    (fs : List Nat) (N : Node) (g : G) (hp : Spec.pureN N) (hg : Spec.GOK g) :
    Spec.MRun fo kb ⟨Spec.absN N [], g.counter, g.out⟩ (Spec.askOut fo kb fs N g) :=
  Spec.engine_refines_machine fo kb (Spec.pureKB_of_rules kb hkb) fs N g hp hg

/-- bindings of an abandoned alternative cannot leak: the substitution set a node was created with
    is never modified by any request on it (every alternative starts again from that very set). -/
def Node.sigma : Node → Subst
  | .bip _ _ σ _ _ => σ
  | .call _ σ _ _ _ _ => σ
  | .op _ σ _ _ _ _ _ => σ

theorem sigma_const_partial (fo : FloatOps) (kb : KB) : ∀ f,
    (∀ n g st, next fo kb f n g = .ok st → Node.sigma st.node = Node.sigma n) ∧
    (∀ t σ nb child idx n g st, callLoop fo kb f t σ nb child idx n g = .ok st → Node.sigma st.node = σ) ∧
    (∀ σ nb more head rest tail cutAcc g st, andLoop fo kb f σ nb more head rest tail cutAcc g = .ok st → Node.sigma st.node = σ) := by
  intro f
  induction f with
  | zero =>
    refine ⟨?_, ?_, ?_⟩
    · intro n g st h; simp [next] at h
    · intro t σ nb child idx n g st h; simp [callLoop] at h
    · intro σ nb more head rest tail cutAcc g st h; simp [andLoop] at h
  | succ f ih =>
    obtain ⟨ihN, ihC, ihA⟩ := ih
    refine ⟨?_, ?_, ?_⟩
    · intro n g st h
      by_cases hnb : n.nb = true
      · simp [next, hnb] at h; subst h; rfl
      · cases n with
        | bip name args σ nb more =>
          simp [Node.nb] at hnb; subst hnb
          simp only [next, Node.nb] at h; simp at h
          by_cases hm : more = true
          · simp [hm] at h
            by_cases hc : name = "!"
            · simp [hc] at h; subst h; rfl
            · simp [hc] at h
              obtain ⟨r, _, h⟩ := Res.bind_eq_ok.mp h; cases h; rfl
          · simp at hm; subst hm; simp at h; subst h; rfl
        | call t σ nb child idx n =>
          simp [Node.nb] at hnb; subst hnb
          simp only [next, Node.nb] at h; simp at h
          cases child with
          | none => simp at h; exact ihC _ _ _ _ _ _ _ _ h
          | some c =>
            simp at h
            obtain ⟨r, hr, h⟩ := Res.bind_eq_ok.mp h
            by_cases hsol : r.sol.isSome = true
            · simp [hsol] at h; subst h; rfl
            · simp [hsol] at h; exact ihC _ _ _ _ _ _ _ _ h
        | op k σ nb more head rest tail =>
          simp [Node.nb] at hnb; subst hnb
          cases k with
          | and =>
            simp only [next, Node.nb] at h; simp at h
            cases tail with
            | none => simp at h; exact ihA _ _ _ _ _ _ _ _ _ h
            | some tn =>
              simp at h
              obtain ⟨r, hr, h⟩ := Res.bind_eq_ok.mp h
              by_cases hsol : r.sol.isSome = true
              · simp [hsol] at h; subst h; rfl
              · simp [hsol] at h; exact ihA _ _ _ _ _ _ _ _ _ h
          | or =>
            simp only [next, Node.nb] at h; simp at h
            cases tail with
            | some tn =>
              simp at h
              obtain ⟨r, hr, h⟩ := Res.bind_eq_ok.mp h
              cases h; rfl
            | none =>
              simp at h
              obtain ⟨r, hr, h⟩ := Res.bind_eq_ok.mp h
              by_cases hsol : r.sol.isSome = true
              · simp [hsol] at h; subst h; rfl
              · simp [hsol] at h
                by_cases hl : rest.length = 0
                · simp [hl] at h; subst h; rfl
                · simp [hl] at h
                  by_cases hcut : r.cut = true
                  · simp [hcut] at h; subst h; rfl
                  · simp [hcut] at h
                    obtain ⟨m, hm, h⟩ := Res.bind_eq_ok.mp h
                    obtain ⟨r2, hr2, h⟩ := Res.bind_eq_ok.mp h
                    cases h; rfl
          | not =>
            simp only [next, Node.nb] at h; simp at h
            by_cases hm : more = true
            · simp [hm] at h
              obtain ⟨r, hr, h⟩ := Res.bind_eq_ok.mp h
              cases h; rfl
            · simp at hm; subst hm; simp at h; subst h; rfl
          | time =>
            simp only [next, Node.nb] at h; simp at h
            by_cases hm : more = true
            · simp [hm] at h
              obtain ⟨r, hr, h⟩ := Res.bind_eq_ok.mp h
              cases h; rfl
            · simp at hm; subst hm; simp at h; subst h; rfl
    · intro t σ nb child idx n g st h
      simp only [callLoop] at h
      by_cases hnb : nb = true
      · simp [hnb] at h; subst h; rfl
      · simp [hnb] at h
        by_cases hge : n ≤ idx
        · simp [hge] at h; subst h; rfl
        · simp [hge] at h
          obtain ⟨key, _, h⟩ := Res.bind_eq_ok.mp h
          obtain ⟨rc, _, h⟩ := Res.bind_eq_ok.mp h
          split at h
          · exact ihC _ _ _ _ _ _ _ _ h
          · cases h
          · cases h
          · split at h
            · cases h; rfl
            · obtain ⟨m, _, h⟩ := Res.bind_eq_ok.mp h
              obtain ⟨r, hr, h⟩ := Res.bind_eq_ok.mp h
              by_cases hsol : r.sol.isSome = true
              · simp [hsol] at h; subst h; rfl
              · simp [hsol] at h; exact ihC _ _ _ _ _ _ _ _ h
    · intro σ nb more head rest tail cutAcc g st h
      simp only [andLoop] at h
      obtain ⟨r, hr, h⟩ := Res.bind_eq_ok.mp h
      cases hrs : r.sol with
      | none => simp [hrs] at h; subst h; rfl
      | some ss =>
        simp [hrs] at h
        by_cases hl : rest.length = 0
        · simp [hl] at h; subst h; rfl
        · simp [hl] at h
          obtain ⟨m, _, h⟩ := Res.bind_eq_ok.mp h
          obtain ⟨r2, hr2, h⟩ := Res.bind_eq_ok.mp h
          by_cases hsol : r2.sol.isSome = true
          · simp [hsol] at h; subst h; rfl
          · simp [hsol] at h; exact ihA _ _ _ _ _ _ _ _ _ h

/-- `solve_all` / `solve` format an answer as `$Var = value` pairs for the query's variable
    arguments, in argument order, separated by ", " (non-variable arguments are skipped). -/
theorem format_var_partial (sf : UInt64 → String) (i : Nat) (name : String) (qs rs : List Term) (r : Term) :
    formatArgs sf (.var i name :: qs) (r :: rs) true = name ++ " = " ++ Term.show sf r ++ formatArgs sf qs rs false := by
  simp [formatArgs]

theorem format_skip_nonvar_partial (sf : UInt64 → String) (q : Term) (qs rs : List Term) (r : Term) (first : Bool)
    (h : q.isVar = false) : formatArgs sf (q :: qs) (r :: rs) first = formatArgs sf qs rs first := by
  cases q <;> simp_all [formatArgs, Term.isVar]

/-- the reference machine emits an answer exactly when the goal list of the current branch is empty,
    and the answer is that branch's substitution set. -/
theorem machine_answer_partial (fo : FloatOps) (kb : KB) (c : Spec.Config) (σ : Subst) (h : c.cur = some ([], σ)) :
    (Spec.step fo kb c).1.answers = σ :: c.answers := by
  simp [Spec.step, h]

/-! non-vacuity: a knowledge base with a fact and a rule whose body is a disjunction of a negated call and a
    unification meets the hypothesis of `C01_pure` -/
def kbEx : KB := [("p/1", [⟨.cplx (.cons (.atom "p") (.cons (.atom "a") .nil)), .nil⟩,
                            ⟨.cplx (.cons (.atom "p") (.cons (.var 0 "$X") .nil)),
                             .or (.cons (.not (.cons (.call (.cplx (.cons (.atom "q") (.cons (.var 0 "$X") .nil)))) .nil))
                                  (.cons (.bip "unify" (some (.cons (.var 0 "$X") (.cons (.atom "b") .nil)))) .nil))⟩])]
example : ∀ key rs, kbEx.get key = some rs → ∀ r ∈ rs, r.body.isNil = true ∨ Spec.pureG r.body = true := by
  intro key rs h r hr
  unfold kbEx at h
  simp only [KB.get] at h
  split at h
  · cases h
    simp at hr
    rcases hr with rfl | rfl
    · left; rfl
    · right; decide
  · cases h

def fo0 : FloatOps := ⟨fun a _ => a, fun a _ => a, fun a _ => a, fun a _ => a, fun _ => 0, fun _ => ""⟩
example : formatSolution fo0.showF
    (.cplx (.cons (.atom "loves") (.cons (.var 1 "$Who") (.cons (.atom "x") (.cons (.var 2 "$Whom") .nil)))))
    (.cplx (.cons (.atom "loves") (.cons (.atom "Leonard") (.cons (.atom "x") (.cons (.atom "Penny") .nil)))))
    = "$Who = Leonard, $Whom = Penny" := by decide

end Suiron.C01
