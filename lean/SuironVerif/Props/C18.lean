/-
  C18 — parsers return a value or an error for every input, never panic, never loop.

  FULL STATEMENT (kept visible):
    for each of the eight entry points P (term, list, complex term, function, query, subgoal,
    goal, rule), every input string s and a fuel bounded by a function of |s|:
      P fuel s ∉ {panic, oof}.
  PROVED HERE, for every input, every fuel and every instance of the two `std` parameters
  (float parsing, `is_alphabetic`):
    * the term-level parsers (parse_term, make_term, parse_arguments, parse_linked_list and
      through them parse_complex, parse_function, parse_query) never reach one of the explicit
      `panic` branches of the model (each stands for an index, slice, `unwrap` or `panic!` of the
      Rust code);
    * parse_subgoal never does (infix operands, not(...)/time(...), built-in predicates);
    * the tokenizer never slices `chrs[start..i]` with `start > i`.
    * TERMINATION ("within bounded time ... never loops"): the model's outcome "out of fuel" — its rendering of
      "does not return" — is proved impossible: a fuel of 3·|s|+3 suffices for parse_term (three units per
      character: every recursive call is on a strictly shorter text), 3·|s|+4 for parse_subgoal, 3·|s| for
      parse_complex / parse_function / parse_query; the tokenizer and group_tokens return with the fuel the
      model gives them (the index grows with every iteration; a nested group_tokens call stops at or behind
      the index it started from — the property that repair D18 established); for generate_goal and parse_rule
      some fuel suffices for every input (structural recursion over the token tree, whose leaves are pieces
      of the input). Every parser is monotone in its fuel (`Lemmas/ParseMono.lean`), so the outcome does not
      depend on it. The fuel bounds the DEPTH of the recursion, not the total work; for group_tokens — where
      defect D18 was exponential work at linear depth — the work is proved linear (`group_tokens_linear_work`:
      at most 6·n+1 calls on n tokens); for the other stages it is decided by the timed deep-nesting cases.
    * the goal-level pipeline never panics either (`generate_goal_never_panics`, `parse_rule_never_panics`):
      `token_tree_to_goal` panics on a group without exactly one child and on a leaf that is not a subgoal;
      both are excluded by invariants carried through the four stages (`Lemmas/ParseGroup.lean`):
        - tokenizer (`tokLoop_TokOK`): every token is a leaf; the first token and the token after every `(`
          token is a subgoal or another `(`. This needs the tokenizer's bookkeeping: a piece of text that
          began at a freshly set `start_index` cannot be just `,` `;` `(` or `)` (such a character would have
          been acted on, the stack being outside complex terms and lists), and the piece that is left over
          after a group closed contains that group's `)` and so is never the token `(`;
        - group_tokens (`groupTokens_S0`): every group, nested or not, starts with a subgoal or a group;
        - group_and_tokens / group_or_tokens (`groupAnd_S0`, `groupOr_S1`): a group ends up with exactly one
          child — a subgoal, a conjunction, a disjunction or a processed group — on which the recursion
          cannot panic (`NP`).
  So for every input string, every instance of the std parameters and every fuel, none of the eight entry
  points panics, and none fails to return. Outside the theorems: the fidelity of the model (correspondence
  suite: random, mutated and ALL short strings through all eight entry points, outcome classes ok / err /
  panic / timeout compared with the model; seeded change C18e is exactly the tokenizer slip these invariants
  exclude) and the total work (fuel bounds depth; timed cases).
-/
import SuironVerif.Lemmas.ParseSafe
import SuironVerif.Lemmas.ParseTerminates
import SuironVerif.Lemmas.ParseGroup
import SuironVerif.Lemmas.ParseCost
namespace Suiron.C18
open Suiron.Parse

/-- the term-level parsers never reach a `panic` branch, whatever the input and the fuel -/
theorem term_parsers_never_panic (po : POps) : ∀ f : Nat,
    (∀ s, parseTerm po f s ≠ .panic) ∧ (∀ s a b c, makeTerm po f s a b c ≠ .panic) ∧
    (∀ s, parseArguments po f s ≠ .panic) ∧ (∀ s, parseLinkedList po f s ≠ .panic) := by
  intro f
  induction f with
  | zero => refine ⟨?_, ?_, ?_, ?_⟩ <;> intros <;> simp [parseTerm, makeTerm, parseArguments, parseLinkedList]
  | succ f ih =>
    obtain ⟨ihT, ihM, ihA, ihL⟩ := ih
    refine ⟨?_, ?_, ?_, ?_⟩
    · intro s
      simp only [parseTerm]
      split
      · rename_i hop
        have hb : (checkArithmeticInfix (trim s)).2 + 2 ≤ (trim s).length := by
          apply checkArithmeticInfix_bound (op := (checkArithmeticInfix (trim s)).1) rfl
          intro hn; rw [hn] at hop; simp at hop
        apply Res.bind_ne_panic (slice_ne_panic (by omega) (by omega))
        intro _ _
        apply Res.bind_ne_panic (slice_ne_panic (by omega) (by omega))
        intro _ _
        apply Res.bind_ne_panic (ihT _)
        intro _ _
        apply Res.bind_ne_panic (ihT _)
        intro _ _; simp
      · refine Res.bind_ne_panic (checkQuotes_ne_panic (fun hn => ?_)) (fun _ _ => ihM _ _ _ _)
        exact trim_ne_nil_of_quote (unescLoop_quote_mem _ _ (Nat.le_refl _) 0 0 false hn)
    · intro s a b c
      simp only [makeTerm]
      split
      · simp
      · rename_i first rest hs
        split
        · split
          · simp
          · split <;> simp
        · have hnum : (if (a && !b) = true then
              (if c = true then (match po.parseF (trim s) with | some bb => Res.ok (Term.flt bb) | none => Res.fail)
               else (match parseI64 (trim s) with | some i => Res.ok (Term.int i) | none => Res.fail))
              else Res.ok (Term.atom (str (trim s)))) ≠ Res.panic := by
            split
            · split
              · split <;> simp
              · split <;> simp
            · simp
          split
          · split
            · rename_i hl
              rw [hs] at hl
              simp [List.getLast?_eq_none_iff] at hl
            · split
              · split
                · split <;> simp
                · simp
              split
              · exact ihL _
              split
              · split
                · exact parseFunctionWith_ne_panic _ ihA _
                · exact parseComplexWith_ne_panic _ ihA _
              · exact hnum
          · exact hnum
    · intro s
      simp only [parseArguments]
      exact parseArgumentsWith_ne_panic _ ihM s
    · intro s
      simp only [parseLinkedList]
      exact parseLinkedListWith_ne_panic po _ ihT s



theorem parse_term_never_panics (po : POps) (f : Nat) (s : Text) : parseTerm po f s ≠ .panic :=
  (term_parsers_never_panic po f).1 s
theorem parse_arguments_never_panics (po : POps) (f : Nat) (s : Text) : parseArguments po f s ≠ .panic :=
  (term_parsers_never_panic po f).2.2.1 s
theorem parse_linked_list_never_panics (po : POps) (f : Nat) (s : Text) : parseLinkedList po f s ≠ .panic :=
  (term_parsers_never_panic po f).2.2.2 s
theorem parse_complex_never_panics (po : POps) (f : Nat) (s : Text) : parseComplex po f s ≠ .panic :=
  parseComplexWith_ne_panic _ (term_parsers_never_panic po f).2.2.1 s
theorem parse_function_never_panics (po : POps) (f : Nat) (s : Text) : parseFunction po f s ≠ .panic :=
  parseFunctionWith_ne_panic _ (term_parsers_never_panic po f).2.2.1 s

theorem parse_query_never_panics (po : POps) (f : Nat) (s : Text) : parseQuery po f s ≠ .panic := by
  unfold parseQuery parseComplex
  simp only
  apply Res.bind_ne_panic (parseComplexWith_ne_panic _ (term_parsers_never_panic po f).2.2.1 _)
  intro q hq
  obtain ⟨fn, rest, rfl⟩ := parseComplexWith_shape _ _ _ hq
  simp only
  apply Res.bind_ne_panic
  · unfold makeQuery
    simp [TermList.toList, TermList.ofList, renameTerms, renameTerm]
  · intro _ _; simp

/-- `parse_subgoal` never panics -/
theorem parse_subgoal_never_panics (po : POps) : ∀ (f : Nat) (s : Text), parseSubgoal po f s ≠ .panic := by
  intro f
  induction f with
  | zero => intro s; simp [parseSubgoal]
  | succ f ih =>
    intro s
    have hT := (term_parsers_never_panic po f).1
    have hA := (term_parsers_never_panic po f).2.2.1
    simp only [parseSubgoal]
    split
    · simp
    split
    · simp
    split
    · rename_i hop
      have hb : (checkInfix (trim s)).2 + 2 < (trim s).length := by
        apply checkInfix_bound (op := (checkInfix (trim s)).1) rfl
        intro hn; rw [hn] at hop; simp at hop
      apply Res.bind_ne_panic (slice_ne_panic (by omega) (by omega))
      intro _ _
      apply Res.bind_ne_panic (slice_ne_panic (by omega) (by omega))
      intro _ _
      apply Res.bind_ne_panic (hT _)
      intro _ _
      apply Res.bind_ne_panic (hT _)
      intro _ _
      split <;> simp
    · apply Res.bind_ne_panic (indicesOfParentheses_ne_panic _)
      intro idx hidx
      split
      · exact Res.bind_ne_panic (parseFunctorTerms_ne_panic _ hA _ _) (fun _ _ => by simp)
      · rename_i l r
        have hb := indicesOfParentheses_bounds hidx
        apply Res.bind_ne_panic (slice_ne_panic (by omega) (by omega))
        intro _ _
        apply Res.bind_ne_panic (slice_ne_panic (by omega) (by omega))
        intro _ _
        split
        · exact Res.bind_ne_panic (ih _) (fun _ _ => by simp)
        split
        · exact Res.bind_ne_panic (ih _) (fun _ _ => by simp)
        split
        · simp
        · exact Res.bind_ne_panic (hA _) (fun _ _ => by simp)



/-- the tokenizer (first stage of generate_goal / parse_rule) never panics -/
theorem tokenize_never_panics (s : Text) : tokenize s ≠ .panic := tokenize_ne_panic' s

/-- generate_goal never panics: the grouping stage never meets an empty group or a leaf that is not a subgoal -/
theorem generate_goal_never_panics (po : POps) (f : Nat) (s : Text) : generateGoal po f s ≠ .panic :=
  generateGoal_ne_panic po (parse_subgoal_never_panics po) f s

/-- parse_rule never panics -/
theorem parse_rule_never_panics (po : POps) (f : Nat) (s : Text) : parseRule po f s ≠ .panic :=
  parseRule_ne_panic po (parse_subgoal_never_panics po) (parse_complex_never_panics po) f s

/-- what the tokenizer guarantees about its output -/
theorem tokenizer_output_shape (s : Text) (ts : List Token) (h : tokenize s = .ok ts) : TokOK ts := tokenize_TokOK s ts h

/-! ### termination -/

/-- parse_term returns: three units of fuel per character suffice -/
theorem parse_term_terminates (po : POps) (s : Text) (f : Nat) (hf : 3 * s.length + 3 ≤ f) : parseTerm po f s ≠ .oof :=
  parseTerm_fuel po s f hf
theorem parse_arguments_terminates (po : POps) (s : Text) (f : Nat) (hf : 3 * s.length + 3 ≤ f) : parseArguments po f s ≠ .oof :=
  parseArguments_fuel po s f hf
theorem parse_linked_list_terminates (po : POps) (s : Text) (f : Nat) (hf : 3 * s.length + 1 ≤ f) : parseLinkedList po f s ≠ .oof :=
  parseLinkedList_fuel po s f hf
theorem parse_complex_terminates (po : POps) (s : Text) (f : Nat) (hf : 3 * s.length ≤ f) : parseComplex po f s ≠ .oof :=
  parseComplex_fuel po s f hf
theorem parse_function_terminates (po : POps) (s : Text) (f : Nat) (hf : 3 * s.length ≤ f) : parseFunction po f s ≠ .oof :=
  parseFunction_fuel po s f hf
theorem parse_query_terminates (po : POps) (s : Text) (f : Nat) (hf : 3 * s.length ≤ f) : parseQuery po f s ≠ .oof :=
  parseQuery_fuel po s f hf
theorem parse_subgoal_terminates (po : POps) (s : Text) (f : Nat) (hf : 3 * s.length + 4 ≤ f) : parseSubgoal po f s ≠ .oof :=
  parseSubgoal_fuel po s f hf
/-- the tokenizer returns (its loop index grows with every iteration) -/
theorem tokenize_terminates (s : Text) : tokenize s ≠ .oof := tokenize_ne_oof s
/-- group_tokens returns with the fuel generate_goal gives it: a nested call stops at or behind the index it started from -/
theorem group_tokens_terminates (tokens : List Token) : groupTokens tokens (tokens.length + 2) 0 [] ≠ .oof :=
  groupTokens_ne_oof tokens _ _ _ (by omega) (by omega)
/-- ... and with linear work: on `n` tokens the model function stands for at most `6·n + 1` calls of
    `group_tokens_from` (`gtCalls` counts them). This is the quantity defect D18 made exponential; the fuel of
    the model bounds only the depth of the recursion. -/
theorem group_tokens_linear_work (tokens : List Token) (fuel : Nat) (r : Token × Nat)
    (h : groupTokens tokens fuel 0 [] = .ok r) : gtCalls tokens fuel 0 [] ≤ 6 * tokens.length + 1 :=
  groupTokens_linear tokens fuel r h

/-- generate_goal returns for every input -/
theorem generate_goal_terminates (po : POps) (s : Text) : ∃ f0, ∀ f, f0 ≤ f → generateGoal po f s ≠ .oof :=
  generateGoal_terminates po s
/-- parse_rule returns for every input -/
theorem parse_rule_terminates (po : POps) (s : Text) : ∃ f0, ∀ f, f0 ≤ f → parseRule po f s ≠ .oof :=
  parseRule_terminates po s
/-- and what it returns does not depend on the fuel -/
theorem parse_rule_outcome_unique (po : POps) (s : Text) (f f' : Nat) (h : parseRule po f s ≠ .oof) (h' : parseRule po f' s ≠ .oof) :
    parseRule po f s = parseRule po f' s := parseRule_unique po s f f' h h'
theorem parse_term_outcome_unique (po : POps) (s : Text) (f f' : Nat) (h : parseTerm po f s ≠ .oof) (h' : parseTerm po f' s ≠ .oof) :
    parseTerm po f s = parseTerm po f' s := parseTerm_unique po s f f' h h'

/-! ### C18 as stated: a result or an error -/

theorem Res.ok_or_fail {α} {r : Res α} (h1 : r ≠ .panic) (h2 : r ≠ .oof) : (∃ x, r = .ok x) ∨ r = .fail := by
  cases r with
  | ok x => exact Or.inl ⟨x, rfl⟩
  | fail => exact Or.inr rfl
  | panic => exact absurd rfl h1
  | oof => exact absurd rfl h2

/-- parse_term returns a term or an error for every input -/
theorem C18_term (po : POps) (s : Text) (f : Nat) (hf : 3 * s.length + 3 ≤ f) :
    (∃ t, parseTerm po f s = .ok t) ∨ parseTerm po f s = .fail :=
  Res.ok_or_fail (parse_term_never_panics po f s) (parse_term_terminates po s f hf)

/-- parse_subgoal returns a goal or an error for every input -/
theorem C18_subgoal (po : POps) (s : Text) (f : Nat) (hf : 3 * s.length + 4 ≤ f) :
    (∃ g, parseSubgoal po f s = .ok g) ∨ parseSubgoal po f s = .fail :=
  Res.ok_or_fail (parse_subgoal_never_panics po f s) (parse_subgoal_terminates po s f hf)

/-- parse_query returns a query or an error for every input -/
theorem C18_query (po : POps) (s : Text) (f : Nat) (hf : 3 * s.length ≤ f) :
    (∃ g, parseQuery po f s = .ok g) ∨ parseQuery po f s = .fail :=
  Res.ok_or_fail (parse_query_never_panics po f s) (parse_query_terminates po s f hf)

/-- generate_goal returns a goal or an error for every input -/
theorem C18_goal (po : POps) (s : Text) : ∃ f0, ∀ f, f0 ≤ f →
    (∃ g, generateGoal po f s = .ok g) ∨ generateGoal po f s = .fail := by
  obtain ⟨f0, h⟩ := generate_goal_terminates po s
  exact ⟨f0, fun f hf => Res.ok_or_fail (generate_goal_never_panics po f s) (h f hf)⟩

/-- parse_rule returns a rule or an error for every input -/
theorem C18_rule (po : POps) (s : Text) : ∃ f0, ∀ f, f0 ≤ f →
    (∃ r, parseRule po f s = .ok r) ∨ parseRule po f s = .fail := by
  obtain ⟨f0, h⟩ := parse_rule_terminates po s
  exact ⟨f0, fun f hf => Res.ok_or_fail (parse_rule_never_panics po f s) (h f hf)⟩

/-! non-vacuity / witnesses: the inputs on which the pinned tree panicked are errors in the model of
    the repaired code, and ordinary inputs parse -/
def po0 : POps := ⟨fun _ => none, fun c => ('a'.toNat ≤ c.toNat && c.toNat ≤ 'z'.toNat) || ('A'.toNat ≤ c.toNat && c.toNat ≤ 'Z'.toNat)⟩
example : parseTerm po0 8 "f(\\)".toList = .fail := by decide +kernel      -- (an escaped parenthesis: unbalanced, since repair D22)
example : parseTerm po0 8 "f(\\, )".toList = .ok (.cplx (.cons (.atom "f") (.cons (.atom ",") .nil))) := by decide +kernel
example : parseQuery po0 8 [] = .fail := by decide +kernel
example : parseTerm po0 8 "[a, $X | $T]".toList =
    .ok (.cons (.atom "a") (.cons (.var 0 "$X") (.cons (.var 0 "$T") Term.empty 1 true) 2 false) 3 false) := by decide +kernel

end Suiron.C18
