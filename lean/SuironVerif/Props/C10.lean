/-
  C10 — renaming apart changes only variables, consistently.

  Proved: renaming leaves a term unchanged once ids are erased (`rename_shape`); one map from names to ids for the whole
  clause, distinct names distinct ids, every new id above the starting counter and at most the new one (`rename_consistent`,
  `rename_list_consistent`); and, IN THE MIDDLE OF A SEARCH (`fresh_in_search`, `ids_stay_below_counter`): along every run of
  the reference machine with cut from a query, every variable in use anywhere in the configuration has an id at most the
  counter, while the clause `get_rule` hands out at that moment has ids above it only — no fresh variable is in use elsewhere
  in the current search.  (Fragment: the control language with `!`, `fail`, `nl`, `=`, the comparisons; no function terms.)
-/
import SuironVerif.Model.Goal
import SuironVerif.Lemmas.FreshInSearch
namespace Suiron.C10

mutual
/-- a term with every variable id erased: what renaming must leave untouched (atoms, numbers,
    list cells with their recorded length and tail marker, the empty list, nesting, names). -/
def eraseIds : Term → Term
  | .var _ name => .var 0 name
  | .cplx args => .cplx (eraseIdsL args)
  | .cons t n c tv => .cons (eraseIds t) (eraseIds n) c tv
  | .func name args => .func name (eraseIdsL args)
  | t => t
def eraseIdsL : TermList → TermList
  | .nil => .nil
  | .cons h t => .cons (eraseIds h) (eraseIdsL t)
end

mutual
theorem rename_shape : ∀ (t : Term) (st : RenSt), eraseIds (renameTerm t st).1 = eraseIds t
  | .var i name, st => by
    simp only [renameTerm]
    split <;> simp [eraseIds]
  | .cplx args, st => by simp [renameTerm, eraseIds, rename_shapeL args st]
  | .cons t n c tv, st => by simp [renameTerm, eraseIds, rename_shape t st, rename_shape n _]
  | .func name args, st => by simp [renameTerm, eraseIds, rename_shapeL args st]
  | .nil, st => by simp [renameTerm]
  | .anon, st => by simp [renameTerm]
  | .atom s, st => by simp [renameTerm]
  | .flt b, st => by simp [renameTerm]
  | .int i, st => by simp [renameTerm]
theorem rename_shapeL : ∀ (ts : TermList) (st : RenSt), eraseIdsL (renameTerms ts st).1 = eraseIdsL ts
  | .nil, st => by simp [renameTerms, eraseIdsL]
  | .cons h t, st => by simp [renameTerms, eraseIdsL, rename_shape h st, rename_shapeL t _]
end

/-- the renaming map is sound: ids it holds are ≤ the counter, and distinct names hold distinct ids. -/
structure MapInv (st : RenSt) : Prop where
  bounded : ∀ n i, st.map.get n = some i → i ≤ st.counter
  inj : ∀ n m i, st.map.get n = some i → st.map.get m = some i → n = m

def Extends (m m' : VarMap) : Prop := ∀ n i, m.get n = some i → m'.get n = some i

mutual
/-- every variable of the term carries the id the map assigns to its name. -/
def Agree (m : VarMap) : Term → Prop
  | .var id name => m.get name = some id
  | .cplx args => AgreeL m args
  | .cons t n _ _ => Agree m t ∧ Agree m n
  | .func _ args => AgreeL m args
  | _ => True
def AgreeL (m : VarMap) : TermList → Prop
  | .nil => True
  | .cons h t => Agree m h ∧ AgreeL m t
end

mutual
theorem agree_mono (m m' : VarMap) (h : Extends m m') : ∀ t : Term, Agree m t → Agree m' t
  | .var id name, ha => h _ _ ha
  | .cplx args, ha => by simp only [Agree] at ha ⊢; exact agreeL_mono m m' h args ha
  | .cons t n _ _, ha => by simp only [Agree] at ha ⊢; exact ⟨agree_mono m m' h t ha.1, agree_mono m m' h n ha.2⟩
  | .func _ args, ha => by simp only [Agree] at ha ⊢; exact agreeL_mono m m' h args ha
  | .nil, _ => trivial
  | .anon, _ => trivial
  | .atom _, _ => trivial
  | .flt _, _ => trivial
  | .int _, _ => trivial
theorem agreeL_mono (m m' : VarMap) (h : Extends m m') : ∀ ts : TermList, AgreeL m ts → AgreeL m' ts
  | .nil, _ => trivial
  | .cons a as, ha => by simp only [AgreeL] at ha ⊢; exact ⟨agree_mono m m' h a ha.1, agreeL_mono m m' h as ha.2⟩
end

theorem get_cons_self (m : VarMap) (n : String) (i : Nat) : VarMap.get ((n, i) :: m) n = some i := by simp [VarMap.get]
theorem get_cons_other (m : VarMap) (n k : String) (i : Nat) (h : k ≠ n) : VarMap.get ((n, i) :: m) k = m.get k := by
  simp [VarMap.get, Ne.symm h]

/-- what one renaming step guarantees. -/
structure StepOK (st st' : RenSt) : Prop where
  inv : MapInv st'
  ext : Extends st.map st'.map
  mono : st.counter ≤ st'.counter
  fresh : ∀ n i, st'.map.get n = some i → st.map.get n = none → st.counter < i

theorem StepOK.refl (st : RenSt) (h : MapInv st) : StepOK st st :=
  ⟨h, fun _ _ h => h, Nat.le_refl _, fun n i h1 h2 => by rw [h1] at h2; cases h2⟩

theorem StepOK.trans {a b c : RenSt} (h1 : StepOK a b) (h2 : StepOK b c) : StepOK a c := by
  refine ⟨h2.inv, fun n i h => h2.ext n i (h1.ext n i h), Nat.le_trans h1.mono h2.mono, ?_⟩
  intro n i hc ha
  cases hb : b.map.get n with
  | none => exact Nat.lt_of_le_of_lt h1.mono (h2.fresh n i hc hb)
  | some j =>
    have := h2.ext n j hb
    rw [hc] at this; cases this
    exact h1.fresh n i hb ha

mutual
theorem rename_ok : ∀ (t : Term) (st : RenSt), MapInv st →
    StepOK st (renameTerm t st).2 ∧ Agree (renameTerm t st).2.map (renameTerm t st).1
  | .var i name, st, h => by
    simp only [renameTerm]
    cases hg : st.map.get name with
    | some id => simp only []; exact ⟨StepOK.refl st h, by simpa [Agree] using hg⟩
    | none =>
      simp only []
      refine ⟨⟨⟨?_, ?_⟩, ?_, Nat.le_succ _, ?_⟩, by simp [Agree, get_cons_self]⟩
      · intro n i hn
        by_cases hk : n = name
        · subst hk; rw [get_cons_self] at hn; cases hn; exact Nat.le_refl _
        · rw [get_cons_other _ _ _ _ hk] at hn; exact Nat.le_succ_of_le (h.bounded n i hn)
      · intro n m i hn hm
        by_cases hk : n = name
        · subst hk; rw [get_cons_self] at hn; cases hn
          by_cases hk2 : m = n
          · exact hk2.symm
          · rw [get_cons_other _ _ _ _ hk2] at hm
            have := h.bounded m _ hm; omega
        · rw [get_cons_other _ _ _ _ hk] at hn
          by_cases hk2 : m = name
          · subst hk2; rw [get_cons_self] at hm; cases hm
            have := h.bounded n _ hn; omega
          · rw [get_cons_other _ _ _ _ hk2] at hm; exact h.inj n m i hn hm
      · intro n i hn
        by_cases hk : n = name
        · subst hk; rw [hg] at hn; cases hn
        · rw [get_cons_other _ _ _ _ hk]; exact hn
      · intro n i hn hnone
        by_cases hk : n = name
        · subst hk; rw [get_cons_self] at hn; cases hn; exact Nat.lt_succ_self _
        · rw [get_cons_other _ _ _ _ hk] at hn; rw [hn] at hnone; cases hnone
  | .cplx args, st, h => by
    have := rename_okL args st h
    simp only [renameTerm, Agree]; exact this
  | .cons t n c tv, st, h => by
    have h1 := rename_ok t st h
    have h2 := rename_ok n (renameTerm t st).2 h1.1.inv
    simp only [renameTerm, Agree]
    exact ⟨h1.1.trans h2.1, agree_mono _ _ h2.1.ext _ h1.2, h2.2⟩
  | .func name args, st, h => by
    have := rename_okL args st h
    simp only [renameTerm, Agree]; exact this
  | .nil, st, h => by simp only [renameTerm]; exact ⟨StepOK.refl st h, trivial⟩
  | .anon, st, h => by simp only [renameTerm]; exact ⟨StepOK.refl st h, trivial⟩
  | .atom _, st, h => by simp only [renameTerm]; exact ⟨StepOK.refl st h, trivial⟩
  | .flt _, st, h => by simp only [renameTerm]; exact ⟨StepOK.refl st h, trivial⟩
  | .int _, st, h => by simp only [renameTerm]; exact ⟨StepOK.refl st h, trivial⟩
theorem rename_okL : ∀ (ts : TermList) (st : RenSt), MapInv st →
    StepOK st (renameTerms ts st).2 ∧ AgreeL (renameTerms ts st).2.map (renameTerms ts st).1
  | .nil, st, h => by simp only [renameTerms]; exact ⟨StepOK.refl st h, trivial⟩
  | .cons a as, st, h => by
    have h1 := rename_ok a st h
    have h2 := rename_okL as (renameTerm a st).2 h1.1.inv
    simp only [renameTerms, AgreeL]
    exact ⟨h1.1.trans h2.1, agree_mono _ _ h2.1.ext _ h1.2, h2.2⟩
end

theorem mapInv_empty (c : Nat) : MapInv ⟨[], c⟩ :=
  ⟨fun n i h => by simp [VarMap.get] at h, fun n m i h => by simp [VarMap.get] at h⟩

/-- C10 for a term renamed on its own (a query argument, a fact head) from counter `c`:
    one map `m` such that every variable carries `m`'s id for its name (same name ⇒ same variable),
    distinct names carry distinct ids, every id is fresh (above `c`, at most the new counter),
    and nothing else about the term has changed. -/
theorem rename_consistent (t : Term) (c : Nat) :
    let r := renameTerm t ⟨[], c⟩
    Agree r.2.map r.1 ∧
    (∀ n m i, r.2.map.get n = some i → r.2.map.get m = some i → n = m) ∧
    (∀ n i, r.2.map.get n = some i → c < i ∧ i ≤ r.2.counter) ∧
    eraseIds r.1 = eraseIds t := by
  intro r
  have h := rename_ok t ⟨[], c⟩ (mapInv_empty c)
  refine ⟨h.2, h.1.inv.inj, ?_, rename_shape t _⟩
  intro n i hn
  exact ⟨h.1.fresh n i hn (by simp [VarMap.get]), h.1.inv.bounded n i hn⟩

/-- the same through a whole argument list (clause head then body terms share one map). -/
theorem rename_list_consistent (ts : TermList) (st : RenSt) (h : MapInv st) :
    let r := renameTerms ts st
    AgreeL r.2.map r.1 ∧ MapInv r.2 ∧ Extends st.map r.2.map ∧
    (∀ n i, r.2.map.get n = some i → st.map.get n = none → st.counter < i) ∧ eraseIdsL r.1 = eraseIdsL ts := by
  intro r
  have hh := rename_okL ts st h
  exact ⟨hh.2, hh.1.inv, hh.1.ext, hh.1.fresh, rename_shapeL ts st⟩

/-- `make_query` renames from counter 0. -/
theorem make_query_fresh (ts : List Term) (g : Goal) (c : Nat) (h : makeQuery ts = .ok (g, c)) :
    c = (renameTerms (TermList.ofList ts) ⟨[], 0⟩).2.counter := by
  simp only [makeQuery] at h
  split at h
  · cases h; rfl
  · cases h

example : (renameTerm (.cplx (.cons (.atom "p") (.cons (.var 0 "$X") (.cons (.var 0 "$Y") (.cons (.var 0 "$X") .nil))))) ⟨[], 7⟩).1
        = .cplx (.cons (.atom "p") (.cons (.var 8 "$X") (.cons (.var 9 "$Y") (.cons (.var 8 "$X") .nil)))) := by decide
example : (renameTerm Term.empty ⟨[], 3⟩).1 = Term.empty := by decide

/-! ### in the middle of a search -/

open Suiron.Blind Suiron.Spec.Grp in
/-- along every run of the reference machine every variable id in the configuration stays at most the counter -/
theorem ids_stay_below_counter (fo : FloatOps) {kb : KB} (hok : kbOK kb) {a b : CConf} (h : CSteps fo kb a b)
    (hg : goodCFs a.ctr a.stack) : goodCFs b.ctr b.stack ∧ a.ctr ≤ b.ctr :=
  ids_below_counter fo hok h hg

open Suiron.Blind Suiron.Spec.Grp in
/-- NO FRESH VARIABLE IS IN USE ELSEWHERE IN THE CURRENT SEARCH: when a run from a query has reached a pending call and a
    clause is taken for it from the counter `c`, every variable anywhere in the configuration (goal lists, substitution sets,
    kept alternatives, inner searches) has an id at most `c`, and every variable of the clause instance an id in `(c, c']` -/
theorem fresh_in_search (fo : FloatOps) {kb : KB} (hok : kbOK kb) (q : Goal) (c0 : Nat) (hq : goodG c0 q = true) (out0 : List String)
    {t : Term} {σ : Subst} {idx n : Nat} {k : List CG} {S : List CFrame} {c : Nat} {o : List String}
    (hrun : CSteps fo kb ⟨[.goals [.g q 0] []], c0, out0⟩ ⟨.try t σ idx n k :: S, c, o⟩)
    (key : String) (r : Rule) (c' : Nat) (hget : getRule kb key idx c = .ok (r, c')) :
    goodCFs c (.try t σ idx n k :: S) ∧ (rng c c' r.head = true ∧ rngG c c' r.body = true) :=
  Blind.fresh_in_search fo hok q c0 hq out0 hrun key r c' hget

/-- non-vacuity: `good` bounds ids from above, `rng` from both sides -/
example : Blind.good 4 (.cplx (.cons (.atom "p") (.cons (.var 3 "$X") (.cons (.var 4 "$Y") .nil)))) = true ∧
    Blind.rng 4 6 (.cplx (.cons (.atom "p") (.cons (.var 5 "$X") (.cons (.var 6 "$Y") .nil)))) = true ∧
    Blind.rng 4 6 (.cplx (.cons (.atom "p") (.cons (.var 4 "$X") .nil))) = false := by decide

end Suiron.C10
