/-
  C20 — a term's meaning does not depend on where it is written.

  FULL STATEMENT (kept visible): for every term text T of the documented syntax, the value
  `parse_term T` is also what T denotes as an argument of a complex term / built-in / function,
  as a list element, as an operand of an infix operator and as a query argument.
  PROVED HERE (`C20_token`), for every *token text* T — a non-empty text without blanks and
  without the characters `[ ] ( ) , " \ |`; that is every atom without blanks, every signed or
  unsigned integer and float, every variable, `$_`, and all the number-like / sign-like
  spellings whose classification the pinned tree got wrong — for every fuel and every instance
  of the `std` parameters: all five contexts hand T to the same `make_term` with the same
  three classification flags, hence give the same term (or the same error):
      alone              parse_term T                     = make_term T (flags T)
      argument           parse_arguments T                = [parse_term T]
      complex argument   parse_complex  fn(T)             = fn(parse_term T)
      list element       parse_linked_list [T]            = [parse_term T]
      infix operand      parse_subgoal  T = R             = unify(parse_term T, parse_term R)
      query argument     parse_query    fn(T)             = make_query fn(parse_term T)
  PROVED HERE ALSO (`as_argument_structured`, `as_complex_argument_structured`, `as_query_argument_structured`,
  `as_list_element_structured`, and AMONG OTHER ARGUMENTS `among_other_arguments`, `complex_with_arguments`), for every
  STRUCTURED text T — lists, complex terms, quoted atoms, atoms with blanks, anything: a trimmed non-empty text without a
  backslash, without a comma outside its own quotes / parentheses / brackets, with its parentheses, brackets and quotes
  closed, in which `parse_term` finds no arithmetic infix (F3, below) —: as an argument of a complex term / built-in /
  function / query it is `parse_term T` (`Lemmas/ParseArgSim.lean`: the loop of `parse_arguments` and `unescape` + the flag
  loop of `parse_term` run side by side over the text), and — without a bar of its own either — as the element of a list
  (`Lemmas/ParseListSim.lean`: `parse_linked_list` scans from the right; in a text whose quotes, parentheses and brackets are
  closed the state of that scan just before a character is the state of the forward scan just after it).
  PARTIAL: structured texts as infix operands, and texts with backslashes (F4), are
  decided by the contexts suite (random canonical terms + 100 special spellings + all strings up to length 4 / 5 over the 12
  characters the scanners treat specially, each parsed in the contexts by implementation and model).
  KNOWN FINDING F3 (open): a text with a top-level arithmetic infix (`$X + 1`) is a function term
  alone, in a list and as an operand of `=`, but an atom / a variable named `$X + 1` as an
  argument: parse_arguments() does not look for infix operators. Witness below.
-/
import SuironVerif.Lemmas.ParseToken
import SuironVerif.Lemmas.ParseArgSim
import SuironVerif.Lemmas.ParseListSim
import SuironVerif.Lemmas.ParseArgsMulti
import SuironVerif.Lemmas.ParseListMulti
import SuironVerif.Lemmas.ParseListTail
import SuironVerif.Lemmas.ParseInfixStruct
import SuironVerif.Lemmas.CanonInfix
namespace Suiron.C20
open Suiron.Parse

/-- alone -/
theorem alone (po : POps) (f : Nat) {T : Text} (h : TokenText T) :
    parseTerm po (f + 1) T = makeTerm po f T (termFlags T).1 (termFlags T).2.1 (termFlags T).2.2 :=
  parseTerm_token po f h

/-- as the argument of `parse_arguments` (complex terms, built-in predicates, functions) -/
theorem as_argument (po : POps) (f : Nat) {T : Text} (h : TokenText T) :
    parseArguments po (f + 1) T = (parseTerm po (f + 1) T).bind fun t => .ok [t] := by
  rw [parseArguments_token po f h, parseTerm_token po f h]

/-- as the argument of a complex term -/
theorem as_complex_argument (po : POps) (f : Nat) {fn T : Text} (hf : TokenText fn) (h : TokenText T)
    (hd : fn.head? ≠ some '$') (hlen : fn.length + T.length + 2 ≤ 1000) :
    parseComplex po (f + 1) (fn ++ '(' :: T ++ [')']) =
      (parseTerm po (f + 1) T).bind fun t => .ok (.cplx (.cons (.atom (str fn)) (.cons t .nil))) :=
  parseComplex_token po f hf h hd hlen

/-- as a list element -/
theorem as_list_element (po : POps) (f : Nat) {T : Text} (h : TokenText T) :
    parseLinkedList po (f + 1) ('[' :: T ++ [']']) =
      (parseTerm po f T).bind fun t => .ok (.cons t Term.empty 1 false) :=
  parseLinkedList_token po f h

/-- as the left operand of an infix operator -/
theorem as_infix_operand (po : POps) (f : Nat) {T R : Text} (h : TokenText T) (hr : TokenText R) :
    parseSubgoal po (f + 1) (T ++ ' ' :: '=' :: ' ' :: R) =
      (parseTerm po f T).bind fun l => (parseTerm po f R).bind fun r =>
        .ok (.bip "unify" (some (.cons l (.cons r .nil)))) :=
  parseSubgoal_token_unify po f h hr

/-- as a query argument: the same term, then renamed by `make_query` -/
theorem as_query_argument (po : POps) (f : Nat) {fn T : Text} (hf : TokenText fn) (h : TokenText T)
    (hd : fn.head? ≠ some '$') (hlen : fn.length + T.length + 2 ≤ 1000) :
    parseQuery po (f + 1) (fn ++ '(' :: T ++ [')']) =
      (parseTerm po (f + 1) T).bind fun t => (makeQuery [.atom (str fn), t]).bind fun r => .ok r.1 := by
  unfold parseQuery
  have hlast : ((fn ++ '(' :: T ++ [')']).getLast? == some '.') = false := by
    rw [show fn ++ '(' :: T ++ [')'] = (fn ++ '(' :: T) ++ [')'] from by simp, List.getLast?_concat]; decide
  simp only [hlast, Bool.false_eq_true, if_false, parseComplex_token po f hf h hd hlen]
  cases parseTerm po (f + 1) T <;> simp [Res.bind, TermList.toList]

/-- C20 for token texts: in every context the term is `parse_term T` (with the fuel the context leaves) -/
theorem C20_token (po : POps) (f : Nat) {fn T R : Text} (hf : TokenText fn) (h : TokenText T) (hr : TokenText R)
    (hd : fn.head? ≠ some '$') (hlen : fn.length + T.length + 2 ≤ 1000) :
    parseArguments po (f + 1) T = ((parseTerm po (f + 1) T).bind fun t => .ok [t]) ∧
    parseComplex po (f + 1) (fn ++ '(' :: T ++ [')']) =
      ((parseTerm po (f + 1) T).bind fun t => .ok (.cplx (.cons (.atom (str fn)) (.cons t .nil)))) ∧
    parseLinkedList po (f + 2) ('[' :: T ++ [']']) =
      ((parseTerm po (f + 1) T).bind fun t => .ok (.cons t Term.empty 1 false)) ∧
    parseSubgoal po (f + 2) (T ++ ' ' :: '=' :: ' ' :: R) =
      ((parseTerm po (f + 1) T).bind fun l => (parseTerm po (f + 1) R).bind fun r =>
        .ok (.bip "unify" (some (.cons l (.cons r .nil))))) ∧
    parseQuery po (f + 1) (fn ++ '(' :: T ++ [')']) =
      ((parseTerm po (f + 1) T).bind fun t => (makeQuery [.atom (str fn), t]).bind fun r => .ok r.1) :=
  ⟨as_argument po f h, as_complex_argument po f hf h hd hlen, as_list_element po (f + 1) h,
   as_infix_operand po (f + 1) h hr, as_query_argument po f hf h hd hlen⟩

/-! ## structured texts: lists, complex terms, quoted atoms, atoms with blanks -/

/-- the conditions on a structured text: trimmed, non-empty, no backslash, no comma of its own outside quotes /
    parentheses / brackets and none at the end, parentheses and brackets closed, no arithmetic infix (F3) -/
structure Structured (T : Text) : Prop where
  trimmed : trim T = T
  nonempty : T ≠ []
  noBackslash : ∀ c ∈ T, c ≠ '\\'
  noTopComma : noTopComma T ⟨0, 0, false⟩ = true
  lastNotComma : T.getLast? ≠ some ','
  balanced : (dpScan T ⟨0, 0, false⟩).round = 0 ∧ (dpScan T ⟨0, 0, false⟩).square = 0
  noInfix : (checkArithmeticInfix T).1 = .none

/-- as the argument of `parse_arguments` (complex terms, built-in predicates, functions) -/
theorem as_argument_structured (po : POps) (f : Nat) {T : Text} (h : Structured T) :
    parseArguments po (f + 1) T = (parseTerm po (f + 1) T).bind fun t => .ok [t] :=
  parseArguments_structured po f T h.trimmed h.nonempty h.noBackslash h.noTopComma h.lastNotComma h.balanced h.noInfix

/-- as the argument of a complex term (the quotes of T closed as well) -/
theorem as_complex_argument_structured (po : POps) (f : Nat) {fn T : Text} (hf : TokenText fn) (h : Structured T)
    (hclosed : (dpScan T ⟨0, 0, false⟩).oq = false)
    (hd : fn.head? ≠ some '$') (hlen : fn.length + T.length + 2 ≤ 1000) :
    parseComplex po (f + 2) (fn ++ '(' :: T ++ [')']) =
      (parseTerm po (f + 2) T).bind fun t => .ok (.cplx (.cons (.atom (str fn)) (.cons t .nil))) :=
  parseComplex_structured po f hf hd hlen h.trimmed h.nonempty h.noBackslash h.noTopComma h.lastNotComma h.balanced hclosed h.noInfix

/-- as a query argument -/
theorem as_query_argument_structured (po : POps) (f : Nat) {fn T : Text} (hf : TokenText fn) (h : Structured T)
    (hclosed : (dpScan T ⟨0, 0, false⟩).oq = false)
    (hd : fn.head? ≠ some '$') (hlen : fn.length + T.length + 2 ≤ 1000) :
    parseQuery po (f + 2) (fn ++ '(' :: T ++ [')']) =
      (parseTerm po (f + 2) T).bind fun t => (makeQuery [.atom (str fn), t]).bind fun r => .ok r.1 := by
  unfold parseQuery
  have hlast : ((fn ++ '(' :: T ++ [')']).getLast? == some '.') = false := by
    rw [show fn ++ '(' :: T ++ [')'] = (fn ++ '(' :: T) ++ [')'] from by simp, List.getLast?_concat]; decide
  simp only [hlast, Bool.false_eq_true, if_false, as_complex_argument_structured po f hf h hclosed hd hlen]
  cases parseTerm po (f + 2) T <;> simp [Res.bind, TermList.toList]

/-- as a list element (no bar of its own, quotes closed) -/
theorem as_list_element_structured (po : POps) (f : Nat) {T : Text} (h : Structured T)
    (hbar : noTopBar T ⟨0, 0, false⟩ = true) (hclosed : (dpScan T ⟨0, 0, false⟩).oq = false) :
    parseLinkedList po (f + 2) ('[' :: T ++ [']']) =
      (parseTerm po (f + 1) T).bind fun t => .ok (.cons t Term.empty 1 false) := by
  have hbal : dpScan T ⟨0, 0, false⟩ = ⟨0, 0, false⟩ := by
    have h1 := h.balanced.1; have h2 := h.balanced.2
    generalize dpScan T ⟨0, 0, false⟩ = d at h1 h2 hclosed
    obtain ⟨r, s, q⟩ := d
    simp only at h1 h2 hclosed
    rw [h1, h2, hclosed]
  exact parseLinkedList_structured po f T h.trimmed h.nonempty h.noBackslash h.noTopComma hbar hbal h.noInfix

/-- AMONG OTHER ARGUMENTS: `parse_arguments (T1, T2, ..., Tn) = [parse_term T1, ..., parse_term Tn]` for structured texts
    whose quotes are closed, written with `, ` between them -/
theorem among_other_arguments (po : POps) (f : Nat) (as : List Text) (hne : as ≠ []) (hok : ∀ a ∈ as, ArgOK a) :
    parseArguments po (f + 1) (joinArgs as) = parseAll (parseTerm po (f + 1)) as :=
  parseArguments_multi po f as hne hok

/-- and inside a complex term: `parse_complex fn(T1, ..., Tn) = fn(parse_term T1, ..., parse_term Tn)` -/
theorem complex_with_arguments (po : POps) (f : Nat) {fn : Text} (hf : TokenText fn) (as : List Text)
    (hd : fn.head? ≠ some '$') (hne : as ≠ []) (hok : ∀ a ∈ as, ArgOK a)
    (hlen : fn.length + (joinArgs as).length + 2 ≤ 1000) :
    parseComplex po (f + 2) (fn ++ '(' :: joinArgs as ++ [')']) =
      (parseAll (parseTerm po (f + 2)) as).bind fun ts => .ok (.cplx (.cons (.atom (str fn)) (TermList.ofList ts))) :=
  parseComplex_multi po f hf as hd hne hok hlen

/-- non-vacuity: four arguments — a complex term, a list with a tail variable, a quoted atom with a comma, an atom with a blank -/
example : ∀ a ∈ ["f(a, b)".toList, "[1, 2 | $T]".toList, "\"x, y\"".toList, "New York".toList], ArgOK a := by
  intro a ha
  simp only [List.mem_cons, List.mem_nil_iff, or_false] at ha
  rcases ha with rfl | rfl | rfl | rfl <;> exact ⟨by decide, by decide, by decide, by decide, by rfl, by decide⟩

/-- C20, A STRUCTURED TEXT AS THE LEFT OPERAND OF `=`: in the subgoal `T = R` the left operand is `parse_term T` — for every
    trimmed text T without `<`, `>`, `=` and quotes whose every `(` is followed by a `)` later in T (the skipping of `check_infix` — to
    the NEXT `)`, not the matching one — then ends inside T); complex terms nested to any depth, lists, atoms with
    blanks among them.  (Texts with quotes or comparison characters stay with the exhaustive stream.) -/
theorem as_infix_operand_structured (po : POps) (f : Nat) {T R : Text} (htrim : trim T = T) (hne : T ≠ [])
    (hfree : infixFree T = true) (hnext : parenNext T = true)
    (hrtrim : trim R = R) (hr : R ≠ []) :
    parseSubgoal po (f + 1) (T ++ ' ' :: '=' :: ' ' :: R) =
      (parseTerm po f T).bind fun l => (parseTerm po f R).bind fun r =>
        .ok (.bip "unify" (some (.cons l (.cons r .nil)))) :=
  parseSubgoal_struct_unify po f htrim hne hfree hnext hrtrim hr

/-- non-vacuity: a nested complex term with a list and an atom with a blank meets the hypotheses -/
example : trim "f(g(a, [b | $T]), New York)".toList = "f(g(a, [b | $T]), New York)".toList ∧
    infixFree "f(g(a, [b | $T]), New York)".toList = true ∧ parenNext "f(g(a, [b | $T]), New York)".toList = true := by decide

/-- C20 / C19, EVERY CANONICAL TERM AS THE LEFT OPERAND OF `=`: for a canonical text T of the term t (`Canon`: integers, atoms,
    variables, `$_`, complex terms, lists, nested to any depth) the subgoal `T = R` is the unification of t — what `parse_term T`
    gives alone — with `parse_term R`; the hypotheses of `as_infix_operand_structured` hold of every canonical text
    (`canon_infixFree`, `canon_parenNext`) -/
theorem canonical_term_as_infix_operand (po : POps) (hα : ∀ c, isLetter c = true → po.isAlpha c = true) {d : Nat} {T : Text}
    {t : Term} (h : Canon d T t) (f : Nat) {R : Text} (hrtrim : trim R = R) (hr : R ≠ []) :
    parseTerm po (3 * d + 3 + f) T = .ok t ∧
    parseSubgoal po (3 * d + 3 + f + 1) (T ++ ' ' :: '=' :: ' ' :: R) =
      (parseTerm po (3 * d + 3 + f) R).bind fun r => .ok (.bip "unify" (some (.cons t (.cons r .nil)))) :=
  ⟨parse_canon po hα h f, canon_as_infix_operand po hα h f hrtrim hr⟩

/-- C20, THE LEFT OPERAND OF A COMPARISON: the same for `==`, `<`, `<=`, `>`, `>=` — the subgoal `T op R` is the built-in predicate
    of the operator (`equal`, `less_than`, ...) applied to `parse_term T` and `parse_term R`, for structured texts T as in
    `as_infix_operand_structured`, hence for every canonical term text -/
theorem as_comparison_operand_structured (po : POps) (f : Nat) (op : Cmp) {T R : Text} (htrim : trim T = T) (hne : T ≠ [])
    (hfree : infixFree T = true) (hnext : parenNext T = true) (hrtrim : trim R = R) (hr : R ≠ []) :
    parseSubgoal po (f + 1) (T ++ ' ' :: op.text ++ ' ' :: R) =
      (parseTerm po f T).bind fun l => (parseTerm po f R).bind fun r =>
        .ok (.bip op.name (some (.cons l (.cons r .nil)))) :=
  parseSubgoal_struct_cmp po f op htrim hne hfree hnext hrtrim hr

theorem canonical_term_as_comparison_operand (po : POps) (hα : ∀ c, isLetter c = true → po.isAlpha c = true) (op : Cmp) {d : Nat}
    {T : Text} {t : Term} (h : Canon d T t) (f : Nat) {R : Text} (hrtrim : trim R = R) (hr : R ≠ []) :
    parseSubgoal po (3 * d + 3 + f + 1) (T ++ ' ' :: op.text ++ ' ' :: R) =
      (parseTerm po (3 * d + 3 + f) R).bind fun r => .ok (.bip op.name (some (.cons t (.cons r .nil)))) :=
  canon_as_cmp_operand po hα op h f hrtrim hr

example : Cmp.le.text = "<=".toList ∧ Cmp.le.name = "less_than_or_equal" ∧ Cmp.equal.text = "==".toList := by decide

/-- C20, A LIST OF SEVERAL ELEMENTS: `parse_linked_list` of `[T1, ..., Tn]` parses each `Ti` exactly as `parse_term Ti` alone
    does (last element first, each linked in front of what is already built), for structured element texts with closed quotes
    and no comma or bar of their own outside quotes and brackets -/
theorem list_with_elements (po : POps) (f : Nat) (as : List Text) (hne : as ≠ []) (hok : ∀ a ∈ as, ElemOK a) :
    parseLinkedList po (f + 2) ('[' :: joinArgs as ++ [']']) = parseR (parseTerm po (f + 1)) as.reverse Term.empty :=
  parseLinkedList_multi po f as hne hok

def po0' : POps := ⟨fun _ => none, fun c => ('a'.toNat ≤ c.toNat && c.toNat ≤ 'z'.toNat) || ('A'.toNat ≤ c.toNat && c.toNat ≤ 'Z'.toNat)⟩

/-- C20, A LIST WITH A TAIL VARIABLE: `parse_linked_list` of `[T1, ..., Tn | V]` parses each `Ti` exactly as `parse_term Ti`
    alone does and links them in front of the node of the tail variable `make_logic_var V` (flagged, counting 1) -/
theorem list_with_tail (po : POps) (f : Nat) (as : List Text) (V : Text) (v : Term) (hne : as ≠ []) (hok : ∀ a ∈ as, ElemOK a)
    (hV : ElemOK V) (hq : qCount V ⟨0, 0, false⟩ = 0) (hv : makeLogicVar po V = .ok v) :
    parseLinkedList po (f + 2) ('[' :: (joinArgs as ++ ' ' :: '|' :: ' ' :: V) ++ [']']) =
      parseR (parseTerm po (f + 1)) as.reverse (.cons v Term.empty 1 true) :=
  parseLinkedList_tail po f as V v hne hok hV hq hv

/-- non-vacuity: the tail variable `$Rest` -/
example : ElemOK "$Rest".toList ∧ qCount "$Rest".toList ⟨0, 0, false⟩ = 0 ∧ makeLogicVar po0' "$Rest".toList = .ok (.var 0 "$Rest") :=
  ⟨⟨⟨by decide, by decide, by decide, by decide, by rfl, by decide⟩, by decide⟩, by decide, by decide⟩

/-- non-vacuity: three elements — a complex term, an inner list with its own bar, a quoted atom with a comma and a bar -/
example : ∀ a ∈ ["f(a, b)".toList, "[1, 2 | $T]".toList, "\"x, y | z\"".toList], ElemOK a := by
  intro a ha
  simp only [List.mem_cons, List.mem_nil_iff, or_false] at ha
  rcases ha with rfl | rfl | rfl <;> exact ⟨⟨by decide, by decide, by decide, by decide, by rfl, by decide⟩, by decide⟩

/-- non-vacuity: a complex term holding a list with a quoted atom that contains a comma; a quoted atom with a comma;
    a list with a signed float and a tail variable; an atom with a blank -/
example : Structured "f(a, [b, \"c, d\"])".toList ∧ (dpScan "f(a, [b, \"c, d\"])".toList ⟨0, 0, false⟩).oq = false :=
  ⟨⟨by decide, by decide, by decide, by decide, by decide, by decide, by decide⟩, by decide⟩
example : Structured "\"a, b\"".toList := ⟨by decide, by decide, by decide, by decide, by decide, by decide, by decide⟩
example : Structured "[1, -2.5 | $T]".toList := ⟨by decide, by decide, by decide, by decide, by decide, by decide, by decide⟩
example : Structured "New York".toList := ⟨by decide, by decide, by decide, by decide, by decide, by decide, by decide⟩
example : noTopBar "f(a, [b | $T], \"x | y\")".toList ⟨0, 0, false⟩ = true ∧ (dpScan "f(a, [b | $T], \"x | y\")".toList ⟨0, 0, false⟩).oq = false ∧
    Structured "f(a, [b | $T], \"x | y\")".toList :=
  ⟨by decide, by decide, ⟨by decide, by decide, by decide, by decide, by decide, by decide, by decide⟩⟩

/-! non-vacuity and witnesses -/
def po0 : POps := ⟨fun _ => none, fun c => ('a'.toNat ≤ c.toNat && c.toNat ≤ 'z'.toNat) || ('A'.toNat ≤ c.toNat && c.toNat ≤ 'Z'.toNat)⟩
example : TokenText "-3".toList := ⟨by decide, by decide⟩
example : TokenText "$Head".toList := ⟨by decide, by decide⟩
-- `-3` is the integer -3 alone, as an argument, in a list and next to `=` (the pinned tree: an atom in three of them)
example : parseTerm po0 5 "-3".toList = .ok (.int (-3)) := by decide +kernel
example : parseArguments po0 5 "-3".toList = .ok [.int (-3)] := by decide +kernel
example : parseLinkedList po0 5 "[-3]".toList = .ok (.cons (.int (-3)) Term.empty 1 false) := by decide +kernel
-- witness of the known finding F3: an arithmetic infix is seen alone but not as an argument
example : parseTerm po0 6 "1 + 2".toList = .ok (.func "add" (.cons (.int 1) (.cons (.int 2) .nil))) := by decide +kernel
example : parseArguments po0 6 "1 + 2".toList = .ok [.atom "1 + 2"] := by decide +kernel

end Suiron.C20
