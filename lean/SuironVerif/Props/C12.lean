/-
  C12 — arithmetic functions compute the documented values.
-/
import SuironVerif.Model.Unify
namespace Suiron.C12

/-- the unchecked integer operation each function folds with. -/
def intFn : ArithOp → Int → Int → Int
  | .add => (· + ·)
  | .sub => (· - ·)
  | .mul => (· * ·)
  | .div => Int.tdiv

/-- every intermediate result of the left fold is a 64-bit integer and no divisor is zero
    (the property excludes overflow and integer division by zero). -/
def FoldOK (op : ArithOp) : Int → List Int → Prop
  | _, [] => True
  | acc, x :: xs => (op = .div → x ≠ 0) ∧ inI64 (intFn op acc x) = true ∧ FoldOK op (intFn op acc x) xs

/-- the checked fold of the model is the plain left fold whenever nothing overflows. -/
theorem foldInt_eq (op : ArithOp) : ∀ (xs : List Int) (acc : Int), FoldOK op acc xs →
    foldInt (intOp op) acc xs = .ok (xs.foldl (intFn op) acc)
  | [], acc, _ => by simp [foldInt]
  | x :: xs, acc, h => by
    obtain ⟨hz, hr, hrest⟩ := h
    have hstep : intOp op acc x = .ok (intFn op acc x) := by
      cases op <;> simp_all [intOp, intFn, chk]
    simp [foldInt, hstep, foldInt_eq op xs _ hrest]

/-- all-integer arguments: `add` is the left-to-right sum (in 64-bit range). -/
theorem add_ints (fo : FloatOps) (ns : List Num) (hf : hasFloat ns = false) (h : FoldOK .add 0 (toInts ns)) :
    evalNums fo .add ns = .ok (.int ((toInts ns).foldl (· + ·) 0)) := by
  simp [evalNums, hf, foldInt_eq .add _ _ h, intFn]

theorem multiply_ints (fo : FloatOps) (ns : List Num) (hf : hasFloat ns = false) (h : FoldOK .mul 1 (toInts ns)) :
    evalNums fo .mul ns = .ok (.int ((toInts ns).foldl (· * ·) 1)) := by
  simp [evalNums, hf, foldInt_eq .mul _ _ h, intFn]

/-- `subtract(x, y, z, …)` = ((x − y) − z) − … -/
theorem subtract_ints (fo : FloatOps) (ns : List Num) (x : Int) (xs : List Int) (hf : hasFloat ns = false)
    (hx : toInts ns = x :: xs) (h : FoldOK .sub x xs) :
    evalNums fo .sub ns = .ok (.int (xs.foldl (· - ·) x)) := by
  simp [evalNums, hf, hx, foldInt_eq .sub _ _ h, intFn]

/-- `divide(x, y, z, …)` = ((x ÷ y) ÷ z) ÷ … with division truncating toward zero. -/
theorem divide_ints (fo : FloatOps) (ns : List Num) (x : Int) (xs : List Int) (hf : hasFloat ns = false)
    (hx : toInts ns = x :: xs) (h : FoldOK .div x xs) :
    evalNums fo .div ns = .ok (.int (xs.foldl Int.tdiv x)) := by
  simp [evalNums, hf, hx, foldInt_eq .div _ _ h, intFn]

/-- as soon as one argument is a float, every argument is converted and the fold is done in
    64-bit floating point (for every implementation `fo` of the float operations). -/
theorem add_floats (fo : FloatOps) (ns : List Num) (hf : hasFloat ns = true) :
    evalNums fo .add ns = .ok (.flt ((toFloats fo ns).foldl fo.add f64Zero)) := by
  simp [evalNums, hf]
theorem multiply_floats (fo : FloatOps) (ns : List Num) (hf : hasFloat ns = true) :
    evalNums fo .mul ns = .ok (.flt ((toFloats fo ns).foldl fo.mul f64One)) := by
  simp [evalNums, hf]
theorem subtract_floats (fo : FloatOps) (ns : List Num) (x : UInt64) (xs : List UInt64) (hf : hasFloat ns = true)
    (hx : toFloats fo ns = x :: xs) : evalNums fo .sub ns = .ok (.flt (xs.foldl fo.sub x)) := by
  simp [evalNums, hf, hx]
theorem divide_floats (fo : FloatOps) (ns : List Num) (x : UInt64) (xs : List UInt64) (hf : hasFloat ns = true)
    (hx : toFloats fo ns = x :: xs) : evalNums fo .div ns = .ok (.flt (xs.foldl fo.div x)) := by
  simp [evalNums, hf, hx]

/-- integers among float arguments are converted, floats are taken as they are, order kept. -/
theorem toFloats_spec (fo : FloatOps) : ∀ ns : List Num,
    toFloats fo ns = ns.map (fun n => match n with | .f b => b | .i v => fo.ofInt v)
  | [] => rfl
  | .f b :: ns => by simp [toFloats, toFloats_spec fo ns]
  | .i v :: ns => by simp [toFloats, toFloats_spec fo ns]

/-- arguments are used through their bindings: an argument that is (bound to) an integer or a float
    contributes that number; the evaluation does not depend on how it was written. -/
theorem numbers_through_bindings (f : Nat) (σ : Subst) (t : Term) (ts : List Term) (i : Int) (ns : List Num)
    (h1 : walk f σ t = .ok (some (.int i))) (h2 : getNumbers f σ ts = .ok ns) :
    getNumbers f σ (t :: ts) = .ok (.i i :: ns) := by
  simp [getNumbers, h1, h2]

/-- the value is then unified with the other operand (function on the left). -/
theorem value_is_unified (fo : FloatOps) (f : Nat) (name : String) (args : TermList) (i : Nat) (n : String) (σ : Subst) :
    unify fo (f+1) (.func name args) (.var i n) σ
      = (evalFunc fo f name args.toList σ).bind fun v => unify fo f v (.var i n) σ := by
  conv => lhs; unfold unify
  simp [Term.beq, Term.isAnon]

def fo0 : FloatOps := ⟨fun a _ => a, fun a _ => a, fun a _ => a, fun a _ => a, fun _ => 0, fun _ => ""⟩
example : evalNums fo0 .sub [.i 10, .i 3, .i 2] = .ok (.int 5) := by decide
example : evalNums fo0 .div [.i (-7), .i 2] = .ok (.int (-3)) := by decide
example : FoldOK .sub 10 [3, 2] := by simp [FoldOK, intFn, inI64]
example : evalNums fo0 .div [.i 1, .i 0] = .panic := by decide

end Suiron.C12
