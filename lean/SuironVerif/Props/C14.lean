/-
  C14 — comparison predicates follow numeric and lexicographic order.
-/
import SuironVerif.Model.Builtins
namespace Suiron.C14

/-- the documented relation between two constants. -/
def holds (fo : FloatOps) (op : CmpOp) (a b : Term) : Bool :=
  match a, b with
  | .atom s1, .atom s2 => cmpStr op s1 s2          -- string order
  | .int i1, .int i2 => cmpInt op i1 i2            -- integer order
  | .flt f1, .flt f2 => cmpFlt op f1 f2            -- IEEE order
  | .flt f1, .int i => cmpFlt op f1 (fo.ofInt i)   -- the integer is converted to a float
  | .int i, .flt f2 => cmpFlt op (fo.ofInt i) f2
  | _, _ => false                                  -- an atom never compares with a number

theorem holds_eq (fo : FloatOps) (op : CmpOp) (a b : Term) : holds fo op a b = cmpConst fo op a b := by
  cases a <;> cases b <;> rfl

/-- both operands are (bound to) constants: the predicate succeeds — with the substitution set
    unchanged — exactly when they compare accordingly, and fails otherwise. -/
theorem compare_constants (fo : FloatOps) (f : Nat) (op : CmpOp) (t0 t1 : Term) (rest : List Term) (σ : Subst) (a b : Term)
    (ha : getConstant f σ t0 = .ok (some a)) (hb : getConstant f σ t1 = .ok (some b)) :
    bipCompare fo f op (some (t0 :: t1 :: rest)) σ = .ok (if holds fo op a b then some σ else none) := by
  simp only [bipCompare, ha, hb, holds_eq, Res.bind_ok]
  by_cases h : cmpConst fo op a b = true <;> simp [h]

/-- an operand that is unbound, or not an atom or number, makes the predicate fail. -/
theorem fails_left (fo : FloatOps) (f : Nat) (op : CmpOp) (t0 t1 : Term) (rest : List Term) (σ : Subst)
    (ha : getConstant f σ t0 = .ok none) : bipCompare fo f op (some (t0 :: t1 :: rest)) σ = .ok none := by
  simp [bipCompare, ha]
theorem fails_right (fo : FloatOps) (f : Nat) (op : CmpOp) (t0 t1 : Term) (rest : List Term) (σ : Subst) (a : Term)
    (ha : getConstant f σ t0 = .ok (some a)) (hb : getConstant f σ t1 = .ok none) :
    bipCompare fo f op (some (t0 :: t1 :: rest)) σ = .ok none := by
  simp [bipCompare, ha, hb]

/-- what counts as a constant: an atom or number written literally, or a variable whose chain of
    bindings ends at one; a list, a complex term, `$_` or an unbound variable does not. -/
theorem constant_literal (f : Nat) (σ : Subst) (s : String) (i : Int) (b : UInt64) :
    getConstant f σ (.atom s) = .ok (some (.atom s)) ∧ getConstant f σ (.int i) = .ok (some (.int i)) ∧
    getConstant f σ (.flt b) = .ok (some (.flt b)) := by simp [getConstant]
theorem constant_unbound (f : Nat) (σ : Subst) (i : Nat) (n : String) (h : walk f σ (.var i n) = .ok none) :
    getConstant f σ (.var i n) = .ok none := by simp [getConstant, h]
theorem nonconstant (f : Nat) (σ : Subst) (t n : Term) (c : Nat) (tv : Bool) (args : TermList) :
    getConstant f σ (.cons t n c tv) = .ok none ∧ getConstant f σ (.cplx args) = .ok none ∧ getConstant f σ .anon = .ok none := by
  simp [getConstant]

/-- atom against number never holds, for any predicate. -/
theorem atom_number (fo : FloatOps) (op : CmpOp) (s : String) (i : Int) (b : UInt64) :
    holds fo op (.atom s) (.int i) = false ∧ holds fo op (.int i) (.atom s) = false ∧
    holds fo op (.atom s) (.flt b) = false ∧ holds fo op (.flt b) (.atom s) = false := by simp [holds]

/-- the five integer relations are the order of ℤ. -/
theorem int_order (a b : Int) :
    (cmpInt .eq a b = true ↔ a = b) ∧ (cmpInt .lt a b = true ↔ a < b) ∧ (cmpInt .le a b = true ↔ a ≤ b) ∧
    (cmpInt .gt a b = true ↔ a > b) ∧ (cmpInt .ge a b = true ↔ a ≥ b) := by
  simp [cmpInt]

/-- the five atom relations are the lexicographic (code point) order of strings. -/
theorem atom_order (a b : String) :
    (cmpStr .eq a b = true ↔ a = b) ∧ (cmpStr .lt a b = true ↔ a < b) ∧ (cmpStr .le a b = true ↔ a < b ∨ a = b) ∧
    (cmpStr .gt a b = true ↔ b < a) ∧ (cmpStr .ge a b = true ↔ b < a ∨ a = b) := by
  simp [cmpStr]

/-- floats: `>`/`>=` are `<`/`<=` mirrored, `<=` is `<` or `==`, NaN compares with nothing, +0 = −0. -/
theorem float_order (a b : UInt64) :
    cmpFlt .gt a b = cmpFlt .lt b a ∧ cmpFlt .ge a b = cmpFlt .le b a ∧
    (cmpFlt .le a b = (cmpFlt .lt a b || cmpFlt .eq a b)) ∧
    (fIsNaN a = true → cmpFlt .eq a b = false ∧ cmpFlt .lt a b = false ∧ cmpFlt .le a b = false) := by
  refine ⟨rfl, rfl, ?_, ?_⟩
  · simp only [cmpFlt, fLe, fLt, fEq]
    cases fIsNaN a <;> cases fIsNaN b <;> simp
    by_cases h1 : fKey a < fKey b
    · simp [h1, Int.le_of_lt h1]
    · by_cases h2 : fKey a = fKey b
      · simp [h2]
      · have : ¬ fKey a ≤ fKey b := by omega
        simp [h1, h2, this]
  · intro h; simp [cmpFlt, fEq, fLt, fLe, h]

def fo0 : FloatOps := ⟨fun a _ => a, fun a _ => a, fun a _ => a, fun a _ => a, fun _ => 0, fun _ => ""⟩
-- 0.0 == -0.0 ; "ab" < "b" ; 10 < 9 is false for integers but "10" < "9" for atoms
example : cmpFlt .eq 0 0x8000000000000000 = true := by decide
example : holds fo0 .lt (.atom "ab") (.atom "b") = true := by decide
example : holds fo0 .lt (.int 10) (.int 9) = false ∧ holds fo0 .lt (.atom "10") (.atom "9") = true := by decide
example : bipCompare fo0 5 .lt (some [.var 1 "$X", .int 3]) [none, some (.int 2)] = .ok (some [none, some (.int 2)]) := by decide

end Suiron.C14
