/-
  C21 — loading a file equals parsing its rules one by one.

  The reader model (Model/Reader.lean) follows `rule_reader.rs` from the text of the file on:
  lines → strip_comments → check_last_char → joined text → separate_rules → parse_rule each.
  The rule parser is a parameter `pr` of `loadKB`, so everything here holds for the real
  parser model and for any other.

  PROVED (all files, all rule lists):
    * `load_is_parse_each`, `parseAll_spec`, `load_or_reject`: a file is either rejected, or the
      knowledge base is exactly the list of `parse_rule` results of the texts the reader
      separated, in order — nothing is added, dropped or reordered after the separation;
    * `separate_rules_exact`: on the concatenation of rule texts (each read as one rule on its
      own, `OneRule`) the separation returns exactly those texts, in order — a decimal point,
      a period inside parentheses, brackets or quotes never ends a rule;
    * `join_lines_exact` / `bad_line_rejected`: the joined text is the concatenation of the
      stripped, non-empty lines, one blank after every line that does not end a rule; a line
      that ends with anything but `- , ; = .` rejects the file;
    * `layout_of_rule`: the pieces of one rule, however many lines they are spread over and
      whatever blank or comment-only lines lie between them, contribute the pieces joined by
      single blanks — for a break made at a blank after `- , ; =` that is the rule text itself;
    * `C21`: composition of the above.
    * `strip_comments_exact`, `line_of_piece`: a line made of indentation, a piece of a rule
      (`CleanPiece`: not blank at its ends, brackets closed, no `#`, `%`, `//` outside brackets, not
      ending in a slash), blanks and an optional `#` / `%` / `//` comment is stripped to exactly
      that piece; a blank or comment-only line to nothing — so the hypothesis of `C21` about
      the stripped lines is discharged for every such layout.
-/
import SuironVerif.Lemmas.ReaderLemmas
namespace Suiron.C21
open Suiron.Parse

/-- loading = reading the rule texts, then parsing each with the rule parser, in order -/
theorem load_is_parse_each (pr : Text → Res Rule) (file : Text) (rules : List Rule) :
    loadKB pr file = .ok rules ↔ ∃ texts, readRules file = .ok texts ∧ parseAll pr texts = .ok rules := by
  unfold loadKB
  exact Res.bind_eq_ok

/-- `parseAll` is the element-wise rule parser: same number of rules, the i-th rule is the parse of the i-th text -/
theorem parseAll_spec (pr : Text → Res Rule) : ∀ (texts : List Text) (rules : List Rule),
    parseAll pr texts = .ok rules →
      rules.length = texts.length ∧ ∀ i (h : i < texts.length) (h' : i < rules.length), pr texts[i] = .ok rules[i] := by
  intro texts
  induction texts with
  | nil => intro rules h; simp [parseAll] at h; subst h; simp
  | cons t rest ih =>
    intro rules h
    simp only [parseAll] at h
    obtain ⟨r, hr, h⟩ := Res.bind_eq_ok.mp h
    obtain ⟨rs, hrs, h⟩ := Res.bind_eq_ok.mp h
    cases h
    have := ih rs hrs
    refine ⟨by simp [this.1], ?_⟩
    intro i hi hi'
    cases i with
    | zero => simpa using hr
    | succ j => simpa using this.2 j (by simpa using hi) (by simpa using hi')

/-- a file is loaded as `map parse_rule (separated texts)` or rejected; never anything else -/
theorem load_or_reject (pr : Text → Res Rule) (file : Text) :
    (∃ texts, readRules file = .ok texts ∧ loadKB pr file = parseAll pr texts) ∨
    (∀ rules, loadKB pr file ≠ .ok rules) := by
  unfold loadKB
  cases h : readRules file with
  | ok texts => exact Or.inl ⟨texts, rfl, rfl⟩
  | fail => exact Or.inr (by intro r; simp [Res.bind])
  | panic => exact Or.inr (by intro r; simp [Res.bind])
  | oof => exact Or.inr (by intro r; simp [Res.bind])

/-- the separation returns exactly the rule texts, in order -/
theorem separate_rules_exact (rs : List Text) (h : ∀ r ∈ rs, OneRule r) : separateRules rs.flatten = .ok rs :=
  separateRules_concat rs h

/-- the text handed to the separation -/
theorem join_lines_exact (lines : List Text) (h : ∀ l ∈ lines, checkLastChar (stripComments l) = true ∧ LineClosed l) :
    joinLines lines [] = .ok ((lines.map lineText).flatten) := by
  simpa using joinLines_spec lines [] h

/-- a line that ends in the middle of a word rejects the whole file -/
theorem bad_line_rejected (pr : Text → Res Rule) (file : Text) (hcl : ∀ l ∈ splitLines file, LineClosed l)
    (h : ∃ l ∈ splitLines file, checkLastChar (stripComments l) = false) : loadKB pr file = .fail := by
  unfold loadKB readRules
  rw [joinLines_reject _ _ hcl h]; rfl

/-- what the stripped pieces of a rule contribute once joined -/
def joinPieces (ps : List Text) : Text :=
  (ps.map fun p => p ++ (if p.getLast? == some '.' then [] else [' '])).flatten

/-- pieces `p₁ … pₖ` of one rule (only the last ends with a period) are joined by single blanks -/
theorem layout_of_rule : ∀ (ps : List Text) (last : Text),
    (∀ p ∈ ps, p.getLast? ≠ some '.') → last.getLast? = some '.' →
    joinPieces (ps ++ [last]) = (ps.map fun p => p ++ [' ']).flatten ++ last := by
  intro ps
  induction ps with
  | nil => intro last _ hl; simp [joinPieces, hl]
  | cons p ps ih =>
    intro last hp hl
    have h1 : (p.getLast? == some '.') = false := by simpa using hp p (by simp)
    have h2 := ih last (fun q hq => hp q (by simp [hq])) hl
    unfold joinPieces at h2 ⊢
    simp only [List.cons_append, List.map_cons, List.flatten_cons, h1]
    rw [h2]
    simp

/-- comment stripping: indentation, trailing blanks and a trailing comment are removed, nothing else -/
theorem strip_comments_exact {p indent trail comment : Text} (hp : CleanPiece p)
    (hi : ∀ c ∈ indent, isWs c = true) (ht : ∀ c ∈ trail, isWs c = true) (hc : IsComment comment) :
    stripComments (indent ++ p ++ trail ++ comment) = p :=
  stripComments_line hp hi ht hc

/-- ... and leaves no parenthesis, bracket or quote open for the next line (since repair D26 the reader carries
    the depths from line to line, so that a list or a complex term can continue on the next line) -/
theorem clean_line_closed {p indent trail comment : Text} (hp : CleanPiece p)
    (hi : ∀ c ∈ indent, isWs c = true) (ht : ∀ c ∈ trail, isWs c = true) (hc : IsComment comment) :
    LineClosed (indent ++ p ++ trail ++ comment) :=
  line_closed hp hi ht hc

/-- what such a line contributes to the joined text: the piece, and one blank unless it ends the rule -/
theorem line_of_piece {p indent trail comment : Text} (hp : CleanPiece p)
    (hi : ∀ c ∈ indent, isWs c = true) (ht : ∀ c ∈ trail, isWs c = true) (hc : IsComment comment) :
    lineText (indent ++ p ++ trail ++ comment) = p ++ (if p.getLast? == some '.' then [] else [' ']) := by
  have hne : p.isEmpty = false := by cases p with | nil => exact absurd rfl hp.ne | cons a b => rfl
  unfold lineText
  simp only [stripComments_line hp hi ht hc, hne, Bool.false_eq_true, if_false]

/-- a line that holds only blanks and a comment contributes nothing -/
theorem comment_line_ignored {indent comment : Text} (hi : ∀ c ∈ indent, isWs c = true)
    (hc : (∃ r, comment = '#' :: r) ∨ (∃ r, comment = '%' :: r)) : lineText (indent ++ comment) = [] := by
  have s1 := commentStart_ws indent 0 {} hi
  have hstrip : stripComments (indent ++ comment) = [] := by
    unfold stripComments stripCommentsIn
    simp only
    rw [commentStart_append _ _ _ _ s1.1]
    rcases hc with ⟨r, rfl⟩ | ⟨r, rfl⟩
    · simp only [commentStart, s1.2.1, s1.2.2.1, s1.2.2.2.2, show (('#' : Char) == '"') = false from by decide, show (('#' : Char) == '(') = false from by decide, show (('#' : Char) == '[') = false from by decide,
        show (('#' : Char) == ')') = false from by decide, show (('#' : Char) == ']') = false from by decide, Bool.false_eq_true, if_false,
        show (({} : StripSt).round == 0 && ({} : StripSt).square == 0) = true from rfl, show ({} : StripSt).inQuotes = false from rfl, if_true, show (('#' : Char) == '#' || ('#' : Char) == '%') = true from by decide]
      rw [List.take_left' (by simp)]
      have e : indent.dropWhile isWs = [] := by simpa using dropWhile_ws_append (rest := []) hi
      unfold trim trimEnd trimStart
      rw [e]; rfl
    · simp only [commentStart, s1.2.1, s1.2.2.1, s1.2.2.2.2, show (('%' : Char) == '"') = false from by decide, show (('%' : Char) == '(') = false from by decide, show (('%' : Char) == '[') = false from by decide,
        show (('%' : Char) == ')') = false from by decide, show (('%' : Char) == ']') = false from by decide, Bool.false_eq_true, if_false,
        show (({} : StripSt).round == 0 && ({} : StripSt).square == 0) = true from rfl, show ({} : StripSt).inQuotes = false from rfl, if_true, show (('%' : Char) == '#' || ('%' : Char) == '%') = true from by decide]
      rw [List.take_left' (by simp)]
      have e : indent.dropWhile isWs = [] := by simpa using dropWhile_ws_append (rest := []) hi
      unfold trim trimEnd trimStart
      rw [e]; rfl
  simp [lineText, hstrip]

/-- blank and comment-only lines contribute nothing -/
theorem blank_line_ignored (l : Text) (h : stripComments l = []) : lineText l = [] := by
  simp [lineText, h]

/-- C21: if the stripped lines of a file are, in order, the pieces of the rule texts `rs` (so that the
    joined text is their concatenation), every rule text is read as one rule, and no line ends
    badly, then loading the file gives exactly `parse_rule` of each rule text, in order. -/
theorem C21 (pr : Text → Res Rule) (file : Text) (rs : List Text)
    (hlines : ∀ l ∈ splitLines file, checkLastChar (stripComments l) = true ∧ LineClosed l)
    (hjoin : ((splitLines file).map lineText).flatten = rs.flatten)
    (hrs : ∀ r ∈ rs, OneRule r) : loadKB pr file = parseAll pr rs := by
  unfold loadKB readRules
  rw [join_lines_exact _ hlines, hjoin]
  simp only [Res.bind_ok]
  rw [separate_rules_exact rs hrs]
  rfl

/-! non-vacuity: concrete rule texts are `OneRule`; a concrete file with comments, a blank line and
    rules continued over several lines is read as its two rules -/
example : OneRule "f($X) :- $X = 1.5, g([a.b], \"x.y\").".toList :=
  ⟨⟨2, by decide, by decide +kernel⟩, by intro c hc; simp at hc; subst hc; decide⟩

example : CleanPiece "g($X) :- f($X, [a/b, #]),".toList :=
  ⟨by decide, by intro a h; simp at h; subst h; decide, by intro a h; simp at h; subst h; decide, by decide +kernel, by decide +kernel⟩

-- a list that continues over three lines, with comment characters inside it: nothing is lost (repair D26)
example : readRules ("c($C) :- $C = [a, #b,\n   %dev, x//y,\n  z].\n").toList
    = .ok ["c($C) :- $C = [a, #b, %dev, x//y, z].".toList] := by decide +kernel

example : readRules ("# facts\nf(1.5).  % one\n\ng($X) :- f($X),\n    // note\n    $X =\n  2.\n").toList
    = .ok ["f(1.5).".toList, "g($X) :- f($X), $X = 2.".toList] := by decide +kernel

end Suiron.C21
