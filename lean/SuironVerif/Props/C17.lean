/-
  C17 — count, include/exclude, functor and join compute documented results.
-/
import SuironVerif.Props.C16
namespace Suiron.C17

/-- count: the number of elements of the list, then unified with the output argument. -/
theorem count_spec (fo : FloatOps) (f : Nat) (l out : Term) (σ : Subst) (n : Int) (h : countTerms f σ l = .ok n) :
    bipCount fo f (some [l, out]) σ = optUnify fo f out (.int n) σ := by
  simp [bipCount, h]

/-- the traversal of `count` on a list without tail variable visits one cell per step. -/
theorem listHeads_count (σ : Subst) : ∀ (es : List Term), NoNil es → ∀ (e : Term), e.isNil = false → ∀ f, f ≥ es.length + 2 →
    listHeads false f σ e (mkProper es) = .ok (e :: es)
  | [], _, e, he, f, hf => by
    match f, hf with
    | f+2, _ =>
      have hn : Term.nil.isNil = true := rfl
      simp [listHeads, he, mkProper, Term.empty, hn]
  | x :: xs, hx, e, he, f, hf => by
    have hxn : x.isNil = false := hx x (by simp)
    have hxs : NoNil xs := fun z hz => hx z (by simp [hz])
    match f, hf with
    | f+1, hf =>
      simp only [listHeads, he, mkProper]
      simp
      rw [listHeads_count σ xs hxs x hxn f (by simp at hf; omega)]
      rfl

/-- count of a literal list = its number of elements (a nested or empty list counts once). -/
theorem count_proper (e : Term) (es : List Term) (h : NoNil (e :: es)) (σ : Subst) (f : Nat) (hf : f ≥ es.length + 3) :
    countTerms f σ (mkProper (e :: es)) = .ok (Int.ofNat (es.length + 1)) := by
  have he : e.isNil = false := h e (by simp)
  have hes : NoNil es := fun z hz => h z (by simp [hz])
  simp [countTerms, mkProper, listHeads_count σ es hes e he f (by omega)]

theorem count_empty (σ : Subst) (f : Nat) : countTerms (f+1) σ Term.empty = .ok 0 := by
  have hn : Term.nil.isNil = true := rfl
  simp [countTerms, Term.empty, listHeads, hn]

/-- does the element unify with the filter term under `σ`? (the resulting bindings are dropped) -/
def passes (fo : FloatOps) (f : Nat) (pat : Term) (σ : Subst) (e : Term) : Bool :=
  match optUnify fo f pat e σ with
  | .ok r => r.isSome
  | _ => false

/-- include / exclude: the kept elements are, in order, those whose unification with the filter term
    succeeds / does not succeed — each tested against the SAME substitution set `σ`; the bindings
    of the tests are discarded, so the filter binds nothing. -/
theorem filter_spec (fo : FloatOps) (f : Nat) (pat : Term) (σ : Subst) (incl : Bool) :
    ∀ (hs kept : List Term), filterHeads fo f pat σ incl hs = .ok kept →
      kept = hs.filter (fun e => passes fo f pat σ e == incl)
  | [], kept, h => by simp [filterHeads] at h; subst h; rfl
  | x :: xs, kept, h => by
    simp only [filterHeads] at h
    obtain ⟨r, hr, h⟩ := Res.bind_eq_ok.mp h
    obtain ⟨rest, hrest, h⟩ := Res.bind_eq_ok.mp h
    have ih := filter_spec fo f pat σ incl xs rest hrest
    cases h
    have hp : passes fo f pat σ x = r.isSome := by simp [passes, hr]
    by_cases hc : (r.isSome == incl) = true
    · simp [List.filter, hp, hc, ih]
    · simp [List.filter, hp, hc, ih]

/-- the result of include/exclude is unified with the output under the unchanged set `σ`. -/
theorem filter_unifies_under_sigma (fo : FloatOps) (f : Nat) (incl : Bool) (pat l out : Term) (σ : Subst)
    (h n : Term) (c : Nat) (tv : Bool) (heads kept : List Term)
    (hw : walk f σ l = .ok (some (.cons h n c tv))) (hh : listHeads true f σ h n = .ok heads)
    (hk : filterHeads fo f pat σ incl heads = .ok kept) :
    bipFilter fo f incl (some [pat, l, out]) σ = optUnify fo f out (mkProper kept) σ := by
  simp [bipFilter, hw, hh, hk]

/-- functor: exact name match, or prefix match for a pattern ending in `*`. -/
theorem functor_match (fs pat : String) (c : Char) (h : pat.toList.getLast? = some c) :
    atomsMatch (.atom fs) pat = .ok (if c = '*' then decide (pat.toList.dropLast.isPrefixOf fs.toList) else fs == pat) := by
  simp [atomsMatch, h]
  by_cases hc : c = '*' <;> simp [hc]

/-- functor on something that is not (bound to) a complex term fails. -/
theorem functor_noncomplex (fo : FloatOps) (f : Nat) (s : String) (t1 : Term) (σ : Subst) (g1 : Term)
    (h1 : groundTop f σ t1 = .ok g1) : bipFunctor fo f (some [.atom s, t1]) σ = .ok none := by
  have h0 : groundTop f σ (.atom s) = .ok (.atom s) := rfl
  simp [bipFunctor, h0, h1]

/-- join: words separated by single spaces, `, . ? !` attached to the previous word. -/
theorem join_words (s : String) (ss : List String) (h : isPunct s = false) :
    joinStrs (s :: ss) false = " " ++ s ++ joinStrs ss false := by simp [joinStrs, h]
theorem join_first (s : String) (ss : List String) : joinStrs (s :: ss) true = s ++ joinStrs ss false := by
  by_cases h : isPunct s <;> simp [joinStrs, h]
theorem join_punct (s : String) (ss : List String) (first : Bool) (h : isPunct s = true) :
    joinStrs (s :: ss) first = s ++ joinStrs ss false := by simp [joinStrs, h]

/-- join formats the VALUE of every collected term (repair D13): a list element that is a bound
    variable contributes what it is bound to. -/
theorem join_uses_values (f : Nat) (σ : Subst) (t v : Term) (ts gs : List Term)
    (h1 : walk f σ t = .ok (some v)) (h2 : groundAll f σ ts = .ok gs) : groundAll f σ (t :: ts) = .ok (v :: gs) := by
  simp [groundAll, h1, h2]

def fo0 : FloatOps := ⟨fun a _ => a, fun a _ => a, fun a _ => a, fun a _ => a, fun _ => 0, fun _ => ""⟩
example : joinStrs ["Hello", ",", "world", "!"] true = "Hello, world!" := by decide
example : evalJoin fo0 20 [mkProper [.var 1 "$X", .atom "world"]] [none, some (.atom "Hello")] = .ok (.atom "Hello world") := by decide
example : bipFilter fo0 30 true (some [.anon, mkProper [.atom "a", mkProper [.atom "b", .atom "c"]], .var 1 "$R"]) []
        = .ok (some [none, some (mkProper [.atom "a", mkProper [.atom "b", .atom "c"]])]) := by decide
example : bipFunctor fo0 20 (some [.cplx (.cons (.atom "noun_phrase") (.cons (.atom "x") .nil)), .atom "noun*"]) [] = .ok (some []) := by decide

end Suiron.C17
