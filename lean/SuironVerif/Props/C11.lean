/-
  C11 — answers do not depend on how program variables are named.

  FULL STATEMENT (target, decided on every run by executing each generated program under three
  alpha-renamings of its rules and comparing answers, order and output): for any family of
  per-rule injective name maps the reference machine's run on the renamed knowledge base is the
  image of its run on the original one.
  Proved here (`_partial`): the step on which everything else rests — renaming a clause apart
  assigns variable ids by first occurrence only, so consistently renamed clauses get the SAME ids,
  and the engine's term comparison then cannot tell them apart.
-/
import SuironVerif.Model.Goal
namespace Suiron.C11

mutual
def mapNames (ρ : String → String) : Term → Term
  | .var i name => .var i (ρ name)
  | .cplx args => .cplx (mapNamesL ρ args)
  | .cons t n c tv => .cons (mapNames ρ t) (mapNames ρ n) c tv
  | .func name args => .func name (mapNamesL ρ args)
  | t => t
def mapNamesL (ρ : String → String) : TermList → TermList
  | .nil => .nil
  | .cons h t => .cons (mapNames ρ h) (mapNamesL ρ t)
end

def mapMap (ρ : String → String) : VarMap → VarMap
  | [] => []
  | (k, v) :: rest => (ρ k, v) :: mapMap ρ rest

def mapSt (ρ : String → String) (st : RenSt) : RenSt := ⟨mapMap ρ st.map, st.counter⟩

theorem get_mapMap (ρ : String → String) (hinj : ∀ a b, ρ a = ρ b → a = b) :
    ∀ (m : VarMap) (name : String), (mapMap ρ m).get (ρ name) = m.get name
  | [], _ => rfl
  | (k, v) :: rest, name => by
    simp only [mapMap, VarMap.get]
    by_cases h : k = name
    · simp [h]
    · have : ρ k ≠ ρ name := fun e => h (hinj _ _ e)
      simp [h, this, get_mapMap ρ hinj rest name]

mutual
/-- renaming apart commutes with a consistent (injective) renaming of the clause's variables:
    the ids handed out are identical, only the names differ. -/
theorem rename_commutes_partial (ρ : String → String) (hinj : ∀ a b, ρ a = ρ b → a = b) :
    ∀ (t : Term) (st : RenSt),
      renameTerm (mapNames ρ t) (mapSt ρ st) = (mapNames ρ (renameTerm t st).1, mapSt ρ (renameTerm t st).2)
  | .var i name, st => by
    simp only [mapNames, renameTerm, mapSt, get_mapMap ρ hinj]
    cases st.map.get name <;> simp [mapNames, mapMap]
  | .cplx args, st => by simp [mapNames, renameTerm, rename_commutesL_partial ρ hinj args st]
  | .cons t n c tv, st => by
    simp [mapNames, renameTerm, rename_commutes_partial ρ hinj t st, rename_commutes_partial ρ hinj n _]
  | .func name args, st => by simp [mapNames, renameTerm, rename_commutesL_partial ρ hinj args st]
  | .nil, st => by simp [mapNames, renameTerm]
  | .anon, st => by simp [mapNames, renameTerm]
  | .atom _, st => by simp [mapNames, renameTerm]
  | .flt _, st => by simp [mapNames, renameTerm]
  | .int _, st => by simp [mapNames, renameTerm]
theorem rename_commutesL_partial (ρ : String → String) (hinj : ∀ a b, ρ a = ρ b → a = b) :
    ∀ (ts : TermList) (st : RenSt),
      renameTerms (mapNamesL ρ ts) (mapSt ρ st) = (mapNamesL ρ (renameTerms ts st).1, mapSt ρ (renameTerms ts st).2)
  | .nil, st => by simp [mapNamesL, renameTerms]
  | .cons h t, st => by
    simp [mapNamesL, renameTerms, rename_commutes_partial ρ hinj h st, rename_commutesL_partial ρ hinj t _]
end

/-- in particular the variable counter after renaming a clause does not depend on its names. -/
theorem counter_independent_partial (ρ : String → String) (hinj : ∀ a b, ρ a = ρ b → a = b) (t : Term) (c : Nat) :
    (renameTerm (mapNames ρ t) ⟨[], c⟩).2.counter = (renameTerm t ⟨[], c⟩).2.counter := by
  have := rename_commutes_partial ρ hinj t ⟨[], c⟩
  simp [mapSt, mapMap] at this
  rw [this]

mutual
/-- the engine's term comparison (`self == other`) is blind to an injective renaming. -/
theorem beq_names_partial (ρ : String → String) (hinj : ∀ a b, ρ a = ρ b → a = b) :
    ∀ (a b : Term), (mapNames ρ a).beq (mapNames ρ b) = a.beq b
  | .var i n, .var j m => by
    simp only [mapNames, Term.beq]
    by_cases h : n = m
    · subst h; simp
    · have h2 : ρ n ≠ ρ m := fun e => h (hinj _ _ e)
      have e1 : (n == m) = false := by simpa using h
      have e2 : (ρ n == ρ m) = false := by simpa using h2
      rw [e1, e2]
  | .cplx as, .cplx bs => by simp [mapNames, Term.beq, beqL_names_partial ρ hinj as bs]
  | .cons t n c tv, .cons t' n' c' tv' => by
    simp [mapNames, Term.beq, beq_names_partial ρ hinj t t', beq_names_partial ρ hinj n n']
  | .func f as, .func g bs => by simp [mapNames, Term.beq, beqL_names_partial ρ hinj as bs]
  | .nil, b => by cases b <;> simp [mapNames, Term.beq]
  | .anon, b => by cases b <;> simp [mapNames, Term.beq]
  | .atom _, b => by cases b <;> simp [mapNames, Term.beq]
  | .flt _, b => by cases b <;> simp [mapNames, Term.beq]
  | .int _, b => by cases b <;> simp [mapNames, Term.beq]
  | .var _ _, .nil => by simp [mapNames, Term.beq]
  | .var _ _, .anon => by simp [mapNames, Term.beq]
  | .var _ _, .atom _ => by simp [mapNames, Term.beq]
  | .var _ _, .flt _ => by simp [mapNames, Term.beq]
  | .var _ _, .int _ => by simp [mapNames, Term.beq]
  | .var _ _, .cplx _ => by simp [mapNames, Term.beq]
  | .var _ _, .cons _ _ _ _ => by simp [mapNames, Term.beq]
  | .var _ _, .func _ _ => by simp [mapNames, Term.beq]
  | .cplx _, .nil => by simp [mapNames, Term.beq]
  | .cplx _, .anon => by simp [mapNames, Term.beq]
  | .cplx _, .atom _ => by simp [mapNames, Term.beq]
  | .cplx _, .flt _ => by simp [mapNames, Term.beq]
  | .cplx _, .int _ => by simp [mapNames, Term.beq]
  | .cplx _, .var _ _ => by simp [mapNames, Term.beq]
  | .cplx _, .cons _ _ _ _ => by simp [mapNames, Term.beq]
  | .cplx _, .func _ _ => by simp [mapNames, Term.beq]
  | .cons _ _ _ _, .nil => by simp [mapNames, Term.beq]
  | .cons _ _ _ _, .anon => by simp [mapNames, Term.beq]
  | .cons _ _ _ _, .atom _ => by simp [mapNames, Term.beq]
  | .cons _ _ _ _, .flt _ => by simp [mapNames, Term.beq]
  | .cons _ _ _ _, .int _ => by simp [mapNames, Term.beq]
  | .cons _ _ _ _, .var _ _ => by simp [mapNames, Term.beq]
  | .cons _ _ _ _, .cplx _ => by simp [mapNames, Term.beq]
  | .cons _ _ _ _, .func _ _ => by simp [mapNames, Term.beq]
  | .func _ _, .nil => by simp [mapNames, Term.beq]
  | .func _ _, .anon => by simp [mapNames, Term.beq]
  | .func _ _, .atom _ => by simp [mapNames, Term.beq]
  | .func _ _, .flt _ => by simp [mapNames, Term.beq]
  | .func _ _, .int _ => by simp [mapNames, Term.beq]
  | .func _ _, .var _ _ => by simp [mapNames, Term.beq]
  | .func _ _, .cplx _ => by simp [mapNames, Term.beq]
  | .func _ _, .cons _ _ _ _ => by simp [mapNames, Term.beq]
theorem beqL_names_partial (ρ : String → String) (hinj : ∀ a b, ρ a = ρ b → a = b) :
    ∀ (as bs : TermList), (mapNamesL ρ as).beq (mapNamesL ρ bs) = as.beq bs
  | .nil, .nil => by simp [mapNamesL, TermList.beq]
  | .cons a as, .cons b bs => by simp [mapNamesL, TermList.beq, beq_names_partial ρ hinj a b, beqL_names_partial ρ hinj as bs]
  | .nil, .cons _ _ => by simp [mapNamesL, TermList.beq]
  | .cons _ _, .nil => by simp [mapNamesL, TermList.beq]
end

example : (renameTerm (.cplx (.cons (.atom "p") (.cons (.var 0 "$X") (.cons (.var 0 "$Y") .nil)))) ⟨[], 4⟩).2.counter
        = (renameTerm (.cplx (.cons (.atom "p") (.cons (.var 0 "$Foo") (.cons (.var 0 "$Bar") .nil)))) ⟨[], 4⟩).2.counter := by decide

end Suiron.C11
