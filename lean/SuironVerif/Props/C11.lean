/-
  C11 — answers do not depend on how program variables are named.

  FULL STATEMENT (target, decided on every run by executing each generated program under several
  alpha-renamings of its rules and comparing answers, order and output): for any family of
  per-rule injective name maps the engine's run on the renamed knowledge base is the
  image of its run on the original one.
  PROVED HERE
    * `C11_engine` — for the ENGINE MODEL on the whole control language (calls, `!`, `,`, `;`, `not`, `time`) with the built-in
      predicates that do not write names — `fail`, `nl`, `=` (unify) and the five comparisons (`Lemmas/NameBlindBip.lean`) —
      and without function terms: request by request, the answers against the renamed knowledge base are the
      renamed answers against the original one, with the same output.  `C11_machine_with_cut` is the same for the reference
      machine with cut.
    * `C11_machine` — for the reference machine of `Spec/PureMachine.lean` (whose runs the engine model's requests are, C01) on
      the fragment without built-in predicates and function terms (calls with atom functors, `,`, `;`, `not`): if `kb'` is
      `kb` with the variable names of EACH RULE rewritten by an injective map of its own (`KBRen`; the maps may differ from
      rule to rule, so rules may reuse each other's names or the query's), then every run of a query on `kb` is a run on
      `kb'` showing the same observations — answer or none, in the same order, with the same text written — the bindings of
      the answers being renamed by a map that leaves the query's own variables alone.  The other built-in predicates and the
      function terms are left to the differential stream: `print`, `print_list`, `join` write the names of unbound variables
      (with them the statement is false as it stands), the list built-ins have not been taken through the renaming.
    * `unification_blind_to_names` — `unify` on renamed operands under the renamed substitution set gives the renamed
      result (for a renaming that may depend on the id and is injective for each id).
    * `rename_apart_commutes` — renaming a rule apart from the counter commutes with a renaming of its names: the ids
      handed out depend on the order of first occurrence only.
    * (`_partial`, the first steps) renaming a clause apart assigns variable ids by first occurrence only, and the engine's
      term comparison cannot tell consistently renamed terms apart.
-/
import SuironVerif.Model.Goal
import SuironVerif.Lemmas.NameBlindKB
import SuironVerif.Lemmas.NameBlindEngine
namespace Suiron.C11

mutual
def mapNames (ρ : String → String) : Term → Term
  | .var i name => .var i (ρ name)
  | .cplx args => .cplx (mapNamesL ρ args)
  | .cons t n c tv => .cons (mapNames ρ t) (mapNames ρ n) c tv
  | .func name args => .func name (mapNamesL ρ args)
  | t => t
def mapNamesL (ρ : String → String) : TermList → TermList
  | .nil => .nil
  | .cons h t => .cons (mapNames ρ h) (mapNamesL ρ t)
end

def mapMap (ρ : String → String) : VarMap → VarMap
  | [] => []
  | (k, v) :: rest => (ρ k, v) :: mapMap ρ rest

def mapSt (ρ : String → String) (st : RenSt) : RenSt := ⟨mapMap ρ st.map, st.counter⟩

theorem get_mapMap (ρ : String → String) (hinj : ∀ a b, ρ a = ρ b → a = b) :
    ∀ (m : VarMap) (name : String), (mapMap ρ m).get (ρ name) = m.get name
  | [], _ => rfl
  | (k, v) :: rest, name => by
    simp only [mapMap, VarMap.get]
    by_cases h : k = name
    · simp [h]
    · have : ρ k ≠ ρ name := fun e => h (hinj _ _ e)
      simp [h, this, get_mapMap ρ hinj rest name]

mutual
/-- renaming apart commutes with a consistent (injective) renaming of the clause's variables:
    the ids handed out are identical, only the names differ. -/
theorem rename_commutes_partial (ρ : String → String) (hinj : ∀ a b, ρ a = ρ b → a = b) :
    ∀ (t : Term) (st : RenSt),
      renameTerm (mapNames ρ t) (mapSt ρ st) = (mapNames ρ (renameTerm t st).1, mapSt ρ (renameTerm t st).2)
  | .var i name, st => by
    simp only [mapNames, renameTerm, mapSt, get_mapMap ρ hinj]
    cases st.map.get name <;> simp [mapNames, mapMap]
  | .cplx args, st => by simp [mapNames, renameTerm, rename_commutesL_partial ρ hinj args st]
  | .cons t n c tv, st => by
    simp [mapNames, renameTerm, rename_commutes_partial ρ hinj t st, rename_commutes_partial ρ hinj n _]
  | .func name args, st => by simp [mapNames, renameTerm, rename_commutesL_partial ρ hinj args st]
  | .nil, st => by simp [mapNames, renameTerm]
  | .anon, st => by simp [mapNames, renameTerm]
  | .atom _, st => by simp [mapNames, renameTerm]
  | .flt _, st => by simp [mapNames, renameTerm]
  | .int _, st => by simp [mapNames, renameTerm]
theorem rename_commutesL_partial (ρ : String → String) (hinj : ∀ a b, ρ a = ρ b → a = b) :
    ∀ (ts : TermList) (st : RenSt),
      renameTerms (mapNamesL ρ ts) (mapSt ρ st) = (mapNamesL ρ (renameTerms ts st).1, mapSt ρ (renameTerms ts st).2)
  | .nil, st => by simp [mapNamesL, renameTerms]
  | .cons h t, st => by
    simp [mapNamesL, renameTerms, rename_commutes_partial ρ hinj h st, rename_commutesL_partial ρ hinj t _]
end

/-- in particular the variable counter after renaming a clause does not depend on its names. -/
theorem counter_independent_partial (ρ : String → String) (hinj : ∀ a b, ρ a = ρ b → a = b) (t : Term) (c : Nat) :
    (renameTerm (mapNames ρ t) ⟨[], c⟩).2.counter = (renameTerm t ⟨[], c⟩).2.counter := by
  have := rename_commutes_partial ρ hinj t ⟨[], c⟩
  simp [mapSt, mapMap] at this
  rw [this]

mutual
/-- the engine's term comparison (`self == other`) is blind to an injective renaming. -/
theorem beq_names_partial (ρ : String → String) (hinj : ∀ a b, ρ a = ρ b → a = b) :
    ∀ (a b : Term), (mapNames ρ a).beq (mapNames ρ b) = a.beq b
  | .var i n, .var j m => by
    simp only [mapNames, Term.beq]
    by_cases h : n = m
    · subst h; simp
    · have h2 : ρ n ≠ ρ m := fun e => h (hinj _ _ e)
      have e1 : (n == m) = false := by simpa using h
      have e2 : (ρ n == ρ m) = false := by simpa using h2
      rw [e1, e2]
  | .cplx as, .cplx bs => by simp [mapNames, Term.beq, beqL_names_partial ρ hinj as bs]
  | .cons t n c tv, .cons t' n' c' tv' => by
    simp [mapNames, Term.beq, beq_names_partial ρ hinj t t', beq_names_partial ρ hinj n n']
  | .func f as, .func g bs => by simp [mapNames, Term.beq, beqL_names_partial ρ hinj as bs]
  | .nil, b => by cases b <;> simp [mapNames, Term.beq]
  | .anon, b => by cases b <;> simp [mapNames, Term.beq]
  | .atom _, b => by cases b <;> simp [mapNames, Term.beq]
  | .flt _, b => by cases b <;> simp [mapNames, Term.beq]
  | .int _, b => by cases b <;> simp [mapNames, Term.beq]
  | .var _ _, .nil => by simp [mapNames, Term.beq]
  | .var _ _, .anon => by simp [mapNames, Term.beq]
  | .var _ _, .atom _ => by simp [mapNames, Term.beq]
  | .var _ _, .flt _ => by simp [mapNames, Term.beq]
  | .var _ _, .int _ => by simp [mapNames, Term.beq]
  | .var _ _, .cplx _ => by simp [mapNames, Term.beq]
  | .var _ _, .cons _ _ _ _ => by simp [mapNames, Term.beq]
  | .var _ _, .func _ _ => by simp [mapNames, Term.beq]
  | .cplx _, .nil => by simp [mapNames, Term.beq]
  | .cplx _, .anon => by simp [mapNames, Term.beq]
  | .cplx _, .atom _ => by simp [mapNames, Term.beq]
  | .cplx _, .flt _ => by simp [mapNames, Term.beq]
  | .cplx _, .int _ => by simp [mapNames, Term.beq]
  | .cplx _, .var _ _ => by simp [mapNames, Term.beq]
  | .cplx _, .cons _ _ _ _ => by simp [mapNames, Term.beq]
  | .cplx _, .func _ _ => by simp [mapNames, Term.beq]
  | .cons _ _ _ _, .nil => by simp [mapNames, Term.beq]
  | .cons _ _ _ _, .anon => by simp [mapNames, Term.beq]
  | .cons _ _ _ _, .atom _ => by simp [mapNames, Term.beq]
  | .cons _ _ _ _, .flt _ => by simp [mapNames, Term.beq]
  | .cons _ _ _ _, .int _ => by simp [mapNames, Term.beq]
  | .cons _ _ _ _, .var _ _ => by simp [mapNames, Term.beq]
  | .cons _ _ _ _, .cplx _ => by simp [mapNames, Term.beq]
  | .cons _ _ _ _, .func _ _ => by simp [mapNames, Term.beq]
  | .func _ _, .nil => by simp [mapNames, Term.beq]
  | .func _ _, .anon => by simp [mapNames, Term.beq]
  | .func _ _, .atom _ => by simp [mapNames, Term.beq]
  | .func _ _, .flt _ => by simp [mapNames, Term.beq]
  | .func _ _, .int _ => by simp [mapNames, Term.beq]
  | .func _ _, .var _ _ => by simp [mapNames, Term.beq]
  | .func _ _, .cplx _ => by simp [mapNames, Term.beq]
  | .func _ _, .cons _ _ _ _ => by simp [mapNames, Term.beq]
theorem beqL_names_partial (ρ : String → String) (hinj : ∀ a b, ρ a = ρ b → a = b) :
    ∀ (as bs : TermList), (mapNamesL ρ as).beq (mapNamesL ρ bs) = as.beq bs
  | .nil, .nil => by simp [mapNamesL, TermList.beq]
  | .cons a as, .cons b bs => by simp [mapNamesL, TermList.beq, beq_names_partial ρ hinj a b, beqL_names_partial ρ hinj as bs]
  | .nil, .cons _ _ => by simp [mapNamesL, TermList.beq]
  | .cons _ _, .nil => by simp [mapNamesL, TermList.beq]
end

example : (renameTerm (.cplx (.cons (.atom "p") (.cons (.var 0 "$X") (.cons (.var 0 "$Y") .nil)))) ⟨[], 4⟩).2.counter
        = (renameTerm (.cplx (.cons (.atom "p") (.cons (.var 0 "$Foo") (.cons (.var 0 "$Bar") .nil)))) ⟨[], 4⟩).2.counter := by decide

/-! ### the lift to runs -/

open Suiron.Blind Suiron.Spec in
/-- UNIFICATION IS BLIND TO NAMES (function-free terms with ids at most `n`) -/
theorem unification_blind_to_names (fo : FloatOps) (ν : NMap) (hinj : Inj ν) (n f : Nat) (a b : Term) (σ : Subst)
    (ha : good n a = true) (hb : good n b = true) (hs : goodS n σ) :
    unify fo f (mapN ν a) (mapN ν b) (mapS ν σ) = Blind.Res.map (mapS ν) (unify fo f a b σ) :=
  (unify_blind fo ν hinj n f a b σ ha hb hs).1

open Suiron.Blind in
/-- renaming a rule apart commutes with a renaming of its variable names -/
theorem rename_apart_commutes (ρ : String → String) (hρ : SInj ρ) (r : Rule) (c : Nat) :
    renameRule (mapRule ρ r) ⟨[], c⟩ = Blind.Res.map (fun x => (mapRule ρ x.1, Blind.mapSt ρ x.2)) (renameRule r ⟨[], c⟩) :=
  renameRule_comm ρ hρ r ⟨[], c⟩

open Suiron.Blind Suiron.Spec in
/-- C11 FOR THE REFERENCE MACHINE: consistently renaming the variables of each rule (each rule by an injective map of its
    own) changes no observation of any run of any query of the fragment — the same answers in the same order with the
    same output, the bindings renamed by a map `ν` that is the identity on the query's variables (ids up to `c`) -/
theorem C11_machine (fo : FloatOps) {kb kb' : KB} (hren : KBRen kb kb') (hok : kbOK kb) (q : Goal) (c : Nat)
    (hq : goodG c q = true) (out : List String) {tr : List (Option Subst × List String)}
    (h : MRun fo kb ⟨[.goals [q] []], c, out⟩ tr) :
    ∃ ν, Inj ν ∧ (∀ i, i ≤ c → ν i = idN i) ∧ MRun fo kb' ⟨[.goals [q] []], c, out⟩ (mapTr ν tr) :=
  machine_blind_to_names fo (kbRel_of_kbRen hren hok) q c hq out h


open Suiron.Blind Suiron.Spec in
/-- C11 FOR THE REFERENCE MACHINE WITH CUT (`Spec/GroupMachine.lean`): the same for the whole control language — calls, `!`,
    conjunctions and disjunctions nested to any depth, `not`, `time` — still without other built-in predicates and function
    terms: renaming commutes with everything the cut does (marking the end markers, cutting the stack back to a height) -/
theorem C11_machine_with_cut (fo : FloatOps) {kb kb' : KB} (hren : KBRen kb kb') (hok : kbOK kb) (q : Goal) (c : Nat)
    (hq : goodG c q = true) (out : List String) {tr : List (Option Subst × List String)}
    (h : Grp.CRun fo kb ⟨[.goals [.g q 0] []], c, out⟩ tr) :
    ∃ ν, Inj ν ∧ (∀ i, i ≤ c → ν i = idN i) ∧ Grp.CRun fo kb' ⟨[.goals [.g q 0] []], c, out⟩ (mapTr ν tr) :=
  group_machine_blind_to_names fo (kbRel_of_kbRen hren hok) q c hq out h

open Suiron.Blind Suiron.Spec in
/-- C11 FOR THE ENGINE MODEL: the i-th request on the base node of a query against the renamed knowledge base returns the
    renamed answer (or none) of the i-th request against the original one, with the same text written so far — for every
    knowledge base of the fragment (rule bodies: calls with atom functors, `!`, `fail`, `nl`, `=`, the comparisons, `,`, `;`,
    `not`, `time` in which no `!` is written directly; no other built-in predicate, no function term), every query term with an atom functor, and whatever the
    timer ticks of the two sessions.  (From `C11_machine_with_cut`, the refinement of C01 for both knowledge bases, and the
    determinism of the machine.) -/
theorem C11_engine (fo : FloatOps) {kb kb' : KB} (hren : KBRen kb kb') (hok : kbOK kb)
    (hkb : ∀ key rs, kb.get key = some rs → ∀ r ∈ rs, r.body.isNil = true ∨ Grp.okG r.body = true)
    (q : Term) (g0 g1 g1' : G) (node node' : Node) (hq : good g0.counter q = true ∧ callOK q = true)
    (hmk : mkNode fo.showF kb (.call q) [] g0 = .ok (node, g1)) (hmk' : mkNode fo.showF kb' (.call q) [] g0 = .ok (node', g1'))
    (hg : GOK g0) (fs fs' : List Nat) :
    ∃ ν, Inj ν ∧ (∀ i, i ≤ g0.counter → ν i = idN i) ∧
      ∀ (i : Nat) x y, (askOut fo kb' fs' node' g1')[i]? = some x → (mapTr ν (askOut fo kb fs node g1))[i]? = some y → x = y :=
  engine_blind_to_names_cut fo hren hok (Grp.okKB_of_rules kb hkb) q g0 g1 g1' node node' hq hmk hmk' hg fs fs'

/-! non-vacuity: `p($X, $Y) :- q($Y, $X).  q(a, b).` and the same program with `$X` and `$Y` exchanged in the first rule and
    `$X` written for nothing in the second; the query `p($A, $B)` has a run with one answer on the first. -/
def swapXY (s : String) : String := if s = "$X" then "$Y" else if s = "$Y" then "$X" else s
theorem swapXY_inj : Blind.SInj swapXY := by
  intro a b h
  unfold swapXY at h
  by_cases a1 : a = "$X" <;> by_cases a2 : a = "$Y" <;> by_cases b1 : b = "$X" <;> by_cases b2 : b = "$Y" <;>
    simp_all
def c2 (f : String) (a b : Term) : Term := .cplx (.cons (.atom f) (.cons a (.cons b .nil)))
def kbA : KB :=
  [("p/2", [⟨c2 "p" (.var 0 "$X") (.var 0 "$Y"), .call (c2 "q" (.var 0 "$Y") (.var 0 "$X"))⟩]),
   ("q/2", [⟨c2 "q" (.atom "a") (.atom "b"), .nil⟩])]
def kbB : KB :=
  [("p/2", [Blind.mapRule swapXY ⟨c2 "p" (.var 0 "$X") (.var 0 "$Y"), .call (c2 "q" (.var 0 "$Y") (.var 0 "$X"))⟩]),
   ("q/2", [Blind.mapRule id ⟨c2 "q" (.atom "a") (.atom "b"), .nil⟩])]
example : kbB = [("p/2", [⟨c2 "p" (.var 0 "$Y") (.var 0 "$X"), .call (c2 "q" (.var 0 "$X") (.var 0 "$Y"))⟩]),
                 ("q/2", [⟨c2 "q" (.atom "a") (.atom "b"), .nil⟩])] := by decide
example : Blind.KBRen kbA kbB :=
  .cons (.cons swapXY swapXY_inj .nil) (.cons (.cons id (fun _ _ h => h) .nil) .nil)
example : Blind.kbOK kbA := by
  intro key rs hk r hr
  simp only [kbA, KB.get] at hk
  by_cases h1 : "p/2" = key
  · simp only [h1, if_true, Option.some.injEq] at hk
    subst hk
    simp only [List.mem_singleton] at hr
    subst hr
    exact ⟨⟨by decide, by decide⟩, by decide⟩
  · simp only [h1, if_false] at hk
    by_cases h2 : "q/2" = key
    · simp only [h2, if_true, Option.some.injEq] at hk
      subst hk
      simp only [List.mem_singleton] at hr
      subst hr
      exact ⟨⟨by decide, by decide⟩, by decide⟩
    · simp [h2] at hk

def fo0 : FloatOps := ⟨fun a _ => a, fun a _ => a, fun a _ => a, fun a _ => a, fun _ => 0, fun _ => ""⟩
open Suiron.Spec in
/-- the premise of `C11_machine` is met: the query `p($A, $B)` has a run on `kbA` with one answer and then none -/
example : ∃ σ, MRun fo0 kbA ⟨[.goals [.call (c2 "p" (.var 1 "$A") (.var 2 "$B"))] []], 2, []⟩ [(some σ, []), (none, [])] := by
  refine ⟨?σ, ?h⟩
  case h =>
    refine MRun.ans (S := []) (ctr := ?c) ?steps ?rest
    case steps =>
      refine PSteps.step (PStep.call (key := "p/2") (by decide)) ?_
      refine PSteps.step (PStep.clauseOk (key := "p/2") (f := 20) (by decide) (by rfl) (by rfl)) ?_
      refine PSteps.step (PStep.call (key := "q/2") (by decide)) ?_
      refine PSteps.step (PStep.clauseOk (key := "q/2") (f := 20) (by decide) (by rfl) (by rfl)) ?_
      exact PSteps.refl
    case rest => exact MRun.fin .refl .nil
example : Blind.goodG 2 (.call (c2 "p" (.var 1 "$A") (.var 2 "$B"))) = true := by decide
/-- rules with a cut, a unification and a comparison lie in the fragment too: `first($X) :- q($X, $Y), !, $Y = b, $X < z.` -/
example : Blind.ruleOK ⟨.cplx (.cons (.atom "first") (.cons (.var 0 "$X") .nil)),
    .and (.cons (.call (c2 "q" (.var 0 "$X") (.var 0 "$Y"))) (.cons (.bip "!" none)
      (.cons (.bip "unify" (some (.cons (.var 0 "$Y") (.cons (.atom "b") .nil))))
      (.cons (.bip "less_than" (some (.cons (.var 0 "$X") (.cons (.atom "z") .nil)))) .nil))))⟩ := ⟨⟨by decide, by decide⟩, by decide⟩

/-- the premises of `C11_engine` are met on the two knowledge bases of the example: both are in the fragment, the query
    `p($A, $B)` gets a base node in each, and the global state of a fresh query has no pending timer -/
example : (∀ key rs, kbA.get key = some rs → ∀ r ∈ rs, r.body.isNil = true ∨ Spec.Grp.okG r.body = true) ∧
    (∃ node g1, mkNode fo0.showF kbA (.call (c2 "p" (.var 1 "$A") (.var 2 "$B"))) [] { G.init with counter := 2 } = .ok (node, g1)) ∧
    (∃ node g1, mkNode fo0.showF kbB (.call (c2 "p" (.var 1 "$A") (.var 2 "$B"))) [] { G.init with counter := 2 } = .ok (node, g1)) ∧
    Spec.GOK { G.init with counter := 2 } ∧
    (Blind.good 2 (c2 "p" (.var 1 "$A") (.var 2 "$B")) = true ∧ Blind.callOK (c2 "p" (.var 1 "$A") (.var 2 "$B")) = true) := by
  refine ⟨?_, ⟨_, _, rfl⟩, ⟨_, _, rfl⟩, ⟨rfl, rfl⟩, by decide, by decide⟩
  intro key rs hk r hr
  simp only [kbA, KB.get] at hk
  by_cases h1 : "p/2" = key
  · simp only [h1, if_true, Option.some.injEq] at hk
    subst hk
    simp only [List.mem_singleton] at hr
    subst hr
    exact Or.inr (by decide)
  · simp only [h1, if_false] at hk
    by_cases h2 : "q/2" = key
    · simp only [h2, if_true, Option.some.injEq] at hk
      subst hk
      simp only [List.mem_singleton] at hr
      subst hr
      exact Or.inl (by decide)
    · simp [h2] at hk

end Suiron.C11
