/-
  C03 — not(G) succeeds once, without bindings, iff G has no answer.
-/
import SuironVerif.Lemmas.Exhausted
namespace Suiron.C03

/-- the first request on a fresh `not` node asks G's node exactly once; `not` succeeds with the
    substitution set it was created with — unchanged — exactly when G's node has no answer. -/
theorem not_once (fo : FloatOps) (kb : KB) (f : Nat) (σ : Subst) (h : Node) (rest : GoalList) (tail : Option Node) (g : G) :
    next fo kb (f+1) (.op .not σ false true h rest tail) g =
      (next fo kb f h g).bind fun r =>
        .ok ⟨if r.sol.isSome then none else some σ,
             .op .not σ (false || r.cut) false (if r.cut then r.node.setNb else r.node) rest tail, r.cut, r.g⟩ := by
  simp [next, Node.nb]

/-- G's own bindings are never visible: whatever G's node answered, `not` returns either nothing
    or the very substitution set `σ` it started from. -/
theorem not_hides_bindings (fo : FloatOps) (kb : KB) (f : Nat) (σ : Subst) (h : Node) (rest : GoalList) (tail : Option Node) (g : G)
    (st : Step) (hst : next fo kb (f+1) (.op .not σ false true h rest tail) g = .ok st) :
    st.sol = none ∨ st.sol = some σ := by
  rw [not_once] at hst
  obtain ⟨r, _, hst⟩ := Res.bind_eq_ok.mp hst
  cases hst
  by_cases hs : r.sol.isSome <;> simp [hs]

/-- succeeds iff G has no answer (G's node, asked once, reports none). -/
theorem not_iff (fo : FloatOps) (kb : KB) (f : Nat) (σ : Subst) (h : Node) (rest : GoalList) (tail : Option Node) (g : G)
    (r st : Step) (hr : next fo kb f h g = .ok r)
    (hst : next fo kb (f+1) (.op .not σ false true h rest tail) g = .ok st) :
    (st.sol = some σ ↔ r.sol = none) ∧ (st.sol = none ↔ r.sol.isSome = true) := by
  rw [not_once, hr] at hst
  simp at hst; cases hst
  cases hrs : r.sol <;> simp

/-- exactly once: after its first request the `not` node is exhausted, whatever the outcome. -/
theorem not_then_exhausted (fo : FloatOps) (kb : KB) (f : Nat) (σ : Subst) (h : Node) (rest : GoalList) (tail : Option Node) (g : G)
    (st : Step) (hst : next fo kb (f+1) (.op .not σ false true h rest tail) g = .ok st) : Exhausted st.node := by
  rw [not_once] at hst
  obtain ⟨r, _, hst⟩ := Res.bind_eq_ok.mp hst
  cases hst
  exact Exhausted.notDone _ _ _ _ _

end Suiron.C03
