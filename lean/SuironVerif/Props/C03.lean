/-
  C03 — not(G) succeeds once, without bindings, iff G has no answer.
-/
import SuironVerif.Lemmas.Exhausted
import SuironVerif.Lemmas.EngineRefine
import SuironVerif.Lemmas.MachineDet
import SuironVerif.Lemmas.GroupMachineProps
namespace Suiron.C03

/-- the first request on a fresh `not` node asks G's node exactly once; `not` succeeds with the
    substitution set it was created with — unchanged — exactly when G's node has no answer. -/
theorem not_once (fo : FloatOps) (kb : KB) (f : Nat) (σ : Subst) (h : Node) (rest : GoalList) (tail : Option Node) (g : G) :
    next fo kb (f+1) (.op .not σ false true h rest tail) g =
      (next fo kb f h g).bind fun r =>
        .ok ⟨if r.sol.isSome then none else some σ,
             .op .not σ (false || r.cut) false (if r.cut then r.node.setNb else r.node) rest tail, r.cut, r.g⟩ := by
  simp [next, Node.nb]

/-- G's own bindings are never visible: whatever G's node answered, `not` returns either nothing
    or the very substitution set `σ` it started from. -/
theorem not_hides_bindings (fo : FloatOps) (kb : KB) (f : Nat) (σ : Subst) (h : Node) (rest : GoalList) (tail : Option Node) (g : G)
    (st : Step) (hst : next fo kb (f+1) (.op .not σ false true h rest tail) g = .ok st) :
    st.sol = none ∨ st.sol = some σ := by
  rw [not_once] at hst
  obtain ⟨r, _, hst⟩ := Res.bind_eq_ok.mp hst
  cases hst
  by_cases hs : r.sol.isSome <;> simp [hs]

/-- succeeds iff G has no answer (G's node, asked once, reports none). -/
theorem not_iff (fo : FloatOps) (kb : KB) (f : Nat) (σ : Subst) (h : Node) (rest : GoalList) (tail : Option Node) (g : G)
    (r st : Step) (hr : next fo kb f h g = .ok r)
    (hst : next fo kb (f+1) (.op .not σ false true h rest tail) g = .ok st) :
    (st.sol = some σ ↔ r.sol = none) ∧ (st.sol = none ↔ r.sol.isSome = true) := by
  rw [not_once, hr] at hst
  simp at hst; cases hst
  cases hrs : r.sol <;> simp

/-- exactly once: after its first request the `not` node is exhausted, whatever the outcome. -/
theorem not_then_exhausted (fo : FloatOps) (kb : KB) (f : Nat) (σ : Subst) (h : Node) (rest : GoalList) (tail : Option Node) (g : G)
    (st : Step) (hst : next fo kb (f+1) (.op .not σ false true h rest tail) g = .ok st) : Exhausted st.node := by
  rw [not_once] at hst
  obtain ⟨r, _, hst⟩ := Res.bind_eq_ok.mp hst
  cases hst
  exact Exhausted.notDone _ _ _ _ _

/-- "G has no answer" in the reference sense, for every cut-free G and knowledge base: asked once, G's node
    reports none exactly as the reference search for G (started under the same substitution set) runs to the
    empty stack without showing an answer, and reports σ' exactly as that search shows σ' as its FIRST answer. -/
theorem inner_search_is_reference (fo : FloatOps) (kb : KB)
    (hkb : ∀ key rs, kb.get key = some rs → ∀ r ∈ rs, r.body.isNil = true ∨ Spec.pureG r.body = true)
    (G : Goal) (hp : Spec.pureG G = true) (σ : Subst) (g0 g1 : Suiron.G) (hg : Spec.GOK g0) (h : Node)
    (hmk : mkNode fo.showF kb G σ g0 = .ok (h, g1)) (f : Nat) (r : Step) (hr : next fo kb f h g1 = .ok r) :
    (r.sol = none → Spec.PSteps fo kb ⟨[.goals [G] σ], g0.counter, g0.out⟩ ⟨[], r.g.counter, r.g.out⟩) ∧
    (∀ σ', r.sol = some σ' → ∃ S, Spec.PSteps fo kb ⟨[.goals [G] σ], g0.counter, g0.out⟩ ⟨.goals [] σ' :: S, r.g.counter, r.g.out⟩) := by
  obtain ⟨hmk1, hc, ho, hg1, hpn⟩ := Spec.mk_steps fo kb G σ g0 h g1 [] [] hmk hp hg
  have href := ((Spec.next_refines_pure fo kb (Spec.pureKB_of_rules kb hkb) f).1 h g1 r [] [] hr hpn hg1).1
  rw [hc, ho] at href
  constructor
  · intro hn; rw [hn] at href; exact hmk1.trans href.1
  · intro σ' hs; rw [hs] at href; exact ⟨_, hmk1.trans href⟩

/-- C03 against the reference: the goal `not(G)` (G cut-free), asked for the first time, answers with its own
    unchanged substitution set only if the reference search for G finitely fails, and answers none only if that
    search shows an answer. -/
theorem C03_reference (fo : FloatOps) (kb : KB)
    (hkb : ∀ key rs, kb.get key = some rs → ∀ r ∈ rs, r.body.isNil = true ∨ Spec.pureG r.body = true)
    (G : Goal) (gs : GoalList) (hp : Spec.pureG G = true) (σ : Subst) (g0 g1 : Suiron.G) (hg : Spec.GOK g0) (N : Node)
    (hmk : mkNode fo.showF kb (.not (.cons G gs)) σ g0 = .ok (N, g1)) (f : Nat) (st : Step)
    (hst : next fo kb (f+1) N g1 = .ok st) :
    (st.sol = some σ ∨ st.sol = none) ∧
    (st.sol = some σ → Spec.PSteps fo kb ⟨[.goals [G] σ], g0.counter, g0.out⟩ ⟨[], st.g.counter, st.g.out⟩) ∧
    (st.sol = none → ∃ σ' S, Spec.PSteps fo kb ⟨[.goals [G] σ], g0.counter, g0.out⟩ ⟨.goals [] σ' :: S, st.g.counter, st.g.out⟩) := by
  simp only [mkNode] at hmk
  obtain ⟨m, hm, hmk⟩ := Res.bind_eq_ok.mp hmk
  cases hmk
  rw [not_once] at hst
  obtain ⟨r, hr, hst⟩ := Res.bind_eq_ok.mp hst
  cases hst
  obtain ⟨h1, h2⟩ := inner_search_is_reference fo kb hkb G hp σ g0 m.2 hg m.1 hm f r hr
  cases hs : r.sol with
  | none =>
    refine ⟨Or.inl (by simp), fun _ => h1 hs, fun hn => by simp at hn⟩
  | some σ' =>
    obtain ⟨S, hS⟩ := h2 σ' hs
    refine ⟨Or.inr (by simp), fun hn => by simp at hn, fun _ => ⟨σ', S, hS⟩⟩

/-- C03 as an equivalence (the reference machine is deterministic): `not(G)` answers — with its own unchanged set —
    IF AND ONLY IF the reference search for G ends without an answer, and answers none if and only if that search
    shows an answer. -/
theorem C03_iff (fo : FloatOps) (kb : KB)
    (hkb : ∀ key rs, kb.get key = some rs → ∀ r ∈ rs, r.body.isNil = true ∨ Spec.pureG r.body = true)
    (G : Goal) (gs : GoalList) (hp : Spec.pureG G = true) (σ : Subst) (g0 g1 : Suiron.G) (hg : Spec.GOK g0) (N : Node)
    (hmk : mkNode fo.showF kb (.not (.cons G gs)) σ g0 = .ok (N, g1)) (f : Nat) (st : Step)
    (hst : next fo kb (f+1) N g1 = .ok st) :
    (st.sol = some σ ↔ ∃ c o, Spec.PSteps fo kb ⟨[.goals [G] σ], g0.counter, g0.out⟩ ⟨[], c, o⟩) ∧
    (st.sol = none ↔ ∃ σ' S c o, Spec.PSteps fo kb ⟨[.goals [G] σ], g0.counter, g0.out⟩ ⟨.goals [] σ' :: S, c, o⟩) := by
  obtain ⟨h0, h1, h2⟩ := C03_reference fo kb hkb G gs hp σ g0 g1 hg N hmk f st hst
  constructor
  · constructor
    · intro hs; exact ⟨_, _, h1 hs⟩
    · rintro ⟨c, o, hrun⟩
      rcases h0 with h0 | h0
      · exact h0
      · obtain ⟨σ', S, hrun'⟩ := h2 h0
        have := hrun.det hrun' (Or.inl rfl) (Or.inr ⟨_, _, rfl⟩)
        cases this
  · constructor
    · intro hs; obtain ⟨σ', S, hrun⟩ := h2 hs; exact ⟨σ', S, _, _, hrun⟩
    · rintro ⟨σ', S, c, o, hrun⟩
      rcases h0 with h0 | h0
      · have hrun' := h1 h0
        have := hrun.det hrun' (Or.inr ⟨_, _, rfl⟩) (Or.inl rfl)
        cases this
      · exact h0

/-! ## the same against the machine with cut, groups, negation and timing: knowledge bases whose clauses cut -/

/-- "G has no answer" for every G of the full fragment in which no `!` is written (conjunctions, disjunctions, nested
    negations, `time`, calls of predicates whose clauses may cut), over every knowledge base of the full fragment:
    asked once, G's node reports none exactly as the reference search for G runs to the empty stack, and reports σ'
    exactly as that search shows σ' as its first answer. -/
theorem inner_search_is_reference_with_cut (fo : FloatOps) (kb : KB)
    (hkb : ∀ key rs, kb.get key = some rs → ∀ r ∈ rs, r.body.isNil = true ∨ Spec.Grp.okG r.body = true)
    (G : Goal) (hp : Spec.Grp.okG G = true) (hnc : Spec.Grp.ncG G = true) (σ : Subst) (g0 g1 : Suiron.G) (hg : Spec.GOK g0) (h : Node)
    (hmk : mkNode fo.showF kb G σ g0 = .ok (h, g1)) (f : Nat) (r : Step) (hr : next fo kb f h g1 = .ok r) :
    (r.sol = none → Spec.Grp.CSteps fo kb ⟨[.goals [.g G 0] σ], g0.counter, g0.out⟩ ⟨[], r.g.counter, r.g.out⟩) ∧
    (∀ σ', r.sol = some σ' → ∃ S, Spec.Grp.CSteps fo kb ⟨[.goals [.g G 0] σ], g0.counter, g0.out⟩ ⟨.goals [] σ' :: S, r.g.counter, r.g.out⟩) := by
  obtain ⟨hsteps, hc, ho, hg1, hokn, _⟩ := Spec.Grp.mkG_steps fo kb G σ g0 h g1 [] 0 0 [] hmk hp hg
  have hrc := ((Spec.Grp.nc_all fo kb f).1 h g1 r hr (Spec.Grp.mkNode_nc fo.showF kb G σ g0 h g1 hmk hnc)).1
  obtain ⟨href, _, hat, _⟩ := (Spec.Grp.next_refines_group fo kb (Spec.Grp.okKB_of_rules kb hkb) f).1 h g1 r (Spec.Grp.grpK h 0 []) 0 0 []
    hr hokn hg1 rfl (Nat.le_refl _)
  rw [← hc, ← ho] at hsteps
  constructor
  · intro hn
    have h1 := href.1
    rw [hn] at h1
    have h2 := h1.1
    rw [hrc] at h2
    simp only [Spec.Grp.bOf, Bool.false_eq_true, if_false] at h2
    rw [hc, ho] at hsteps h2
    exact hsteps.trans h2
  · intro σ' hs
    have hd := Spec.Grp.head_done fo kb f h g1 r _ [] 0 0 [] hr rfl (Nat.le_refl _) href hat σ' hs
    rw [hrc] at hd
    simp only [Spec.Grp.kOf, Spec.Grp.hOf, Spec.Grp.bOf, Bool.false_eq_true, if_false] at hd
    rw [hc, ho] at hsteps hd
    exact ⟨_, hsteps.trans hd⟩

/-- C03 against that reference: `not(G)`, asked for the first time, answers with its own unchanged substitution set
    only if the reference search for G finitely fails, and answers none only if that search shows an answer —
    whatever the clauses G calls do with `!`. -/
theorem C03_reference_with_cut (fo : FloatOps) (kb : KB)
    (hkb : ∀ key rs, kb.get key = some rs → ∀ r ∈ rs, r.body.isNil = true ∨ Spec.Grp.okG r.body = true)
    (G : Goal) (gs : GoalList) (hp : Spec.Grp.okG G = true) (hnc : Spec.Grp.ncG G = true) (σ : Subst) (g0 g1 : Suiron.G) (hg : Spec.GOK g0) (N : Node)
    (hmk : mkNode fo.showF kb (.not (.cons G gs)) σ g0 = .ok (N, g1)) (f : Nat) (st : Step)
    (hst : next fo kb (f+1) N g1 = .ok st) :
    (st.sol = some σ ∨ st.sol = none) ∧
    (st.sol = some σ → Spec.Grp.CSteps fo kb ⟨[.goals [.g G 0] σ], g0.counter, g0.out⟩ ⟨[], st.g.counter, st.g.out⟩) ∧
    (st.sol = none → ∃ σ' S, Spec.Grp.CSteps fo kb ⟨[.goals [.g G 0] σ], g0.counter, g0.out⟩ ⟨.goals [] σ' :: S, st.g.counter, st.g.out⟩) := by
  simp only [mkNode] at hmk
  obtain ⟨m, hm, hmk⟩ := Res.bind_eq_ok.mp hmk
  cases hmk
  rw [not_once] at hst
  obtain ⟨r, hr, hst⟩ := Res.bind_eq_ok.mp hst
  cases hst
  obtain ⟨h1, h2⟩ := inner_search_is_reference_with_cut fo kb hkb G hp hnc σ g0 m.2 hg m.1 hm f r hr
  cases hs : r.sol with
  | none =>
    refine ⟨Or.inl (by simp), fun _ => h1 hs, fun hn => by simp at hn⟩
  | some σ' =>
    obtain ⟨S, hS⟩ := h2 σ' hs
    refine ⟨Or.inr (by simp), fun hn => by simp at hn, fun _ => ⟨σ', S, hS⟩⟩

/-- and as an equivalence (that machine is deterministic too) -/
theorem C03_iff_with_cut (fo : FloatOps) (kb : KB)
    (hkb : ∀ key rs, kb.get key = some rs → ∀ r ∈ rs, r.body.isNil = true ∨ Spec.Grp.okG r.body = true)
    (G : Goal) (gs : GoalList) (hp : Spec.Grp.okG G = true) (hnc : Spec.Grp.ncG G = true) (σ : Subst) (g0 g1 : Suiron.G) (hg : Spec.GOK g0) (N : Node)
    (hmk : mkNode fo.showF kb (.not (.cons G gs)) σ g0 = .ok (N, g1)) (f : Nat) (st : Step)
    (hst : next fo kb (f+1) N g1 = .ok st) :
    (st.sol = some σ ↔ ∃ c o, Spec.Grp.CSteps fo kb ⟨[.goals [.g G 0] σ], g0.counter, g0.out⟩ ⟨[], c, o⟩) ∧
    (st.sol = none ↔ ∃ σ' S c o, Spec.Grp.CSteps fo kb ⟨[.goals [.g G 0] σ], g0.counter, g0.out⟩ ⟨.goals [] σ' :: S, c, o⟩) := by
  obtain ⟨h0, h1, h2⟩ := C03_reference_with_cut fo kb hkb G gs hp hnc σ g0 g1 hg N hmk f st hst
  constructor
  · constructor
    · intro hs; exact ⟨_, _, h1 hs⟩
    · rintro ⟨c, o, hrun⟩
      rcases h0 with h0 | h0
      · exact h0
      · obtain ⟨σ', S, hrun'⟩ := h2 h0
        have := hrun.det hrun' (Or.inl rfl) (Or.inr ⟨_, _, rfl⟩)
        cases this
  · constructor
    · intro hs; obtain ⟨σ', S, hrun⟩ := h2 hs; exact ⟨σ', S, _, _, hrun⟩
    · rintro ⟨σ', S, c, o, hrun⟩
      rcases h0 with h0 | h0
      · have hrun' := h1 h0
        have := hrun.det hrun' (Or.inr ⟨_, _, rfl⟩) (Or.inl rfl)
        cases this
      · exact h0

end Suiron.C03
