/-
  C19 — canonical source text parses and prints back unchanged.

  FULL STATEMENT (kept visible): for every canonical value v (term, goal, rule) of the documented
  syntax: `parse (show v) = ok v`, and hence `show (parse (show v)) = show v`.
  PROVED HERE so far (`_partial`): the printer side —
    * a nested And/Or operand is written between parentheses exactly when the parser would
      otherwise regroup it (an Or inside anything, an And inside an And; an And inside an Or needs
      none) — `show_and_groups_or`, `show_or_keeps_and`, `show_and_groups_and`;
    * a rule prints as `head.` or `head :- body.`; a unification prints infix — `show_fact`,
      `show_rule`, `show_unify`;
  and the parser side for the token-level terms (see Props/C20.lean, whose lemmas reduce
  `parse_term (show t)` to `make_term` for atoms without blanks, integers, variables and `$_`); for INTEGERS the round
  trip is proved outright — `integers_round_trip`: every i64 prints as a text that parses back to it, alone and as an
  argument (`Lemmas/ParseInt.lean`: the model of `str::parse::<i64>` inverts `Nat.repr`, by induction on the digit loop).
  NESTED COMPLEX TERMS AND LISTS round-trip outright — `complex_terms_round_trip`, `lists_round_trip`: for every term built
  from i64 integers, atoms that are words (also with blanks between them), variables, `$_`, complex terms `fn(T1, ..., Tn)`,
  the empty list, lists `[T1, ..., Tn]` and lists with a tail variable `[T1, ..., Tn | $V]` of such terms, nested to any depth
  (`Canon d T t`, `Lemmas/RoundTrip.lean`): the printer writes the term as its canonical text, and the parser reads that text
  back as the term (by induction on the nesting, from the several-argument and several-element theorems of C20).
  FACTS round-trip too — `facts_round_trip` (`Lemmas/RoundTripFact.lean`): `fn(T1, ..., Tn).` over canonical arguments is read by
  `parse_rule` as the rule with that head and no body and printed as that text (a canonical text has no colon, so no neck).
  UNIFICATION GOALS round-trip — `unification_goals_round_trip`: `T = R` over canonical terms is read by `parse_subgoal` as the
  unification of the two terms and printed as that text (`Lemmas/CanonInfix.lean`).
  The round trip for the other terms (quoted atoms, floats, atoms with other characters), the other goals and rules with bodies is decided on every run by the
  correspondence suite (grammar stream: text rendered by the harness' own renderer must parse
  to the denoted value, print back as the same text, and re-parse to the same value; the model's
  parser AND printer are compared with the implementation's on each of these cases).
-/
import SuironVerif.Model.ParseGoal
import SuironVerif.Lemmas.ParseInt
import SuironVerif.Lemmas.RoundTrip
import SuironVerif.Lemmas.RoundTripFact
import SuironVerif.Lemmas.CanonInfix
namespace Suiron.C19
open Suiron.Parse

/-- a disjunction inside a conjunction is printed between parentheses -/
theorem show_and_groups_or (sf : UInt64 → String) (gs rest : GoalList) (s : String) (l : List String)
    (h1 : showGoal sf (.or gs) = .ok s) (h2 : showOperands sf false rest = .ok l) :
    showOperands sf false (.cons (.or gs) rest) = .ok (("(" ++ s ++ ")") :: l) := by
  simp [showOperands, h1, h2]

/-- a conjunction inside a conjunction is printed between parentheses -/
theorem show_and_groups_and (sf : UInt64 → String) (gs rest : GoalList) (s : String) (l : List String)
    (h1 : showGoal sf (.and gs) = .ok s) (h2 : showOperands sf false rest = .ok l) :
    showOperands sf false (.cons (.and gs) rest) = .ok (("(" ++ s ++ ")") :: l) := by
  simp [showOperands, h1, h2]

/-- a conjunction inside a disjunction needs none (`a, b; c`), a disjunction inside a disjunction does -/
theorem show_or_keeps_and (sf : UInt64 → String) (gs rest : GoalList) (s : String) (l : List String)
    (h1 : showGoal sf (.and gs) = .ok s) (h2 : showOperands sf true rest = .ok l) :
    showOperands sf true (.cons (.and gs) rest) = .ok (s :: l) := by
  simp [showOperands, h1, h2]

theorem show_or_groups_or (sf : UInt64 → String) (gs rest : GoalList) (s : String) (l : List String)
    (h1 : showGoal sf (.or gs) = .ok s) (h2 : showOperands sf true rest = .ok l) :
    showOperands sf true (.cons (.or gs) rest) = .ok (("(" ++ s ++ ")") :: l) := by
  simp [showOperands, h1, h2]

theorem show_fact (sf : UInt64 → String) (h : Term) : showRule sf ⟨h, .nil⟩ = .ok (Term.show sf h ++ ".") := by
  simp [showRule]

theorem show_rule (sf : UInt64 → String) (h : Term) (b : Goal) (s : String) (hb : b ≠ .nil) (hs : showGoal sf b = .ok s) :
    showRule sf ⟨h, b⟩ = .ok (Term.show sf h ++ " :- " ++ s ++ ".") := by
  simp [showRule, hb, hs]

theorem show_unify (sf : UInt64 → String) (l r : Term) :
    showGoal sf (.bip "unify" (some (.cons l (.cons r .nil)))) = .ok (Term.show sf l ++ " = " ++ Term.show sf r) := by
  simp [showGoal]

/-- INTEGERS: for every i64, the printed text parses back to the same integer term — alone, and as an argument of a
    complex term, built-in or function (`sf` is the float printer, irrelevant here). -/
theorem integers_round_trip (po : POps) (sf : UInt64 → String) (f : Nat) (i : Int) (hlo : -(2:Int)^63 ≤ i) (hhi : i < (2:Int)^63) :
    parseTerm po (f + 2) (Term.show sf (.int i)).toList = .ok (.int i) ∧
    parseArguments po (f + 3) (Term.show sf (.int i)).toList = .ok [.int i] := by
  have e : Term.show sf (.int i) = toString i := by simp [Term.show]
  rw [e]
  refine ⟨parseTerm_int po f i hlo hhi, ?_⟩
  rw [parseArguments_token po (f + 2) (int_token i), termFlags_int]
  have := makeTerm_int po (f + 1) i hlo hhi
  simp only [this, Res.bind]

/-- NESTED COMPLEX TERMS AND LISTS: a term built from integers, atoms that are words (also with blanks between them),
    variables, `$_`, complex terms, the empty list, lists and lists with a tail variable of such terms (`Canon`) is printed as
    its canonical text T, and T parses back to the term — with any fuel from 3·depth + 3 on.  (`hα`: the `is_alphabetic` of
    the `std` parameters holds of ASCII letters.) -/
theorem complex_terms_round_trip (po : POps) (sf : UInt64 → String) (hα : ∀ c, isLetter c = true → po.isAlpha c = true)
    {d : Nat} {T : Text} {t : Term} (h : Canon d T t) (f : Nat) :
    (Term.show sf t).toList = T ∧ parseTerm po (3 * d + 3 + f) T = .ok t ∧
    parseTerm po (3 * d + 3 + f) (Term.show sf t).toList = .ok t := by
  have h1 := show_canon sf h
  have h2 := parse_canon po hα h f
  exact ⟨h1, h2, by rw [h1]; exact h2⟩

/-- LISTS, stated on their own: the list of canonical elements `[T1, ..., Tn]` and the list with a tail variable
    `[T1, ..., Tn | $V]` print as these texts and parse back to the linked nodes `link_front` builds (each node counting the
    nodes from itself, the node of the tail variable flagged) -/
theorem lists_round_trip (po : POps) (sf : UInt64 → String) (hα : ∀ c, isLetter c = true → po.isAlpha c = true)
    {d : Nat} (as : List Text) (ts : List Term) (hne : as ≠ []) (hlen : as.length = ts.length)
    (hargs : ∀ (i : Nat) (h1 : i < as.length) (h2 : i < ts.length), Canon d as[i] ts[i]) (f : Nat) :
    (parseTerm po (3 * (d + 1) + 3 + f) ('[' :: joinArgs as ++ [']']) = .ok (listOf ts) ∧
      (Term.show sf (listOf ts)).toList = '[' :: joinArgs as ++ [']']) ∧
    ∀ name, Word name →
      (parseTerm po (3 * (d + 1) + 3 + f) ('[' :: tailInner as name ++ [']']) = .ok (tailListOf (.var 0 (str ('$' :: name))) ts) ∧
        (Term.show sf (tailListOf (.var 0 (str ('$' :: name))) ts)).toList = '[' :: tailInner as name ++ [']']) := by
  refine ⟨⟨parse_canon po hα (Canon.list d as ts hne hlen hargs) f, show_canon sf (Canon.list d as ts hne hlen hargs)⟩, ?_⟩
  intro name hn
  exact ⟨parse_canon po hα (Canon.tlist d as ts name hne hlen hargs hn) f, show_canon sf (Canon.tlist d as ts name hne hlen hargs hn)⟩

/-- FACTS of any arity ≥ 1 over canonical arguments: `fn(T1, ..., Tn).` is read by `parse_rule` as the rule with that head and no
    body, and the rule is printed as that text -/
theorem facts_round_trip (po : POps) (sf : UInt64 → String) (hα : ∀ c, isLetter c = true → po.isAlpha c = true)
    {d : Nat} {fn : Text} {as : List Text} {ts : List Term} (hf : Word fn) (hne : as ≠ []) (hlen : as.length = ts.length)
    (hargs : ∀ (i : Nat) (h1 : i < as.length) (h2 : i < ts.length), Canon d as[i] ts[i])
    (hfun : funPrefix (fn ++ '(' :: joinArgs as ++ [')']) = false)
    (hsize : fn.length + (joinArgs as).length + 2 ≤ 1000) (f : Nat) :
    let t : Term := .cplx (.cons (.atom (str fn)) (TermList.ofList ts))
    let T : Text := fn ++ '(' :: joinArgs as ++ [')']
    parseRule po (3 * d + 3 + f) (T ++ ['.']) = .ok ⟨t, .nil⟩ ∧
    showRule sf ⟨t, .nil⟩ = .ok (Term.show sf t ++ ".") ∧ (Term.show sf t ++ ".").toList = T ++ ['.'] := by
  intro t T
  refine ⟨parseRule_fact po hα hf hne hlen hargs hfun hsize f, show_fact sf t, ?_⟩
  have := show_canon sf (Canon.cplx d fn as ts hf hne hlen hargs hfun hsize)
  show (Term.show sf (.cplx (.cons (.atom (str fn)) (TermList.ofList ts))) ++ ".").toList = (fn ++ '(' :: joinArgs as ++ [')']) ++ ['.']
  rw [String.toList_append, this]
  rfl

/-- FACTS WITHOUT ARGUMENTS: `fn().` is read as the rule whose head is the functor alone, and printed as that text; as a term,
    `fn()` is canonical too (`Canon.zero`) and may stand wherever a term stands -/
theorem zero_arity_facts_round_trip (po : POps) (sf : UInt64 → String) {fn : Text} (hf : Word fn) (hsize : fn.length + 2 ≤ 1000)
    (hfun : funPrefix (fn ++ ['(', ')']) = false) (f : Nat) :
    let t : Term := .cplx (.cons (.atom (str fn)) .nil)
    parseRule po f (fn ++ ['(', ')'] ++ ['.']) = .ok ⟨t, .nil⟩ ∧
    showRule sf ⟨t, .nil⟩ = .ok (Term.show sf t ++ ".") ∧ (Term.show sf t ++ ".").toList = fn ++ ['(', ')'] ++ ['.'] := by
  intro t
  refine ⟨parseRule_fact_zero po hf hsize hfun f, show_fact sf t, ?_⟩
  have := show_canon sf (Canon.zero 0 fn hf hsize hfun)
  show (Term.show sf (.cplx (.cons (.atom (str fn)) .nil)) ++ ".").toList = fn ++ ['(', ')'] ++ ['.']
  rw [String.toList_append, this]
  rfl

/-- UNIFICATION GOALS: for canonical terms `T` and `R` the goal text `T = R` is read by `parse_subgoal` as the unification of
    the two terms, and that goal is printed as the same text -/
theorem unification_goals_round_trip (po : POps) (sf : UInt64 → String) (hα : ∀ c, isLetter c = true → po.isAlpha c = true)
    {d : Nat} {T R : Text} {t r : Term} (hT : Canon d T t) (hR : Canon d R r) (f : Nat) :
    let g : Goal := .bip "unify" (some (.cons t (.cons r .nil)))
    parseSubgoal po (3 * d + 3 + f + 1) (T ++ ' ' :: '=' :: ' ' :: R) = .ok g ∧
    showGoal sf g = .ok (Term.show sf t ++ " = " ++ Term.show sf r) ∧
    (Term.show sf t ++ " = " ++ Term.show sf r).toList = T ++ ' ' :: '=' :: ' ' :: R := by
  intro g
  have hIR := canon_inv hR
  refine ⟨?_, show_unify sf t r, ?_⟩
  · rw [canon_as_infix_operand po hα hT f hIR.trimmed hIR.nonempty, parse_canon po hα hR f]
    rfl
  · simp only [String.toList_append, show_canon sf hT, show_canon sf hR]
    have : " = ".toList = [' ', '=', ' '] := rfl
    rw [this]; simp

/-- non-vacuity: `loves(Ann, friend($X, -42))` is canonical, two levels deep -/
example : Canon 2 "loves(Ann, friend($X, -42))".toList
    (.cplx (.cons (.atom "loves") (.cons (.atom "Ann") (.cons (.cplx (.cons (.atom "friend") (.cons (.var 0 "$X") (.cons (.int (-42)) .nil)))) .nil)))) := by
  have inner : Canon 1 "friend($X, -42)".toList (.cplx (.cons (.atom "friend") (.cons (.var 0 "$X") (.cons (.int (-42)) .nil)))) :=
    Canon.cplx 0 "friend".toList ["$X".toList, "-42".toList] [.var 0 "$X", .int (-42)] ⟨by decide, by decide⟩ (by simp) rfl
      (by
        intro i h1 h2
        match i, h1, h2 with
        | 0, _, _ => exact Canon.var 0 "X".toList ⟨by decide, by decide⟩
        | 1, _, _ => exact Canon.int 0 (-42) (by decide) (by decide))
      (by decide) (by decide)
  exact Canon.cplx 1 "loves".toList ["Ann".toList, "friend($X, -42)".toList]
    [.atom "Ann", .cplx (.cons (.atom "friend") (.cons (.var 0 "$X") (.cons (.int (-42)) .nil)))] ⟨by decide, by decide⟩ (by simp) rfl
    (by
      intro i h1 h2
      match i, h1, h2 with
      | 0, _, _ => exact Canon.word 1 "Ann".toList ⟨by decide, by decide⟩
      | 1, _, _ => exact inner)
    (by decide) (by decide)

/-- non-vacuity: `route([New York, [], $_ | $Rest])` — a complex term holding a list with a tail variable whose elements are an
    atom with a blank, the empty list and the anonymous variable -/
example : Canon 2 "route([New York, [], $_ | $Rest])".toList
    (.cplx (.cons (.atom "route") (.cons (tailListOf (.var 0 "$Rest") [.atom "New York", Term.empty, .anon]) .nil))) := by
  have inner : Canon 1 "[New York, [], $_ | $Rest]".toList (tailListOf (.var 0 "$Rest") [.atom "New York", Term.empty, .anon]) :=
    Canon.tlist 0 ["New York".toList, "[]".toList, "$_".toList] [.atom "New York", Term.empty, .anon] "Rest".toList (by simp) rfl
      (by
        intro i h1 h2
        match i, h1, h2 with
        | 0, _, _ => exact Canon.phrase 0 "New York".toList ⟨by decide, ⟨'N', "ew York".toList, rfl, by decide⟩, by decide⟩
        | 1, _, _ => exact Canon.elist 0
        | 2, _, _ => exact Canon.anon 0)
      ⟨by decide, by decide⟩
  exact Canon.cplx 1 "route".toList ["[New York, [], $_ | $Rest]".toList] [tailListOf (.var 0 "$Rest") [.atom "New York", Term.empty, .anon]]
    ⟨by decide, by decide⟩ (by simp) rfl
    (by
      intro i h1 h2
      match i, h1, h2 with
      | 0, _, _ => exact inner)
    (by decide) (by decide)

/-- non-vacuity: the smallest and the largest i64 -/
example : -(2:Int)^63 ≤ -9223372036854775808 ∧ (-9223372036854775808 : Int) < (2:Int)^63 := by decide
example : -(2:Int)^63 ≤ 9223372036854775807 ∧ (9223372036854775807 : Int) < (2:Int)^63 := by decide

/-! non-vacuity: concrete bodies with a disjunction inside a conjunction and a conjunction inside a
    disjunction parse to the grouped values (kernel-evaluated). That the printer writes them back as the
    same text is checked on every run by the grammar stream of the correspondence suite (the printer
    builds `String`s, which the kernel cannot evaluate in reasonable space). -/
def po0 : POps := ⟨fun _ => none, fun c => ('a'.toNat ≤ c.toNat && c.toNat ≤ 'z'.toNat) || ('A'.toNat ≤ c.toNat && c.toNat ≤ 'Z'.toNat)⟩
example : generateGoal po0 12 "(g; h), c".toList =
    .ok (.and (.cons (.or (.cons (.call (.cplx (.cons (.atom "g") .nil))) (.cons (.call (.cplx (.cons (.atom "h") .nil))) .nil)))
              (.cons (.call (.cplx (.cons (.atom "c") .nil))) .nil))) := by decide +kernel
example : generateGoal po0 12 "a, b; c".toList =
    .ok (.or (.cons (.and (.cons (.call (.cplx (.cons (.atom "a") .nil))) (.cons (.call (.cplx (.cons (.atom "b") .nil))) .nil)))
             (.cons (.call (.cplx (.cons (.atom "c") .nil))) .nil))) := by decide +kernel

end Suiron.C19
