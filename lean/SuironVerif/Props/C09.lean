/-
  C09 — the anonymous variable matches anything and never binds.
  Property theorems only (helper lemmas live in Lemmas/).
-/
import SuironVerif.Lemmas.UnifyInv
namespace Suiron.C09

/-- `$_ = t` succeeds for every term and leaves the substitution set as it was. -/
theorem anon_left (fo : FloatOps) (f : Nat) (t : Term) (σ : Subst) :
    unify fo (f+1) .anon t σ = .ok σ := by
  unfold unify
  by_cases h1 : Term.beq .anon t <;> simp [h1]

/-- `t = $_` succeeds for every term (an unbound variable included) and
    leaves the substitution set as it was. -/
theorem anon_right (fo : FloatOps) (f : Nat) (t : Term) (σ : Subst) :
    unify fo (f+1) t .anon σ = .ok σ := by
  unfold unify
  by_cases h1 : Term.beq t .anon <;> simp [h1, Term.isAnon]

/-- in particular a variable unified with `$_` stays unbound. -/
theorem var_stays_unbound (fo : FloatOps) (f : Nat) (i : Nat) (n : String) (σ σ' : Subst)
    (hu : σ.get i = none) (h : unify fo (f+1) (.var i n) .anon σ = .ok σ') : σ'.get i = none := by
  rw [anon_right] at h; cases h; exact hu

/-- "later unifications behave as if `$_` had never been seen". -/
theorem as_if_unseen (fo : FloatOps) (f g : Nat) (x t : Term) (σ : Subst) :
    (unify fo (f+1) x .anon σ).bind (fun σ' => unify fo g x t σ') = unify fo g x t σ := by
  rw [anon_right]; rfl

/-- an argument position holding `$_` on the left contributes nothing. -/
theorem arg_skip_left (fo : FloatOps) (f : Nat) (b : Term) (as bs : TermList) (cur acc : Subst) :
    unifyArgs fo (f+1) (.cons .anon as) (.cons b bs) cur acc = unifyArgs fo f as bs cur acc := by
  simp [unifyArgs, Term.isAnon]

/-- an argument position holding `$_` on the right contributes nothing. -/
theorem arg_skip_right (fo : FloatOps) (f : Nat) (a : Term) (as bs : TermList) (cur acc : Subst) :
    unifyArgs fo (f+1) (.cons a as) (.cons .anon bs) cur acc = unifyArgs fo f as bs cur acc := by
  simp only [unifyArgs]
  by_cases h : a.isAnon <;> simp [Term.isAnon]

/-- a list element `$_` (left) matches whatever element faces it; nothing is bound. -/
theorem elem_skip_left (fo : FloatOps) (f : Nat) (tn ot on : Term) (c c' : Nat) (cur : Subst) :
    unifyList fo (f+2) (.cons .anon tn c false) (.cons ot on c' false) cur = unifyList fo (f+1) tn on cur := by
  simp only [unifyList, Term.isNil, anon_left]
  simp

/-- a list element `$_` (right) matches whatever element faces it; nothing is bound. -/
theorem elem_skip_right (fo : FloatOps) (f : Nat) (tt tn on : Term) (c c' : Nat) (cur : Subst) :
    unifyList fo (f+2) (.cons tt tn c false) (.cons .anon on c' false) cur = unifyList fo (f+1) tn on cur := by
  simp only [unifyList, Term.isNil, anon_right]
  simp

/-- a tail `| $_` (left) matches any remaining list; nothing is bound. -/
theorem tail_skip_left (fo : FloatOps) (f : Nat) (tn ot on : Term) (c c' : Nat) (otv : Bool) (cur : Subst) :
    unifyList fo (f+2) (.cons .anon tn c true) (.cons ot on c' otv) cur = .ok cur := by
  simp only [unifyList, Term.isNil]
  cases otv <;> simp [anon_left, Term.isAnon]

/-- a tail `| $_` (right) matches any remaining list; nothing is bound. -/
theorem tail_skip_right (fo : FloatOps) (f : Nat) (tt tn on : Term) (c c' : Nat) (ttv : Bool) (cur : Subst) :
    unifyList fo (f+2) (.cons tt tn c ttv) (.cons .anon on c' true) cur = .ok cur := by
  simp only [unifyList, Term.isNil]
  cases ttv <;> simp [anon_left, Term.isAnon]

/-- no variable is bound to `$_` itself. -/
def NoAnonBound (σ : Subst) : Prop := ∀ i, σ.get i ≠ some .anon

/-- no successful unification, whatever the operands, ever binds a variable to `$_`. -/
theorem never_bound (fo : FloatOps) (f : Nat) (a b : Term) (σ σ' : Subst)
    (h : unify fo f a b σ = .ok σ') (hσ : NoAnonBound σ) : NoAnonBound σ' := by
  have key := (unify_inv_all fo NoAnonBound (by intro i; simp [Subst.get_nil]) ?_ f).1 a b σ σ' h hσ
  · exact key
  · intro σ id b hP hb i
    by_cases hi : i = id
    · subst hi; rw [Subst.get_bind_self]
      intro hc; cases hc; have := hb.notAnon; simp [Term.isAnon] at this
    · rw [Subst.get_bind_other _ _ _ _ hi]; exact hP i

/-! Non-vacuity: concrete runs of the model (closed terms, evaluated by the kernel). -/
def fo0 : FloatOps := ⟨fun a _ => a, fun a _ => a, fun a _ => a, fun a _ => a, fun _ => 0, fun _ => ""⟩

-- `$X = $_` on the empty set: succeeds, binds nothing
example : unify fo0 3 (.var 1 "$X") .anon [] = .ok [] := by decide
-- `f($_, $Y) = f(a, b)` binds only `$Y`
example : unify fo0 6 (.cplx (.cons (.atom "f") (.cons .anon (.cons (.var 2 "$Y") .nil))))
                     (.cplx (.cons (.atom "f") (.cons (.atom "a") (.cons (.atom "b") .nil)))) []
          = .ok [none, none, some (.atom "b")] := by decide
-- the hypothesis of `never_bound` is met by the empty set
example : NoAnonBound [] := by intro i; simp [Subst.get_nil]

end Suiron.C09
