/-
  C16 — append concatenates the elements of its arguments.
-/
import SuironVerif.Lemmas.Lists
namespace Suiron.C16

/-- the inputs are processed left to right and their contributions (`contribution`: the elements
    of a list — continuing through a bound tail variable —, the value of a bound variable, the
    argument itself otherwise, nothing for an unbound variable) are concatenated. -/
theorem collect_cons (f : Nat) (σ : Subst) (t : Term) (ts : List Term) :
    appendCollect f σ (t :: ts) =
      (contribution f σ t).bind fun here => (appendCollect f σ ts).bind fun rest => .ok (here ++ rest) := rfl

theorem collect_nil (f : Nat) (σ : Subst) : appendCollect f σ [] = .ok [] := rfl

/-- `append(T1, …, Tn, Out)` unifies `Out` with the list built from exactly the collected
    elements (nothing spliced), under the unchanged substitution set; at most one answer
    (a built-in node is asked once, C04). -/
theorem append_spec (fo : FloatOps) (f : Nat) (ins : List Term) (out : Term) (σ : Subst) (es : List Term)
    (hne : ins ≠ []) (hc : appendCollect f σ ins = .ok es) :
    bipAppend fo f (some (ins ++ [out])) σ = optUnify fo f out (mkProper es) σ := by
  have hlen : ¬ ins.length + 1 < 2 := by
    cases ins with
    | nil => exact absurd rfl hne
    | cons a as => simp
  simp [bipAppend, hlen, hc]

/-- the built list holds exactly the collected elements, well formed, with the right length. -/
theorem append_result_elems (es : List Term) (h : NoNil es) :
    elemsOf (mkProper es) = es ∧ WFList (mkProper es) es.length := ⟨mkProper_elems es h, mkProper_wf es h⟩

/-- a non-list constant contributes itself; a variable bound to it contributes the constant. -/
theorem contribution_atom (f : Nat) (σ : Subst) (s : String) : contribution f σ (.atom s) = .ok [.atom s] := by
  simp [contribution, groundTop]
theorem contribution_bound (f : Nat) (σ : Subst) (i : Nat) (n s : String) (h : walk f σ (.var i n) = .ok (some (.atom s))) :
    contribution f σ (.var i n) = .ok [.atom s] := by
  simp [contribution, groundTop, h]

/-- the traversal visits one cell per step. -/
theorem listHeads_proper (σ : Subst) : ∀ (es : List Term), NoNil es → ∀ (e : Term), e.isNil = false → ∀ f, f ≥ es.length + 2 →
    listHeads true f σ e (mkProper es) = .ok (e :: es)
  | [], _, e, he, f, hf => by
    match f, hf with
    | f+2, _ =>
      have hn : Term.nil.isNil = true := rfl
      simp [listHeads, he, mkProper, Term.empty, hn]
  | x :: xs, hx, e, he, f, hf => by
    have hxn : x.isNil = false := hx x (by simp)
    have hxs : NoNil xs := fun z hz => hx z (by simp [hz])
    match f, hf with
    | f+1, hf =>
      simp only [listHeads, he, mkProper]
      simp
      rw [listHeads_proper σ xs hxs x hxn f (by simp at hf; omega)]
      rfl

/-- a literal list without tail variable contributes its elements, a nested list being ONE of them. -/
theorem getTerms_proper (e : Term) (es : List Term) (h : NoNil (e :: es)) (σ : Subst) (f : Nat) (hf : f ≥ es.length + 3) :
    getTerms f σ (mkProper (e :: es)) = .ok (e :: es) := by
  have he : e.isNil = false := h e (by simp)
  have hes : NoNil es := fun z hz => h z (by simp [hz])
  match f, hf with
  | f+1, hf =>
    simp [getTerms, walk, mkProper]
    exact listHeads_proper σ es hes e he (f+1) (by omega)

def fo0 : FloatOps := ⟨fun a _ => a, fun a _ => a, fun a _ => a, fun a _ => a, fun _ => 0, fun _ => ""⟩
-- append(a, [[b, c]], $X): the nested list stays one element (the pinned tree gave [a, b, c])
example : bipAppend fo0 20 (some [.atom "a", mkProper [mkProper [.atom "b", .atom "c"]], .var 1 "$X"]) []
        = .ok (some [none, some (mkProper [.atom "a", mkProper [.atom "b", .atom "c"]])]) := by decide
-- append([a, b | $T], e, $X) with $T = [c, d]: the bound tail is followed
example : bipAppend fo0 20 (some [.cons (.atom "a") (.cons (.atom "b") (.cons (.var 2 "$T") Term.empty 1 true) 2 false) 3 false, .atom "e", .var 1 "$X"])
            [none, none, some (mkProper [.atom "c", .atom "d"])]
        = .ok (some [none, some (mkProper [.atom "a", .atom "b", .atom "c", .atom "d", .atom "e"]), some (mkProper [.atom "c", .atom "d"])]) := by decide

end Suiron.C16
