/-
  C23 — solve / solve_all report real answers or a timeout, never wrong ones.

  The timer thread is one nondeterministic choice in the model: the tick (`fireAt`) at which its
  write to the stop flag lands, or never.  What the model cannot exhibit — that the real thread
  writes only after >= 1 s, and that `cancel_timer` really prevents a later write — is exercised,
  not proved, by the real-timer runs of the timer suite (see DESIGN.md §5.23).
-/
import SuironVerif.Lemmas.GInv
namespace Suiron.C23

/-- the stop flag is only ever set, never cleared, by a request. -/
theorem stop_monotone (fo : FloatOps) (kb : KB) (f : Nat) (n : Node) (g : G) (st : Step)
    (h : next fo kb f n g = .ok st) (hs : g.stop = true) : st.g.stop = true := by
  refine (ginv_all fo kb (fun g => g.stop = true) ⟨?_, ?_, ?_⟩ f).1 n g st h hs
  · intro g s h; unfold G.emit; split <;> simpa using h
  · intro g c h; simpa using h
  · intro g key h; unfold countRules; simp [h]

/-- when no timer write is pending, no request sets the stop flag. -/
theorem no_spontaneous_stop (fo : FloatOps) (kb : KB) (f : Nat) (n : Node) (g : G) (st : Step)
    (h : next fo kb f n g = .ok st) (hs : g.stop = false) (hf : g.fireAt = none) :
    st.g.stop = false ∧ st.g.fireAt = none := by
  refine (ginv_all fo kb (fun g => g.stop = false ∧ g.fireAt = none) ⟨?_, ?_, ?_⟩ f).1 n g st h ⟨hs, hf⟩
  · intro g s h; unfold G.emit; split <;> simpa using h
  · intro g c h; simpa using h
  · intro g key h; unfold countRules; simp [h.1, h.2]
    split <;> simp [h.1, h.2]

/-- a stopped search sees no rules: every predicate has 0 clauses. -/
theorem stopped_counts_zero (kb : KB) (key : String) (g : G) (h : g.stop = true) : (countRules kb key g).1 = 0 := by
  unfold countRules; simp [h]

/-- `solve` returns the timeout message exactly when the flag is set on return; otherwise
    "No more." when the engine has no further answer, and otherwise the formatted next answer. -/
theorem solve_spec (fo : FloatOps) (kb : KB) (f : Nat) (q : Term) (node : Node) (g : G) (fire : Option Nat)
    (st : Step) (h : next fo kb f node (startTimer g fire) = .ok st) :
    solve fo kb f q node g fire =
      if st.g.stop then .ok (timeoutMsg, st.node, cancelTimer st.g)
      else match st.sol with
        | none => .ok (noMore, st.node, cancelTimer st.g)
        | some σ => (resolve f σ q).bind fun r => .ok (formatSolution fo.showF q r, st.node, cancelTimer st.g) := by
  simp only [solve, h, cancelTimer, Res.bind_ok]
  by_cases hs : st.g.stop = true <;> simp [hs]
  cases st.sol <;> rfl

/-- a search during which the timer never fires is never reported as timed out (solve). -/
theorem solve_never_early (fo : FloatOps) (kb : KB) (f : Nat) (q : Term) (node : Node) (g : G)
    (s : String) (node' : Node) (g' : G) (h : solve fo kb f q node g none = .ok (s, node', g')) (hq : ∀ σ r, resolve f σ q = .ok r → formatSolution fo.showF q r ≠ timeoutMsg) :
    s ≠ timeoutMsg := by
  simp only [solve] at h
  obtain ⟨st, hst, h⟩ := Res.bind_eq_ok.mp h
  have hns := no_spontaneous_stop fo kb f node (startTimer g none) st hst rfl rfl
  simp [cancelTimer, hns.1] at h
  cases hsol : st.sol with
  | none => simp [hsol] at h; rw [← h.1]; decide
  | some σ =>
    simp [hsol] at h
    obtain ⟨r, hr, h⟩ := Res.bind_eq_ok.mp h
    cases h; exact hq σ r hr

/-- the loop of `solve_all` only ever appends formatted answers found while the flag was clear. -/
theorem solveAllLoop_extends (fo : FloatOps) (kb : KB) (f : Nat) (q : Term) : ∀ (k : Nat) (node : Node) (g : G) (acc res : List String) (node' : Node) (g' : G),
    solveAllLoop fo kb f q k node g acc = .ok (res, node', g') → ∃ more, res = acc ++ more
  | 0, _, _, _, _, _, _, h => by simp [solveAllLoop] at h
  | k+1, node, g, acc, res, node', g', h => by
    simp only [solveAllLoop] at h
    obtain ⟨st, _, h⟩ := Res.bind_eq_ok.mp h
    by_cases hs : st.g.stop = true
    · simp [hs] at h; exact ⟨[], by simp [h.1]⟩
    · simp [hs] at h
      cases hsol : st.sol with
      | none => simp [hsol] at h; exact ⟨[], by simp [h.1]⟩
      | some σ =>
        simp [hsol] at h
        obtain ⟨r, _, h⟩ := Res.bind_eq_ok.mp h
        obtain ⟨more, hm⟩ := solveAllLoop_extends fo kb f q k st.node st.g _ res node' g' h
        exact ⟨formatSolution fo.showF q r :: more, by simp [hm]⟩

/-- `solve_all` = the answers collected by the loop, followed by the timeout message exactly when
    the flag is set at the end. -/
theorem solveAll_spec (fo : FloatOps) (kb : KB) (f k : Nat) (q : Term) (node : Node) (g : G) (fire : Option Nat)
    (res : List String) (node' : Node) (g1 : G) (h : solveAllLoop fo kb f q k node (startTimer g fire) [] = .ok (res, node', g1)) :
    solveAll fo kb f k q node g fire = .ok (if g1.stop then res ++ [timeoutMsg] else res, node', cancelTimer g1) := by
  simp only [solveAll, h, cancelTimer, Res.bind_ok]
  by_cases hs : g1.stop = true <;> simp [hs]

/-- the loop keeps "no pending timer write, flag clear". -/
theorem solveAllLoop_no_stop (fo : FloatOps) (kb : KB) (f : Nat) (q : Term) : ∀ (k : Nat) (node : Node) (g : G) (acc res : List String) (node' : Node) (g' : G),
    solveAllLoop fo kb f q k node g acc = .ok (res, node', g') → g.stop = false → g.fireAt = none → g'.stop = false
  | 0, _, _, _, _, _, _, h, _, _ => by simp [solveAllLoop] at h
  | k+1, node, g, acc, res, node', g', h, hs, hf => by
    simp only [solveAllLoop] at h
    obtain ⟨st, hst, h⟩ := Res.bind_eq_ok.mp h
    have hns := no_spontaneous_stop fo kb f node g st hst hs hf
    simp [hns.1] at h
    cases hsol : st.sol with
    | none => simp [hsol] at h; rw [← h.2.2]; exact hns.1
    | some σ =>
      simp [hsol] at h
      obtain ⟨r, _, h⟩ := Res.bind_eq_ok.mp h
      exact solveAllLoop_no_stop fo kb f q k st.node st.g _ res node' g' h hns.1 hns.2

/-- a search during which the timer never fires is never reported as timed out (solve_all):
    the result is exactly the list of collected answers. -/
theorem solveAll_never_early (fo : FloatOps) (kb : KB) (f k : Nat) (q : Term) (node : Node) (g : G)
    (res : List String) (node' : Node) (g1 : G) (h : solveAllLoop fo kb f q k node (startTimer g none) [] = .ok (res, node', g1)) :
    solveAll fo kb f k q node g none = .ok (res, node', cancelTimer g1) := by
  rw [solveAll_spec fo kb f k q node g none res node' g1 h]
  have := solveAllLoop_no_stop fo kb f q k node (startTimer g none) [] res node' g1 h rfl rfl
  simp [this]

end Suiron.C23
