/-
  C15 — engine-built lists hold exactly their elements.
-/
import SuironVerif.Lemmas.Lists
namespace Suiron.C15

/-- lists built by append / include / exclude (and by the list parser, which links the same
    nodes front to back) hold exactly the given elements, in order: a list-valued or empty-list
    element stays ONE element. -/
theorem built_list_elems (es : List Term) (h : NoNil es) : elemsOf (mkProper es) = es ∧ tailOf (mkProper es) = none :=
  ⟨mkProper_elems es h, mkProper_tail es h⟩

/-- they are well formed and the recorded length is the number of elements. -/
theorem built_list_wf (es : List Term) (h : NoNil es) : WFList (mkProper es) es.length := mkProper_wf es h

/-- the documented constructor, ordinary case: the last term is neither a list nor a tail variable:
    the list holds exactly the given terms. -/
theorem constructor_plain (t0 : Term) (mid : List Term) (x : Term)
    (h0 : t0.isNil = false) (hm : NoNil mid) (hx : x.isNil = false) (hl : x.isCons = false) :
    elemsOf (mkList false (t0 :: (mid ++ [x]))) = t0 :: (mid ++ [x]) ∧ tailOf (mkList false (t0 :: (mid ++ [x]))) = none := by
  have hi : mkInit false x = (.cons x Term.empty 1 false, 2, false) := by
    cases x <;> simp_all [mkInit, Term.isNil, Term.isCons]
  rw [mkList_unfold, hi]
  have hf : ((Term.cons x Term.empty 1 false, 2, false) : Acc).2.2 = false := rfl
  constructor
  · simp only [elemsOf, h0, foldr_flag mid _ hf]
    rw [foldr_elems mid _ hm hf]
    have hn : Term.nil.isNil = true := rfl
    simp [elemsOf, hx, Term.empty, hn]
  · simp only [tailOf, h0, foldr_flag mid _ hf]
    rw [foldr_tail mid _ hm hf]
    have hn : Term.nil.isNil = true := rfl
    simp [tailOf, hx, Term.empty, hn]

/-- a trailing tail variable (vertical-bar flag set) becomes the tail, the other terms the elements. -/
theorem constructor_tail (t0 : Term) (mid : List Term) (v : Term)
    (h0 : t0.isNil = false) (hm : NoNil mid) (hv : v.isNil = false) (hl : v.isCons = false) :
    elemsOf (mkList true (t0 :: (mid ++ [v]))) = t0 :: mid ∧ tailOf (mkList true (t0 :: (mid ++ [v]))) = some v := by
  have hi : mkInit true v = (.cons v Term.empty 1 true, 2, false) := by
    cases v <;> simp_all [mkInit, Term.isNil, Term.isCons]
  rw [mkList_unfold, hi]
  have hf : ((Term.cons v Term.empty 1 true, 2, false) : Acc).2.2 = false := rfl
  constructor
  · simp only [elemsOf, h0, foldr_flag mid _ hf]
    rw [foldr_elems mid _ hm hf]
    simp [elemsOf, hv]
  · simp only [tailOf, h0, foldr_flag mid _ hf]
    rw [foldr_tail mid _ hm hf]
    simp [tailOf, hv]

/-- a trailing list is spliced in as the rest of the list (as `[a | [b, c]]`). -/
theorem constructor_splice (vbar : Bool) (t0 : Term) (mid : List Term) (t n : Term) (c : Nat) (tf : Bool)
    (h0 : t0.isNil = false) (hm : NoNil mid) (ht : t.isNil = false) :
    elemsOf (mkList vbar (t0 :: (mid ++ [.cons t n c tf]))) = t0 :: (mid ++ elemsOf (.cons t n c tf)) ∧
    tailOf (mkList vbar (t0 :: (mid ++ [.cons t n c tf]))) = tailOf (.cons t n c tf) := by
  have hi : mkInit vbar (.cons t n c tf) = (.cons t n c tf, c + 1, false) := by simp [mkInit, ht]
  rw [mkList_unfold, hi]
  have hf : ((Term.cons t n c tf, c + 1, false) : Acc).2.2 = false := rfl
  constructor
  · simp only [elemsOf, h0, foldr_flag mid _ hf]
    rw [foldr_elems mid _ hm hf]
    simp [elemsOf]
  · simp only [tailOf, h0, foldr_flag mid _ hf]
    rw [foldr_tail mid _ hm hf]
    simp [tailOf]

/-- a trailing EMPTY list is spliced in as an empty rest: the result ends in the empty node
    (the pinned tree ended it with `Nil`). -/
theorem constructor_splice_empty (vbar : Bool) (t0 : Term) (mid : List Term)
    (h0 : t0.isNil = false) (hm : NoNil mid) :
    elemsOf (mkList vbar (t0 :: (mid ++ [Term.empty]))) = t0 :: mid := by
  have hi : mkInit vbar Term.empty = (Term.empty, 1, false) := by simp [mkInit, Term.empty, Term.isNil]
  rw [mkList_unfold, hi]
  have hf : ((Term.empty, 1, false) : Acc).2.2 = false := rfl
  simp only [elemsOf, h0, foldr_flag mid _ hf]
  rw [foldr_elems mid _ hm hf]
  simp [elemsOf, Term.empty, Term.isNil]

/-- the recorded length of a constructed list is the number of its cells. -/
theorem constructor_count (vbar : Bool) (t0 : Term) (mid : List Term) (x : Term) :
    ∃ a b tv, mkList vbar (t0 :: (mid ++ [x])) = .cons a b ((mkInit vbar x).2.1 + mid.length) tv := by
  rw [mkList_unfold]; exact ⟨_, _, _, by rw [foldr_count]⟩

/-- renaming a clause keeps every list cell: same recorded length, same tail marker; the empty
    list stays the empty list (the pinned tree rebuilt lists and mangled `[]` and nested lists). -/
theorem rename_keeps_cells (t n : Term) (c : Nat) (tv : Bool) (st : RenSt) :
    (renameTerm (.cons t n c tv) st).1 =
      .cons (renameTerm t st).1 (renameTerm n (renameTerm t st).2).1 c tv := by
  simp [renameTerm]
theorem rename_keeps_empty (st : RenSt) : renameTerm Term.empty st = (Term.empty, st) := by
  simp [renameTerm, Term.empty]

example : mkList false [.atom "a", .cons (.atom "b") (.cons (.atom "c") Term.empty 1 false) 2 false]
        = mkProper [.atom "a", .atom "b", .atom "c"] := by decide
example : mkProper [.atom "a", mkProper [.atom "b", .atom "c"]] ≠ mkProper [.atom "a", .atom "b", .atom "c"] := by decide
example : NoNil [Term.atom "a", mkProper []] := by intro e he; simp at he; rcases he with rfl | rfl <;> rfl

end Suiron.C15
