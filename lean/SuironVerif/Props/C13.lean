/-
  C13 — a function term is evaluated whichever side of `=` it is on.
-/
import SuironVerif.Model.Unify
namespace Suiron.C13

/-- the other operand is something the property speaks about: a variable, a constant,
    a complex term, a list or another function term (not `$_`, not the internal `Nil`). -/
def Operand : Term → Bool
  | .atom _ | .flt _ | .int _ | .var _ _ | .cplx _ | .cons _ _ _ _ | .func _ _ => true
  | _ => false

/-- function on the left: evaluate, then unify the value with the other operand. -/
theorem func_left (fo : FloatOps) (f : Nat) (name : String) (args : TermList) (t : Term) (σ : Subst)
    (hne : (Term.func name args).beq t = false) (ht : Operand t = true) :
    unify fo (f+1) (.func name args) t σ
      = (evalFunc fo f name args.toList σ).bind fun v => unify fo f v t σ := by
  conv => lhs; unfold unify
  cases t <;> simp_all [Operand, Term.isAnon]

/-- function on the right of a non-function operand: the call is forwarded to the function's
    side, hence the same evaluation happens. -/
theorem func_right (fo : FloatOps) (f : Nat) (name : String) (args : TermList) (t : Term) (σ : Subst)
    (hne : t.beq (.func name args) = false) (ht : Operand t = true) (hnf : t.isFunc = false)
    (hid : ∀ i n, t = .var i n → i ≠ 0) :
    unify fo (f+1) t (.func name args) σ = unify fo f (.func name args) t σ := by
  conv => lhs; unfold unify
  cases t <;> simp_all [Operand, Term.isAnon, Term.isFunc]

/-- both together: whichever side the function term is on, the outcome is that of unifying its
    value with the other operand. -/
theorem either_side (fo : FloatOps) (f : Nat) (name : String) (args : TermList) (t : Term) (σ : Subst)
    (h1 : (Term.func name args).beq t = false) (h2 : t.beq (.func name args) = false)
    (ht : Operand t = true) (hnf : t.isFunc = false) (hid : ∀ i n, t = .var i n → i ≠ 0) :
    unify fo (f+2) t (.func name args) σ = unify fo (f+1) (.func name args) t σ ∧
    unify fo (f+1) (.func name args) t σ = (evalFunc fo f name args.toList σ).bind fun v => unify fo f v t σ :=
  ⟨func_right fo (f+1) name args t σ h2 ht hnf hid, func_left fo f name args t σ h1 ht⟩

/-- two function terms: the left one is evaluated first, then its value meets the right one,
    which is evaluated in turn (`func_right` applies to the value, a constant). -/
theorem func_func (fo : FloatOps) (f : Nat) (n1 n2 : String) (a1 a2 : TermList) (σ : Subst)
    (hne : (Term.func n1 a1).beq (.func n2 a2) = false) :
    unify fo (f+1) (.func n1 a1) (.func n2 a2) σ
      = (evalFunc fo f n1 a1.toList σ).bind fun v => unify fo f v (.func n2 a2) σ :=
  func_left fo f n1 a1 _ σ hne rfl

def fo0 : FloatOps := ⟨fun a _ => a, fun a _ => a, fun a _ => a, fun a _ => a, fun _ => 0, fun _ => ""⟩
def add12 : Term := .func "add" (.cons (.int 1) (.cons (.int 2) .nil))
-- `3 = add(1, 2)` and `add(1, 2) = 3` both succeed; `4 = add(1, 2)` fails (the pinned tree failed all right-hand forms)
example : unify fo0 8 (.int 3) add12 [] = .ok [] := by decide
example : unify fo0 8 add12 (.int 3) [] = .ok [] := by decide
example : unify fo0 8 (.int 4) add12 [] = .fail := by decide
example : unify fo0 8 (.var 1 "$X") add12 [] = .ok [none, some (.int 3)] := by decide

end Suiron.C13
