/-
  C06 — unification returns a most general unifier extending prior bindings.

  The first-order reading of terms and substitution sets is `Spec/FOSubst.lean` (`abs`, `FO.subst`,
  `Solves θ σ`, `Unifies θ a b`); `goodT` = function-free, no NaN, no bare `Nil`, well-formed lists.
  PROVED, for all terms, substitution sets, candidate unifiers θ and fuel:
    * E  `unify_extends`            every earlier binding is kept verbatim;
    * G  `unify_general`            every unifier of a, b that validates σ also validates the result
                                    (the result binds no more than a most general unifier does);
    * C  `unify_no_false_failure`   if some unifier of a, b validates σ, unification does not report
                                    failure (it succeeds, or — occurs-check situations, outside the claim
                                    — does not return);
    *    `unify_keeps_wf`           the result set is well formed again, so the theorems chain over
                                    sequences of unifications.
    * S  `unify_sound`              (anonymous-variable-free operands) every θ that validates the result
                                    unifies a and b, and the result extends σ;
    *    `unify_mgu`                hence: the substitutions that validate the result are EXACTLY the
                                    unifiers of a, b that validate σ — the algorithm-independent meaning of
                                    "the result is a most general unifier extending the prior bindings".
  What remains outside the theorems: that a validating θ exists for the result at all (it does unless
  the pair needs an occurs check, which the property excludes; constructing it needs the acyclicity of
  the result), terms containing `$_` in the S direction (C09 covers `$_`), and termination (fuel).
  All of it is decided on every run by the reference unifier of the harness (random sequences + all
  ordered pairs of a 60-term universe under 10 prior sets).
-/
import SuironVerif.Lemmas.UnifyWF
import SuironVerif.Lemmas.UnifyMgu
import SuironVerif.Lemmas.FuelMono
namespace Suiron.C06

/-- (E) a successful unification keeps every earlier binding. -/
theorem unify_extends (fo : FloatOps) (f : Nat) (a b : Term) (σ σ' : Subst)
    (ha : a.FOK = true) (hb : b.FOK = true) (hσ : Subst.FOK σ)
    (h : unify fo f a b σ = .ok σ') : ∀ i t, σ.get i = some t → σ'.get i = some t := by
  have key := (unify_inv_wf fo (fun s => ∀ i t, σ.get i = some t → s.get i = some t) ?_ f).1 a b σ σ' ha hb hσ h (fun _ _ h => h)
  · exact key.1
  · intro s id c hP hb i t hi
    have hne : i ≠ id := by
      intro he; subst he
      have := hP _ _ hi
      rw [hb.unbound] at this; cases this
    rw [Subst.get_bind_other _ _ _ _ hne]; exact hP _ _ hi

/-- the only new bindings are of variables that were unbound, to terms that are neither `$_` nor a function call. -/
theorem unify_result_wf (fo : FloatOps) (f : Nat) (a b : Term) (σ σ' : Subst)
    (ha : a.FOK = true) (hb : b.FOK = true) (hσ : Subst.FOK σ)
    (h : unify fo f a b σ = .ok σ') : Subst.FOK σ' :=
  ((unify_inv_wf fo (fun _ => True) (fun _ _ _ _ _ => trivial) f).1 a b σ σ' ha hb hσ h trivial).2

/-- (G) generality: the result binds no more than a most general unifier -/
theorem unify_general (fo : FloatOps) (θ : Nat → Spec.FO) (f : Nat) (a b : Term) (σ σ' : Subst)
    (h : unify fo f a b σ = .ok σ') (ha : Spec.goodT a = true) (hb : Spec.goodT b = true) (hσ : Spec.SubstGood σ)
    (hs : Spec.Solves θ σ) (hu : Spec.Unifies θ a b) : Spec.Solves θ σ' :=
  ((Spec.unify_general fo θ f).1 a b σ σ' h (Spec.goodT_FF a ha) (Spec.goodT_FF b hb) (Spec.SubstGood_FF hσ) hs hu).1

/-- (C) no false failure: when a unifier extending σ exists, `unify` does not answer "no" -/
theorem unify_no_false_failure (fo : FloatOps) (θ : Nat → Spec.FO) (f : Nat) (a b : Term) (σ : Subst)
    (ha : Spec.goodT a = true) (hb : Spec.goodT b = true) (hσ : Spec.SubstGood σ)
    (hs : Spec.Solves θ σ) (hu : Spec.Unifies θ a b) : unify fo f a b σ ≠ .fail :=
  fun h => (Spec.unify_complete fo θ f).1 a b σ h ha hb hσ hs hu

/-- well-formedness is preserved, so (E), (G), (C) apply again to the next unification -/
theorem unify_keeps_wf (fo : FloatOps) (f : Nat) (a b : Term) (σ σ' : Subst)
    (h : unify fo f a b σ = .ok σ') (ha : Spec.goodT a = true) (hb : Spec.goodT b = true) (hσ : Spec.SubstGood σ) :
    Spec.SubstGood σ' :=
  (Spec.unify_good fo f).1 a b σ σ' h ha hb hσ

/-- the contrapositive of (C), as the property words it: a reported failure means no unifier extends σ -/
theorem failure_means_no_unifier (fo : FloatOps) (f : Nat) (a b : Term) (σ : Subst)
    (ha : Spec.goodT a = true) (hb : Spec.goodT b = true) (hσ : Spec.SubstGood σ)
    (h : unify fo f a b σ = .fail) : ¬ ∃ θ : Nat → Spec.FO, Spec.Solves θ σ ∧ Spec.Unifies θ a b :=
  fun ⟨θ, hs, hu⟩ => unify_no_false_failure fo θ f a b σ ha hb hσ hs hu h

/-- (S) soundness, solution-set form: whatever validates the result unifies the operands; the result extends σ -/
theorem unify_sound (fo : FloatOps) (f : Nat) (a b : Term) (σ σ' : Subst)
    (h : unify fo f a b σ = .ok σ') (ha : Spec.goodT a = true) (hb : Spec.goodT b = true) (hσ : Spec.SubstGood σ)
    (fa : Spec.Term.AF a = true) (fb : Spec.Term.AF b = true) (fσ : Spec.SubstAF σ) :
    Spec.Extends σ σ' ∧ ∀ θ, Spec.Solves θ σ' → Spec.Unifies θ a b :=
  let r := (Spec.unify_sound fo f).1 a b σ σ' h ha hb hσ fa fb fσ
  ⟨r.1, r.2.2⟩

/-- the result of `unify a b σ` is a most general unifier of a, b extending σ: its solutions are exactly
    the unifiers of a, b among the solutions of σ -/
theorem unify_mgu (fo : FloatOps) (f : Nat) (a b : Term) (σ σ' : Subst)
    (h : unify fo f a b σ = .ok σ') (ha : Spec.goodT a = true) (hb : Spec.goodT b = true) (hσ : Spec.SubstGood σ)
    (fa : Spec.Term.AF a = true) (fb : Spec.Term.AF b = true) (fσ : Spec.SubstAF σ) (θ : Nat → Spec.FO) :
    Spec.Solves θ σ' ↔ (Spec.Solves θ σ ∧ Spec.Unifies θ a b) := by
  have hs := unify_sound fo f a b σ σ' h ha hb hσ fa fb fσ
  constructor
  · intro h1; exact ⟨h1.mono hs.1, hs.2 θ h1⟩
  · intro h1; exact unify_general fo θ f a b σ σ' h ha hb hσ h1.1 h1.2

/-- fuel is a modelling device only: whenever unification returns (a set, failure or a panic) with two fuel values, it
    returns the same — so every theorem above speaks about THE outcome of the unification. -/
theorem unify_outcome_unique (fo : FloatOps) (a b : Term) (σ : Subst) (f f' : Nat)
    (h : unify fo f a b σ ≠ .oof) (h' : unify fo f' a b σ ≠ .oof) : unify fo f a b σ = unify fo f' a b σ :=
  unify_unique fo a b σ f f' h h'

-- non-vacuity: a list pattern with a tail variable and a nested complex term are well formed
example : Spec.goodT (.cons (.var 1 "$H") (.cons (.var 2 "$T") Term.empty 1 true) 2 false) = true := by decide
example : Spec.goodT (.cplx (.cons (.atom "f") (.cons (.cons (.int 1) Term.empty 1 false) (.cons (.flt 0) .nil)))) = true := by decide
-- and a unifier exists for `[$H | $T] = [a, b]`: θ = {1 ↦ a, 2 ↦ [b]}
example : Spec.Unifies (fun i => if i = 1 then .atom "a" else if i = 2 then .lcons (.atom "b") .lnil else .var i)
    (.cons (.var 1 "$H") (.cons (.var 2 "$T") Term.empty 1 true) 2 false)
    (.cons (.atom "a") (.cons (.atom "b") Term.empty 1 false) 2 false) := by
  simp [Spec.Unifies, Spec.abs, Spec.FO.subst, Term.empty, Term.isNil]

def fo0 : FloatOps := ⟨fun a _ => a, fun a _ => a, fun a _ => a, fun a _ => a, fun _ => 0, fun _ => ""⟩
example : unify fo0 10 (.cplx (.cons (.atom "f") (.cons (.var 1 "$X") (.cons (.var 2 "$Y") .nil))))
                     (.cplx (.cons (.atom "f") (.cons (.atom "a") (.cons (.var 1 "$X") .nil)))) []
          = .ok [none, some (.atom "a"), some (.var 1 "$X")] := by decide

end Suiron.C06
