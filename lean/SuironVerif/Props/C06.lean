/-
  C06 — unification returns a most general unifier extending prior bindings.
-/
import SuironVerif.Lemmas.UnifyWF
namespace Suiron.C06

/-- (E) a successful unification keeps every earlier binding. -/
theorem unify_extends (fo : FloatOps) (f : Nat) (a b : Term) (σ σ' : Subst)
    (ha : a.FOK = true) (hb : b.FOK = true) (hσ : Subst.FOK σ)
    (h : unify fo f a b σ = .ok σ') : ∀ i t, σ.get i = some t → σ'.get i = some t := by
  have key := (unify_inv_wf fo (fun s => ∀ i t, σ.get i = some t → s.get i = some t) ?_ f).1 a b σ σ' ha hb hσ h (fun _ _ h => h)
  · exact key.1
  · intro s id c hP hb i t hi
    have hne : i ≠ id := by
      intro he; subst he
      have := hP _ _ hi
      rw [hb.unbound] at this; cases this
    rw [Subst.get_bind_other _ _ _ _ hne]; exact hP _ _ hi

/-- the only new bindings are of variables that were unbound, to terms that are neither `$_` nor a function call. -/
theorem unify_result_wf (fo : FloatOps) (f : Nat) (a b : Term) (σ σ' : Subst)
    (ha : a.FOK = true) (hb : b.FOK = true) (hσ : Subst.FOK σ)
    (h : unify fo f a b σ = .ok σ') : Subst.FOK σ' :=
  ((unify_inv_wf fo (fun _ => True) (fun _ _ _ _ _ => trivial) f).1 a b σ σ' ha hb hσ h trivial).2

def fo0 : FloatOps := ⟨fun a _ => a, fun a _ => a, fun a _ => a, fun a _ => a, fun _ => 0, fun _ => ""⟩
example : unify fo0 10 (.cplx (.cons (.atom "f") (.cons (.var 1 "$X") (.cons (.var 2 "$Y") .nil))))
                     (.cplx (.cons (.atom "f") (.cons (.atom "a") (.cons (.var 1 "$X") .nil)))) []
          = .ok [none, some (.atom "a"), some (.var 1 "$X")] := by decide

end Suiron.C06
