/-
  C22 — a query's answers do not depend on earlier queries.

  Reading adopted (the text allows two): the query under test is BUILT with the query constructor
  after the earlier operations and then run.  Interleaving the construction of one query with the
  requests on another is recorded as a known finding (the constructor resets the shared variable
  counter, see DESIGN.md §6 and known_findings.json).
-/
import SuironVerif.Lemmas.Frame
import SuironVerif.Lemmas.GInv
namespace Suiron.C22

/-- what `make_query` + `make_base_node` leave in the globals the engine reads: the counter depends
    on the query only, the stop flag is clear (repair D12) — whatever the earlier queries did. -/
def afterBuild (g : G) (c : Nat) : G := { g with counter := c, stop := false }

/-- two process states that differ only in history — text already written, and anything the earlier
    queries did to counter and stop flag — are identical once a query has been built, except for
    that text. -/
theorem build_forgets_history (g1 g2 : G) (c : Nat) (ht : g1.ticks = g2.ticks) (hf : g1.fireAt = g2.fireAt) :
    ∃ base : G, afterBuild g1 c = base.withOld g1.out ∧ afterBuild g2 c = base.withOld g2.out := by
  refine ⟨{ counter := c, stop := false, ticks := g1.ticks, fireAt := g1.fireAt, out := [] }, ?_, ?_⟩
  · simp [afterBuild, G.withOld]
  · simp [afterBuild, G.withOld, ht, hf]

/-- text written earlier is never read: a request gives the same answer, the same successor node
    and the same new output whatever lies underneath. -/
theorem request_ignores_history (fo : FloatOps) (kb : KB) (f : Nat) (n : Node) (g : G) (old : List String) :
    next fo kb f n (g.withOld old) = Res.mapStep (next fo kb f n g) old :=
  (frame_all fo kb f).1 n g old

/-- the same for building the base node. -/
theorem base_node_ignores_history (sf : UInt64 → String) (kb : KB) (q : Goal) (g : G) (old : List String) :
    mkNode sf kb q [] (g.withOld old) =
      (match mkNode sf kb q [] g with
       | .ok r => .ok (r.1, r.2.withOld old)
       | .fail => .fail | .panic => .panic | .oof => .oof) :=
  mkNode_withOld sf kb q [] g old

/-- C22 for one request: after building the same query in two different histories, the first request
    returns the same answer and the same successor node, and writes the same text. -/
theorem first_request_independent (fo : FloatOps) (kb : KB) (f : Nat) (q : Goal) (g1 g2 : G) (c : Nat)
    (ht : g1.ticks = g2.ticks) (hf : g1.fireAt = g2.fireAt)
    (n1 : Node) (h1 : G) (hm1 : mkNode fo.showF kb q [] (afterBuild g1 c) = .ok (n1, h1))
    (st1 : Step) (hs1 : next fo kb f n1 h1 = .ok st1) :
    ∃ (h2 : G) (st2 : Step), mkNode fo.showF kb q [] (afterBuild g2 c) = .ok (n1, h2) ∧ next fo kb f n1 h2 = .ok st2 ∧
      st2.sol = st1.sol ∧ st2.node = st1.node ∧ st2.cut = st1.cut ∧
      st2.g.counter = st1.g.counter ∧ st2.g.stop = st1.g.stop := by
  obtain ⟨base, hb1, hb2⟩ := build_forgets_history g1 g2 c ht hf
  rw [hb1, mkNode_withOld] at hm1
  cases hmb : mkNode fo.showF kb q [] base with
  | ok r =>
    rw [hmb] at hm1; simp at hm1
    obtain ⟨hn, hh⟩ := hm1
    subst hn
    rw [← hh, request_ignores_history] at hs1
    cases hnb : next fo kb f r.1 r.2 with
    | ok stb =>
      rw [hnb] at hs1; simp [Res.mapStep] at hs1
      refine ⟨r.2.withOld g2.out, stb.withOld g2.out, ?_, ?_, ?_⟩
      · rw [hb2, mkNode_withOld, hmb]
      · rw [request_ignores_history, hnb]; rfl
      · subst hs1; simp [Step.withOld]
    | fail => rw [hnb] at hs1; simp [Res.mapStep] at hs1
    | panic => rw [hnb] at hs1; simp [Res.mapStep] at hs1
    | oof => rw [hnb] at hs1; simp [Res.mapStep] at hs1
  | fail => rw [hmb] at hm1; simp at hm1
  | panic => rw [hmb] at hm1; simp at hm1
  | oof => rw [hmb] at hm1; simp at hm1

/-- a whole run: the answers of a sequence of requests (one fuel value each), each with the text written
    during that request -/
def runSeq (fo : FloatOps) (kb : KB) : List Nat → Node → G → List (Option Subst × List String)
  | [], _, _ => []
  | f :: fs, node, g =>
    match next fo kb f node g with
    | .ok st => (st.sol, st.g.out.take (st.g.out.length - g.out.length)) :: runSeq fo kb fs st.node st.g
    | _ => []

/-- the engine only ever appends to the output -/
theorem out_grows (fo : FloatOps) (kb : KB) (f : Nat) (n : Node) (g : G) (st : Step)
    (h : next fo kb f n g = .ok st) : g.out.length ≤ st.g.out.length := by
  have hP : GStable kb (fun g' => g.out.length ≤ g'.out.length) := by
    refine ⟨?_, ?_, ?_⟩
    · intro g' s hg; unfold G.emit; split
      · exact hg
      · simp; omega
    · intro g' c hg; exact hg
    · intro g' key hg; unfold countRules; simp only; split
      · exact hg
      · split <;> exact hg
  exact (ginv_all fo kb _ hP f).1 n g st h (Nat.le_refl _)

/-- whole runs ignore the text written by earlier queries -/
theorem run_ignores_history (fo : FloatOps) (kb : KB) : ∀ (fs : List Nat) (n : Node) (g : G) (old : List String),
    runSeq fo kb fs n (g.withOld old) = runSeq fo kb fs n g := by
  intro fs
  induction fs with
  | nil => intros; rfl
  | cons f fs ih =>
    intro n g old
    simp only [runSeq, request_ignores_history]
    cases hn : next fo kb f n g with
    | ok st =>
      simp only [Res.mapStep, Step.withOld]
      rw [ih]
      congr 1
      simp only [G.withOld, List.length_append]
      have hmono : g.out.length ≤ st.g.out.length := out_grows fo kb f n g st hn
      have e : st.g.out.length + old.length - (g.out.length + old.length) = st.g.out.length - g.out.length := by omega
      rw [e, List.take_append_of_le_length (by omega)]
    | fail => simp [Res.mapStep]
    | panic => simp [Res.mapStep]
    | oof => simp [Res.mapStep]

/-- C22 for whole runs: the same query built in two different histories gives, request after request, the
    same answers and writes the same text — for any number of requests, re-asks after exhaustion included. -/
theorem C22 (fo : FloatOps) (kb : KB) (q : Goal) (g1 g2 : G) (c : Nat)
    (ht : g1.ticks = g2.ticks) (hf : g1.fireAt = g2.fireAt)
    (n1 : Node) (h1 : G) (hm1 : mkNode fo.showF kb q [] (afterBuild g1 c) = .ok (n1, h1)) (fs : List Nat) :
    ∃ h2 : G, mkNode fo.showF kb q [] (afterBuild g2 c) = .ok (n1, h2) ∧ runSeq fo kb fs n1 h2 = runSeq fo kb fs n1 h1 := by
  obtain ⟨base, hb1, hb2⟩ := build_forgets_history g1 g2 c ht hf
  rw [hb1, mkNode_withOld] at hm1
  cases hmb : mkNode fo.showF kb q [] base with
  | ok r =>
    rw [hmb] at hm1; simp at hm1
    obtain ⟨hn, hh⟩ := hm1
    subst hn
    refine ⟨r.2.withOld g2.out, ?_, ?_⟩
    · rw [hb2, mkNode_withOld, hmb]
    · rw [← hh, run_ignores_history, run_ignores_history]
  | fail => rw [hmb] at hm1; simp at hm1
  | panic => rw [hmb] at hm1; simp at hm1
  | oof => rw [hmb] at hm1; simp at hm1

end Suiron.C22
