/-
  C07 — unification is symmetric.

  FULL STATEMENT (kept visible; proved so far only in the parts below):
    for function-free, well-formed a b and every σ: `unify a b σ` succeeds iff `unify b a σ`
    succeeds, and the two results resolve every variable to variants of each other.
  What is proved here (`_partial`): the dispatch of `unify` is symmetric —
    a non-variable operand facing a variable is handed to the variable's side whichever
    side it is on, constants compare symmetrically, and a literal empty list fails against
    a non-empty list pattern in both orders.  The list/complex recursion is covered by the
    correspondence suite, which runs every pair in both orders (random + exhaustive universe).
-/
import SuironVerif.Model.Unify
namespace Suiron.C07

theorem fEq_symm (x y : UInt64) : fEq x y = fEq y x := by
  unfold fEq
  cases fIsNaN x <;> cases fIsNaN y <;> simp
  exact Bool.eq_iff_iff.mpr ⟨fun h => by simpa using (by simpa using h : fKey x = fKey y).symm,
                              fun h => by simpa using (by simpa using h : fKey y = fKey x).symm⟩

def IsConst : Term → Bool
  | .atom _ | .flt _ | .int _ => true
  | _ => false

/-- two constants: same outcome in both orders (and never a binding). -/
theorem const_const_symm_partial (fo : FloatOps) (f : Nat) (a b : Term) (σ : Subst)
    (ha : IsConst a = true) (hb : IsConst b = true) :
    unify fo (f+1) a b σ = unify fo (f+1) b a σ := by
  unfold unify
  cases a <;> cases b <;> simp_all [IsConst, Term.beq, Term.isAnon, fEq_symm]
  · rename_i s t
    by_cases h : s = t <;> simp [h, eq_comm]
  · rename_i x y
    by_cases h : x = y <;> simp [h, eq_comm]

def NonVarOperand : Term → Bool
  | .atom _ | .flt _ | .int _ | .cplx _ | .cons _ _ _ _ => true
  | _ => false

/-- a non-variable operand on the left of a variable is handled exactly as if it were on the
    right: the call is forwarded to the variable's side. -/
theorem nonvar_var_forward_partial (fo : FloatOps) (f : Nat) (a : Term) (i : Nat) (n : String) (σ : Subst)
    (ha : NonVarOperand a = true) :
    unify fo (f+1) a (.var i n) σ = unify fo f (.var i n) a σ := by
  conv => lhs; unfold unify
  cases a <;> simp_all [NonVarOperand, Term.beq, Term.isAnon]

/-- `[] = [e | …]` and `[e | …] = []` both fail when `e` is an ordinary element
    (this is the renamed-empty-list case that the pinned tree got wrong). -/
theorem empty_vs_nonempty_partial (fo : FloatOps) (f : Nat) (e n : Term) (c : Nat) (σ : Subst)
    (he : e.isNil = false) (hv : e.isVar = false) (hfn : e.isFunc = false) (han : e.isAnon = false) :
    unify fo (f+3) Term.empty (.cons e n c false) σ = .fail ∧
    unify fo (f+3) (.cons e n c false) Term.empty σ = .fail := by
  constructor
  · unfold unify unifyList unify
    cases e <;> simp_all [Term.empty, Term.beq, Term.isAnon, Term.isNil, Term.isVar, Term.isFunc]
  · unfold unify unifyList unify
    cases e <;> simp_all [Term.empty, Term.beq, Term.isAnon, Term.isNil, Term.isVar, Term.isFunc]

def fo0 : FloatOps := ⟨fun a _ => a, fun a _ => a, fun a _ => a, fun a _ => a, fun _ => 0, fun _ => ""⟩
-- `[$X] = []` and `[] = [$X]` both fail
example : unify fo0 6 (.cons (.var 1 "$X") Term.empty 1 false) Term.empty [] = .fail := by decide
example : unify fo0 6 Term.empty (.cons (.var 1 "$X") Term.empty 1 false) [] = .fail := by decide

end Suiron.C07
