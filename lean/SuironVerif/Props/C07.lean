/-
  C07 — unification is symmetric.

  FULL STATEMENT (kept visible; proved so far only in the parts below):
    for function-free, well-formed a b and every σ: `unify a b σ` succeeds iff `unify b a σ`
    succeeds, and the two results resolve every variable to variants of each other.
  PROVED (for well-formed, function-free, anonymous-variable-free operands, every fuel):
    * `symmetric_values`: if both orders succeed, the two results have exactly the same solutions (a
      substitution validates one iff it validates the other) — every variable gets the same resolved
      value, up to the naming of what stays unbound;
    * `symmetric_success`: if `unify a b σ` succeeds with a solvable result (no occurs-check situation),
      `unify b a σ` does not report failure.
  Also proved (`_partial`): the dispatch of `unify` is symmetric —
    a non-variable operand facing a variable is handed to the variable's side whichever
    side it is on, constants compare symmetrically, and a literal empty list fails against
    a non-empty list pattern in both orders.  The list/complex recursion is covered by the
    correspondence suite, which runs every pair in both orders (random + exhaustive universe).
-/
import SuironVerif.Model.Unify
import SuironVerif.Lemmas.UnifyMgu
namespace Suiron.C07

theorem fEq_symm (x y : UInt64) : fEq x y = fEq y x := by
  unfold fEq
  cases fIsNaN x <;> cases fIsNaN y <;> simp
  exact Bool.eq_iff_iff.mpr ⟨fun h => by simpa using (by simpa using h : fKey x = fKey y).symm,
                              fun h => by simpa using (by simpa using h : fKey y = fKey x).symm⟩

def IsConst : Term → Bool
  | .atom _ | .flt _ | .int _ => true
  | _ => false

/-- two constants: same outcome in both orders (and never a binding). -/
theorem const_const_symm_partial (fo : FloatOps) (f : Nat) (a b : Term) (σ : Subst)
    (ha : IsConst a = true) (hb : IsConst b = true) :
    unify fo (f+1) a b σ = unify fo (f+1) b a σ := by
  unfold unify
  cases a <;> cases b <;> simp_all [IsConst, Term.beq, Term.isAnon, fEq_symm]
  · rename_i s t
    by_cases h : s = t <;> simp [h, eq_comm]
  · rename_i x y
    by_cases h : x = y <;> simp [h, eq_comm]

def NonVarOperand : Term → Bool
  | .atom _ | .flt _ | .int _ | .cplx _ | .cons _ _ _ _ => true
  | _ => false

/-- a non-variable operand on the left of a variable is handled exactly as if it were on the
    right: the call is forwarded to the variable's side. -/
theorem nonvar_var_forward_partial (fo : FloatOps) (f : Nat) (a : Term) (i : Nat) (n : String) (σ : Subst)
    (ha : NonVarOperand a = true) :
    unify fo (f+1) a (.var i n) σ = unify fo f (.var i n) a σ := by
  conv => lhs; unfold unify
  cases a <;> simp_all [NonVarOperand, Term.beq, Term.isAnon]

/-- `[] = [e | …]` and `[e | …] = []` both fail when `e` is an ordinary element
    (this is the renamed-empty-list case that the pinned tree got wrong). -/
theorem empty_vs_nonempty_partial (fo : FloatOps) (f : Nat) (e n : Term) (c : Nat) (σ : Subst)
    (he : e.isNil = false) (hv : e.isVar = false) (hfn : e.isFunc = false) (han : e.isAnon = false) :
    unify fo (f+3) Term.empty (.cons e n c false) σ = .fail ∧
    unify fo (f+3) (.cons e n c false) Term.empty σ = .fail := by
  constructor
  · unfold unify unifyList unify
    cases e <;> simp_all [Term.empty, Term.beq, Term.isAnon, Term.isNil, Term.isVar, Term.isFunc]
  · unfold unify unifyList unify
    cases e <;> simp_all [Term.empty, Term.beq, Term.isAnon, Term.isNil, Term.isVar, Term.isFunc]

/-- both orders, both successful: the results have the same solutions -/
theorem symmetric_values (fo : FloatOps) (f f' : Nat) (a b : Term) (σ σ1 σ2 : Subst)
    (h1 : unify fo f a b σ = .ok σ1) (h2 : unify fo f' b a σ = .ok σ2)
    (ha : Spec.goodT a = true) (hb : Spec.goodT b = true) (hσ : Spec.SubstGood σ)
    (fa : Spec.Term.AF a = true) (fb : Spec.Term.AF b = true) (fσ : Spec.SubstAF σ) (θ : Nat → Spec.FO) :
    Spec.Solves θ σ1 ↔ Spec.Solves θ σ2 := by
  have s1 := (Spec.unify_sound fo f).1 a b σ σ1 h1 ha hb hσ fa fb fσ
  have s2 := (Spec.unify_sound fo f').1 b a σ σ2 h2 hb ha hσ fb fa fσ
  have g1 := fun hs hu => ((Spec.unify_general fo θ f).1 a b σ σ1 h1 (Spec.goodT_FF a ha) (Spec.goodT_FF b hb) (Spec.SubstGood_FF hσ) hs hu).1
  have g2 := fun hs hu => ((Spec.unify_general fo θ f').1 b a σ σ2 h2 (Spec.goodT_FF b hb) (Spec.goodT_FF a ha) (Spec.SubstGood_FF hσ) hs hu).1
  constructor
  · intro hs; exact g2 (hs.mono s1.1) (s1.2.2 θ hs).symm
  · intro hs; exact g1 (hs.mono s2.1) (s2.2.2 θ hs).symm

/-- success in one order (with a solvable result) excludes failure in the other -/
theorem symmetric_success (fo : FloatOps) (f f' : Nat) (a b : Term) (σ σ1 : Subst)
    (h1 : unify fo f a b σ = .ok σ1) (hsolv : ∃ θ, Spec.Solves θ σ1)
    (ha : Spec.goodT a = true) (hb : Spec.goodT b = true) (hσ : Spec.SubstGood σ)
    (fa : Spec.Term.AF a = true) (fb : Spec.Term.AF b = true) (fσ : Spec.SubstAF σ) :
    unify fo f' b a σ ≠ .fail := by
  obtain ⟨θ, hs⟩ := hsolv
  have s1 := (Spec.unify_sound fo f).1 a b σ σ1 h1 ha hb hσ fa fb fσ
  intro hf
  exact (Spec.unify_complete fo θ f').1 b a σ hf hb ha hσ (hs.mono s1.1) (s1.2.2 θ hs).symm

def fo0 : FloatOps := ⟨fun a _ => a, fun a _ => a, fun a _ => a, fun a _ => a, fun _ => 0, fun _ => ""⟩
-- `[$X] = []` and `[] = [$X]` both fail
example : unify fo0 6 (.cons (.var 1 "$X") Term.empty 1 false) Term.empty [] = .fail := by decide
example : unify fo0 6 Term.empty (.cons (.var 1 "$X") Term.empty 1 false) [] = .fail := by decide

end Suiron.C07
