/-
  C02 — cut commits to its clause and ends the call.
  Theorems about the engine model (all programs), and the REFINEMENT of the engine model to a reference machine with
  cut, whose cut rule is proved to do what the property says:
    * `C02_groups`, `C02_groups_exact`, `group_machine_cut`, `group_machine_commit_group`, `group_machine_commit_body`,
      `group_machine_barriers_wf`: rule bodies built from calls, built-ins, `!`, conjunctions and disjunctions nested
      to any depth — the programs the property quantifies over (Spec/GroupMachine.lean);
    * `C02_flat`, `C02_flat_exact`, `machine_cut`, `machine_commit`, `machine_barriers_wf`: the same for flat bodies
      against the smaller machine of Spec/CutMachine.lean (kept: it is the specification that reads in a minute).
  Bodies with `not` or `time` next to a cut: the machine comparison of the correspondence suite decides
  (Spec/Machine.lean, executable).
-/
import SuironVerif.Lemmas.Exhausted
import SuironVerif.Lemmas.EngineRefineCut
import SuironVerif.Lemmas.CutMachineDet
import SuironVerif.Lemmas.CutMachineProps
import SuironVerif.Lemmas.EngineRefineGroup
import SuironVerif.Lemmas.GroupMachineProps
namespace Suiron.C02

/-- executing `!` succeeds once with the bindings unchanged, marks the cut's own node and raises
    the cut flag that its ancestors will see. -/
theorem cut_executes (fo : FloatOps) (kb : KB) (f : Nat) (args : Option TermList) (σ : Subst) (g : G) :
    next fo kb (f+1) (.bip "!" args σ false true) g = .ok ⟨some σ, .bip "!" args σ true false, true, g⟩ := by
  simp [next, Node.nb]

/-- a node marked by a cut is never entered again: it answers "no more", runs nothing (so nothing to
    the left of the cut is retried) and leaves the global state untouched. -/
theorem marked_node_blocks (fo : FloatOps) (kb : KB) (f : Nat) (n : Node) (g : G) (h : n.nb = true) :
    next fo kb (f+1) n g = .ok ⟨none, n, false, g⟩ := by
  simp [next, h]

/-- the facts-and-rules loop of a marked call fetches no further clause: it returns "no more" at once,
    with the variable counter and everything else as it was. -/
theorem no_later_clause (fo : FloatOps) (kb : KB) (f : Nat) (t : Term) (σ : Subst) (child : Option Node) (idx n : Nat) (g : G) :
    callLoop fo kb (f+1) t σ true child idx n g = .ok ⟨none, .call t σ true child idx n, false, g⟩ := by
  simp [callLoop]

/-- when the body node of the clause in use reports a cut and has no (further) answer, the call answers
    "no more" immediately — no later clause is tried even though the goals after the cut failed —
    and the call node is marked. -/
theorem cut_then_fail_ends_call (fo : FloatOps) (kb : KB) (f : Nat) (t : Term) (σ : Subst) (c : Node) (idx n : Nat) (g : G)
    (r : Step) (hr : next fo kb (f+1) c g = .ok r) (hcut : r.cut = true) (hnone : r.sol = none) :
    next fo kb (f+2) (.call t σ false (some c) idx n) g = .ok ⟨none, .call t σ true none idx n, false, r.g⟩ := by
  rw [next]
  simp [Node.nb, hr, hcut, hnone, callLoop]

/-- the three mutually recursive facts behind `cut_is_local` and `cut_marks`. -/
def CutAt (fo : FloatOps) (kb : KB) (f : Nat) : Prop :=
  (∀ n g st, next fo kb f n g = .ok st → (st.cut = true → st.node.nb = true) ∧ (∀ t σ nb c i k, n = .call t σ nb c i k → st.cut = false)) ∧
  (∀ t σ nb child idx n g st, callLoop fo kb f t σ nb child idx n g = .ok st → st.cut = false) ∧
  (∀ σ nb more head rest tail cutAcc g st, andLoop fo kb f σ nb more head rest tail cutAcc g = .ok st →
      (cutAcc = true → nb = true) → (st.cut = true → st.node.nb = true))

theorem cut_all (fo : FloatOps) (kb : KB) : ∀ f, CutAt fo kb f := by
  intro f
  induction f with
  | zero =>
    refine ⟨?_, ?_, ?_⟩
    · intro n g st h; simp [next] at h
    · intro t σ nb child idx n g st h; simp [callLoop] at h
    · intro σ nb more head rest tail cutAcc g st h; simp [andLoop] at h
  | succ f ih =>
    obtain ⟨ihN, ihC, ihA⟩ := ih
    refine ⟨?_, ?_, ?_⟩
    · intro n g st h
      by_cases hnb : n.nb = true
      · simp [next, hnb] at h; subst h; simp
      · cases n with
        | bip name args σ nb more =>
          simp [Node.nb] at hnb; subst hnb
          simp only [next, Node.nb] at h; simp at h
          refine ⟨?_, by intro t σ nb c i k hc; cases hc⟩
          by_cases hm : more = true
          · simp [hm] at h
            by_cases hc : name = "!"
            · simp [hc] at h; subst h; simp [Node.nb]
            · simp [hc] at h
              obtain ⟨r, _, h⟩ := Res.bind_eq_ok.mp h; cases h; simp
          · simp at hm; subst hm; simp at h; subst h; simp
        | call t σ nb child idx n =>
          simp [Node.nb] at hnb; subst hnb
          simp only [next, Node.nb] at h; simp at h
          have hcf : st.cut = false := by
            cases child with
            | none => simp at h; exact ihC _ _ _ _ _ _ _ _ h
            | some c =>
              simp at h
              obtain ⟨r, hr, h⟩ := Res.bind_eq_ok.mp h
              by_cases hsol : r.sol.isSome = true
              · simp [hsol] at h; subst h; rfl
              · simp [hsol] at h; exact ihC _ _ _ _ _ _ _ _ h
          refine ⟨?_, ?_⟩
          · intro hc; rw [hcf] at hc; cases hc
          · intro _ _ _ _ _ _ _; exact hcf
        | op k σ nb more head rest tail =>
          simp [Node.nb] at hnb; subst hnb
          refine ⟨?_, by intro t σ nb c i k hc; cases hc⟩
          cases k with
          | and =>
            simp only [next, Node.nb] at h; simp at h
            cases tail with
            | none => simp at h; exact ihA _ _ _ _ _ _ _ _ _ h (by intro hc; cases hc)
            | some tn =>
              simp at h
              obtain ⟨r, hr, h⟩ := Res.bind_eq_ok.mp h
              by_cases hsol : r.sol.isSome = true
              · simp [hsol] at h; subst h; simp [Node.nb]
              · simp [hsol] at h; exact ihA _ _ _ _ _ _ _ _ _ h (by intro hc; exact hc)
          | or =>
            simp only [next, Node.nb] at h; simp at h
            cases tail with
            | some tn =>
              simp at h
              obtain ⟨r, hr, h⟩ := Res.bind_eq_ok.mp h
              cases h; simp [Node.nb]
            | none =>
              simp at h
              obtain ⟨r, hr, h⟩ := Res.bind_eq_ok.mp h
              by_cases hsol : r.sol.isSome = true
              · simp [hsol] at h; subst h; simp [Node.nb]
              · simp [hsol] at h
                by_cases hl : rest.length = 0
                · simp [hl] at h; subst h; simp [Node.nb]
                · simp [hl] at h
                  by_cases hcut : r.cut = true
                  · simp [hcut] at h; subst h; simp [Node.nb]
                  · simp [hcut] at h
                    obtain ⟨m, hm, h⟩ := Res.bind_eq_ok.mp h
                    obtain ⟨r2, hr2, h⟩ := Res.bind_eq_ok.mp h
                    cases h; simp [Node.nb]
          | not =>
            simp only [next, Node.nb] at h; simp at h
            by_cases hm : more = true
            · simp [hm] at h
              obtain ⟨r, hr, h⟩ := Res.bind_eq_ok.mp h
              cases h; simp [Node.nb]
            · simp at hm; subst hm; simp at h; subst h; simp
          | time =>
            simp only [next, Node.nb] at h; simp at h
            by_cases hm : more = true
            · simp [hm] at h
              obtain ⟨r, hr, h⟩ := Res.bind_eq_ok.mp h
              cases h; simp [Node.nb]
            · simp at hm; subst hm; simp at h; subst h; simp
    · intro t σ nb child idx n g st h
      simp only [callLoop] at h
      by_cases hnb : nb = true
      · simp [hnb] at h; subst h; rfl
      · simp [hnb] at h
        by_cases hge : n ≤ idx
        · simp [hge] at h; subst h; rfl
        · simp [hge] at h
          obtain ⟨key, _, h⟩ := Res.bind_eq_ok.mp h
          obtain ⟨rc, _, h⟩ := Res.bind_eq_ok.mp h
          split at h
          · exact ihC _ _ _ _ _ _ _ _ h
          · cases h
          · cases h
          · split at h
            · cases h; rfl
            · obtain ⟨m, _, h⟩ := Res.bind_eq_ok.mp h
              obtain ⟨r, hr, h⟩ := Res.bind_eq_ok.mp h
              by_cases hsol : r.sol.isSome = true
              · simp [hsol] at h; subst h; rfl
              · simp [hsol] at h; exact ihC _ _ _ _ _ _ _ _ h
    · intro σ nb more head rest tail cutAcc g st h hinv
      simp only [andLoop] at h
      obtain ⟨r, hr, h⟩ := Res.bind_eq_ok.mp h
      cases hrs : r.sol with
      | none =>
        simp [hrs] at h; subst h
        simp [Node.nb]
        intro hc
        cases hc with
        | inl hc => exact Or.inl (hinv hc)
        | inr hc => exact Or.inr hc
      | some ss =>
        simp [hrs] at h
        by_cases hl : rest.length = 0
        · simp [hl] at h; subst h
          simp [Node.nb]
          intro hc
          cases hc with
          | inl hc => exact Or.inl (hinv hc)
          | inr hc => exact Or.inr hc
        · simp [hl] at h
          obtain ⟨m, _, h⟩ := Res.bind_eq_ok.mp h
          obtain ⟨r2, hr2, h⟩ := Res.bind_eq_ok.mp h
          by_cases hsol : r2.sol.isSome = true
          · simp [hsol] at h; subst h
            simp [Node.nb]
            intro hc
            rcases hc with (hc | hc) | hc
            · exact Or.inl (Or.inl (hinv hc))
            · exact Or.inl (Or.inr hc)
            · exact Or.inr hc
          · simp [hsol] at h
            apply ihA _ _ _ _ _ _ _ _ _ h
            intro hc
            simp at hc ⊢
            rcases hc with (hc | hc) | hc
            · exact Or.inl (Or.inl (hinv hc))
            · exact Or.inl (Or.inr hc)
            · exact Or.inr hc

/-- a cut never escapes the call whose clause contains it: a call node never reports a cut to its
    caller, so no node outside the call — the caller, its siblings — is ever marked by it. -/
theorem cut_is_local (fo : FloatOps) (kb : KB) (f : Nat) (t : Term) (σ : Subst) (nb : Bool) (c : Option Node) (i k : Nat) (g : G)
    (st : Step) (h : next fo kb f (.call t σ nb c i k) g = .ok st) : st.cut = false :=
  ((cut_all fo kb f).1 _ g st h).2 t σ nb c i k rfl

/-- every node that lets a cut through is itself marked when it returns: it — and with it every
    goal it holds to the left of the cut — can never be entered again. -/
theorem cut_marks (fo : FloatOps) (kb : KB) (f : Nat) (n : Node) (g : G) (st : Step)
    (h : next fo kb f n g = .ok st) (hc : st.cut = true) : st.node.nb = true :=
  ((cut_all fo kb f).1 n g st h).1 hc

/-- hence such a node yields nothing beyond the answer it was deriving when the cut ran. -/
theorem cut_yields_at_most_this_answer (fo : FloatOps) (kb : KB) (f f' : Nat) (n : Node) (g g' : G) (st : Step)
    (h : next fo kb f n g = .ok st) (hc : st.cut = true) :
    next fo kb (f'+1) st.node g' = .ok ⟨none, st.node, false, g'⟩ :=
  marked_node_blocks fo kb f' st.node g' (cut_marks fo kb f n g st h hc)

/-! ## against the reference machine with cut (flat bodies) -/

/-- REFINEMENT: for every knowledge base whose stored rules have flat bodies, every query, every number of requests
    and every fuel, the answers the engine gives request after request (and the text written up to each) are the
    observations of the reference machine with cut started on the query goal. -/
theorem C02_flat (fo : FloatOps) (kb : KB)
    (hkb : ∀ key rs, kb.get key = some rs → ∀ r ∈ rs, Spec.flatBodyB r.body = true)
    (q : Term) (σ0 : Subst) (g0 g1 : G) (node : Node)
    (hmk : mkNode fo.showF kb (.call q) σ0 g0 = .ok (node, g1)) (hg : Spec.GOK g0) (fs : List Nat) :
    Spec.CRun fo kb ⟨[.goals [.g (.call q) 0] σ0], g0.counter, g0.out⟩ (Spec.askOut fo kb fs node g1) :=
  Spec.query_refines_cut_machine fo kb (Spec.flatKB_of_rules kb hkb) q σ0 g0 g1 node hmk hg fs

/-- EXACTLY: the machine with cut is deterministic, so whatever it can be observed to show agrees position by
    position with what the engine's requests return. -/
theorem C02_flat_exact (fo : FloatOps) (kb : KB)
    (hkb : ∀ key rs, kb.get key = some rs → ∀ r ∈ rs, Spec.flatBodyB r.body = true)
    (q : Term) (σ0 : Subst) (g0 g1 : G) (node : Node)
    (hmk : mkNode fo.showF kb (.call q) σ0 g0 = .ok (node, g1)) (hg : Spec.GOK g0) (fs : List Nat)
    (tr' : List (Option Subst × List String)) (hm : Spec.CRun fo kb ⟨[.goals [.g (.call q) 0] σ0], g0.counter, g0.out⟩ tr')
    (i : Nat) (x y : Option Subst × List String) (hx : (Spec.askOut fo kb fs node g1)[i]? = some x) (hy : tr'[i]? = some y) : x = y :=
  (C02_flat fo kb hkb q σ0 g0 g1 node hmk hg fs).det hm i x y hx hy

/-- in every configuration the machine reaches from a query, the barriers are well-formed: a cut finds its barrier
    inside the stack, so exactly the frames that were there when its clause was chosen survive it. -/
theorem machine_barriers_wf (fo : FloatOps) (kb : KB) (q : Goal) (σ0 : Subst) (c : Nat) (o : List String) (b : Spec.CConf)
    (h : Spec.CSteps fo kb ⟨[.goals [.g q 0] σ0], c, o⟩ b) : Spec.CWF b.stack :=
  h.wf (Spec.CWF.init q σ0)

/-- THE CUT on the reference machine: a clause of a call is chosen on top of the stack `S0`; while the machine works
    above `S0` a cut of that clause's body comes to run.  The step it takes — the only one there is (`CStep.det`) —
    leaves exactly `S0` under the frame that goes on with the body: no later clause of the call, no alternative of a
    goal to the left of the cut, and `S0` (the caller, its siblings, everything older) untouched. -/
theorem machine_cut {fo : FloatOps} {kb : KB} {t : Term} {σ : Subst} {idx n : Nat} {k : List Spec.CG} {S0 : List Spec.CFrame}
    {c : Nat} {o : List String} {mid : Spec.CConf} {args : Option TermList} {k' : List Spec.CG} {σ' : Subst} {S : List Spec.CFrame}
    {c' : Nat} {o' : List String}
    (h1 : Spec.CStep fo kb ⟨.try t σ idx n k :: S0, c, o⟩ mid) (hmid : S0.length < mid.stack.length)
    (h2 : Spec.CStepsAbove fo kb S0.length mid ⟨.goals (.g (.bip "!" args) S0.length :: k') σ' :: S, c', o'⟩) (b : Spec.CConf) :
    Spec.CStep fo kb ⟨.goals (.g (.bip "!" args) S0.length :: k') σ' :: S, c', o'⟩ b ↔ b = ⟨.goals (Spec.markCut k') σ' :: S0, c', o'⟩ :=
  ⟨fun hb => hb.det (Spec.call_then_cut h1 hmid h2), fun e => e ▸ Spec.call_then_cut h1 hmid h2⟩

/-- and at the end of a body in which a cut ran the same once more: whatever the goals after the cut left behind is
    dropped — the call yields no answer beyond the one being derived. -/
theorem machine_commit {fo : FloatOps} {kb : KB} {t : Term} {σ : Subst} {idx n : Nat} {k : List Spec.CG} {S0 : List Spec.CFrame}
    {c : Nat} {o : List String} {mid : Spec.CConf} {k' : List Spec.CG} {σ' : Subst} {S : List Spec.CFrame} {c' : Nat} {o' : List String}
    (h1 : Spec.CStep fo kb ⟨.try t σ idx n k :: S0, c, o⟩ mid) (hmid : S0.length < mid.stack.length)
    (h2 : Spec.CStepsAbove fo kb S0.length mid ⟨.goals (.endB S0.length true :: k') σ' :: S, c', o'⟩) (b : Spec.CConf) :
    Spec.CStep fo kb ⟨.goals (.endB S0.length true :: k') σ' :: S, c', o'⟩ b ↔ b = ⟨.goals k' σ' :: S0, c', o'⟩ :=
  ⟨fun hb => hb.det (Spec.call_then_commit h1 hmid h2), fun e => e ▸ Spec.call_then_commit h1 hmid h2⟩

/-! ## against the reference machine with cut and groups (conjunctions and disjunctions nested to any depth) -/

/-- REFINEMENT: for every knowledge base whose stored rules are facts or have bodies built from calls, built-ins, `!`,
    and non-empty conjunctions and disjunctions of such goals, nested to any depth; every query, every number of
    requests and every fuel: the answers the engine gives request after request (and the text written up to each)
    are the observations of the reference machine with cut and groups started on the query goal. -/
theorem C02_groups (fo : FloatOps) (kb : KB)
    (hkb : ∀ key rs, kb.get key = some rs → ∀ r ∈ rs, r.body.isNil = true ∨ Spec.Grp.okG r.body = true)
    (q : Term) (σ0 : Subst) (g0 g1 : G) (node : Node)
    (hmk : mkNode fo.showF kb (.call q) σ0 g0 = .ok (node, g1)) (hg : Spec.GOK g0) (fs : List Nat) :
    Spec.Grp.CRun fo kb ⟨[.goals [.g (.call q) 0] σ0], g0.counter, g0.out⟩ (Spec.askOut fo kb fs node g1) :=
  Spec.Grp.query_refines_group_machine fo kb (Spec.Grp.okKB_of_rules kb hkb) q σ0 g0 g1 node hmk hg fs

/-- EXACTLY: that machine is deterministic, so whatever it can be observed to show agrees position by position with
    what the engine's requests return. -/
theorem C02_groups_exact (fo : FloatOps) (kb : KB)
    (hkb : ∀ key rs, kb.get key = some rs → ∀ r ∈ rs, r.body.isNil = true ∨ Spec.Grp.okG r.body = true)
    (q : Term) (σ0 : Subst) (g0 g1 : G) (node : Node)
    (hmk : mkNode fo.showF kb (.call q) σ0 g0 = .ok (node, g1)) (hg : Spec.GOK g0) (fs : List Nat)
    (tr' : List (Option Subst × List String)) (hm : Spec.Grp.CRun fo kb ⟨[.goals [.g (.call q) 0] σ0], g0.counter, g0.out⟩ tr')
    (i : Nat) (x y : Option Subst × List String) (hx : (Spec.askOut fo kb fs node g1)[i]? = some x) (hy : tr'[i]? = some y) : x = y :=
  (C02_groups fo kb hkb q σ0 g0 g1 node hmk hg fs).det hm i x y hx hy

/-- barriers are well-formed in every configuration the machine reaches from a query -/
theorem group_machine_barriers_wf (fo : FloatOps) (kb : KB) (q : Goal) (σ0 : Subst) (c : Nat) (o : List String) (b : Spec.Grp.CConf)
    (h : Spec.Grp.CSteps fo kb ⟨[.goals [.g q 0] σ0], c, o⟩ b) : Spec.Grp.CWF b.stack :=
  h.wf (Spec.Grp.CWF.init q σ0)

/-- THE CUT on the machine with groups: a clause of a call is chosen on top of the stack `S0`; while the machine works
    above `S0` a cut of that clause's body — at any depth of its conjunctions and disjunctions — comes to run.  The one
    step there is leaves exactly `S0` under the frame that goes on after the cut: no later clause of the call, no other
    member of an enclosing disjunction, no alternative of a goal to the left of the cut, and `S0` (the caller, its
    siblings, everything older) untouched. -/
theorem group_machine_cut {fo : FloatOps} {kb : KB} {t : Term} {σ : Subst} {idx n : Nat} {k : List Spec.Grp.CG} {S0 : List Spec.Grp.CFrame}
    {c : Nat} {o : List String} {mid : Spec.Grp.CConf} {args : Option TermList} {k' : List Spec.Grp.CG} {σ' : Subst} {S : List Spec.Grp.CFrame}
    {c' : Nat} {o' : List String}
    (h1 : Spec.Grp.CStep fo kb ⟨.try t σ idx n k :: S0, c, o⟩ mid) (hmid : S0.length < mid.stack.length)
    (h2 : Spec.Grp.CStepsAbove fo kb S0.length mid ⟨.goals (.g (.bip "!" args) S0.length :: k') σ' :: S, c', o'⟩) (b : Spec.Grp.CConf) :
    Spec.Grp.CStep fo kb ⟨.goals (.g (.bip "!" args) S0.length :: k') σ' :: S, c', o'⟩ b ↔
      b = ⟨.goals (Spec.Grp.markCut k') σ' :: S0, c', o'⟩ :=
  ⟨fun hb => hb.det (Spec.Grp.call_then_cut h1 hmid h2), fun e => e ▸ Spec.Grp.call_then_cut h1 hmid h2⟩

/-- at the end of every group the cut was in, what the goals after the cut left behind is dropped -/
theorem group_machine_commit_group {fo : FloatOps} {kb : KB} {t : Term} {σ : Subst} {idx n : Nat} {k : List Spec.Grp.CG} {S0 : List Spec.Grp.CFrame}
    {c : Nat} {o : List String} {mid : Spec.Grp.CConf} {k' : List Spec.Grp.CG} {σ' : Subst} {S : List Spec.Grp.CFrame} {c' : Nat} {o' : List String}
    (h1 : Spec.Grp.CStep fo kb ⟨.try t σ idx n k :: S0, c, o⟩ mid) (hmid : S0.length < mid.stack.length)
    (h2 : Spec.Grp.CStepsAbove fo kb S0.length mid ⟨.goals (.endG S0.length true :: k') σ' :: S, c', o'⟩) (b : Spec.Grp.CConf) :
    Spec.Grp.CStep fo kb ⟨.goals (.endG S0.length true :: k') σ' :: S, c', o'⟩ b ↔ b = ⟨.goals k' σ' :: S0, c', o'⟩ :=
  ⟨fun hb => hb.det (Spec.Grp.call_then_commit_group h1 hmid h2), fun e => e ▸ Spec.Grp.call_then_commit_group h1 hmid h2⟩

/-- and at the end of the body: the call yields no answer beyond the one being derived -/
theorem group_machine_commit_body {fo : FloatOps} {kb : KB} {t : Term} {σ : Subst} {idx n : Nat} {k : List Spec.Grp.CG} {S0 : List Spec.Grp.CFrame}
    {c : Nat} {o : List String} {mid : Spec.Grp.CConf} {k' : List Spec.Grp.CG} {σ' : Subst} {S : List Spec.Grp.CFrame} {c' : Nat} {o' : List String}
    (h1 : Spec.Grp.CStep fo kb ⟨.try t σ idx n k :: S0, c, o⟩ mid) (hmid : S0.length < mid.stack.length)
    (h2 : Spec.Grp.CStepsAbove fo kb S0.length mid ⟨.goals (.endB S0.length true :: k') σ' :: S, c', o'⟩) (b : Spec.Grp.CConf) :
    Spec.Grp.CStep fo kb ⟨.goals (.endB S0.length true :: k') σ' :: S, c', o'⟩ b ↔ b = ⟨.goals k' σ' :: S0, c', o'⟩ :=
  ⟨fun hb => hb.det (Spec.Grp.call_then_commit h1 hmid h2), fun e => e ▸ Spec.Grp.call_then_commit h1 hmid h2⟩

/-! Non-vacuity: `t($X) :- g($X), !, fail.  t(other).  g(1). g(2).` has no answer
    (the pinned tree answered `t(other)`). -/
def fo0 : FloatOps := ⟨fun a _ => a, fun a _ => a, fun a _ => a, fun a _ => a, fun _ => 0, fun _ => ""⟩
def c1 (s : String) (a : Term) : Term := .cplx (.cons (.atom s) (.cons a .nil))
def kb0 : KB :=
  [("t/1", [⟨c1 "t" (.var 0 "$X"), .and (.cons (.call (c1 "g" (.var 0 "$X"))) (.cons (.bip "!" none) (.cons (.bip "fail" none) .nil)))⟩,
            ⟨c1 "t" (.atom "other"), .nil⟩]),
   ("g/1", [⟨c1 "g" (.int 1), .nil⟩, ⟨c1 "g" (.int 2), .nil⟩])]
example : (match next fo0 kb0 40 (.call (c1 "t" (.var 1 "$X")) [] false none 0 2) { G.init with counter := 1 } with
           | .ok st => some st.sol | _ => none) = some none := by decide

/-- the knowledge base of the example is in the fragment of `C02_flat` -/
example : Spec.flatKBB kb0 = true := by decide

/-- the premises of `machine_cut` are met on that knowledge base: clause 1 of `t/1` is chosen on the empty stack, `g($X)`
    is called and answers from its first clause, and the cut comes to run with two frames under it (the second clause
    of `t/1`, the second clause of `g/1`) — which `machine_cut` says are both gone after the step. -/
example : ∃ mid k' σ' S c' o', Spec.CStep fo0 kb0 ⟨.try (c1 "t" (.var 1 "$X")) [] 0 2 [] :: [], 1, []⟩ mid ∧
    ([] : List Spec.CFrame).length < mid.stack.length ∧
    Spec.CStepsAbove fo0 kb0 ([] : List Spec.CFrame).length mid
      ⟨.goals (.g (.bip "!" none) ([] : List Spec.CFrame).length :: k') σ' :: S, c', o'⟩ ∧ S.length = 2 := by
  have h1 : Spec.CStep fo0 kb0 ⟨.try (c1 "t" (.var 1 "$X")) [] 0 2 [] :: [], 1, []⟩ _ :=
    Spec.CStep.clauseOk (key := "t/1") (f := 20) (by decide) (by rfl) (by rfl)
  refine ⟨_, ?k, ?s, ?S, ?c, ?o, h1, by decide, ?h2, ?h3⟩
  case h2 =>
    refine Spec.CStepsAbove.step (Spec.CStep.call (key := "g/1") (by decide)) (by decide) ?_
    refine Spec.CStepsAbove.step (Spec.CStep.clauseOk (key := "g/1") (f := 20) (by decide) (by rfl) (by rfl)) (by decide) ?_
    exact Spec.CStepsAbove.refl
  case h3 => decide

/-! Non-vacuity for the machine with groups: `u($X) :- (g($X), ! ; $X = 9), fail.  u(other).` — the cut sits in the first
    member of a disjunction that is the head of a conjunction.  The knowledge base is in the fragment of `C02_groups`;
    the engine model answers none at once (no second member, no second clause); and the premises of
    `group_machine_cut` are met with three frames to discard (second clause of `u/1`, second member of the disjunction,
    second clause of `g/1`). -/
def kb1 : KB :=
  [("u/1", [⟨c1 "u" (.var 0 "$X"),
             .and (.cons (.or (.cons (.and (.cons (.call (c1 "g" (.var 0 "$X"))) (.cons (.bip "!" none) .nil)))
                               (.cons (.bip "fail" none) .nil)))
                   (.cons (.bip "fail" none) .nil))⟩,
            ⟨c1 "u" (.atom "other"), .nil⟩]),
   ("g/1", [⟨c1 "g" (.int 1), .nil⟩, ⟨c1 "g" (.int 2), .nil⟩])]
example : Spec.Grp.okKBB kb1 = true := by decide
example : (match next fo0 kb1 60 (.call (c1 "u" (.var 1 "$X")) [] false none 0 2) { G.init with counter := 1 } with
           | .ok st => some st.sol | _ => none) = some none := by decide
example : ∃ mid k' σ' S c' o', Spec.Grp.CStep fo0 kb1 ⟨.try (c1 "u" (.var 1 "$X")) [] 0 2 [] :: [], 1, []⟩ mid ∧
    ([] : List Spec.Grp.CFrame).length < mid.stack.length ∧
    Spec.Grp.CStepsAbove fo0 kb1 ([] : List Spec.Grp.CFrame).length mid
      ⟨.goals (.g (.bip "!" none) ([] : List Spec.Grp.CFrame).length :: k') σ' :: S, c', o'⟩ ∧ S.length = 3 := by
  have h1 : Spec.Grp.CStep fo0 kb1 ⟨.try (c1 "u" (.var 1 "$X")) [] 0 2 [] :: [], 1, []⟩ _ :=
    Spec.Grp.CStep.clauseOk (key := "u/1") (f := 20) (by decide) (by rfl) (by rfl)
  refine ⟨_, ?k, ?s, ?S, ?c, ?o, h1, by decide, ?h2, ?h3⟩
  case h2 =>
    refine Spec.Grp.CStepsAbove.step Spec.Grp.CStep.conj (by decide) ?_
    refine Spec.Grp.CStepsAbove.step Spec.Grp.CStep.disj (by decide) ?_
    refine Spec.Grp.CStepsAbove.step Spec.Grp.CStep.altStep (by decide) ?_
    refine Spec.Grp.CStepsAbove.step Spec.Grp.CStep.conj (by decide) ?_
    refine Spec.Grp.CStepsAbove.step (Spec.Grp.CStep.call (key := "g/1") (by decide)) (by decide) ?_
    refine Spec.Grp.CStepsAbove.step (Spec.Grp.CStep.clauseOk (key := "g/1") (f := 20) (by decide) (by rfl) (by rfl)) (by decide) ?_
    exact Spec.Grp.CStepsAbove.refl
  case h3 => decide

end Suiron.C02
