/-
  Model of `src/built_in_arithmetic.rs` and `src/built_in_join.rs`
  (the built-in functions evaluated by `unify_sfunction`).
  f64 `+ - * /`, `i64 as f64` and float printing are parameters (`FloatOps`).
-/
import SuironVerif.Model.SList
namespace Suiron

structure FloatOps where
  add : UInt64 → UInt64 → UInt64
  sub : UInt64 → UInt64 → UInt64
  mul : UInt64 → UInt64 → UInt64
  div : UInt64 → UInt64 → UInt64
  ofInt : Int → UInt64
  showF : UInt64 → String

inductive Num where
  | i (v : Int)
  | f (b : UInt64)
  deriving DecidableEq, Repr

def inI64 (v : Int) : Bool := decide (-(2^63 : Int) ≤ v) && decide (v < (2^63 : Int))

/-- result of a checked `i64` operation (dev profile: overflow panics). -/
def chk (v : Int) : Res Int := if inI64 v then .ok v else .panic

def f64Zero : UInt64 := 0
def f64One : UInt64 := 0x3FF0000000000000

/-- `get_numbers` (`built_in_arithmetic.rs`): ground every argument; panics when one
    is unbound or not a number. -/
def getNumbers (f : Nat) (σ : Subst) : List Term → Res (List Num)
  | [] => .ok []
  | t :: ts =>
    (walk f σ t).bind fun r =>
      match r with
      | some (.int i) => (getNumbers f σ ts).bind fun ns => .ok (Num.i i :: ns)
      | some (.flt b) => (getNumbers f σ ts).bind fun ns => .ok (Num.f b :: ns)
      | _ => .panic

def hasFloat : List Num → Bool
  | [] => false
  | .f _ :: _ => true
  | .i _ :: ns => hasFloat ns

def toFloats (fo : FloatOps) : List Num → List UInt64
  | [] => []
  | .f b :: ns => b :: toFloats fo ns
  | .i v :: ns => fo.ofInt v :: toFloats fo ns

def toInts : List Num → List Int
  | [] => []
  | .i v :: ns => v :: toInts ns
  | .f _ :: ns => toInts ns

/-- left fold of a checked integer operation. -/
def foldInt (op : Int → Int → Res Int) : Int → List Int → Res Int
  | acc, [] => .ok acc
  | acc, x :: xs => (op acc x).bind fun a => foldInt op a xs

inductive ArithOp where
  | add | sub | mul | div
  deriving DecidableEq, Repr

def ArithOp.ofName (s : String) : Option ArithOp :=
  if s = "add" then some .add else if s = "subtract" then some .sub
  else if s = "multiply" then some .mul else if s = "divide" then some .div else none

def intOp : ArithOp → Int → Int → Res Int
  | .add, a, b => chk (a + b)
  | .sub, a, b => chk (a - b)
  | .mul, a, b => chk (a * b)
  | .div, a, b => if b = 0 then .panic else chk (Int.tdiv a b)

def fltOp (fo : FloatOps) : ArithOp → UInt64 → UInt64 → UInt64
  | .add => fo.add
  | .sub => fo.sub
  | .mul => fo.mul
  | .div => fo.div

/-- `evaluate_add / subtract / multiply / divide` on already-grounded numbers. -/
def evalNums (fo : FloatOps) (op : ArithOp) (ns : List Num) : Res Term :=
  if hasFloat ns then
    match op with
    | .add => .ok (.flt ((toFloats fo ns).foldl fo.add f64Zero))
    | .mul => .ok (.flt ((toFloats fo ns).foldl fo.mul f64One))
    | .sub => match toFloats fo ns with
      | [] => .panic
      | x :: xs => .ok (.flt (xs.foldl fo.sub x))
    | .div => match toFloats fo ns with
      | [] => .panic
      | x :: xs => .ok (.flt (xs.foldl fo.div x))
  else
    match op with
    | .add => (foldInt (intOp .add) 0 (toInts ns)).bind fun v => .ok (.int v)
    | .mul => (foldInt (intOp .mul) 1 (toInts ns)).bind fun v => .ok (.int v)
    | .sub => match toInts ns with
      | [] => .panic
      | x :: xs => (foldInt (intOp .sub) x xs).bind fun v => .ok (.int v)
    | .div => match toInts ns with
      | [] => .panic
      | x :: xs => (foldInt (intOp .div) x xs).bind fun v => .ok (.int v)

def evalArith (fo : FloatOps) (f : Nat) (op : ArithOp) (args : List Term) (σ : Subst) : Res Term :=
  (getNumbers f σ args).bind fun ns => evalNums fo op ns

/-! ### join (`built_in_join.rs`) -/

def isPunct (s : String) : Bool := s = "," || s = "." || s = "?" || s = "!"

def joinStrs : List String → Bool → String
  | [], _ => ""
  | s :: ss, first =>
    if isPunct s then s ++ joinStrs ss false
    else if first then s ++ joinStrs ss false
    else " " ++ s ++ joinStrs ss false

def getAllTerms (f : Nat) (σ : Subst) : List Term → Res (List Term)
  | [] => .ok []
  | t :: ts => (getTerms f σ t).bind fun a => (getAllTerms f σ ts).bind fun b => .ok (a ++ b)

/-- each collected term is replaced by its ground term (repair D13) before it is formatted. -/
def groundAll (f : Nat) (σ : Subst) : List Term → Res (List Term)
  | [] => .ok []
  | t :: ts =>
    (walk f σ t).bind fun r =>
      (groundAll f σ ts).bind fun rest => .ok ((match r with | some g => g | none => t) :: rest)

def evalJoin (fo : FloatOps) (f : Nat) (args : List Term) (σ : Subst) : Res Term :=
  (getAllTerms f σ args).bind fun ts =>
    (groundAll f σ ts).bind fun gs => .ok (.atom (joinStrs (gs.map (Term.show fo.showF)) true))

/-- the value of a built-in function term (`unify_sfunction`, `built_in_functions.rs`);
    `fail` for an unknown function name (the Rust returns `None`). -/
def evalFunc (fo : FloatOps) (f : Nat) (name : String) (args : List Term) (σ : Subst) : Res Term :=
  if name = "join" then evalJoin fo f args σ
  else match ArithOp.ofName name with
    | some op => evalArith fo f op args σ
    | none => .fail

end Suiron
