/-
  Driver-side runners (trusted glue, not part of any theorem): they iterate the
  model's executable definitions the way the harness iterates the implementation.
-/
import SuironVerif.Model.Codec
import SuironVerif.Model.Native
import SuironVerif.Spec.Machine
import SuironVerif.Model.Solve
import SuironVerif.Model.Reader
namespace Suiron.Driver
open Suiron.Codec

def FUEL : Nat := 100000

def buildKB (rules : List Rule) : Res KB :=
  rules.foldlM (fun kb r => match KB.add Native.showF64 kb r with | .ok k => some k | _ => none) ([] : KB) |>
    fun o => match o with | some k => .ok k | none => .panic

/-- output written since `before` (G.out is newest-first) -/
def newOut (before after : List String) : String :=
  String.join ((after.take (after.length - before.length)).reverse)

mutual
partial def termAcyc (σ : Subst) (onStack : List Nat) : Term → Bool
  | .var i _ => varAcyc σ onStack i
  | .cplx args => args.toList.all (termAcyc σ onStack)
  | .func _ args => args.toList.all (termAcyc σ onStack)
  | .cons t n _ _ => termAcyc σ onStack t && termAcyc σ onStack n
  | _ => true
partial def varAcyc (σ : Subst) (onStack : List Nat) (i : Nat) : Bool :=
  if onStack.contains i then false
  else match σ.get i with
    | some t => termAcyc σ (i :: onStack) t
    | none => true
end

def acyclicSubst (σ : Subst) : Bool := (List.range σ.length).all (varAcyc σ [])

/-- mirror of `suite_engine::run_impl`. -/
partial def engineCalls (kb : KB) (q : Term) (node : Node) (g : G) (calls extra nones : Nat) (acc : List String) : List String :=
  if calls == 0 then acc.reverse else
  match next Native.ops kb FUEL node g with
  | .ok st =>
    let o := hex (newOut g.out st.g.out)
    match st.sol with
    | none =>
      let acc := ("N C " ++ toString st.g.counter ++ " O " ++ o) :: acc
      if nones + 1 > extra then acc.reverse
      else engineCalls kb q st.node st.g (calls - 1) extra (nones + 1) acc
    | some σ =>
      if !acyclicSubst σ then (("CYCLIC C " ++ toString st.g.counter ++ " O " ++ o) :: acc).reverse else
      let a := match resolve FUEL σ q with | .ok t => encTerm t | .panic => "panic" | _ => "oof"
      let acc := ("S " ++ encSubst σ ++ " A " ++ a ++ " C " ++ toString st.g.counter ++ " O " ++ o) :: acc
      engineCalls kb q st.node st.g (calls - 1) extra nones acc
  | .panic => ("P" :: acc).reverse
  | .oof => ("OOF" :: acc).reverse
  | .fail => ("FAIL?" :: acc).reverse

def runEngine (maxCalls extra : Nat) (query : List Term) (rules : List Rule) : String :=
  match buildKB rules with
  | .ok kb =>
    match makeQuery query with
    | .ok (.call q, c) =>
      let g0 : G := { G.init with counter := c }
      match mkNode Native.showF64 kb (.call q) [] g0 with
      | .ok (node, g1) => String.intercalate " ; " (engineCalls kb q node g1 maxCalls extra 0 [])
      | _ => "BASE-PANIC"
    | _ => "BUILD-PANIC"
  | _ => "BUILD-PANIC"

/-- the reference machine's answer sequence: `A <resolved> O <hex>` per answer, then `N O <hex>`;
    `P` = panic, `B` = step budget exhausted, `CYCLIC` as in the engine runner. -/
partial def specAnswers (kb : KB) (q : Term) (c : Spec.Config) (maxAns budget : Nat) (acc : List String) : List String :=
  if maxAns == 0 then ("MORE" :: acc).reverse else
  let r := Spec.runToAnswer Native.ops kb budget c
  let c' := r.1
  let o := hex (newOut c.out c'.out)
  match r.2.1, r.2.2 with
  | .panic, _ => ("P" :: acc).reverse
  | .done, _ => (("N O " ++ o) :: acc).reverse
  | .running, false => ("B" :: acc).reverse
  | .running, true =>
    match c'.answers with
    | σ :: _ =>
      if !acyclicSubst σ then (("CYCLIC O " ++ o) :: acc).reverse else
      let a := match resolve FUEL σ q with | .ok t => encTerm t | .panic => "panic" | _ => "oof"
      specAnswers kb q c' (maxAns - 1) budget (("A " ++ a ++ " O " ++ o) :: acc)
    | [] => ("?" :: acc).reverse

def runSpec (maxCalls : Nat) (query : List Term) (rules : List Rule) : String :=
  match buildKB rules with
  | .ok kb =>
    match makeQuery query with
    | .ok (.call q, c) => String.intercalate " ; " (specAnswers kb q (Spec.init q c) maxCalls 400000 [])
    | _ => "BUILD-PANIC"
  | _ => "BUILD-PANIC"

mutual
partial def goalHasCut : Goal → Bool
  | .bip name _ => name == "!"
  | .and gs | .or gs | .not gs | .time gs => gs.toList.any goalHasCut
  | _ => false
end
mutual
partial def cutUnderNot : Goal → Bool
  | .not gs | .time gs => gs.toList.any goalHasCut
  | .and gs | .or gs => gs.toList.any cutUnderNot
  | _ => false
end

def handleEngine (toks : List String) : String :=
  match toks with
  | mc :: ex :: "Q" :: nq :: rest =>
    match mc.toNat?, ex.toNat?, nq.toNat? with
    | some maxCalls, some extra, some k =>
      match decTerm.decTerms k rest with
      | some (query, "RULES" :: nr :: rest2) =>
        match nr.toNat? with
        | some m =>
          match decRules m rest2 with
          | some (rules, _) =>
            -- the reference machine does not define a cut under not / time (the property excludes it)
            if rules.any (fun r => cutUnderNot r.body) then runEngine maxCalls extra query rules
            else runEngine maxCalls extra query rules ++ "\nSPEC " ++ runSpec maxCalls query rules
          | none => "decode-error rules"
        | none => "decode-error"
      | _ => "decode-error query"
    | _, _, _ => "decode-error"
  | _ => "decode-error"

/-! timer histories (mirror of harness/src/suite_timer.rs) -/

inductive TOp where
  | run (api : String) (fire : Nat) (query : List Term)
  | new (h : Nat) (query : List Term)
  | next (h : Nat)

def decOps : Nat → List String → Option (List TOp × List String)
  | 0, r => some ([], r)
  | k+1, "RUN" :: api :: fire :: nq :: rest => do
    let f ← fire.toNat?
    let n ← nq.toNat?
    let (q, r1) ← decTerm.decTerms n rest
    let (ops, r2) ← decOps k r1
    pure (.run api f q :: ops, r2)
  | k+1, "NEW" :: h :: nq :: rest => do
    let hh ← h.toNat?
    let n ← nq.toNat?
    let (q, r1) ← decTerm.decTerms n rest
    let (ops, r2) ← decOps k r1
    pure (.new hh q :: ops, r2)
  | k+1, "NEXT" :: h :: rest => do
    let hh ← h.toNat?
    let (ops, r2) ← decOps k rest
    pure (.next hh :: ops, r2)
  | _, _ => none

def arm (g : G) (fire : Nat) : G := { g with ticks := 0, fireAt := if fire == 0 then none else some fire }

/-- `make_query` + `make_base_node` on the current global state. -/
def buildQuery (kb : KB) (g : G) (query : List Term) : Option (Term × Node × G) :=
  match makeQuery query with
  | .ok (.call q, c) =>
    let g0 : G := { g with counter := c, stop := false }
    match mkNode Native.showF64 kb (.call q) [] g0 with
    | .ok (node, g1) => some (q, node, g1)
    | _ => none
  | _ => none

def MAXC : Nat := 30

partial def runN (kb : KB) (q : Term) (node : Node) (g : G) (fire calls : Nat) (acc : List String) : List String × G :=
  if calls == 0 then (acc.reverse, g) else
  match next Native.ops kb FUEL node (arm g fire) with
  | .ok st =>
    let g2 := arm st.g 0
    let o := hex (newOut g.out st.g.out)
    match st.sol with
    | none => ((("none O " ++ o) :: acc).reverse, g2)
    | some σ =>
      if !acyclicSubst σ then (("CYCLIC" :: acc).reverse, g2) else
      let a := match resolve FUEL σ q with | .ok t => encTerm t | _ => "panic"
      runN kb q st.node g2 fire (calls - 1) (("A " ++ a ++ " O " ++ o) :: acc)
  | _ => (("P" :: acc).reverse, g)

partial def runS (kb : KB) (q : Term) (node : Node) (g : G) (fire calls : Nat) (acc : List String) : List String × G :=
  if calls == 0 then (acc.reverse, g) else
  let ga := arm g fire
  match solve Native.ops kb FUEL q node ga ga.fireAt with
  | .ok (s, node', g1) =>
    let g2 := arm g1 0
    let o := hex (newOut g.out g1.out)
    let acc := ("S " ++ hex s ++ " O " ++ o) :: acc
    if s == noMore || s == timeoutMsg then (acc.reverse, g2) else runS kb q node' g2 fire (calls - 1) acc
  | _ => (("P" :: acc).reverse, g)

def runA (kb : KB) (q : Term) (node : Node) (g : G) (fire : Nat) : String × G :=
  let ga := arm g fire
  match solveAll Native.ops kb FUEL 100000 q node ga ga.fireAt with
  | .ok (v, _, g1) =>
    ("ALL " ++ toString v.length ++ String.join (v.map fun s => " " ++ hex s) ++ " O " ++ hex (newOut g.out g1.out), arm g1 0)
  | _ => ("P", g)

partial def runOps (kb : KB) (ops : List TOp) (g : G) (hs : List (Nat × Term × Node)) (acc : List String) : List String :=
  match ops with
  | [] => acc.reverse
  | .run api fire query :: rest =>
    match buildQuery kb g query with
    | none => ("P" :: acc).reverse
    | some (q, node, g1) =>
      if api == "N" then
        let r := runN kb q node g1 fire MAXC []
        if r.1.getLast? == some "P" then ("P" :: acc).reverse else runOps kb rest r.2 hs (String.intercalate " , " r.1 :: acc)
      else if api == "S" then
        let r := runS kb q node g1 fire MAXC []
        if r.1.getLast? == some "P" then ("P" :: acc).reverse else runOps kb rest r.2 hs (String.intercalate " , " r.1 :: acc)
      else
        let r := runA kb q node g1 fire
        if r.1 == "P" then ("P" :: acc).reverse else runOps kb rest r.2 hs (r.1 :: acc)
  | .new h query :: rest =>
    match buildQuery kb g query with
    | none => ("P" :: acc).reverse
    | some (q, node, g1) => runOps kb rest g1 ((h, q, node) :: hs.filter (fun x => x.1 != h)) ("new" :: acc)
  | .next h :: rest =>
    match hs.find? (fun x => x.1 == h) with
    | none => runOps kb rest g hs ("nohandle" :: acc)
    | some (_, q, node) =>
      match next Native.ops kb FUEL node g with
      | .ok st =>
        let o := hex (newOut g.out st.g.out)
        let hs' := (h, q, st.node) :: hs.filter (fun x => x.1 != h)
        match st.sol with
        | none => runOps kb rest st.g hs' (("none O " ++ o) :: acc)
        | some σ =>
          if !acyclicSubst σ then runOps kb rest st.g hs' ("CYCLIC" :: acc) else
          let a := match resolve FUEL σ q with | .ok t => encTerm t | _ => "panic"
          runOps kb rest st.g hs' (("A " ++ a ++ " O " ++ o) :: acc)
      | _ => ("P" :: acc).reverse

def handleTimer (toks : List String) : String :=
  match toks with
  | ["timer-real"] => "real"
  | ["timer-stopped"] => "stopped"
  | "RULES" :: nr :: rest =>
    match nr.toNat? with
    | some m =>
      match decRules m rest with
      | some (rules, "OPS" :: no :: rest2) =>
        match no.toNat? with
        | some k =>
          match decOps k rest2, buildKB rules with
          | some (ops, _), .ok kb => String.intercalate " ; " (runOps kb ops G.init [] [])
          | _, _ => "decode-error ops"
        | none => "decode-error"
      | _ => "decode-error rules"
    | none => "decode-error"
  | _ => "decode-error"

def handleRename (toks : List String) : String :=
  match toks with
  | c :: rest =>
    match c.toNat?, decRule rest with
    | some counter, some (rule, _) =>
      match renameRule rule ⟨[], counter⟩ with
      | .ok (r2, st) => "ok " ++ encRule r2 ++ " C " ++ toString st.counter
      | _ => "panic"
    | _, _ => "decode-error"
  | _ => "decode-error"

def handleMkList (proper : Bool) (toks : List String) : String :=
  match toks with
  | vb :: n :: rest =>
    match n.toNat? with
    | some k =>
      match decTerm.decTerms k rest with
      | some (ts, _) => "ok " ++ encTerm (if proper then mkProper ts else mkList (vb == "1") ts)
      | none => "decode-error"
    | none => "decode-error"
  | _ => "decode-error"


/-! ### parser suites -/

def PFUEL : Nat := 4000

def zeroIds : Term → Term
  | t => (go t)
where
  go : Term → Term
    | .var _ n => .var 0 n
    | .cplx args => .cplx (goL args)
    | .cons t n c tv => .cons (go t) (go n) c tv
    | .func f args => .func f (goL args)
    | t => t
  goL : TermList → TermList
    | .nil => .nil
    | .cons h t => .cons (go h) (goL t)

inductive Parsed where
  | term (t : Term) | goal (g : Goal) | rule (r : Rule) | err | panic | oof

def runEntry (entry : String) (s : Parse.Text) : Parsed :=
  let po := Native.pops
  let wrapT : Res Term → Parsed := fun r => match r with | .ok t => .term t | .fail => .err | .panic => .panic | .oof => .oof
  let wrapG : Res Goal → Parsed := fun r => match r with | .ok t => .goal t | .fail => .err | .panic => .panic | .oof => .oof
  match entry with
  | "term" => wrapT (Parse.parseTerm po PFUEL s)
  | "list" => wrapT (Parse.parseLinkedList po PFUEL s)
  | "complex" => wrapT (Parse.parseComplex po PFUEL s)
  | "function" => wrapT (Parse.parseFunction po PFUEL s)
  | "query" => wrapG (Parse.parseQuery po PFUEL s)
  | "subgoal" => wrapG (Parse.parseSubgoal po PFUEL s)
  | "goal" => wrapG (Parse.generateGoal po PFUEL s)
  | _ => match Parse.parseRule po PFUEL s with | .ok r => .rule r | .fail => .err | .panic => .panic | .oof => .oof

def showParsed : Parsed → String
  | .term t => "P " ++ hex (Term.show Native.showF64 t)
  | .goal g => (match Parse.showGoal Native.showF64 g with | .ok s => "P " ++ hex s | _ => "P panic")
  | .rule r => (match Parse.showRule Native.showF64 r with | .ok s => "P " ++ hex s | _ => "P panic")
  | _ => ""

def dumpParsed : Parsed → String
  | .term t => "ok " ++ encTerm t
  | .goal g => "ok " ++ encGoal g
  | .rule r => "ok " ++ encRule r
  | .err => "err"
  | .panic => "panic"
  | .oof => "oof"

def handleParse (toks : List String) : String :=
  match toks with
  | [entry] => let p := runEntry entry []; dumpParsed p ++ (match p with | .err | .panic | .oof => "" | _ => " " ++ showParsed p)
  | [entry, h] =>
    match unhex h with
    | some s =>
      let p := runEntry entry s.toList
      dumpParsed p ++ (match p with | .err | .panic | .oof => "" | _ => " " ++ showParsed p)
    | none => "decode-error"
  | _ => "decode-error"

def handleContexts (toks : List String) : String :=
  let text : Option String := match toks with | [] => some "" | [h] => unhex h | _ => none
  match text with
  | none => "decode-error"
  | some t =>
    let s := t.toList
    let enc (t : Term) : String := "ok " ++ encTerm (zeroIds t)
    let alone := match runEntry "term" s with | .term t => enc t | .err => "err" | .panic => "panic" | _ => "other"
    let inComplex := match runEntry "complex" ("f(".toList ++ s ++ [')']) with
      | .term (.cplx (.cons _ (.cons a .nil))) => enc a | .err => "err" | .panic => "panic" | _ => "other"
    let inList := match runEntry "list" (['['] ++ s ++ [']']) with
      | .term (.cons t _ _ _) => enc t | .err => "err" | .panic => "panic" | _ => "other"
    let inInfix := match runEntry "subgoal" (s ++ " = x".toList) with
      | .goal (.bip _ (some (.cons a (.cons _ .nil)))) => enc a | .err => "err" | .panic => "panic" | _ => "other"
    let inQuery := match runEntry "query" ("q(".toList ++ s ++ [')']) with
      | .goal (.call (.cplx (.cons _ (.cons a .nil)))) => enc a | .err => "err" | .panic => "panic" | _ => "other"
    let inComplex2 := match runEntry "complex" ("f(2.5, ".toList ++ s ++ [')']) with
      | .term (.cplx (.cons _ (.cons _ (.cons a .nil)))) => enc a | .err => "err" | .panic => "panic" | _ => "other"
    let inComplex3 := match runEntry "complex" ("f(\"x y\", a.b, ".toList ++ s ++ ", 1)".toList) with
      | .term (.cplx (.cons _ (.cons _ (.cons _ (.cons a (.cons _ .nil)))))) => enc a | .err => "err" | .panic => "panic" | _ => "other"
    let inList2 := match runEntry "list" ("[0.5, ".toList ++ s ++ [']']) with
      | .term (.cons _ (.cons t _ _ _) _ _) => enc t | .term _ => "other" | .err => "err" | .panic => "panic" | _ => "other"
    String.intercalate " | " [alone, inComplex, inList, inInfix, inQuery, inComplex2, inComplex3, inList2]

/-- rules grouped by key, keys sorted (what `format_kb` lists) -/
def groupRules (rules : List Rule) : Option (List (String × List Rule)) :=
  match buildKB rules with
  | .ok kb => some (kb.toArray.qsort (fun a b => a.1 < b.1)).toList
  | _ => none

def handleReader (toks : List String) : String :=
  let text : Option String := match toks with | [] => some "" | [h] => unhex h | _ => none
  match text with
  | none => "decode-error"
  | some t =>
    let file := t.toList
    let texts := match Parse.readRules file with
      | .ok ts => "texts " ++ toString ts.length ++ String.join (ts.map fun x => " " ++ hex (String.ofList x) ++ ".")
      | .fail => "texts err" | .panic => "texts panic" | .oof => "texts oof"
    let kb := match Parse.loadKB (Parse.parseRule Native.pops PFUEL) file with
      | .ok rules =>
        (match groupRules rules with
         | some groups => "kb " ++ toString rules.length ++ String.join (groups.map fun g => String.join (g.2.map fun r => " " ++ encRule r))
         | none => "kb panic")
      | .fail => "kb err" | .panic => "kb panic" | .oof => "kb oof"
    texts ++ " ; " ++ kb

end Suiron.Driver
