/-
  Driver-side runners (trusted glue, not part of any theorem): they iterate the
  model's executable definitions the way the harness iterates the implementation.
-/
import SuironVerif.Model.Codec
import SuironVerif.Model.Native
import SuironVerif.Spec.Machine
namespace Suiron.Driver
open Suiron.Codec

def FUEL : Nat := 100000

def buildKB (rules : List Rule) : Res KB :=
  rules.foldlM (fun kb r => match KB.add Native.showF64 kb r with | .ok k => some k | _ => none) ([] : KB) |>
    fun o => match o with | some k => .ok k | none => .panic

/-- output written since `before` (G.out is newest-first) -/
def newOut (before after : List String) : String :=
  String.join ((after.take (after.length - before.length)).reverse)

mutual
partial def termAcyc (σ : Subst) (onStack : List Nat) : Term → Bool
  | .var i _ => varAcyc σ onStack i
  | .cplx args => args.toList.all (termAcyc σ onStack)
  | .func _ args => args.toList.all (termAcyc σ onStack)
  | .cons t n _ _ => termAcyc σ onStack t && termAcyc σ onStack n
  | _ => true
partial def varAcyc (σ : Subst) (onStack : List Nat) (i : Nat) : Bool :=
  if onStack.contains i then false
  else match σ.get i with
    | some t => termAcyc σ (i :: onStack) t
    | none => true
end

def acyclicSubst (σ : Subst) : Bool := (List.range σ.length).all (varAcyc σ [])

/-- mirror of `suite_engine::run_impl`. -/
partial def engineCalls (kb : KB) (q : Term) (node : Node) (g : G) (calls extra nones : Nat) (acc : List String) : List String :=
  if calls == 0 then acc.reverse else
  match next Native.ops kb FUEL node g with
  | .ok st =>
    let o := hex (newOut g.out st.g.out)
    match st.sol with
    | none =>
      let acc := ("N C " ++ toString st.g.counter ++ " O " ++ o) :: acc
      if nones + 1 > extra then acc.reverse
      else engineCalls kb q st.node st.g (calls - 1) extra (nones + 1) acc
    | some σ =>
      if !acyclicSubst σ then (("CYCLIC C " ++ toString st.g.counter ++ " O " ++ o) :: acc).reverse else
      let a := match resolve FUEL σ q with | .ok t => encTerm t | .panic => "panic" | _ => "oof"
      let acc := ("S " ++ encSubst σ ++ " A " ++ a ++ " C " ++ toString st.g.counter ++ " O " ++ o) :: acc
      engineCalls kb q st.node st.g (calls - 1) extra nones acc
  | .panic => ("P" :: acc).reverse
  | .oof => ("OOF" :: acc).reverse
  | .fail => ("FAIL?" :: acc).reverse

def runEngine (maxCalls extra : Nat) (query : List Term) (rules : List Rule) : String :=
  match buildKB rules with
  | .ok kb =>
    match makeQuery query with
    | .ok (.call q, c) =>
      let g0 : G := { G.init with counter := c }
      match mkNode Native.showF64 kb (.call q) [] g0 with
      | .ok (node, g1) => String.intercalate " ; " (engineCalls kb q node g1 maxCalls extra 0 [])
      | _ => "BASE-PANIC"
    | _ => "BUILD-PANIC"
  | _ => "BUILD-PANIC"

/-- the reference machine's answer sequence: `A <resolved> O <hex>` per answer, then `N O <hex>`;
    `P` = panic, `B` = step budget exhausted, `CYCLIC` as in the engine runner. -/
partial def specAnswers (kb : KB) (q : Term) (c : Spec.Config) (maxAns budget : Nat) (acc : List String) : List String :=
  if maxAns == 0 then ("MORE" :: acc).reverse else
  let r := Spec.runToAnswer Native.ops kb budget c
  let c' := r.1
  let o := hex (newOut c.out c'.out)
  match r.2.1, r.2.2 with
  | .panic, _ => ("P" :: acc).reverse
  | .done, _ => (("N O " ++ o) :: acc).reverse
  | .running, false => ("B" :: acc).reverse
  | .running, true =>
    match c'.answers with
    | σ :: _ =>
      if !acyclicSubst σ then (("CYCLIC O " ++ o) :: acc).reverse else
      let a := match resolve FUEL σ q with | .ok t => encTerm t | .panic => "panic" | _ => "oof"
      specAnswers kb q c' (maxAns - 1) budget (("A " ++ a ++ " O " ++ o) :: acc)
    | [] => ("?" :: acc).reverse

def runSpec (maxCalls : Nat) (query : List Term) (rules : List Rule) : String :=
  match buildKB rules with
  | .ok kb =>
    match makeQuery query with
    | .ok (.call q, c) => String.intercalate " ; " (specAnswers kb q (Spec.init q c) maxCalls 400000 [])
    | _ => "BUILD-PANIC"
  | _ => "BUILD-PANIC"

def handleEngine (toks : List String) : String :=
  match toks with
  | mc :: ex :: "Q" :: nq :: rest =>
    match mc.toNat?, ex.toNat?, nq.toNat? with
    | some maxCalls, some extra, some k =>
      match decTerm.decTerms k rest with
      | some (query, "RULES" :: nr :: rest2) =>
        match nr.toNat? with
        | some m =>
          match decRules m rest2 with
          | some (rules, _) => runEngine maxCalls extra query rules ++ "\nSPEC " ++ runSpec maxCalls query rules
          | none => "decode-error rules"
        | none => "decode-error"
      | _ => "decode-error query"
    | _, _, _ => "decode-error"
  | _ => "decode-error"

def handleRename (toks : List String) : String :=
  match toks with
  | c :: rest =>
    match c.toNat?, decRule rest with
    | some counter, some (rule, _) =>
      match renameRule rule ⟨[], counter⟩ with
      | .ok (r2, st) => "ok " ++ encRule r2 ++ " C " ++ toString st.counter
      | _ => "panic"
    | _, _ => "decode-error"
  | _ => "decode-error"

def handleMkList (proper : Bool) (toks : List String) : String :=
  match toks with
  | vb :: n :: rest =>
    match n.toNat? with
    | some k =>
      match decTerm.decTerms k rest with
      | some (ts, _) => "ok " ++ encTerm (if proper then mkProper ts else mkList (vb == "1") ts)
      | none => "decode-error"
    | none => "decode-error"
  | _ => "decode-error"

end Suiron.Driver
