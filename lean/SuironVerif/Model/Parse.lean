/-
  Model of the term-level parser:
    `src/parse_terms.rs`  (parse_arguments, make_term, check_quotes, parse_term)
    `src/infix.rs`        (check_infix, check_arithmetic_infix)
    `src/logic_var.rs`    (make_logic_var)
    `src/s_linked_list.rs`(parse_linked_list, link_front, equal_escape)
    `src/s_complex.rs`    (parse_complex, validate_complex, parse_functor_terms, parse_query)
    `src/parse_goals.rs`  (indices_of_parentheses, get_left_and_right)
    `src/built_in_functions.rs` (parse_function)
  Text is `List Char` (Rust: `Vec<char>` obtained with `str_to_chars!`).
  `Res.fail` stands for `Err(message)`: messages are not modelled.
  Every indexing / slicing operation of the Rust code that is not guarded by the loop
  condition itself is an explicit `.panic` branch here, so that "never panics" is a theorem
  (Props/C18.lean), not an artefact of the translation.
  Core Lean only.
-/
import SuironVerif.Model.Goal
namespace Suiron.Parse

abbrev Text := List Char

/-- the parts of `std` that are parameters of the model: `str::parse::<f64>()` on the strings
    `make_term` hands to it, and `char::is_alphabetic`. -/
structure POps where
  parseF : Text → Option UInt64
  isAlpha : Char → Bool

/-- `char::is_whitespace` (Unicode White_Space), used by `str::trim`. -/
def isWs (c : Char) : Bool :=
  let n := c.toNat
  (9 ≤ n && n ≤ 13) || n == 32 || n == 0x85 || n == 0xA0 || n == 0x1680 ||
  (0x2000 ≤ n && n ≤ 0x200A) || n == 0x2028 || n == 0x2029 || n == 0x202F || n == 0x205F || n == 0x3000

def trimStart (s : Text) : Text := s.dropWhile isWs
def trimEnd (s : Text) : Text := (s.reverse.dropWhile isWs).reverse
/-- `str::trim` -/
def trim (s : Text) : Text := trimEnd (trimStart s)

def isDigit (c : Char) : Bool := '0'.toNat ≤ c.toNat && c.toNat ≤ '9'.toNat

def txt (s : String) : Text := s.toList
def str (t : Text) : String := String.ofList t

/-! ### `str::parse::<i64>()` -/

def digitsVal : Text → Nat → Option Nat
  | [], acc => some acc
  | c :: cs, acc => if isDigit c then digitsVal cs (acc * 10 + (c.toNat - '0'.toNat)) else none

def parseI64 (s : Text) : Option Int :=
  match s with
  | [] => none
  | '-' :: ds =>
    if ds.isEmpty then none else
    (digitsVal ds 0).bind fun n => if n ≤ 2^63 then some (- (Int.ofNat n)) else none
  | '+' :: ds =>
    if ds.isEmpty then none else
    (digitsVal ds 0).bind fun n => if n < 2^63 then some (Int.ofNat n) else none
  | ds => (digitsVal ds 0).bind fun n => if n < 2^63 then some (Int.ofNat n) else none

/-! ### `make_logic_var` (`logic_var.rs:75-96`) -/

def makeLogicVar (po : POps) (name : Text) : Res Term :=
  let t := trim name
  match t with
  | c0 :: c1 :: _ =>
    if c0 != '$' then .fail
    else if !po.isAlpha c1 then .fail
    else .ok (.var 0 (str t))
  | _ => .fail

/-! ### `check_quotes` (`parse_terms.rs`) -/

def checkQuotes (s : Text) (count : Nat) : Res Unit :=
  if count == 0 then .ok ()
  else if count != 2 then .fail
  else match s with
    | [] => .panic                         -- `chrs[0]` on an empty string
    | first :: _ =>
      if first != '"' then .fail
      else match s.getLast? with
        | none => .panic
        | some last => if last != '"' then .fail else .ok ()

/-! ### `check_arithmetic_infix`, `check_infix` (`infix.rs`) -/

inductive Infix where
  | none | unify | equal | gt | lt | ge | le | plus | minus | mul | div
  deriving DecidableEq, Repr

/-- the common scanning loop of both functions.  `skip = some t`: we are inside quoted /
    parenthesised text whose closing character `t` is known to occur later (Rust: the inner
    `while j < length` loop found it and set `i = j`); `prev` is then the opening character. -/
def arithLoop : Text → Nat → Char → Option Char → Infix × Nat
  | [], _, _, _ => (.none, 0)
  | c :: rest, i, prev, some t =>
    if c == t then arithLoop rest (i + 1) prev none else arithLoop rest (i + 1) prev (some t)
  | c1 :: rest, i, prev, none =>
    if c1 == '"' then
      arithLoop rest (i + 1) c1 (if rest.contains '"' then some '"' else none)
    else if c1 == '(' then
      arithLoop rest (i + 1) c1 (if rest.contains ')' then some ')' else none)
    else if prev != ' ' then arithLoop rest (i + 1) c1 none
    else
      let c2 := rest.head?.getD '#'
      if c1 == '+' && c2 == ' ' then (.plus, i)
      else if c1 == '-' && c2 == ' ' then (.minus, i)
      else if c1 == '*' && c2 == ' ' then (.mul, i)
      else if c1 == '/' && c2 == ' ' then (.div, i)
      else arithLoop rest (i + 1) c1 none

def checkArithmeticInfix (chrs : Text) : Infix × Nat := arithLoop chrs 0 '#' none

def infixLoop (len : Nat) : Text → Nat → Char → Option Char → Infix × Nat
  | [], _, _, _ => (.none, 0)
  | c :: rest, i, prev, some t =>
    if c == t then infixLoop len rest (i + 1) prev none else infixLoop len rest (i + 1) prev (some t)
  | c1 :: rest, i, prev, none =>
    if c1 == '"' then
      infixLoop len rest (i + 1) c1 (if rest.contains '"' then some '"' else none)
    else if c1 == '(' then
      infixLoop len rest (i + 1) c1 (if rest.contains ')' then some ')' else none)
    else if prev != ' ' then infixLoop len rest (i + 1) c1 none
    else if i + 2 ≥ len then (.none, 0)          -- `if i >= (length - 2)`; here length ≥ 2
    else
      let c2 := rest.head?.getD '#'
      let c3 := (rest.drop 1).head?.getD '#'
      if c1 == '<' then
        if c2 == '=' then (if c3 == ' ' then (.le, i) else infixLoop len rest (i + 1) c1 none)
        else if c2 == ' ' then (.lt, i) else infixLoop len rest (i + 1) c1 none
      else if c1 == '>' then
        if c2 == '=' then (if c3 == ' ' then (.ge, i) else infixLoop len rest (i + 1) c1 none)
        else if c2 == ' ' then (.gt, i) else infixLoop len rest (i + 1) c1 none
      else if c1 == '=' then
        if c2 == '=' then (if c3 == ' ' then (.equal, i) else infixLoop len rest (i + 1) c1 none)
        else if c2 == ' ' then (.unify, i) else infixLoop len rest (i + 1) c1 none
      else infixLoop len rest (i + 1) c1 none

def checkInfix (chrs : Text) : Infix × Nat := infixLoop chrs.length chrs 0 '#' none

/-! ### `indices_of_parentheses` (`parse_goals.rs`) -/

structure ParenScan where
  left : Option Nat := none
  right : Option Nat := none
  nl : Nat := 0
  nr : Nat := 0
  inQuotes : Bool := false         -- (repair D22) between double quotes
  escaped : Bool := false          -- (repair D22) the previous character was an escaping backslash

def parenScan : Text → Nat → ParenScan → ParenScan
  | [], _, st => st
  | c :: rest, i, st =>
    if st.escaped then parenScan rest (i + 1) { st with escaped := false }
    else if st.inQuotes then parenScan rest (i + 1) { st with inQuotes := !(c == '"') }
    else if c == '"' then parenScan rest (i + 1) { st with inQuotes := true }
    else if c == '\\' then parenScan rest (i + 1) { st with escaped := true }
    else if c == '(' then parenScan rest (i + 1) { st with left := st.left.orElse (fun _ => some i), nl := st.nl + 1 }
    else if c == ')' then parenScan rest (i + 1) { st with right := some i, nr := st.nr + 1 }
    else parenScan rest (i + 1) st

/-- `ok none` = no parentheses, `ok (some (l, r))`, `fail` = unbalanced / invalid. -/
def indicesOfParentheses (chrs : Text) : Res (Option (Nat × Nat)) :=
  let st := parenScan chrs 0 {}
  if st.nl != st.nr then .fail
  else match st.left, st.right with
    | none, none => .ok none
    | some l, some r => if r < l then .fail else .ok (some (l, r))
    | some _, none => .fail        -- unreachable when the counts agree (kept total)
    | none, some _ => .fail

/-- `&chrs[a..b]`: panics unless `a ≤ b ≤ len`. -/
def slice (chrs : Text) (a b : Nat) : Res Text :=
  if a ≤ b ∧ b ≤ chrs.length then .ok ((chrs.take b).drop a) else .panic

/-! ### `validate_complex` (`s_complex.rs`) -/

def validateComplex (chrs : Text) : Res Unit :=
  match chrs with
  | [] => .fail
  | first :: _ =>
    if chrs.length > 1000 then .fail
    else if first == '$' || first == '(' then .fail
    else .ok ()

/-! ### `link_front`, the empty list -/

def linkFront (t : Term) (tail : Bool) (list : Term) : Res Term :=
  match list with
  | .cons _ _ count _ => .ok (.cons t list (count + 1) tail)
  | _ => .panic

/-! ### the `loop` of `parse_linked_list` (`s_linked_list.rs:222-331`), run over the reversed
      argument characters: the head of the list is `arguments_chars[ind]`, the next element is
      `arguments_chars[ind - 1]` (what `equal_escape` looks at). `seg` is
      `arguments_chars[ind + 1 .. end_index]`. -/

structure ListSt where
  vbar : Bool := false
  openQuote : Bool := false
  numQuotes : Nat := 0
  round : Int := 0
  square : Int := 0
  list : Term := Term.empty
  seg : Text := []

def ListSt.push (st : ListSt) (c : Char) : ListSt := { st with seg := c :: st.seg }

/-- the `,` branch: the text after the comma is an element -/
def listComma (pt : Text → Res Term) (st : ListSt) : Res ListSt :=
  let s2 := trim st.seg
  if s2.isEmpty then .fail
  else (checkQuotes s2 st.numQuotes).bind fun _ =>
    (pt s2).bind fun term =>
      (linkFront term false st.list).bind fun l =>
        .ok { st with list := l, numQuotes := 0, seg := [] }

/-- the `|` branch: the text after the bar must be a variable -/
def listBar (po : POps) (st : ListSt) : Res ListSt :=
  if st.vbar then .fail
  else
    let t2 := trim st.seg
    if t2.isEmpty then .fail
    else (makeLogicVar po t2).bind fun v =>
      (linkFront v true st.list).bind fun l => .ok { st with list := l, vbar := true, seg := [] }

/-- the branch taken outside quotes, parentheses and brackets of the elements -/
def listStepTop (po : POps) (pt : Text → Res Term) (c : Char) (esc : Bool) (st : ListSt) : Res ListSt :=
  let eq (ch : Char) : Bool := c == ch && !esc
  if eq '"' then .ok { st.push c with openQuote := true, numQuotes := st.numQuotes + 1 }
  else if eq ',' then listComma pt st
  else if eq '|' then listBar po st
  else .ok (st.push c)

/-- the body of the loop for the character `c`; `esc` = the character before it is a backslash -/
def listStep (po : POps) (pt : Text → Res Term) (c : Char) (esc : Bool) (st : ListSt) : Res ListSt :=
  let eq (ch : Char) : Bool := c == ch && !esc
  if st.openQuote then
    (if eq '"' then
       .ok { st.push c with openQuote := false, numQuotes := (if st.round == 0 && st.square == 0 then st.numQuotes + 1 else st.numQuotes) }
     else .ok (st.push c))
  -- (after repair D23: quotes inside an element protect its brackets and parentheses)
  else if !(st.round == 0 && st.square == 0) && eq '"' then .ok { st.push c with openQuote := true }
  else if eq ']' then .ok { st.push c with square := st.square + 1 }
  else if eq '[' then .ok { st.push c with square := st.square - 1 }
  else if eq ')' then .ok { st.push c with round := st.round + 1 }
  else if eq '(' then .ok { st.push c with round := st.round - 1 }
  else if st.round == 0 && st.square == 0 then listStepTop po pt c esc st
  else .ok (st.push c)

/-- `if ind == 0`: the first element -/
def listFinish (pt : Text → Res Term) (st : ListSt) : Res Term :=
  let s2 := trim st.seg
  if s2.isEmpty then .fail
  else (checkQuotes s2 st.numQuotes).bind fun _ =>
    (pt s2).bind fun term => linkFront term false st.list

def listLoop (po : POps) (pt : Text → Res Term) : Text → ListSt → Res Term
  | [], _ => .panic                       -- the loop body always runs at least once (length_args ≥ 1)
  | c :: restRev, st =>
    (listStep po pt c (restRev.head? == some '\\') st).bind fun st' =>
      match restRev with
      | [] => listFinish pt st'
      | _ :: _ => listLoop po pt restRev st'

/-- `parse_linked_list`, given the term parser for the elements. -/
def parseLinkedListWith (po : POps) (pt : Text → Res Term) (toParse : Text) : Res Term :=
  let s := trim toParse
  if s.length < 2 then .fail
  else match s.head?, s.getLast? with
    | some first, some last =>
      if first != '[' then .fail
      else if last != ']' then .fail
      else if s.length == 2 then .ok Term.empty
      else listLoop po pt ((s.drop 1).dropLast).reverse {}
    | _, _ => .panic

/-! ### the `while` loop of `parse_arguments` (`parse_terms.rs:88-191`) -/

structure ArgSt where
  hasDigit : Bool := false
  hasNonDigit : Bool := false
  hasPeriod : Bool := false
  openQuote : Bool := false
  numQuotes : Nat := 0
  round : Int := 0
  square : Int := 0
  arg : Text := []                 -- `argument`
  terms : List Term := []          -- `term_list`
  pending : Bool := true           -- `start < length_chrs`
  esc : Bool := false              -- the previous character was a top-level backslash: `i += 1; argument.push(chrs[i])`

/-- `argument.push(ch)` -/
def ArgSt.push (st : ArgSt) (ch : Char) : ArgSt := { st with arg := st.arg ++ [ch] }

/-- the `,` branch: the argument collected so far becomes a term -/
def argComma (mk : Text → Bool → Bool → Bool → Res Term) (rest : Text) (st : ArgSt) : Res ArgSt :=
  let s2 := trim st.arg
  (checkQuotes s2 st.numQuotes).bind fun _ =>
    (mk s2 st.hasDigit (st.hasNonDigit || s2.any isWs) st.hasPeriod).bind fun t =>
      .ok { st with numQuotes := 0, terms := st.terms ++ [t], arg := [],
                    hasDigit := false, hasNonDigit := false, hasPeriod := false,
                    pending := !rest.isEmpty }

/-- the `+` / `-` branch -/
def argSign (ch : Char) (rest : Text) (st : ArgSt) : ArgSt :=
  let st1 := st.push ch
  let nextCh := rest.head?.getD 'x'
  let atStart := (trim st1.arg).length == 1
  { st1 with hasNonDigit := st.hasNonDigit || (!atStart || !isDigit nextCh) }

/-- the branch taken outside quotes, parentheses and brackets -/
def argStepTop (mk : Text → Bool → Bool → Bool → Res Term) (ch : Char) (rest : Text) (st : ArgSt) : Res ArgSt :=
  if ch == ',' then argComma mk rest st
  else if isDigit ch then .ok { st.push ch with hasDigit := true }
  else if ch == '+' || ch == '-' then .ok (argSign ch rest st)
  else if ch == '.' then .ok { st.push ch with hasPeriod := true }
  else if ch == '\\' then
    -- escape character: the next character is taken as it is; at the end the backslash itself
    -- (after repair D19: an argument with an escape is not a number)
    (if rest.isEmpty then .ok { st.push ch with hasNonDigit := true } else .ok { st with esc := true, hasNonDigit := true })
  else if ch == '"' then .ok { st.push ch with openQuote := true, numQuotes := st.numQuotes + 1 }
  else .ok { st.push ch with hasNonDigit := st.hasNonDigit || !isWs ch }

/-- one iteration of the `while` loop (`rest` = the characters after `ch`). -/
def argStep (mk : Text → Bool → Bool → Bool → Res Term) (ch : Char) (rest : Text) (st : ArgSt) : Res ArgSt :=
  if st.esc then .ok { st.push ch with esc := false }
  else if st.openQuote then
    .ok { st.push ch with openQuote := !(ch == '"'),
                          numQuotes := if ch == '"' && st.round == 0 && st.square == 0 then st.numQuotes + 1 else st.numQuotes }
  -- (after repair D23: between double quotes, brackets and parentheses are ordinary characters at every depth)
  else if ch == '"' && !(st.round == 0 && st.square == 0) then .ok { st.push ch with openQuote := true, hasNonDigit := true }
  -- (after repair D20: brackets, parentheses and what they hold are not digits)
  else if ch == '[' then .ok { st.push ch with square := st.square + 1, hasNonDigit := true }
  else if ch == ']' then .ok { st.push ch with square := st.square - 1, hasNonDigit := true }
  else if ch == '(' then .ok { st.push ch with round := st.round + 1, hasNonDigit := true }
  else if ch == ')' then .ok { st.push ch with round := st.round - 1, hasNonDigit := true }
  else if st.round == 0 && st.square == 0 then argStepTop mk ch rest st
  else .ok { st.push ch with hasNonDigit := true }

/-- what follows the loop: the last argument, then the bracket counts -/
def argsFinish (mk : Text → Bool → Bool → Bool → Res Term) (st : ArgSt) : Res (List Term) :=
  let fin : Res (List Term) :=
    if st.pending then
      let s2 := trim st.arg
      (checkQuotes s2 st.numQuotes).bind fun _ =>
        (mk s2 st.hasDigit (st.hasNonDigit || s2.any isWs) st.hasPeriod).bind fun t => .ok (st.terms ++ [t])
    else .ok st.terms
  fin.bind fun ts =>
    if st.round != 0 then .fail
    else if st.square != 0 then .fail
    else .ok ts

def argsLoop (mk : Text → Bool → Bool → Bool → Res Term) : Text → ArgSt → Res (List Term)
  | [], st => argsFinish mk st
  | ch :: rest, st => (argStep mk ch rest st).bind fun st' => argsLoop mk rest st'

/-- `parse_arguments`, given `make_term`. -/
def parseArgumentsWith (mk : Text → Bool → Bool → Bool → Res Term) (toParse : Text) : Res (List Term) :=
  let s := trim toParse
  match s with
  | [] => .fail
  | first :: _ =>
    if first == ',' then .fail
    else
      let lastIsComma := s.getLast? == some ','
      -- `chrs[length_chrs - 2]`: the length is ≥ 2 here because the first character is not a comma
      let prevChk : Res Bool :=
        if lastIsComma then
          (if s.length < 2 then .panic
           else .ok (s[s.length - 2]? != some '\\'))
        else .ok false
      prevChk.bind fun missingLast =>
        if missingLast then .fail else argsLoop mk s {}

/-! ### `parse_functor_terms`, `parse_complex`, `parse_function` -/

def parseFunctorTerms (pa : Text → Res (List Term)) (functor terms : Text) : Res Term :=
  let f := Term.atom (str (trim functor))
  if terms.isEmpty then .ok (.cplx (.cons f .nil))
  else (pa terms).bind fun ts => .ok (.cplx (.cons f (TermList.ofList ts)))

def parseComplexWith (pa : Text → Res (List Term)) (toParse : Text) : Res Term :=
  let s := trim toParse
  (validateComplex s).bind fun _ =>
    (indicesOfParentheses s).bind fun idx =>
      match idx with
      | some (l, r) =>
        (slice s 0 l).bind fun functor =>
          (slice s (l + 1) r).bind fun args => parseFunctorTerms pa functor args
      | none => parseFunctorTerms pa s []

def parseFunctionWith (pa : Text → Res (List Term)) (toParse : Text) : Res Term :=
  let s := trim toParse
  (validateComplex s).bind fun _ =>
    (indicesOfParentheses s).bind fun idx =>
      match idx with
      | some (l, r) =>
        (slice s 0 l).bind fun name =>
          (slice s (l + 1) r).bind fun termsStr =>
            if termsStr.isEmpty then .fail
            else (pa termsStr).bind fun ts => .ok (.func (str name) (TermList.ofList ts))
      | none => .fail

def startsWith (s : Text) (p : String) : Bool := p.toList.isPrefixOf s

/-- how one character changes `(has_digit, has_non_digit, has_period)`; `lead` = the character is a
    sign in front of a number (first character, a digit follows) -/
def flagStep (ch : Char) (lead : Bool) (fl : Bool × Bool × Bool) : Bool × Bool × Bool :=
  if isDigit ch then (true, fl.2.1, fl.2.2)
  else if ch == '.' then (fl.1, fl.2.1, true)
  else if (ch == '+' || ch == '-') && lead then fl
  else (fl.1, true, fl.2.2)

def flagLoop (signOK : Bool) : Text → Nat → Bool × Bool × Bool → Bool × Bool × Bool
  | [], _, acc => acc
  | ch :: rest, i, acc => flagLoop signOK rest (i + 1) (flagStep ch (i == 0 && signOK) acc)

/-- the flag loop of `parse_term` (`parse_terms.rs:361-372`). -/
def termFlags (chrs : Text) : Bool × Bool × Bool :=
  let signOK : Bool := chrs.length > 1 && isDigit ((chrs.drop 1).head?.getD 'x')
  flagLoop signOK chrs 0 (false, false, false)

/-- `unescape` (repairs D19, D21): outside quotes, parentheses and brackets a backslash is dropped and the character
    after it is taken as it is; a backslash at the end stays. Also counts the double quotes outside parentheses
    and brackets, the way `parse_arguments` counts them. -/
def unescLoop : Text → Int → Int → Bool → Text × Nat
  | [], _, _, _ => ([], 0)
  | ch :: rest, round, square, oq =>
    let keep (r : Text × Nat) (q : Nat) : Text × Nat := (ch :: r.1, r.2 + q)
    if oq then keep (unescLoop rest round square (!(ch == '"'))) (if ch == '"' && round == 0 && square == 0 then 1 else 0)
    else if ch == '"' && !(round == 0 && square == 0) then keep (unescLoop rest round square true) 0
    else if ch == '[' then keep (unescLoop rest round (square + 1) false) 0
    else if ch == ']' then keep (unescLoop rest round (square - 1) false) 0
    else if ch == '(' then keep (unescLoop rest (round + 1) square false) 0
    else if ch == ')' then keep (unescLoop rest (round - 1) square false) 0
    else if round == 0 && square == 0 then
      if ch == '"' then keep (unescLoop rest round square true) 1
      else if ch == '\\' then
        match rest with
        | c :: rest' => let r := unescLoop rest' round square false; (c :: r.1, r.2)
        | [] => ([ch], 0)
      else keep (unescLoop rest round square false) 0
    else keep (unescLoop rest round square false) 0

def unescape (s : Text) : Text × Nat := unescLoop s 0 0 false

mutual
/-- `parse_term` -/
def parseTerm (po : POps) : Nat → Text → Res Term
  | 0, _ => .oof
  | f+1, toParse =>
    let s := trim toParse
    let ix := checkArithmeticInfix s
    if ix.1 == .plus || ix.1 == .minus || ix.1 == .mul || ix.1 == .div then
      -- get_left_and_right(chrs, index, 1)
      (slice s 0 ix.2).bind fun a1 =>
        (slice s (ix.2 + 1) s.length).bind fun a2 =>
          (parseTerm po f a1).bind fun l =>
            (parseTerm po f a2).bind fun r =>
              let name := match ix.1 with
                | .plus => "add" | .minus => "subtract" | .mul => "multiply" | _ => "divide"
              .ok (.func name (.cons l (.cons r .nil)))
    else
      let fl := termFlags s
      -- after repair D19: escaping backslashes are removed the way parse_arguments removes them
      let u := unescape s
      -- after repair D21: stray quotes are rejected as in parse_arguments and parse_linked_list
      let s2 := trim u.1
      (checkQuotes s2 u.2).bind fun _ => makeTerm po f s2 fl.1 fl.2.1 fl.2.2
/-- `make_term` -/
def makeTerm (po : POps) : Nat → Text → Bool → Bool → Bool → Res Term
  | 0, _, _, _, _ => .oof
  | f+1, toParse, hasDigit, hasNonDigit, hasPeriod =>
    let s := trim toParse
    match s with
    | [] => .fail
    | first :: _ =>
      if first == '$' then
        if s == ['$', '_'] then .ok .anon
        else match makeLogicVar po s with
          | .ok v => .ok v
          | _ => .ok (.atom (str s))
      else
        let number : Res Term :=
          if hasDigit && !hasNonDigit then
            if hasPeriod then (match po.parseF s with | some b => .ok (.flt b) | none => .fail)
            else (match parseI64 s with | some i => .ok (.int i) | none => .fail)
          else .ok (.atom (str s))
        if s.length ≥ 2 then
          match s.getLast? with
          | none => .panic
          | some last =>
            if first == '"' then
              if last == '"' then
                let inner := (s.drop 1).dropLast
                if inner.isEmpty then .fail else .ok (.atom (str inner))
              else .fail
            else if first == '[' && last == ']' then parseLinkedList po f s
            else if first != '(' && last == ')' then
              if startsWith s "join(" || startsWith s "add(" || startsWith s "subtract(" ||
                 startsWith s "multiply(" || startsWith s "divide(" then
                parseFunctionWith (parseArguments po f) s
              else parseComplexWith (parseArguments po f) s
            else number
        else number
/-- `parse_arguments` -/
def parseArguments (po : POps) : Nat → Text → Res (List Term)
  | 0, _ => .oof
  | f+1, s => parseArgumentsWith (makeTerm po f) s
/-- `parse_linked_list` -/
def parseLinkedList (po : POps) : Nat → Text → Res Term
  | 0, _ => .oof
  | f+1, s => parseLinkedListWith po (parseTerm po f) s
end

def parseComplex (po : POps) (f : Nat) (s : Text) : Res Term := parseComplexWith (parseArguments po f) s
def parseFunction (po : POps) (f : Nat) (s : Text) : Res Term := parseFunctionWith (parseArguments po f) s

/-- `parse_query`: drop one final period, `parse_complex`, `make_query`. -/
def parseQuery (po : POps) (f : Nat) (toParse : Text) : Res Goal :=
  let p2 := if toParse.getLast? == some '.' then toParse.dropLast else toParse
  (parseComplex po f p2).bind fun q =>
    match q with
    | .cplx ts => (makeQuery ts.toList).bind fun r => .ok r.1
    | _ => .panic

end Suiron.Parse
