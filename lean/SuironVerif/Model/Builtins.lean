/-
  Model of the built-in predicates dispatched by `next_solution_bip`
  (`src/built_in_predicates.rs`): comparison, append, count, include/exclude,
  functor, print, print_list, nl.  (`!` and `fail` are handled by the engine.)
-/
import SuironVerif.Model.Unify
namespace Suiron

/-! ### comparison (`built_in_comparison.rs`) -/

/-- `get_constant` (`substitution_set.rs`). -/
def getConstant (f : Nat) (σ : Subst) (t : Term) : Res (Option Term) :=
  match t with
  | .flt b => .ok (some (.flt b))
  | .int i => .ok (some (.int i))
  | .atom s => .ok (some (.atom s))
  | .var i n =>
    (walk f σ (.var i n)).bind fun r =>
      match r with
      | some (.flt b) => .ok (some (.flt b))
      | some (.int i) => .ok (some (.int i))
      | some (.atom s) => .ok (some (.atom s))
      | _ => .ok none
  | _ => .ok none

inductive CmpOp where
  | eq | lt | le | gt | ge
  deriving DecidableEq, Repr

def CmpOp.ofName (s : String) : Option CmpOp :=
  if s = "equal" then some .eq else if s = "less_than" then some .lt
  else if s = "less_than_or_equal" then some .le else if s = "greater_than" then some .gt
  else if s = "greater_than_or_equal" then some .ge else none

def cmpStr (op : CmpOp) (a b : String) : Bool :=
  match op with
  | .eq => a == b
  | .lt => decide (a < b)
  | .le => decide (a < b) || a == b
  | .gt => decide (b < a)
  | .ge => decide (b < a) || a == b

def cmpInt (op : CmpOp) (a b : Int) : Bool :=
  match op with
  | .eq => a == b
  | .lt => decide (a < b)
  | .le => decide (a ≤ b)
  | .gt => decide (b < a)
  | .ge => decide (b ≤ a)

def cmpFlt (op : CmpOp) (a b : UInt64) : Bool :=
  match op with
  | .eq => fEq a b
  | .lt => fLt a b
  | .le => fLe a b
  | .gt => fLt b a
  | .ge => fLe b a

/-- the `match two_terms` of each comparison predicate. -/
def cmpConst (fo : FloatOps) (op : CmpOp) (a b : Term) : Bool :=
  match a, b with
  | .atom s1, .atom s2 => cmpStr op s1 s2
  | .int i1, .int i2 => cmpInt op i1 i2
  | .flt f1, .flt f2 => cmpFlt op f1 f2
  | .flt f1, .int i => cmpFlt op f1 (fo.ofInt i)
  | .int i, .flt f2 => cmpFlt op (fo.ofInt i) f2
  | _, _ => false

def bipCompare (fo : FloatOps) (f : Nat) (op : CmpOp) (args : Option (List Term)) (σ : Subst) : Res (Option Subst) :=
  match args with
  | none => .ok none
  | some (t0 :: t1 :: _) =>
    (getConstant f σ t0).bind fun l =>
      match l with
      | none => .ok none
      | some a =>
        (getConstant f σ t1).bind fun r =>
          match r with
          | none => .ok none
          | some b => if cmpConst fo op a b then .ok (some σ) else .ok none
  | some _ => .panic

/-! ### append / count / include / exclude / functor -/

/-- convert "unify returned None" into an ordinary value -/
def optUnify (fo : FloatOps) (f : Nat) (a b : Term) (σ : Subst) : Res (Option Subst) :=
  match unify fo f a b σ with
  | .ok s => .ok (some s)
  | .fail => .ok none
  | .panic => .panic
  | .oof => .oof

def groundTop (f : Nat) (σ : Subst) (t : Term) : Res Term :=
  match t with
  | .var i n => (walk f σ (.var i n)).bind fun r => .ok (match r with | some g => g | none => .var i n)
  | t => .ok t

/-- what one input of `append` contributes: a variable is replaced by its ground term; a list gives
    its terms (`get_terms`, continuing through a bound tail variable), an unbound variable nothing,
    anything else itself. -/
def contribution (f : Nat) (σ : Subst) (t : Term) : Res (List Term) :=
  (groundTop f σ t).bind fun g =>
    match g with
    | .cons a b c d => getTerms f σ (.cons a b c d)
    | .var _ _ => .ok []
    | x => .ok [x]

/-- the `for i in 0..(length - 1)` loop of `next_solution_append`. -/
def appendCollect (f : Nat) (σ : Subst) : List Term → Res (List Term)
  | [] => .ok []
  | t :: ts =>
    (contribution f σ t).bind fun here =>
      (appendCollect f σ ts).bind fun rest => .ok (here ++ rest)

def bipAppend (fo : FloatOps) (f : Nat) (args : Option (List Term)) (σ : Subst) : Res (Option Subst) :=
  match args with
  | none => .ok none
  | some ts =>
    if ts.length < 2 then .ok none
    else
      (appendCollect f σ ts.dropLast).bind fun out =>
        match ts.getLast? with
        | some last => optUnify fo f last (mkProper out) σ
        | none => .panic

def bipCount (fo : FloatOps) (f : Nat) (args : Option (List Term)) (σ : Subst) : Res (Option Subst) :=
  match args with
  | some [l, out] => (countTerms f σ l).bind fun n => optUnify fo f out (.int n) σ
  | _ => .panic

/-- `filter` (`s_linked_list.rs`): the elements that do / do not unify with the pattern. -/
def filterHeads (fo : FloatOps) (f : Nat) (pat : Term) (σ : Subst) (incl : Bool) : List Term → Res (List Term)
  | [] => .ok []
  | h :: hs =>
    (optUnify fo f pat h σ).bind fun r =>
      (filterHeads fo f pat σ incl hs).bind fun rest =>
        .ok (if r.isSome == incl then h :: rest else rest)

def bipFilter (fo : FloatOps) (f : Nat) (incl : Bool) (args : Option (List Term)) (σ : Subst) : Res (Option Subst) :=
  match args with
  | some [pat, l, out] =>
    (walk f σ l).bind fun g =>
      match g with
      | some (.cons h n _ _) =>
        (listHeads true f σ h n).bind fun heads =>
          (filterHeads fo f pat σ incl heads).bind fun kept => optUnify fo f out (mkProper kept) σ
      | _ => .ok none
  | _ => .panic

/-- `atoms_match` (`built_in_functor.rs`): exact match, or prefix match for `prefix*`. -/
def atomsMatch (functor : Term) (pat : String) : Res Bool :=
  match functor with
  | .atom fs =>
    match pat.toList.getLast? with
    | none => .panic
    | some c =>
      if c = '*' then .ok (decide (pat.toList.dropLast.isPrefixOf fs.toList)) else .ok (fs == pat)
  | _ => .ok false

def bipFunctor (fo : FloatOps) (f : Nat) (args : Option (List Term)) (σ : Subst) : Res (Option Subst) :=
  match args with
  | none => .ok none
  | some ts =>
    if ts.length < 2 || ts.length > 3 then .ok none
    else
      match ts with
      | t0 :: t1 :: rest =>
        (groundTop f σ t0).bind fun g0 =>
        (groundTop f σ t1).bind fun g1 =>
        (match rest with | [t2] => (groundTop f σ t2).bind fun g2 => .ok (some g2) | _ => .ok none).bind fun g2 =>
          match g0 with
          | .cplx (.cons functor cargs) =>
            let arity : Int := Int.ofNat cargs.length
            (match g1 with
              | .atom m => (atomsMatch functor m).bind fun ok => .ok (if ok then some σ else none)
              | .var i n => optUnify fo f (.var i n) functor σ
              | _ => .ok none).bind fun r1 =>
              match r1, g2 with
              | none, _ => .ok none
              | some s1, none => .ok (some s1)
              | some s1, some a => optUnify fo f a (.int arity) s1
          | .cplx .nil => .panic
          | _ => .ok none
      | _ => .panic

/-! ### print / print_list (`built_in_print.rs`, `built_in_print_list.rs`) -/

/-- `str.split("%s")` on character lists. -/
def splitPct : List Char → List Char → List (List Char)
  | [], acc => [acc.reverse]
  | '%' :: 's' :: rest, acc => acc.reverse :: splitPct rest []
  | c :: rest, acc => splitPct rest (c :: acc)

def concatStr : List String → String
  | [] => ""
  | s :: ss => s ++ concatStr ss

/-- the `loop` of `format_for_print_pred`: alternate arguments and format pieces; whichever
    list is longer contributes its surplus at the end. -/
def interleave : List String → List String → String
  | [], ps => concatStr ps
  | a :: as, [] => a ++ interleave as []
  | a :: as, p :: ps => a ++ p ++ interleave as ps

def formatForPrint : List String → Res String
  | [] => .panic
  | fmt :: rest =>
    match (splitPct fmt.toList []).map String.ofList with
    | [] => .panic
    | p0 :: ps => .ok (p0 ++ interleave rest ps)

def showGround (fo : FloatOps) (f : Nat) (σ : Subst) (t : Term) : Res String :=
  (walk f σ t).bind fun r =>
    match r with
    | some g => .ok (Term.show fo.showF g)
    | none => .ok (Term.show fo.showF t)

def mapRes {α β} (g : α → Res β) : List α → Res (List β)
  | [] => .ok []
  | a :: as => (g a).bind fun b => (mapRes g as).bind fun bs => .ok (b :: bs)

/-- `next_solution_print`: the text written to stdout. -/
def bipPrint (fo : FloatOps) (f : Nat) (args : Option (List Term)) (σ : Subst) : Res String :=
  match args with
  | none => .ok ""
  | some ts => (mapRes (showGround fo f σ) ts).bind fun strs => formatForPrint strs

/-- the `loop` of `format_slist` after the first element. -/
def fmtSlistLoop (fo : FloatOps) : Nat → Subst → Term → Term → Res String
  | 0, _, _, _ => .oof
  | f+1, σ, term, slist =>
    if term.isNil then .ok "" else
    match slist with
    | .cons _ next _ _ =>
      -- s_list = next
      (match next with
        | .cons t1 n1 c1 tv =>
          if tv && !t1.isAnon then
            (getList f σ t1).bind fun r =>
              match r with
              | some (.cons t n c d) => .ok (t, Term.cons t n c d)
              | _ => .ok (t1, Term.cons t1 n1 c1 tv)
          else .ok (t1, Term.cons t1 n1 c1 tv)
        | other => .ok (term, other)).bind fun (p : Term × Term) =>
        let term' := p.1
        let slist' := p.2
        if term'.isNil then .ok ""
        else
          (walk f σ term').bind fun g =>
            (fmtSlistLoop fo f σ term' slist').bind fun rest =>
              .ok ((match g with | some x => ", " ++ Term.show fo.showF x | none => "") ++ rest)
    | _ => .oof

/-- `format_slist`. -/
def formatSlist (fo : FloatOps) (f : Nat) (σ : Subst) (l : Term) : Res String :=
  match l with
  | .cons t n c d =>
    (if t.isNil then .ok "" else
      (walk f σ t).bind fun g => .ok (match g with | some x => Term.show fo.showF x | none => "")).bind fun first =>
    (fmtSlistLoop fo f σ t (.cons t n c d)).bind fun rest => .ok (first ++ rest)
  | _ => .ok ""

def printListArgs (fo : FloatOps) (f : Nat) (σ : Subst) : List Term → Bool → Res String
  | [], _ => .ok ""
  | t :: ts, first =>
    (groundTop f σ t).bind fun g =>
      (match g with
        | .cons a b c d =>
          (formatSlist fo f σ (.cons a b c d)).bind fun s => .ok ((if first then "" else ",\n") ++ s ++ "\n")
        | x => .ok (Term.show fo.showF x ++ "\n")).bind fun here =>
      (printListArgs fo f σ ts false).bind fun rest => .ok (here ++ rest)

def bipPrintList (fo : FloatOps) (f : Nat) (args : Option (List Term)) (σ : Subst) : Res String :=
  match args with
  | none => .ok ""
  | some ts => printListArgs fo f σ ts true

/-- outcome of a built-in predicate: solution (if any) and the text it wrote. -/
structure BipOut where
  sol : Option Subst
  out : String

/-- `next_solution_bip` without the `more_solutions` bookkeeping and without `!`. -/
def runBip (fo : FloatOps) (f : Nat) (name : String) (args : Option (List Term)) (σ : Subst) : Res BipOut :=
  if name = "print" then (bipPrint fo f args σ).bind fun s => .ok ⟨some σ, s⟩
  else if name = "append" then (bipAppend fo f args σ).bind fun r => .ok ⟨r, ""⟩
  else if name = "functor" then (bipFunctor fo f args σ).bind fun r => .ok ⟨r, ""⟩
  else if name = "include" then (bipFilter fo f true args σ).bind fun r => .ok ⟨r, ""⟩
  else if name = "exclude" then (bipFilter fo f false args σ).bind fun r => .ok ⟨r, ""⟩
  else if name = "print_list" then (bipPrintList fo f args σ).bind fun s => .ok ⟨some σ, s⟩
  else if name = "unify" then
    match args with
    | some (l :: r :: _) => (optUnify fo f l r σ).bind fun r => .ok ⟨r, ""⟩
    | some _ => .panic
    | none => .ok ⟨none, ""⟩
  else if name = "nl" then .ok ⟨some σ, "\n"⟩
  else if name = "count" then (bipCount fo f args σ).bind fun r => .ok ⟨r, ""⟩
  else if name = "fail" then .ok ⟨none, ""⟩
  else match CmpOp.ofName name with
    | some op => (bipCompare fo f op args σ).bind fun r => .ok ⟨r, ""⟩
    | none => .panic

end Suiron
