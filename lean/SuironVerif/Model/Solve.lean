/-
  Model of `src/solutions.rs` (`solve`, `solve_all`, `format_solution`) and of the
  timer of `src/time_out.rs`.  The timer thread is one nondeterministic choice: the tick
  (`fireAt`) at which its write to the stop flag lands; `start_query_timer` clears the flag
  and arms the timer, `cancel_timer` disarms it.
-/
import SuironVerif.Model.Engine
namespace Suiron

def timeoutMsg : String := "Query timed out after 1000 milliseconds."
def noMore : String := "No more."

/-- `format_solution`: `name = value` for the query's variable arguments, in order, joined by ", ". -/
def formatArgs (sf : UInt64 → String) : List Term → List Term → Bool → String
  | q :: qs, r :: rs, first =>
    match q with
    | .var _ name => (if first then "" else ", ") ++ name ++ " = " ++ Term.show sf r ++ formatArgs sf qs rs false
    | _ => formatArgs sf qs rs first
  | _, _, _ => ""

def formatSolution (sf : UInt64 → String) (query result : Term) : String :=
  match query, result with
  | .cplx (.cons _ qargs), .cplx (.cons _ rargs) => formatArgs sf qargs.toList rargs.toList true
  | _, _ => ""

/-- `start_query_timer`: clear the stop flag, arm the timer (its write lands at tick `fire`, if ever). -/
def startTimer (g : G) (fire : Option Nat) : G := { g with stop := false, fireAt := fire }
/-- `cancel_timer`. -/
def cancelTimer (g : G) : G := { g with fireAt := none }

/-- `solve`. -/
def solve (fo : FloatOps) (kb : KB) (f : Nat) (q : Term) (node : Node) (g : G) (fire : Option Nat) : Res (String × Node × G) :=
  let g1 := startTimer g fire
  (next fo kb f node g1).bind fun st =>
    let g2 := cancelTimer st.g
    if g2.stop then .ok (timeoutMsg, st.node, g2)
    else match st.sol with
      | none => .ok (noMore, st.node, g2)
      | some σ => (resolve f σ q).bind fun r => .ok (formatSolution fo.showF q r, st.node, g2)

/-- the `loop` of `solve_all`. -/
def solveAllLoop (fo : FloatOps) (kb : KB) (f : Nat) (q : Term) : Nat → Node → G → List String → Res (List String × Node × G)
  | 0, _, _, _ => .oof
  | k+1, node, g, acc =>
    (next fo kb f node g).bind fun st =>
      if st.g.stop then .ok (acc, st.node, st.g)
      else match st.sol with
        | none => .ok (acc, st.node, st.g)
        | some σ => (resolve f σ q).bind fun r => solveAllLoop fo kb f q k st.node st.g (acc ++ [formatSolution fo.showF q r])

/-- `solve_all`. -/
def solveAll (fo : FloatOps) (kb : KB) (f k : Nat) (q : Term) (node : Node) (g : G) (fire : Option Nat) : Res (List String × Node × G) :=
  (solveAllLoop fo kb f q k node (startTimer g fire) []).bind fun r =>
    let g2 := cancelTimer r.2.2
    .ok (if g2.stop then r.1 ++ [timeoutMsg] else r.1, r.2.1, g2)

end Suiron
