/-
  Model of `src/goal.rs`, `src/operator.rs`, `src/rule.rs`, `src/knowledge_base.rs`
  (goals, rules, knowledge base, renaming-apart with the global variable counter).
-/
import SuironVerif.Model.Builtins
namespace Suiron

mutual
/-- `Goal` / `Operator` / `BuiltInPredicate`. -/
inductive Goal where
  | call (t : Term)                                   -- ComplexGoal
  | bip (name : String) (args : Option TermList)      -- BuiltInGoal
  | and (gs : GoalList)
  | or (gs : GoalList)
  | time (gs : GoalList)
  | not (gs : GoalList)
  | nil
inductive GoalList where
  | nil
  | cons (g : Goal) (gs : GoalList)
end

deriving instance DecidableEq for Goal
deriving instance DecidableEq for GoalList

namespace GoalList
def toList : GoalList → List Goal
  | .nil => []
  | .cons g gs => g :: toList gs
def ofList : List Goal → GoalList
  | [] => .nil
  | g :: gs => .cons g (ofList gs)
def length : GoalList → Nat
  | .nil => 0
  | .cons _ gs => length gs + 1
end GoalList

def Goal.isNil : Goal → Bool
  | .nil => true
  | _ => false

structure Rule where
  head : Term
  body : Goal
  deriving DecidableEq

/-- `KnowledgeBase = HashMap<String, Vec<Rule>>`; only `get` is used by the engine. -/
abbrev KB := List (String × List Rule)

def KB.get (kb : KB) (key : String) : Option (List Rule) :=
  match kb with
  | [] => none
  | (k, rs) :: rest => if k = key then some rs else KB.get rest key

/-- `Unifiable::key` / `Goal::key`: `functor/arity`; panics unless the term is complex and non-empty. -/
def termKey (sf : UInt64 → String) : Term → Res String
  | .cplx (.cons functor args) => .ok (Term.show sf functor ++ "/" ++ toString args.length)
  | _ => .panic

/-- `add_rules`. -/
def KB.add (sf : UInt64 → String) (kb : KB) (r : Rule) : Res KB :=
  (termKey sf r.head).bind fun key =>
    let rec go : KB → KB
      | [] => [(key, [r])]
      | (k, rs) :: rest => if k = key then (k, rs ++ [r]) :: rest else (k, rs) :: go rest
    .ok (go kb)

/-! ### renaming apart (`recreate_variables`) -/

abbrev VarMap := List (String × Nat)

def VarMap.get (m : VarMap) (name : String) : Option Nat :=
  match m with
  | [] => none
  | (k, v) :: rest => if k = name then some v else VarMap.get rest name

/-- state threaded through renaming: the map of this clause and `LOGIC_VAR_ID`. -/
structure RenSt where
  map : VarMap
  counter : Nat

mutual
/-- `Unifiable::recreate_variables` (`unifiable.rs`, after repair D5: lists node by node). -/
def renameTerm : Term → RenSt → Term × RenSt
  | .var _ name, st =>
    match st.map.get name with
    | some id => (.var id name, st)
    | none => (.var (st.counter + 1) name, ⟨(name, st.counter + 1) :: st.map, st.counter + 1⟩)
  | .cplx args, st => let r := renameTerms args st; (.cplx r.1, r.2)
  | .cons t n c tv, st =>
    let r1 := renameTerm t st
    let r2 := renameTerm n r1.2
    (.cons r1.1 r2.1 c tv, r2.2)
  | .func name args, st => let r := renameTerms args st; (.func name r.1, r.2)
  | t, st => (t, st)
def renameTerms : TermList → RenSt → TermList × RenSt
  | .nil, st => (.nil, st)
  | .cons h t, st =>
    let r1 := renameTerm h st
    let r2 := renameTerms t r1.2
    (.cons r1.1 r2.1, r2.2)
end

mutual
/-- `Goal::recreate_variables`: panics on `Goal::Nil` and on a non-complex `ComplexGoal`. -/
def renameGoal : Goal → RenSt → Res (Goal × RenSt)
  | .call (.cplx args), st => let r := renameTerms args st; .ok (.call (.cplx r.1), r.2)
  | .call _, _ => .panic
  | .bip name (some args), st => let r := renameTerms args st; .ok (.bip name (some r.1), r.2)
  | .bip name none, st => .ok (.bip name none, st)
  | .and gs, st => (renameGoals gs st).bind fun r => .ok (.and r.1, r.2)
  | .or gs, st => (renameGoals gs st).bind fun r => .ok (.or r.1, r.2)
  | .time gs, st => (renameGoals gs st).bind fun r => .ok (.time r.1, r.2)
  | .not gs, st => (renameGoals gs st).bind fun r => .ok (.not r.1, r.2)
  | .nil, _ => .panic
def renameGoals : GoalList → RenSt → Res (GoalList × RenSt)
  | .nil, st => .ok (.nil, st)
  | .cons g gs, st =>
    (renameGoal g st).bind fun r1 => (renameGoals gs r1.2).bind fun r2 => .ok (.cons r1.1 r2.1, r2.2)
end

/-- `Rule::recreate_variables`: the body is matched directly, so `Goal::Nil` (a fact) is fine,
    and a `ComplexGoal` body is renamed without the SComplex test. -/
def renameRule (r : Rule) (st : RenSt) : Res (Rule × RenSt) :=
  let h := renameTerm r.head st
  match r.body with
  | .nil => .ok (⟨h.1, .nil⟩, h.2)
  | .call t => let b := renameTerm t h.2; .ok (⟨h.1, .call b.1⟩, b.2)
  | .bip name (some args) => let b := renameTerms args h.2; .ok (⟨h.1, .bip name (some b.1)⟩, b.2)
  | .bip name none => .ok (⟨h.1, .bip name none⟩, h.2)
  | .and gs => (renameGoals gs h.2).bind fun b => .ok (⟨h.1, .and b.1⟩, b.2)
  | .or gs => (renameGoals gs h.2).bind fun b => .ok (⟨h.1, .or b.1⟩, b.2)
  | .time gs => (renameGoals gs h.2).bind fun b => .ok (⟨h.1, .time b.1⟩, b.2)
  | .not gs => (renameGoals gs h.2).bind fun b => .ok (⟨h.1, .not b.1⟩, b.2)

/-- `get_rule`: fetch clause `index` of the predicate and rename it from the current counter. -/
def getRule (kb : KB) (key : String) (idx : Nat) (counter : Nat) : Res (Rule × Nat) :=
  match kb.get key with
  | none => .panic
  | some rs =>
    match rs[idx]? with
    | none => .panic
    | some r => (renameRule r ⟨[], counter⟩).bind fun x => .ok (x.1, x.2.counter)

/-- `make_query`: reset the counter, rename the terms, `make_complex` (first term must be an atom). -/
def makeQuery (ts : List Term) : Res (Goal × Nat) :=
  let r := renameTerms (TermList.ofList ts) ⟨[], 0⟩
  match r.1 with
  | .cons (.atom s) rest => .ok (.call (.cplx (.cons (.atom s) rest)), r.2.counter)
  | _ => .panic

end Suiron
