/-
  Model of `src/substitution_set.rs` and of the binding step of `unify`
  (`src/unifiable.rs:238-250`).  A substitution set is a vector indexed by
  variable id.
-/
import SuironVerif.Model.Term
namespace Suiron

abbrev Subst := List (Option Term)

namespace Subst
/-- `ss[id]` when `id < ss.len()`, else unbound. -/
def get (σ : Subst) (i : Nat) : Option Term := (σ[i]?).getD none

/-- `new_ss = vec![None; max(len, id+1)]`, copy, `new_ss[id] = Some(t)`. -/
def bind (σ : Subst) (i : Nat) (t : Term) : Subst :=
  (σ ++ List.replicate (i + 1 - σ.length) none).set i (some t)

theorem get_bind_self (σ : Subst) (i : Nat) (t : Term) : (bind σ i t).get i = some t := by
  unfold get bind
  have h : i < σ.length + (i + 1 - σ.length) := by omega
  simp [List.getElem?_set, h]

theorem get_bind_other (σ : Subst) (i j : Nat) (t : Term) (h : j ≠ i) :
    (bind σ i t).get j = σ.get j := by
  unfold get bind
  rw [List.getElem?_set_ne (by omega)]
  by_cases hj : j < σ.length
  · rw [List.getElem?_append_left hj]
  · have hj' : σ.length ≤ j := by omega
    rw [List.getElem?_append_right hj']
    have : σ[j]? = none := by simp [hj']
    rw [this]
    by_cases h2 : j - σ.length < i + 1 - σ.length
    · simp [h2]
    · simp [h2]

theorem get_nil (i : Nat) : get [] i = none := by simp [get]
end Subst

/-- `get_ground_term` (`substitution_set.rs:211-224`): follow variable bindings.
    `ok none` = reached an unbound variable (Rust `None`);
    `ok (some t)` = reached the non-variable term `t`. -/
def walk : Nat → Subst → Term → Res (Option Term)
  | 0, _, _ => .oof
  | f+1, σ, t =>
    match t with
    | .var id _ =>
      match σ.get id with
      | none => .ok none
      | some e => walk f σ e
    | t => .ok (some t)

/-- `walk` that also returns the last variable when the chain ends unbound. -/
def deref : Nat → Subst → Term → Res Term
  | 0, _, _ => .oof
  | f+1, σ, t =>
    match t with
    | .var id _ =>
      match σ.get id with
      | none => .ok t
      | some e => deref f σ e
    | t => .ok t

mutual
/-- `replace_variables` (`unifiable.rs:489-527`). Panics on a function term. -/
def resolve : Nat → Subst → Term → Res Term
  | 0, _, _ => .oof
  | f+1, σ, t =>
    match t with
    | .nil => .ok .nil
    | .anon => .ok .anon
    | .atom s => .ok (.atom s)
    | .flt b => .ok (.flt b)
    | .int i => .ok (.int i)
    | .var id name =>
      match σ.get id with
      | some e => resolve f σ e
      | none => .ok (.var id name)
    | .cplx args => (resolveList f σ args).bind fun as => .ok (.cplx as)
    | .cons t n c tv =>
      (resolve f σ t).bind fun t2 => (resolve f σ n).bind fun n2 => .ok (.cons t2 n2 c tv)
    | .func _ _ => .panic
def resolveList : Nat → Subst → TermList → Res TermList
  | 0, _, _ => .oof
  | _+1, _, .nil => .ok .nil
  | f+1, σ, .cons h t =>
    (resolve f σ h).bind fun h2 => (resolveList f σ t).bind fun t2 => .ok (.cons h2 t2)
end

end Suiron
