/-
  Line-protocol codec shared by the driver: decoding of the harness' prefix
  encoding of terms / substitutions, and the canonical encoding of results.
  (Not part of the verified model; part of the trusted correspondence check.)
-/
import SuironVerif.Model.Engine
namespace Suiron.Codec

def hexDigit (c : Char) : Option Nat :=
  if '0' ≤ c ∧ c ≤ '9' then some (c.toNat - '0'.toNat)
  else if 'a' ≤ c ∧ c ≤ 'f' then some (c.toNat - 'a'.toNat + 10)
  else none

def hexBytes : List Char → Option (List UInt8)
  | [] => some []
  | a :: b :: rest => do
    let x ← hexDigit a
    let y ← hexDigit b
    let r ← hexBytes rest
    pure (UInt8.ofNat (x * 16 + y) :: r)
  | _ => none

def unhex (s : String) : Option String := do
  let bs ← hexBytes s.toList
  String.fromUTF8? (ByteArray.mk bs.toArray)

def hexOfNat (n : Nat) : Char :=
  if n < 10 then Char.ofNat ('0'.toNat + n) else Char.ofNat ('a'.toNat + n - 10)

def hex (s : String) : String :=
  String.ofList (s.toUTF8.toList.flatMap fun b => [hexOfNat (b.toNat / 16), hexOfNat (b.toNat % 16)])

/-- decode one term from a token list; returns the rest. Fuel = token count. -/
partial def decTerm : List String → Option (Term × List String)
  | [] => none
  | tok :: rest =>
    match tok.splitOn ":" with
    | ["N"] => some (.nil, rest)
    | ["_"] => some (.anon, rest)
    | ["A", h] => (unhex h).map fun s => (.atom s, rest)
    | ["F", b] => b.toNat?.map fun n => (.flt (UInt64.ofNat n), rest)
    | ["I", i] => i.toInt?.map fun n => (.int n, rest)
    | ["V", i, h] => do
      let id ← i.toNat?
      let s ← unhex h
      pure (.var id s, rest)
    | ["C", n] => do
      let k ← n.toNat?
      let (ts, r) ← decTerms k rest
      pure (.cplx (TermList.ofList ts), r)
    | ["L", c, tv] => do
      let cnt ← c.toNat?
      let (t, r1) ← decTerm rest
      let (n, r2) ← decTerm r1
      pure (.cons t n cnt (tv == "1"), r2)
    | ["Fn", h, n] => do
      let s ← unhex h
      let k ← n.toNat?
      let (ts, r) ← decTerms k rest
      pure (.func s (TermList.ofList ts), r)
    | _ => none
where
  decTerms : Nat → List String → Option (List Term × List String)
    | 0, r => some ([], r)
    | k+1, r => do
      let (t, r1) ← decTerm r
      let (ts, r2) ← decTerms k r1
      pure (t :: ts, r2)

partial def encTerm : Term → String
  | .nil => "N"
  | .anon => "_"
  | .atom s => "A:" ++ hex s
  | .flt b => "F:" ++ toString (if fIsNaN b then 0x7ff8000000000000 else b.toNat)
  | .int i => "I:" ++ toString i
  | .var id s => "V:" ++ toString id ++ ":" ++ hex s
  | .cplx args => "C:" ++ toString args.length ++ String.join (args.toList.map fun t => " " ++ encTerm t)
  | .cons t n c tv => "L:" ++ toString c ++ ":" ++ (if tv then "1" else "0") ++ " " ++ encTerm t ++ " " ++ encTerm n
  | .func s args => "Fn:" ++ hex s ++ ":" ++ toString args.length ++ String.join (args.toList.map fun t => " " ++ encTerm t)

def encSubst (σ : Subst) : String :=
  "S:" ++ toString σ.length ++ String.join (σ.map fun e => match e with | none => " -" | some t => " " ++ encTerm t)

def decSubst : List String → Option (Subst × List String)
  | [] => none
  | tok :: rest =>
    match tok.splitOn ":" with
    | ["S", n] => do
      let k ← n.toNat?
      go k rest
    | _ => none
where
  go : Nat → List String → Option (Subst × List String)
    | 0, r => some ([], r)
    | k+1, "-" :: r => do
      let (σ, r2) ← go k r
      pure (none :: σ, r2)
    | k+1, r => do
      let (t, r1) ← decTerm r
      let (σ, r2) ← go k r1
      pure (some t :: σ, r2)

def encRes {α} (enc : α → String) : Res α → String
  | .ok a => "ok " ++ enc a
  | .fail => "fail"
  | .panic => "panic"
  | .oof => "oof"


/-! goals, rules -/
partial def decGoal : List String → Option (Goal × List String)
  | [] => none
  | tok :: rest =>
    match tok.splitOn ":" with
    | ["G0"] => some (.nil, rest)
    | ["Gc"] => do
      let (t, r) ← decTerm rest
      pure (.call t, r)
    | ["Gb", h, has, n] => do
      let name ← unhex h
      let k ← n.toNat?
      if has == "1" then
        let (ts, r) ← decTerm.decTerms k rest
        pure (.bip name (some (TermList.ofList ts)), r)
      else pure (.bip name none, rest)
    | [tag, n] => do
      let k ← n.toNat?
      let (gs, r) ← decGoals k rest
      let gl := GoalList.ofList gs
      match tag with
      | "Ga" => pure (.and gl, r)
      | "Go" => pure (.or gl, r)
      | "Gt" => pure (.time gl, r)
      | "Gn" => pure (.not gl, r)
      | _ => none
    | _ => none
where
  decGoals : Nat → List String → Option (List Goal × List String)
    | 0, r => some ([], r)
    | k+1, r => do
      let (g, r1) ← decGoal r
      let (gs, r2) ← decGoals k r1
      pure (g :: gs, r2)

def decRule : List String → Option (Rule × List String)
  | "R" :: rest => do
    let (h, r1) ← decTerm rest
    let (b, r2) ← decGoal r1
    pure (⟨h, b⟩, r2)
  | _ => none

def decRules : Nat → List String → Option (List Rule × List String)
  | 0, r => some ([], r)
  | k+1, r => do
    let (x, r1) ← decRule r
    let (xs, r2) ← decRules k r1
    pure (x :: xs, r2)


partial def encGoal : Goal → String
  | .nil => "G0"
  | .call t => "Gc " ++ encTerm t
  | .bip name none => "Gb:" ++ hex name ++ ":0:0"
  | .bip name (some args) => "Gb:" ++ hex name ++ ":1:" ++ toString args.length ++ String.join (args.toList.map fun t => " " ++ encTerm t)
  | .and gs => "Ga:" ++ toString gs.length ++ String.join (gs.toList.map fun g => " " ++ encGoal g)
  | .or gs => "Go:" ++ toString gs.length ++ String.join (gs.toList.map fun g => " " ++ encGoal g)
  | .time gs => "Gt:" ++ toString gs.length ++ String.join (gs.toList.map fun g => " " ++ encGoal g)
  | .not gs => "Gn:" ++ toString gs.length ++ String.join (gs.toList.map fun g => " " ++ encGoal g)

def encRule (r : Rule) : String := "R " ++ encTerm r.head ++ " " ++ encGoal r.body

end Suiron.Codec
