/-
  Model of `src/rule_reader.rs`: strip_comments, check_last_char, the line-joining loop of
  read_facts_and_rules, separate_rules, unmatched_bracket, load_kb_from_file.
  File I/O is outside the model: the reader is modelled from the text of the file on
  (`BufRead::lines`: split at '\n', a final '\r' of a line is dropped).
-/
import SuironVerif.Model.ParseGoal
namespace Suiron.Parse

/-- `BufRead::lines` on valid UTF-8. -/
def splitLines (file : Text) : List Text :=
  let rec go : Text → Text → List Text
    | [], cur => if cur.isEmpty then [] else [cur]
    | c :: rest, cur =>
      if c == '\n' then
        (if cur.getLast? == some '\r' then cur.dropLast else cur) :: go rest []
      else go rest (cur ++ [c])
  go file []

structure StripSt where
  prev : Char := 'x'
  round : Int := 0
  square : Int := 0
  inQuotes : Bool := false      -- (repair D24) between double quotes

/-- the scan of `strip_comments`: index at which the comment starts, if any -/
def commentStart : Text → Nat → StripSt → Option Nat
  | [], _, _ => none
  | ch :: rest, i, st =>
    if ch == '"' then commentStart rest (i + 1) { st with inQuotes := !st.inQuotes, prev := ch }
    else if st.inQuotes then commentStart rest (i + 1) { st with prev := ch }
    else if ch == '(' then commentStart rest (i + 1) { st with round := st.round + 1, prev := ch }
    else if ch == '[' then commentStart rest (i + 1) { st with square := st.square + 1, prev := ch }
    else if ch == ')' then commentStart rest (i + 1) { st with round := st.round - 1, prev := ch }
    else if ch == ']' then commentStart rest (i + 1) { st with square := st.square - 1, prev := ch }
    else if st.round == 0 && st.square == 0 then
      if ch == '#' || ch == '%' then some i
      else if ch == '/' && st.prev == '/' then some (i - 1)
      else commentStart rest (i + 1) { st with prev := ch }
    else commentStart rest (i + 1) { st with prev := ch }

/-- the state in which the scan of `strip_comments_in` stops: at the comment, or at the end of the line
    (repair D26: the depths and the quote state are carried to the next line) -/
def endState : Text → StripSt → StripSt
  | [], st => st
  | ch :: rest, st =>
    if ch == '"' then endState rest { st with inQuotes := !st.inQuotes, prev := ch }
    else if st.inQuotes then endState rest { st with prev := ch }
    else if ch == '(' then endState rest { st with round := st.round + 1, prev := ch }
    else if ch == '[' then endState rest { st with square := st.square + 1, prev := ch }
    else if ch == ')' then endState rest { st with round := st.round - 1, prev := ch }
    else if ch == ']' then endState rest { st with square := st.square - 1, prev := ch }
    else if st.round == 0 && st.square == 0 then
      if ch == '#' || ch == '%' then st
      else if ch == '/' && st.prev == '/' then st
      else endState rest { st with prev := ch }
    else endState rest { st with prev := ch }

/-- `strip_comments_in`: the line without its comment, and the nesting carried to the next line -/
def stripCommentsIn (st : StripSt) (line : Text) : Text × StripSt :=
  let st0 : StripSt := { st with prev := 'x' }
  ((match commentStart line 0 st0 with
    | some idx => trim (line.take idx)
    | none => trim line), endState line st0)

/-- `strip_comments` (a line on its own) -/
def stripComments (line : Text) : Text := (stripCommentsIn {} line).1

/-- `check_last_char`: `true` = the line may end here -/
def checkLastChar (line : Text) : Bool :=
  match line.getLast? with
  | none => true
  | some last => last == '-' || last == ',' || last == '.' || last == '=' || last == ';'

/-- the loop of `read_facts_and_rules`: `fail` = "Check end of line" -/
def joinLinesIn : List Text → Text → StripSt → Res Text
  | [], acc, _ => .ok acc
  | line :: rest, acc, st =>
    let r := stripCommentsIn st line
    let l := r.1
    if l.isEmpty then joinLinesIn rest acc r.2
    else if !checkLastChar l then .fail
    else joinLinesIn rest (acc ++ l ++ (if l.getLast? == some '.' then [] else [' '])) r.2

def joinLines (lines : List Text) (acc : Text) : Res Text := joinLinesIn lines acc {}

structure SepSt where
  cur : Text := []
  rules : List Text := []
  round : Int := 0
  square : Int := 0
  quotes : Nat := 0
  deriving DecidableEq

/-- `i + 1 < length && chrs[i + 1]` is a digit -/
def nextIsDigit : Text → Bool
  | d :: _ => isDigit d
  | [] => false

def sepLoop : Text → SepSt → SepSt
  | [], st => st
  | ch :: rest, st =>
    let cur := st.cur ++ [ch]
    let decimalPoint := ch == '.' && nextIsDigit rest
    if ch == '.' && !decimalPoint && st.round == 0 && st.square == 0 && st.quotes % 2 == 0 then
      sepLoop rest { st with cur := [], rules := st.rules ++ [cur] }
    else if ch == '"' then sepLoop rest { st with cur := cur, quotes := st.quotes + 1 }
    else if st.quotes % 2 == 1 then sepLoop rest { st with cur := cur }      -- (repair D24) between double quotes
    else if ch == '(' then sepLoop rest { st with cur := cur, round := st.round + 1 }
    else if ch == '[' then sepLoop rest { st with cur := cur, square := st.square + 1 }
    else if ch == ')' then sepLoop rest { st with cur := cur, round := st.round - 1 }
    else if ch == ']' then sepLoop rest { st with cur := cur, square := st.square - 1 }
    else sepLoop rest { st with cur := cur }

/-- `separate_rules`: `fail` = unmatched bracket -/
def separateRules (text : Text) : Res (List Text) :=
  let st := sepLoop text {}
  if st.round == 0 && st.square == 0 then .ok st.rules else .fail

/-- `read_facts_and_rules`, from the text of the file -/
def readRules (file : Text) : Res (List Text) :=
  (joinLines (splitLines file) []).bind separateRules

/-- `load_kb_from_file`: every rule text goes through `parse_rule`, in order; the first error ends the load -/
def parseAll (pr : Text → Res Rule) : List Text → Res (List Rule)
  | [] => .ok []
  | t :: rest => (pr t).bind fun r => (parseAll pr rest).bind fun rs => .ok (r :: rs)

def loadKB (pr : Text → Res Rule) (file : Text) : Res (List Rule) :=
  (readRules file).bind (parseAll pr)

end Suiron.Parse
