/-
  Model of the goal-level parser and of the printer for goals and rules:
    `src/parse_goals.rs` (parse_subgoal, make_goal, parse_operator_goal)
    `src/token.rs`, `src/tokenizer.rs` (tokenize, group_tokens, group_and_tokens,
                                         group_or_tokens, token_tree_to_goal, generate_goal)
    `src/rule.rs`        (index_of_neck, parse_rule, Display for Rule)
    `src/operator.rs`, `src/goal.rs`, `src/built_in_predicates.rs` (Display)
  Same conventions as Parse.lean.
-/
import SuironVerif.Model.Parse
namespace Suiron.Parse

/-! ### `make_goal` -/

def bipNames : List String :=
  ["print", "append", "functor", "include", "exclude", "print_list", "unify", "equal",
   "less_than", "less_than_or_equal", "greater_than", "greater_than_or_equal", "count"]

def makeGoal (functor : Text) (args : List Term) : Goal :=
  let f := str functor
  if f == "fail" || f == "nl" || f == "!" then .bip f none
  else if bipNames.contains f then .bip f (some (TermList.ofList args))
  else .call (.cplx (.cons (.atom f) (TermList.ofList args)))

/-- `parse_subgoal` -/
def parseSubgoal (po : POps) : Nat → Text → Res Goal
  | 0, _ => .oof
  | f+1, toParse =>
    let s := trim toParse
    if s.isEmpty then .fail
    else if s == txt "!" || s == txt "fail" || s == txt "nl" then .ok (.bip (str s) none)
    else
      let ix := checkInfix s
      if ix.1 != .none then
        -- get_left_and_right(chrs, index, 2)
        (slice s 0 ix.2).bind fun a1 =>
          (slice s (ix.2 + 2) s.length).bind fun a2 =>
            (parseTerm po f a1).bind fun l =>
              (parseTerm po f a2).bind fun r =>
                match ix.1 with
                | .unify => .ok (makeGoal (txt "unify") [l, r])
                | .equal => .ok (makeGoal (txt "equal") [l, r])
                | .lt => .ok (makeGoal (txt "less_than") [l, r])
                | .le => .ok (makeGoal (txt "less_than_or_equal") [l, r])
                | .gt => .ok (makeGoal (txt "greater_than") [l, r])
                | .ge => .ok (makeGoal (txt "greater_than_or_equal") [l, r])
                | _ => .fail
      else
        (indicesOfParentheses s).bind fun idx =>
          match idx with
          | none => (parseFunctorTerms (parseArguments po f) s []).bind fun c => .ok (.call c)
          | some (l, r) =>
            (slice s 0 l).bind fun functorStr =>
              (slice s (l + 1) r).bind fun argsStr =>
                if functorStr == txt "time" then
                  (parseSubgoal po f argsStr).bind fun g => .ok (.time (.cons g .nil))
                else if functorStr == txt "not" then
                  (parseSubgoal po f argsStr).bind fun g => .ok (.not (.cons g .nil))
                else if (trim argsStr).isEmpty then .ok (makeGoal functorStr [])
                else (parseArguments po f argsStr).bind fun args => .ok (makeGoal functorStr args)

/-! ### tokens (`token.rs`) -/

inductive TokTy where
  | empty | subgoal | comma | semicolon | lparen | rparen | group | and | or | complex | linkedList
  deriving DecidableEq, Repr

inductive Token where
  | leaf (ty : TokTy) (s : Text)
  | branch (ty : TokTy) (children : List Token)

def Token.ty : Token → TokTy
  | .leaf t _ => t
  | .branch t _ => t

def makeLeafToken (symbol : Text) : Token :=
  let s := trim symbol
  if s == [','] then .leaf .comma s
  else if s == [';'] then .leaf .semicolon s
  else if s == ['('] then .leaf .lparen s
  else if s == [')'] then .leaf .rparen s
  else .leaf .subgoal s

def makeBranchToken (ty : TokTy) (children : List Token) : Res Token :=
  if ty != .and && ty != .or && ty != .group then .panic else .ok (.branch ty children)

/-! ### `tokenize` (`tokenizer.rs:86-204`) -/

def letterNumberHyphen (ch : Char) : Bool :=
  let n := ch.toNat
  ('a'.toNat ≤ n && n ≤ 'z'.toNat) || ('A'.toNat ≤ n && n ≤ 'Z'.toNat) || ('0'.toNat ≤ n && n ≤ '9'.toNat) ||
  ch == '_' || ch == '-' || n == 0xad || (0xc0 ≤ n && n < 0x2c0) || (0x380 ≤ n && n < 0x510)

def invalidBetweenTerms (ch : Char) : Bool := ch == '"' || ch == '#' || ch == '@'

def noEsc (check matchChar previous : Char) : Bool := previous != '\\' && check == matchChar

/-- the inner `while j < length` loop that looks for the closing quote -/
def findQuote : Text → Nat → Char → Option Nat
  | [], _, _ => none
  | c :: rest, j, prev => if noEsc c '"' prev then some j else findQuote rest (j + 1) c

structure TokSt where
  tokens : List Token := []
  stack : List TokTy := []          -- top of the stack first
  start : Nat := 0
  prev : Char := '#'

def peek (stk : List TokTy) : TokTy := stk.head?.getD .empty

/-- `fuel` bounds the number of iterations (the index only grows). -/
def tokLoop (s : Text) : Nat → Nat → TokSt → Res (List Token)
  | 0, _, _ => .oof
  | fuel+1, i, st =>
    match s[i]? with
    | none =>
      -- after the loop
      if !st.stack.isEmpty then .fail
      else if s.length - st.start > 0 then
        (slice s st.start s.length).bind fun sub => .ok (st.tokens ++ [makeLeafToken sub])
      else .ok st.tokens
    | some ch =>
      let top := peek st.stack
      if noEsc ch '"' st.prev then
        match findQuote (s.drop (i + 1)) (i + 1) '#' with
        | some j => tokLoop s fuel (j + 1) { st with prev := '"' }
        | none =>
          -- `ch` was overwritten by the last character looked at
          let lastSeen := if i + 1 < s.length then s.getLast?.getD ch else ch
          tokLoop s fuel (i + 1) { st with prev := lastSeen }
      else if noEsc ch '(' st.prev then
        if letterNumberHyphen st.prev then
          tokLoop s fuel (i + 1) { st with stack := .complex :: st.stack, prev := ch }
        else
          tokLoop s fuel (i + 1) { st with stack := .group :: st.stack, tokens := st.tokens ++ [makeLeafToken ['(']],
                                           start := i + 1, prev := ch }
      else if noEsc ch ')' st.prev then
        if top == .empty then .fail
        else
          let stk' := st.stack.drop 1
          if top == .group then
            (slice s st.start i).bind fun sub =>
              tokLoop s fuel (i + 1) { st with stack := stk', tokens := st.tokens ++ [makeLeafToken sub, makeLeafToken [')']], prev := ch }
          else if top != .complex then .fail
          else tokLoop s fuel (i + 1) { st with stack := stk', prev := ch }
      else if noEsc ch '[' st.prev then
        tokLoop s fuel (i + 1) { st with stack := .linkedList :: st.stack, prev := ch }
      else if noEsc ch ']' st.prev then
        if top == .empty then .fail
        else if top != .linkedList then .fail
        else tokLoop s fuel (i + 1) { st with stack := st.stack.drop 1, prev := ch }
      else if top != .complex && top != .linkedList then
        if invalidBetweenTerms ch then .fail
        else if noEsc ch ',' st.prev then
          (slice s st.start i).bind fun sub =>
            tokLoop s fuel (i + 1) { st with tokens := st.tokens ++ [makeLeafToken sub, makeLeafToken [',']], start := i + 1, prev := ch }
        else if noEsc ch ';' st.prev then
          (slice s st.start i).bind fun sub =>
            tokLoop s fuel (i + 1) { st with tokens := st.tokens ++ [makeLeafToken sub, makeLeafToken [';']], start := i + 1, prev := ch }
        else tokLoop s fuel (i + 1) { st with prev := ch }
      else tokLoop s fuel (i + 1) { st with prev := ch }

def tokenize (toParse : Text) : Res (List Token) :=
  let s := trim toParse
  if s.isEmpty then .fail else tokLoop s (s.length + 1) 0 {}

/-! ### grouping (`tokenizer.rs:242-420`) -/

def Token.nChildren : Token → Res Nat
  | .branch _ cs => .ok cs.length
  | .leaf _ _ => .panic

/-- `group_tokens_from(tokens, index)` (after repair D18: the index at which the call stopped is returned
    and the caller goes on behind it); `acc` is `new_tokens`. -/
def groupTokens (tokens : List Token) : Nat → Nat → List Token → Res (Token × Nat)
  | 0, _, _ => .oof
  | fuel+1, index, acc =>
    match tokens[index]? with
    | none => (makeBranchToken .group acc).bind fun t => .ok (t, index)
    | some token =>
      if token.ty == .lparen then
        (groupTokens tokens fuel (index + 1) []).bind fun r =>
          -- index = stopped_at + 1; (push); index += 1
          groupTokens tokens fuel (r.2 + 1 + 1) (acc ++ [r.1])
      else if token.ty == .rparen then (makeBranchToken .group acc).bind fun t => .ok (t, index)
      else groupTokens tokens fuel (index + 1) (acc ++ [token])

mutual
/-- `group_and_tokens` -/
def groupAnd : Nat → Token → Res Token
  | 0, _ => .oof
  | _+1, .leaf _ _ => .panic
  | fuel+1, .branch ty children => groupAndLoop fuel ty children [] []
/-- the `for child in children` loop of `group_and_tokens` -/
def groupAndLoop : Nat → TokTy → List Token → List Token → List Token → Res Token
  | 0, _, _, _, _ => .oof
  | _+1, ty, [], newChildren, andList =>
    if andList.length == 1 then makeBranchToken ty (newChildren ++ andList)
    else if andList.length > 1 then
      (makeBranchToken .and andList).bind fun a => makeBranchToken ty (newChildren ++ [a])
    else makeBranchToken ty newChildren
  | fuel+1, ty, child :: rest, newChildren, andList =>
    if child.ty == .subgoal then groupAndLoop fuel ty rest newChildren (andList ++ [child])
    else if child.ty == .comma then groupAndLoop fuel ty rest newChildren andList
    else if child.ty == .semicolon then
      if andList.length == 1 then groupAndLoop fuel ty rest (newChildren ++ andList ++ [child]) []
      else (makeBranchToken .and andList).bind fun a => groupAndLoop fuel ty rest (newChildren ++ [a, child]) []
    else if child.ty == .group then
      (groupAnd fuel child).bind fun t => (groupOr fuel t).bind fun t2 =>
        groupAndLoop fuel ty rest newChildren (andList ++ [t2])
    else groupAndLoop fuel ty rest newChildren andList
/-- `group_or_tokens` -/
def groupOr : Nat → Token → Res Token
  | 0, _ => .oof
  | _+1, .leaf _ _ => .panic
  | _+1, .branch ty children =>
    let orList := children.filter fun c => c.ty == .subgoal || c.ty == .and || c.ty == .group
    if orList.length == 1 then makeBranchToken ty orList
    else if orList.length > 1 then (makeBranchToken .or orList).bind fun o => makeBranchToken ty [o]
    else makeBranchToken ty []
end

mutual
/-- `token_tree_to_goal` (after repair D15: an `Or` keeps its `And` children) -/
def tokenTreeToGoal (po : POps) : Nat → Token → Res Goal
  | 0, _ => .oof
  | f+1, .leaf ty s => if ty == .subgoal then parseSubgoal po f s else .panic
  | f+1, .branch ty children =>
    if ty == .and then (operands po f false children).bind fun gs => .ok (.and (GoalList.ofList gs))
    else if ty == .or then (operands po f true children).bind fun gs => .ok (.or (GoalList.ofList gs))
    else if ty == .group then
      match children with
      | [child] => tokenTreeToGoal po f child
      | _ => .panic
    else .fail
/-- the `for child in children` loops of the `And` / `Or` branches -/
def operands (po : POps) : Nat → Bool → List Token → Res (List Goal)
  | 0, _, _ => .oof
  | _+1, _, [] => .ok []
  | f+1, inOr, child :: rest =>
    match child with
    | .leaf ty s =>
      if ty == .subgoal then
        (parseSubgoal po f s).bind fun g => (operands po f inOr rest).bind fun gs => .ok (g :: gs)
      else operands po f inOr rest
    | .branch ty _ =>
      if ty == .group || (inOr && ty == .and) then
        (tokenTreeToGoal po f child).bind fun g => (operands po f inOr rest).bind fun gs => .ok (g :: gs)
      else operands po f inOr rest
end

/-- `generate_goal` -/
def generateGoal (po : POps) (f : Nat) (toParse : Text) : Res Goal :=
  (tokenize toParse).bind fun tokens =>
    (groupTokens tokens (tokens.length + 2) 0 []).bind fun t0 =>
      (groupAnd f t0.1).bind fun t1 =>
        (groupOr f t1).bind fun t2 => tokenTreeToGoal po f t2

/-! ### `parse_rule` (`rule.rs`) -/

def indexOfNeck : Text → Nat → Bool → Bool → Option Nat
  | [], _, _, _ => none
  | ch :: rest, i, prevColon, inQuotes =>
    -- (repair D25) ":-" between double quotes is text
    if ch == '"' then indexOfNeck rest (i + 1) false (!inQuotes)
    else if inQuotes then indexOfNeck rest (i + 1) false true
    else if ch == '-' && prevColon then some (i - 1)
    else indexOfNeck rest (i + 1) (ch == ':') false

def parseRule (po : POps) (f : Nat) (toParse : Text) : Res Rule :=
  let s := trim toParse
  if s.isEmpty then .fail
  else
    let chrs := if s.getLast? == some '.' then s.dropLast else s
    match indexOfNeck chrs 0 false false with
    | some index =>
      (slice chrs 0 index).bind fun headChrs =>
        (slice chrs (index + 2) chrs.length).bind fun bodyChrs =>
          if (indexOfNeck bodyChrs 0 false false).isSome then .fail
          else
            (parseSubgoal po f headChrs).bind fun sg =>
              match sg with
              | .call h => (generateGoal po f bodyChrs).bind fun body => .ok ⟨h, body⟩
              | _ => .fail
    | none => (parseComplex po f chrs).bind fun fact => .ok ⟨fact, .nil⟩

/-! ### Display for goals and rules -/

mutual
def showGoal (sf : UInt64 → String) : Goal → Res String
  | .call t => .ok (Term.show sf t)
  | .bip name none => .ok name
  | .bip name (some args) =>
    if name == "unify" then
      match args with
      | .cons l (.cons r _) => .ok (Term.show sf l ++ " = " ++ Term.show sf r)
      | _ => .panic                        -- `terms[0]`, `terms[1]`
    else .ok (name ++ "(" ++ TermList.showArgs sf args true ++ ")")
  | .and gs => (showOperands sf false gs).bind fun l => .ok (String.intercalate ", " l)
  | .or gs => (showOperands sf true gs).bind fun l => .ok (String.intercalate "; " l)
  | .time gs => match gs with
    | .cons g _ => (showGoal sf g).bind fun s => .ok ("time(" ++ s ++ ")")
    | .nil => .panic
  | .not gs => match gs with
    | .cons g _ => (showGoal sf g).bind fun s => .ok ("not(" ++ s ++ ")")
    | .nil => .panic
  | .nil => .ok "Nil"
/-- `group_operands` (repair D16): a nested And/Or operand is written between parentheses,
    except a conjunction inside a disjunction. -/
def showOperands (sf : UInt64 → String) (inOr : Bool) : GoalList → Res (List String)
  | .nil => .ok []
  | .cons g gs =>
    (showGoal sf g).bind fun s =>
      (showOperands sf inOr gs).bind fun rest =>
        let paren := match g with
          | .and _ => !inOr
          | .or _ => true
          | _ => false
        .ok ((if paren then "(" ++ s ++ ")" else s) :: rest)
end

def showRule (sf : UInt64 → String) (r : Rule) : Res String :=
  if r.body == .nil then .ok (Term.show sf r.head ++ ".")
  else (showGoal sf r.body).bind fun b => .ok (Term.show sf r.head ++ " :- " ++ b ++ ".")

end Suiron.Parse
