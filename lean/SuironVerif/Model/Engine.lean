/-
  Model of the solver: `src/solution_node.rs`, `src/solution_node_and_or.rs`,
  `make_solution_node` / `make_base_node` (`src/goal.rs`), `count_rules`
  (`src/knowledge_base.rs`) and the process globals (`logic_var.rs`, `time_out.rs`).

  The `Rc<RefCell<SolutionNode>>` graph becomes an owned tree.  `set_no_backtracking`
  (a walk up the `parent_node` pointers that marks every ancestor and the head node
  of every ancestor) becomes a `cut` flag returned by `next`: a node that receives
  `cut = true` from a child marks itself and its head and passes the flag on; a
  ComplexGoal node (whose `parent_node` is `None`) marks itself and stops the flag.
-/
import SuironVerif.Model.Goal
namespace Suiron

/-- the process-global state. -/
structure G where
  counter : Nat            -- LOGIC_VAR_ID
  stop : Bool              -- SUIRON_STOP_QUERY
  ticks : Nat              -- number of `count_rules` calls so far (verification hook)
  fireAt : Option Nat      -- the tick at which the timer thread's write lands (hook)
  out : List String        -- text written to stdout, newest first
  deriving DecidableEq

def G.init : G := ⟨0, false, 0, none, []⟩

def G.emit (g : G) (s : String) : G := if s = "" then g else { g with out := s :: g.out }

inductive OpKind where
  | and | or | not | time
  deriving DecidableEq, Repr

/-- a `SolutionNode` together with the nodes it owns. -/
inductive Node where
  | bip (name : String) (args : Option TermList) (σ : Subst) (nb more : Bool)
  | call (t : Term) (σ : Subst) (nb : Bool) (child : Option Node) (idx n : Nat)
  | op (k : OpKind) (σ : Subst) (nb more : Bool) (head : Node) (rest : GoalList) (tail : Option Node)

def Node.nb : Node → Bool
  | .bip _ _ _ nb _ => nb
  | .call _ _ nb _ _ _ => nb
  | .op _ _ nb _ _ _ _ => nb

def Node.setNb : Node → Node
  | .bip a b c _ e => .bip a b c true e
  | .call a b _ d e f => .call a b true d e f
  | .op a b _ d e f g => .op a b true d e f g

/-- `count_rules`: the hook counts the call and may flip the stop flag; a stopped query sees 0 rules. -/
def countRules (kb : KB) (key : String) (g : G) : Nat × G :=
  let t := g.ticks + 1
  let g' : G := { g with ticks := t, stop := g.stop || (g.fireAt == some t) }
  if g'.stop then (0, g')
  else match kb.get key with
    | some rs => (rs.length, g')
    | none => (0, g')

/-- `make_solution_node` (and `make_base_node` for a ComplexGoal with the empty set). -/
def mkNode (sf : UInt64 → String) (kb : KB) : Goal → Subst → G → Res (Node × G)
  | .call t, σ, g =>
    (termKey sf t).bind fun key =>
      let r := countRules kb key g
      .ok (.call t σ false none 0 r.1, r.2)
  | .bip name args, σ, g => .ok (.bip name args σ false true, g)
  | .and (.cons h rest), σ, g => (mkNode sf kb h σ g).bind fun r => .ok (.op .and σ false true r.1 rest none, r.2)
  | .or (.cons h rest), σ, g => (mkNode sf kb h σ g).bind fun r => .ok (.op .or σ false true r.1 rest none, r.2)
  | .time (.cons h _), σ, g => (mkNode sf kb h σ g).bind fun r => .ok (.op .time σ false true r.1 .nil none, r.2)
  | .not (.cons h _), σ, g => (mkNode sf kb h σ g).bind fun r => .ok (.op .not σ false true r.1 .nil none, r.2)
  | _, _, _ => .panic

/-- result of one `next_solution` call on a node. -/
structure Step where
  sol : Option Subst
  node : Node
  cut : Bool
  g : G

def optList : Option TermList → Option (List Term)
  | none => none
  | some l => some l.toList

mutual
/-- `next_solution` (`solution_node.rs:175-325`). -/
def next (fo : FloatOps) (kb : KB) : Nat → Node → G → Res Step
  | 0, _, _ => .oof
  | f+1, node, g =>
    if node.nb then .ok ⟨none, node, false, g⟩ else
    match node with
    | .bip name args σ nb more =>
      if !more then .ok ⟨none, node, false, g⟩
      else if name = "!" then .ok ⟨some σ, .bip name args σ true false, true, g⟩
      else (runBip fo f name (optList args) σ).bind fun r =>
        .ok ⟨r.sol, .bip name args σ nb false, false, g.emit r.out⟩
    | .call t σ nb child idx n =>
      match child with
      | some c =>
        (next fo kb f c g).bind fun r =>
          if r.sol.isSome then .ok ⟨r.sol, .call t σ (nb || r.cut) (some r.node) idx n, false, r.g⟩
          else callLoop fo kb f t σ (nb || r.cut) none idx n r.g
      | none => callLoop fo kb f t σ nb none idx n g
    | .op .and σ nb more head rest tail =>
      match tail with
      | some tn =>
        (next fo kb f tn g).bind fun r =>
          let head1 := if r.cut then head.setNb else head
          if r.sol.isSome then .ok ⟨r.sol, .op .and σ (nb || r.cut) more head1 rest (some r.node), r.cut, r.g⟩
          else andLoop fo kb f σ (nb || r.cut) more head1 rest (some r.node) r.cut r.g
      | none => andLoop fo kb f σ nb more head rest none false g
    | .op .or σ nb more head rest tail =>
      match tail with
      | some tn =>
        (next fo kb f tn g).bind fun r =>
          let head1 := if r.cut then head.setNb else head
          .ok ⟨r.sol, .op .or σ (nb || r.cut) more head1 rest (some r.node), r.cut, r.g⟩
      | none =>
        (next fo kb f head g).bind fun r =>
          let head1 := if r.cut then r.node.setNb else r.node
          let nb1 := nb || r.cut
          if r.sol.isSome then .ok ⟨r.sol, .op .or σ nb1 more head1 rest none, r.cut, r.g⟩
          else if rest.length == 0 then .ok ⟨none, .op .or σ nb1 more head1 rest none, r.cut, r.g⟩
          else if nb1 then .ok ⟨none, .op .or σ nb1 more head1 rest none, r.cut, r.g⟩
          else
            (mkNode fo.showF kb (.or rest) σ r.g).bind fun m =>
              (next fo kb f m.1 m.2).bind fun r2 =>
                let head2 := if r2.cut then head1.setNb else head1
                .ok ⟨r2.sol, .op .or σ (nb1 || r2.cut) more head2 rest (some r2.node), r.cut || r2.cut, r2.g⟩
    | .op .time σ nb more head rest tail =>
      if !more then .ok ⟨none, node, false, g⟩
      else
        (next fo kb f head g).bind fun r =>
          let head1 := if r.cut then r.node.setNb else r.node
          .ok ⟨r.sol, .op .time σ (nb || r.cut) false head1 rest tail, r.cut, r.g.emit "<elapsed>"⟩
    | .op .not σ nb more head rest tail =>
      if !more then .ok ⟨none, node, false, g⟩
      else
        (next fo kb f head g).bind fun r =>
          let head1 := if r.cut then r.node.setNb else r.node
          .ok ⟨if r.sol.isSome then none else some σ, .op .not σ (nb || r.cut) false head1 rest tail, r.cut, r.g⟩
/-- the `loop` over facts and rules of a ComplexGoal node; `child` is the stale child the
    Rust node still holds. -/
def callLoop (fo : FloatOps) (kb : KB) : Nat → Term → Subst → Bool → Option Node → Nat → Nat → G → Res Step
  | 0, _, _, _, _, _, _, _ => .oof
  | f+1, t, σ, nb, child, idx, n, g =>
    if nb then .ok ⟨none, .call t σ nb child idx n, false, g⟩
    else if idx ≥ n then .ok ⟨none, .call t σ nb child idx n, false, g⟩
    else
      (termKey fo.showF t).bind fun key =>
      (getRule kb key idx g.counter).bind fun rc =>
        match unify fo f rc.1.head t σ with
        | .fail => callLoop fo kb f t σ nb child (idx + 1) n g
        | .panic => .panic
        | .oof => .oof
        | .ok σ' =>
          let g1 : G := { g with counter := rc.2 }
          if rc.1.body.isNil then .ok ⟨some σ', .call t σ nb child (idx + 1) n, false, g1⟩
          else
            (mkNode fo.showF kb rc.1.body σ' g1).bind fun m =>
              (next fo kb f m.1 m.2).bind fun r =>
                if r.sol.isSome then .ok ⟨r.sol, .call t σ (nb || r.cut) (some r.node) (idx + 1) n, false, r.g⟩
                else callLoop fo kb f t σ (nb || r.cut) (some r.node) (idx + 1) n r.g
/-- the `loop` of `next_solution_and`: ask the head, then the tail built from its solution. -/
def andLoop (fo : FloatOps) (kb : KB) : Nat → Subst → Bool → Bool → Node → GoalList → Option Node → Bool → G → Res Step
  | 0, _, _, _, _, _, _, _, _ => .oof
  | f+1, σ, nb, more, head, rest, tail, cutAcc, g =>
    (next fo kb f head g).bind fun r =>
      let head1 := if r.cut then r.node.setNb else r.node
      let nb1 := nb || r.cut
      let cut1 := cutAcc || r.cut
      match r.sol with
      | none => .ok ⟨none, .op .and σ nb1 more head1 rest tail, cut1, r.g⟩
      | some ss =>
        if rest.length == 0 then .ok ⟨some ss, .op .and σ nb1 more head1 rest tail, cut1, r.g⟩
        else
          (mkNode fo.showF kb (.and rest) ss r.g).bind fun m =>
            (next fo kb f m.1 m.2).bind fun r2 =>
              let head2 := if r2.cut then head1.setNb else head1
              if r2.sol.isSome then
                .ok ⟨r2.sol, .op .and σ (nb1 || r2.cut) more head2 rest (some r2.node), cut1 || r2.cut, r2.g⟩
              else andLoop fo kb f σ (nb1 || r2.cut) more head2 rest (some r2.node) (cut1 || r2.cut) r2.g
end

end Suiron
