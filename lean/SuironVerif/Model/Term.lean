/-
  Model of `src/unifiable.rs` : the `Unifiable` enum, its derived `PartialEq`
  and its `Display` implementation.  Core Lean only (no Mathlib, no Std).
-/
namespace Suiron

/-- Outcome of a modelled Rust function.
  `fail`  = the function returned `None`,
  `panic` = the Rust code panics (index out of range, `unwrap`, `panic!`, overflow),
  `oof`   = the model ran out of fuel (its rendering of "does not return"). -/
inductive Res (α : Type) where
  | ok (a : α)
  | fail
  | panic
  | oof
  deriving Repr, DecidableEq

namespace Res
def bind {α β} (r : Res α) (f : α → Res β) : Res β :=
  match r with
  | .ok a => f a
  | .fail => .fail
  | .panic => .panic
  | .oof => .oof
def isOk {α} : Res α → Bool
  | .ok _ => true
  | _ => false
theorem bind_eq_ok {α β} {r : Res α} {g : α → Res β} {y : β} :
    r.bind g = .ok y ↔ ∃ x, r = .ok x ∧ g x = .ok y := by
  cases r <;> simp [bind]
@[simp] theorem bind_ok {α β} (a : α) (g : α → Res β) : (Res.ok a).bind g = g a := rfl
@[simp] theorem bind_fail {α β} (g : α → Res β) : (Res.fail : Res α).bind g = .fail := rfl
@[simp] theorem bind_panic {α β} (g : α → Res β) : (Res.panic : Res α).bind g = .panic := rfl
@[simp] theorem bind_oof {α β} (g : α → Res β) : (Res.oof : Res α).bind g = .oof := rfl
end Res

mutual
/-- `Unifiable` (`src/unifiable.rs:27-69`).  `flt` holds the IEEE-754 bit pattern. -/
inductive Term where
  | nil
  | anon
  | atom (s : String)
  | flt (bits : UInt64)
  | int (i : Int)
  | var (id : Nat) (name : String)
  | cplx (args : TermList)
  | cons (term : Term) (next : Term) (count : Nat) (tailVar : Bool)
  | func (name : String) (args : TermList)
inductive TermList where
  | nil
  | cons (h : Term) (t : TermList)
end

deriving instance DecidableEq for Term
deriving instance DecidableEq for TermList

namespace TermList
def toList : TermList → List Term
  | .nil => []
  | .cons h t => h :: toList t
def ofList : List Term → TermList
  | [] => .nil
  | h :: t => .cons h (ofList t)
def length : TermList → Nat
  | .nil => 0
  | .cons _ t => length t + 1
theorem toList_ofList (l : List Term) : (ofList l).toList = l := by
  induction l with
  | nil => rfl
  | cons h t ih => simp [ofList, toList, ih]
theorem ofList_toList : (l : TermList) → ofList l.toList = l
  | .nil => rfl
  | .cons h t => by simp [ofList, toList, ofList_toList t]
theorem length_toList : (l : TermList) → l.toList.length = l.length
  | .nil => rfl
  | .cons h t => by simp [toList, length, length_toList t]
end TermList

/-! ### IEEE-754 comparisons on bit patterns (`f64 ==`, `<`, `<=`) -/

def fExp (b : UInt64) : Nat := (b.toNat / 2^52) % 2048
def fMant (b : UInt64) : Nat := b.toNat % 2^52
def fSign (b : UInt64) : Bool := b.toNat ≥ 2^63
def fIsNaN (b : UInt64) : Bool := fExp b == 2047 && fMant b != 0
/-- order-preserving integer key of a non-NaN double (both zeros map to 0). -/
def fKey (b : UInt64) : Int :=
  let mag : Nat := b.toNat % 2^63
  if fSign b then - (Int.ofNat mag) else Int.ofNat mag
def fEq (a b : UInt64) : Bool := !fIsNaN a && !fIsNaN b && fKey a == fKey b
def fLt (a b : UInt64) : Bool := !fIsNaN a && !fIsNaN b && decide (fKey a < fKey b)
def fLe (a b : UInt64) : Bool := !fIsNaN a && !fIsNaN b && decide (fKey a ≤ fKey b)

mutual
/-- The derived `PartialEq` of `Unifiable` (`self == other`): structural,
    with IEEE equality on floats (NaN ≠ NaN, +0 = -0). -/
def Term.beq : Term → Term → Bool
  | .nil, .nil => true
  | .anon, .anon => true
  | .atom a, .atom b => a == b
  | .flt a, .flt b => fEq a b
  | .int a, .int b => a == b
  | .var i n, .var j m => i == j && n == m
  | .cplx a, .cplx b => TermList.beq a b
  | .cons t n c tv, .cons t' n' c' tv' => Term.beq t t' && Term.beq n n' && c == c' && tv == tv'
  | .func f a, .func g b => f == g && TermList.beq a b
  | _, _ => false
def TermList.beq : TermList → TermList → Bool
  | .nil, .nil => true
  | .cons a as, .cons b bs => Term.beq a b && TermList.beq as bs
  | _, _ => false
end

def Term.isNil : Term → Bool
  | .nil => true
  | _ => false
def Term.isAnon : Term → Bool
  | .anon => true
  | _ => false
def Term.isVar : Term → Bool
  | .var _ _ => true
  | _ => false
def Term.isFunc : Term → Bool
  | .func _ _ => true
  | _ => false
def Term.isCons : Term → Bool
  | .cons _ _ _ _ => true
  | _ => false

/-- The empty list `[]` : `cons_node!(Nil, Nil, 0, false)`. -/
def Term.empty : Term := .cons .nil .nil 0 false

/-! ### Display (`src/unifiable.rs:558-617`, `built_in_predicates.rs::format_built_in`) -/

mutual
def Term.show (sf : UInt64 → String) : Term → String
  | .nil => "Nil"
  | .anon => "$_"
  | .atom s => s
  | .flt b => sf b
  | .int i => toString i
  | .var id name => if id == 0 then name else name ++ "_" ++ toString id
  | .cplx args => TermList.showCplx sf args
  | .cons t n _ _ => "[" ++ (if t.isNil then "" else Term.show sf t ++ Term.showNode sf n false) ++ "]"
  | .func name args => name ++ "(" ++ TermList.showArgs sf args true ++ ")"
/-- the `while **t != Nil` loop of the list printer, one node per call. -/
def Term.showNode (sf : UInt64 → String) : Term → Bool → String
  | .cons t n _ tv, first =>
      if t.isNil then "" else
        (if first then "" else if tv then " | " else ", ") ++ Term.show sf t ++ Term.showNode sf n false
  | _, _ => ""
def TermList.showCplx (sf : UInt64 → String) : TermList → String
  | .nil => ")"
  | .cons f args => Term.show sf f ++ "(" ++ TermList.showArgs sf args true ++ ")"
def TermList.showArgs (sf : UInt64 → String) : TermList → Bool → String
  | .nil, _ => ""
  | .cons a as, first => (if first then "" else ", ") ++ Term.show sf a ++ TermList.showArgs sf as false
end

end Suiron
