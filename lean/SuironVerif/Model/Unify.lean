/-
  Model of `Unifiable::unify` (`src/unifiable.rs:159-374`) and
  `unify_sfunction` (`src/built_in_functions.rs`), branch by branch.
-/
import SuironVerif.Model.Arith
namespace Suiron

/-- the alias test added by repair D2 (`unifiable.rs`, LogicVar branch): does the chain
    of bindings starting at `t` reach the (unbound) variable `id`? -/
def aliased : Nat → Subst → Nat → Term → Res Bool
  | 0, _, _, _ => .oof
  | f+1, σ, id, t =>
    match t with
    | .var j _ =>
      if j = id then .ok true
      else match σ.get j with
        | some e => aliased f σ id e
        | none => .ok false
    | _ => .ok false

mutual
def unify (fo : FloatOps) : Nat → Term → Term → Subst → Res Subst
  | 0, _, _, _ => .oof
  | f+1, a, b, σ =>
    if a.beq b then .ok σ
    else if b.isAnon then .ok σ
    else
      match a with
      | .anon => .ok σ
      | .atom s =>
        match b with
        | .atom s2 => if s = s2 then .ok σ else .fail
        | .var _ _ => unify fo f b a σ
        | .func _ _ => unify fo f b a σ
        | _ => .fail
      | .flt x =>
        match b with
        | .flt y => if fEq x y then .ok σ else .fail
        | .var _ _ => unify fo f b a σ
        | .func _ _ => unify fo f b a σ
        | _ => .fail
      | .int x =>
        match b with
        | .int y => if x = y then .ok σ else .fail
        | .var _ _ => unify fo f b a σ
        | .func _ _ => unify fo f b a σ
        | _ => .fail
      | .var id _ =>
        if id = 0 then .panic
        else if b.isFunc then unify fo f b a σ
        else
          match σ.get id with
          | some t => unify fo f t b σ
          | none =>
            (aliased f σ id b).bind fun al =>
              if al then .ok σ else .ok (σ.bind id b)
      | .cplx as =>
        match b with
        | .cplx bs =>
          if as.length ≠ bs.length then .fail else unifyArgs fo f as bs σ []
        | .var _ _ => unify fo f b a σ
        | .func _ _ => unify fo f b a σ
        | _ => .fail
      | .cons _ _ _ _ =>
        match b with
        | .cons _ _ _ _ => unifyList fo f a b σ
        | .var _ _ => unify fo f b a σ
        | .func _ _ => unify fo f b a σ
        | _ => .fail
      | .func name args =>
        (evalFunc fo f name args.toList σ).bind fun v => unify fo f v b σ
      | .nil => .fail
/-- the `while i < other_len` loop of the SComplex branch: `cur` is `new_ss`,
    `acc` is `ss2` (initially the *empty* substitution set). -/
def unifyArgs (fo : FloatOps) : Nat → TermList → TermList → Subst → Subst → Res Subst
  | 0, _, _, _, _ => .oof
  | _+1, .nil, .nil, _, acc => .ok acc
  | f+1, .cons a as, .cons b bs, cur, acc =>
    if a.isAnon then unifyArgs fo f as bs cur acc
    else if b.isAnon then unifyArgs fo f as bs cur acc
    else (unify fo f a b cur).bind fun σ' => unifyArgs fo f as bs σ' σ'
  | _+1, _, _, _, _ => .panic
/-- the `while *this_list != Nil && *other_list != Nil` loop of the SLinkedList branch. -/
def unifyList (fo : FloatOps) : Nat → Term → Term → Subst → Res Subst
  | 0, _, _, _ => .oof
  | f+1, this, other, cur =>
    if this.isNil || other.isNil then .fail
    else
      match this, other with
      | .cons tt tn _ ttv, .cons ot on _ otv =>
        if ttv && otv then
          if ot.isAnon then .ok cur
          else if tt.isAnon then .ok cur
          else unify fo f tt ot cur
        else if ttv then unify fo f tt other cur
        else if otv then unify fo f ot this cur
        else if tt.isNil && ot.isNil then .ok cur
        else (unify fo f tt ot cur).bind fun σ' => unifyList fo f tn on σ'
      | _, _ => .panic
end

end Suiron
