/-
  Driver-only instantiation of `FloatOps` with the machine's IEEE-754 doubles,
  and a printer that reproduces Rust's `Display for f64` on the doubles whose
  exact decimal expansion has at most 15 significant digits.
  Trusted (part of the correspondence check), never used in a theorem.
-/
import SuironVerif.Model.Arith
namespace Suiron.Native

def pad (k : Nat) (s : String) : String :=
  String.ofList (List.replicate (k - s.length) '0') ++ s

partial def stripEven (m : Nat) (e : Int) : Nat × Int :=
  if e < 0 && m % 2 == 0 && m != 0 then stripEven (m / 2) (e + 1) else (m, e)

def showF64 (b : UInt64) : String :=
  let sign := fSign b
  let ex := fExp b
  let mant := fMant b
  let sg := if sign then "-" else ""
  if ex == 2047 then (if mant != 0 then "NaN" else sg ++ "inf")
  else if ex == 0 && mant == 0 then sg ++ "0"
  else
    let m0 : Nat := if ex == 0 then mant else 2^52 + mant
    let e0 : Int := if ex == 0 then -1074 else (Int.ofNat ex) - 1075
    let (m, e) := stripEven m0 e0
    if e ≥ 0 then
      let n := m * 2 ^ e.toNat
      if n < 2^53 then sg ++ toString n else "<?f:" ++ toString b.toNat ++ ">"
    else
      let k := (-e).toNat
      let n := m * 5 ^ k
      if (toString n).length ≤ 15 then
        sg ++ toString (n / 10^k) ++ "." ++ pad k (toString (n % 10^k))
      else "<?f:" ++ toString b.toNat ++ ">"

def ops : FloatOps where
  add a b := (Float.ofBits a + Float.ofBits b).toBits
  sub a b := (Float.ofBits a - Float.ofBits b).toBits
  mul a b := (Float.ofBits a * Float.ofBits b).toBits
  div a b := (Float.ofBits a / Float.ofBits b).toBits
  ofInt i := (Int64.ofInt i).toFloat.toBits
  showF := showF64

end Suiron.Native
