/-
  Driver-only instantiation of `FloatOps` with the machine's IEEE-754 doubles,
  and a printer that reproduces Rust's `Display for f64` on the doubles whose
  exact decimal expansion has at most 15 significant digits.
  Trusted (part of the correspondence check), never used in a theorem.
-/
import SuironVerif.Model.Arith
import SuironVerif.Model.Parse
namespace Suiron.Native

def pad (k : Nat) (s : String) : String :=
  String.ofList (List.replicate (k - s.length) '0') ++ s

partial def stripEven (m : Nat) (e : Int) : Nat × Int :=
  if e < 0 && m % 2 == 0 && m != 0 then stripEven (m / 2) (e + 1) else (m, e)

/-! ### `str::parse::<f64>()` on digit strings with an optional sign and one period: exact
      (correctly rounded, ties to even) conversion of m / 10^k. -/

def roundDiv (n d : Nat) : Nat :=
  let q := n / d
  let r := n % d
  if 2 * r < d then q else if 2 * r > d then q + 1 else if q % 2 == 0 then q else q + 1

def decToF64 (neg : Bool) (m k : Nat) : UInt64 :=
  let signBit : Nat := if neg then 2^63 else 0
  if m == 0 then UInt64.ofNat signBit else
  let d := 10 ^ k
  -- e2 = floor(log2(m / d))
  let e0 : Int := (Int.ofNat (Nat.log2 m)) - (Int.ofNat (Nat.log2 d))
  let ge (e : Int) : Bool := if e ≥ 0 then m ≥ d * 2 ^ e.toNat else m * 2 ^ (-e).toNat ≥ d
  let e2 : Int := if ge (e0 + 1) then e0 + 1 else if ge e0 then e0 else e0 - 1
  let qexp : Int := if e2 - 52 < -1074 then -1074 else e2 - 52
  let mant0 : Nat := if qexp ≥ 0 then roundDiv m (d * 2 ^ qexp.toNat) else roundDiv (m * 2 ^ (-qexp).toNat) d
  let (mant, qexp) := if mant0 ≥ 2^53 then (mant0 / 2, qexp + 1) else (mant0, qexp)
  if mant < 2^52 then UInt64.ofNat (signBit + mant)
  else
    let biased : Int := qexp + 1075
    if biased ≥ 2047 then UInt64.ofNat (signBit + 2047 * 2^52)
    else UInt64.ofNat (signBit + biased.toNat * 2^52 + (mant - 2^52))

partial def log10Up (n d k : Nat) : Nat := if n ≥ d * 10 ^ (k + 1) then log10Up n d (k + 1) else k
partial def log10Down (n d k : Nat) : Nat := if n * 10 ^ k ≥ d then k else log10Down n d (k + 1)
/-- floor(log10(n/d)) for n, d > 0 -/
def log10Floor (n d : Nat) : Int :=
  if n ≥ d then Int.ofNat (log10Up n d 0) else - Int.ofNat (log10Down n d 1)

def fmtDigits (digits : String) (k : Int) : String :=
  -- value = 0.d1d2... * 10^(k+1), i.e. d1 . d2 ... * 10^k
  let ds := digits.toList
  let n := ds.length
  if k ≥ 0 then
    let ip := k.toNat + 1
    if n ≤ ip then digits ++ String.ofList (List.replicate (ip - n) '0')
    else String.ofList (ds.take ip) ++ "." ++ String.ofList (ds.drop ip)
  else "0." ++ String.ofList (List.replicate ((-k).toNat - 1) '0') ++ digits

def stripZeros (s : String) : String :=
  let l := (s.toList.reverse.dropWhile (· == '0')).reverse
  if l.isEmpty then "0" else String.ofList l

/-- Rust's `Display for f64`: the shortest decimal that parses back to the same double (no exponent). -/
def showF64 (b : UInt64) : String :=
  let sign := fSign b
  let ex := fExp b
  let mant := fMant b
  let sg := if sign then "-" else ""
  if ex == 2047 then (if mant != 0 then "NaN" else sg ++ "inf")
  else if ex == 0 && mant == 0 then sg ++ "0"
  else
    let m0 : Nat := if ex == 0 then mant else 2^52 + mant
    let e0 : Int := if ex == 0 then -1074 else (Int.ofNat ex) - 1075
    let N : Nat := if e0 ≥ 0 then m0 * 2 ^ e0.toNat else m0
    let D : Nat := if e0 ≥ 0 then 1 else 2 ^ (-e0).toNat
    let k0 := log10Floor N D
    let target : UInt64 := UInt64.ofNat (b.toNat % 2^63)
    let rec try_ (p : Nat) (fuel : Nat) : String :=
      match fuel with
      | 0 => "<?f:" ++ toString b.toNat ++ ">"
      | fuel+1 =>
        let sh : Int := (Int.ofNat p) - 1 - k0
        let num := if sh ≥ 0 then N * 10 ^ sh.toNat else N
        let den := if sh ≥ 0 then D else D * 10 ^ (-sh).toNat
        let I0 := roundDiv num den
        let (I, k) := if I0 ≥ 10 ^ p then (I0 / 10, k0 + 1) else (I0, k0)
        let ex10 : Int := k - (Int.ofNat p) + 1
        let back := if ex10 ≥ 0 then decToF64 false (I * 10 ^ ex10.toNat) 0 else decToF64 false I (-ex10).toNat
        if back == target then sg ++ fmtDigits (stripZeros (toString I)) k
        else try_ (p + 1) fuel
    try_ 1 18

def ops : FloatOps where
  add a b := (Float.ofBits a + Float.ofBits b).toBits
  sub a b := (Float.ofBits a - Float.ofBits b).toBits
  mul a b := (Float.ofBits a * Float.ofBits b).toBits
  div a b := (Float.ofBits a / Float.ofBits b).toBits
  ofInt i := (Int64.ofInt i).toFloat.toBits
  showF := showF64


/-- digits with at most one period, at least one digit; returns (mantissa, fractional digits) -/
def scanDecimal : Parse.Text → Nat → Nat → Bool → Bool → Option (Nat × Nat)
  | [], m, k, _, any => if any then some (m, k) else none
  | c :: rest, m, k, seenDot, any =>
    if Parse.isDigit c then scanDecimal rest (m * 10 + (c.toNat - '0'.toNat)) (if seenDot then k + 1 else k) seenDot true
    else if c == '.' && !seenDot then scanDecimal rest m k true any
    else none

def parseF64 (s : Parse.Text) : Option UInt64 :=
  let (neg, body) := match s with
    | '-' :: r => (true, r)
    | '+' :: r => (false, r)
    | r => (false, r)
  (scanDecimal body 0 0 false false).map fun (m, k) => decToF64 neg m k

/-- `char::is_alphabetic` on the alphabet the generators stay in (ASCII, Latin-1 letters, Latin Extended,
    IPA, Greek, Cyrillic). -/
def isAlphabetic (c : Char) : Bool :=
  let n := c.toNat
  ('a'.toNat ≤ n && n ≤ 'z'.toNat) || ('A'.toNat ≤ n && n ≤ 'Z'.toNat) ||
  n == 0xAA || n == 0xB5 || n == 0xBA ||
  (0xC0 ≤ n && n ≤ 0x2AF && n != 0xD7 && n != 0xF7) ||
  (0x370 ≤ n && n ≤ 0x373) || n == 0x376 || n == 0x377 || (0x37A ≤ n && n ≤ 0x37D) || n == 0x37F ||
  n == 0x386 || (0x388 ≤ n && n ≤ 0x38A) || n == 0x38C || (0x38E ≤ n && n ≤ 0x3A1) ||
  (0x3A3 ≤ n && n ≤ 0x3F5) || (0x3F7 ≤ n && n ≤ 0x481) || (0x48A ≤ n && n ≤ 0x52F)

def pops : Parse.POps where
  parseF := parseF64
  isAlpha := isAlphabetic

end Suiron.Native
