/-
  Model of the list helpers of `src/s_linked_list.rs`:
  `make_linked_list`, the shared traversal of `get_terms` / `count_terms` / `filter`.
-/
import SuironVerif.Model.Subst
namespace Suiron

/-- the accumulator of `make_linked_list`'s backward loop: (tail, num, tail_var). -/
abbrev Acc := Term × Nat × Bool
/-- one iteration: `tail = cons_node!(node, tail, num, tail_var); num += 1; tail_var = false`. -/
def accStep (x : Term) (acc : Acc) : Acc := (Term.cons x acc.1 acc.2.1 acc.2.2, acc.2.1 + 1, false)
/-- the special treatment of the last term: a list is spliced in as the rest, `Nil` is dropped. -/
def mkInit (vbar : Bool) (last : Term) : Acc :=
  match last with
  | .cons t n c tf => if t.isNil then (Term.empty, 1, false) else (.cons t n c tf, c + 1, false)
  | .nil => (Term.empty, 1, vbar)
  | x => (.cons x Term.empty 1 vbar, 2, false)

/-- `make_linked_list` (`s_linked_list.rs:77-124`). -/
def mkList (vbar : Bool) : List Term → Term
  | [] => .empty
  | [t] => .cons t .empty 1 vbar
  | t0 :: rest =>
    match rest.getLast? with
    | none => .cons t0 .empty 1 vbar
    | some last =>
      let r := rest.dropLast.foldr accStep (mkInit vbar last)
      .cons t0 r.1 r.2.1 r.2.2

/-- a list built from exactly these elements, nothing spliced (the builder used by
    `append` / `include` / `exclude` after repair D7). -/
def mkProper : List Term → Term
  | [] => .empty
  | t :: ts => .cons t (mkProper ts) (ts.length + 1) false

/-- `get_list` (`substitution_set.rs:311-330`). -/
def getList (f : Nat) (σ : Subst) (t : Term) : Res (Option Term) :=
  match t with
  | .cons a b c d => .ok (some (.cons a b c d))
  | .var i n =>
    (walk f σ (.var i n)).bind fun r =>
      match r with
      | some (.cons a b c d) => .ok (some (.cons a b c d))
      | _ => .ok none
  | _ => .ok none

/-- The `while *head != Nil` loop shared by `get_terms`, `filter` (`keepTail = true`:
    an unbound tail variable becomes the next head) and `count_terms`
    (`keepTail = false`: the loop returns at an unbound tail variable).
    Returns the successive values of `head`. -/
def listHeads (keepTail : Bool) : Nat → Subst → Term → Term → Res (List Term)
  | 0, _, _, _ => .oof
  | f+1, σ, head, slist =>
    if head.isNil then .ok [] else
    match slist with
    | .cons t n _ tv =>
      if tv && !t.isAnon then
        (getList f σ t).bind fun r =>
          match r with
          | some (.cons t2 n2 _ _) => (listHeads keepTail f σ t2 n2).bind fun r => .ok (head :: r)
          | some _ => .panic
          | none => if keepTail then (listHeads keepTail f σ t n).bind fun r => .ok (head :: r)
                    else .ok [head]
      else (listHeads keepTail f σ t n).bind fun r => .ok (head :: r)
    | _ => .ok [head]

/-- `get_terms` (`s_linked_list.rs:515-561`). -/
def getTerms (f : Nat) (σ : Subst) (t : Term) : Res (List Term) :=
  (walk f σ t).bind fun r =>
    match r with
    | none => .ok [t]
    | some (.cons h n _ _) => listHeads true f σ h n
    | some g => .ok [g]

/-- `count_terms` (`s_linked_list.rs:371-417`). -/
def countTerms (f : Nat) (σ : Subst) (t : Term) : Res Int :=
  let go (u : Term) : Res Int :=
    match u with
    | .cons h n _ _ => (listHeads false f σ h n).bind fun l => .ok (Int.ofNat l.length)
    | _ => .ok 1
  match t with
  | .var _ _ =>
    (walk f σ t).bind fun r =>
      match r with
      | none => .ok 1
      | some g => go g
  | t => go t

end Suiron
