/-
  A generic invariant principle for the unification model: any predicate on
  substitution sets that holds for the empty set and is preserved by the one
  binding step `Subst.bind` (under the side conditions the code guarantees at
  that point) is preserved by `unify`, `unifyArgs`, `unifyList`.
-/
import SuironVerif.Model.Unify
namespace Suiron

/-- side conditions known at the only place where `unify` creates a binding. -/
structure BindOK (σ : Subst) (id : Nat) (b : Term) : Prop where
  unbound : σ.get id = none
  notAnon : b.isAnon = false
  notFunc : b.isFunc = false
  idPos : id ≠ 0
  notAliased : ∃ f, aliased f σ id b = .ok false

theorem unify_inv_all (fo : FloatOps) (P : Subst → Prop) (hnil : P [])
    (hbind : ∀ σ id b, P σ → BindOK σ id b → P (σ.bind id b)) :
    ∀ f,
      (∀ a b σ σ', unify fo f a b σ = .ok σ' → P σ → P σ') ∧
      (∀ as bs cur acc σ', unifyArgs fo f as bs cur acc = .ok σ' → P cur → P acc → P σ') ∧
      (∀ x y cur σ', unifyList fo f x y cur = .ok σ' → P cur → P σ') := by
  intro f
  induction f with
  | zero =>
    refine ⟨?_, ?_, ?_⟩
    · intro a b σ σ' h; simp [unify] at h
    · intro as bs cur acc σ' h; simp [unifyArgs] at h
    · intro x y cur σ' h; simp [unifyList] at h
  | succ f ih =>
    obtain ⟨ihU, ihA, ihL⟩ := ih
    refine ⟨?_, ?_, ?_⟩
    · intro a b σ σ' h hP
      unfold unify at h
      split at h
      · cases h; exact hP
      split at h
      · cases h; exact hP
      split at h
      · cases h; exact hP
      · -- atom
        split at h
        · split at h <;> first | (cases h; exact hP) | (cases h)
        · exact ihU _ _ _ _ h hP
        · exact ihU _ _ _ _ h hP
        · cases h
      · -- flt
        split at h
        · split at h <;> first | (cases h; exact hP) | (cases h)
        · exact ihU _ _ _ _ h hP
        · exact ihU _ _ _ _ h hP
        · cases h
      · -- int
        split at h
        · split at h <;> first | (cases h; exact hP) | (cases h)
        · exact ihU _ _ _ _ h hP
        · exact ihU _ _ _ _ h hP
        · cases h
      · -- var
        split at h
        · cases h
        split at h
        · exact ihU _ _ _ _ h hP
        split at h
        · exact ihU _ _ _ _ h hP
        · rename_i hanon _ _ _ hbeq hid hfun _ hget
          obtain ⟨al, hal, h⟩ := Res.bind_eq_ok.mp h
          cases al with
          | true => simp at h; cases h; exact hP
          | false =>
            simp at h; cases h
            apply hbind _ _ _ hP
            refine ⟨hget, ?_, ?_, hid, ⟨f, hal⟩⟩
            · simpa using hanon
            · simpa using hfun
      · -- cplx
        split at h
        · split at h
          · cases h
          · exact ihA _ _ _ _ _ h hP hnil
        · exact ihU _ _ _ _ h hP
        · exact ihU _ _ _ _ h hP
        · cases h
      · -- cons
        split at h
        · exact ihL _ _ _ _ h hP
        · exact ihU _ _ _ _ h hP
        · exact ihU _ _ _ _ h hP
        · cases h
      · -- func
        obtain ⟨v, hev, h⟩ := Res.bind_eq_ok.mp h
        exact ihU _ _ _ _ h hP
      · cases h
    · intro as bs cur acc σ' h hc ha
      cases as with
      | nil =>
        cases bs with
        | nil => simp [unifyArgs] at h; cases h; exact ha
        | cons b bs => simp [unifyArgs] at h
      | cons a as =>
        cases bs with
        | nil => simp [unifyArgs] at h
        | cons b bs =>
          simp only [unifyArgs] at h
          split at h
          · exact ihA _ _ _ _ _ h hc ha
          split at h
          · exact ihA _ _ _ _ _ h hc ha
          · obtain ⟨s, hu, h⟩ := Res.bind_eq_ok.mp h
            exact ihA _ _ _ _ _ h (ihU _ _ _ _ hu hc) (ihU _ _ _ _ hu hc)
    · intro x y cur σ' h hc
      simp only [unifyList] at h
      split at h
      · cases h
      split at h
      · split at h
        · split at h
          · cases h; exact hc
          split at h
          · cases h; exact hc
          · exact ihU _ _ _ _ h hc
        split at h
        · exact ihU _ _ _ _ h hc
        split at h
        · exact ihU _ _ _ _ h hc
        split at h
        · cases h; exact hc
        · obtain ⟨s, hu, h⟩ := Res.bind_eq_ok.mp h
          exact ihL _ _ _ _ h (ihU _ _ _ _ hu hc)
      · cases h

end Suiron
