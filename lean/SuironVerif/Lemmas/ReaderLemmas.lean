/-
  Helper lemmas for C21 about the reader model (`separate_rules`, the line-joining loop).
-/
import SuironVerif.Model.Reader
namespace Suiron.Parse

/-! ### `separate_rules`: frame and concatenation lemmas -/

theorem sepLoop_frame : ∀ (r : Text) (st : SepSt) (acc : List Text) (q : Nat), q % 2 = 0 →
    sepLoop r { st with rules := acc ++ st.rules, quotes := st.quotes + q } =
      { sepLoop r st with rules := acc ++ (sepLoop r st).rules, quotes := (sepLoop r st).quotes + q } := by
  intro r
  induction r with
  | nil => intro st acc q _; simp [sepLoop]
  | cons ch rest ih =>
    intro st acc q hq
    simp only [sepLoop]
    have hpar : ((st.quotes + q) % 2 == 0) = (st.quotes % 2 == 0) := by
      have : (st.quotes + q) % 2 = st.quotes % 2 := by omega
      rw [this]
    rw [hpar]
    split
    · have := ih { st with cur := [], rules := st.rules ++ [st.cur ++ [ch]] } acc q hq
      simp only [List.append_assoc] at this ⊢
      exact this
    split
    · exact ih { st with cur := st.cur ++ [ch], round := st.round + 1 } acc q hq
    split
    · exact ih { st with cur := st.cur ++ [ch], square := st.square + 1 } acc q hq
    split
    · exact ih { st with cur := st.cur ++ [ch], round := st.round - 1 } acc q hq
    split
    · exact ih { st with cur := st.cur ++ [ch], square := st.square - 1 } acc q hq
    split
    · have := ih { st with cur := st.cur ++ [ch], quotes := st.quotes + 1 } acc q hq
      have e : st.quotes + 1 + q = st.quotes + q + 1 := by omega
      simp only at this ⊢
      rw [← e]; exact this
    · exact ih { st with cur := st.cur ++ [ch] } acc q hq

def notDigitHead (b : Text) : Prop := ∀ c, b.head? = some c → isDigit c = false

theorem sepLoop_append : ∀ (a b : Text) (st : SepSt), notDigitHead b →
    sepLoop (a ++ b) st = sepLoop b (sepLoop a st) := by
  intro a
  induction a with
  | nil => intro b st _; simp [sepLoop]
  | cons ch a ih =>
    intro b st hb
    have hdec : nextIsDigit (a ++ b) = nextIsDigit a := by
      cases a with
      | nil =>
        cases b with
        | nil => rfl
        | cons d b' => simp [nextIsDigit]; exact hb d rfl
      | cons d a' => rfl
    simp only [List.cons_append, sepLoop, hdec]
    split
    · exact ih _ _ hb
    split
    · exact ih _ _ hb
    split
    · exact ih _ _ hb
    split
    · exact ih _ _ hb
    split
    · exact ih _ _ hb
    split
    · exact ih _ _ hb
    · exact ih _ _ hb



/-- `r` is read as exactly one rule: scanned on its own it is split off after its last character and
    nowhere else, with all brackets closed and quotes paired; and it does not begin with a digit
    (a period in front of a digit is taken for a decimal point). -/
structure OneRule (r : Text) : Prop where
  scan : ∃ q, q % 2 = 0 ∧ sepLoop r {} = { cur := [], rules := [r], round := 0, square := 0, quotes := q }
  start : notDigitHead r

theorem OneRule.ne_nil {r : Text} (h : OneRule r) : r ≠ [] := by
  intro he; subst he
  obtain ⟨q, _, hs⟩ := h.scan
  simp [sepLoop] at hs

theorem notDigitHead_flatten : ∀ (rs : List Text), (∀ r ∈ rs, OneRule r) → notDigitHead rs.flatten := by
  intro rs
  cases rs with
  | nil => intro _ c hc; simp at hc
  | cons r rs =>
    intro h c hc
    have hr := h r (by simp)
    have hne := hr.ne_nil
    cases r with
    | nil => exact absurd rfl hne
    | cons a t =>
      simp at hc
      exact hr.start c (by simp [hc])

theorem sepLoop_rules : ∀ (rs : List Text) (acc : List Text) (q : Nat), q % 2 = 0 → (∀ r ∈ rs, OneRule r) →
    ∃ q', q' % 2 = 0 ∧
      sepLoop rs.flatten { cur := [], rules := acc, round := 0, square := 0, quotes := q } =
        { cur := [], rules := acc ++ rs, round := 0, square := 0, quotes := q' } := by
  intro rs
  induction rs with
  | nil => intro acc q hq _; exact ⟨q, hq, by simp [sepLoop]⟩
  | cons r rs ih =>
    intro acc q hq h
    have hr := h r (by simp)
    obtain ⟨q1, hq1, hs⟩ := hr.scan
    have hrest : ∀ r' ∈ rs, OneRule r' := fun r' hr' => h r' (by simp [hr'])
    rw [List.flatten_cons, sepLoop_append _ _ _ (notDigitHead_flatten rs hrest)]
    have hf := sepLoop_frame r {} acc q hq
    simp only [hs] at hf
    have e : ({ cur := [], rules := acc, round := 0, square := 0, quotes := q } : SepSt) =
             { ({} : SepSt) with rules := acc ++ ({} : SepSt).rules, quotes := ({} : SepSt).quotes + q } := by
      simp
    rw [e, hf]
    obtain ⟨q', hq', hs'⟩ := ih (acc ++ [r]) (q1 + q) (by omega) hrest
    refine ⟨q', hq', ?_⟩
    rw [hs']
    simp

/-- `separate_rules` on the concatenation of rule texts gives back exactly those texts, in order -/
theorem separateRules_concat (rs : List Text) (h : ∀ r ∈ rs, OneRule r) : separateRules rs.flatten = .ok rs := by
  obtain ⟨q', _, hs⟩ := sepLoop_rules rs [] 0 (by decide) h
  unfold separateRules
  have e : ({} : SepSt) = { cur := [], rules := [], round := 0, square := 0, quotes := 0 } := rfl
  rw [e, hs]
  simp

/-- what one line contributes to the text handed to `separate_rules` -/
def lineText (line : Text) : Text :=
  let p := stripComments line
  if p.isEmpty then [] else p ++ (if p.getLast? == some '.' then [] else [' '])

theorem joinLines_spec : ∀ (lines : List Text) (acc : Text),
    (∀ l ∈ lines, checkLastChar (stripComments l) = true) →
    joinLines lines acc = .ok (acc ++ (lines.map lineText).flatten) := by
  intro lines
  induction lines with
  | nil => intro acc _; simp [joinLines]
  | cons l rest ih =>
    intro acc h
    have hl := h l (by simp)
    have hrest : ∀ l' ∈ rest, checkLastChar (stripComments l') = true := fun l' hl' => h l' (by simp [hl'])
    simp only [joinLines, List.map_cons, List.flatten_cons]
    by_cases he : (stripComments l).isEmpty = true
    · simp only [he, if_true]
      rw [ih acc hrest]
      simp [lineText, he]
    · simp only [he, hl]
      simp only [Bool.not_true, Bool.false_eq_true, if_false]
      rw [ih _ hrest]
      simp [lineText, he, List.append_assoc]

theorem joinLines_reject : ∀ (lines : List Text) (acc : Text),
    (∃ l ∈ lines, checkLastChar (stripComments l) = false) → joinLines lines acc = .fail := by
  intro lines
  induction lines with
  | nil => intro acc h; obtain ⟨l, hl, _⟩ := h; cases hl
  | cons l rest ih =>
    intro acc h
    simp only [joinLines]
    by_cases hc : checkLastChar (stripComments l) = true
    · have hrest : ∃ l' ∈ rest, checkLastChar (stripComments l') = false := by
        obtain ⟨l', hl', hf⟩ := h
        rcases List.mem_cons.mp hl' with rfl | hm
        · rw [hc] at hf; cases hf
        · exact ⟨l', hm, hf⟩
      by_cases he : (stripComments l).isEmpty = true
      · simp [he, ih acc hrest]
      · simp [he, hc, ih _ hrest]
    · have he : (stripComments l).isEmpty = false := by
        cases hs : stripComments l with
        | nil => simp [hs, checkLastChar] at hc
        | cons a b => rfl
      simp [he, hc]

end Suiron.Parse
