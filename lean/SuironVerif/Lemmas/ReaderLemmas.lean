/-
  Helper lemmas for C21 about the reader model (`separate_rules`, the line-joining loop).
-/
import SuironVerif.Model.Reader
import SuironVerif.Lemmas.ParseToken
namespace Suiron.Parse

/-! ### `separate_rules`: frame and concatenation lemmas -/

theorem sepLoop_frame : ∀ (r : Text) (st : SepSt) (acc : List Text) (q : Nat), q % 2 = 0 →
    sepLoop r { st with rules := acc ++ st.rules, quotes := st.quotes + q } =
      { sepLoop r st with rules := acc ++ (sepLoop r st).rules, quotes := (sepLoop r st).quotes + q } := by
  intro r
  induction r with
  | nil => intro st acc q _; simp [sepLoop]
  | cons ch rest ih =>
    intro st acc q hq
    simp only [sepLoop]
    have hpar : ((st.quotes + q) % 2 == 0) = (st.quotes % 2 == 0) := by
      have : (st.quotes + q) % 2 = st.quotes % 2 := by omega
      rw [this]
    have hpar1 : ((st.quotes + q) % 2 == 1) = (st.quotes % 2 == 1) := by
      have : (st.quotes + q) % 2 = st.quotes % 2 := by omega
      rw [this]
    rw [hpar, hpar1]
    split
    · have := ih { st with cur := [], rules := st.rules ++ [st.cur ++ [ch]] } acc q hq
      simp only [List.append_assoc] at this ⊢
      exact this
    split
    · have := ih { st with cur := st.cur ++ [ch], quotes := st.quotes + 1 } acc q hq
      have e : st.quotes + 1 + q = st.quotes + q + 1 := by omega
      simp only at this ⊢
      rw [← e]; exact this
    split
    · exact ih { st with cur := st.cur ++ [ch] } acc q hq
    split
    · exact ih { st with cur := st.cur ++ [ch], round := st.round + 1 } acc q hq
    split
    · exact ih { st with cur := st.cur ++ [ch], square := st.square + 1 } acc q hq
    split
    · exact ih { st with cur := st.cur ++ [ch], round := st.round - 1 } acc q hq
    split
    · exact ih { st with cur := st.cur ++ [ch], square := st.square - 1 } acc q hq
    · exact ih { st with cur := st.cur ++ [ch] } acc q hq

def notDigitHead (b : Text) : Prop := ∀ c, b.head? = some c → isDigit c = false

theorem sepLoop_append : ∀ (a b : Text) (st : SepSt), notDigitHead b →
    sepLoop (a ++ b) st = sepLoop b (sepLoop a st) := by
  intro a
  induction a with
  | nil => intro b st _; simp [sepLoop]
  | cons ch a ih =>
    intro b st hb
    have hdec : nextIsDigit (a ++ b) = nextIsDigit a := by
      cases a with
      | nil =>
        cases b with
        | nil => rfl
        | cons d b' => simp [nextIsDigit]; exact hb d rfl
      | cons d a' => rfl
    simp only [List.cons_append, sepLoop, hdec]
    repeat' split
    all_goals exact ih _ _ hb



/-- `r` is read as exactly one rule: scanned on its own it is split off after its last character and
    nowhere else, with all brackets closed and quotes paired; and it does not begin with a digit
    (a period in front of a digit is taken for a decimal point). -/
structure OneRule (r : Text) : Prop where
  scan : ∃ q, q % 2 = 0 ∧ sepLoop r {} = { cur := [], rules := [r], round := 0, square := 0, quotes := q }
  start : notDigitHead r

theorem OneRule.ne_nil {r : Text} (h : OneRule r) : r ≠ [] := by
  intro he; subst he
  obtain ⟨q, _, hs⟩ := h.scan
  simp [sepLoop] at hs

theorem notDigitHead_flatten : ∀ (rs : List Text), (∀ r ∈ rs, OneRule r) → notDigitHead rs.flatten := by
  intro rs
  cases rs with
  | nil => intro _ c hc; simp at hc
  | cons r rs =>
    intro h c hc
    have hr := h r (by simp)
    have hne := hr.ne_nil
    cases r with
    | nil => exact absurd rfl hne
    | cons a t =>
      simp at hc
      exact hr.start c (by simp [hc])

theorem sepLoop_rules : ∀ (rs : List Text) (acc : List Text) (q : Nat), q % 2 = 0 → (∀ r ∈ rs, OneRule r) →
    ∃ q', q' % 2 = 0 ∧
      sepLoop rs.flatten { cur := [], rules := acc, round := 0, square := 0, quotes := q } =
        { cur := [], rules := acc ++ rs, round := 0, square := 0, quotes := q' } := by
  intro rs
  induction rs with
  | nil => intro acc q hq _; exact ⟨q, hq, by simp [sepLoop]⟩
  | cons r rs ih =>
    intro acc q hq h
    have hr := h r (by simp)
    obtain ⟨q1, hq1, hs⟩ := hr.scan
    have hrest : ∀ r' ∈ rs, OneRule r' := fun r' hr' => h r' (by simp [hr'])
    rw [List.flatten_cons, sepLoop_append _ _ _ (notDigitHead_flatten rs hrest)]
    have hf := sepLoop_frame r {} acc q hq
    simp only [hs] at hf
    have e : ({ cur := [], rules := acc, round := 0, square := 0, quotes := q } : SepSt) =
             { ({} : SepSt) with rules := acc ++ ({} : SepSt).rules, quotes := ({} : SepSt).quotes + q } := by
      simp
    rw [e, hf]
    obtain ⟨q', hq', hs'⟩ := ih (acc ++ [r]) (q1 + q) (by omega) hrest
    refine ⟨q', hq', ?_⟩
    rw [hs']
    simp

/-- `separate_rules` on the concatenation of rule texts gives back exactly those texts, in order -/
theorem separateRules_concat (rs : List Text) (h : ∀ r ∈ rs, OneRule r) : separateRules rs.flatten = .ok rs := by
  obtain ⟨q', _, hs⟩ := sepLoop_rules rs [] 0 (by decide) h
  unfold separateRules
  have e : ({} : SepSt) = { cur := [], rules := [], round := 0, square := 0, quotes := 0 } := rfl
  rw [e, hs]
  simp

/-- no parenthesis, bracket or quote is open -/
def ZeroNest (st : StripSt) : Prop := st.round = 0 ∧ st.square = 0 ∧ st.inQuotes = false

theorem zeroNest_reset {st : StripSt} (h : ZeroNest st) : ({ st with prev := 'x' } : StripSt) = {} := by
  obtain ⟨p, r, q, iq⟩ := st
  obtain ⟨h1, h2, h3⟩ := h
  simp only at h1 h2 h3
  subst h1 h2 h3
  rfl

/-- a line that leaves nothing open: scanned on its own it ends with all parentheses, brackets and quotes closed -/
def LineClosed (line : Text) : Prop := ZeroNest (endState line {})

/-- from a state in which nothing is open, a line is stripped as it would be on its own -/
theorem stripCommentsIn_zero {st : StripSt} (h : ZeroNest st) (line : Text) :
    stripCommentsIn st line = (stripComments line, endState line {}) := by
  unfold stripComments stripCommentsIn
  simp only [zeroNest_reset h]

/-- what one line contributes to the text handed to `separate_rules` -/
def lineText (line : Text) : Text :=
  let p := stripComments line
  if p.isEmpty then [] else p ++ (if p.getLast? == some '.' then [] else [' '])

theorem joinLinesIn_spec : ∀ (lines : List Text) (acc : Text) (st : StripSt), ZeroNest st →
    (∀ l ∈ lines, checkLastChar (stripComments l) = true ∧ LineClosed l) →
    joinLinesIn lines acc st = .ok (acc ++ (lines.map lineText).flatten) := by
  intro lines
  induction lines with
  | nil => intro acc st _ _; simp [joinLinesIn]
  | cons l rest ih =>
    intro acc st hz h
    have hl := h l (by simp)
    have hrest : ∀ l' ∈ rest, checkLastChar (stripComments l') = true ∧ LineClosed l' := fun l' hl' => h l' (by simp [hl'])
    simp only [joinLinesIn, stripCommentsIn_zero hz, List.map_cons, List.flatten_cons]
    by_cases he : (stripComments l).isEmpty = true
    · simp only [he, if_true]
      rw [ih acc _ hl.2 hrest]
      simp [lineText, he]
    · simp only [he, hl.1]
      simp only [Bool.not_true, Bool.false_eq_true, if_false]
      rw [ih _ _ hl.2 hrest]
      simp [lineText, he, List.append_assoc]

theorem joinLines_spec (lines : List Text) (acc : Text)
    (h : ∀ l ∈ lines, checkLastChar (stripComments l) = true ∧ LineClosed l) :
    joinLines lines acc = .ok (acc ++ (lines.map lineText).flatten) :=
  joinLinesIn_spec lines acc {} ⟨rfl, rfl, rfl⟩ h

theorem joinLinesIn_reject : ∀ (lines : List Text) (acc : Text) (st : StripSt), ZeroNest st → (∀ l ∈ lines, LineClosed l) →
    (∃ l ∈ lines, checkLastChar (stripComments l) = false) → joinLinesIn lines acc st = .fail := by
  intro lines
  induction lines with
  | nil => intro acc st _ _ h; obtain ⟨l, hl, _⟩ := h; cases hl
  | cons l rest ih =>
    intro acc st hz hcl h
    have hcl' : ∀ l' ∈ rest, LineClosed l' := fun l' hl' => hcl l' (by simp [hl'])
    simp only [joinLinesIn, stripCommentsIn_zero hz]
    by_cases hc : checkLastChar (stripComments l) = true
    · have hrest : ∃ l' ∈ rest, checkLastChar (stripComments l') = false := by
        obtain ⟨l', hl', hf⟩ := h
        rcases List.mem_cons.mp hl' with rfl | hm
        · rw [hc] at hf; cases hf
        · exact ⟨l', hm, hf⟩
      by_cases he : (stripComments l).isEmpty = true
      · simp [he, ih acc _ (hcl l (by simp)) hcl' hrest]
      · simp [he, hc, ih _ _ (hcl l (by simp)) hcl' hrest]
    · have he : (stripComments l).isEmpty = false := by
        cases hs : stripComments l with
        | nil => simp [hs, checkLastChar] at hc
        | cons a b => rfl
      simp [he, hc]

theorem joinLines_reject (lines : List Text) (acc : Text) (hcl : ∀ l ∈ lines, LineClosed l)
    (h : ∃ l ∈ lines, checkLastChar (stripComments l) = false) : joinLines lines acc = .fail :=
  joinLinesIn_reject lines acc {} ⟨rfl, rfl, rfl⟩ hcl h



/-- the state `strip_comments` is in after scanning a text in which it found no comment -/
def stripScan : Text → StripSt → StripSt
  | [], st => st
  | ch :: rest, st =>
    if ch == '"' then stripScan rest { st with inQuotes := !st.inQuotes, prev := ch }
    else if st.inQuotes then stripScan rest { st with prev := ch }
    else if ch == '(' then stripScan rest { st with round := st.round + 1, prev := ch }
    else if ch == '[' then stripScan rest { st with square := st.square + 1, prev := ch }
    else if ch == ')' then stripScan rest { st with round := st.round - 1, prev := ch }
    else if ch == ']' then stripScan rest { st with square := st.square - 1, prev := ch }
    else stripScan rest { st with prev := ch }

theorem commentStart_append : ∀ (a b : Text) (i : Nat) (st : StripSt), commentStart a i st = none →
    commentStart (a ++ b) i st = commentStart b (i + a.length) (stripScan a st) := by
  intro a
  induction a with
  | nil => intro b i st _; simp [stripScan]
  | cons ch a ih =>
    intro b i st h
    simp only [List.cons_append, commentStart, stripScan, List.length_cons] at h ⊢
    split
    · rename_i h0; simp only [h0, if_true] at h ⊢; rw [ih _ _ _ h]; congr 1; omega
    split
    · rename_i h0 hq; simp only [h0, hq, if_true, Bool.false_eq_true, if_false] at h ⊢; rw [ih _ _ _ h]; congr 1; omega
    split
    · rename_i h0 hq h1; simp only [h0, hq, h1, if_true, Bool.false_eq_true, if_false] at h ⊢; rw [ih _ _ _ h]; congr 1; omega
    split
    · rename_i h0 hq h1 h2; simp only [h0, hq, h1, h2, if_true, Bool.false_eq_true, if_false] at h ⊢; rw [ih _ _ _ h]; congr 1; omega
    split
    · rename_i h0 hq h1 h2 h3; simp only [h0, hq, h1, h2, h3, if_true, Bool.false_eq_true, if_false] at h ⊢; rw [ih _ _ _ h]; congr 1; omega
    split
    · rename_i h0 hq h1 h2 h3 h4; simp only [h0, hq, h1, h2, h3, h4, if_true, Bool.false_eq_true, if_false] at h ⊢; rw [ih _ _ _ h]; congr 1; omega
    · rename_i h0 hq h1 h2 h3 h4
      simp only [h0, hq, h1, h2, h3, h4, Bool.false_eq_true, if_false] at h ⊢
      by_cases hd : (st.round == 0 && st.square == 0) = true
      · simp only [hd, if_true] at h ⊢
        by_cases hc : (ch == '#' || ch == '%') = true
        · simp only [hc, if_true] at h; cases h
        · by_cases hs : (ch == '/' && st.prev == '/') = true
          · simp only [hc, hs, if_true, Bool.false_eq_true, if_false] at h; cases h
          · simp only [hc, hs, Bool.false_eq_true, if_false] at h ⊢
            rw [ih _ _ _ h]; congr 1; omega
      · simp only [hd, Bool.false_eq_true, if_false] at h ⊢
        rw [ih _ _ _ h]; congr 1; omega



theorem ws_not_special {c : Char} (h : isWs c = true) :
    c ≠ '(' ∧ c ≠ ')' ∧ c ≠ '[' ∧ c ≠ ']' ∧ c ≠ '#' ∧ c ≠ '%' ∧ c ≠ '/' ∧ c ≠ '"' := by
  refine ⟨?_, ?_, ?_, ?_, ?_, ?_, ?_, ?_⟩ <;> (intro he; subst he; revert h; decide)

/-- blanks are never a comment and never change the bracket depths -/
theorem commentStart_ws : ∀ (w : Text) (i : Nat) (st : StripSt), (∀ c ∈ w, isWs c = true) →
    commentStart w i st = none ∧ (stripScan w st).round = st.round ∧ (stripScan w st).square = st.square ∧
    (stripScan w st).prev = (w.getLast?.getD st.prev) ∧ (stripScan w st).inQuotes = st.inQuotes := by
  intro w
  induction w with
  | nil => intro i st _; simp [commentStart, stripScan]
  | cons c w ih =>
    intro i st h
    obtain ⟨h1, h2, h3, h4, h5, h6, h7, h8⟩ := ws_not_special (h c (by simp))
    have := ih (i + 1) { st with prev := c } (fun x hx => h x (by simp [hx]))
    simp only [commentStart, stripScan, show (c == '(') = false from by simpa using h1, show (c == '[') = false from by simpa using h3,
      show (c == ')') = false from by simpa using h2, show (c == ']') = false from by simpa using h4,
      show (c == '#') = false from by simpa using h5, show (c == '%') = false from by simpa using h6,
      show (c == '/') = false from by simpa using h7, show (c == '"') = false from by simpa using h8,
      Bool.false_eq_true, if_false, Bool.or_self, Bool.false_and]
    have hcs : (if st.inQuotes = true then commentStart w (i + 1) { st with prev := c }
        else if (st.round == 0 && st.square == 0) = true then commentStart w (i + 1) { st with prev := c }
        else commentStart w (i + 1) { st with prev := c }) = none := by
      split
      · exact this.1
      · split <;> exact this.1
    have hss : (if st.inQuotes = true then stripScan w { st with prev := c } else stripScan w { st with prev := c }) =
        stripScan w { st with prev := c } := by split <;> rfl
    refine ⟨hcs, ?_, ?_, ?_, ?_⟩
    · rw [hss]; exact this.2.1
    · rw [hss]; exact this.2.2.1
    · rw [hss, this.2.2.2.1]
      cases w with
      | nil => simp
      | cons a b =>
        have : ∃ z, (a :: b).getLast? = some z := by
          cases hl : (a :: b).getLast? with
          | none => simp [List.getLast?_eq_none_iff] at hl
          | some z => exact ⟨z, rfl⟩
        obtain ⟨z, hz⟩ := this
        simp [List.getLast?_cons_cons, hz]
    · rw [hss]; exact this.2.2.2.2

/-- whether a comment is found does not depend on the starting index, nor on the previous character
    except through "is it a slash" -/
theorem commentStart_none_indep : ∀ (p : Text) (i j : Nat) (st st' : StripSt), st.round = st'.round → st.square = st'.square →
    st.inQuotes = st'.inQuotes → (st.prev = '/' ↔ st'.prev = '/') → commentStart p i st = none → commentStart p j st' = none := by
  intro p
  induction p with
  | nil => intros; simp [commentStart]
  | cons ch p ih =>
    intro i j st st' hr hs hq hp h
    simp only [commentStart] at h ⊢
    rw [← hq]
    split
    · rename_i h0; simp only [h0, if_true] at h; exact ih _ _ _ _ (by simp [hr]) (by simp [hs]) (by simp_all) (by simp) h
    split
    · rename_i h0 hq'; simp only [h0, hq', if_true, Bool.false_eq_true, if_false] at h; exact ih _ _ _ _ (by simp [hr]) (by simp [hs]) (by simp_all) (by simp) h
    split
    · rename_i h0 hq' h1; simp only [h0, hq', h1, if_true, Bool.false_eq_true, if_false] at h; exact ih _ _ _ _ (by simp [hr]) (by simp [hs]) (by simp_all) (by simp) h
    split
    · rename_i h0 hq' h1 h2; simp only [h0, hq', h1, h2, if_true, Bool.false_eq_true, if_false] at h; exact ih _ _ _ _ (by simp [hr]) (by simp [hs]) (by simp_all) (by simp) h
    split
    · rename_i h0 hq' h1 h2 h3; simp only [h0, hq', h1, h2, h3, if_true, Bool.false_eq_true, if_false] at h; exact ih _ _ _ _ (by simp [hr]) (by simp [hs]) (by simp_all) (by simp) h
    split
    · rename_i h0 hq' h1 h2 h3 h4; simp only [h0, hq', h1, h2, h3, h4, if_true, Bool.false_eq_true, if_false] at h; exact ih _ _ _ _ (by simp [hr]) (by simp [hs]) (by simp_all) (by simp) h
    · rename_i h0 hq' h1 h2 h3 h4
      simp only [h0, hq', h1, h2, h3, h4, Bool.false_eq_true, if_false] at h
      rw [← hr, ← hs]
      by_cases hd : (st.round == 0 && st.square == 0) = true
      · simp only [hd, if_true] at h ⊢
        by_cases hc : (ch == '#' || ch == '%') = true
        · simp only [hc, if_true] at h; cases h
        · by_cases hsl : (ch == '/' && st.prev == '/') = true
          · simp only [hc, hsl, if_true, Bool.false_eq_true, if_false] at h; cases h
          · have hsl' : (ch == '/' && st'.prev == '/') = false := by
              simp only [Bool.and_eq_true, beq_iff_eq, not_and] at hsl
              cases hch : (ch == '/') with
              | false => simp
              | true =>
                have : ¬ st.prev = '/' := hsl (by simpa using hch)
                have : ¬ st'.prev = '/' := fun h' => this (hp.mpr h')
                simp [this]
            simp only [hc, hsl, hsl', Bool.false_eq_true, if_false] at h ⊢
            exact ih _ _ _ _ (by simp [hr]) (by simp [hs]) (by simp_all) (by simp) h
      · simp only [hd, Bool.false_eq_true, if_false] at h ⊢
        exact ih _ _ _ _ (by simp [hr]) (by simp [hs]) (by simp_all) (by simp) h



theorem getLast_cons_getD (ch : Char) (p : Text) (d : Char) : (ch :: p).getLast?.getD d = p.getLast?.getD ch := by
  cases p with
  | nil => simp
  | cons a b =>
    have : ∃ z, (a :: b).getLast? = some z := by
      cases hl : (a :: b).getLast? with
      | none => simp [List.getLast?_eq_none_iff] at hl
      | some z => exact ⟨z, rfl⟩
    obtain ⟨z, hz⟩ := this
    simp [List.getLast?_cons_cons, hz]

theorem stripScan_rel : ∀ (p : Text) (st st' : StripSt), st.inQuotes = st'.inQuotes →
    (stripScan p st).round = st.round + ((stripScan p st').round - st'.round) ∧
    (stripScan p st).square = st.square + ((stripScan p st').square - st'.square) ∧
    (stripScan p st).prev = p.getLast?.getD st.prev ∧
    (stripScan p st).inQuotes = (stripScan p st').inQuotes := by
  intro p
  induction p with
  | nil => intro st st' hq; simp [stripScan, hq]
  | cons ch p ih =>
    intro st st' hq
    obtain ⟨pv, rd, sq, iq⟩ := st'
    simp only at hq
    subst hq
    simp only [stripScan, getLast_cons_getD]
    split
    · have a := ih { st with inQuotes := !st.inQuotes, prev := ch } ⟨ch, rd, sq, !st.inQuotes⟩ rfl
      simp only at a
      exact ⟨by omega, by omega, a.2.2.1, a.2.2.2⟩
    split
    · have a := ih { st with prev := ch } ⟨ch, rd, sq, st.inQuotes⟩ rfl
      simp only at a
      exact ⟨by omega, by omega, a.2.2.1, a.2.2.2⟩
    split
    · have a := ih { st with round := st.round + 1, prev := ch } ⟨ch, rd + 1, sq, st.inQuotes⟩ rfl
      simp only at a
      exact ⟨by omega, by omega, a.2.2.1, a.2.2.2⟩
    split
    · have a := ih { st with square := st.square + 1, prev := ch } ⟨ch, rd, sq + 1, st.inQuotes⟩ rfl
      simp only at a
      exact ⟨by omega, by omega, a.2.2.1, a.2.2.2⟩
    split
    · have a := ih { st with round := st.round - 1, prev := ch } ⟨ch, rd - 1, sq, st.inQuotes⟩ rfl
      simp only at a
      exact ⟨by omega, by omega, a.2.2.1, a.2.2.2⟩
    split
    · have a := ih { st with square := st.square - 1, prev := ch } ⟨ch, rd, sq - 1, st.inQuotes⟩ rfl
      simp only at a
      exact ⟨by omega, by omega, a.2.2.1, a.2.2.2⟩
    · have a := ih { st with prev := ch } ⟨ch, rd, sq, st.inQuotes⟩ rfl
      simp only at a
      exact ⟨by omega, by omega, a.2.2.1, a.2.2.2⟩

/-- a piece of a rule as it stands on one line: not blank at either end, no comment character outside
    brackets and quotes, brackets and quotes closed, not ending in a slash -/
structure CleanPiece (p : Text) : Prop where
  ne : p ≠ []
  first : ∀ a, p.head? = some a → isWs a = false
  last : ∀ a, p.getLast? = some a → isWs a = false ∧ a ≠ '/'
  noComment : commentStart p 0 {} = none
  closed : (stripScan p {}).round = 0 ∧ (stripScan p {}).square = 0 ∧ (stripScan p {}).inQuotes = false

/-- what may follow a piece on its line: nothing, or a comment introduced by `#`, `%` or `//` -/
def IsComment (c : Text) : Prop :=
  c = [] ∨ (∃ r, c = '#' :: r) ∨ (∃ r, c = '%' :: r) ∨ (∃ r, c = '/' :: '/' :: r)

theorem dropWhile_ws_append {w rest : Text} (hw : ∀ c ∈ w, isWs c = true) : (w ++ rest).dropWhile isWs = rest.dropWhile isWs := by
  induction w with
  | nil => rfl
  | cons c w ih =>
    simp only [List.cons_append]
    rw [List.dropWhile_cons_of_pos (hw c (by simp))]
    exact ih (fun x hx => hw x (by simp [hx]))

theorem trim_pad {p indent trail : Text} (hp : CleanPiece p) (hi : ∀ c ∈ indent, isWs c = true) (ht : ∀ c ∈ trail, isWs c = true) :
    trim (indent ++ p ++ trail) = p := by
  unfold trim trimEnd trimStart
  rw [List.append_assoc, dropWhile_ws_append hi]
  obtain ⟨hne, hf, hl, _, _⟩ := hp
  cases p with
  | nil => exact absurd rfl hne
  | cons a t =>
    rw [show (a :: t) ++ trail = a :: (t ++ trail) from rfl, dropWhile_head_false (hf a rfl)]
    rw [show a :: (t ++ trail) = (a :: t) ++ trail from rfl, List.reverse_append]
    rw [dropWhile_ws_append (fun c hc => ht c (by simpa using hc))]
    cases hr : (a :: t).reverse with
    | nil => simp at hr
    | cons b u =>
      have hb : (a :: t).getLast? = some b := by rw [List.getLast?_eq_head?_reverse, hr]; rfl
      rw [dropWhile_head_false (hl b hb).1, ← hr, List.reverse_reverse]

/-- `strip_comments` on a line = indentation, piece, blanks, optional comment gives back the piece -/
theorem stripComments_line {p indent trail comment : Text} (hp : CleanPiece p)
    (hi : ∀ c ∈ indent, isWs c = true) (ht : ∀ c ∈ trail, isWs c = true) (hc : IsComment comment) :
    stripComments (indent ++ p ++ trail ++ comment) = p := by
  -- scan the indentation
  have s1 := commentStart_ws indent 0 {} hi
  -- scan the piece
  have hprev1 : (stripScan indent {}).prev ≠ '/' := by
    rw [s1.2.2.2.1]
    cases hl : indent.getLast? with
    | none => simp
    | some z => simp; exact (ws_not_special (hi z (List.mem_of_getLast? hl))).2.2.2.2.2.2.1
  have s2 : commentStart p (0 + indent.length) (stripScan indent {}) = none :=
    commentStart_none_indep p 0 _ {} _ (by rw [s1.2.1]) (by rw [s1.2.2.1]) (by rw [s1.2.2.2.2])
      (by constructor
          · intro h; exact absurd h (by decide : ¬ ({} : StripSt).prev = '/')
          · intro h; exact absurd h hprev1) hp.noComment
  have r2 := stripScan_rel p (stripScan indent {}) {} s1.2.2.2.2
  have hlastp : ∃ z, p.getLast? = some z := by
    cases hl : p.getLast? with
    | none => simp [List.getLast?_eq_none_iff] at hl; exact absurd hl hp.ne
    | some z => exact ⟨z, rfl⟩
  obtain ⟨z, hz⟩ := hlastp
  -- scan the blanks after the piece
  have s3 := commentStart_ws trail (0 + indent.length + p.length) (stripScan p (stripScan indent {})) ht
  have hdepth : (stripScan trail (stripScan p (stripScan indent {}))).round = 0 ∧ (stripScan trail (stripScan p (stripScan indent {}))).square = 0 ∧
      (stripScan trail (stripScan p (stripScan indent {}))).inQuotes = false := by
    rw [s3.2.1, s3.2.2.1, s3.2.2.2.2, r2.1, r2.2.1, r2.2.2.2, s1.2.1, s1.2.2.1, hp.closed.1, hp.closed.2.1, hp.closed.2.2]; simp
  have hprev3 : (stripScan trail (stripScan p (stripScan indent {}))).prev ≠ '/' := by
    rw [s3.2.2.2.1, r2.2.2.1, hz]
    cases hl : trail.getLast? with
    | none => simp; exact (hp.last z hz).2
    | some y => simp; exact (ws_not_special (ht y (List.mem_of_getLast? hl))).2.2.2.2.2.2.1
  -- put the three scans together
  have hscan : ∀ rest, commentStart (indent ++ p ++ trail ++ rest) 0 {} =
      commentStart rest (indent.length + p.length + trail.length) (stripScan trail (stripScan p (stripScan indent {}))) := by
    intro rest
    rw [show indent ++ p ++ trail ++ rest = indent ++ (p ++ (trail ++ rest)) from by simp]
    rw [commentStart_append _ _ _ _ s1.1, commentStart_append _ _ _ _ s2, commentStart_append _ _ _ _ s3.1]
    simp
  unfold stripComments stripCommentsIn
  simp only
  rcases hc with rfl | ⟨r, rfl⟩ | ⟨r, rfl⟩ | ⟨r, rfl⟩
  · rw [hscan []]; simp only [commentStart, List.append_nil]; exact trim_pad hp hi ht
  · rw [hscan]
    simp only [commentStart, hdepth.1, hdepth.2.1, hdepth.2.2, show (('#' : Char) == '"') = false from by decide, show (('#' : Char) == '(') = false from by decide, show (('#' : Char) == '[') = false from by decide,
      show (('#' : Char) == ')') = false from by decide, show (('#' : Char) == ']') = false from by decide, Bool.false_eq_true, if_false,
      show ((0:Int) == 0 && (0:Int) == 0) = true from rfl, if_true, show (('#' : Char) == '#' || ('#' : Char) == '%') = true from by decide]
    rw [show indent ++ p ++ trail ++ '#' :: r = (indent ++ p ++ trail) ++ '#' :: r from rfl, List.take_left' (by simp; omega)]
    exact trim_pad hp hi ht
  · rw [hscan]
    simp only [commentStart, hdepth.1, hdepth.2.1, hdepth.2.2, show (('%' : Char) == '"') = false from by decide, show (('%' : Char) == '(') = false from by decide, show (('%' : Char) == '[') = false from by decide,
      show (('%' : Char) == ')') = false from by decide, show (('%' : Char) == ']') = false from by decide, Bool.false_eq_true, if_false,
      show ((0:Int) == 0 && (0:Int) == 0) = true from rfl, if_true, show (('%' : Char) == '#' || ('%' : Char) == '%') = true from by decide]
    rw [show indent ++ p ++ trail ++ '%' :: r = (indent ++ p ++ trail) ++ '%' :: r from rfl, List.take_left' (by simp; omega)]
    exact trim_pad hp hi ht
  · rw [hscan]
    have hne : ((stripScan trail (stripScan p (stripScan indent {}))).prev == '/') = false := by simpa using hprev3
    simp only [commentStart, hdepth.1, hdepth.2.1, hdepth.2.2, show (('/' : Char) == '"') = false from by decide, show (('/' : Char) == '(') = false from by decide, show (('/' : Char) == '[') = false from by decide,
      show (('/' : Char) == ')') = false from by decide, show (('/' : Char) == ']') = false from by decide, Bool.false_eq_true, if_false,
      show ((0:Int) == 0 && (0:Int) == 0) = true from rfl, if_true, show (('/' : Char) == '#' || ('/' : Char) == '%') = false from by decide,
      show (('/' : Char) == '/') = true from by decide, Bool.true_and, hne]
    simp only [Nat.add_sub_cancel]
    rw [show indent ++ p ++ trail ++ '/' :: '/' :: r = (indent ++ p ++ trail) ++ '/' :: '/' :: r from rfl, List.take_left' (by simp; omega)]
    exact trim_pad hp hi ht

theorem endState_append : ∀ (a b : Text) (i : Nat) (st : StripSt), commentStart a i st = none →
    endState (a ++ b) st = endState b (stripScan a st) := by
  intro a
  induction a with
  | nil => intro b i st _; simp [stripScan]
  | cons ch a ih =>
    intro b i st h
    simp only [List.cons_append, commentStart, endState, stripScan] at h ⊢
    split
    · rename_i h0; simp only [h0, if_true] at h ⊢; exact ih _ _ _ h
    split
    · rename_i h0 hq; simp only [h0, hq, if_true, Bool.false_eq_true, if_false] at h ⊢; exact ih _ _ _ h
    split
    · rename_i h0 hq h1; simp only [h0, hq, h1, if_true, Bool.false_eq_true, if_false] at h ⊢; exact ih _ _ _ h
    split
    · rename_i h0 hq h1 h2; simp only [h0, hq, h1, h2, if_true, Bool.false_eq_true, if_false] at h ⊢; exact ih _ _ _ h
    split
    · rename_i h0 hq h1 h2 h3; simp only [h0, hq, h1, h2, h3, if_true, Bool.false_eq_true, if_false] at h ⊢; exact ih _ _ _ h
    split
    · rename_i h0 hq h1 h2 h3 h4; simp only [h0, hq, h1, h2, h3, h4, if_true, Bool.false_eq_true, if_false] at h ⊢; exact ih _ _ _ h
    · rename_i h0 hq h1 h2 h3 h4
      simp only [h0, hq, h1, h2, h3, h4, Bool.false_eq_true, if_false] at h ⊢
      by_cases hd : (st.round == 0 && st.square == 0) = true
      · simp only [hd, if_true] at h ⊢
        by_cases hc : (ch == '#' || ch == '%') = true
        · simp only [hc, if_true] at h; cases h
        · by_cases hs : (ch == '/' && st.prev == '/') = true
          · simp only [hc, hs, if_true, Bool.false_eq_true, if_false] at h; cases h
          · simp only [hc, hs, Bool.false_eq_true, if_false] at h ⊢
            exact ih _ _ _ h
      · simp only [hd, Bool.false_eq_true, if_false] at h ⊢
        exact ih _ _ _ h

/-- such a line leaves nothing open for the next one -/
theorem line_closed {p indent trail comment : Text} (hp : CleanPiece p)
    (hi : ∀ c ∈ indent, isWs c = true) (ht : ∀ c ∈ trail, isWs c = true) (hc : IsComment comment) :
    LineClosed (indent ++ p ++ trail ++ comment) := by
  have s1 := commentStart_ws indent 0 {} hi
  have hprev1 : (stripScan indent {}).prev ≠ '/' := by
    rw [s1.2.2.2.1]
    cases hl : indent.getLast? with
    | none => simp
    | some z => simp; exact (ws_not_special (hi z (List.mem_of_getLast? hl))).2.2.2.2.2.2.1
  have s2 : commentStart p (0 + indent.length) (stripScan indent {}) = none :=
    commentStart_none_indep p 0 _ {} _ (by rw [s1.2.1]) (by rw [s1.2.2.1]) (by rw [s1.2.2.2.2])
      (by constructor
          · intro h; exact absurd h (by decide : ¬ ({} : StripSt).prev = '/')
          · intro h; exact absurd h hprev1) hp.noComment
  have r2 := stripScan_rel p (stripScan indent {}) {} s1.2.2.2.2
  obtain ⟨z, hz⟩ : ∃ z, p.getLast? = some z := by
    cases hl : p.getLast? with
    | none => simp [List.getLast?_eq_none_iff] at hl; exact absurd hl hp.ne
    | some z => exact ⟨z, rfl⟩
  have s3 := commentStart_ws trail (0 + indent.length + p.length) (stripScan p (stripScan indent {})) ht
  have hdepth : ZeroNest (stripScan trail (stripScan p (stripScan indent {}))) := by
    unfold ZeroNest
    rw [s3.2.1, s3.2.2.1, s3.2.2.2.2, r2.1, r2.2.1, r2.2.2.2, s1.2.1, s1.2.2.1, hp.closed.1, hp.closed.2.1, hp.closed.2.2]; simp
  have hprev3 : (stripScan trail (stripScan p (stripScan indent {}))).prev ≠ '/' := by
    rw [s3.2.2.2.1, r2.2.2.1, hz]
    cases hl : trail.getLast? with
    | none => simp; exact (hp.last z hz).2
    | some y => simp; exact (ws_not_special (ht y (List.mem_of_getLast? hl))).2.2.2.2.2.2.1
  have hscan : ∀ rest, endState (indent ++ p ++ trail ++ rest) {} =
      endState rest (stripScan trail (stripScan p (stripScan indent {}))) := by
    intro rest
    rw [show indent ++ p ++ trail ++ rest = indent ++ (p ++ (trail ++ rest)) from by simp]
    rw [endState_append _ _ _ _ s1.1, endState_append _ _ _ _ s2, endState_append _ _ _ _ s3.1]
  unfold LineClosed
  rw [hscan]
  obtain ⟨d1, d2, d3⟩ := hdepth
  rcases hc with rfl | ⟨r, rfl⟩ | ⟨r, rfl⟩ | ⟨r, rfl⟩
  · simp only [endState]; exact ⟨d1, d2, d3⟩
  · simp only [endState, d1, d2, d3, show (('#' : Char) == '"') = false from by decide, show (('#' : Char) == '(') = false from by decide,
      show (('#' : Char) == '[') = false from by decide, show (('#' : Char) == ')') = false from by decide,
      show (('#' : Char) == ']') = false from by decide, Bool.false_eq_true, if_false,
      show ((0:Int) == 0 && (0:Int) == 0) = true from rfl, if_true, show (('#' : Char) == '#' || ('#' : Char) == '%') = true from by decide]
    exact ⟨d1, d2, d3⟩
  · simp only [endState, d1, d2, d3, show (('%' : Char) == '"') = false from by decide, show (('%' : Char) == '(') = false from by decide,
      show (('%' : Char) == '[') = false from by decide, show (('%' : Char) == ')') = false from by decide,
      show (('%' : Char) == ']') = false from by decide, Bool.false_eq_true, if_false,
      show ((0:Int) == 0 && (0:Int) == 0) = true from rfl, if_true, show (('%' : Char) == '#' || ('%' : Char) == '%') = true from by decide]
    exact ⟨d1, d2, d3⟩
  · have hne : ((stripScan trail (stripScan p (stripScan indent {}))).prev == '/') = false := by simpa using hprev3
    simp only [endState, d1, d2, d3, show (('/' : Char) == '"') = false from by decide, show (('/' : Char) == '(') = false from by decide,
      show (('/' : Char) == '[') = false from by decide, show (('/' : Char) == ')') = false from by decide,
      show (('/' : Char) == ']') = false from by decide, Bool.false_eq_true, if_false,
      show ((0:Int) == 0 && (0:Int) == 0) = true from rfl, if_true, show (('/' : Char) == '#' || ('/' : Char) == '%') = false from by decide,
      show (('/' : Char) == '/') = true from by decide, Bool.true_and, hne]
    exact ⟨rfl, rfl, rfl⟩

end Suiron.Parse
