/-
  Helper lemmas for C18: the explicit `panic` branches of the term-level parser model are
  unreachable.
-/
import SuironVerif.Model.ParseGoal
namespace Suiron.Parse

theorem Res.bind_ne_panic {α β} {r : Res α} {g : α → Res β}
    (hr : r ≠ .panic) (hg : ∀ a, r = .ok a → g a ≠ .panic) : r.bind g ≠ .panic := by
  cases r with
  | ok a => simpa [Res.bind] using hg a rfl
  | fail => simp [Res.bind]
  | panic => exact absurd rfl hr
  | oof => simp [Res.bind]

/-! ### trimming keeps non-blank characters -/

theorem mem_dropWhile_of_not {p : Char → Bool} {c : Char} {s : Text}
    (hc : c ∈ s) (hp : p c = false) : c ∈ s.dropWhile p := by
  induction s with
  | nil => cases hc
  | cons a s ih =>
    simp only [List.dropWhile]
    cases hpa : p a with
    | true =>
      simp only
      rcases List.mem_cons.mp hc with rfl | h
      · rw [hpa] at hp; cases hp
      · exact ih h
    | false => simpa using hc

theorem mem_trim {c : Char} {s : Text} (hc : c ∈ s) (hw : isWs c = false) : c ∈ trim s := by
  unfold trim trimEnd trimStart
  have h1 : c ∈ s.dropWhile isWs := mem_dropWhile_of_not hc hw
  have h2 : c ∈ (s.dropWhile isWs).reverse := List.mem_reverse.mpr h1
  exact List.mem_reverse.mpr (mem_dropWhile_of_not h2 hw)

theorem quote_not_ws : isWs '"' = false := by decide

theorem trim_ne_nil_of_quote {s : Text} (h : '"' ∈ s) : trim s ≠ [] := by
  intro he
  have := mem_trim h quote_not_ws
  rw [he] at this; cases this

/-! ### `check_quotes` -/

theorem checkQuotes_ne_panic {s : Text} {n : Nat} (h : n ≠ 0 → s ≠ []) : checkQuotes s n ≠ .panic := by
  unfold checkQuotes
  split
  · simp
  split
  · simp
  · rename_i h0 _
    have hs : s ≠ [] := h (by simpa using h0)
    cases s with
    | nil => exact absurd rfl hs
    | cons a t =>
      simp only
      split
      · simp
      · cases hl : (a :: t).getLast? with
        | none => simp [List.getLast?_eq_none_iff] at hl
        | some l => simp only; split <;> simp

/-! ### `link_front` -/

theorem linkFront_ok {t : Term} {tl : Bool} {l l' : Term} (h : linkFront t tl l = .ok l') : l'.isCons = true := by
  unfold linkFront at h
  split at h
  · cases h; rfl
  · cases h

theorem linkFront_ne_panic {t : Term} {tl : Bool} {l : Term} (h : l.isCons = true) : linkFront t tl l ≠ .panic := by
  unfold linkFront
  cases l <;> simp_all [Term.isCons]

/-! ### `make_logic_var` never panics -/

theorem makeLogicVar_ne_panic (po : POps) (s : Text) : makeLogicVar po s ≠ .panic := by
  unfold makeLogicVar
  simp only
  split
  · split
    · simp
    · split <;> simp
  · simp

/-! ### slices -/

theorem slice_ne_panic {s : Text} {a b : Nat} (h1 : a ≤ b) (h2 : b ≤ s.length) : slice s a b ≠ .panic := by
  unfold slice; simp [h1, h2]

end Suiron.Parse

namespace Suiron.Parse

/-! ### the infix scanners return an index that leaves room for the operator and a blank -/

theorem arithLoop_bound : ∀ (rest : Text) (i : Nat) (prev : Char) (sk : Option Char) (op : Infix) (j : Nat),
    arithLoop rest i prev sk = (op, j) → op ≠ .none → i ≤ j ∧ j + 2 ≤ i + rest.length := by
  intro rest
  induction rest with
  | nil => intro i prev sk op j h hop; simp [arithLoop] at h; exact absurd h.1.symm hop
  | cons c rest ih =>
    intro i prev sk op j h hop
    cases sk with
    | some t =>
      simp only [arithLoop] at h
      split at h
      · have := ih _ _ _ _ _ h hop; simp only [List.length_cons]; omega
      · have := ih _ _ _ _ _ h hop; simp only [List.length_cons]; omega
    | none =>
      simp only [arithLoop] at h
      split at h
      · have := ih _ _ _ _ _ h hop; simp only [List.length_cons]; omega
      split at h
      · have := ih _ _ _ _ _ h hop; simp only [List.length_cons]; omega
      split at h
      · have := ih _ _ _ _ _ h hop; simp only [List.length_cons]; omega
      · -- a candidate position: the next character is a blank, so `rest` is not empty
        have hne : ∀ (x : Char), (rest.head?.getD '#' == ' ') = true → rest.length ≥ 1 := by
          intro _ hx; cases rest with
          | nil => simp at hx
          | cons a b => simp
        split at h
        · rename_i hc; cases h
          have := hne c (by simp at hc; simp [hc.2]); simp only [List.length_cons]; omega
        split at h
        · rename_i hc; cases h
          have := hne c (by simp at hc; simp [hc.2]); simp only [List.length_cons]; omega
        split at h
        · rename_i hc; cases h
          have := hne c (by simp at hc; simp [hc.2]); simp only [List.length_cons]; omega
        split at h
        · rename_i hc; cases h
          have := hne c (by simp at hc; simp [hc.2]); simp only [List.length_cons]; omega
        · have := ih _ _ _ _ _ h hop; simp only [List.length_cons]; omega

theorem checkArithmeticInfix_bound {s : Text} {op : Infix} {j : Nat}
    (h : checkArithmeticInfix s = (op, j)) (hop : op ≠ .none) : j + 2 ≤ s.length := by
  have := arithLoop_bound s 0 '#' none op j h hop; omega

end Suiron.Parse

namespace Suiron.Parse

/-! ### `indices_of_parentheses` returns the positions of a `(` and of a later `)` -/

theorem parenScan_left : ∀ (rest : Text) (i : Nat) (st : ParenScan) (l : Nat),
    (parenScan rest i st).left = some l → st.left = some l ∨ (i ≤ l ∧ rest[l - i]? = some '(') := by
  intro rest
  induction rest with
  | nil => intro i st l h; simp [parenScan] at h; exact Or.inl h
  | cons c rest ih =>
    intro i st l h
    have pass : ∀ st' : ParenScan, (parenScan rest (i + 1) st').left = some l → st'.left = st.left →
        st.left = some l ∨ (i ≤ l ∧ (c :: rest)[l - i]? = some '(') := by
      intro st' h' he
      rcases ih _ _ _ h' with h1 | ⟨h1, h2⟩
      · exact Or.inl (by rw [← he]; exact h1)
      · refine Or.inr ⟨by omega, ?_⟩
        have : l - i = (l - (i + 1)) + 1 := by omega
        rw [this]; simpa using h2
    simp only [parenScan] at h
    split at h
    · exact pass _ h rfl
    split at h
    · exact pass _ h rfl
    split at h
    · exact pass _ h rfl
    split at h
    · exact pass _ h rfl
    split at h
    · rename_i hc
      rcases ih _ _ _ h with h1 | ⟨h1, h2⟩
      · cases hl : st.left with
        | some l0 => simp [hl, Option.orElse] at h1; exact Or.inl (by simp [h1])
        | none =>
          simp [hl, Option.orElse] at h1
          subst h1
          exact Or.inr ⟨Nat.le_refl _, by simp at hc; simp [hc]⟩
      · refine Or.inr ⟨by omega, ?_⟩
        have : l - i = (l - (i + 1)) + 1 := by omega
        rw [this]; simpa using h2
    split at h
    · exact pass _ h rfl
    · exact pass _ h rfl

theorem parenScan_right : ∀ (rest : Text) (i : Nat) (st : ParenScan) (r : Nat),
    (parenScan rest i st).right = some r → st.right = some r ∨ (i ≤ r ∧ rest[r - i]? = some ')') := by
  intro rest
  induction rest with
  | nil => intro i st r h; simp [parenScan] at h; exact Or.inl h
  | cons c rest ih =>
    intro i st r h
    have pass : ∀ st' : ParenScan, (parenScan rest (i + 1) st').right = some r → st'.right = st.right →
        st.right = some r ∨ (i ≤ r ∧ (c :: rest)[r - i]? = some ')') := by
      intro st' h' he
      rcases ih _ _ _ h' with h1 | ⟨h1, h2⟩
      · exact Or.inl (by rw [← he]; exact h1)
      · refine Or.inr ⟨by omega, ?_⟩
        have : r - i = (r - (i + 1)) + 1 := by omega
        rw [this]; simpa using h2
    simp only [parenScan] at h
    split at h
    · exact pass _ h rfl
    split at h
    · exact pass _ h rfl
    split at h
    · exact pass _ h rfl
    split at h
    · exact pass _ h rfl
    split at h
    · exact pass _ h rfl
    split at h
    · rename_i hc
      rcases ih _ _ _ h with h1 | ⟨h1, h2⟩
      · simp at h1; subst h1
        exact Or.inr ⟨Nat.le_refl _, by simp at hc; simp [hc]⟩
      · refine Or.inr ⟨by omega, ?_⟩
        have : r - i = (r - (i + 1)) + 1 := by omega
        rw [this]; simpa using h2
    · exact pass _ h rfl

theorem indicesOfParentheses_bounds {s : Text} {l r : Nat}
    (h : indicesOfParentheses s = .ok (some (l, r))) : l < r ∧ r < s.length := by
  unfold indicesOfParentheses at h
  simp only at h
  split at h
  · cases h
  · split at h
    · cases h
    · rename_i l0 r0 hl hr
      split at h
      · cases h
      · rename_i hlt
        cases h
        have h1 := parenScan_left s 0 {} l hl
        have h2 := parenScan_right s 0 {} r hr
        simp at h1 h2
        have hrl : r < s.length := by
          rcases Nat.lt_or_ge r s.length with hlt' | hge
          · exact hlt'
          · have : s[r]? = none := by simp; omega
            rw [this] at h2; cases h2
        refine ⟨?_, hrl⟩
        have hne : l ≠ r := by
          intro he; subst he; rw [h1] at h2; cases h2
        omega
    · cases h
    · cases h

end Suiron.Parse


/-! ### the argument loop: `check_quotes` is only asked about a non-empty string when quotes were counted -/

namespace Suiron.Parse

def ArgInv (st : ArgSt) : Prop := st.numQuotes ≠ 0 → '"' ∈ st.arg

theorem ArgInv.push {st : ArgSt} (h : ArgInv st) (ch : Char) (st' : ArgSt)
    (harg : st'.arg = st.arg ++ [ch]) (hq : st'.numQuotes = st.numQuotes ∨ (ch = '"')) : ArgInv st' := by
  intro hn
  rw [harg]
  rcases hq with hq | hq
  · rw [hq] at hn; exact List.mem_append_left _ (h hn)
  · subst hq; simp

theorem argComma_inv (mk : Text → Bool → Bool → Bool → Res Term)
    (hmk : ∀ s a b c, mk s a b c ≠ .panic) (rest : Text) (st : ArgSt) (hinv : ArgInv st) :
    argComma mk rest st ≠ .panic ∧ ∀ st', argComma mk rest st = .ok st' → ArgInv st' := by
  unfold argComma
  constructor
  · apply Res.bind_ne_panic
    · exact checkQuotes_ne_panic (fun h => trim_ne_nil_of_quote (hinv h))
    · intro _ _
      apply Res.bind_ne_panic (hmk _ _ _ _)
      intro _ _; simp
  · intro st' h
    obtain ⟨_, _, h⟩ := Res.bind_eq_ok.mp h
    obtain ⟨_, _, h⟩ := Res.bind_eq_ok.mp h
    cases h
    intro hn; simp at hn

theorem argStepTop_inv (mk : Text → Bool → Bool → Bool → Res Term)
    (hmk : ∀ s a b c, mk s a b c ≠ .panic) (ch : Char) (rest : Text) (st : ArgSt) (hinv : ArgInv st) :
    argStepTop mk ch rest st ≠ .panic ∧ ∀ st', argStepTop mk ch rest st = .ok st' → ArgInv st' := by
  unfold argStepTop
  split
  · exact argComma_inv mk hmk rest st hinv
  split
  · exact ⟨by simp, fun st' h => by cases h; exact hinv.push ch _ rfl (Or.inl rfl)⟩
  split
  · exact ⟨by simp, fun st' h => by cases h; exact hinv.push ch _ rfl (Or.inl rfl)⟩
  split
  · exact ⟨by simp, fun st' h => by cases h; exact hinv.push ch _ rfl (Or.inl rfl)⟩
  split
  · split
    · exact ⟨by simp, fun st' h => by cases h; exact hinv.push ch _ rfl (Or.inl rfl)⟩
    · exact ⟨by simp, fun st' h => by cases h; exact hinv⟩
  split
  · rename_i hq
    exact ⟨by simp, fun st' h => by cases h; exact hinv.push ch _ rfl (Or.inr (by simpa using hq))⟩
  · exact ⟨by simp, fun st' h => by cases h; exact hinv.push ch _ rfl (Or.inl rfl)⟩

theorem argStep_inv (mk : Text → Bool → Bool → Bool → Res Term)
    (hmk : ∀ s a b c, mk s a b c ≠ .panic) (ch : Char) (rest : Text) (st : ArgSt) (hinv : ArgInv st) :
    argStep mk ch rest st ≠ .panic ∧ ∀ st', argStep mk ch rest st = .ok st' → ArgInv st' := by
  unfold argStep
  split
  · exact ⟨by simp, fun st' h => by cases h; exact hinv.push ch _ rfl (Or.inl rfl)⟩
  split
  · refine ⟨by simp, fun st' h => ?_⟩
    cases h
    apply hinv.push ch _ rfl
    by_cases hq : ch = '"'
    · exact Or.inr hq
    · left; simp [hq]
  split
  · exact ⟨by simp, fun st' h => by cases h; exact hinv.push ch _ rfl (Or.inl rfl)⟩
  split
  · exact ⟨by simp, fun st' h => by cases h; exact hinv.push ch _ rfl (Or.inl rfl)⟩
  split
  · exact ⟨by simp, fun st' h => by cases h; exact hinv.push ch _ rfl (Or.inl rfl)⟩
  split
  · exact ⟨by simp, fun st' h => by cases h; exact hinv.push ch _ rfl (Or.inl rfl)⟩
  split
  · exact ⟨by simp, fun st' h => by cases h; exact hinv.push ch _ rfl (Or.inl rfl)⟩
  split
  · exact argStepTop_inv mk hmk ch rest st hinv
  · exact ⟨by simp, fun st' h => by cases h; exact hinv.push ch _ rfl (Or.inl rfl)⟩

theorem argsFinish_ne_panic (mk : Text → Bool → Bool → Bool → Res Term)
    (hmk : ∀ s a b c, mk s a b c ≠ .panic) (st : ArgSt) (hinv : ArgInv st) : argsFinish mk st ≠ .panic := by
  unfold argsFinish
  simp only
  apply Res.bind_ne_panic
  · split
    · apply Res.bind_ne_panic
      · exact checkQuotes_ne_panic (fun h => trim_ne_nil_of_quote (hinv h))
      · intro _ _
        apply Res.bind_ne_panic (hmk _ _ _ _)
        intro _ _; simp
    · simp
  · intro ts _; split <;> (try split) <;> simp

theorem argsLoop_ne_panic (mk : Text → Bool → Bool → Bool → Res Term)
    (hmk : ∀ s a b c, mk s a b c ≠ .panic) :
    ∀ (s : Text) (st : ArgSt), ArgInv st → argsLoop mk s st ≠ .panic := by
  intro s
  induction s with
  | nil => intro st hinv; simp only [argsLoop]; exact argsFinish_ne_panic mk hmk st hinv
  | cons ch rest ih =>
    intro st hinv
    simp only [argsLoop]
    have := argStep_inv mk hmk ch rest st hinv
    exact Res.bind_ne_panic this.1 (fun st' h => ih st' (this.2 st' h))

end Suiron.Parse

namespace Suiron.Parse

/-! ### the list loop: `link_front` always receives a list node, `check_quotes` a non-empty string -/

def ListInv (st : ListSt) : Prop := st.list.isCons = true

theorem isEmpty_false_ne_nil {s : Text} (h : ¬ s.isEmpty = true) : s ≠ [] := by
  intro he; subst he; simp at h

theorem listComma_inv (pt : Text → Res Term) (hpt : ∀ s, pt s ≠ .panic) (st : ListSt) (hinv : ListInv st) :
    listComma pt st ≠ .panic ∧ ∀ st', listComma pt st = .ok st' → ListInv st' := by
  unfold listComma
  simp only
  split
  · exact ⟨by simp, fun _ h => by cases h⟩
  · rename_i hne
    constructor
    · apply Res.bind_ne_panic (checkQuotes_ne_panic (fun _ => isEmpty_false_ne_nil hne))
      intro _ _
      apply Res.bind_ne_panic (hpt _)
      intro _ _
      apply Res.bind_ne_panic (linkFront_ne_panic hinv)
      intro _ _; simp
    · intro st' h
      obtain ⟨_, _, h⟩ := Res.bind_eq_ok.mp h
      obtain ⟨_, _, h⟩ := Res.bind_eq_ok.mp h
      obtain ⟨l, hl, h⟩ := Res.bind_eq_ok.mp h
      cases h
      exact linkFront_ok hl

theorem listBar_inv (po : POps) (st : ListSt) (hinv : ListInv st) :
    listBar po st ≠ .panic ∧ ∀ st', listBar po st = .ok st' → ListInv st' := by
  unfold listBar
  split
  · exact ⟨by simp, fun _ h => by cases h⟩
  simp only
  split
  · exact ⟨by simp, fun _ h => by cases h⟩
  · constructor
    · apply Res.bind_ne_panic (makeLogicVar_ne_panic po _)
      intro _ _
      apply Res.bind_ne_panic (linkFront_ne_panic hinv)
      intro _ _; simp
    · intro st' h
      obtain ⟨_, _, h⟩ := Res.bind_eq_ok.mp h
      obtain ⟨l, hl, h⟩ := Res.bind_eq_ok.mp h
      cases h
      exact linkFront_ok hl

theorem listStepTop_inv (po : POps) (pt : Text → Res Term) (hpt : ∀ s, pt s ≠ .panic)
    (c : Char) (esc : Bool) (st : ListSt) (hinv : ListInv st) :
    listStepTop po pt c esc st ≠ .panic ∧ ∀ st', listStepTop po pt c esc st = .ok st' → ListInv st' := by
  unfold listStepTop
  simp only
  split
  · exact ⟨by simp, fun st' h => by cases h; exact hinv⟩
  split
  · exact listComma_inv pt hpt st hinv
  split
  · exact listBar_inv po st hinv
  · exact ⟨by simp, fun st' h => by cases h; exact hinv⟩

theorem listStep_inv (po : POps) (pt : Text → Res Term) (hpt : ∀ s, pt s ≠ .panic)
    (c : Char) (esc : Bool) (st : ListSt) (hinv : ListInv st) :
    listStep po pt c esc st ≠ .panic ∧ ∀ st', listStep po pt c esc st = .ok st' → ListInv st' := by
  unfold listStep
  simp only
  split
  · split
    · exact ⟨by simp, fun st' h => by cases h; exact hinv⟩
    · exact ⟨by simp, fun st' h => by cases h; exact hinv⟩
  split
  · exact ⟨by simp, fun st' h => by cases h; exact hinv⟩
  split
  · exact ⟨by simp, fun st' h => by cases h; exact hinv⟩
  split
  · exact ⟨by simp, fun st' h => by cases h; exact hinv⟩
  split
  · exact ⟨by simp, fun st' h => by cases h; exact hinv⟩
  split
  · exact ⟨by simp, fun st' h => by cases h; exact hinv⟩
  split
  · exact listStepTop_inv po pt hpt c esc st hinv
  · exact ⟨by simp, fun st' h => by cases h; exact hinv⟩

theorem listFinish_ne_panic (pt : Text → Res Term) (hpt : ∀ s, pt s ≠ .panic) (st : ListSt) (hinv : ListInv st) :
    listFinish pt st ≠ .panic := by
  unfold listFinish
  simp only
  split
  · simp
  · rename_i hne
    apply Res.bind_ne_panic (checkQuotes_ne_panic (fun _ => isEmpty_false_ne_nil hne))
    intro _ _
    apply Res.bind_ne_panic (hpt _)
    intro _ _
    exact linkFront_ne_panic hinv

theorem listLoop_ne_panic (po : POps) (pt : Text → Res Term) (hpt : ∀ s, pt s ≠ .panic) :
    ∀ (rv : Text) (st : ListSt), rv ≠ [] → ListInv st → listLoop po pt rv st ≠ .panic := by
  intro rv
  induction rv with
  | nil => intro st h; exact absurd rfl h
  | cons c rest ih =>
    intro st _ hinv
    simp only [listLoop]
    have := listStep_inv po pt hpt c (rest.head? == some '\\') st hinv
    apply Res.bind_ne_panic this.1
    intro st' h
    cases rest with
    | nil => exact listFinish_ne_panic pt hpt st' (this.2 st' h)
    | cons a b => exact ih st' (by simp) (this.2 st' h)

theorem parseLinkedListWith_ne_panic (po : POps) (pt : Text → Res Term) (hpt : ∀ s, pt s ≠ .panic) (s : Text) :
    parseLinkedListWith po pt s ≠ .panic := by
  unfold parseLinkedListWith
  simp only
  split
  · simp
  · rename_i hlen
    split
    · split
      · simp
      split
      · simp
      split
      · simp
      · rename_i hl2
        apply listLoop_ne_panic po pt hpt
        · intro he
          have : ((trim s).drop 1).dropLast.length = 0 := by
            rw [← List.length_reverse, he]; rfl
          simp at this
          have hl2' : (trim s).length ≠ 2 := by simpa using hl2
          omega
        · rfl
    · rename_i h1 h2
      exfalso
      cases ht : trim s with
      | nil => rw [ht] at hlen; simp at hlen
      | cons a b =>
        have hh : (trim s).head? = some a := by rw [ht]; rfl
        have hl : ∃ z, (trim s).getLast? = some z := by
          rw [ht]; cases hb : (a :: b).getLast? with
          | none => simp [List.getLast?_eq_none_iff] at hb
          | some z => exact ⟨z, rfl⟩
        obtain ⟨z, hz⟩ := hl
        exact h2 a z hh hz

end Suiron.Parse

namespace Suiron.Parse

theorem parseArgumentsWith_ne_panic (mk : Text → Bool → Bool → Bool → Res Term)
    (hmk : ∀ s a b c, mk s a b c ≠ .panic) (s : Text) : parseArgumentsWith mk s ≠ .panic := by
  unfold parseArgumentsWith
  simp only
  split
  · simp
  · rename_i first rest hs
    split
    · simp
    · rename_i hfirst
      apply Res.bind_ne_panic
      · split
        · rename_i hlast
          split
          · -- a one-character string whose last character is a comma but whose first is not
            rename_i hlen
            exfalso
            rw [hs] at hlast hlen
            cases rest with
            | nil => simp at hlast; simp [hlast] at hfirst
            | cons a b => simp at hlen; omega
          · simp
        · simp
      · intro ml _
        split
        · simp
        · exact argsLoop_ne_panic mk hmk _ _ (fun h => absurd rfl h)

theorem parseFunctorTerms_ne_panic (pa : Text → Res (List Term)) (hpa : ∀ s, pa s ≠ .panic) (f t : Text) :
    parseFunctorTerms pa f t ≠ .panic := by
  unfold parseFunctorTerms
  simp only
  split
  · simp
  · exact Res.bind_ne_panic (hpa _) (fun _ _ => by simp)

theorem validateComplex_ne_panic (s : Text) : validateComplex s ≠ .panic := by
  unfold validateComplex
  split
  · simp
  · split
    · simp
    · split <;> simp

theorem indicesOfParentheses_ne_panic (s : Text) : indicesOfParentheses s ≠ .panic := by
  unfold indicesOfParentheses
  simp only
  split
  · simp
  · split
    · simp
    · split <;> simp
    · simp
    · simp

theorem parseComplexWith_ne_panic (pa : Text → Res (List Term)) (hpa : ∀ s, pa s ≠ .panic) (s : Text) :
    parseComplexWith pa s ≠ .panic := by
  unfold parseComplexWith
  simp only
  apply Res.bind_ne_panic (validateComplex_ne_panic _)
  intro _ _
  apply Res.bind_ne_panic (indicesOfParentheses_ne_panic _)
  intro idx hidx
  split
  · rename_i l r
    have hb := indicesOfParentheses_bounds hidx
    apply Res.bind_ne_panic (slice_ne_panic (by omega) (by omega))
    intro _ _
    apply Res.bind_ne_panic (slice_ne_panic (by omega) (by omega))
    intro _ _
    exact parseFunctorTerms_ne_panic pa hpa _ _
  · exact parseFunctorTerms_ne_panic pa hpa _ _

theorem parseFunctionWith_ne_panic (pa : Text → Res (List Term)) (hpa : ∀ s, pa s ≠ .panic) (s : Text) :
    parseFunctionWith pa s ≠ .panic := by
  unfold parseFunctionWith
  simp only
  apply Res.bind_ne_panic (validateComplex_ne_panic _)
  intro _ _
  apply Res.bind_ne_panic (indicesOfParentheses_ne_panic _)
  intro idx hidx
  split
  · rename_i l r
    have hb := indicesOfParentheses_bounds hidx
    apply Res.bind_ne_panic (slice_ne_panic (by omega) (by omega))
    intro _ _
    apply Res.bind_ne_panic (slice_ne_panic (by omega) (by omega))
    intro _ _
    split
    · simp
    · exact Res.bind_ne_panic (hpa _) (fun _ _ => by simp)
  · simp

end Suiron.Parse

namespace Suiron.Parse

/-! ### `check_infix`: a found operator leaves room for two characters after its index -/

theorem infixLoop_bound (len : Nat) : ∀ (rest : Text) (i : Nat) (prev : Char) (sk : Option Char) (op : Infix) (j : Nat),
    infixLoop len rest i prev sk = (op, j) → op ≠ .none → i ≤ j ∧ j + 2 < len := by
  intro rest
  induction rest with
  | nil => intro i prev sk op j h hop; simp [infixLoop] at h; exact absurd h.1.symm hop
  | cons c rest ih =>
    intro i prev sk op j h hop
    cases sk with
    | some t =>
      simp only [infixLoop] at h
      split at h
      · have := ih _ _ _ _ _ h hop; omega
      · have := ih _ _ _ _ _ h hop; omega
    | none =>
      simp only [infixLoop] at h
      split at h
      · have := ih _ _ _ _ _ h hop; omega
      split at h
      · have := ih _ _ _ _ _ h hop; omega
      split at h
      · have := ih _ _ _ _ _ h hop; omega
      split at h
      · cases h; exact absurd rfl hop
      · rename_i hlen
        have hlen' : i + 2 < len := by omega
        repeat' split at h
        all_goals first
          | (cases h; exact ⟨Nat.le_refl _, hlen'⟩)
          | (have := ih _ _ _ _ _ h hop; omega)

theorem checkInfix_bound {s : Text} {op : Infix} {j : Nat}
    (h : checkInfix s = (op, j)) (hop : op ≠ .none) : j + 2 < s.length :=
  (infixLoop_bound s.length s 0 '#' none op j h hop).2

end Suiron.Parse

namespace Suiron.Parse

/-- `parse_complex` returns a complex term whose first element is an atom (so `make_query` accepts it) -/
theorem parseComplexWith_shape (pa : Text → Res (List Term)) (s : Text) (q : Term)
    (h : parseComplexWith pa s = .ok q) : ∃ f rest, q = .cplx (.cons (.atom f) rest) := by
  unfold parseComplexWith at h
  simp only at h
  obtain ⟨_, _, h⟩ := Res.bind_eq_ok.mp h
  obtain ⟨idx, _, h⟩ := Res.bind_eq_ok.mp h
  have key : ∀ f t, parseFunctorTerms pa f t = .ok q → ∃ f rest, q = .cplx (.cons (.atom f) rest) := by
    intro f t hk
    unfold parseFunctorTerms at hk
    simp only at hk
    split at hk
    · cases hk; exact ⟨_, _, rfl⟩
    · obtain ⟨_, _, hk⟩ := Res.bind_eq_ok.mp hk
      cases hk; exact ⟨_, _, rfl⟩
  split at h
  · obtain ⟨_, _, h⟩ := Res.bind_eq_ok.mp h
    obtain ⟨_, _, h⟩ := Res.bind_eq_ok.mp h
    exact key _ _ h
  · exact key _ _ h

end Suiron.Parse

namespace Suiron.Parse

theorem findQuote_ge : ∀ (rest : Text) (j : Nat) (prev : Char) (k : Nat), findQuote rest j prev = some k → j ≤ k := by
  intro rest
  induction rest with
  | nil => intro j prev k h; simp [findQuote] at h
  | cons c rest ih =>
    intro j prev k h
    simp only [findQuote] at h
    split at h
    · cases h; exact Nat.le_refl _
    · have := ih _ _ _ h; omega

/-- the tokenizer only ever slices `chrs[start_index..i]` with `start_index ≤ i` -/
theorem tokLoop_ne_panic (s : Text) : ∀ (fuel i : Nat) (st : TokSt), st.start ≤ i → tokLoop s fuel i st ≠ .panic := by
  intro fuel
  induction fuel with
  | zero => intro i st _; simp [tokLoop]
  | succ fuel ih =>
    intro i st hst
    simp only [tokLoop]
    split
    · split
      · simp
      · split
        · rename_i hpos
          exact Res.bind_ne_panic (slice_ne_panic (by omega) (Nat.le_refl _)) (fun _ _ => by simp)
        · simp
    · rename_i ch hch
      have hi : i < s.length := by
        rcases Nat.lt_or_ge i s.length with h | h
        · exact h
        · have : s[i]? = none := by simp; omega
          rw [this] at hch; cases hch
      split
      · split
        · rename_i j hj
          have := findQuote_ge _ _ _ _ hj
          exact ih _ _ (by simp; omega)
        · exact ih _ _ (by simp; omega)
      split
      · split
        · exact ih _ _ (by simp; omega)
        · exact ih _ _ (by simp)
      split
      · split
        · simp
        · split
          · exact Res.bind_ne_panic (slice_ne_panic hst (by omega)) (fun _ _ => ih _ _ (by simp; omega))
          · split
            · simp
            · exact ih _ _ (by simp; omega)
      split
      · exact ih _ _ (by simp; omega)
      split
      · split
        · simp
        · split
          · simp
          · exact ih _ _ (by simp; omega)
      split
      · split
        · simp
        split
        · exact Res.bind_ne_panic (slice_ne_panic hst (by omega)) (fun _ _ => ih _ _ (by simp))
        split
        · exact Res.bind_ne_panic (slice_ne_panic hst (by omega)) (fun _ _ => ih _ _ (by simp))
        · exact ih _ _ (by simp; omega)
      · exact ih _ _ (by simp; omega)

theorem tokenize_ne_panic' (s : Text) : tokenize s ≠ .panic := by
  unfold tokenize
  simp only
  split
  · simp
  · exact tokLoop_ne_panic _ _ _ _ (Nat.le_refl _)

end Suiron.Parse
