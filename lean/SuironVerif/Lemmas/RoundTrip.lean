/-
  C19 beyond tokens: NESTED COMPLEX TERMS AND LISTS round-trip.

  `Canon d T t`: T is the canonical text of the term t, nested at most d deep — integers, atoms that are plain words or words
  with blanks between them, variables, `$_`, complex terms `fn(T1, ..., Tn)`, the empty list `[]`, lists `[T1, ..., Tn]` and
  lists with a tail variable `[T1, ..., Tn | $V]` of canonical texts.  Proved: `parse_term T = t` (`parse_canon`), by induction
  on the derivation, from the several-argument theorem of `Lemmas/ParseArgsMulti.lean` and the several-element theorems of
  `Lemmas/ParseListMulti.lean` / `ParseListTail.lean`; and the printer writes t as T (`show_canon`).  What is carried along
  (`TextInv`): the text is trimmed, has no backslash and no quote, its parentheses and brackets are closed from any depth, its
  commas lie inside its own parentheses or brackets, it has no bar outside them, and no operator character is followed by a
  blank (so `parse_term` finds no arithmetic infix).
-/
import SuironVerif.Lemmas.ParseArgsMulti
import SuironVerif.Lemmas.ParseListMulti
import SuironVerif.Lemmas.ParseListTail
import SuironVerif.Lemmas.ParseInt
namespace Suiron.Parse
open Suiron

def isLetter (c : Char) : Bool := ('a'.toNat ≤ c.toNat && c.toNat ≤ 'z'.toNat) || ('A'.toNat ≤ c.toNat && c.toNat ≤ 'Z'.toNat)

/-- a plain word: one or more ASCII letters -/
def Word (s : Text) : Prop := s ≠ [] ∧ ∀ c ∈ s, isLetter c = true

def isOp (c : Char) : Bool := c == '+' || c == '-' || c == '*' || c == '/'

/-- no operator character is followed by a blank -/
def opOK : Text → Bool
  | [] => true
  | c :: rest => !(isOp c && rest.head? == some ' ') && opOK rest

/-- the facts about one character class that the scanners care about -/
theorem letter_facts {c : Char} (h : isLetter c = true) :
    tokChar c = true ∧ isDigit c = false ∧ isOp c = false ∧ isWs c = false ∧ c ≠ '$' ∧ c ≠ '"' ∧ c ≠ '[' ∧ c ≠ ']' ∧ c ≠ '(' ∧ c ≠ ')' ∧
    c ≠ ',' ∧ c ≠ '\\' ∧ c ≠ '.' ∧ c ≠ '_' ∧ c ≠ ' ' := by
  have hn : (97 ≤ c.toNat ∧ c.toNat ≤ 122) ∨ (65 ≤ c.toNat ∧ c.toNat ≤ 90) := by
    simp only [isLetter, Bool.or_eq_true, Bool.and_eq_true, decide_eq_true_eq] at h
    exact h
  have ne : ∀ (x : Char), (x.toNat < 65 ∨ (90 < x.toNat ∧ x.toNat < 97) ∨ 122 < x.toNat) → c ≠ x := by
    intro x hx e; subst e; omega
  refine ⟨?_, ?_, ?_, ?_, ne _ (by decide), ne _ (by decide), ne _ (by decide), ne _ (by decide), ne _ (by decide), ne _ (by decide),
    ne _ (by decide), ne _ (by decide), ne _ (by decide), ne _ (by decide), ne _ (by decide)⟩
  · simp only [tokChar, specialChar, Bool.and_eq_true, Bool.not_eq_true', Bool.or_eq_false_iff, beq_eq_false_iff_ne, ne_eq]
    refine ⟨⟨⟨⟨⟨⟨⟨⟨ne _ (by decide), ne _ (by decide)⟩, ne _ (by decide)⟩, ne _ (by decide)⟩, ne _ (by decide)⟩, ne _ (by decide)⟩, ne _ (by decide)⟩, ne _ (by decide)⟩, ?_⟩
    unfold isWs
    simp only [Bool.or_eq_false_iff, Bool.and_eq_false_iff, decide_eq_false_iff_not, beq_eq_false_iff_ne]
    omega
  · unfold isDigit
    simp only [Bool.and_eq_false_iff, decide_eq_false_iff_not]
    have : ('0' : Char).toNat = 48 := rfl
    have : ('9' : Char).toNat = 57 := rfl
    omega
  · simp only [isOp, Bool.or_eq_false_iff, beq_eq_false_iff_ne, ne_eq]
    exact ⟨⟨⟨ne _ (by decide), ne _ (by decide)⟩, ne _ (by decide)⟩, ne _ (by decide)⟩
  · unfold isWs
    simp only [Bool.or_eq_false_iff, Bool.and_eq_false_iff, decide_eq_false_iff_not, beq_eq_false_iff_ne]
    omega

/-! ### no operator followed by a blank: no arithmetic infix -/

theorem opOK_tail {c : Char} {rest : Text} (h : opOK (c :: rest) = true) : opOK rest = true := by
  simp only [opOK, Bool.and_eq_true] at h; exact h.2

theorem arithLoop_opOK : ∀ (text : Text) (i : Nat) (prev : Char) (skip : Option Char), opOK text = true →
    arithLoop text i prev skip = (.none, 0)
  | [], _, _, _, _ => by simp [arithLoop]
  | c :: rest, i, prev, some t, h => by
    simp only [arithLoop]
    split
    · exact arithLoop_opOK rest _ _ _ (opOK_tail h)
    · exact arithLoop_opOK rest _ _ _ (opOK_tail h)
  | c :: rest, i, prev, none, h => by
    have hr := opOK_tail h
    simp only [opOK, Bool.and_eq_true, Bool.not_eq_true'] at h
    have hc2 : isOp c = true → (rest.head?.getD '#' == ' ') = false := by
      intro ho
      have := h.1
      rw [ho, Bool.true_and] at this
      cases hh : rest.head? with
      | none => decide
      | some x =>
        rw [hh] at this
        simp only [Option.getD_some]
        have : x ≠ ' ' := by intro e; subst e; simp at this
        simpa using this
    simp only [arithLoop]
    split
    · exact arithLoop_opOK rest _ _ _ hr
    · split
      · exact arithLoop_opOK rest _ _ _ hr
      · split
        · exact arithLoop_opOK rest _ _ _ hr
        · have e1 : (c == '+' && rest.head?.getD '#' == ' ') = false := by
            by_cases hc : (c == '+') = true
            · rw [hc2 (by simp [isOp, hc])]; simp
            · simp [hc]
          have e2 : (c == '-' && rest.head?.getD '#' == ' ') = false := by
            by_cases hc : (c == '-') = true
            · rw [hc2 (by simp [isOp, hc])]; simp
            · simp [hc]
          have e3 : (c == '*' && rest.head?.getD '#' == ' ') = false := by
            by_cases hc : (c == '*') = true
            · rw [hc2 (by simp [isOp, hc])]; simp
            · simp [hc]
          have e4 : (c == '/' && rest.head?.getD '#' == ' ') = false := by
            by_cases hc : (c == '/') = true
            · rw [hc2 (by simp [isOp, hc])]; simp
            · simp [hc]
          simp only [e1, e2, e3, e4, Bool.false_eq_true, if_false]
          exact arithLoop_opOK rest _ _ _ hr

theorem noInfix_of_opOK (T : Text) (h : opOK T = true) : (checkArithmeticInfix T).1 = .none := by
  unfold checkArithmeticInfix; rw [arithLoop_opOK T 0 '#' none h]

theorem opOK_append : ∀ (a b : Text), opOK a = true → opOK b = true → (∀ c, a.getLast? = some c → isOp c = false) →
    opOK (a ++ b) = true
  | [], b, _, hb, _ => hb
  | [c], b, _, hb, hl => by
    have : isOp c = false := hl c rfl
    simp [opOK, this, hb]
  | c :: d :: a, b, ha, hb, hl => by
    have ht := opOK_tail ha
    have h1 : (isOp c && ((d :: a).head? == some ' ')) = false := by
      simp only [opOK, Bool.and_eq_true, Bool.not_eq_true'] at ha; exact ha.1
    have ih := opOK_append (d :: a) b ht hb (fun x hx => hl x (by simpa using hx))
    simp only [List.head?_cons] at h1
    show opOK (c :: ((d :: a) ++ b)) = true
    rw [opOK, ih]
    simp only [List.cons_append, List.head?_cons, h1, Bool.not_false, Bool.and_self]

/-! ### what is carried along -/

structure TextInv (T : Text) : Prop where
  trimmed : trim T = T
  nonempty : T ≠ []
  nobs : ∀ c ∈ T, c ≠ '\\'
  closedAll : ∀ r s : Int, dpScan T ⟨r, s, false⟩ = ⟨r, s, false⟩
  noTop0 : noTopComma T ⟨0, 0, false⟩ = true
  deep : ∀ (r s : Int), 0 ≤ r → 0 ≤ s → 0 < r + s → noTopComma T ⟨r, s, false⟩ = true
  ops : opOK T = true
  lastOK : ∀ c, T.getLast? = some c → isOp c = false
  noQuote : ∀ c ∈ T, c ≠ '"'
  barAll : ∀ (r s : Int), 0 ≤ r → 0 ≤ s → noTopBar T ⟨r, s, false⟩ = true

theorem TextInv.argOK {T : Text} (h : TextInv T) : ArgOK T :=
  ⟨h.trimmed, h.nonempty, h.nobs, h.noTop0, h.closedAll 0 0, noInfix_of_opOK T h.ops⟩

theorem noTopBar_of_noBar : ∀ (T : Text) (d : Dp), (∀ c ∈ T, c ≠ '|') → noTopBar T d = true
  | [], _, _ => rfl
  | c :: T, d, h => by
    have : (c == '|') = false := by simpa using h c (by simp)
    simp only [noTopBar, topBar, this, Bool.false_and, Bool.not_false, Bool.true_and]
    exact noTopBar_of_noBar T _ (fun x hx => h x (by simp [hx]))

theorem noTopBar_append : ∀ (a b : Text) (d : Dp), noTopBar (a ++ b) d = (noTopBar a d && noTopBar b (dpScan a d))
  | [], b, d => by simp [noTopBar, dpScan]
  | c :: a, b, d => by
    simp only [List.cons_append, noTopBar, dpScan, noTopBar_append a b (dpStep c d), Bool.and_assoc]

/-- a token text never moves the depth and has no comma -/
theorem plain_scan : ∀ (T : Text), (∀ c ∈ T, tokChar c = true) → ∀ (r s : Int),
    dpScan T ⟨r, s, false⟩ = ⟨r, s, false⟩ ∧ noTopComma T ⟨r, s, false⟩ = true
  | [], _, r, s => ⟨rfl, rfl⟩
  | c :: T, h, r, s => by
    obtain ⟨_, h2, h3, h4, h5, h6, h7, _⟩ := tokChar_facts (h c (by simp))
    have hstep : dpStep c ⟨r, s, false⟩ = ⟨r, s, false⟩ := by
      simp [dpStep, h2, h3, h4, h5, h6]
    have ih := plain_scan T (fun x hx => h x (by simp [hx])) r s
    simp only [dpScan, noTopComma, hstep, ih.1, ih.2, topComma, Bool.and_true]
    refine ⟨trivial, ?_⟩
    have : (c == ',') = false := by simpa using h7
    simp [this]

theorem plain_inv {T : Text} (h : TokenText T) (hops : opOK T = true) (hlast : ∀ c, T.getLast? = some c → isOp c = false) :
    TextInv T :=
  ⟨h.trim, h.1, fun c hc => (tokChar_facts (h.2 c hc)).2.2.2.2.2.2.2.1, fun r s => (plain_scan T h.2 r s).1,
   (plain_scan T h.2 0 0).2, fun r s _ _ _ => (plain_scan T h.2 r s).2, hops, hlast,
   fun c hc => (tokChar_facts (h.2 c hc)).2.1,
   fun r s _ _ => noTopBar_of_noBar T _ (fun c hc => (tokChar_facts (h.2 c hc)).2.2.2.2.2.2.2.2.1)⟩

/-! ### the leaves -/

theorem opOK_noops : ∀ (T : Text), (∀ c ∈ T, isOp c = false) → opOK T = true
  | [], _ => rfl
  | c :: T, h => by
    simp only [opOK, h c (by simp), Bool.false_and, Bool.not_false, Bool.true_and]
    exact opOK_noops T (fun x hx => h x (by simp [hx]))

theorem digit_not_op {c : Char} (h : isDigit c = true) : isOp c = false ∧ c ≠ ' ' := by
  unfold isDigit at h
  simp only [Bool.and_eq_true, decide_eq_true_eq] at h
  have h0 : ('0' : Char).toNat = 48 := rfl
  have h9 : ('9' : Char).toNat = 57 := rfl
  have ne : ∀ (x : Char), (x.toNat < 48 ∨ 57 < x.toNat) → c ≠ x := by intro x hx e; subst e; omega
  refine ⟨?_, ne _ (by decide)⟩
  simp only [isOp, Bool.or_eq_false_iff, beq_eq_false_iff_ne, ne_eq]
  exact ⟨⟨⟨ne _ (by decide), ne _ (by decide)⟩, ne _ (by decide)⟩, ne _ (by decide)⟩

theorem int_inv (i : Int) : TextInv (toString i).toList := by
  apply plain_inv (int_token i)
  · cases i with
    | ofNat m =>
      rw [int_text_pos]
      exact opOK_noops _ (fun c hc => (digit_not_op ((repr_digits m).1 c hc).1).1)
    | negSucc m =>
      rw [int_text_neg]
      obtain ⟨hd, hne⟩ := repr_digits (m + 1)
      cases hl : (Nat.repr (m + 1)).toList with
      | nil => exact absurd hl hne
      | cons c cs =>
        have hc := digit_not_op (hd c (by rw [hl]; simp)).1
        have hrest : opOK (c :: cs) = true := opOK_noops _ (fun x hx => (digit_not_op (hd x (by rw [hl]; exact hx)).1).1)
        simp only [opOK, List.head?_cons, Bool.and_eq_true, Bool.not_eq_true'] at hrest ⊢
        refine ⟨?_, hrest⟩
        have : (some c == some ' ') = false := by simpa using hc.2
        simp [this]
  · intro c hc
    have hmem : c ∈ (toString i).toList := List.mem_of_getLast? hc
    -- the last character is a digit
    cases i with
    | ofNat m =>
      rw [int_text_pos] at hmem
      exact (digit_not_op ((repr_digits m).1 c hmem).1).1
    | negSucc m =>
      rw [int_text_neg] at hc
      obtain ⟨hd, hne⟩ := repr_digits (m + 1)
      have : c ∈ (Nat.repr (m + 1)).toList := by
        rw [show ('-' :: (Nat.repr (m + 1)).toList) = ['-'] ++ (Nat.repr (m + 1)).toList from rfl, getLast_append_ne _ _ hne] at hc
        exact List.mem_of_getLast? hc
      exact (digit_not_op (hd c this).1).1

theorem word_token {s : Text} (h : Word s) : TokenText s := ⟨h.1, fun c hc => (letter_facts (h.2 c hc)).1⟩

theorem word_inv {s : Text} (h : Word s) : TextInv s :=
  plain_inv (word_token h) (opOK_noops s (fun c hc => (letter_facts (h.2 c hc)).2.2.1))
    (fun c hc => (letter_facts (h.2 c (List.mem_of_getLast? hc))).2.2.1)

theorem var_token {s : Text} (h : Word s) : TokenText ('$' :: s) :=
  ⟨by simp, fun c hc => by
    rcases List.mem_cons.mp hc with e | e
    · subst e; decide
    · exact (letter_facts (h.2 c e)).1⟩

theorem var_inv {s : Text} (h : Word s) : TextInv ('$' :: s) := by
  apply plain_inv (var_token h)
  · apply opOK_noops
    intro c hc
    rcases List.mem_cons.mp hc with e | e
    · subst e; decide
    · exact (letter_facts (h.2 c e)).2.2.1
  · intro c hc
    have hne := h.1
    rw [show ('$' :: s) = ['$'] ++ s from rfl, getLast_append_ne _ _ hne] at hc
    exact (letter_facts (h.2 c (List.mem_of_getLast? hc))).2.2.1

theorem flagLoop_letters (b : Bool) : ∀ (s : Text) (i : Nat) (acc : Bool × Bool × Bool), (∀ c ∈ s, isLetter c = true) →
    flagLoop b s i acc = (acc.1, acc.2.1 || !s.isEmpty, acc.2.2)
  | [], _, acc, _ => by simp [flagLoop]
  | c :: cs, i, acc, h => by
    obtain ⟨_, hd, ho, _, _, _, _, _, _, _, _, _, hp, _, _⟩ := letter_facts (h c (by simp))
    have hsign : (c == '+' || c == '-') = false := by
      simp only [isOp, Bool.or_eq_false_iff] at ho
      simp [ho.1.1.1, ho.1.1.2]
    rw [flagLoop, flagLoop_letters b cs (i + 1) _ (fun x hx => h x (by simp [hx]))]
    have hp' : (c == '.') = false := by simpa using hp
    simp [flagStep, hd, hp', hsign]

/-- an atom that is a plain word parses to itself -/
theorem parseTerm_word (po : POps) (f : Nat) {s : Text} (h : Word s) : parseTerm po (f + 2) s = .ok (.atom (str s)) := by
  have htok := word_token h
  rw [parseTerm_token po (f + 1) htok, termFlags_eq, flagLoop_letters _ _ _ _ h.2]
  simp only [makeTerm, htok.trim]
  cases hs : s with
  | nil => exact absurd hs h.1
  | cons first rest =>
    have hf := letter_facts (h.2 first (by rw [hs]; simp))
    have h1 : (first == '$') = false := by simpa using hf.2.2.2.2.1
    simp only [h1, Bool.false_eq_true, if_false, Bool.false_and, List.isEmpty_cons, Bool.not_false, Bool.or_true, Bool.not_true, Bool.and_false]
    by_cases hlen : (first :: rest).length ≥ 2
    · simp only [hlen, if_true]
      cases hl : (first :: rest).getLast? with
      | none => simp at hl
      | some last =>
        have hla := letter_facts (h.2 last (by rw [hs]; exact List.mem_of_getLast? hl))
        have e1 : (first == '"') = false := by simpa using hf.2.2.2.2.2.1
        have e2 : (first == '[') = false := by simpa using hf.2.2.2.2.2.2.1
        have e3 : (last == ')') = false := by simpa using hla.2.2.2.2.2.2.2.2.2.1
        simp [e1, e2, e3]
    · simp only [hlen, if_false]

/-- a variable parses to itself (`isAlpha` of the `std` parameters holds of ASCII letters) -/
theorem parseTerm_var (po : POps) (hα : ∀ c, isLetter c = true → po.isAlpha c = true) (f : Nat) {s : Text} (h : Word s) :
    parseTerm po (f + 2) ('$' :: s) = .ok (.var 0 (str ('$' :: s))) := by
  have htok := var_token h
  rw [parseTerm_token po (f + 1) htok]
  simp only [makeTerm, htok.trim]
  cases hs : s with
  | nil => exact absurd hs h.1
  | cons c1 rest =>
    have hc1 := h.2 c1 (by rw [hs]; simp)
    have hne : ('$' :: c1 :: rest == ['$', '_']) = false := by
      have : c1 ≠ '_' := (letter_facts hc1).2.2.2.2.2.2.2.2.2.2.2.2.2.1
      simp [this]
    have htr : trim ('$' :: c1 :: rest) = '$' :: c1 :: rest := by rw [← hs]; exact htok.trim
    simp only [show (('$' : Char) == '$') = true from by decide, if_true, hne, Bool.false_eq_true, if_false, makeLogicVar, htr,
      show (('$' : Char) != '$') = false from by decide, hα c1 hc1, Bool.not_true]

/-! ### complex terms -/

theorem noTopComma_append : ∀ (a b : Text) (d : Dp), noTopComma (a ++ b) d = (noTopComma a d && noTopComma b (dpScan a d))
  | [], b, d => by simp [noTopComma, dpScan]
  | c :: a, b, d => by
    simp only [List.cons_append, noTopComma, dpScan, noTopComma_append a b (dpStep c d), Bool.and_assoc]

theorem qCount_noquote : ∀ (T : Text) (d : Dp), (∀ c ∈ T, c ≠ '"') → qCount T d = 0
  | [], _, _ => rfl
  | c :: T, d, h => by
    have : (c == '"') = false := by simpa using h c (by simp)
    simp only [qCount, this, Bool.false_and, Bool.false_eq_true, if_false, Nat.zero_add]
    exact qCount_noquote T _ (fun x hx => h x (by simp [hx]))

/-- the arguments, joined: what is carried along for each is carried along for all -/
theorem joinArgs_inv : ∀ (as : List Text), as ≠ [] → (∀ a ∈ as, TextInv a) →
    (∀ r s : Int, dpScan (joinArgs as) ⟨r, s, false⟩ = ⟨r, s, false⟩) ∧
    (∀ (r s : Int), 0 ≤ r → 0 ≤ s → 0 < r + s → noTopComma (joinArgs as) ⟨r, s, false⟩ = true) ∧
    opOK (joinArgs as) = true ∧ (∀ c, (joinArgs as).getLast? = some c → isOp c = false) ∧
    (∀ c ∈ joinArgs as, c ≠ '"') ∧ (∀ (r s : Int), 0 ≤ r → 0 ≤ s → noTopBar (joinArgs as) ⟨r, s, false⟩ = true)
  | [], h, _ => absurd rfl h
  | [a], _, h => by
    have ha := h a (by simp)
    simpa [joinArgs] using ⟨ha.closedAll, ha.deep, ha.ops, ha.lastOK, ha.noQuote, ha.barAll⟩
  | a :: b :: rest, _, h => by
    have ha := h a (by simp)
    obtain ⟨i1, i2, i3, i4, i5, i6⟩ := joinArgs_inv (b :: rest) (by simp) (fun x hx => h x (by simp [hx]))
    have hsep : ∀ r s : Int, dpStep ' ' (dpStep ',' ⟨r, s, false⟩) = ⟨r, s, false⟩ := by intro r s; simp [dpStep]
    refine ⟨?_, ?_, ?_, ?_, ?_, ?_⟩
    · intro r s
      simp only [joinArgs, dpScan_append, ha.closedAll, dpScan, hsep, i1]
    · intro r s hr hs hrs
      simp only [joinArgs, noTopComma_append, ha.deep r s hr hs hrs, ha.closedAll, noTopComma, Bool.true_and]
      have h1 : topComma ',' ⟨r, s, false⟩ = false := by
        simp only [topComma, Bool.not_false, Bool.and_true, beq_self_eq_true, Bool.true_and, Bool.and_eq_false_iff, beq_eq_false_iff_ne, ne_eq]
        by_cases h0 : r = 0
        · right; omega
        · left; exact h0
      have h2 : dpStep ',' ⟨r, s, false⟩ = ⟨r, s, false⟩ := by simp [dpStep]
      have h3 : topComma ' ' ⟨r, s, false⟩ = false := by simp [topComma]
      have h4 : dpStep ' ' ⟨r, s, false⟩ = ⟨r, s, false⟩ := by simp [dpStep]
      simp only [h1, h2, h3, h4, Bool.not_false, Bool.true_and, i2 r s hr hs hrs]
    · simp only [joinArgs]
      apply opOK_append _ _ ha.ops _ ha.lastOK
      simp only [opOK, List.head?_cons]
      simp [isOp, i3]
    · intro c hc
      have hj : joinArgs (b :: rest) ≠ [] := joinArgs_ne_nil (b :: rest) (by simp) (fun x hx => (h x (by simp [hx])).nonempty)
      simp only [joinArgs] at hc
      rw [show a ++ ',' :: ' ' :: joinArgs (b :: rest) = (a ++ [',', ' ']) ++ joinArgs (b :: rest) from by simp,
        getLast_append_ne _ _ hj] at hc
      exact i4 c hc
    · intro c hc
      simp only [joinArgs, List.mem_append, List.mem_cons] at hc
      rcases hc with hc | hc | hc | hc
      · exact ha.noQuote c hc
      · subst hc; decide
      · subst hc; decide
      · exact i5 c hc
    · intro r s hr hs
      simp only [joinArgs, noTopBar_append, ha.barAll r s hr hs, ha.closedAll, noTopBar, Bool.true_and]
      have h1 : topBar ',' ⟨r, s, false⟩ = false := by simp [topBar]
      have h2 : dpStep ',' ⟨r, s, false⟩ = ⟨r, s, false⟩ := by simp [dpStep]
      have h3 : topBar ' ' ⟨r, s, false⟩ = false := by simp [topBar]
      have h4 : dpStep ' ' ⟨r, s, false⟩ = ⟨r, s, false⟩ := by simp [dpStep]
      simp only [h1, h2, h3, h4, Bool.not_false, Bool.true_and, i6 r s hr hs]

/-- the text of a complex term carries along what the texts of its arguments carry along -/
theorem cplx_inv {fn : Text} (hf : Word fn) (as : List Text) (hne : as ≠ []) (h : ∀ a ∈ as, TextInv a) :
    TextInv (fn ++ '(' :: joinArgs as ++ [')']) := by
  obtain ⟨j1, j2, j3, j4, j5, j6⟩ := joinArgs_inv as hne h
  have hfn := word_inv hf
  have hjne : joinArgs as ≠ [] := joinArgs_ne_nil as hne (fun a ha => (h a ha).nonempty)
  have hopen : ∀ r s : Int, dpStep '(' ⟨r, s, false⟩ = ⟨r + 1, s, false⟩ := by intro r s; simp [dpStep]
  have hclose : ∀ r s : Int, dpStep ')' ⟨r + 1, s, false⟩ = ⟨r, s, false⟩ := by intro r s; simp [dpStep]
  have hshape : fn ++ '(' :: joinArgs as ++ [')'] = fn ++ ('(' :: (joinArgs as ++ [')'])) := by simp
  refine ⟨?_, by simp, ?_, ?_, ?_, ?_, ?_, ?_, ?_, ?_⟩
  · -- trimmed
    obtain ⟨hne', hall⟩ := hf
    cases hfn' : fn with
    | nil => exact absurd hfn' hne'
    | cons a t =>
      apply trim_of_ends (by simp)
      · intro b hb; simp at hb; subst hb; exact (letter_facts (hall _ (by rw [hfn']; simp))).2.2.2.1
      · intro b hb
        rw [show (a :: t ++ '(' :: joinArgs as ++ [')']) = (a :: t ++ '(' :: joinArgs as) ++ [')'] from by simp, List.getLast?_concat] at hb
        simp at hb; subst hb; decide
  · intro c hc
    simp only [List.mem_append, List.mem_cons, List.mem_singleton] at hc
    rcases hc with (hc | hc | hc) | hc
    · exact hfn.nobs c hc
    · subst hc; decide
    · exact joinArgs_nobs as (fun a ha => (h a ha).nobs) c hc
    · rcases hc with hc | hc
      · subst hc; decide
      · cases hc
  · intro r s
    rw [hshape, dpScan_append, hfn.closedAll]
    simp only [dpScan, hopen]
    rw [dpScan_append, j1]
    simp only [dpScan, hclose]
  · rw [hshape, noTopComma_append, hfn.noTop0, hfn.closedAll]
    simp only [noTopComma, hopen, Bool.true_and]
    rw [noTopComma_append, j1]
    have := j2 1 0 (by omega) (by omega) (by omega)
    simp [this, noTopComma, topComma]
  · intro r s hr hs hrs
    rw [hshape, noTopComma_append, hfn.deep r s hr hs hrs, hfn.closedAll]
    simp only [noTopComma, hopen, Bool.true_and]
    rw [noTopComma_append, j1]
    have := j2 (r + 1) s (by omega) hs (by omega)
    simp [this, noTopComma, topComma]
  · rw [hshape]
    apply opOK_append _ _ hfn.ops _ hfn.lastOK
    simp only [opOK, Bool.and_eq_true, Bool.not_eq_true']
    refine ⟨by simp [isOp], ?_⟩
    exact opOK_append _ _ j3 (by simp [opOK, isOp]) j4
  · intro c hc
    rw [show fn ++ '(' :: joinArgs as ++ [')'] = (fn ++ '(' :: joinArgs as) ++ [')'] from by simp, List.getLast?_concat] at hc
    simp at hc; subst hc; decide
  · intro c hc
    simp only [List.mem_append, List.mem_cons, List.mem_singleton] at hc
    rcases hc with (hc | hc | hc) | hc
    · exact hfn.noQuote c hc
    · subst hc; decide
    · exact j5 c hc
    · rcases hc with hc | hc
      · subst hc; decide
      · cases hc
  · intro r s hr hs
    rw [hshape, noTopBar_append, hfn.barAll r s hr hs, hfn.closedAll]
    simp only [noTopBar, hopen, Bool.true_and]
    rw [noTopBar_append, j1]
    have := j6 (r + 1) s (by omega) hs
    simp [this, noTopBar, topBar]

/-! ### atoms with blanks, and `$_` -/

/-- letters and single or several blanks, beginning and ending with a letter: `New York` -/
structure Phrase (s : Text) : Prop where
  chars : ∀ c ∈ s, isLetter c = true ∨ c = ' '
  first : ∃ a t, s = a :: t ∧ isLetter a = true
  last : ∀ c, s.getLast? = some c → isLetter c = true

theorem phrase_char {c : Char} (h : isLetter c = true ∨ c = ' ') :
    isDigit c = false ∧ isOp c = false ∧ c ≠ '"' ∧ c ≠ '[' ∧ c ≠ ']' ∧ c ≠ '(' ∧ c ≠ ')' ∧ c ≠ ',' ∧ c ≠ '\\' ∧ c ≠ '.' ∧ c ≠ '|' ∧
    c ≠ '+' ∧ c ≠ '-' := by
  rcases h with h | h
  · have hf := letter_facts h
    have ht := tokChar_facts hf.1
    have ho := hf.2.2.1
    simp only [isOp, Bool.or_eq_false_iff, beq_eq_false_iff_ne, ne_eq] at ho
    exact ⟨hf.2.1, hf.2.2.1, hf.2.2.2.2.2.1, hf.2.2.2.2.2.2.1, hf.2.2.2.2.2.2.2.1, hf.2.2.2.2.2.2.2.2.1, hf.2.2.2.2.2.2.2.2.2.1,
      hf.2.2.2.2.2.2.2.2.2.2.1, hf.2.2.2.2.2.2.2.2.2.2.2.1, hf.2.2.2.2.2.2.2.2.2.2.2.2.1, ht.2.2.2.2.2.2.2.2.1, ho.1.1.1, ho.1.1.2⟩
  · subst h; decide

theorem phrase_scan : ∀ (T : Text), (∀ c ∈ T, isLetter c = true ∨ c = ' ') → ∀ (r s : Int),
    dpScan T ⟨r, s, false⟩ = ⟨r, s, false⟩ ∧ noTopComma T ⟨r, s, false⟩ = true
  | [], _, r, s => ⟨rfl, rfl⟩
  | c :: T, h, r, s => by
    obtain ⟨_, _, h2, h3, h4, h5, h6, h7, _⟩ := phrase_char (h c (by simp))
    have hstep : dpStep c ⟨r, s, false⟩ = ⟨r, s, false⟩ := by
      simp [dpStep, h2, h3, h4, h5, h6]
    have ih := phrase_scan T (fun x hx => h x (by simp [hx])) r s
    simp only [dpScan, noTopComma, hstep, ih.1, ih.2, topComma, Bool.and_true]
    refine ⟨trivial, ?_⟩
    have : (c == ',') = false := by simpa using h7
    simp [this]

theorem phrase_inv {s : Text} (h : Phrase s) : TextInv s := by
  obtain ⟨a, t, hs, ha⟩ := h.first
  have hne : s ≠ [] := by rw [hs]; simp
  refine ⟨?_, hne, fun c hc => (phrase_char (h.chars c hc)).2.2.2.2.2.2.2.2.1, fun r s' => (phrase_scan s h.chars r s').1,
    (phrase_scan s h.chars 0 0).2, fun r s' _ _ _ => (phrase_scan s h.chars r s').2,
    opOK_noops s (fun c hc => (phrase_char (h.chars c hc)).2.1), fun c hc => (letter_facts (h.last c hc)).2.2.1,
    fun c hc => (phrase_char (h.chars c hc)).2.2.1,
    fun r s' _ _ => noTopBar_of_noBar s _ (fun c hc => (phrase_char (h.chars c hc)).2.2.2.2.2.2.2.2.2.2.1)⟩
  apply trim_of_ends hne
  · intro b hb; rw [hs] at hb; simp at hb; subst hb; exact (letter_facts ha).2.2.2.1
  · intro b hb; exact (letter_facts (h.last b hb)).2.2.2.1

theorem flagLoop_phrase (b : Bool) : ∀ (s : Text) (i : Nat) (acc : Bool × Bool × Bool), (∀ c ∈ s, isLetter c = true ∨ c = ' ') →
    flagLoop b s i acc = (acc.1, acc.2.1 || !s.isEmpty, acc.2.2)
  | [], _, acc, _ => by simp [flagLoop]
  | c :: cs, i, acc, h => by
    obtain ⟨hd, _, _, _, _, _, _, _, _, hp, _, hplus, hminus⟩ := phrase_char (h c (by simp))
    have hsign : (c == '+' || c == '-') = false := by simp [hplus, hminus]
    rw [flagLoop, flagLoop_phrase b cs (i + 1) _ (fun x hx => h x (by simp [hx]))]
    have hp' : (c == '.') = false := by simpa using hp
    simp [flagStep, hd, hp', hsign]

/-- an atom of words and blanks parses to itself -/
theorem parseTerm_phrase (po : POps) (f : Nat) {s : Text} (h : Phrase s) : parseTerm po (f + 2) s = .ok (.atom (str s)) := by
  have hI := phrase_inv h
  rw [show f + 2 = (f + 1) + 1 from rfl, parseTerm_structured po (f + 1) s hI.trimmed hI.nobs (noInfix_of_opOK s hI.ops),
    qCount_noquote s _ hI.noQuote, termFlags_eq, flagLoop_phrase _ _ _ _ h.chars]
  simp only [checkQuotes_zero, Res.bind_ok, makeTerm, hI.trimmed]
  obtain ⟨first, rest, hs, ha⟩ := h.first
  subst hs
  have hf := letter_facts ha
  have h1 : (first == '$') = false := by simpa using hf.2.2.2.2.1
  simp only [h1, Bool.false_eq_true, if_false, Bool.false_and, List.isEmpty_cons, Bool.not_false, Bool.or_true, Bool.not_true, Bool.and_false]
  by_cases hlen : (first :: rest).length ≥ 2
  · simp only [hlen, if_true]
    cases hl : (first :: rest).getLast? with
    | none => simp at hl
    | some last =>
      have hla := letter_facts (h.last last hl)
      have e1 : (first == '"') = false := by simpa using hf.2.2.2.2.2.1
      have e2 : (first == '[') = false := by simpa using hf.2.2.2.2.2.2.1
      have e3 : (last == ')') = false := by simpa using hla.2.2.2.2.2.2.2.2.2.1
      simp [e1, e2, e3]
  · simp only [hlen, if_false]

theorem anon_token : TokenText ['$', '_'] := ⟨by simp, by decide⟩

theorem anon_inv : TextInv ['$', '_'] := plain_inv anon_token (by decide) (by decide)

theorem parseTerm_anon (po : POps) (f : Nat) : parseTerm po (f + 2) ['$', '_'] = .ok .anon := by
  rw [parseTerm_token po (f + 1) anon_token]
  simp [makeTerm, anon_token.trim]

/-! ### lists -/

theorem TextInv.elemOK {T : Text} (h : TextInv T) : ElemOK T := ⟨h.argOK, h.barAll 0 0 (Int.le_refl _) (Int.le_refl _)⟩

/-- a bracketed text carries along what its inside carries along -/
theorem bracket_inv (X : Text) (hne : X ≠ []) (k0 : ∀ c ∈ X, c ≠ '\\')
    (k1 : ∀ r s : Int, dpScan X ⟨r, s, false⟩ = ⟨r, s, false⟩)
    (k2 : ∀ (r s : Int), 0 ≤ r → 0 ≤ s → 0 < r + s → noTopComma X ⟨r, s, false⟩ = true)
    (k3 : opOK X = true) (k4 : ∀ c, X.getLast? = some c → isOp c = false) (k5 : ∀ c ∈ X, c ≠ '"')
    (k6 : ∀ (r s : Int), 0 ≤ r → 0 ≤ s → 0 < r + s → noTopBar X ⟨r, s, false⟩ = true) : TextInv ('[' :: X ++ [']']) := by
  have hopen : ∀ r s : Int, dpStep '[' ⟨r, s, false⟩ = ⟨r, s + 1, false⟩ := by intro r s; simp [dpStep]
  have hclose : ∀ r s : Int, dpStep ']' ⟨r, s + 1, false⟩ = ⟨r, s, false⟩ := by intro r s; simp [dpStep]
  have hshape : '[' :: X ++ [']'] = '[' :: (X ++ [']']) := rfl
  have hmem : ∀ c ∈ '[' :: X ++ [']'], c = '[' ∨ c ∈ X ∨ c = ']' := by
    intro c hc
    simp only [List.cons_append, List.mem_cons, List.mem_append, List.mem_nil_iff, or_false] at hc
    exact hc
  refine ⟨?_, by simp, ?_, ?_, ?_, ?_, ?_, ?_, ?_, ?_⟩
  · apply trim_of_ends (by simp)
    · intro b hb; simp at hb; subst hb; decide
    · intro b hb
      rw [show ('[' :: X ++ [']']) = ('[' :: X) ++ [']'] from rfl, List.getLast?_concat] at hb
      simp at hb; subst hb; decide
  · intro c hc
    rcases hmem c hc with e | e | e
    · subst e; decide
    · exact k0 c e
    · subst e; decide
  · intro r s
    rw [hshape]
    simp only [dpScan, hopen]
    rw [dpScan_append, k1]
    simp only [dpScan, hclose]
  · rw [hshape]
    simp only [noTopComma, hopen]
    rw [noTopComma_append, k1]
    have := k2 0 1 (by omega) (by omega) (by omega)
    rw [show ((0 : Int) + 1) = 1 from rfl]
    simp [this, noTopComma, topComma]
  · intro r s hr hs hrs
    rw [hshape]
    simp only [noTopComma, hopen]
    rw [noTopComma_append, k1]
    have := k2 r (s + 1) hr (by omega) (by omega)
    simp [this, noTopComma, topComma]
  · rw [hshape]
    simp only [opOK, Bool.and_eq_true, Bool.not_eq_true']
    refine ⟨by simp [isOp], ?_⟩
    exact opOK_append _ _ k3 (by simp [opOK, isOp]) k4
  · intro c hc
    rw [show ('[' :: X ++ [']']) = ('[' :: X) ++ [']'] from rfl, List.getLast?_concat] at hc
    simp at hc; subst hc; decide
  · intro c hc
    rcases hmem c hc with e | e | e
    · subst e; decide
    · exact k5 c e
    · subst e; decide
  · intro r s hr hs
    rw [hshape]
    simp only [noTopBar, hopen]
    rw [noTopBar_append, k1]
    have := k6 r (s + 1) hr (by omega) (by omega)
    simp [this, noTopBar, topBar]

/-- the text of a list carries along what the texts of its elements carry along -/
theorem list_inv (as : List Text) (hne : as ≠ []) (h : ∀ a ∈ as, TextInv a) : TextInv ('[' :: joinArgs as ++ [']']) := by
  obtain ⟨j1, j2, j3, j4, j5, j6⟩ := joinArgs_inv as hne h
  exact bracket_inv (joinArgs as) (joinArgs_ne_nil as hne (fun a ha => (h a ha).nonempty))
    (joinArgs_nobs as (fun a ha => (h a ha).nobs)) j1 j2 j3 j4 j5 (fun r s hr hs _ => j6 r s hr hs)

/-- the inside of a list with a tail variable: the elements, ` | `, the variable -/
def tailInner (as : List Text) (name : Text) : Text := joinArgs as ++ ' ' :: '|' :: ' ' :: '$' :: name

theorem tlist_inv (as : List Text) (hne : as ≠ []) (h : ∀ a ∈ as, TextInv a) {name : Text} (hn : Word name) :
    TextInv ('[' :: tailInner as name ++ [']']) := by
  obtain ⟨j1, j2, j3, j4, j5, j6⟩ := joinArgs_inv as hne h
  have hV := var_inv hn
  have hsep : ∀ r s : Int, dpStep ' ' (dpStep '|' (dpStep ' ' ⟨r, s, false⟩)) = ⟨r, s, false⟩ := by intro r s; simp [dpStep]
  have hmem : ∀ c ∈ tailInner as name, c ∈ joinArgs as ∨ c = ' ' ∨ c = '|' ∨ c ∈ '$' :: name := by
    intro c hc
    simp only [tailInner, List.mem_append, List.mem_cons] at hc
    rcases hc with hc | hc | hc | hc | hc
    · exact Or.inl hc
    · exact Or.inr (Or.inl hc)
    · exact Or.inr (Or.inr (Or.inl hc))
    · exact Or.inr (Or.inl hc)
    · exact Or.inr (Or.inr (Or.inr (by simpa using hc)))
  have hshape : tailInner as name = joinArgs as ++ (' ' :: '|' :: ' ' :: ('$' :: name)) := rfl
  apply bracket_inv
  · simp [tailInner]
  · intro c hc
    rcases hmem c hc with e | e | e | e
    · exact joinArgs_nobs as (fun a ha => (h a ha).nobs) c e
    · subst e; decide
    · subst e; decide
    · exact hV.nobs c e
  · intro r s
    rw [hshape, dpScan_append, j1]
    simp only [dpScan, hsep]
    exact hV.closedAll r s
  · intro r s hr hs hrs
    rw [hshape, noTopComma_append, j2 r s hr hs hrs, j1]
    have e1 : dpStep ' ' ⟨r, s, false⟩ = ⟨r, s, false⟩ := by simp [dpStep]
    have e2 : dpStep '|' ⟨r, s, false⟩ = ⟨r, s, false⟩ := by simp [dpStep]
    simp only [noTopComma, e1, e2, show topComma ' ' ⟨r, s, false⟩ = false from by simp [topComma],
      show topComma '|' ⟨r, s, false⟩ = false from by simp [topComma], Bool.not_false, Bool.true_and]
    exact hV.deep r s hr hs hrs
  · rw [hshape]
    apply opOK_append _ _ j3 _ j4
    have : opOK (' ' :: '|' :: ' ' :: ('$' :: name)) = (opOK ('$' :: name)) := by
      simp [opOK, isOp]
    rw [this]; exact hV.ops
  · intro c hc
    have hne' : ('$' :: name) ≠ [] := by simp
    rw [show tailInner as name = (joinArgs as ++ [' ', '|', ' ']) ++ ('$' :: name) from by simp [tailInner],
      getLast_append_ne _ _ hne'] at hc
    exact hV.lastOK c hc
  · intro c hc
    rcases hmem c hc with e | e | e | e
    · exact j5 c e
    · subst e; decide
    · subst e; decide
    · exact hV.noQuote c e
  · intro r s hr hs hrs
    rw [hshape, noTopBar_append, j6 r s hr hs, j1]
    have e1 : dpStep ' ' ⟨r, s, false⟩ = ⟨r, s, false⟩ := by simp [dpStep]
    have e2 : dpStep '|' ⟨r, s, false⟩ = ⟨r, s, false⟩ := by simp [dpStep]
    have e3 : topBar '|' ⟨r, s, false⟩ = false := by
      simp only [topBar, Bool.not_false, Bool.and_true, beq_self_eq_true, Bool.true_and, Bool.and_eq_false_iff, beq_eq_false_iff_ne, ne_eq]
      by_cases h0 : r = 0
      · right; omega
      · left; exact h0
    simp only [noTopBar, e1, e2, e3, show topBar ' ' ⟨r, s, false⟩ = false from by simp [topBar], Bool.not_false, Bool.true_and]
    exact hV.barAll r s hr hs

/-- the list built from its elements, as `link_front` builds it (each node counts the nodes from itself) -/
def listOf : List Term → Term
  | [] => Term.empty
  | t :: ts => .cons t (listOf ts) (ts.length + 1) false

theorem linkFront_listOf (t : Term) (ts : List Term) : linkFront t false (listOf ts) = .ok (listOf (t :: ts)) := by
  cases ts with
  | nil => rfl
  | cons a rest => simp [listOf, linkFront]

theorem parseR_ok (pt : Text → Res Term) : ∀ (ras : List Text) (ts done : List Term), ras.length = ts.length →
    (∀ (i : Nat) (h1 : i < ras.length) (h2 : i < ts.length), pt ras[i] = .ok ts[i]) →
    parseR pt ras (listOf done) = .ok (listOf (ts.reverse ++ done))
  | [], [], _, _, _ => rfl
  | [], _ :: _, _, h, _ => by simp at h
  | _ :: _, [], _, h, _ => by simp at h
  | a :: ras, t :: ts, done, hl, h => by
    have h0 := h 0 (by simp) (by simp)
    simp only [List.getElem_cons_zero] at h0
    have ih := parseR_ok pt ras ts (t :: done) (by simpa using hl) (fun i h1 h2 => by
      have := h (i + 1) (by simp; omega) (by simp; omega)
      simpa using this)
    simp only [parseR, h0, Res.bind_ok, linkFront_listOf, ih]
    simp

/-- a bracketed text that carries the invariant goes to the list parser -/
theorem parseTerm_bracket (po : POps) (g : Nat) (J : Text) (hI : TextInv ('[' :: J ++ [']'])) :
    parseTerm po (g + 4) ('[' :: J ++ [']']) = parseLinkedList po (g + 2) ('[' :: J ++ [']']) := by
  have hlast : ('[' :: J ++ [']']).getLast? = some ']' := by
    rw [show ('[' :: J ++ [']']) = ('[' :: J) ++ [']'] from rfl, List.getLast?_concat]
  have hlen2 : ('[' :: J ++ [']']).length ≥ 2 := by simp
  generalize hT : '[' :: J ++ [']'] = T at *
  rw [show g + 4 = (g + 3) + 1 from rfl, parseTerm_structured po (g + 3) T hI.trimmed hI.nobs (noInfix_of_opOK T hI.ops), qCount_noquote T _ hI.noQuote]
  simp only [checkQuotes_zero, Res.bind_ok]
  unfold makeTerm
  simp only [hI.trimmed]
  rw [← hT] at hlast hlen2 ⊢
  simp only [List.cons_append, show (('[' : Char) == '$') = false from by decide, Bool.false_eq_true, if_false] at hlast hlen2 ⊢
  simp only [hlen2, if_true, hlast, show (('[' : Char) == '"') = false from by decide,
    show (('[' : Char) == '[') = true from by decide, show ((']' : Char) == ']') = true from by decide, Bool.and_self,
    Bool.false_eq_true, if_false]

/-- a list over texts that carry the invariant: `parse_term` parses each element with `parse_term`, last element first -/
theorem parseTerm_list (po : POps) (g : Nat) (as : List Text) (hne : as ≠ []) (hinv : ∀ a ∈ as, TextInv a) :
    parseTerm po (g + 4) ('[' :: joinArgs as ++ [']']) = parseR (parseTerm po (g + 1)) as.reverse Term.empty := by
  rw [parseTerm_bracket po g _ (list_inv as hne hinv)]
  exact parseLinkedList_multi po g as hne (fun a ha => (hinv a ha).elemOK)

/-- the list with a tail variable, as `link_front` builds it: the node of the variable is flagged and counts 1 -/
def tailListOf (v : Term) : List Term → Term
  | [] => .cons v Term.empty 1 true
  | t :: ts => .cons t (tailListOf v ts) (ts.length + 2) false

theorem linkFront_tailListOf (v t : Term) (ts : List Term) : linkFront t false (tailListOf v ts) = .ok (tailListOf v (t :: ts)) := by
  cases ts with
  | nil => rfl
  | cons a rest => simp [tailListOf, linkFront]

theorem parseR_okT (pt : Text → Res Term) (v : Term) : ∀ (ras : List Text) (ts done : List Term), ras.length = ts.length →
    (∀ (i : Nat) (h1 : i < ras.length) (h2 : i < ts.length), pt ras[i] = .ok ts[i]) →
    parseR pt ras (tailListOf v done) = .ok (tailListOf v (ts.reverse ++ done))
  | [], [], _, _, _ => rfl
  | [], _ :: _, _, h, _ => by simp at h
  | _ :: _, [], _, h, _ => by simp at h
  | a :: ras, t :: ts, done, hl, h => by
    have h0 := h 0 (by simp) (by simp)
    simp only [List.getElem_cons_zero] at h0
    have ih := parseR_okT pt v ras ts (t :: done) (by simpa using hl) (fun i h1 h2 => by
      have := h (i + 1) (by simp; omega) (by simp; omega)
      simpa using this)
    simp only [parseR, h0, Res.bind_ok, linkFront_tailListOf, ih]
    simp

theorem makeLogicVar_word (po : POps) (hα : ∀ c, isLetter c = true → po.isAlpha c = true) {name : Text} (hn : Word name) :
    makeLogicVar po ('$' :: name) = .ok (.var 0 (str ('$' :: name))) := by
  have htok := var_token hn
  cases hs : name with
  | nil => exact absurd hs hn.1
  | cons c1 rest =>
    have hc1 : isLetter c1 = true := hn.2 c1 (by rw [hs]; simp)
    have htr : trim ('$' :: c1 :: rest) = '$' :: c1 :: rest := by rw [← hs]; exact htok.trim
    simp only [makeLogicVar, htr, show (('$' : Char) != '$') = false from by decide, hα c1 hc1, Bool.not_true,
      Bool.false_eq_true, if_false]

/-- a list with a tail variable over texts that carry the invariant -/
theorem parseTerm_tlist (po : POps) (hα : ∀ c, isLetter c = true → po.isAlpha c = true) (g : Nat) (as : List Text)
    (hne : as ≠ []) (hinv : ∀ a ∈ as, TextInv a) {name : Text} (hn : Word name) :
    parseTerm po (g + 4) ('[' :: tailInner as name ++ [']']) =
      parseR (parseTerm po (g + 1)) as.reverse (tailListOf (.var 0 (str ('$' :: name))) []) := by
  rw [parseTerm_bracket po g _ (tlist_inv as hne hinv hn)]
  have hV := var_inv hn
  exact parseLinkedList_tail po g as ('$' :: name) _ hne (fun a ha => (hinv a ha).elemOK) hV.elemOK
    (qCount_noquote _ _ hV.noQuote) (makeLogicVar_word po hα hn)

/-! ### canonical texts and their terms -/

/-- the text begins like a function term (`join(`, `add(`, ...): `make_term` then reads it as a function, not as a complex term -/
def funPrefix (T : Text) : Bool :=
  startsWith T "join(" || startsWith T "add(" || startsWith T "subtract(" || startsWith T "multiply(" || startsWith T "divide("

/-! ### complex terms without arguments: `fn()` -/

theorem zero_inv {fn : Text} (hf : Word fn) : TextInv (fn ++ ['(', ')']) := by
  have hfn := word_inv hf
  have hopen : ∀ r s : Int, dpStep '(' ⟨r, s, false⟩ = ⟨r + 1, s, false⟩ := by intro r s; simp [dpStep]
  have hclose : ∀ r s : Int, dpStep ')' ⟨r + 1, s, false⟩ = ⟨r, s, false⟩ := by intro r s; simp [dpStep]
  have hmem : ∀ c ∈ fn ++ ['(', ')'], c ∈ fn ∨ c = '(' ∨ c = ')' := by
    intro c hc
    simp only [List.mem_append, List.mem_cons, List.mem_nil_iff, or_false] at hc
    exact hc
  refine ⟨?_, by simp, ?_, ?_, ?_, ?_, ?_, ?_, ?_, ?_⟩
  · obtain ⟨hne', hall⟩ := hf
    cases hfn' : fn with
    | nil => exact absurd hfn' hne'
    | cons a t =>
      apply trim_of_ends (by simp)
      · intro b hb; simp at hb; subst hb; exact (letter_facts (hall _ (by rw [hfn']; simp))).2.2.2.1
      · intro b hb
        rw [show (a :: t ++ ['(', ')']) = (a :: t ++ ['(']) ++ [')'] from by simp, List.getLast?_concat] at hb
        simp at hb; subst hb; decide
  · intro c hc
    rcases hmem c hc with e | e | e
    · exact hfn.nobs c e
    · subst e; decide
    · subst e; decide
  · intro r s
    rw [dpScan_append, hfn.closedAll]
    simp only [dpScan, hopen, hclose]
  · rw [noTopComma_append, hfn.noTop0, hfn.closedAll]
    simp [noTopComma, topComma]
  · intro r s hr hs hrs
    rw [noTopComma_append, hfn.deep r s hr hs hrs, hfn.closedAll]
    simp [noTopComma, topComma]
  · exact opOK_append _ _ hfn.ops (by simp [opOK, isOp]) hfn.lastOK
  · intro c hc
    rw [show fn ++ ['(', ')'] = (fn ++ ['(']) ++ [')'] from by simp, List.getLast?_concat] at hc
    simp at hc; subst hc; decide
  · intro c hc
    rcases hmem c hc with e | e | e
    · exact hfn.noQuote c e
    · subst e; decide
    · subst e; decide
  · intro r s hr hs
    rw [noTopBar_append, hfn.barAll r s hr hs, hfn.closedAll]
    simp [noTopBar, topBar]

/-- `fn()` is read as the complex term with the functor alone -/
theorem parseComplex_zero (po : POps) (f : Nat) {fn : Text} (hf : Word fn) (hsize : fn.length + 2 ≤ 1000) :
    parseComplex po f (fn ++ ['(', ')']) = .ok (.cplx (.cons (.atom (str fn)) .nil)) := by
  have hI := zero_inv hf
  have htok := word_token hf
  obtain ⟨a, t, hfn⟩ : ∃ a t, fn = a :: t := by
    cases hfn : fn with
    | nil => exact absurd hfn hf.1
    | cons a t => exact ⟨a, t, rfl⟩
  have ha := letter_facts (hf.2 a (by rw [hfn]; simp))
  unfold parseComplex parseComplexWith
  simp only [hI.trimmed]
  have hval : validateComplex (fn ++ ['(', ')']) = .ok () := by
    subst hfn
    unfold validateComplex
    have hl : ¬ ((a :: t ++ ['(', ')']).length > 1000) := by simp at hsize ⊢; omega
    have h1 : (a == '$') = false := by simpa using ha.2.2.2.2.1
    have h2 : (a == '(') = false := by simpa using ha.2.2.2.2.2.2.2.2.1
    simp only [h1, h2, List.cons_append, if_false, Bool.or_self, Bool.false_eq_true]
    rw [if_neg (by simpa using hl)]
  have hidx : indicesOfParentheses (fn ++ ['(', ')']) = .ok (some (fn.length, fn.length + 1)) := by
    have h0 := indices_struct_call (fn := fn) (s := []) htok.2 (by simp) rfl rfl
    rw [show fn ++ ['(', ')'] = fn ++ '(' :: [] ++ [')'] from by simp]
    simpa using h0
  simp only [hval, Res.bind_ok, hidx]
  have hs1 : slice (fn ++ ['(', ')']) 0 fn.length = .ok fn := by
    unfold slice
    have : (0 ≤ fn.length ∧ fn.length ≤ (fn ++ ['(', ')']).length) := by simp
    simp only [this, and_self, if_true, List.drop_zero]
    rw [List.take_left' rfl]
  have hs2 : slice (fn ++ ['(', ')']) (fn.length + 1) (fn.length + 1) = .ok [] := by
    unfold slice
    have : (fn.length + 1 ≤ fn.length + 1 ∧ fn.length + 1 ≤ (fn ++ ['(', ')']).length) := by simp
    simp only [this, and_self, if_true]
    simp
  simp only [hs1, hs2, Res.bind_ok]
  unfold parseFunctorTerms
  simp [htok.trim]

theorem parseTerm_zero (po : POps) (g : Nat) {fn : Text} (hf : Word fn) (hsize : fn.length + 2 ≤ 1000)
    (hfun : funPrefix (fn ++ ['(', ')']) = false) :
    parseTerm po (g + 3) (fn ++ ['(', ')']) = .ok (.cplx (.cons (.atom (str fn)) .nil)) := by
  have hI := zero_inv hf
  have hcomplex := parseComplex_zero po (g + 1) hf hsize
  generalize hT : fn ++ ['(', ')'] = T at *
  rw [show g + 3 = (g + 2) + 1 from rfl, parseTerm_structured po (g + 2) T hI.trimmed hI.nobs (noInfix_of_opOK T hI.ops), qCount_noquote T _ hI.noQuote]
  simp only [checkQuotes_zero, Res.bind_ok]
  obtain ⟨a, t, hfn⟩ : ∃ a t, fn = a :: t := by
    cases hfn : fn with
    | nil => exact absurd hfn hf.1
    | cons a t => exact ⟨a, t, rfl⟩
  have ha := letter_facts (hf.2 a (by rw [hfn]; simp))
  have hTs : T = a :: (t ++ ['(', ')']) := by rw [← hT, hfn]; simp
  have hlast : T.getLast? = some ')' := by
    rw [← hT, show fn ++ ['(', ')'] = (fn ++ ['(']) ++ [')'] from by simp, List.getLast?_concat]
  have hlen2 : T.length ≥ 2 := by rw [hTs]; simp
  unfold makeTerm
  simp only [hI.trimmed]
  rw [hTs] at hlast hlen2 hfun hcomplex ⊢
  have e0 : (a == '$') = false := by simpa using ha.2.2.2.2.1
  have e1 : (a == '"') = false := by simpa using ha.2.2.2.2.2.1
  have e2 : (a == '[') = false := by simpa using ha.2.2.2.2.2.2.1
  have e3 : (a != '(') = true := by simpa using ha.2.2.2.2.2.2.2.2.1
  simp only [e0, Bool.false_eq_true, if_false, hlen2, if_true, hlast, e1, e2, Bool.false_and, e3,
    show ((')' : Char) == ')') = true from by decide, Bool.and_self]
  unfold funPrefix at hfun
  simp only [hfun, Bool.false_eq_true, if_false]
  exact hcomplex

/-- `Canon d T t`: T is the canonical text of the term t, nested at most d deep -/
inductive Canon : Nat → Text → Term → Prop where
  | int (d : Nat) (i : Int) (hlo : -(2:Int)^63 ≤ i) (hhi : i < (2:Int)^63) : Canon d (toString i).toList (.int i)
  | word (d : Nat) (s : Text) (h : Word s) : Canon d s (.atom (str s))
  | var (d : Nat) (s : Text) (h : Word s) : Canon d ('$' :: s) (.var 0 (str ('$' :: s)))
  | cplx (d : Nat) (fn : Text) (as : List Text) (ts : List Term) (hf : Word fn) (hne : as ≠ [])
      (hlen : as.length = ts.length)
      (hargs : ∀ (i : Nat) (h1 : i < as.length) (h2 : i < ts.length), Canon d as[i] ts[i])
      (hfun : funPrefix (fn ++ '(' :: joinArgs as ++ [')']) = false)
      (hsize : fn.length + (joinArgs as).length + 2 ≤ 1000) :
      Canon (d + 1) (fn ++ '(' :: joinArgs as ++ [')']) (.cplx (.cons (.atom (str fn)) (TermList.ofList ts)))
  | elist (d : Nat) : Canon d ['[', ']'] Term.empty
  | zero (d : Nat) (fn : Text) (hf : Word fn) (hsize : fn.length + 2 ≤ 1000) (hfun : funPrefix (fn ++ ['(', ')']) = false) :
      Canon d (fn ++ ['(', ')']) (.cplx (.cons (.atom (str fn)) .nil))
  | phrase (d : Nat) (s : Text) (h : Phrase s) : Canon d s (.atom (str s))
  | anon (d : Nat) : Canon d ['$', '_'] .anon
  | list (d : Nat) (as : List Text) (ts : List Term) (hne : as ≠ []) (hlen : as.length = ts.length)
      (hargs : ∀ (i : Nat) (h1 : i < as.length) (h2 : i < ts.length), Canon d as[i] ts[i]) :
      Canon (d + 1) ('[' :: joinArgs as ++ [']']) (listOf ts)
  | tlist (d : Nat) (as : List Text) (ts : List Term) (name : Text) (hne : as ≠ []) (hlen : as.length = ts.length)
      (hargs : ∀ (i : Nat) (h1 : i < as.length) (h2 : i < ts.length), Canon d as[i] ts[i]) (hn : Word name) :
      Canon (d + 1) ('[' :: tailInner as name ++ [']']) (tailListOf (.var 0 (str ('$' :: name))) ts)

theorem elist_inv : TextInv ['[', ']'] := by
  refine ⟨by decide, by simp, by decide, ?_, by decide, ?_, by decide, by decide, by decide, ?_⟩
  · intro r s; simp [dpScan, dpStep]
  · intro r s _ _ _; simp [noTopComma, topComma]
  · intro r s _ _; simp [noTopBar, topBar]

theorem canon_inv {d : Nat} {T : Text} {t : Term} (h : Canon d T t) : TextInv T := by
  induction h with
  | int d i _ _ => exact int_inv i
  | word d s h => exact word_inv h
  | var d s h => exact var_inv h
  | cplx d fn as ts hf hne hlen _ _ _ ih =>
    apply cplx_inv hf as hne
    intro a ha
    obtain ⟨i, hi, e⟩ := List.mem_iff_getElem.mp ha
    rw [← e]
    exact ih i hi (by omega)
  | elist d => exact elist_inv
  | zero d fn hf _ _ => exact zero_inv hf
  | phrase d s h => exact phrase_inv h
  | anon d => exact anon_inv
  | list d as ts hne hlen _ ih =>
    apply list_inv as hne
    intro a ha
    obtain ⟨i, hi, e⟩ := List.mem_iff_getElem.mp ha
    rw [← e]
    exact ih i hi (by omega)
  | tlist d as ts name hne hlen _ hn ih =>
    apply tlist_inv as hne _ hn
    intro a ha
    obtain ⟨i, hi, e⟩ := List.mem_iff_getElem.mp ha
    rw [← e]
    exact ih i hi (by omega)

theorem canon_not_nil {d : Nat} {T : Text} {t : Term} (h : Canon d T t) : t.isNil = false := by
  cases h with
  | int => rfl
  | word => rfl
  | var => rfl
  | cplx => rfl
  | elist => rfl
  | zero => rfl
  | phrase => rfl
  | anon => rfl
  | list d as ts hne hlen hargs =>
    cases ts with
    | nil => rfl
    | cons a rest => rfl
  | tlist d as ts name hne hlen hargs hn =>
    cases ts with
    | nil => rfl
    | cons a rest => rfl

theorem parseTerm_elist (po : POps) (f : Nat) : parseTerm po (f + 3) ['[', ']'] = .ok Term.empty := by
  rw [show f + 3 = (f + 2) + 1 from rfl, parseTerm_structured po (f + 2) _ elist_inv.trimmed elist_inv.nobs (noInfix_of_opOK _ elist_inv.ops),
    qCount_noquote _ _ elist_inv.noQuote]
  simp only [checkQuotes_zero, Res.bind_ok]
  unfold makeTerm
  simp only [elist_inv.trimmed]
  simp only [show (('[' : Char) == '$') = false from by decide, Bool.false_eq_true, if_false, List.length_cons, List.length_nil,
    show (0 + 1 + 1 ≥ 2) = True from by simp, if_true, show (['[', ']'] : Text).getLast? = some ']' from rfl,
    show (('[' : Char) == '"') = false from by decide, show (('[' : Char) == '[') = true from by decide,
    show ((']' : Char) == ']') = true from by decide, Bool.and_self]
  simp only [parseLinkedList, parseLinkedListWith, elist_inv.trimmed]
  rfl

theorem parseAll_ok (pt : Text → Res Term) : ∀ (as : List Text) (ts : List Term), as.length = ts.length →
    (∀ (i : Nat) (h1 : i < as.length) (h2 : i < ts.length), pt as[i] = .ok ts[i]) → parseAll pt as = .ok ts
  | [], [], _, _ => rfl
  | [], _ :: _, h, _ => by simp at h
  | _ :: _, [], h, _ => by simp at h
  | a :: as, t :: ts, hl, h => by
    have h0 := h 0 (by simp) (by simp)
    simp only [List.getElem_cons_zero] at h0
    have ih := parseAll_ok pt as ts (by simpa using hl) (fun i h1 h2 => by
      have := h (i + 1) (by simp; omega) (by simp; omega)
      simpa using this)
    simp only [parseAll, h0, Res.bind_ok, ih]

/-- a complex term over texts that carry the invariant: `parse_term` reads the functor and parses each argument with
    `parse_term` -/
theorem parseTerm_cplx (po : POps) (g : Nat) {fn : Text} (hf : Word fn) (as : List Text) (hne : as ≠ [])
    (hinv : ∀ a ∈ as, TextInv a) (hfun : funPrefix (fn ++ '(' :: joinArgs as ++ [')']) = false)
    (hsize : fn.length + (joinArgs as).length + 2 ≤ 1000) :
    parseTerm po (g + 4) (fn ++ '(' :: joinArgs as ++ [')']) =
      (parseAll (parseTerm po (g + 2)) as).bind fun ts => .ok (.cplx (.cons (.atom (str fn)) (TermList.ofList ts))) := by
  have hI := cplx_inv hf as hne hinv
  have hcomplex := parseComplex_multi po g (word_token hf) as
    (by cases hfn : fn with
        | nil => exact absurd hfn hf.1
        | cons a t => intro e; simp at e; subst e; exact absurd rfl (letter_facts (hf.2 _ (by rw [hfn]; simp))).2.2.2.2.1)
    hne (fun a ha => (hinv a ha).argOK) hsize
  generalize hT : fn ++ '(' :: joinArgs as ++ [')'] = T at *
  rw [show g + 4 = (g + 3) + 1 from rfl, parseTerm_structured po (g + 3) T hI.trimmed hI.nobs (noInfix_of_opOK T hI.ops), qCount_noquote T _ hI.noQuote]
  simp only [checkQuotes_zero, Res.bind_ok]
  -- make_term: not a variable, not quoted, not a list; it ends with `)` and is not a function term
  obtain ⟨a, t, hfn⟩ : ∃ a t, fn = a :: t := by
    cases hfn : fn with
    | nil => exact absurd hfn hf.1
    | cons a t => exact ⟨a, t, rfl⟩
  have ha := letter_facts (hf.2 a (by rw [hfn]; simp))
  have hTs : T = a :: (t ++ '(' :: joinArgs as ++ [')']) := by rw [← hT, hfn]; simp
  have hlast : T.getLast? = some ')' := by
    rw [← hT, show fn ++ '(' :: joinArgs as ++ [')'] = (fn ++ '(' :: joinArgs as) ++ [')'] from by simp, List.getLast?_concat]
  have hlen2 : T.length ≥ 2 := by rw [hTs]; simp; omega
  unfold makeTerm
  simp only [hI.trimmed]
  rw [hTs] at hlast hlen2 hfun hcomplex ⊢
  have e0 : (a == '$') = false := by simpa using ha.2.2.2.2.1
  have e1 : (a == '"') = false := by simpa using ha.2.2.2.2.2.1
  have e2 : (a == '[') = false := by simpa using ha.2.2.2.2.2.2.1
  have e3 : (a != '(') = true := by simpa using ha.2.2.2.2.2.2.2.2.1
  simp only [e0, Bool.false_eq_true, if_false, hlen2, ge_iff_le, if_true, hlast, e1, e2, Bool.false_and, e3,
    show ((')' : Char) == ')') = true from by decide, Bool.and_self]
  unfold funPrefix at hfun
  simp only [hfun, Bool.false_eq_true, if_false]
  exact hcomplex

/-- PARSING: the canonical text of a term parses to the term -/
theorem parse_canon (po : POps) (hα : ∀ c, isLetter c = true → po.isAlpha c = true) {d : Nat} {T : Text} {t : Term}
    (h : Canon d T t) : ∀ f, parseTerm po (3 * d + 3 + f) T = .ok t := by
  induction h with
  | int d i hlo hhi => intro f; rw [show 3 * d + 3 + f = (3 * d + 1 + f) + 2 from by omega]; exact parseTerm_int po _ i hlo hhi
  | word d s h => intro f; rw [show 3 * d + 3 + f = (3 * d + 1 + f) + 2 from by omega]; exact parseTerm_word po _ h
  | var d s h => intro f; rw [show 3 * d + 3 + f = (3 * d + 1 + f) + 2 from by omega]; exact parseTerm_var po hα _ h
  | cplx d fn as ts hf hne hlen hargs hfun hsize ih =>
    intro f
    have hinv : ∀ a ∈ as, TextInv a := by
      intro a ha
      obtain ⟨i, hi, e⟩ := List.mem_iff_getElem.mp ha
      rw [← e]
      exact canon_inv (hargs i hi (by omega))
    rw [show 3 * (d + 1) + 3 + f = (3 * d + 2 + f) + 4 from by omega, parseTerm_cplx po (3 * d + 2 + f) hf as hne hinv hfun hsize]
    have hall := parseAll_ok (parseTerm po (3 * d + 2 + f + 2)) as ts hlen (fun i h1 h2 => by
      have := ih i h1 h2 (f + 1)
      rw [show 3 * d + 3 + (f + 1) = 3 * d + 2 + f + 2 from by omega] at this
      exact this)
    rw [hall]
    rfl
  | elist d => intro f; rw [show 3 * d + 3 + f = (3 * d + f) + 3 from by omega]; exact parseTerm_elist po _
  | zero d fn hf hsize hfun => intro f; rw [show 3 * d + 3 + f = (3 * d + f) + 3 from by omega]; exact parseTerm_zero po _ hf hsize hfun
  | phrase d s h => intro f; rw [show 3 * d + 3 + f = (3 * d + 1 + f) + 2 from by omega]; exact parseTerm_phrase po _ h
  | anon d => intro f; rw [show 3 * d + 3 + f = (3 * d + 1 + f) + 2 from by omega]; exact parseTerm_anon po _
  | list d as ts hne hlen hargs ih =>
    intro f
    have hinv : ∀ a ∈ as, TextInv a := by
      intro a ha
      obtain ⟨i, hi, e⟩ := List.mem_iff_getElem.mp ha
      rw [← e]
      exact canon_inv (hargs i hi (by omega))
    rw [show 3 * (d + 1) + 3 + f = (3 * d + 2 + f) + 4 from by omega, parseTerm_list po (3 * d + 2 + f) as hne hinv]
    have hall := parseR_ok (parseTerm po (3 * d + 2 + f + 1)) as.reverse ts.reverse [] (by simpa using hlen) (fun i h1 h2 => by
      simp only [List.length_reverse] at h1 h2
      have := ih (as.length - 1 - i) (by omega) (by omega) f
      rw [show 3 * d + 3 + f = 3 * d + 2 + f + 1 from by omega] at this
      simp only [List.getElem_reverse]
      rw [this]
      congr 2
      omega)
    rw [show Term.empty = listOf [] from rfl, hall]
    simp
  | tlist d as ts name hne hlen hargs hn ih =>
    intro f
    have hinv : ∀ a ∈ as, TextInv a := by
      intro a ha
      obtain ⟨i, hi, e⟩ := List.mem_iff_getElem.mp ha
      rw [← e]
      exact canon_inv (hargs i hi (by omega))
    rw [show 3 * (d + 1) + 3 + f = (3 * d + 2 + f) + 4 from by omega, parseTerm_tlist po hα (3 * d + 2 + f) as hne hinv hn]
    have hall := parseR_okT (parseTerm po (3 * d + 2 + f + 1)) (.var 0 (str ('$' :: name))) as.reverse ts.reverse []
      (by simpa using hlen) (fun i h1 h2 => by
      simp only [List.length_reverse] at h1 h2
      have := ih (as.length - 1 - i) (by omega) (by omega) f
      rw [show 3 * d + 3 + f = 3 * d + 2 + f + 1 from by omega] at this
      simp only [List.getElem_reverse]
      rw [this]
      congr 2
      omega)
    rw [hall]
    simp

/-! ### the printer -/

/-- the arguments after the first, each with its `, ` -/
def tailText : List Text → Text
  | [] => []
  | a :: rest => ',' :: ' ' :: a ++ tailText rest

theorem joinArgs_tail : ∀ (a : Text) (rest : List Text), joinArgs (a :: rest) = a ++ tailText rest
  | a, [] => by simp [joinArgs, tailText]
  | a, b :: rest => by simp only [joinArgs, tailText, joinArgs_tail b rest]; simp

theorem showArgs_tail (sf : UInt64 → String) : ∀ (as : List Text) (ts : List Term), as.length = ts.length →
    (∀ (i : Nat) (h1 : i < as.length) (h2 : i < ts.length), (Term.show sf ts[i]).toList = as[i]) →
    (TermList.showArgs sf (TermList.ofList ts) false).toList = tailText as
  | [], [], _, _ => by simp [TermList.ofList, TermList.showArgs, tailText]
  | [], _ :: _, h, _ => by simp at h
  | _ :: _, [], h, _ => by simp at h
  | a :: as, t :: ts, hl, h => by
    have h0 := h 0 (by simp) (by simp)
    simp only [List.getElem_cons_zero] at h0
    have ih := showArgs_tail sf as ts (by simpa using hl) (fun i h1 h2 => by
      have := h (i + 1) (by simp; omega) (by simp; omega)
      simpa using this)
    simp only [TermList.ofList, TermList.showArgs, Bool.false_eq_true, if_false, String.toList_append, h0, ih, tailText]
    rfl

theorem showNode_tail (sf : UInt64 → String) : ∀ (as : List Text) (ts : List Term), as.length = ts.length →
    (∀ (i : Nat) (h1 : i < as.length) (h2 : i < ts.length), (Term.show sf ts[i]).toList = as[i]) →
    (∀ (i : Nat) (h1 : i < as.length) (h2 : i < ts.length), ts[i].isNil = false) →
    (Term.showNode sf (listOf ts) false).toList = tailText as
  | [], [], _, _, _ => by simp [listOf, Term.empty, Term.showNode, Term.isNil, tailText]
  | [], _ :: _, h, _, _ => by simp at h
  | _ :: _, [], h, _, _ => by simp at h
  | a :: as, t :: ts, hl, h, hn => by
    have h0 := h 0 (by simp) (by simp)
    have hn0 := hn 0 (by simp) (by simp)
    simp only [List.getElem_cons_zero] at h0 hn0
    have ih := showNode_tail sf as ts (by simpa using hl) (fun i h1 h2 => by
      have := h (i + 1) (by simp; omega) (by simp; omega)
      simpa using this) (fun i h1 h2 => by
      have := hn (i + 1) (by simp; omega) (by simp; omega)
      simpa using this)
    simp only [listOf, Term.showNode, hn0, Bool.false_eq_true, if_false, String.toList_append, h0, ih, tailText]
    rfl

theorem showNode_tailT (sf : UInt64 → String) (v : Term) (hv : v.isNil = false) : ∀ (as : List Text) (ts : List Term), as.length = ts.length →
    (∀ (i : Nat) (h1 : i < as.length) (h2 : i < ts.length), (Term.show sf ts[i]).toList = as[i]) →
    (∀ (i : Nat) (h1 : i < as.length) (h2 : i < ts.length), ts[i].isNil = false) →
    (Term.showNode sf (tailListOf v ts) false).toList = tailText as ++ ' ' :: '|' :: ' ' :: (Term.show sf v).toList
  | [], [], _, _, _ => by
    simp only [tailListOf, Term.showNode, hv, Bool.false_eq_true, if_false, if_true, Term.empty, show Term.nil.isNil = true from rfl, tailText, String.toList_append]
    simp
  | [], _ :: _, h, _, _ => by simp at h
  | _ :: _, [], h, _, _ => by simp at h
  | a :: as, t :: ts, hl, h, hn => by
    have h0 := h 0 (by simp) (by simp)
    have hn0 := hn 0 (by simp) (by simp)
    simp only [List.getElem_cons_zero] at h0 hn0
    have ih := showNode_tailT sf v hv as ts (by simpa using hl) (fun i h1 h2 => by
      have := h (i + 1) (by simp; omega) (by simp; omega)
      simpa using this) (fun i h1 h2 => by
      have := hn (i + 1) (by simp; omega) (by simp; omega)
      simpa using this)
    simp only [tailListOf, Term.showNode, hn0, Bool.false_eq_true, if_false, String.toList_append, h0, ih, tailText]
    simp

/-- PRINTING: the term of a canonical text is printed as that text -/
theorem show_canon (sf : UInt64 → String) {d : Nat} {T : Text} {t : Term} (h : Canon d T t) : (Term.show sf t).toList = T := by
  induction h with
  | int d i _ _ => simp [Term.show]
  | word d s _ => simp [Term.show, str]
  | var d s _ => simp [Term.show, str]
  | cplx d fn as ts hf hne hlen hargs hfun hsize ih =>
    obtain ⟨a, rest, has⟩ : ∃ a rest, as = a :: rest := by
      cases as with
      | nil => exact absurd rfl hne
      | cons a rest => exact ⟨a, rest, rfl⟩
    obtain ⟨t0, trest, hts⟩ : ∃ t0 trest, ts = t0 :: trest := by
      cases ts with
      | nil => rw [has] at hlen; simp at hlen
      | cons t0 trest => exact ⟨t0, trest, rfl⟩
    subst has; subst hts
    have h0 := ih 0 (by simp) (by simp)
    simp only [List.getElem_cons_zero] at h0
    have htail := showArgs_tail sf rest trest (by simpa using hlen) (fun i h1 h2 => by
      have := ih (i + 1) (by simp; omega) (by simp; omega)
      simpa using this)
    simp only [Term.show, TermList.showCplx, TermList.ofList, TermList.showArgs, if_true, String.toList_append, str,
      String.toList_ofList, h0, htail, joinArgs_tail]
    simp
  | elist d => simp [Term.empty, Term.show, Term.isNil]
  | zero d fn _ _ _ => simp [Term.show, TermList.showCplx, TermList.showArgs, str]
  | phrase d s _ => simp [Term.show, str]
  | anon d => simp [Term.show]
  | list d as ts hne hlen hargs ih =>
    obtain ⟨a, rest, has⟩ : ∃ a rest, as = a :: rest := by
      cases as with
      | nil => exact absurd rfl hne
      | cons a rest => exact ⟨a, rest, rfl⟩
    obtain ⟨t0, trest, hts⟩ : ∃ t0 trest, ts = t0 :: trest := by
      cases ts with
      | nil => rw [has] at hlen; simp at hlen
      | cons t0 trest => exact ⟨t0, trest, rfl⟩
    subst has; subst hts
    have h0 := ih 0 (by simp) (by simp)
    simp only [List.getElem_cons_zero] at h0
    have hn0 := canon_not_nil (hargs 0 (by simp) (by simp))
    simp only [List.getElem_cons_zero] at hn0
    have htail := showNode_tail sf rest trest (by simpa using hlen) (fun i h1 h2 => by
      have := ih (i + 1) (by simp; omega) (by simp; omega)
      simpa using this) (fun i h1 h2 => by
      have := canon_not_nil (hargs (i + 1) (by simp; omega) (by simp; omega))
      simpa using this)
    simp only [listOf, Term.show, hn0, Bool.false_eq_true, if_false, String.toList_append, h0, htail, joinArgs_tail]
    simp
  | tlist d as ts name hne hlen hargs hn ih =>
    obtain ⟨a, rest, has⟩ : ∃ a rest, as = a :: rest := by
      cases as with
      | nil => exact absurd rfl hne
      | cons a rest => exact ⟨a, rest, rfl⟩
    obtain ⟨t0, trest, hts⟩ : ∃ t0 trest, ts = t0 :: trest := by
      cases ts with
      | nil => rw [has] at hlen; simp at hlen
      | cons t0 trest => exact ⟨t0, trest, rfl⟩
    subst has; subst hts
    have h0 := ih 0 (by simp) (by simp)
    simp only [List.getElem_cons_zero] at h0
    have hn0 := canon_not_nil (hargs 0 (by simp) (by simp))
    simp only [List.getElem_cons_zero] at hn0
    have htail := showNode_tailT sf (.var 0 (str ('$' :: name))) rfl rest trest (by simpa using hlen) (fun i h1 h2 => by
      have := ih (i + 1) (by simp; omega) (by simp; omega)
      simpa using this) (fun i h1 h2 => by
      have := canon_not_nil (hargs (i + 1) (by simp; omega) (by simp; omega))
      simpa using this)
    simp only [tailListOf, Term.show, hn0, Bool.false_eq_true, if_false, String.toList_append, h0, htail, tailInner, joinArgs_tail]
    simp [str]

end Suiron.Parse
