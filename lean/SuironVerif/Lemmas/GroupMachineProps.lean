/-
  The reference machine with cut and groups (`Spec/GroupMachine.lean`): determinism, knowledge bases of the fragment,
  well-formed barriers, and what a cut does — the statements of `Lemmas/CutMachineDet.lean` and
  `Lemmas/CutMachineProps.lean` for the machine with nested conjunctions and disjunctions.
-/
import SuironVerif.Spec.GroupMachine
import SuironVerif.Lemmas.FuelMono
import SuironVerif.Lemmas.EngineRefineGroup
namespace Suiron.Spec.Grp
open Suiron Suiron.Spec

/-- nothing left to do: the stack is empty, or an answer is on top -/
def CFinal (c : CConf) : Prop := c.stack = [] ∨ ∃ σ S, c.stack = .goals [] σ :: S

theorem CStep.not_final {fo : FloatOps} {kb : KB} {a b : CConf} (h : CStep fo kb a b) : ¬ CFinal a := by
  intro hf
  cases h <;> rcases hf with hf | ⟨_, _, hf⟩ <;> cases hf

theorem no_step_from_empty {fo : FloatOps} {kb : KB} {c : Nat} {o : List String} {b : CConf} (h : CStep fo kb ⟨[], c, o⟩ b) : False := by
  cases h

theorem CStep.det {fo : FloatOps} {kb : KB} {a b : CConf} (h : CStep fo kb a b) : ∀ {b'}, CStep fo kb a b' → b = b' := by
  induction h with
  | call hk => intro b' h'; cases h' with | call hk' => rw [hk] at hk'; cases hk'; rfl
  | @bipOk name args bb k σ σ' S c o f txt hn hr =>
    intro b' h'
    cases h' with
    | @bipOk _ _ _ _ _ σ'' _ _ _ f' txt' _ hr' =>
      have := runBip_unique fo name (optList args) σ f f' (by rw [hr]; simp) (by rw [hr']; simp)
      rw [hr, hr'] at this; cases this; rfl
    | @bipFail _ _ _ _ _ _ _ _ f' txt' _ hr' =>
      have := runBip_unique fo name (optList args) σ f f' (by rw [hr]; simp) (by rw [hr']; simp)
      rw [hr, hr'] at this; cases this
    | cut => exact absurd rfl hn
  | @bipFail name args bb k σ S c o f txt hn hr =>
    intro b' h'
    cases h' with
    | @bipOk _ _ _ _ _ σ'' _ _ _ f' txt' _ hr' =>
      have := runBip_unique fo name (optList args) σ f f' (by rw [hr]; simp) (by rw [hr']; simp)
      rw [hr, hr'] at this; cases this
    | @bipFail _ _ _ _ _ _ _ _ f' txt' _ hr' =>
      have := runBip_unique fo name (optList args) σ f f' (by rw [hr]; simp) (by rw [hr']; simp)
      rw [hr, hr'] at this; cases this; rfl
    | cut => exact absurd rfl hn
  | cut =>
    intro b' h'
    cases h' with
    | bipOk hn _ => exact absurd rfl hn
    | bipFail hn _ => exact absurd rfl hn
    | cut => rfl
  | @clauseOk t σ σ' idx n k S c o key rule c' f hk hg hu =>
    intro b' h'
    cases h' with
    | @clauseOk _ _ σ'' _ _ _ _ _ _ key' rule' c'' f' hk' hg' hu' =>
      rw [hk] at hk'; cases hk'
      rw [hg] at hg'; cases hg'
      have := unify_unique fo rule.head t σ f f' (by rw [hu]; simp) (by rw [hu']; simp)
      rw [hu, hu'] at this; cases this; rfl
    | @clauseFail _ _ _ _ _ _ _ _ key' rule' c'' f' hk' hg' hu' =>
      rw [hk] at hk'; cases hk'
      rw [hg] at hg'; cases hg'
      have := unify_unique fo rule.head t σ f f' (by rw [hu]; simp) (by rw [hu']; simp)
      rw [hu, hu'] at this; cases this
  | @clauseFail t σ idx n k S c o key rule c' f hk hg hu =>
    intro b' h'
    cases h' with
    | @clauseOk _ _ σ'' _ _ _ _ _ _ key' rule' c'' f' hk' hg' hu' =>
      rw [hk] at hk'; cases hk'
      rw [hg] at hg'; cases hg'
      have := unify_unique fo rule.head t σ f f' (by rw [hu]; simp) (by rw [hu']; simp)
      rw [hu, hu'] at this; cases this
    | @clauseFail _ _ _ _ _ _ _ _ key' rule' c'' f' hk' hg' hu' => rfl
  | conj => intro b' h'; cases h'; rfl
  | disj => intro b' h'; cases h'; rfl
  | altStep => intro b' h'; cases h'; rfl
  | endGroup => intro b' h'; cases h'; rfl
  | commitGroup => intro b' h'; cases h'; rfl
  | endBody => intro b' h'; cases h'; rfl
  | commitBody => intro b' h'; cases h'; rfl
  | notEnter => intro b' h'; cases h'; rfl
  | notIn hs ih =>
    intro b' h'
    cases h' with
    | notIn hs' => have := ih hs'; cases this; rfl
    | notOk => exact (no_step_from_empty hs).elim
    | notFail => exact absurd (Or.inr ⟨_, _, rfl⟩) hs.not_final
  | notOk =>
    intro b' h'
    cases h' with
    | notIn hs' => exact (no_step_from_empty hs').elim
    | notOk => rfl
  | notFail =>
    intro b' h'
    cases h' with
    | notIn hs' => exact absurd (Or.inr ⟨_, _, rfl⟩) hs'.not_final
    | notFail => rfl
  | timeEnter => intro b' h'; cases h'; rfl
  | timeIn hs ih =>
    intro b' h'
    cases h' with
    | timeIn hs' => have := ih hs'; cases this; rfl
    | timeNone => exact (no_step_from_empty hs).elim
    | timeSome => exact absurd (Or.inr ⟨_, _, rfl⟩) hs.not_final
  | timeNone =>
    intro b' h'
    cases h' with
    | timeIn hs' => exact (no_step_from_empty hs').elim
    | timeNone => rfl
  | timeSome =>
    intro b' h'
    cases h' with
    | timeIn hs' => exact absurd (Or.inr ⟨_, _, rfl⟩) hs'.not_final
    | timeSome => rfl

/-- two silent runs from one configuration that both end where nothing is left to do end in the same place -/
theorem CSteps.det {fo : FloatOps} {kb : KB} {a b : CConf} (h : CSteps fo kb a b) :
    ∀ {b'}, CSteps fo kb a b' → CFinal b → CFinal b' → b = b' := by
  induction h with
  | refl =>
    intro b' h' hf _
    cases h' with
    | refl => rfl
    | step hs _ => exact absurd hf hs.not_final
  | step hs _ ih =>
    intro b' h' hf hf'
    cases h' with
    | refl => exact absurd hf' hs.not_final
    | step hs' ht' => have := hs.det hs'; subst this; exact ih ht' hf hf'

/-- the run of the machine with cut is unique: any two observation sequences agree position by position -/
theorem CRun.det {fo : FloatOps} {kb : KB} {c : CConf} {tr : List (Option Subst × List String)} (h : CRun fo kb c tr) :
    ∀ {tr' : List (Option Subst × List String)}, CRun fo kb c tr' → ∀ (i : Nat) x y, tr[i]? = some x → tr'[i]? = some y → x = y := by
  induction h with
  | nil => intro tr' _ i x y hx; simp at hx
  | @ans c σ S ctr out rest h1 _ ih =>
    intro tr' h' i x y hx hy
    cases h' with
    | nil => simp at hy
    | @ans _ σ' S' ctr' out' rest' h1' t' =>
      have := h1.det h1' (Or.inr ⟨_, _, rfl⟩) (Or.inr ⟨_, _, rfl⟩)
      cases this
      cases i with
      | zero => simp at hx hy; rw [← hx, ← hy]
      | succ i => simp at hx hy; exact ih t' i x y hx hy
    | @fin _ ctr' out' rest' h1' t' =>
      have := h1.det h1' (Or.inr ⟨_, _, rfl⟩) (Or.inl rfl)
      cases this
  | @fin c ctr out rest h1 _ ih =>
    intro tr' h' i x y hx hy
    cases h' with
    | nil => simp at hy
    | @ans _ σ' S' ctr' out' rest' h1' t' =>
      have := h1.det h1' (Or.inl rfl) (Or.inr ⟨_, _, rfl⟩)
      cases this
    | @fin _ ctr' out' rest' h1' t' =>
      have := h1.det h1' (Or.inl rfl) (Or.inl rfl)
      cases this
      cases i with
      | zero => simp at hx hy; rw [← hx, ← hy]
      | succ i => simp at hx hy; exact ih t' i x y hx hy

/-! ### knowledge bases of the fragment -/

mutual
theorem renameGoal_nc : (g : Goal) → (st : RenSt) → (r : Goal × RenSt) → renameGoal g st = .ok r → ncG g = true → ncG r.1 = true
  | .call (.cplx args), st, r, h, _ => by simp only [renameGoal] at h; cases h; rfl
  | .call .nil, _, r, h, _ => by simp [renameGoal] at h
  | .call .anon, _, r, h, _ => by simp [renameGoal] at h
  | .call (.atom _), _, r, h, _ => by simp [renameGoal] at h
  | .call (.flt _), _, r, h, _ => by simp [renameGoal] at h
  | .call (.int _), _, r, h, _ => by simp [renameGoal] at h
  | .call (.var _ _), _, r, h, _ => by simp [renameGoal] at h
  | .call (.cons _ _ _ _), _, r, h, _ => by simp [renameGoal] at h
  | .call (.func _ _), _, r, h, _ => by simp [renameGoal] at h
  | .bip name (some args), st, r, h, hp => by simp only [renameGoal] at h; cases h; simpa [ncG] using hp
  | .bip name none, st, r, h, hp => by simp only [renameGoal] at h; cases h; simpa [ncG] using hp
  | .and gs, st, r, h, hp => by
    simp only [renameGoal] at h
    obtain ⟨x, hx, h⟩ := Res.bind_eq_ok.mp h
    cases h
    simp only [ncG] at hp ⊢
    exact renameGoals_nc gs st x hx hp
  | .or gs, st, r, h, hp => by
    simp only [renameGoal] at h
    obtain ⟨x, hx, h⟩ := Res.bind_eq_ok.mp h
    cases h
    simp only [ncG] at hp ⊢
    exact renameGoals_nc gs st x hx hp
  | .time gs, st, r, h, hp => by
    simp only [renameGoal] at h
    obtain ⟨x, hx, h⟩ := Res.bind_eq_ok.mp h
    cases h
    simp only [ncG] at hp ⊢
    exact renameGoals_nc gs st x hx hp
  | .not gs, st, r, h, hp => by
    simp only [renameGoal] at h
    obtain ⟨x, hx, h⟩ := Res.bind_eq_ok.mp h
    cases h
    simp only [ncG] at hp ⊢
    exact renameGoals_nc gs st x hx hp
  | .nil, _, r, h, _ => by simp [renameGoal] at h
theorem renameGoals_nc : (gs : GoalList) → (st : RenSt) → (r : GoalList × RenSt) → renameGoals gs st = .ok r →
    ncGL gs = true → ncGL r.1 = true
  | .nil, st, r, h, _ => by simp only [renameGoals] at h; cases h; rfl
  | .cons g gs, st, r, h, hp => by
    simp only [renameGoals] at h
    obtain ⟨x1, hx1, h⟩ := Res.bind_eq_ok.mp h
    obtain ⟨x2, hx2, h⟩ := Res.bind_eq_ok.mp h
    cases h
    simp only [ncGL, Bool.and_eq_true] at hp ⊢
    exact ⟨renameGoal_nc g st x1 hx1 hp.1, renameGoals_nc gs x1.2 x2 hx2 hp.2⟩
end

mutual
theorem renameGoal_ok : (g : Goal) → (st : RenSt) → (r : Goal × RenSt) → renameGoal g st = .ok r → okG g = true → okG r.1 = true
  | .call (.cplx args), st, r, h, _ => by simp only [renameGoal] at h; cases h; rfl
  | .call .nil, _, r, h, _ => by simp [renameGoal] at h
  | .call .anon, _, r, h, _ => by simp [renameGoal] at h
  | .call (.atom _), _, r, h, _ => by simp [renameGoal] at h
  | .call (.flt _), _, r, h, _ => by simp [renameGoal] at h
  | .call (.int _), _, r, h, _ => by simp [renameGoal] at h
  | .call (.var _ _), _, r, h, _ => by simp [renameGoal] at h
  | .call (.cons _ _ _ _), _, r, h, _ => by simp [renameGoal] at h
  | .call (.func _ _), _, r, h, _ => by simp [renameGoal] at h
  | .bip name (some args), st, r, h, _ => by simp only [renameGoal] at h; cases h; rfl
  | .bip name none, st, r, h, _ => by simp only [renameGoal] at h; cases h; rfl
  | .and gs, st, r, h, hp => by
    simp only [renameGoal] at h
    obtain ⟨x, hx, h⟩ := Res.bind_eq_ok.mp h
    cases h
    simp only [okG, Bool.and_eq_true] at hp ⊢
    have := renameGoals_ok gs st x hx hp.2
    exact ⟨by rw [this.2]; exact hp.1, this.1⟩
  | .or gs, st, r, h, hp => by
    simp only [renameGoal] at h
    obtain ⟨x, hx, h⟩ := Res.bind_eq_ok.mp h
    cases h
    simp only [okG, Bool.and_eq_true] at hp ⊢
    have := renameGoals_ok gs st x hx hp.2
    exact ⟨by rw [this.2]; exact hp.1, this.1⟩
  | .time gs, st, r, h, hp => by
    simp only [renameGoal] at h
    obtain ⟨x, hx, h⟩ := Res.bind_eq_ok.mp h
    cases h
    simp only [okG, Bool.and_eq_true] at hp ⊢
    have := renameGoals_ok gs st x hx hp.1.2
    exact ⟨⟨by rw [this.2]; exact hp.1.1, this.1⟩, renameGoals_nc gs st x hx hp.2⟩
  | .not gs, st, r, h, hp => by
    simp only [renameGoal] at h
    obtain ⟨x, hx, h⟩ := Res.bind_eq_ok.mp h
    cases h
    simp only [okG, Bool.and_eq_true] at hp ⊢
    have := renameGoals_ok gs st x hx hp.1.2
    exact ⟨⟨by rw [this.2]; exact hp.1.1, this.1⟩, renameGoals_nc gs st x hx hp.2⟩
  | .nil, _, _, _, hp => by simp [okG] at hp
theorem renameGoals_ok : (gs : GoalList) → (st : RenSt) → (r : GoalList × RenSt) → renameGoals gs st = .ok r →
    okGL gs = true → okGL r.1 = true ∧ r.1.length = gs.length
  | .nil, st, r, h, _ => by simp only [renameGoals] at h; cases h; exact ⟨rfl, rfl⟩
  | .cons g gs, st, r, h, hp => by
    simp only [renameGoals] at h
    obtain ⟨x1, hx1, h⟩ := Res.bind_eq_ok.mp h
    obtain ⟨x2, hx2, h⟩ := Res.bind_eq_ok.mp h
    cases h
    simp only [okGL, Bool.and_eq_true] at hp ⊢
    have a := renameGoal_ok g st x1 hx1 hp.1
    have b := renameGoals_ok gs x1.2 x2 hx2 hp.2
    exact ⟨⟨a, b.1⟩, by simp [GoalList.length, b.2]⟩
end

theorem renameRule_ok (r : Rule) (st : RenSt) (x : Rule × RenSt) (h : renameRule r st = .ok x)
    (hp : r.body.isNil = true ∨ okG r.body = true) : x.1.body.isNil = true ∨ okG x.1.body = true := by
  unfold renameRule at h
  simp only at h
  split at h
  · cases h; left; rfl
  · cases h; right; rfl
  · cases h; right; rfl
  · cases h; right; rfl
  · rename_i gs hb
    obtain ⟨b, hbb, h⟩ := Res.bind_eq_ok.mp h
    cases h; right
    rcases hp with hp | hp
    · rw [hb] at hp; cases hp
    · rw [hb] at hp
      simp only [okG, Bool.and_eq_true] at hp ⊢
      have := renameGoals_ok gs _ b hbb hp.2
      exact ⟨by rw [this.2]; exact hp.1, this.1⟩
  · rename_i gs hb
    obtain ⟨b, hbb, h⟩ := Res.bind_eq_ok.mp h
    cases h; right
    rcases hp with hp | hp
    · rw [hb] at hp; cases hp
    · rw [hb] at hp
      simp only [okG, Bool.and_eq_true] at hp ⊢
      have := renameGoals_ok gs _ b hbb hp.2
      exact ⟨by rw [this.2]; exact hp.1, this.1⟩
  · rename_i gs hb
    obtain ⟨b, hbb, h⟩ := Res.bind_eq_ok.mp h
    cases h; right
    rcases hp with hp | hp
    · rw [hb] at hp; cases hp
    · rw [hb] at hp
      simp only [okG, Bool.and_eq_true] at hp ⊢
      have := renameGoals_ok gs _ b hbb hp.1.2
      exact ⟨⟨by rw [this.2]; exact hp.1.1, this.1⟩, renameGoals_nc gs _ b hbb hp.2⟩
  · rename_i gs hb
    obtain ⟨b, hbb, h⟩ := Res.bind_eq_ok.mp h
    cases h; right
    rcases hp with hp | hp
    · rw [hb] at hp; cases hp
    · rw [hb] at hp
      simp only [okG, Bool.and_eq_true] at hp ⊢
      have := renameGoals_ok gs _ b hbb hp.1.2
      exact ⟨⟨by rw [this.2]; exact hp.1.1, this.1⟩, renameGoals_nc gs _ b hbb hp.2⟩

/-- a knowledge base whose stored rules are facts or have bodies in the fragment hands out only such clauses -/
theorem okKB_of_rules (kb : KB)
    (h : ∀ key rs, kb.get key = some rs → ∀ r ∈ rs, r.body.isNil = true ∨ okG r.body = true) : OkKB kb := by
  intro key idx c rule c' hg
  unfold getRule at hg
  split at hg
  · cases hg
  · rename_i rs hrs
    split at hg
    · cases hg
    · rename_i r hr
      obtain ⟨x, hx, hg⟩ := Res.bind_eq_ok.mp hg
      cases hg
      exact renameRule_ok r _ x hx (h key rs hrs r (List.mem_of_getElem? hr))

/-- the same as a computation over the stored table -/
def okKBB (kb : KB) : Bool := kb.all fun e => e.2.all fun r => r.body.isNil || okG r.body

theorem okKB_of_check (kb : KB) (h : okKBB kb = true) : OkKB kb := by
  apply okKB_of_rules
  intro key rs hget r hr
  induction kb with
  | nil => simp [KB.get] at hget
  | cons e rest ih =>
    obtain ⟨k, rs'⟩ := e
    simp only [okKBB, List.all_cons, Bool.and_eq_true] at h
    simp only [KB.get] at hget
    split at hget
    · cases hget
      have := List.all_eq_true.mp h.1 r hr
      simpa using this
    · exact ih h.2 hget

def barOf : CG → Nat
  | .g _ b => b
  | .alt _ b => b
  | .endG b _ => b
  | .endB b _ => b

/-- the barriers of a continuation decrease outwards, and the first is at most `h` -/
def kOK : List CG → Nat → Prop
  | [], _ => True
  | x :: k, h => barOf x ≤ h ∧ kOK k (barOf x)

def frameK : CFrame → List CG
  | .goals k _ => k
  | .try _ _ _ _ k => k
  | .notF _ _ k => k
  | .timeF _ k => k

/-- every frame's continuation is well-formed for the height the frame stands at (the stacks held by `notF` / `timeF`
    frames are searches of their own, started from `CWF.init`: the same statement holds of each of them) -/
def CWF : List CFrame → Prop
  | [] => True
  | fr :: S => kOK (frameK fr) S.length ∧ CWF S

theorem kOK.mono : ∀ {k : List CG} {h h' : Nat}, kOK k h → h ≤ h' → kOK k h'
  | [], _, _, _, _ => trivial
  | _ :: _, _, _, hk, hle => ⟨Nat.le_trans hk.1 hle, hk.2⟩

theorem kOK.tail {x : CG} {k : List CG} {h : Nat} (hk : kOK (x :: k) h) : kOK k h := hk.2.mono hk.1

theorem kOK_markCut : ∀ (k : List CG) (h : Nat), kOK k h → kOK (markCut k) h
  | [], _, _ => trivial
  | .endB b c :: k, h, hk => hk
  | .endG b c :: k, h, hk => ⟨hk.1, kOK_markCut k b hk.2⟩
  | .alt gs b :: k, h, hk => ⟨hk.1, kOK_markCut k b hk.2⟩
  | .g g b :: k, h, hk => ⟨hk.1, kOK_markCut k b hk.2⟩

theorem kOK_app_const (h : Nat) : ∀ (l k : List CG) (H : Nat), (∀ x ∈ l, barOf x = h) → kOK k h → h ≤ H → kOK (l ++ k) H
  | [], k, H, _, hk, hle => hk.mono hle
  | x :: l, k, H, hl, hk, hle => by
    have hx : barOf x = h := hl x (by simp)
    refine ⟨by rw [hx]; exact hle, ?_⟩
    rw [hx]
    exact kOK_app_const h l k h (fun y hy => hl y (by simp [hy])) hk (Nat.le_refl _)

theorem gl_bar (gs : GoalList) (h : Nat) : ∀ x ∈ gl gs h, barOf x = h := by
  intro x hx
  unfold gl at hx
  rw [List.mem_map] at hx; obtain ⟨_, _, e⟩ := hx; rw [← e]; rfl

theorem kOK_bodyK (body : Goal) (h H : Nat) (k : List CG) (hk : kOK k h) (hle : h ≤ H) : kOK (bodyK body h k) H := by
  unfold bodyK
  split
  · exact hk.mono hle
  · exact ⟨hle, Nat.le_refl _, hk⟩

theorem CWF.drop : ∀ (S : List CFrame) (n : Nat), CWF S → CWF (S.drop n)
  | S, 0, h => by simpa using h
  | [], _ + 1, _ => by simp [CWF]
  | _ :: S, n + 1, h => by simpa using CWF.drop S n h.2

theorem CWF.truncate {S : List CFrame} (h : Nat) (hS : CWF S) : CWF (truncate S h) := CWF.drop S _ hS

theorem CWF.cTry {t : Term} {σ : Subst} {idx n : Nat} {k : List CG} {S : List CFrame} (hk : kOK k S.length) (hS : CWF S) :
    CWF (cTry t σ idx n k ++ S) := by
  unfold Grp.cTry
  split
  · exact ⟨hk, hS⟩
  · exact hS

theorem cTry_length_ge (t : Term) (σ : Subst) (idx n : Nat) (k : List CG) (S : List CFrame) :
    S.length ≤ (cTry t σ idx n k ++ S).length := by
  rw [List.length_append]; omega

theorem CWF.altF {gs : GoalList} {b : Nat} {k : List CG} {σ : Subst} {S : List CFrame} (hk : kOK (.alt gs b :: k) S.length) (hS : CWF S) :
    CWF (altF gs b k σ ++ S) := by
  unfold Grp.altF
  split
  · exact hS
  · exact ⟨hk, hS⟩

/-- barriers stay well-formed -/
theorem CStep.wf {fo : FloatOps} {kb : KB} {a b : CConf} (h : CStep fo kb a b) (hw : CWF a.stack) : CWF b.stack := by
  cases h with
  | call _ => exact CWF.cTry (kOK.tail hw.1) hw.2
  | bipOk _ _ => exact ⟨kOK.tail hw.1, hw.2⟩
  | bipFail _ _ => exact hw.2
  | @cut args b k σ S c o =>
    have hb : b ≤ S.length := hw.1.1
    refine ⟨?_, hw.2.truncate b⟩
    rw [truncate_length S b hb]
    exact kOK_markCut k b hw.1.2
  | @conj gs b k σ S c o =>
    refine ⟨?_, hw.2⟩
    exact kOK_app_const b _ _ _ (gl_bar gs b) ⟨Nat.le_refl _, hw.1.2⟩ hw.1.1
  | @disj gs b k σ S c o => exact ⟨⟨hw.1.1, Nat.le_refl _, hw.1.2⟩, hw.2⟩
  | @altStep g gs b k σ S c o =>
    have hA : CWF (Grp.altF gs b k σ ++ S) := CWF.altF ⟨hw.1.1, hw.1.2⟩ hw.2
    refine ⟨⟨?_, hw.1.2⟩, hA⟩
    show b ≤ (Grp.altF gs b k σ ++ S).length
    rw [List.length_append]; have : b ≤ S.length := hw.1.1; omega
  | @clauseOk t σ σ' idx n k S c o key rule c' f _ _ _ =>
    refine ⟨?_, CWF.cTry hw.1 hw.2⟩
    exact kOK_bodyK _ _ _ _ hw.1 (cTry_length_ge _ _ _ _ _ _)
  | clauseFail _ _ _ => exact CWF.cTry hw.1 hw.2
  | endGroup => exact ⟨kOK.tail hw.1, hw.2⟩
  | @commitGroup h k σ S c o =>
    have hb : h ≤ S.length := hw.1.1
    refine ⟨?_, hw.2.truncate h⟩
    rw [truncate_length S h hb]
    exact hw.1.2
  | endBody => exact ⟨kOK.tail hw.1, hw.2⟩
  | @commitBody h k σ S c o =>
    have hb : h ≤ S.length := hw.1.1
    refine ⟨?_, hw.2.truncate h⟩
    rw [truncate_length S h hb]
    exact hw.1.2
  | notEnter => exact ⟨kOK.tail hw.1, hw.2⟩
  | notIn _ => exact ⟨hw.1, hw.2⟩
  | notOk => exact ⟨hw.1, hw.2⟩
  | notFail => exact hw.2
  | timeEnter => exact ⟨kOK.tail hw.1, hw.2⟩
  | timeIn _ => exact ⟨hw.1, hw.2⟩
  | timeNone => exact hw.2
  | timeSome => exact ⟨hw.1, hw.2⟩

theorem CSteps.wf {fo : FloatOps} {kb : KB} {a b : CConf} (h : CSteps fo kb a b) (hw : CWF a.stack) : CWF b.stack := by
  induction h with
  | refl => exact hw
  | step hs _ ih => exact ih (hs.wf hw)

/-- the machine's start on a query is well-formed -/
theorem CWF.init (q : Goal) (σ : Subst) : CWF [.goals [.g q 0] σ] := ⟨⟨Nat.le_refl _, trivial⟩, trivial⟩

/-- so a cut always finds its barrier inside the stack: exactly the bottom `b` frames survive it -/
theorem cut_keeps_exactly_bottom {args : Option TermList} {b : Nat} {k : List CG} {σ : Subst} {S : List CFrame}
    (hw : CWF (.goals (.g (.bip "!" args) b :: k) σ :: S)) :
    ∃ X, S = X ++ truncate S b ∧ (truncate S b).length = b :=
  ⟨S.take (S.length - b), by simp [truncate], truncate_length S b hw.1.1⟩

/-! ### the frames below the machine's working height are not touched -/

/-- silent steps during which the stack stays higher than `n` frames -/
inductive CStepsAbove (fo : FloatOps) (kb : KB) (n : Nat) : CConf → CConf → Prop where
  | refl {c} : CStepsAbove fo kb n c c
  | step {a b c} : CStep fo kb a b → n < b.stack.length → CStepsAbove fo kb n b c → CStepsAbove fo kb n a c

theorem CStepsAbove.toSteps {fo : FloatOps} {kb : KB} {n : Nat} {a b : CConf} (h : CStepsAbove fo kb n a b) : CSteps fo kb a b := by
  induction h with
  | refl => exact .refl
  | step hs _ _ ih => exact .step hs ih

/-- a suffix of `X ++ S0` longer than `S0` ends in `S0` -/
theorem drop_keeps_bottom (X S0 : List CFrame) (d : Nat) (h : S0.length < ((X ++ S0).drop d).length) :
    ∃ X', (X ++ S0).drop d = X' ++ S0 := by
  rw [List.length_drop, List.length_append] at h
  refine ⟨X.drop d, ?_⟩
  rw [List.drop_append]
  have : d - X.length = 0 := by omega
  rw [this]; rfl

theorem truncate_keeps_bottom (X S0 : List CFrame) (b : Nat) (h : S0.length ≤ (truncate (X ++ S0) b).length) :
    ∃ X', truncate (X ++ S0) b = X' ++ S0 := by
  unfold truncate at *
  rw [List.length_drop, List.length_append] at h
  refine ⟨X.drop (X.length + S0.length - b), ?_⟩
  rw [List.length_append, List.drop_append]
  have : X.length + S0.length - b - X.length = 0 := by omega
  rw [this]; rfl

theorem cTry_app (t : Term) (σ : Subst) (idx n : Nat) (k : List CG) (X S0 : List CFrame) :
    cTry t σ idx n k ++ (X ++ S0) = (cTry t σ idx n k ++ X) ++ S0 := by simp

/-- one step of a stack `fr :: X ++ S0` that leaves more than `S0.length` frames leaves `S0` at the bottom -/
theorem CStep.keeps_bottom {fo : FloatOps} {kb : KB} {fr : CFrame} {X S0 : List CFrame} {c : Nat} {o : List String} {b : CConf}
    (h : CStep fo kb ⟨fr :: (X ++ S0), c, o⟩ b) (hl : S0.length < b.stack.length) : ∃ fr' X', b.stack = fr' :: (X' ++ S0) := by
  generalize ha : (⟨fr :: (X ++ S0), c, o⟩ : CConf) = a at h
  cases h with
  | @call t bb k σ S _ _ key hk =>
    cases ha
    simp only at hl ⊢
    unfold cTry at hl ⊢
    split
    · exact ⟨_, X, rfl⟩
    · rename_i hn
      simp only [hn, if_false, List.nil_append] at hl ⊢
      cases X with
      | nil => simp at hl
      | cons x X => exact ⟨x, X, rfl⟩
  | bipOk _ _ => cases ha; exact ⟨_, X, rfl⟩
  | conj => cases ha; exact ⟨_, X, rfl⟩
  | disj => cases ha; exact ⟨_, X, rfl⟩
  | @altStep g gs bb k σ S _ _ =>
    cases ha
    exact ⟨_, Grp.altF gs bb k σ ++ X, by rw [List.append_assoc]⟩
  | endGroup => cases ha; exact ⟨_, X, rfl⟩
  | @commitGroup hh k σ S _ _ =>
    cases ha
    simp only at hl ⊢
    simp only [List.length_cons] at hl
    obtain ⟨X', e⟩ := truncate_keeps_bottom X S0 hh (by omega)
    exact ⟨_, X', by rw [e]⟩
  | notEnter => cases ha; exact ⟨_, X, rfl⟩
  | notIn _ => cases ha; exact ⟨_, X, rfl⟩
  | notOk => cases ha; exact ⟨_, X, rfl⟩
  | notFail =>
    cases ha
    simp only at hl ⊢
    cases X with
    | nil => simp at hl
    | cons x X => exact ⟨x, X, rfl⟩
  | timeEnter => cases ha; exact ⟨_, X, rfl⟩
  | timeIn _ => cases ha; exact ⟨_, X, rfl⟩
  | timeSome => cases ha; exact ⟨_, X, rfl⟩
  | timeNone =>
    cases ha
    simp only at hl ⊢
    cases X with
    | nil => simp at hl
    | cons x X => exact ⟨x, X, rfl⟩
  | bipFail _ _ =>
    cases ha
    simp only at hl ⊢
    cases X with
    | nil => simp at hl
    | cons x X => exact ⟨x, X, rfl⟩
  | @cut args bb k σ S _ _ =>
    cases ha
    simp only at hl ⊢
    simp only [List.length_cons] at hl
    obtain ⟨X', e⟩ := truncate_keeps_bottom X S0 bb (by omega)
    exact ⟨_, X', by rw [e]⟩
  | @clauseOk t σ σ' idx n k S _ _ key rule c' f _ _ _ =>
    cases ha
    exact ⟨_, cTry t σ (idx + 1) n k ++ X, by rw [List.append_assoc]⟩
  | @clauseFail t σ idx n k S _ _ key rule c' f _ _ _ =>
    cases ha
    simp only at hl ⊢
    unfold cTry at hl ⊢
    split
    · exact ⟨_, X, rfl⟩
    · rename_i hn
      simp only [hn, if_false, List.nil_append] at hl ⊢
      cases X with
      | nil => simp at hl
      | cons x X => exact ⟨x, X, rfl⟩
  | endBody => cases ha; exact ⟨_, X, rfl⟩
  | @commitBody hh k σ S _ _ =>
    cases ha
    simp only at hl ⊢
    simp only [List.length_cons] at hl
    obtain ⟨X', e⟩ := truncate_keeps_bottom X S0 hh (by omega)
    exact ⟨_, X', by rw [e]⟩

/-- while the machine works above `S0`, `S0` is at the bottom of its stack, verbatim -/
theorem CStepsAbove.keeps_bottom {fo : FloatOps} {kb : KB} {S0 : List CFrame} {a b : CConf}
    (h : CStepsAbove fo kb S0.length a b) : (∃ fr X, a.stack = fr :: (X ++ S0)) → ∃ fr X, b.stack = fr :: (X ++ S0) := by
  induction h with
  | refl => exact id
  | @step a b c hs hl _ ih =>
    rintro ⟨fr, X, ha⟩
    obtain ⟨stk, ctr, out⟩ := a
    simp only at ha; subst ha
    exact ih (hs.keeps_bottom hl)

/-- THE CUT, on the machine: a clause of a call is chosen on top of `S0` (so its body's barrier is `S0.length`);
    the machine works on, never dropping back to `S0`; a cut of that body comes to run.  Its step leaves exactly
    `S0` under the frame that goes on with the body: the `try` frame with the later clauses of the call and every
    alternative left by the goals to the left of the cut are gone, `S0` is unchanged. -/
theorem call_then_cut {fo : FloatOps} {kb : KB} {t : Term} {σ : Subst} {idx n : Nat} {k : List CG} {S0 : List CFrame}
    {c : Nat} {o : List String} {mid : CConf} {args : Option TermList} {k' : List CG} {σ' : Subst} {S : List CFrame} {c' : Nat} {o' : List String}
    (h1 : CStep fo kb ⟨.try t σ idx n k :: S0, c, o⟩ mid) (hmid : S0.length < mid.stack.length)
    (h2 : CStepsAbove fo kb S0.length mid ⟨.goals (.g (.bip "!" args) S0.length :: k') σ' :: S, c', o'⟩) :
    CStep fo kb ⟨.goals (.g (.bip "!" args) S0.length :: k') σ' :: S, c', o'⟩ ⟨.goals (markCut k') σ' :: S0, c', o'⟩ := by
  have hb := h2.keeps_bottom ((CStep.keeps_bottom (X := []) h1 hmid))
  obtain ⟨fr, X, e⟩ := hb
  simp only at e
  cases e
  have := @CStep.cut fo kb args S0.length k' σ' (X ++ S0) c' o'
  rwa [truncate_append_of_le X S0 S0.length (Nat.le_refl _), truncate_self] at this

/-- the same at the end of a body in which a cut ran: the call yields nothing beyond the answer being derived -/
theorem call_then_commit {fo : FloatOps} {kb : KB} {t : Term} {σ : Subst} {idx n : Nat} {k : List CG} {S0 : List CFrame}
    {c : Nat} {o : List String} {mid : CConf} {k' : List CG} {σ' : Subst} {S : List CFrame} {c' : Nat} {o' : List String}
    (h1 : CStep fo kb ⟨.try t σ idx n k :: S0, c, o⟩ mid) (hmid : S0.length < mid.stack.length)
    (h2 : CStepsAbove fo kb S0.length mid ⟨.goals (.endB S0.length true :: k') σ' :: S, c', o'⟩) :
    CStep fo kb ⟨.goals (.endB S0.length true :: k') σ' :: S, c', o'⟩ ⟨.goals k' σ' :: S0, c', o'⟩ := by
  have hb := h2.keeps_bottom ((CStep.keeps_bottom (X := []) h1 hmid))
  obtain ⟨fr, X, e⟩ := hb
  simp only at e
  cases e
  have := @CStep.commitBody fo kb S0.length k' σ' (X ++ S0) c' o'
  rwa [truncate_append_of_le X S0 S0.length (Nat.le_refl _), truncate_self] at this

/-- and at the end of every group between the cut and the end of its body -/
theorem call_then_commit_group {fo : FloatOps} {kb : KB} {t : Term} {σ : Subst} {idx n : Nat} {k : List CG} {S0 : List CFrame}
    {c : Nat} {o : List String} {mid : CConf} {k' : List CG} {σ' : Subst} {S : List CFrame} {c' : Nat} {o' : List String}
    (h1 : CStep fo kb ⟨.try t σ idx n k :: S0, c, o⟩ mid) (hmid : S0.length < mid.stack.length)
    (h2 : CStepsAbove fo kb S0.length mid ⟨.goals (.endG S0.length true :: k') σ' :: S, c', o'⟩) :
    CStep fo kb ⟨.goals (.endG S0.length true :: k') σ' :: S, c', o'⟩ ⟨.goals k' σ' :: S0, c', o'⟩ := by
  have hb := h2.keeps_bottom ((CStep.keeps_bottom (X := []) h1 hmid))
  obtain ⟨fr, X, e⟩ := hb
  simp only at e
  cases e
  have := @CStep.commitGroup fo kb S0.length k' σ' (X ++ S0) c' o'
  rwa [truncate_append_of_le X S0 S0.length (Nat.le_refl _), truncate_self] at this

end Suiron.Spec.Grp
