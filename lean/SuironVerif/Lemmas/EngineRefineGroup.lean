/-
  REFINEMENT with the cut, nested groups: the engine model refines the machine of `Spec/GroupMachine.lean` for
  knowledge bases whose rule bodies are built from calls, built-ins, `!`, conjunctions and disjunctions nested to any
  depth.  Generalises `Lemmas/EngineRefineCut.lean` (flat bodies): heads of conjunctions and members of disjunctions
  are arbitrary nodes of the fragment.

  The engine's cut is DEFERRED marking — the flag travels up with the answer (or the failure) and every node it
  passes is marked, together with its head — while the machine truncates its stack at once and commits at the end
  markers.  The abstraction `absC c N k bar h` gives the frames a node stands for:
    * `c = false` (the node is at rest): a marked node stands for nothing;
    * `c = true` (the cut flag is still travelling, the request has not returned to the call yet): the marks of the
      conjunction / disjunction nodes along the chain of tails are ignored — the goals to the right of the cut are
      still running and their frames are live until the enclosing end marker commits.
  A node that is a group (conjunction or disjunction) in goal position is continued by its own end marker (`grpK`).
-/
import SuironVerif.Spec.GroupMachine
import SuironVerif.Lemmas.EngineRefineCut
namespace Suiron.Spec.Grp
open Suiron Suiron.Spec

mutual
/-- goals in which no `!` is written (outside the clauses they call) -/
def ncG : Goal → Bool
  | .call _ => true
  | .bip name _ => name != "!"
  | .and gs => ncGL gs
  | .or gs => ncGL gs
  | .not gs => ncGL gs
  | .time gs => ncGL gs
  | .nil => true
def ncGL : GoalList → Bool
  | .nil => true
  | .cons g gs => ncG g && ncGL gs
end

mutual
/-- goals of the fragment: calls, built-ins (the cut among them), non-empty conjunctions and disjunctions, and
    `not(...)` / `time(...)` of goals of the fragment in which no `!` is written -/
def okG : Goal → Bool
  | .call _ => true
  | .bip _ _ => true
  | .and gs => gs.length != 0 && okGL gs
  | .or gs => gs.length != 0 && okGL gs
  | .not gs => gs.length != 0 && okGL gs && ncGL gs
  | .time gs => gs.length != 0 && okGL gs && ncGL gs
  | .nil => false
def okGL : GoalList → Bool
  | .nil => true
  | .cons g gs => okG g && okGL gs
end

/-- the renamed clauses the knowledge base hands out are facts or have bodies in the fragment -/
def OkKB (kb : KB) : Prop :=
  ∀ key idx c rule c', getRule kb key idx c = .ok (rule, c') → rule.body.isNil = true ∨ okG rule.body = true

def isGrp : Node → Bool
  | .op .and _ _ _ _ _ _ => true
  | .op .or _ _ _ _ _ _ => true
  | _ => false

/-- a group in goal position is followed by its end marker -/
def grpK (N : Node) (bar : Nat) (k : List CG) : List CG := if isGrp N then .endG bar false :: k else k

/-- the frames a node stands for: `k` = what follows it, `bar` = the barrier of the clause it belongs to,
    `h` = the height of the stack below its frames, `c` = a cut flag is travelling up through it -/
def absC (c : Bool) : Node → List CG → Nat → Nat → List CFrame
  | .bip name args σ nb more, k, bar, _ => if nb || !more then [] else [.goals (.g (.bip name args) bar :: k) σ]
  | .call t σ nb child idx n, k, _, h =>
    if nb then [] else
      (match child with
       | some ch => absC false ch (grpK ch h (.endB h false :: k)) h (h + (cTry t σ idx n k).length)
       | none => []) ++ cTry t σ idx n k
  | .op .and _ nb _ head rest tail, k, bar, h =>
    if !c && nb then [] else
      (match tail with
       | some tn => absC c tn k bar (h + (absC false head (grpK head bar (gl rest bar ++ k)) bar h).length)
       | none => []) ++ absC false head (grpK head bar (gl rest bar ++ k)) bar h
  | .op .or σ nb _ head rest tail, k, bar, h =>
    if !c && nb then [] else
      match tail with
      | some tn => absC c tn k bar h
      | none => absC false head (grpK head bar k) bar (h + (if nb then [] else altF rest bar k σ).length) ++
                  (if nb then [] else altF rest bar k σ)
  | .op .not σ nb more head _ _, k, _, _ =>
    if nb || !more then [] else [.notF (absC false head (grpK head 0 []) 0 0) σ k]
  | .op .time _ nb more head _ _, k, _, _ =>
    if nb || !more then [] else [.timeF (absC false head (grpK head 0 []) 0 0) k]

/-- at rest the node stands for nothing -/
def deadC (N : Node) : Prop := ∀ k bar h, absC false N k bar h = []

/-- a chain of conjunction / disjunction nodes none of which is marked -/
def askable : Node → Prop
  | .op .and _ nb _ _ _ tail => nb = false ∧ (match tail with | some tn => askable tn | none => True)
  | .op .or _ nb _ _ _ tail => nb = false ∧ (match tail with | some tn => askable tn | none => True)
  | _ => True

/-- nodes in which no `!` is written -/
def ncN : Node → Prop
  | .bip name _ _ _ _ => name ≠ "!"
  | .call _ _ _ _ _ _ => True
  | .op _ _ _ _ head rest tail => ncGL rest = true ∧ ncN head ∧ (match tail with | some tn => ncN tn | none => True)

/-- nodes of the fragment -/
def okN : Node → Prop
  | .bip _ _ _ _ _ => True
  | .call _ _ _ child _ _ => match child with | some c => okN c | none => True
  | .op .and _ _ _ head rest tail =>
    okGL rest = true ∧ okN head ∧ (match tail with | some tn => okN tn | none => True) ∧ (rest.length = 0 → tail = none)
  | .op .or _ _ _ head rest tail =>
    okGL rest = true ∧ okN head ∧ (match tail with | some tn => okN tn | none => True)
  | .op .not _ _ _ head _ _ => okN head ∧ ncN head
  | .op .time _ _ _ head _ _ => okN head ∧ ncN head

theorem absC_nb (N : Node) (hn : N.nb = true) : deadC N := by
  intro k bar h
  cases N with
  | bip name args σ nb more => simp only [Node.nb] at hn; subst hn; simp [absC]
  | call t σ nb child idx n => simp only [Node.nb] at hn; subst hn; cases child <;> simp [absC]
  | op kd σ nb more head rest tail =>
    simp only [Node.nb] at hn; subst hn
    cases kd <;> cases tail <;> simp [absC]

theorem setNb_nb (N : Node) : N.setNb.nb = true := by cases N <;> rfl

theorem absC_setNb (N : Node) : deadC N.setNb := absC_nb _ (setNb_nb N)

theorem okN_setNb (N : Node) (h : okN N) : okN N.setNb := by
  cases N with
  | bip _ _ _ _ _ => trivial
  | call _ _ _ child _ _ => cases child <;> exact h
  | op kd _ _ _ _ _ tail => cases kd <;> cases tail <;> exact h

theorem isGrp_kind {N M : Node} (h : kindOf M = kindOf N) : isGrp M = isGrp N := by
  cases N with
  | bip _ _ _ _ _ => cases M with
    | bip _ _ _ _ _ => rfl
    | call _ _ _ _ _ _ => rfl
    | op kd _ _ _ _ _ _ => cases kd <;> simp [kindOf] at h
  | call _ _ _ _ _ _ => cases M with
    | bip _ _ _ _ _ => rfl
    | call _ _ _ _ _ _ => rfl
    | op kd _ _ _ _ _ _ => cases kd <;> simp [kindOf] at h
  | op kd _ _ _ _ _ _ => cases M with
    | bip _ _ _ _ _ => cases kd <;> simp [kindOf] at h
    | call _ _ _ _ _ _ => cases kd <;> simp [kindOf] at h
    | op kd' _ _ _ _ _ _ => cases kd <;> cases kd' <;> first | rfl | simp [kindOf] at h

/-- along an unmarked chain a travelling cut flag makes no difference -/
theorem absC_askable : (N : Node) → askable N → ∀ K bar h, absC true N K bar h = absC false N K bar h
  | .bip _ _ _ _ _, _, _, _, _ => rfl
  | .call _ _ _ none _ _, _, _, _, _ => by simp [absC]
  | .call _ _ _ (some _) _ _, _, _, _, _ => by simp [absC]
  | .op .and _ nb _ _ _ none, ha, K, bar, h => by
    unfold askable at ha; obtain ⟨e, _⟩ := ha; subst e; simp [absC]
  | .op .and _ nb _ _ _ (some tn), ha, K, bar, h => by
    unfold askable at ha; obtain ⟨e, ht⟩ := ha; subst e
    have := absC_askable tn ht
    simp [absC, this]
  | .op .or _ nb _ _ _ none, ha, K, bar, h => by
    unfold askable at ha; obtain ⟨e, _⟩ := ha; subst e; simp [absC]
  | .op .or _ nb _ _ _ (some tn), ha, K, bar, h => by
    unfold askable at ha; obtain ⟨e, ht⟩ := ha; subst e
    have := absC_askable tn ht
    simp [absC, this]
  | .op .not _ _ _ _ _ _, _, _, _, _ => by simp [absC]
  | .op .time _ _ _ _ _ _, _, _, _, _ => by simp [absC]

theorem cRuleCount_eq (kb : KB) (key : String) : cRuleCount kb key = ruleCount kb key := rfl

theorem cEmit_eq (g : G) (s : String) : (g.emit s).out = cEmit g.out s ∧ (g.emit s).counter = g.counter := by
  unfold G.emit cEmit; split <;> simp

theorem altF_length_le (gs : GoalList) (bar : Nat) (k : List CG) (σ : Subst) : (altF gs bar k σ).length ≤ 1 := by
  unfold altF; split <;> simp

@[reducible] def optNc : Option Node → Prop
  | some tn => ncN tn
  | none => True

theorem ncN_op {kd : OpKind} {σ : Subst} {nb more : Bool} {head : Node} {rest : GoalList} {tail : Option Node}
    (h1 : ncGL rest = true) (h2 : ncN head) (h3 : optNc tail) : ncN (.op kd σ nb more head rest tail) := by
  unfold ncN; cases tail <;> exact ⟨h1, h2, h3⟩

theorem mkNode_nc (sf : UInt64 → String) (kb : KB) : (g : Goal) → (σ : Subst) → (G0 : G) → (N : Node) → (G1 : G) →
    mkNode sf kb g σ G0 = .ok (N, G1) → ncG g = true → ncN N
  | .call t, σ, G0, N, G1, h, _ => by
    simp only [mkNode] at h
    obtain ⟨key, _, h⟩ := Res.bind_eq_ok.mp h
    cases h; trivial
  | .bip name args, σ, G0, N, G1, h, hp => by
    simp only [mkNode] at h; cases h
    show name ≠ "!"
    simpa [ncG] using hp
  | .and (.cons hd rest), σ, G0, N, G1, h, hp => by
    simp only [mkNode] at h
    obtain ⟨r, hr, h⟩ := Res.bind_eq_ok.mp h
    cases h
    simp only [ncG, ncGL, Bool.and_eq_true] at hp
    exact ncN_op hp.2 (mkNode_nc sf kb hd σ G0 r.1 r.2 hr hp.1) trivial
  | .or (.cons hd rest), σ, G0, N, G1, h, hp => by
    simp only [mkNode] at h
    obtain ⟨r, hr, h⟩ := Res.bind_eq_ok.mp h
    cases h
    simp only [ncG, ncGL, Bool.and_eq_true] at hp
    exact ncN_op hp.2 (mkNode_nc sf kb hd σ G0 r.1 r.2 hr hp.1) trivial
  | .not (.cons hd rest), σ, G0, N, G1, h, hp => by
    simp only [mkNode] at h
    obtain ⟨r, hr, h⟩ := Res.bind_eq_ok.mp h
    cases h
    simp only [ncG, ncGL, Bool.and_eq_true] at hp
    exact ncN_op rfl (mkNode_nc sf kb hd σ G0 r.1 r.2 hr hp.1) trivial
  | .time (.cons hd rest), σ, G0, N, G1, h, hp => by
    simp only [mkNode] at h
    obtain ⟨r, hr, h⟩ := Res.bind_eq_ok.mp h
    cases h
    simp only [ncG, ncGL, Bool.and_eq_true] at hp
    exact ncN_op rfl (mkNode_nc sf kb hd σ G0 r.1 r.2 hr hp.1) trivial
  | .and .nil, _, _, _, _, h, _ => by simp [mkNode] at h
  | .or .nil, _, _, _, _, h, _ => by simp [mkNode] at h
  | .not .nil, _, _, _, _, h, _ => by simp [mkNode] at h
  | .time .nil, _, _, _, _, h, _ => by simp [mkNode] at h
  | .nil, _, _, _, _, h, _ => by simp [mkNode] at h

/-- building the node of a goal of the fragment is the machine's work on that goal up to its first choice point -/
theorem mkG_steps (fo : FloatOps) (kb : KB) : (g : Goal) → (σ : Subst) → (G0 : G) → (N : Node) → (G1 : G) → (k : List CG) →
    (bar h : Nat) → (S : List CFrame) → mkNode fo.showF kb g σ G0 = .ok (N, G1) → okG g = true → GOK G0 →
    CSteps fo kb ⟨.goals (.g g bar :: k) σ :: S, G0.counter, G0.out⟩ ⟨absC false N (grpK N bar k) bar h ++ S, G0.counter, G0.out⟩ ∧
      G1.counter = G0.counter ∧ G1.out = G0.out ∧ GOK G1 ∧ okN N ∧ askable N
  | .call t, σ, G0, N, G1, k, bar, h, S, hm, _, hok => by
    simp only [mkNode] at hm
    obtain ⟨key, hkey, hm⟩ := Res.bind_eq_ok.mp hm
    cases hm
    have hc := countRules_ok (kb := kb) (key := key) hok
    refine ⟨?_, hc.2.2.1, hc.2.2.2, hc.2.1, trivial, trivial⟩
    simp only [absC, grpK, isGrp, Bool.false_eq_true, if_false, List.nil_append, hc.1]
    exact CSteps.one (CStep.call hkey)
  | .bip name args, σ, G0, N, G1, k, bar, h, S, hm, _, hok => by
    simp only [mkNode] at hm; cases hm
    refine ⟨?_, rfl, rfl, hok, trivial, trivial⟩
    simp only [absC, grpK, isGrp, Bool.false_eq_true, if_false, Bool.or_false, Bool.not_true, List.cons_append, List.nil_append]
    exact CSteps.refl
  | .and (.cons hd rest), σ, G0, N, G1, k, bar, h, S, hm, hp, hok => by
    simp only [mkNode] at hm
    obtain ⟨r, hr, hm⟩ := Res.bind_eq_ok.mp hm
    cases hm
    simp only [okG, okGL, Bool.and_eq_true] at hp
    have ih := mkG_steps fo kb hd σ G0 r.1 r.2 (gl rest bar ++ .endG bar false :: k) bar h S hr hp.2.1 hok
    refine ⟨?_, ih.2.1, ih.2.2.1, ih.2.2.2.1, ⟨hp.2.2, ih.2.2.2.2.1, trivial, fun _ => rfl⟩, ⟨rfl, trivial⟩⟩
    simp only [absC, grpK, isGrp, if_true, Bool.not_false, Bool.and_false, Bool.false_eq_true, if_false, List.nil_append]
    refine CSteps.step CStep.conj ?_
    rw [gl_cons]
    exact ih.1
  | .or (.cons hd rest), σ, G0, N, G1, k, bar, h, S, hm, hp, hok => by
    simp only [mkNode] at hm
    obtain ⟨r, hr, hm⟩ := Res.bind_eq_ok.mp hm
    cases hm
    simp only [okG, okGL, Bool.and_eq_true] at hp
    have ih := mkG_steps fo kb hd σ G0 r.1 r.2 (.endG bar false :: k) bar
      (h + (altF rest bar (.endG bar false :: k) σ).length) (altF rest bar (.endG bar false :: k) σ ++ S) hr hp.2.1 hok
    refine ⟨?_, ih.2.1, ih.2.2.1, ih.2.2.2.1, ⟨hp.2.2, ih.2.2.2.2.1, trivial⟩, ⟨rfl, trivial⟩⟩
    simp only [absC, grpK, isGrp, if_true, Bool.not_false, Bool.and_false, Bool.false_eq_true, if_false, List.append_assoc]
    exact CSteps.step CStep.disj (CSteps.step CStep.altStep ih.1)
  | .and .nil, _, _, _, _, _, _, _, _, hm, _, _ => by simp [mkNode] at hm
  | .or .nil, _, _, _, _, _, _, _, _, hm, _, _ => by simp [mkNode] at hm
  | .not (.cons hd rest), σ, G0, N, G1, k, bar, h, S, hm, hp, hok => by
    simp only [mkNode] at hm
    obtain ⟨r, hr, hm⟩ := Res.bind_eq_ok.mp hm
    cases hm
    simp only [okG, okGL, ncGL, Bool.and_eq_true] at hp
    have ih := mkG_steps fo kb hd σ G0 r.1 r.2 [] 0 0 [] hr hp.1.2.1 hok
    refine ⟨?_, ih.2.1, ih.2.2.1, ih.2.2.2.1, ⟨ih.2.2.2.2.1, mkNode_nc fo.showF kb hd σ G0 r.1 r.2 hr hp.2.1⟩, trivial⟩
    simp only [absC, grpK, isGrp, Bool.false_eq_true, if_false, Bool.or_false, Bool.not_true, List.cons_append, List.nil_append]
    have := ih.1.notIn σ k S
    simp only [List.append_nil] at this
    exact CSteps.step CStep.notEnter this
  | .time (.cons hd rest), σ, G0, N, G1, k, bar, h, S, hm, hp, hok => by
    simp only [mkNode] at hm
    obtain ⟨r, hr, hm⟩ := Res.bind_eq_ok.mp hm
    cases hm
    simp only [okG, okGL, ncGL, Bool.and_eq_true] at hp
    have ih := mkG_steps fo kb hd σ G0 r.1 r.2 [] 0 0 [] hr hp.1.2.1 hok
    refine ⟨?_, ih.2.1, ih.2.2.1, ih.2.2.2.1, ⟨ih.2.2.2.2.1, mkNode_nc fo.showF kb hd σ G0 r.1 r.2 hr hp.2.1⟩, trivial⟩
    simp only [absC, grpK, isGrp, Bool.false_eq_true, if_false, Bool.or_false, Bool.not_true, List.cons_append, List.nil_append]
    have := ih.1.timeIn k S
    simp only [List.append_nil] at this
    exact CSteps.step CStep.timeEnter this
  | .not .nil, _, _, _, _, _, _, _, _, hm, _, _ => by simp [mkNode] at hm
  | .time .nil, _, _, _, _, _, _, _, _, hm, _, _ => by simp [mkNode] at hm
  | .nil, _, _, _, _, _, _, _, _, _, hp, _ => by simp [okG] at hp

/-- the node the engine makes for the rest of a conjunction, against the goals already spliced into the continuation -/
theorem mkRest_steps (fo : FloatOps) (kb : KB) (rest : GoalList) (hr : okGL rest = true) (hne : rest.length ≠ 0)
    (σ : Subst) (G0 : G) (N : Node) (G1 : G) (k : List CG) (bar h : Nat) (S : List CFrame)
    (hm : mkNode fo.showF kb (.and rest) σ G0 = .ok (N, G1)) (hok : GOK G0) :
    CSteps fo kb ⟨.goals (gl rest bar ++ k) σ :: S, G0.counter, G0.out⟩ ⟨absC false N k bar h ++ S, G0.counter, G0.out⟩ ∧
      G1.counter = G0.counter ∧ G1.out = G0.out ∧ GOK G1 ∧ okN N ∧ askable N := by
  cases rest with
  | nil => simp [GoalList.length] at hne
  | cons g rest' =>
    simp only [mkNode] at hm
    obtain ⟨r, hr1, hm⟩ := Res.bind_eq_ok.mp hm
    cases hm
    simp only [okGL, Bool.and_eq_true] at hr
    have a := mkG_steps fo kb g σ G0 r.1 r.2 (gl rest' bar ++ k) bar h S hr1 hr.1 hok
    refine ⟨?_, a.2.1, a.2.2.1, a.2.2.2.1, ⟨hr.2, a.2.2.2.2.1, trivial, fun _ => rfl⟩, ⟨rfl, trivial⟩⟩
    simp only [absC, Bool.not_false, Bool.and_false, Bool.false_eq_true, if_false, List.nil_append, gl_cons, List.cons_append]
    exact a.1

/-- the node the engine makes for the remaining members of a disjunction, against the frame that kept them -/
theorem mkAlt_steps (fo : FloatOps) (kb : KB) (rest : GoalList) (hr : okGL rest = true) (hne : rest.length ≠ 0)
    (σ : Subst) (G0 : G) (N : Node) (G1 : G) (k : List CG) (bar h : Nat) (S : List CFrame)
    (hm : mkNode fo.showF kb (.or rest) σ G0 = .ok (N, G1)) (hok : GOK G0) :
    CSteps fo kb ⟨altF rest bar k σ ++ S, G0.counter, G0.out⟩ ⟨absC false N k bar h ++ S, G0.counter, G0.out⟩ ∧
      G1.counter = G0.counter ∧ G1.out = G0.out ∧ GOK G1 ∧ okN N ∧ askable N := by
  cases rest with
  | nil => simp [GoalList.length] at hne
  | cons g rest' =>
    simp only [mkNode] at hm
    obtain ⟨r, hr1, hm⟩ := Res.bind_eq_ok.mp hm
    cases hm
    simp only [okGL, Bool.and_eq_true] at hr
    have a := mkG_steps fo kb g σ G0 r.1 r.2 k bar (h + (altF rest' bar k σ).length) (altF rest' bar k σ ++ S) hr1 hr.1 hok
    refine ⟨?_, a.2.1, a.2.2.1, a.2.2.2.1, ⟨hr.2, a.2.2.2.2.1, trivial⟩, ⟨rfl, trivial⟩⟩
    have e : altF (.cons g rest') bar k σ = [.goals (.alt (.cons g rest') bar :: k) σ] := by simp [altF, GoalList.length]
    rw [e]
    simp only [absC, Bool.not_false, Bool.and_false, Bool.false_eq_true, if_false, List.append_assoc, List.cons_append, List.nil_append]
    exact CSteps.step CStep.altStep a.1

/-! ### what a request means for the machine -/

def kOf (c : Bool) (k : List CG) : List CG := if c then markCut k else k
def hOf (c : Bool) (bar h : Nat) : Nat := if c then bar else h
def bOf (c : Bool) (B : List CFrame) (bar : Nat) : List CFrame := if c then truncate B bar else B

/-- from `start` the machine runs to the answer continued by `k` with the successor node's frames on top of `B` —
    or, when a cut ran during the request (`st.cut`), continued by `k` with its end markers committing, on top of
    `B` cut back to the barrier — or, without an answer, down to `B` resp. `B` cut back -/
def RefC (fo : FloatOps) (kb : KB) (st : Step) (G0 : G) (start : List CFrame) (k : List CG) (bar h : Nat) (B : List CFrame) : Prop :=
  (match st.sol with
   | some σ' => CSteps fo kb ⟨start, G0.counter, G0.out⟩
       ⟨.goals (kOf st.cut k) σ' :: (absC st.cut st.node (kOf st.cut k) bar (hOf st.cut bar h) ++ bOf st.cut B bar), st.g.counter, st.g.out⟩
   | none => CSteps fo kb ⟨start, G0.counter, G0.out⟩ ⟨bOf st.cut B bar, st.g.counter, st.g.out⟩ ∧ (st.cut = false → deadC st.node)) ∧
  okN st.node ∧ GOK st.g

theorem RefC.pre {fo : FloatOps} {kb : KB} {st : Step} {G0 G1 : G} {start start' : List CFrame} {k : List CG} {bar h : Nat} {B : List CFrame}
    (h1 : CSteps fo kb ⟨start', G0.counter, G0.out⟩ ⟨start, G1.counter, G1.out⟩) (h2 : RefC fo kb st G1 start k bar h B) :
    RefC fo kb st G0 start' k bar h B := by
  unfold RefC at h2 ⊢
  refine ⟨?_, h2.2⟩
  cases hs : st.sol with
  | some σ' => have := h2.1; rw [hs] at this; exact h1.trans this
  | none => have := h2.1; rw [hs] at this; exact ⟨h1.trans this.1, this.2⟩

theorem bOf_length (c : Bool) (B : List CFrame) (bar h : Nat) (hB : B.length = h) (hb : bar ≤ h) :
    (bOf c B bar).length = hOf c bar h := by
  unfold bOf hOf; cases c
  · simpa using hB
  · simp only [if_true]; exact truncate_length B bar (by omega)

theorem markCut_gl (rest : GoalList) (bar : Nat) (K : List CG) : markCut (gl rest bar ++ K) = gl rest bar ++ markCut K := by
  unfold gl
  induction rest.toList with
  | nil => rfl
  | cons g gs ih => simp [markCut, ih]

theorem kOf_gl (c : Bool) (rest : GoalList) (bar : Nat) (K : List CG) : kOf c (gl rest bar ++ K) = gl rest bar ++ kOf c K := by
  cases c <;> simp [kOf, markCut_gl]

theorem kOf_kOf (a b : Bool) (k : List CG) : kOf a (kOf b k) = kOf (b || a) k := by
  cases a <;> cases b <;> simp [kOf, markCut_idem]

theorem hOf_hOf (a b : Bool) (bar h : Nat) : hOf a bar (hOf b bar h) = hOf (b || a) bar h := by
  cases a <;> cases b <;> simp [hOf]

theorem bOf_bOf (a b : Bool) (B : List CFrame) (bar : Nat) (hb : bar ≤ B.length) : bOf a (bOf b B bar) bar = bOf (b || a) B bar := by
  cases a <;> cases b <;> simp [bOf, truncate_idem _ _ hb]

theorem bOf_app (X B1 : List CFrame) (bar : Nat) (hb : bar ≤ B1.length) : truncate (X ++ B1) bar = truncate B1 bar :=
  truncate_append_of_le X B1 bar hb

theorem len_try_app (X B : List CFrame) (h : Nat) (hB : B.length = h) : (X ++ B).length = h + X.length := by
  rw [List.length_append, hB]; omega

/-- a marked node answers none and stays as it is -/
theorem next_marked (fo : FloatOps) (kb : KB) (f : Nat) (N : Node) (g : G) (st : Step) (h : next fo kb f N g = .ok st)
    (hn : N.nb = true) : st = ⟨none, N, false, g⟩ := by
  cases f with
  | zero => simp [next] at h
  | succ f => simp only [next, hn, if_true] at h; cases h; rfl

theorem CRun.pre {fo : FloatOps} {kb : KB} {a b : CConf} {tr : List (Option Subst × List String)}
    (h : CSteps fo kb a b) (r : CRun fo kb b tr) : CRun fo kb a tr := by
  cases r with
  | nil => exact .nil
  | ans h1 t => exact .ans (h.trans h1) t
  | fin h1 t => exact .fin (h.trans h1) t

/-! ### goals without a cut never raise the cut flag -/

/-- a call never passes a cut on -/
theorem call_nocut (fo : FloatOps) (kb : KB) : ∀ f,
    (∀ t σ nb child idx n g, Res.all (fun st => st.cut = false) (callLoop fo kb f t σ nb child idx n g)) := by
  intro f
  induction f with
  | zero => intro t σ nb child idx n g; trivial
  | succ f ih =>
    intro t σ nb child idx n g
    simp only [callLoop]; allk

theorem next_call_nocut (fo : FloatOps) (kb : KB) (f : Nat) (t : Term) (σ : Subst) (nb : Bool) (child : Option Node) (idx n : Nat) (g : G) (st : Step)
    (h : next fo kb f (.call t σ nb child idx n) g = .ok st) : st.cut = false := by
  cases f with
  | zero => simp [next] at h
  | succ f =>
    have ih := call_nocut fo kb f
    have : Res.all (fun st => st.cut = false) (next fo kb (f + 1) (.call t σ nb child idx n) g) := by
      simp only [next, Node.nb]; allk
    rw [h] at this; exact this

theorem ncN_of_call {N : Node} (h : kindOf N = 1) : ncN N := by
  cases N with
  | bip _ _ _ _ _ => simp [kindOf] at h
  | call _ _ _ _ _ _ => trivial
  | op kd _ _ _ _ _ _ => cases kd <;> simp [kindOf] at h

theorem ncN_parts {kd : OpKind} {σ : Subst} {nb more : Bool} {head : Node} {rest : GoalList} {tail : Option Node}
    (h : ncN (.op kd σ nb more head rest tail)) : ncGL rest = true ∧ ncN head ∧ optNc tail := by
  unfold ncN at h; cases tail <;> exact h

theorem nc_all (fo : FloatOps) (kb : KB) : ∀ f,
    (∀ N g st, next fo kb f N g = .ok st → ncN N → st.cut = false ∧ ncN st.node) ∧
    (∀ σ nb more head rest tail cutAcc g st, andLoop fo kb f σ nb more head rest tail cutAcc g = .ok st →
       cutAcc = false → ncGL rest = true → ncN head → optNc tail → st.cut = false ∧ ncN st.node) := by
  intro f
  induction f with
  | zero =>
    refine ⟨?_, ?_⟩
    · intro N g st h; simp [next] at h
    · intro σ nb more head rest tail cutAcc g st h; simp [andLoop] at h
  | succ f ih =>
    obtain ⟨ihN, ihA⟩ := ih
    refine ⟨?_, ?_⟩
    · intro N g st hn hnc
      by_cases hnb : N.nb = true
      · have e := next_marked fo kb (f + 1) N g st hn hnb
        subst e; exact ⟨rfl, hnc⟩
      · cases N with
        | bip name args σ nb more =>
          have hname : name ≠ "!" := hnc
          simp only [next, Node.nb] at hn hnb
          simp only [hnb, if_false, hname] at hn
          by_cases hm : (!more) = true
          · simp only [hm, if_true] at hn; cases hn; exact ⟨rfl, hname⟩
          · simp only [hm, if_false] at hn
            obtain ⟨r, _, hn⟩ := Res.bind_eq_ok.mp hn
            cases hn; exact ⟨rfl, hname⟩
        | call t σ nb child idx n =>
          exact ⟨next_call_nocut fo kb (f + 1) t σ nb child idx n g st hn,
            ncN_of_call (by rw [next_kind fo kb (f + 1) _ g st hn]; rfl)⟩
        | op kd σ nb more head rest tail =>
          obtain ⟨hrest, hhead, htail⟩ := ncN_parts hnc
          have hnb' : nb = false := by simpa [Node.nb] using hnb
          subst hnb'
          cases kd with
          | and =>
            simp only [next, Node.nb, Bool.false_eq_true, if_false] at hn
            cases tail with
            | none => exact ihA σ false more head rest none false g st hn rfl hrest hhead trivial
            | some tn =>
              simp only at hn
              obtain ⟨r, hr, hn⟩ := Res.bind_eq_ok.mp hn
              obtain ⟨hrc, hrn⟩ := ihN tn g r hr htail
              simp only [hrc, Bool.false_eq_true, if_false, Bool.or_false] at hn
              by_cases hsol : r.sol.isSome = true
              · simp only [hsol, if_true] at hn; cases hn
                exact ⟨rfl, ncN_op hrest hhead hrn⟩
              · simp only [hsol, Bool.false_eq_true, if_false] at hn
                exact ihA σ false more head rest (some r.node) false r.g st hn rfl hrest hhead hrn
          | or =>
            simp only [next, Node.nb, Bool.false_eq_true, if_false] at hn
            cases tail with
            | some tn =>
              simp only at hn
              obtain ⟨r, hr, hn⟩ := Res.bind_eq_ok.mp hn
              obtain ⟨hrc, hrn⟩ := ihN tn g r hr htail
              simp only [hrc, Bool.false_eq_true, if_false, Bool.or_false] at hn
              cases hn
              exact ⟨rfl, ncN_op hrest hhead hrn⟩
            | none =>
              simp only at hn
              obtain ⟨r, hr, hn⟩ := Res.bind_eq_ok.mp hn
              obtain ⟨hrc, hrn⟩ := ihN head g r hr hhead
              simp only [hrc, Bool.false_eq_true, if_false, Bool.or_false] at hn
              by_cases hsol : r.sol.isSome = true
              · simp only [hsol, if_true] at hn; cases hn
                exact ⟨rfl, ncN_op hrest hrn trivial⟩
              · simp only [hsol, Bool.false_eq_true, if_false] at hn
                by_cases hrl : (rest.length == 0) = true
                · simp only [hrl, if_true] at hn; cases hn
                  exact ⟨rfl, ncN_op hrest hrn trivial⟩
                · simp only [hrl, Bool.false_eq_true, if_false] at hn
                  obtain ⟨m, hm, hn⟩ := Res.bind_eq_ok.mp hn
                  obtain ⟨r2, hr2, hn⟩ := Res.bind_eq_ok.mp hn
                  have hmn : ncN m.1 := mkNode_nc fo.showF kb (.or rest) σ r.g m.1 m.2 hm (by simpa [ncG] using hrest)
                  obtain ⟨hrc2, hrn2⟩ := ihN m.1 m.2 r2 hr2 hmn
                  simp only [hrc2, Bool.false_eq_true, if_false, Bool.or_false] at hn
                  cases hn
                  exact ⟨rfl, ncN_op hrest hrn hrn2⟩
          | time =>
            simp only [next, Node.nb, Bool.false_eq_true, if_false] at hn
            by_cases hm : (!more) = true
            · simp only [hm, if_true] at hn; cases hn; exact ⟨rfl, hnc⟩
            · simp only [hm, Bool.false_eq_true, if_false] at hn
              obtain ⟨r, hr, hn⟩ := Res.bind_eq_ok.mp hn
              obtain ⟨hrc, hrn⟩ := ihN head g r hr hhead
              simp only [hrc, Bool.false_eq_true, if_false, Bool.or_false] at hn
              cases hn
              exact ⟨rfl, ncN_op hrest hrn htail⟩
          | not =>
            simp only [next, Node.nb, Bool.false_eq_true, if_false] at hn
            by_cases hm : (!more) = true
            · simp only [hm, if_true] at hn; cases hn; exact ⟨rfl, hnc⟩
            · simp only [hm, Bool.false_eq_true, if_false] at hn
              obtain ⟨r, hr, hn⟩ := Res.bind_eq_ok.mp hn
              obtain ⟨hrc, hrn⟩ := ihN head g r hr hhead
              simp only [hrc, Bool.false_eq_true, if_false, Bool.or_false] at hn
              cases hn
              exact ⟨rfl, ncN_op hrest hrn htail⟩
    · intro σ nb more head rest tail cutAcc g st hn hca hrest hhead htail
      subst hca
      simp only [andLoop] at hn
      obtain ⟨r, hr, hn⟩ := Res.bind_eq_ok.mp hn
      obtain ⟨hrc, hrn⟩ := ihN head g r hr hhead
      simp only [hrc, Bool.false_eq_true, if_false, Bool.or_false] at hn
      cases hs : r.sol with
      | none => rw [hs] at hn; simp only at hn; cases hn; exact ⟨rfl, ncN_op hrest hrn htail⟩
      | some ss =>
        rw [hs] at hn
        simp only at hn
        by_cases hrl : (rest.length == 0) = true
        · simp only [hrl, if_true] at hn; cases hn; exact ⟨rfl, ncN_op hrest hrn htail⟩
        · simp only [hrl, Bool.false_eq_true, if_false] at hn
          obtain ⟨m, hm, hn⟩ := Res.bind_eq_ok.mp hn
          obtain ⟨r2, hr2, hn⟩ := Res.bind_eq_ok.mp hn
          have hmn : ncN m.1 := mkNode_nc fo.showF kb (.and rest) ss r.g m.1 m.2 hm (by simpa [ncG] using hrest)
          obtain ⟨hrc2, hrn2⟩ := ihN m.1 m.2 r2 hr2 hmn
          simp only [hrc2, Bool.false_eq_true, if_false, Bool.or_false] at hn
          by_cases hsol : r2.sol.isSome = true
          · simp only [hsol, if_true] at hn; cases hn
            exact ⟨rfl, ncN_op hrest hrn hrn2⟩
          · simp only [hsol, Bool.false_eq_true, if_false] at hn
            exact ihA σ nb more r.node rest (some r2.node) false r2.g st hn rfl hrest hrn hrn2

/-- the child a call node still holds from an exhausted clause body -/
def StaleOK (child : Option Node) : Prop :=
  match child with
  | some c => deadC c ∧ okN c
  | none => True

/-- the tail a conjunction node still holds: unless a cut has just run, it is exhausted -/
def TailOK (cutAcc : Bool) (tail : Option Node) : Prop :=
  match tail with
  | some tn => okN tn ∧ (cutAcc = false → deadC tn)
  | none => True

def tailAsk (tail : Option Node) : Prop :=
  match tail with
  | some tn => askable tn
  | none => True

/-- the statements proved together by induction on the fuel -/
def StmtN (fo : FloatOps) (kb : KB) (f : Nat) : Prop :=
  ∀ N G0 st k bar h B, next fo kb f N G0 = .ok st → okN N → GOK G0 → B.length = h → bar ≤ h →
    RefC fo kb st G0 (absC false N k bar h ++ B) k bar h B ∧
    ((∃ t σ nb child idx n, N = .call t σ nb child idx n) → st.cut = false) ∧
    (isGrp N = false → st.cut = true → ∀ K b' h', absC true st.node K b' h' = []) ∧
    (st.cut = false → askable N → askable st.node)

def StmtC (fo : FloatOps) (kb : KB) (f : Nat) : Prop :=
  ∀ t σ nb child idx n G0 st k bar h B, callLoop fo kb f t σ nb child idx n G0 = .ok st → nb = false →
    StaleOK child → GOK G0 → B.length = h → bar ≤ h →
    RefC fo kb st G0 (cTry t σ idx n k ++ B) k bar h B ∧ st.cut = false

def StmtA (fo : FloatOps) (kb : KB) (f : Nat) : Prop :=
  ∀ σ nb more head rest tail cutAcc G0 st k bar h B, andLoop fo kb f σ nb more head rest tail cutAcc G0 = .ok st →
    nb = cutAcc → okGL rest = true → okN head → (cutAcc = true → head.nb = true) → TailOK cutAcc tail →
    (rest.length = 0 → tail = none) → GOK G0 → B.length = h → bar ≤ h →
    RefC fo kb st G0 (absC false head (grpK head bar (gl rest bar ++ kOf cutAcc k)) bar (hOf cutAcc bar h) ++ bOf cutAcc B bar) k bar h B ∧
    (cutAcc = true → st.cut = true) ∧
    (st.cut = false → tailAsk tail → askable st.node)

/-- THE HEAD HAS ANSWERED: the end marker of a group is passed (committing, if a cut ran in the group); the head node,
    marked if a cut ran, is at rest again -/
theorem head_done (fo : FloatOps) (kb : KB) (f : Nat) (N : Node) (G0 : G) (r : Step) (start : List CFrame)
    (K : List CG) (bar h : Nat) (B : List CFrame) (hr : next fo kb f N G0 = .ok r) (hB : B.length = h) (hbar : bar ≤ h)
    (href : RefC fo kb r G0 start (grpK N bar K) bar h B)
    (hat : isGrp N = false → r.cut = true → ∀ K b' h', absC true r.node K b' h' = [])
    (σ' : Subst) (hs : r.sol = some σ') :
    CSteps fo kb ⟨start, G0.counter, G0.out⟩
      ⟨.goals (kOf r.cut K) σ' ::
        (absC false (if r.cut then r.node.setNb else r.node) (grpK (if r.cut then r.node.setNb else r.node) bar (kOf r.cut K)) bar (hOf r.cut bar h) ++
          bOf r.cut B bar), r.g.counter, r.g.out⟩ := by
  have h1 := href.1
  rw [hs] at h1
  have hk : isGrp r.node = isGrp N := isGrp_kind (next_kind fo kb f N G0 r hr)
  have hbB : bar ≤ B.length := by omega
  cases hc : r.cut with
  | false =>
    rw [hc] at h1
    simp only [kOf, hOf, bOf, Bool.false_eq_true, if_false] at h1 ⊢
    by_cases hg : isGrp N = true
    · simp only [grpK, hg, hk, if_true] at h1 ⊢
      exact h1.trans (CSteps.one CStep.endGroup)
    · simp only [grpK, hg, hk, Bool.false_eq_true, if_false] at h1 ⊢
      exact h1
  | true =>
    rw [hc] at h1
    simp only [kOf, hOf, bOf, if_true] at h1 ⊢
    rw [absC_setNb r.node]
    by_cases hg : isGrp N = true
    · simp only [grpK, hg, if_true, markCut] at h1
      refine h1.trans (CSteps.one ?_)
      have := @CStep.commitGroup fo kb bar (markCut K) σ' (absC true r.node (CG.endG bar true :: markCut K) bar bar ++ truncate B bar)
        r.g.counter r.g.out
      rw [truncate_append_of_le _ _ _ (by rw [truncate_length B bar hbB]; omega), truncate_idem B bar hbB] at this
      simpa using this
    · have hg' : isGrp N = false := by simpa using hg
      simp only [grpK, hg', Bool.false_eq_true, if_false] at h1
      rw [hat hg' hc] at h1
      simpa using h1

theorem step_bip (fo : FloatOps) (kb : KB) (f : Nat) (name : String) (args : Option TermList) (σ : Subst) (nb more : Bool)
    (G0 : G) (st : Step) (k : List CG) (bar h : Nat) (B : List CFrame)
    (hn : next fo kb (f + 1) (.bip name args σ nb more) G0 = .ok st) (hg : GOK G0) :
    RefC fo kb st G0 (absC false (.bip name args σ nb more) k bar h ++ B) k bar h B ∧
    (st.cut = true → ∀ K b' h', absC true st.node K b' h' = []) ∧
    askable st.node := by
    have hdead : (st.cut = true → ∀ K b' h', absC true st.node K b' h' = []) ∧ askable st.node := by
      simp only [next, Node.nb] at hn
      by_cases h1 : nb = true
      · simp only [h1, if_true] at hn; cases hn; exact ⟨fun hc => (by cases hc), trivial⟩
      · simp only [h1, if_false] at hn
        by_cases h2 : (!more) = true
        · simp only [h2, if_true] at hn; cases hn; exact ⟨fun hc => (by cases hc), trivial⟩
        · simp only [h2, if_false] at hn
          by_cases h3 : name = "!"
          · simp only [h3, if_true] at hn; cases hn; exact ⟨fun _ K b' h' => by simp [absC], trivial⟩
          · simp only [h3, if_false] at hn
            obtain ⟨r, _, hn⟩ := Res.bind_eq_ok.mp hn; cases hn; exact ⟨fun hc => (by cases hc), trivial⟩
    refine ⟨?_, hdead.1, hdead.2⟩
    simp only [next, Node.nb] at hn
    by_cases hnb : nb = true
    · subst hnb
      simp at hn; subst hn
      refine ⟨⟨by simp [absC, bOf]; exact CSteps.refl, fun _ k' b' h' => by simp [absC]⟩, trivial, hg⟩
    · have hnb' : nb = false := by simpa using hnb
      subst hnb'
      simp only [Bool.false_eq_true, if_false] at hn
      by_cases hm : more = true
      · subst hm
        simp only [Bool.not_true, Bool.false_eq_true, if_false] at hn
        by_cases hcut : name = "!"
        · subst hcut
          simp only [if_true] at hn
          cases hn
          refine ⟨?_, trivial, hg⟩
          simp only [absC, Bool.or_false, Bool.not_true, Bool.false_eq_true, if_false, List.cons_append, List.nil_append,
            kOf, hOf, bOf, if_true, Bool.true_or]
          exact CSteps.one CStep.cut
        · simp only [hcut, if_false] at hn
          obtain ⟨r, hr, hn⟩ := Res.bind_eq_ok.mp hn
          cases hn
          have ho := cEmit_eq G0 r.out
          refine ⟨?_, trivial, GOK_emit hg _⟩
          cases hs : r.sol with
          | some σ' =>
            simp only [absC, Bool.or_false, Bool.not_true, Bool.false_eq_true, if_false, List.cons_append, List.nil_append,
              kOf, hOf, bOf, Bool.or_true, if_true]
            have hr' : runBip fo f name (optList args) σ = .ok ⟨some σ', r.out⟩ := by rw [hr]; cases r; simp_all
            rw [ho.1, ho.2]
            exact CSteps.one (CStep.bipOk hcut hr')
          | none =>
            simp only [absC, Bool.or_false, Bool.not_true, Bool.false_eq_true, if_false, List.cons_append, List.nil_append,
              kOf, hOf, bOf]
            have hr' : runBip fo f name (optList args) σ = .ok ⟨none, r.out⟩ := by rw [hr]; cases r; simp_all
            rw [ho.1, ho.2]
            exact ⟨CSteps.one (CStep.bipFail hcut hr'), fun _ k' b' h' => by simp [absC]⟩
      · have hm' : more = false := by simpa using hm
        subst hm'
        simp at hn; subst hn
        refine ⟨⟨by simp [absC, bOf]; exact CSteps.refl, fun _ k' b' h' => by simp [absC]⟩, trivial, hg⟩

theorem absC_call_nb (c : Bool) (t : Term) (σ : Subst) (child : Option Node) (idx n : Nat) (k : List CG) (bar h : Nat) :
    absC c (.call t σ true child idx n) k bar h = [] := by cases child <;> simp [absC]

/-- the body of the chosen clause has answered: its end markers run, and the call node stands for what is left -/
theorem body_some (fo : FloatOps) (kb : KB) (f : Nat) (c : Node) (Gc : G) (hr0 : next fo kb f c Gc = .ok r)
    (start : List CFrame) (t : Term) (σ : Subst) (idx n : Nat)
    (k : List CG) (h : Nat) (B : List CFrame) (hB : B.length = h) (σ' : Subst) (hs : r.sol = some σ')
    (href : RefC fo kb r Gc start (grpK c h (.endB h false :: k)) h (h + (cTry t σ idx n k).length) (cTry t σ idx n k ++ B))
    (hat : isGrp c = false → r.cut = true → ∀ K b' h', absC true r.node K b' h' = [])
    (bar : Nat) :
    CSteps fo kb ⟨start, Gc.counter, Gc.out⟩
      ⟨.goals k σ' :: (absC false (.call t σ (false || r.cut) (some r.node) idx n) k bar h ++ B), r.g.counter, r.g.out⟩ := by
  have hd := head_done fo kb f c Gc r start (.endB h false :: k) h (h + (cTry t σ idx n k).length) (cTry t σ idx n k ++ B)
    hr0 (len_try_app _ _ _ hB) (by omega) href hat σ' hs
  cases hc : r.cut with
  | false =>
    rw [hc] at hd
    simp only [kOf, hOf, bOf, Bool.false_eq_true, if_false] at hd
    refine hd.trans (CSteps.one ?_)
    simp only [absC, Bool.or_false, Bool.false_eq_true, if_false, List.append_assoc]
    exact CStep.endBody
  | true =>
    rw [hc] at hd
    simp only [kOf, hOf, bOf, if_true, markCut] at hd
    rw [absC_setNb r.node] at hd
    refine hd.trans (CSteps.one ?_)
    simp only [Bool.or_true, absC_call_nb, List.nil_append]
    have e0 : truncate (truncate (cTry t σ idx n k ++ B) h) h = B := by
      rw [truncate_append_of_le _ _ _ (by omega), ← hB, truncate_self, truncate_self]
    have := @CStep.commitBody fo kb h k σ' ([] ++ truncate (cTry t σ idx n k ++ B) h) r.g.counter r.g.out
    rw [List.nil_append, e0] at this
    exact this

/-- the body of the chosen clause has no (further) answer: what is left are the later clauses — or, after a cut, nothing -/
theorem body_none (fo : FloatOps) (kb : KB) (r : Step) (G0 : G) (start : List CFrame) (t : Term) (σ : Subst) (idx n : Nat)
    (K : List CG) (h : Nat) (B : List CFrame) (hB : B.length = h) (hs : r.sol = none)
    (href : RefC fo kb r G0 start K h (h + (cTry t σ idx n k).length) (cTry t σ idx n k ++ B)) :
    CSteps fo kb ⟨start, G0.counter, G0.out⟩ ⟨(if r.cut then [] else cTry t σ idx n k) ++ B, r.g.counter, r.g.out⟩ ∧
      (r.cut = false → deadC r.node) := by
  have h1 := href.1
  rw [hs] at h1
  refine ⟨?_, h1.2⟩
  cases hc : r.cut with
  | false =>
    have := h1.1; rw [hc] at this
    simpa [bOf] using this
  | true =>
    have := h1.1; rw [hc] at this
    simp only [bOf, if_true] at this
    rw [truncate_append_of_le _ _ _ (by omega), ← hB, truncate_self] at this
    simpa using this

theorem step_call (fo : FloatOps) (kb : KB) (f : Nat) (ihN : StmtN fo kb f) (ihC : StmtC fo kb f)
    (t : Term) (σ : Subst) (nb : Bool) (child : Option Node) (idx n : Nat)
    (G0 : G) (st : Step) (k : List CG) (bar h : Nat) (B : List CFrame)
    (hn : next fo kb (f + 1) (.call t σ nb child idx n) G0 = .ok st)
    (hcn : okN (.call t σ nb child idx n)) (hg : GOK G0) (hB : B.length = h) (hbar : bar ≤ h) :
    RefC fo kb st G0 (absC false (.call t σ nb child idx n) k bar h ++ B) k bar h B ∧
    st.cut = false := by
    refine ⟨?_, ?_⟩
    · simp only [next, Node.nb] at hn
      by_cases hnb : nb = true
      · subst hnb
        simp at hn; subst hn
        refine ⟨⟨by simp only [absC_call_nb, bOf, List.nil_append, Bool.false_eq_true, if_false]; exact CSteps.refl,
          fun _ k' b' h' => absC_call_nb _ _ _ _ _ _ _ _ _⟩, hcn, hg⟩
      · have hnb' : nb = false := by simpa using hnb
        subst hnb'
        simp only [Bool.false_eq_true, if_false] at hn
        cases child with
        | none =>
          simp only at hn
          have := (ihC t σ false none idx n G0 st k bar h B hn rfl trivial hg hB hbar).1
          simpa [absC] using this
        | some c =>
          simp only at hn
          obtain ⟨r, hr, hn⟩ := Res.bind_eq_ok.mp hn
          have hcn' : okN c := hcn
          obtain ⟨href, _, hat, _⟩ := ihN c G0 r (grpK c h (.endB h false :: k)) h (h + (cTry t σ idx n k).length) (cTry t σ idx n k ++ B) hr hcn' hg
            (len_try_app _ _ _ hB) (by omega)
          have hstart : absC false (.call t σ false (some c) idx n) k bar h ++ B =
              absC false c (grpK c h (.endB h false :: k)) h (h + (cTry t σ idx n k).length) ++ (cTry t σ idx n k ++ B) := by
            simp [absC, List.append_assoc]
          rw [hstart]
          by_cases hsol : r.sol.isSome = true
          · simp only [hsol, if_true] at hn
            cases hn
            obtain ⟨σ', hσ'⟩ := Option.isSome_iff_exists.mp hsol
            refine ⟨?_, ?_, href.2.2⟩
            · simp only [hσ', kOf, hOf, bOf, Bool.false_eq_true, if_false]
              exact body_some fo kb f c G0 hr _ t σ idx n k h B hB σ' hσ' href hat bar
            · show okN (.call t σ (false || r.cut) (some r.node) idx n)
              exact href.2.1
          · have hnone : r.sol = none := sol_none_of hsol
            simp only [hsol, Bool.false_eq_true, if_false] at hn
            obtain ⟨hrun, hdead⟩ := body_none fo kb r G0 _ t σ idx n _ h B hB hnone href
            have hcl := ihC t σ (false || r.cut) none idx n r.g st k bar h B hn
            cases hc : r.cut with
            | false =>
              rw [hc] at hcl hrun
              have := (hcl rfl trivial href.2.2 hB hbar).1
              exact RefC.pre (by simpa using hrun) this
            | true =>
              -- a cut ran in the body, which then failed: the call is over
              rw [hc] at hn hrun
              cases f with
              | zero => simp [callLoop] at hn
              | succ f' =>
                simp [callLoop] at hn
                subst hn
                refine ⟨⟨by simpa [bOf] using hrun, fun _ k' b' h' => absC_call_nb _ _ _ _ _ _ _ _ _⟩, trivial, href.2.2⟩
    · simp only [next, Node.nb] at hn
      by_cases hnb : nb = true
      · subst hnb; simp at hn; subst hn; rfl
      · have hnb' : nb = false := by simpa using hnb
        subst hnb'
        simp only [Bool.false_eq_true, if_false] at hn
        cases child with
        | none => exact (ihC t σ false none idx n G0 st k bar h B hn rfl trivial hg hB hbar).2
        | some c =>
          simp only at hn
          obtain ⟨r, hr, hn⟩ := Res.bind_eq_ok.mp hn
          by_cases hsol : r.sol.isSome = true
          · simp only [hsol, if_true] at hn; cases hn; rfl
          · simp only [hsol, Bool.false_eq_true, if_false] at hn
            cases f with
            | zero => simp [callLoop] at hn
            | succ f' =>
              cases hc : r.cut with
              | true => rw [hc] at hn; simp [callLoop] at hn; subst hn; rfl
              | false =>
                rw [hc] at hn
                have hcn' : okN c := hcn
                have href := (ihN c G0 r (grpK c h (.endB h false :: k)) h (h + (cTry t σ idx n k).length) (cTry t σ idx n k ++ B) hr hcn' hg
                  (len_try_app _ _ _ hB) (by omega)).1
                exact (ihC t σ (false || false) none idx n r.g st k bar h B hn rfl trivial href.2.2 hB hbar).2

/-- the node of a clause body against the goals of the body -/
theorem mkBody_steps (fo : FloatOps) (kb : KB) (body : Goal) (hb : okG body = true) (hnn : body.isNil = false)
    (σ : Subst) (G0 : G) (N : Node) (G1 : G) (k : List CG) (h h' : Nat) (S : List CFrame)
    (hm : mkNode fo.showF kb body σ G0 = .ok (N, G1)) (hok : GOK G0) :
    CSteps fo kb ⟨.goals (bodyK body h k) σ :: S, G0.counter, G0.out⟩
      ⟨absC false N (grpK N h (.endB h false :: k)) h h' ++ S, G0.counter, G0.out⟩ ∧
      G1.counter = G0.counter ∧ G1.out = G0.out ∧ GOK G1 ∧ okN N := by
  have a := mkG_steps fo kb body σ G0 N G1 (.endB h false :: k) h h' S hm hb hok
  refine ⟨?_, a.2.1, a.2.2.1, a.2.2.2.1, a.2.2.2.2.1⟩
  have e : bodyK body h k = CG.g body h :: CG.endB h false :: k := by simp [bodyK, hnn]
  rw [e]; exact a.1

theorem step_callLoop (fo : FloatOps) (kb : KB) (hkb : OkKB kb) (f : Nat) (ihN : StmtN fo kb f) (ihC : StmtC fo kb f)
    (t : Term) (σ : Subst) (child : Option Node) (idx n : Nat)
    (G0 : G) (st : Step) (k : List CG) (bar h : Nat) (B : List CFrame)
    (hn : callLoop fo kb (f + 1) t σ false child idx n G0 = .ok st)
    (hch : StaleOK child)
    (hg : GOK G0) (hB : B.length = h) (hbar : bar ≤ h) :
    RefC fo kb st G0 (cTry t σ idx n k ++ B) k bar h B ∧ st.cut = false := by
  simp only [callLoop, Bool.false_eq_true, if_false] at hn
  -- the call node with its stale child stands for the clauses still to be tried
  have hstale : ∀ c i k' b' h', absC c (.call t σ false child i n) k' b' h' = cTry t σ i n k' := by
    intro c i k' b' h'
    cases child with
    | none => simp [absC]
    | some ch => simp [absC, hch.1 _ _ _]
  have hcn : ∀ i, okN (.call t σ false child i n) := by
    intro i
    cases child with
    | none => trivial
    | some ch => exact hch.2
  by_cases hge : idx ≥ n
  · simp only [hge, if_true] at hn
    cases hn
    have e : ∀ k', cTry t σ idx n k' = [] := by intro k'; simp [cTry]; omega
    refine ⟨⟨⟨by simp only [e, bOf, List.nil_append, Bool.false_eq_true, if_false]; exact CSteps.refl,
      fun _ k' b' h' => by rw [hstale, e]⟩, hcn idx, hg⟩, rfl⟩
  · simp only [hge, if_false] at hn
    have hlt : idx < n := by omega
    obtain ⟨key, hkey, hn⟩ := Res.bind_eq_ok.mp hn
    obtain ⟨rc, hrc, hn⟩ := Res.bind_eq_ok.mp hn
    have hrc' : getRule kb key idx G0.counter = .ok (rc.1, rc.2) := by rw [hrc]
    have etry : cTry t σ idx n k = [.try t σ idx n k] := by simp [cTry, hlt]
    cases hu : unify fo f rc.1.head t σ with
    | oof => rw [hu] at hn; cases hn
    | panic => rw [hu] at hn; cases hn
    | fail =>
      rw [hu] at hn
      simp only at hn
      obtain ⟨r1, r2⟩ := ihC t σ false child (idx + 1) n G0 st k bar h B hn rfl hch hg hB hbar
      refine ⟨RefC.pre ?_ r1, r2⟩
      rw [etry]
      exact CSteps.one (CStep.clauseFail hkey hrc' hu)
    | ok σ' =>
      rw [hu] at hn
      simp only at hn
      have hflat := hkb key idx G0.counter rc.1 rc.2 hrc'
      have hstep : CStep fo kb ⟨.try t σ idx n k :: B, G0.counter, G0.out⟩
          ⟨.goals (bodyK rc.1.body B.length k) σ' :: (cTry t σ (idx + 1) n k ++ B), rc.2, G0.out⟩ :=
        CStep.clauseOk hkey hrc' hu
      rw [hB] at hstep
      by_cases hnil : rc.1.body.isNil = true
      · simp only [hnil, if_true] at hn
        cases hn
        refine ⟨⟨?_, hcn (idx + 1), ⟨hg.1, hg.2⟩⟩, rfl⟩
        simp only [kOf, hOf, bOf, Bool.false_eq_true, if_false, hstale, etry, List.cons_append, List.nil_append]
        have : bodyK rc.1.body h k = k := by simp [bodyK, hnil]
        rw [this] at hstep
        exact CSteps.one hstep
      · have hnil' : rc.1.body.isNil = false := by simpa using hnil
        have hokb : okG rc.1.body = true := by
          rcases hflat with hf | hf
          · rw [hf] at hnil'; cases hnil'
          · exact hf
        simp only [hnil', Bool.false_eq_true, if_false] at hn
        obtain ⟨m, hm, hn⟩ := Res.bind_eq_ok.mp hn
        obtain ⟨r, hr, hn⟩ := Res.bind_eq_ok.mp hn
        let G1 : G := { G0 with counter := rc.2 }
        have hg1 : GOK G1 := ⟨hg.1, hg.2⟩
        obtain ⟨hmk, hmc, hmo, hmg, hmcn⟩ := mkBody_steps fo kb rc.1.body hokb hnil' σ' G1 m.1 m.2 k h
          (h + (cTry t σ (idx + 1) n k).length) (cTry t σ (idx + 1) n k ++ B) hm hg1
        obtain ⟨href, _, hat, _⟩ := ihN m.1 m.2 r (grpK m.1 h (.endB h false :: k)) h (h + (cTry t σ (idx + 1) n k).length) (cTry t σ (idx + 1) n k ++ B)
          hr hmcn hmg (len_try_app _ _ _ hB) (by omega)
        -- from the try frame to the frames of the body node
        have hpre : CSteps fo kb ⟨cTry t σ idx n k ++ B, G0.counter, G0.out⟩
            ⟨absC false m.1 (grpK m.1 h (.endB h false :: k)) h (h + (cTry t σ (idx + 1) n k).length) ++ (cTry t σ (idx + 1) n k ++ B), m.2.counter, m.2.out⟩ := by
          rw [etry, hmc, hmo]
          exact (CSteps.one hstep).trans hmk
        by_cases hsol : r.sol.isSome = true
        · simp only [hsol, if_true] at hn
          cases hn
          obtain ⟨σ2, hσ2⟩ := Option.isSome_iff_exists.mp hsol
          refine ⟨⟨?_, ?_, href.2.2⟩, rfl⟩
          · simp only [hσ2, kOf, hOf, bOf, Bool.false_eq_true, if_false]
            exact hpre.trans (body_some fo kb f m.1 m.2 hr _ t σ (idx + 1) n k h B hB σ2 hσ2 href hat bar)
          · show okN (.call t σ (false || r.cut) (some r.node) (idx + 1) n)
            exact href.2.1
        · have hnone : r.sol = none := sol_none_of hsol
          simp only [hsol, Bool.false_eq_true, if_false] at hn
          obtain ⟨hrun, hdead⟩ := body_none fo kb r m.2 _ t σ (idx + 1) n _ h B hB hnone href
          cases hc : r.cut with
          | false =>
            rw [hc] at hn hrun
            have hd := hdead hc
            obtain ⟨r1, r2⟩ := ihC t σ (false || false) (some r.node) (idx + 1) n r.g st k bar h B hn rfl
              ⟨hd, href.2.1⟩ href.2.2 hB hbar
            exact ⟨RefC.pre (hpre.trans (by simpa using hrun)) r1, r2⟩
          | true =>
            rw [hc] at hn hrun
            cases f with
            | zero => simp [callLoop] at hn
            | succ f' =>
              simp [callLoop] at hn
              subst hn
              refine ⟨⟨⟨?_, fun _ k' b' h' => absC_call_nb _ _ _ _ _ _ _ _ _⟩, href.2.1, href.2.2⟩, rfl⟩
              simp only [bOf, Bool.false_eq_true, if_false]
              exact hpre.trans (by simpa using hrun)

@[reducible] def optOk : Option Node → Prop
  | some tn => okN tn
  | none => True

theorem okN_and {σ : Subst} {nb more : Bool} {head : Node} {rest : GoalList} {tail : Option Node}
    (h1 : okGL rest = true) (h2 : okN head) (h3 : optOk tail)
    (h4 : rest.length = 0 → tail = none) : okN (.op .and σ nb more head rest tail) := by
  unfold okN; cases tail <;> exact ⟨h1, h2, h3, h4⟩

theorem okN_or {σ : Subst} {nb more : Bool} {head : Node} {rest : GoalList} {tail : Option Node}
    (h1 : okGL rest = true) (h2 : okN head) (h3 : optOk tail) : okN (.op .or σ nb more head rest tail) := by
  unfold okN; cases tail <;> exact ⟨h1, h2, h3⟩

theorem absC_and_none (c : Bool) (σ : Subst) (more : Bool) (head : Node) (rest : GoalList) (K : List CG) (bar H : Nat) :
    absC c (.op .and σ c more head rest none) K bar H = absC false head (grpK head bar (gl rest bar ++ K)) bar H := by
  cases c <;> simp [absC]

theorem absC_and_some (c : Bool) (σ : Subst) (more : Bool) (head : Node) (rest : GoalList) (tn : Node) (K : List CG) (bar H : Nat) :
    absC c (.op .and σ c more head rest (some tn)) K bar H =
      absC c tn K bar (H + (absC false head (grpK head bar (gl rest bar ++ K)) bar H).length) ++
        absC false head (grpK head bar (gl rest bar ++ K)) bar H := by
  cases c <;> simp [absC]

theorem TailOK.ok {c : Bool} {tail : Option Node} (h : TailOK c tail) : optOk tail := by
  cases tail with
  | none => trivial
  | some tn => exact h.1

theorem step_andLoop (fo : FloatOps) (kb : KB) (f : Nat) (ihN : StmtN fo kb f) (ihA : StmtA fo kb f)
    (σ : Subst) (nb more : Bool) (head : Node) (rest : GoalList) (tail : Option Node) (cutAcc : Bool)
    (G0 : G) (st : Step) (k : List CG) (bar h : Nat) (B : List CFrame)
    (hn : andLoop fo kb (f + 1) σ nb more head rest tail cutAcc G0 = .ok st)
    (hnb : nb = cutAcc) (hflat : okGL rest = true) (hch : okN head) (hmark : cutAcc = true → head.nb = true)
    (htl : TailOK cutAcc tail) (hrt : rest.length = 0 → tail = none) (hg : GOK G0) (hB : B.length = h) (hbar : bar ≤ h) :
    RefC fo kb st G0 (absC false head (grpK head bar (gl rest bar ++ kOf cutAcc k)) bar (hOf cutAcc bar h) ++ bOf cutAcc B bar) k bar h B ∧
    (cutAcc = true → st.cut = true) ∧
    (st.cut = false → tailAsk tail → askable st.node) := by
  subst hnb
  simp only [andLoop] at hn
  obtain ⟨r, hr, hn⟩ := Res.bind_eq_ok.mp hn
  have hbB : bar ≤ B.length := by omega
  have htlok := htl.ok
  cases nb with
  | true =>
    -- a cut has run: the head is marked and the conjunction is over
    have e := next_marked fo kb f head G0 r hr (hmark rfl)
    subst e
    simp only at hn
    cases hn
    refine ⟨⟨⟨?_, fun hc => (by cases hc)⟩, okN_and hflat hch htlok hrt, hg⟩, fun _ => rfl, fun hc => (by cases hc)⟩
    rw [absC_nb head (hmark rfl)]
    exact CSteps.refl
  | false =>
    simp only [kOf, hOf, bOf, Bool.false_eq_true, if_false, Bool.false_or] at hn ⊢
    obtain ⟨href, _, hat, _⟩ := ihN head G0 r (grpK head bar (gl rest bar ++ k)) bar h B hr hch hg hB hbar
    have hhead1 : okN (if r.cut then r.node.setNb else r.node) := by
      split
      · exact okN_setNb _ href.2.1
      · exact href.2.1
    refine ⟨?_, fun hc => (by cases hc), ?_⟩
    · -- the refinement
      cases hs : r.sol with
      | none =>
        rw [hs] at hn
        simp only at hn
        cases hn
        have h1 := href.1
        rw [hs] at h1
        refine ⟨⟨h1.1, ?_⟩, okN_and hflat hhead1 htlok hrt, href.2.2⟩
        intro hc k' b' h'
        have hc' : r.cut = false := hc
        have hd := h1.2 hc'
        simp only [hc', Bool.false_eq_true, if_false]
        cases tail with
        | none => simp [absC, hd _ _ _]
        | some tn => simp [absC, hd _ _ _, (htl.2 rfl) _ _ _]
      | some ss =>
        rw [hs] at hn
        simp only at hn
        have hd := head_done fo kb f head G0 r _ (gl rest bar ++ k) bar h B hr hB hbar href hat ss hs
        rw [kOf_gl] at hd
        by_cases hrl : (rest.length == 0) = true
        · -- the last goal of the conjunction
          simp only [hrl, if_true] at hn
          cases hn
          have hr0 : rest.length = 0 := by simpa using hrl
          have htn : tail = none := hrt hr0
          subst htn
          have hgl : gl rest bar = [] := by
            cases rest with
            | nil => exact gl_nil bar
            | cons _ _ => simp [GoalList.length] at hr0
          refine ⟨?_, okN_and hflat hhead1 trivial hrt, href.2.2⟩
          simp only [hs]
          rw [absC_and_none, hgl]
          rw [hgl] at hd
          exact hd
        · -- the rest of the conjunction is asked under the head's answer
          simp only [hrl, Bool.false_eq_true, if_false] at hn
          have hrne : rest.length ≠ 0 := by simpa using hrl
          obtain ⟨m, hm, hn⟩ := Res.bind_eq_ok.mp hn
          obtain ⟨r2, hr2, hn⟩ := Res.bind_eq_ok.mp hn
          generalize hhd1 : (if r.cut then r.node.setNb else r.node) = head1 at *
          generalize hc1 : r.cut = c1 at *
          generalize hHd : absC false head1 (grpK head1 bar (gl rest bar ++ kOf c1 k)) bar (hOf c1 bar h) = Hd at *
          generalize hB1 : bOf c1 B bar = B1 at *
          have hlenB1 : B1.length = hOf c1 bar h := by rw [← hB1]; exact bOf_length c1 B bar h hB hbar
          have hbarB1 : bar ≤ B1.length := by rw [hlenB1]; unfold hOf; split <;> omega
          obtain ⟨hmk, hmc, hmo, hmg, hmcn, hmask⟩ := mkRest_steps fo kb rest hflat hrne ss r.g m.1 m.2 (kOf c1 k) bar
            (hOf c1 bar h + Hd.length) (Hd ++ B1) hm href.2.2
          have hpre : CSteps fo kb ⟨absC false head (grpK head bar (gl rest bar ++ k)) bar h ++ B, G0.counter, G0.out⟩
              ⟨absC false m.1 (kOf c1 k) bar (hOf c1 bar h + Hd.length) ++ (Hd ++ B1), m.2.counter, m.2.out⟩ := by
            rw [hmc, hmo]
            exact hd.trans hmk
          obtain ⟨href2, _, _, hask2⟩ := ihN m.1 m.2 r2 (kOf c1 k) bar (hOf c1 bar h + Hd.length) (Hd ++ B1) hr2 hmcn hmg
            (by rw [List.length_append, hlenB1]; omega) (by rw [← hlenB1]; omega)
          have etr : truncate (Hd ++ B1) bar = bOf true B bar := by
            rw [bOf_app _ _ _ hbarB1, ← hB1]
            have := bOf_bOf true c1 B bar hbB
            simp only [Bool.or_true] at this
            exact this
          cases hs2 : r2.sol with
          | some σ2 =>
            rw [hs2] at hn
            simp only [Option.isSome_some, if_true] at hn
            cases hn
            have h2 := href2.1
            rw [hs2] at h2
            refine ⟨?_, okN_and hflat (by split; exact okN_setNb _ hhead1; exact hhead1) href2.2.1 (fun h0 => absurd h0 hrne), href2.2.2⟩
            simp only
            cases hc2 : r2.cut with
            | false =>
              rw [hc2] at h2
              simp only [kOf, hOf, bOf, Bool.false_eq_true, if_false, Bool.or_false] at h2 ⊢
              have eq : absC c1 r2.node (if c1 then markCut k else k) bar ((if c1 then bar else h) + Hd.length) =
                  absC false r2.node (if c1 then markCut k else k) bar ((if c1 then bar else h) + Hd.length) := by
                cases c1 with
                | false => rfl
                | true => exact absC_askable _ (hask2 hc2 hmask) _ _ _
              rw [absC_and_some]
              simp only [kOf, hOf] at hHd
              rw [hHd, eq, List.append_assoc]
              simp only [kOf, hOf, bOf] at hpre hB1
              rw [hB1]
              exact hpre.trans h2
            | true =>
              rw [hc2] at h2
              have e1 : kOf true (kOf c1 k) = kOf true k := by rw [kOf_kOf]; simp
              rw [e1] at h2
              simp only [Bool.or_true, if_true]
              rw [absC_and_some, absC_setNb head1]
              simp only [bOf, if_true] at h2
              rw [etr] at h2
              simp only [hOf, if_true] at h2 ⊢
              simpa using hpre.trans h2
          | none =>
            rw [hs2] at hn
            simp only [Option.isSome_none, Bool.false_eq_true, if_false] at hn
            have h2 := href2.1
            rw [hs2] at h2
            have htl2 : TailOK (c1 || r2.cut) (some r2.node) := by
              refine ⟨href2.2.1, fun hc => ?_⟩
              have hc' : c1 = false ∧ r2.cut = false := by simpa using hc
              exact h2.2 hc'.2
            have hmark2 : (c1 || r2.cut) = true → (if r2.cut then head1.setNb else head1).nb = true := by
              intro hc
              cases hc2 : r2.cut with
              | true => simp only [if_true]; exact setNb_nb _
              | false =>
                rw [hc2] at hc
                have : c1 = true := by simpa using hc
                subst this
                simp only [Bool.false_eq_true, if_false]
                rw [← hhd1]; simp only [if_true]; exact setNb_nb _
            obtain ⟨ra, rb, rc⟩ := ihA σ (c1 || r2.cut) more _ rest (some r2.node) (c1 || r2.cut) r2.g st k bar h B hn rfl hflat
              (by split; exact okN_setNb _ hhead1; exact hhead1) hmark2 htl2 (fun h0 => absurd h0 hrne) href2.2.2 hB hbar
            refine RefC.pre (hpre.trans ?_) ra
            cases hc2 : r2.cut with
            | false =>
              have := h2.1; rw [hc2] at this
              simp only [Bool.false_eq_true, if_false, Bool.or_false, hHd, hB1]
              simpa [bOf] using this
            | true =>
              have := h2.1; rw [hc2] at this
              simp only [bOf, if_true] at this
              rw [etr] at this
              simp only [if_true, Bool.or_true]
              rw [absC_setNb head1, List.nil_append]
              exact this
    · -- unmarked chains stay unmarked when no cut ran
      intro hcut htask
      cases hs : r.sol with
      | none =>
        rw [hs] at hn
        simp only at hn
        cases hn
        have hc' : r.cut = false := hcut
        unfold askable
        exact ⟨hc', htask⟩
      | some ss =>
        rw [hs] at hn
        simp only at hn
        by_cases hrl : (rest.length == 0) = true
        · simp only [hrl, if_true] at hn
          cases hn
          have hc' : r.cut = false := hcut
          unfold askable
          exact ⟨hc', htask⟩
        · simp only [hrl, Bool.false_eq_true, if_false] at hn
          have hrne : rest.length ≠ 0 := by simpa using hrl
          obtain ⟨m, hm, hn⟩ := Res.bind_eq_ok.mp hn
          obtain ⟨r2, hr2, hn⟩ := Res.bind_eq_ok.mp hn
          have hmask : askable m.1 := by
            have := mkRest_steps fo kb rest hflat hrne ss r.g m.1 m.2 [] 0 0 [] hm href.2.2
            exact this.2.2.2.2.2
          have hmcn : okN m.1 := (mkRest_steps fo kb rest hflat hrne ss r.g m.1 m.2 [] 0 0 [] hm href.2.2).2.2.2.2.1
          have hmg : GOK m.2 := (mkRest_steps fo kb rest hflat hrne ss r.g m.1 m.2 [] 0 0 [] hm href.2.2).2.2.2.1
          obtain ⟨href2, _, _, hask2⟩ := ihN m.1 m.2 r2 [] 0 0 [] hr2 hmcn hmg rfl (Nat.le_refl _)
          cases hs2 : r2.sol with
          | some σ2 =>
            rw [hs2] at hn
            simp only [Option.isSome_some, if_true] at hn
            cases hn
            have hc' : r.cut = false ∧ r2.cut = false := by simpa using hcut
            unfold askable
            exact ⟨by simp [hc'.1, hc'.2], hask2 hc'.2 hmask⟩
          | none =>
            rw [hs2] at hn
            simp only [Option.isSome_none, Bool.false_eq_true, if_false] at hn
            have h2 := href2.1
            rw [hs2] at h2
            have hmark2 : (r.cut || r2.cut) = true → (if r2.cut then (if r.cut then r.node.setNb else r.node).setNb else (if r.cut then r.node.setNb else r.node)).nb = true := by
              intro hc
              cases hc2 : r2.cut with
              | true => simp only [if_true]; exact setNb_nb _
              | false =>
                rw [hc2] at hc
                have : r.cut = true := by simpa using hc
                simp only [this, if_true, Bool.false_eq_true, if_false]; exact setNb_nb _
            have htl2 : TailOK (r.cut || r2.cut) (some r2.node) := by
              refine ⟨href2.2.1, fun hc => ?_⟩
              have hc' : r.cut = false ∧ r2.cut = false := by simpa using hc
              exact h2.2 hc'.2
            obtain ⟨_, rb, rc⟩ := ihA σ (r.cut || r2.cut) more _ rest (some r2.node) (r.cut || r2.cut) r2.g st [] 0 0 [] hn rfl hflat
              (by split; exact okN_setNb _ hhead1; exact hhead1) hmark2 htl2 (fun h0 => absurd h0 hrne) href2.2.2 rfl (Nat.le_refl _)
            refine rc hcut ?_
            have hcc : (r.cut || r2.cut) = false := by
              cases hcc : (r.cut || r2.cut) with
              | false => rfl
              | true => have := rb hcc; rw [this] at hcut; cases hcut
            have hc' : r.cut = false ∧ r2.cut = false := by simpa using hcc
            exact hask2 hc'.2 hmask

theorem step_and (fo : FloatOps) (kb : KB) (f : Nat) (ihN : StmtN fo kb f) (ihA : StmtA fo kb f)
    (σ : Subst) (nb more : Bool) (head : Node) (rest : GoalList) (tail : Option Node)
    (G0 : G) (st : Step) (k : List CG) (bar h : Nat) (B : List CFrame)
    (hn : next fo kb (f + 1) (.op .and σ nb more head rest tail) G0 = .ok st)
    (hcn : okN (.op .and σ nb more head rest tail))
    (hg : GOK G0) (hB : B.length = h) (hbar : bar ≤ h) :
    RefC fo kb st G0 (absC false (.op .and σ nb more head rest tail) k bar h ++ B) k bar h B ∧
    (st.cut = false → askable (.op .and σ nb more head rest tail) → askable st.node) := by
  cases nb with
  | true =>
    have e := next_marked fo kb (f + 1) _ G0 st hn rfl
    subst e
    refine ⟨⟨⟨?_, fun _ => absC_nb _ rfl⟩, hcn, hg⟩, fun _ ha => ha⟩
    rw [absC_nb _ rfl]
    exact CSteps.refl
  | false =>
    unfold okN at hcn
    obtain ⟨hflat, hch, htn, hrt⟩ := hcn
    have hbB : bar ≤ B.length := by omega
    simp only [next, Node.nb, Bool.false_eq_true, if_false] at hn
    cases tail with
    | none =>
      simp only at hn
      obtain ⟨ra, _, rc⟩ := ihA σ false more head rest none false G0 st k bar h B hn rfl hflat hch (fun hc => by cases hc) trivial hrt hg hB hbar
      refine ⟨?_, fun hc _ => rc hc trivial⟩
      simpa [absC, kOf, hOf, bOf] using ra
    | some tn =>
      simp only at hn
      obtain ⟨r, hr, hn⟩ := Res.bind_eq_ok.mp hn
      generalize hHd : absC false head (grpK head bar (gl rest bar ++ k)) bar h = Hd
      have hstart : absC false (.op .and σ false more head rest (some tn)) k bar h ++ B = absC false tn k bar (h + Hd.length) ++ (Hd ++ B) := by
        simp [absC, hHd, List.append_assoc]
      rw [hstart]
      have htn' : okN tn := htn
      obtain ⟨href, _, _, haskr⟩ := ihN tn G0 r k bar (h + Hd.length) (Hd ++ B) hr htn' hg
        (by rw [List.length_append, hB]; omega) (by omega)
      have hhead1 : okN (if r.cut then head.setNb else head) := by
        split
        · exact okN_setNb _ hch
        · exact hch
      have hrne : rest.length ≠ 0 := fun h0 => by have := hrt h0; cases this
      have etr : truncate (Hd ++ B) bar = truncate B bar := bOf_app _ _ _ hbB
      by_cases hsol : r.sol.isSome = true
      · simp only [hsol, if_true, Bool.false_or] at hn
        cases hn
        obtain ⟨σ', hσ'⟩ := Option.isSome_iff_exists.mp hsol
        have h1 := href.1
        rw [hσ'] at h1
        refine ⟨⟨?_, okN_and hflat hhead1 href.2.1 (fun h0 => absurd h0 hrne), href.2.2⟩, ?_⟩
        · simp only [hσ']
          rw [absC_and_some]
          cases hc : r.cut with
          | false =>
            rw [hc] at h1
            simp only [kOf, hOf, bOf, Bool.false_eq_true, if_false] at h1 ⊢
            rw [hHd, List.append_assoc]
            exact h1
          | true =>
            rw [hc] at h1
            simp only [kOf, hOf, bOf, if_true] at h1 ⊢
            rw [etr] at h1
            rw [absC_setNb head]
            simpa using h1
        · intro hc ha
          have hc' : r.cut = false := hc
          unfold askable at ha ⊢
          exact ⟨hc', haskr hc' ha.2⟩
      · have hnone : r.sol = none := sol_none_of hsol
        simp only [hsol, Bool.false_eq_true, if_false, Bool.false_or] at hn
        have h1 := href.1
        rw [hnone] at h1
        have htl2 : TailOK r.cut (some r.node) := ⟨href.2.1, fun hc => h1.2 hc⟩
        have hmark : r.cut = true → (if r.cut then head.setNb else head).nb = true := by
          intro hc; simp only [hc, if_true]; exact setNb_nb _
        obtain ⟨ra, rb, rc⟩ := ihA σ r.cut more (if r.cut then head.setNb else head) rest (some r.node) r.cut r.g st k bar h B hn
          rfl hflat hhead1 hmark htl2 (fun h0 => absurd h0 hrne) href.2.2 hB hbar
        refine ⟨RefC.pre ?_ ra, ?_⟩
        · cases hc : r.cut with
          | false =>
            have := h1.1; rw [hc] at this
            simp only [kOf, hOf, bOf, Bool.false_eq_true, if_false, hHd] at this ⊢
            exact this
          | true =>
            have := h1.1; rw [hc] at this
            simp only [bOf, if_true] at this
            rw [etr] at this
            simp only [kOf, hOf, bOf, if_true]
            rw [absC_setNb head, List.nil_append]
            exact this
        · intro hc ha
          have hrc : r.cut = false := by
            cases hrc : r.cut with
            | false => rfl
            | true => have := rb hrc; rw [this] at hc; cases hc
          unfold askable at ha
          exact rc hc (haskr hrc ha.2)

theorem absC_or_some (c : Bool) (σ : Subst) (more : Bool) (head : Node) (rest : GoalList) (tn : Node) (K : List CG) (bar H : Nat) :
    absC c (.op .or σ c more head rest (some tn)) K bar H = absC c tn K bar H := by
  cases c <;> simp [absC]

theorem absC_or_none (c : Bool) (σ : Subst) (more : Bool) (head : Node) (rest : GoalList) (K : List CG) (bar H : Nat) :
    absC c (.op .or σ c more head rest none) K bar H =
      absC false head (grpK head bar K) bar (H + (if c then [] else altF rest bar K σ).length) ++ (if c then [] else altF rest bar K σ) := by
  cases c <;> simp [absC]

theorem step_or (fo : FloatOps) (kb : KB) (f : Nat) (ihN : StmtN fo kb f)
    (σ : Subst) (nb more : Bool) (head : Node) (rest : GoalList) (tail : Option Node)
    (G0 : G) (st : Step) (k : List CG) (bar h : Nat) (B : List CFrame)
    (hn : next fo kb (f + 1) (.op .or σ nb more head rest tail) G0 = .ok st)
    (hcn : okN (.op .or σ nb more head rest tail))
    (hg : GOK G0) (hB : B.length = h) (hbar : bar ≤ h) :
    RefC fo kb st G0 (absC false (.op .or σ nb more head rest tail) k bar h ++ B) k bar h B ∧
    (st.cut = false → askable (.op .or σ nb more head rest tail) → askable st.node) := by
  cases nb with
  | true =>
    have e := next_marked fo kb (f + 1) _ G0 st hn rfl
    subst e
    refine ⟨⟨⟨?_, fun _ => absC_nb _ rfl⟩, hcn, hg⟩, fun _ ha => ha⟩
    rw [absC_nb _ rfl]
    exact CSteps.refl
  | false =>
    unfold okN at hcn
    obtain ⟨hflat, hch, htn⟩ := hcn
    have hbB : bar ≤ B.length := by omega
    simp only [next, Node.nb, Bool.false_eq_true, if_false] at hn
    cases tail with
    | some tn =>
      simp only at hn
      obtain ⟨r, hr, hn⟩ := Res.bind_eq_ok.mp hn
      simp only [Bool.false_or] at hn
      cases hn
      have htn' : okN tn := htn
      obtain ⟨href, _, _, haskr⟩ := ihN tn G0 r k bar h B hr htn' hg hB hbar
      have hhead1 : okN (if r.cut then head.setNb else head) := by
        split
        · exact okN_setNb _ hch
        · exact hch
      have hstart : absC false (.op .or σ false more head rest (some tn)) k bar h = absC false tn k bar h := by simp [absC]
      rw [hstart]
      refine ⟨⟨?_, okN_or hflat hhead1 href.2.1, href.2.2⟩, ?_⟩
      · have h1 := href.1
        cases hs : r.sol with
        | some σ' =>
          rw [hs] at h1
          simp only
          rw [absC_or_some]
          exact h1
        | none =>
          rw [hs] at h1
          refine ⟨h1.1, fun hc k' b' h' => ?_⟩
          have hc' : r.cut = false := hc
          simp only [hc']
          rw [absC_or_some false]
          exact h1.2 hc' _ _ _
      · intro hc ha
        have hc' : r.cut = false := hc
        unfold askable at ha ⊢
        exact ⟨hc', haskr hc' ha.2⟩
    | none =>
      simp only at hn
      obtain ⟨r, hr, hn⟩ := Res.bind_eq_ok.mp hn
      simp only [Bool.false_or] at hn
      generalize hA : altF rest bar k σ = A at *
      have hstart : absC false (.op .or σ false more head rest none) k bar h ++ B =
          absC false head (grpK head bar k) bar (h + A.length) ++ (A ++ B) := by
        rw [absC_or_none false]; simp [hA, List.append_assoc]
      rw [hstart]
      obtain ⟨href, _, hat, _⟩ := ihN head G0 r (grpK head bar k) bar (h + A.length) (A ++ B) hr hch hg
        (by rw [List.length_append, hB]; omega) (by omega)
      have hhead1 : okN (if r.cut then r.node.setNb else r.node) := by
        split
        · exact okN_setNb _ href.2.1
        · exact href.2.1
      have etr : truncate (A ++ B) bar = truncate B bar := bOf_app _ _ _ hbB
      by_cases hsol : r.sol.isSome = true
      · simp only [hsol, if_true] at hn
        cases hn
        obtain ⟨σ', hσ'⟩ := Option.isSome_iff_exists.mp hsol
        have hd := head_done fo kb f head G0 r _ k bar (h + A.length) (A ++ B) hr
          (by rw [List.length_append, hB]; omega) (by omega) href hat σ' hσ'
        refine ⟨⟨?_, okN_or hflat hhead1 trivial, href.2.2⟩, ?_⟩
        · simp only [hσ']
          rw [absC_or_none]
          cases hc : r.cut with
          | false =>
            rw [hc] at hd
            simp only [kOf, hOf, bOf, Bool.false_eq_true, if_false, hA] at hd ⊢
            rw [List.append_assoc]
            exact hd
          | true =>
            rw [hc] at hd
            simp only [kOf, hOf, bOf, if_true] at hd ⊢
            rw [etr] at hd
            rw [absC_setNb r.node] at hd ⊢
            simpa using hd
        · intro hc _
          have hc' : r.cut = false := hc
          unfold askable
          exact ⟨hc', trivial⟩
      · have hnone : r.sol = none := sol_none_of hsol
        simp only [hsol, Bool.false_eq_true, if_false] at hn
        have h1 := href.1
        rw [hnone] at h1
        by_cases hrl : (rest.length == 0) = true
        · simp only [hrl, if_true] at hn
          cases hn
          have hr0 : rest.length = 0 := by simpa using hrl
          have hA0 : A = [] := by rw [← hA]; simp [altF, hr0]
          subst hA0
          refine ⟨⟨⟨by simpa using h1.1, ?_⟩, okN_or hflat hhead1 trivial, href.2.2⟩, ?_⟩
          · intro hc k' b' h'
            have hc' : r.cut = false := hc
            simp only [hc', Bool.false_eq_true, if_false]
            rw [absC_or_none false]
            simp [altF, hr0, h1.2 hc' _ _ _]
          · intro hc _
            have hc' : r.cut = false := hc
            unfold askable
            exact ⟨hc', trivial⟩
        · simp only [hrl, Bool.false_eq_true, if_false] at hn
          have hrne : rest.length ≠ 0 := by simpa using hrl
          cases hc : r.cut with
          | true =>
            rw [hc] at hn
            simp only [if_true] at hn
            cases hn
            refine ⟨⟨⟨?_, fun hcc => by cases hcc⟩, okN_or hflat (okN_setNb _ href.2.1) trivial, href.2.2⟩, fun hcc => by cases hcc⟩
            have := h1.1; rw [hc] at this
            simp only [bOf, if_true] at this ⊢
            rw [etr] at this
            exact this
          | false =>
            rw [hc] at hn
            simp only [Bool.false_eq_true, if_false, Bool.false_or] at hn
            obtain ⟨m, hm, hn⟩ := Res.bind_eq_ok.mp hn
            obtain ⟨r2, hr2, hn⟩ := Res.bind_eq_ok.mp hn
            cases hn
            obtain ⟨hmk, hmc, hmo, hmg, hmcn, hmask⟩ := mkAlt_steps fo kb rest hflat hrne σ r.g m.1 m.2 k bar h B hm href.2.2
            obtain ⟨href2, _, _, hask2⟩ := ihN m.1 m.2 r2 k bar h B hr2 hmcn hmg hB hbar
            have hpre : CSteps fo kb ⟨absC false head (grpK head bar k) bar (h + A.length) ++ (A ++ B), G0.counter, G0.out⟩
                ⟨absC false m.1 k bar h ++ B, m.2.counter, m.2.out⟩ := by
              rw [hmc, hmo]
              have := h1.1; rw [hc] at this
              simp only [bOf, Bool.false_eq_true, if_false] at this
              rw [← hA] at this ⊢
              exact this.trans hmk
            have hhead2 : okN (if r2.cut then r.node.setNb else r.node) := by
              split
              · exact okN_setNb _ href.2.1
              · exact href.2.1
            refine ⟨⟨?_, okN_or hflat hhead2 href2.2.1, href2.2.2⟩, ?_⟩
            · have h2 := href2.1
              cases hs2 : r2.sol with
              | some σ2 =>
                rw [hs2] at h2
                simp only
                rw [absC_or_some]
                exact hpre.trans h2
              | none =>
                rw [hs2] at h2
                refine ⟨hpre.trans h2.1, fun hcc k' b' h' => ?_⟩
                have hc' : r2.cut = false := hcc
                simp only [hc']
                rw [absC_or_some false]
                exact h2.2 hc' _ _ _
            · intro hcc _
              have hc' : r2.cut = false := hcc
              unfold askable
              exact ⟨hc', hask2 hc' hmask⟩

theorem step_not (fo : FloatOps) (kb : KB) (f : Nat) (ihN : StmtN fo kb f)
    (σ : Subst) (nb more : Bool) (head : Node) (rest : GoalList) (tail : Option Node)
    (G0 : G) (st : Step) (k : List CG) (bar h : Nat) (B : List CFrame)
    (hn : next fo kb (f + 1) (.op .not σ nb more head rest tail) G0 = .ok st)
    (hcn : okN (.op .not σ nb more head rest tail)) (hg : GOK G0) :
    RefC fo kb st G0 (absC false (.op .not σ nb more head rest tail) k bar h ++ B) k bar h B ∧ st.cut = false := by
  cases nb with
  | true =>
    have e := next_marked fo kb (f + 1) _ G0 st hn rfl
    subst e
    refine ⟨⟨⟨?_, fun _ => absC_nb _ rfl⟩, hcn, hg⟩, rfl⟩
    rw [absC_nb _ rfl]
    exact CSteps.refl
  | false =>
    have hcn0 := hcn
    unfold okN at hcn
    obtain ⟨hch, hnch⟩ := hcn
    simp only [next, Node.nb, Bool.false_eq_true, if_false] at hn
    cases more with
    | false =>
      simp only [Bool.not_false, if_true] at hn
      cases hn
      refine ⟨⟨⟨?_, fun _ k' b' h' => by simp [absC]⟩, hcn0, hg⟩, rfl⟩
      simp only [absC, Bool.not_false, Bool.or_true, if_true, List.nil_append, bOf, Bool.false_eq_true, if_false]
      exact CSteps.refl
    | true =>
      simp only [Bool.not_true, Bool.false_eq_true, if_false] at hn
      obtain ⟨r, hr, hn⟩ := Res.bind_eq_ok.mp hn
      obtain ⟨hrc, hrn⟩ := (nc_all fo kb f).1 head G0 r hr hnch
      obtain ⟨href, _, hat, _⟩ := ihN head G0 r (grpK head 0 []) 0 0 [] hr hch hg rfl (Nat.le_refl _)
      simp only [hrc, Bool.false_eq_true, if_false, Bool.or_false] at hn
      cases hn
      have hokn : okN (.op .not σ false false r.node rest tail) := by unfold okN; exact ⟨href.2.1, hrn⟩
      refine ⟨⟨?_, hokn, href.2.2⟩, rfl⟩
      have hstart : absC false (.op .not σ false true head rest tail) k bar h ++ B =
          .notF (absC false head (grpK head 0 []) 0 0) σ k :: B := by simp [absC]
      rw [hstart]
      cases hs : r.sol with
      | some σ' =>
        have hd := head_done fo kb f head G0 r _ [] 0 0 [] hr rfl (Nat.le_refl _) href hat σ' hs
        rw [hrc] at hd
        simp only [kOf, hOf, bOf, Bool.false_eq_true, if_false, List.append_nil] at hd
        have := hd.notIn σ k B
        simp only at this
        simp only [Option.isSome_some, if_true]
        refine ⟨?_, fun _ k' b' h' => by simp [absC]⟩
        simp only [bOf, Bool.false_eq_true, if_false]
        exact this.trans (CSteps.one CStep.notFail)
      | none =>
        have h1 := href.1
        rw [hs] at h1
        have h2 := h1.1
        rw [hrc] at h2
        simp only [bOf, Bool.false_eq_true, if_false, List.append_nil] at h2
        have := h2.notIn σ k B
        simp only at this
        simp only [Option.isSome_none, Bool.false_eq_true, if_false, kOf, hOf, bOf]
        have e : absC false (.op .not σ false false r.node rest tail) k bar h = [] := by simp [absC]
        rw [e, List.nil_append]
        exact this.trans (CSteps.one CStep.notOk)

theorem step_time (fo : FloatOps) (kb : KB) (f : Nat) (ihN : StmtN fo kb f)
    (σ : Subst) (nb more : Bool) (head : Node) (rest : GoalList) (tail : Option Node)
    (G0 : G) (st : Step) (k : List CG) (bar h : Nat) (B : List CFrame)
    (hn : next fo kb (f + 1) (.op .time σ nb more head rest tail) G0 = .ok st)
    (hcn : okN (.op .time σ nb more head rest tail)) (hg : GOK G0) :
    RefC fo kb st G0 (absC false (.op .time σ nb more head rest tail) k bar h ++ B) k bar h B ∧ st.cut = false := by
  cases nb with
  | true =>
    have e := next_marked fo kb (f + 1) _ G0 st hn rfl
    subst e
    refine ⟨⟨⟨?_, fun _ => absC_nb _ rfl⟩, hcn, hg⟩, rfl⟩
    rw [absC_nb _ rfl]
    exact CSteps.refl
  | false =>
    have hcn0 := hcn
    unfold okN at hcn
    obtain ⟨hch, hnch⟩ := hcn
    simp only [next, Node.nb, Bool.false_eq_true, if_false] at hn
    cases more with
    | false =>
      simp only [Bool.not_false, if_true] at hn
      cases hn
      refine ⟨⟨⟨?_, fun _ k' b' h' => by simp [absC]⟩, hcn0, hg⟩, rfl⟩
      simp only [absC, Bool.not_false, Bool.or_true, if_true, List.nil_append, bOf, Bool.false_eq_true, if_false]
      exact CSteps.refl
    | true =>
      simp only [Bool.not_true, Bool.false_eq_true, if_false] at hn
      obtain ⟨r, hr, hn⟩ := Res.bind_eq_ok.mp hn
      obtain ⟨hrc, hrn⟩ := (nc_all fo kb f).1 head G0 r hr hnch
      obtain ⟨href, _, hat, _⟩ := ihN head G0 r (grpK head 0 []) 0 0 [] hr hch hg rfl (Nat.le_refl _)
      simp only [hrc, Bool.false_eq_true, if_false, Bool.or_false] at hn
      cases hn
      have hokn : okN (.op .time σ false false r.node rest tail) := by unfold okN; exact ⟨href.2.1, hrn⟩
      have ho := cEmit_eq r.g "<elapsed>"
      refine ⟨⟨?_, hokn, GOK_emit href.2.2 _⟩, rfl⟩
      have hstart : absC false (.op .time σ false true head rest tail) k bar h ++ B =
          .timeF (absC false head (grpK head 0 []) 0 0) k :: B := by simp [absC]
      rw [hstart]
      have e : absC false (.op .time σ false false r.node rest tail) k bar h = [] := by simp [absC]
      cases hs : r.sol with
      | some σ' =>
        have hd := head_done fo kb f head G0 r _ [] 0 0 [] hr rfl (Nat.le_refl _) href hat σ' hs
        rw [hrc] at hd
        simp only [kOf, hOf, bOf, Bool.false_eq_true, if_false, List.append_nil] at hd
        have := hd.timeIn k B
        simp only at this
        simp only [kOf, hOf, bOf, Bool.false_eq_true, if_false]
        rw [e, List.nil_append, ho.1, ho.2]
        exact this.trans (CSteps.one CStep.timeSome)
      | none =>
        have h1 := href.1
        rw [hs] at h1
        have h2 := h1.1
        rw [hrc] at h2
        simp only [bOf, Bool.false_eq_true, if_false, List.append_nil] at h2
        have := h2.timeIn k B
        simp only at this
        refine ⟨?_, fun _ k' b' h' => by simp [absC]⟩
        simp only [bOf, Bool.false_eq_true, if_false]
        rw [ho.1, ho.2]
        exact this.trans (CSteps.one CStep.timeNone)

/-- REFINEMENT with the cut and nested groups: by induction on the fuel, for `next`, the clause loop and the conjunction
    loop together -/
theorem next_refines_group (fo : FloatOps) (kb : KB) (hkb : OkKB kb) : ∀ f, StmtN fo kb f ∧ StmtC fo kb f ∧ StmtA fo kb f := by
  intro f
  induction f with
  | zero =>
    refine ⟨?_, ?_, ?_⟩
    · intro N G0 st k bar h B hn; simp [next] at hn
    · intro t σ nb child idx n G0 st k bar h B hn; simp [callLoop] at hn
    · intro σ nb more head rest tail cutAcc G0 st k bar h B hn; simp [andLoop] at hn
  | succ f ih =>
    obtain ⟨ihN, ihC, ihA⟩ := ih
    refine ⟨?_, ?_, ?_⟩
    · intro N G0 st k bar h B hn hcn hg hB hbar
      cases N with
      | bip name args σ nb more =>
        obtain ⟨a, b, c⟩ := step_bip fo kb f name args σ nb more G0 st k bar h B hn hg
        refine ⟨a, ?_, fun _ => b, fun _ _ => c⟩
        rintro ⟨_, _, _, _, _, _, e⟩; cases e
      | call t σ nb child idx n =>
        obtain ⟨a, b⟩ := step_call fo kb f ihN ihC t σ nb child idx n G0 st k bar h B hn hcn hg hB hbar
        refine ⟨a, fun _ => b, ?_, ?_⟩
        · intro _ hc; rw [b] at hc; cases hc
        · intro _ _
          have := next_kind fo kb (f + 1) _ G0 st hn
          cases hs : st.node with
          | bip _ _ _ _ _ => trivial
          | call _ _ _ _ _ _ => trivial
          | op kd _ _ _ _ _ _ => rw [hs] at this; cases kd <;> simp [kindOf] at this
      | op kd σ nb more head rest tail =>
        cases kd with
        | and =>
          obtain ⟨a, b⟩ := step_and fo kb f ihN ihA σ nb more head rest tail G0 st k bar h B hn hcn hg hB hbar
          refine ⟨a, ?_, fun hgr => by simp [isGrp] at hgr, b⟩
          rintro ⟨_, _, _, _, _, _, e⟩; cases e
        | or =>
          obtain ⟨a, b⟩ := step_or fo kb f ihN σ nb more head rest tail G0 st k bar h B hn hcn hg hB hbar
          refine ⟨a, ?_, fun hgr => by simp [isGrp] at hgr, b⟩
          rintro ⟨_, _, _, _, _, _, e⟩; cases e
        | not =>
          obtain ⟨a, b⟩ := step_not fo kb f ihN σ nb more head rest tail G0 st k bar h B hn hcn hg
          refine ⟨a, fun _ => b, ?_, ?_⟩
          · intro _ hc; rw [b] at hc; cases hc
          · intro _ _
            have := next_kind fo kb (f + 1) _ G0 st hn
            cases hs : st.node with
            | bip _ _ _ _ _ => trivial
            | call _ _ _ _ _ _ => trivial
            | op kd _ _ _ _ _ _ => rw [hs] at this; cases kd <;> first | trivial | simp [kindOf] at this
        | time =>
          obtain ⟨a, b⟩ := step_time fo kb f ihN σ nb more head rest tail G0 st k bar h B hn hcn hg
          refine ⟨a, fun _ => b, ?_, ?_⟩
          · intro _ hc; rw [b] at hc; cases hc
          · intro _ _
            have := next_kind fo kb (f + 1) _ G0 st hn
            cases hs : st.node with
            | bip _ _ _ _ _ => trivial
            | call _ _ _ _ _ _ => trivial
            | op kd _ _ _ _ _ _ => rw [hs] at this; cases kd <;> first | trivial | simp [kindOf] at this
    · intro t σ nb child idx n G0 st k bar h B hn hnb hch hg hB hbar
      subst hnb
      exact step_callLoop fo kb hkb f ihN ihC t σ child idx n G0 st k bar h B hn hch hg hB hbar
    · intro σ nb more head rest tail cutAcc G0 st k bar h B hn hnb hflat hch hmark htl hrt hg hB hbar
      exact step_andLoop fo kb f ihN ihA σ nb more head rest tail cutAcc G0 st k bar h B hn hnb hflat hch hmark htl hrt hg hB hbar

/-- the requests on a call node of the fragment show what the reference machine with cut and groups shows from the
    node's frames -/
theorem engine_refines_group_machine (fo : FloatOps) (kb : KB) (hkb : OkKB kb) :
    ∀ (fs : List Nat) (N : Node) (g : G), okN N → kindOf N = 1 → GOK g →
      CRun fo kb ⟨absC false N [] 0 0, g.counter, g.out⟩ (askOut fo kb fs N g) := by
  intro fs
  induction fs with
  | nil => intros; exact .nil
  | cons f fs ih =>
    intro N g hcn hk hg
    simp only [askOut]
    cases hn : next fo kb f N g with
    | ok st =>
      have hcall : ∃ t σ nb child idx n, N = .call t σ nb child idx n := by
        cases N with
        | bip _ _ _ _ _ => simp [kindOf] at hk
        | call t σ nb child idx n => exact ⟨_, _, _, _, _, _, rfl⟩
        | op kd _ _ _ _ _ _ => cases kd <;> simp [kindOf] at hk
      obtain ⟨href, hcf, _, _⟩ := (next_refines_group fo kb hkb f).1 N g st [] 0 0 [] hn hcn hg rfl (Nat.le_refl _)
      have hc := hcf hcall
      have hk' : kindOf st.node = 1 := by rw [next_kind fo kb f N g st hn, hk]
      simp only
      have h1 := href.1
      rw [hc] at h1
      cases hs : st.sol with
      | some σ' =>
        rw [hs] at h1
        simp only [kOf, hOf, bOf, Bool.false_eq_true, if_false, List.append_nil] at h1
        exact .ans h1 (ih st.node st.g href.2.1 hk' href.2.2)
      | none =>
        rw [hs] at h1
        simp only [bOf, Bool.false_eq_true, if_false, List.append_nil] at h1
        have := ih st.node st.g href.2.1 hk' href.2.2
        rw [h1.2 trivial [] 0 0] at this
        exact .fin h1.1 this
    | fail => exact .nil
    | panic => exact .nil
    | oof => exact .nil

/-- the same from the query: the machine started on the query goal -/
theorem query_refines_group_machine (fo : FloatOps) (kb : KB) (hkb : OkKB kb) (q : Term) (σ0 : Subst) (g0 g1 : G) (N : Node)
    (hmk : mkNode fo.showF kb (.call q) σ0 g0 = .ok (N, g1)) (hg : GOK g0) (fs : List Nat) :
    CRun fo kb ⟨[.goals [.g (.call q) 0] σ0], g0.counter, g0.out⟩ (askOut fo kb fs N g1) := by
  obtain ⟨hsteps, hc, ho, hg1, hcn, _⟩ := mkG_steps fo kb (.call q) σ0 g0 N g1 [] 0 0 [] hmk rfl hg
  have hk : kindOf N = 1 := by
    simp only [mkNode] at hmk
    obtain ⟨_, _, hmk⟩ := Res.bind_eq_ok.mp hmk
    cases hmk; rfl
  have hgk : grpK N 0 [] = [] := by
    simp only [mkNode] at hmk
    obtain ⟨_, _, hmk⟩ := Res.bind_eq_ok.mp hmk
    cases hmk; rfl
  have := engine_refines_group_machine fo kb hkb fs N g1 hcn hk hg1
  rw [hc, ho] at this
  rw [hgk] at hsteps
  simp only [List.append_nil] at hsteps
  exact CRun.pre hsteps this

end Suiron.Spec.Grp
