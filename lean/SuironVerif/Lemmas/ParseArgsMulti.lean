/-
  C20 beyond tokens: a structured text AMONG OTHER ARGUMENTS.

  `parse_arguments (T1, T2, ..., Tn) = [parse_term T1, ..., parse_term Tn]` for structured texts Ti (as in
  `Lemmas/ParseArgSim.lean`) written with `, ` between them: the scan of one argument up to its comma (`simPre`), the
  comma step (`comma_step`), the blank after the comma (`argsLoop_ws`), by induction on the list of arguments.
-/
import SuironVerif.Lemmas.ParseArgSim
import SuironVerif.Lemmas.ParseListSim
namespace Suiron.Parse
open Suiron

/-- the scan of one argument that is followed by more text: as `sim`, up to the end of the argument -/
theorem simPre (mk : Text → Bool → Bool → Bool → Res Term) (signOK : Bool) (post : Text) :
    ∀ (a : Text) (st : ArgSt) (acc : Bool × Bool × Bool) (i : Nat),
      st.esc = false → (∀ c ∈ a, c ≠ '\\') → noTopComma a st.dp = true → Rel st acc → i = st.arg.length →
      (∀ x, st.arg.head? = some x → isWs x = false) → (st.arg = [] → ∀ x, a.head? = some x → isWs x = false) →
      (i = 0 → signOK = isDigit (((a ++ post).drop 1).head?.getD 'x')) →
      ∃ st', argsLoop mk (a ++ post) st = argsLoop mk post st' ∧ st'.esc = false ∧ st'.arg = st.arg ++ a ∧ st'.dp = dpScan a st.dp ∧
        st'.numQuotes = st.numQuotes + qCount a st.dp ∧ st'.terms = st.terms ∧ st'.pending = st.pending ∧
        Rel st' (flagLoop signOK a i acc) := by
  intro a
  induction a with
  | nil =>
    intro st acc i hesc _ _ hrel _ _ _ _
    exact ⟨st, by simp, hesc, by simp, rfl, by simp [qCount], rfl, rfl, by simpa [flagLoop] using hrel⟩
  | cons ch a ih =>
    intro st acc i hesc hbs hcm hrel hi hhd hch0 hs
    simp only [noTopComma, Bool.and_eq_true, Bool.not_eq_true'] at hcm
    have hbs1 : (ch == '\\') = false := by simpa using hbs ch (by simp)
    obtain ⟨st1, h1, he1, ha1, hd1, hq1, ht1, hp1, hr1⟩ := sim_step mk ch (a ++ post) st acc i signOK hesc hbs1 hcm.1 hrel hi hhd
      (fun h => hch0 h ch rfl) (fun h => by simpa using hs h)
    have hhd1 : ∀ x, st1.arg.head? = some x → isWs x = false := by
      intro x hx
      rw [ha1] at hx
      cases harg : st.arg with
      | nil => rw [harg] at hx; simp at hx; subst hx; exact hch0 harg ch rfl
      | cons b t => rw [harg] at hx; simp at hx; subst hx; exact hhd b (by rw [harg]; rfl)
    obtain ⟨st', h2, he2, ha2, hd2, hq2, ht2, hp2, hr2⟩ := ih st1 (flagStep ch (i == 0 && signOK) acc) (i + 1) he1
      (fun c hc => hbs c (by simp [hc])) (by rw [hd1]; exact hcm.2) hr1 (by rw [ha1, hi]; simp) hhd1
      (fun h => by rw [ha1] at h; simp at h) (fun h => by omega)
    refine ⟨st', ?_, he2, by rw [ha2, ha1]; simp, by rw [hd2, hd1]; rfl, ?_, by rw [ht2, ht1], by rw [hp2, hp1], by simpa [flagLoop] using hr2⟩
    · simp only [List.cons_append, argsLoop, h1, Res.bind_ok]; exact h2
    · rw [hq2, hq1, hd1, Nat.add_assoc]; rfl

/-- the flags of the two scanners agree where `make_term` looks at them (the heart of `parseArguments_structured`) -/
theorem flags_agree (po : POps) (f : Nat) (s : Text) (st' : ArgSt) (T : Bool × Bool × Bool) (htrim : trim s = s) (hne : s ≠ [])
    (harg : st'.arg = s) (hq : st'.numQuotes = qCount s ⟨0, 0, false⟩) (hrel : Rel st' T)
    (hcq : checkQuotes s (qCount s ⟨0, 0, false⟩) = .ok ()) :
    makeTerm po f s st'.hasDigit (st'.hasNonDigit || s.any isWs) st'.hasPeriod = makeTerm po f s T.1 T.2.1 T.2.2 := by
  by_cases hq0 : qCount s ⟨0, 0, false⟩ = 0
  · cases hnd : T.2.1 with
    | false =>
      obtain ⟨_, _, _, a4, a5, a6, a7, _⟩ := hrel.num hnd
      rw [harg] at a7
      rw [a4, a5, a6, a7]; rfl
    | true =>
      have h3 := hrel.nd hnd
      rw [harg, hq, hq0] at h3
      have : (st'.hasNonDigit || s.any isWs) = true := by
        rcases h3 with h | h | h
        · simp [h]
        · simp [h]
        · exact absurd h (Nat.lt_irrefl 0)
      rw [this]
      exact makeTerm_nondigit po f s _ _ _ _
  · obtain ⟨h2, hh⟩ := checkQuotes_ok hcq hq0
    have hlen : 2 ≤ s.length := by have := qCount_le_length s ⟨0, 0, false⟩; omega
    cases hs : s with
    | nil => exact absurd hs hne
    | cons first t =>
      rw [hs] at hh htrim hlen
      simp at hh; subst hh
      exact makeTerm_quoted po f t htrim hlen _ _ _ _ _ _

theorem trim_ws_prefix (w : Text) (hw : ∀ c ∈ w, isWs c = true) (x : Text) : trim (w ++ x) = trim x := by
  unfold trim trimStart
  congr 1
  induction w with
  | nil => rfl
  | cons a w ih =>
    simp only [List.cons_append, List.dropWhile, hw a (by simp), if_true]
    exact ih (fun c hc => hw c (by simp [hc]))

/-- blanks collected at the beginning of an argument make no difference to what one step does: the same state with the
    blanks in front, or (at a comma, where the argument is trimmed and emptied) the very same result -/
theorem argStep_ws (mk : Text → Bool → Bool → Bool → Res Term) (w : Text) (hw : ∀ c ∈ w, isWs c = true)
    (ch : Char) (rest : Text) (st : ArgSt) :
    (∃ st1, argStep mk ch rest st = .ok st1 ∧ argStep mk ch rest { st with arg := w ++ st.arg } = .ok { st1 with arg := w ++ st1.arg }) ∨
    argStep mk ch rest { st with arg := w ++ st.arg } = argStep mk ch rest st := by
  obtain ⟨hd, hnd, hp, oq, nq, rd, sq, arg, terms, pend, esc⟩ := st
  unfold argStep
  simp only
  cases esc with
  | true => simp only [if_true]; left; exact ⟨_, rfl, by simp [ArgSt.push]⟩
  | false =>
    simp only [Bool.false_eq_true, if_false]
    cases oq with
    | true => simp only [if_true]; left; exact ⟨_, rfl, by simp [ArgSt.push]⟩
    | false =>
      simp only [Bool.false_eq_true, if_false]
      by_cases h3 : (ch == '"' && !(rd == 0 && sq == 0)) = true
      · simp only [h3, if_true]; left; exact ⟨_, rfl, by simp [ArgSt.push]⟩
      · have h3' : (ch == '"' && !(rd == 0 && sq == 0)) = false := by simpa using h3
        simp only [h3', Bool.false_eq_true, if_false]
        by_cases e1 : (ch == '[') = true
        · simp only [e1, if_true]; left; exact ⟨_, rfl, by simp [ArgSt.push]⟩
        · have e1' : (ch == '[') = false := by simpa using e1
          simp only [e1', Bool.false_eq_true, if_false]
          by_cases e2 : (ch == ']') = true
          · simp only [e2, if_true]; left; exact ⟨_, rfl, by simp [ArgSt.push]⟩
          · have e2' : (ch == ']') = false := by simpa using e2
            simp only [e2', Bool.false_eq_true, if_false]
            by_cases e3 : (ch == '(') = true
            · simp only [e3, if_true]; left; exact ⟨_, rfl, by simp [ArgSt.push]⟩
            · have e3' : (ch == '(') = false := by simpa using e3
              simp only [e3', Bool.false_eq_true, if_false]
              by_cases e4 : (ch == ')') = true
              · simp only [e4, if_true]; left; exact ⟨_, rfl, by simp [ArgSt.push]⟩
              · have e4' : (ch == ')') = false := by simpa using e4
                simp only [e4', Bool.false_eq_true, if_false]
                by_cases ht : (rd == 0 && sq == 0) = true
                · simp only [ht, if_true]
                  unfold argStepTop
                  by_cases c1 : (ch == ',') = true
                  · -- the comma: the argument is trimmed, so the blanks in front do not matter
                    simp only [c1, if_true]
                    right
                    unfold argComma
                    simp only [trim_ws_prefix w hw]
                  · have c1' : (ch == ',') = false := by simpa using c1
                    simp only [c1', Bool.false_eq_true, if_false]
                    by_cases c2 : isDigit ch = true
                    · simp only [c2, if_true]; left; exact ⟨_, rfl, by simp [ArgSt.push]⟩
                    · have c2' : isDigit ch = false := by simpa using c2
                      simp only [c2', Bool.false_eq_true, if_false]
                      by_cases c3 : (ch == '+' || ch == '-') = true
                      · simp only [c3, if_true]; left
                        refine ⟨_, rfl, ?_⟩
                        simp only [argSign, ArgSt.push, List.append_assoc, trim_ws_prefix w hw]
                      · have c3' : (ch == '+' || ch == '-') = false := by simpa using c3
                        simp only [c3', Bool.false_eq_true, if_false]
                        by_cases c4 : (ch == '.') = true
                        · simp only [c4, if_true]; left; exact ⟨_, rfl, by simp [ArgSt.push]⟩
                        · have c4' : (ch == '.') = false := by simpa using c4
                          simp only [c4', Bool.false_eq_true, if_false]
                          by_cases c5 : (ch == '\\') = true
                          · simp only [c5, if_true]
                            by_cases c6 : rest.isEmpty = true
                            · simp only [c6, if_true]; left; exact ⟨_, rfl, by simp [ArgSt.push]⟩
                            · have c6' : rest.isEmpty = false := by simpa using c6
                              simp only [c6', Bool.false_eq_true, if_false]; left; exact ⟨_, rfl, by simp⟩
                          · have c5' : (ch == '\\') = false := by simpa using c5
                            simp only [c5', Bool.false_eq_true, if_false]
                            by_cases c7 : (ch == '"') = true
                            · simp only [c7, if_true]; left; exact ⟨_, rfl, by simp [ArgSt.push]⟩
                            · have c7' : (ch == '"') = false := by simpa using c7
                              simp only [c7', Bool.false_eq_true, if_false]; left; exact ⟨_, rfl, by simp [ArgSt.push]⟩
                · have ht' : (rd == 0 && sq == 0) = false := by simpa using ht
                  simp only [ht', Bool.false_eq_true, if_false]; left; exact ⟨_, rfl, by simp [ArgSt.push]⟩

theorem argsLoop_ws (mk : Text → Bool → Bool → Bool → Res Term) (w : Text) (hw : ∀ c ∈ w, isWs c = true) :
    ∀ (text : Text) (st : ArgSt), argsLoop mk text { st with arg := w ++ st.arg } = argsLoop mk text st := by
  intro text
  induction text with
  | nil =>
    intro st
    simp only [argsLoop, argsFinish, trim_ws_prefix w hw]
  | cons ch rest ih =>
    intro st
    simp only [argsLoop]
    rcases argStep_ws mk w hw ch rest st with ⟨st1, h1, h2⟩ | h
    · rw [h1, h2]; simp only [Res.bind_ok]; exact ih st1
    · rw [h]

/-! ### several arguments -/

/-- the arguments written one after the other with `, ` between them -/
def joinArgs : List Text → Text
  | [] => []
  | [a] => a
  | a :: b :: rest => a ++ ',' :: ' ' :: joinArgs (b :: rest)

/-- each text parsed on its own, in order -/
def parseAll (pt : Text → Res Term) : List Text → Res (List Term)
  | [] => .ok []
  | a :: rest => (pt a).bind fun t => (parseAll pt rest).bind fun ts => .ok (t :: ts)

/-- the conditions on one argument among others: as `Structured`, with its quotes closed as well (else the comma after
    it would belong to it) -/
structure ArgOK (s : Text) : Prop where
  trimmed : trim s = s
  nonempty : s ≠ []
  noBackslash : ∀ c ∈ s, c ≠ '\\'
  noTopComma : noTopComma s ⟨0, 0, false⟩ = true
  closed : dpScan s ⟨0, 0, false⟩ = ⟨0, 0, false⟩
  noInfix : (checkArithmeticInfix s).1 = .none

theorem lookahead_eq (a post : Text) (hne : a ≠ []) (hp : ∀ x, post.head? = some x → isDigit x = false) :
    isDigit (((a ++ post).drop 1).head?.getD 'x') = isDigit ((a.drop 1).head?.getD 'x') := by
  cases a with
  | nil => exact absurd rfl hne
  | cons c t =>
    cases t with
    | nil =>
      simp only [List.cons_append, List.nil_append, List.drop_succ_cons, List.drop_zero, List.drop_nil, List.head?_nil, Option.getD_none]
      cases hh : post.head? with
      | none => rfl
      | some x => simp only [Option.getD_some]; rw [hp x hh]; decide
    | cons d u => simp

/-- the last character of a closed text without a comma of its own is not a comma -/
theorem last_not_comma (s : Text) (hcm : noTopComma s ⟨0, 0, false⟩ = true) (hcl : dpScan s ⟨0, 0, false⟩ = ⟨0, 0, false⟩) :
    s.getLast? ≠ some ',' := by
  intro hl
  obtain ⟨p, hp⟩ : ∃ p, s = p ++ [','] := by
    cases hs : s.reverse with
    | nil => simp at hs; subst hs; simp at hl
    | cons c r =>
      have : s = r.reverse ++ [c] := by
        have := congrArg List.reverse hs; simpa using this
      rw [this, List.getLast?_concat] at hl
      simp at hl; subst hl
      exact ⟨r.reverse, this⟩
  have h1 := noTopComma_split p ',' [] ⟨0, 0, false⟩ (by rw [← hp]; exact hcm)
  rw [hp, dpScan_append] at hcl
  simp only [dpScan] at hcl
  generalize dpScan p ⟨0, 0, false⟩ = dP at h1 hcl
  obtain ⟨r, q, o⟩ := dP
  cases o with
  | true => simp [dpStep] at hcl
  | false =>
    simp only [dpStep, Bool.false_eq_true, if_false, show ((',' : Char) == '"') = false from by decide,
      show ((',' : Char) == '[') = false from by decide, show ((',' : Char) == ']') = false from by decide,
      show ((',' : Char) == '(') = false from by decide, show ((',' : Char) == ')') = false from by decide, Dp.mk.injEq] at hcl
    simp [topComma, hcl.1, hcl.2.1] at h1

/-- the state in which an argument begins, with the terms read so far -/
def argStart (ts : List Term) : ArgSt := { terms := ts }

theorem rel_start (ts : List Term) : Rel (argStart ts) (false, false, false) :=
  ⟨fun h => (by cases h), fun h => (by cases h), fun _ => ⟨rfl, rfl, rfl, rfl, rfl, rfl, rfl, rfl⟩,
   fun h => (by rcases h with h | h <;> exact absurd rfl h), fun h => (by cases h)⟩

theorem comma_state (st' : ArgSt) (ts : List Term) (hesc : st'.esc = false) (hopen : st'.openQuote = false)
    (hround : st'.round = 0) (hsquare : st'.square = 0) :
    ({ st' with numQuotes := 0, terms := ts, arg := [], hasDigit := false, hasNonDigit := false, hasPeriod := false,
                pending := true } : ArgSt) = argStart ts := by
  obtain ⟨x1, x2, x3, x4, x5, x6, x7, x8, x9, x10, x11⟩ := st'
  simp only at hesc hopen hround hsquare
  subst hesc; subst hopen; subst hround; subst hsquare
  rfl

/-- a comma outside quotes, parentheses and brackets ends the argument -/
theorem comma_step (mk : Text → Bool → Bool → Bool → Res Term) (rest : Text) (st' : ArgSt) (hesc : st'.esc = false)
    (hopen : st'.openQuote = false) (hround : st'.round = 0) (hsquare : st'.square = 0) :
    argStep mk ',' rest st' = argComma mk rest st' := by
  unfold argStep
  simp only [hesc, hopen, Bool.false_eq_true, if_false, hround, hsquare,
    show ((',' : Char) == '"') = false from by decide, show ((',' : Char) == '[') = false from by decide,
    show ((',' : Char) == ']') = false from by decide, show ((',' : Char) == '(') = false from by decide,
    show ((',' : Char) == ')') = false from by decide, Bool.false_and, show ((0 : Int) == 0 && (0 : Int) == 0) = true from rfl, if_true]
  unfold argStepTop
  simp only [show ((',' : Char) == ',') = true from by decide, if_true]

/-- the blank after a comma is collected and changes nothing else -/
theorem blank_step (mk : Text → Bool → Bool → Bool → Res Term) (rest : Text) (ts : List Term) :
    argStep mk ' ' rest (argStart ts) = .ok { argStart ts with arg := [' '] ++ (argStart ts).arg } := by
  unfold argStep
  simp [argStart, argStepTop, ArgSt.push, isDigit, isWs]

theorem argsLoop_multi (po : POps) (f : Nat) :
    ∀ (as : List Text), as ≠ [] → (∀ a ∈ as, ArgOK a) → ∀ (ts : List Term),
      argsLoop (makeTerm po f) (joinArgs as) (argStart ts) =
        (parseAll (parseTerm po (f + 1)) as).bind fun vs => .ok (ts ++ vs)
  | [], h, _, _ => absurd rfl h
  | [a], _, hok, ts => by
    have ha := hok a (by simp)
    have hhead := trim_head_nonws ha.trimmed
    obtain ⟨st', hloop, harg, hdp, hq, hterms, hpend, hrel⟩ :=
      sim (makeTerm po f) (isDigit ((a.drop 1).head?.getD 'x')) a (argStart ts) (false, false, false) 0 rfl ha.noBackslash
        (by simpa [argStart, ArgSt.dp] using ha.noTopComma) (rel_start ts) rfl
        (fun x hx => by cases hx) (fun _ => hhead) (fun _ => rfl)
    have harg' : st'.arg = a := by simpa [argStart] using harg
    have hq' : st'.numQuotes = qCount a ⟨0, 0, false⟩ := by simpa [argStart, ArgSt.dp] using hq
    have hdp' : st'.dp = ⟨0, 0, false⟩ := by rw [hdp]; simpa [argStart, ArgSt.dp] using ha.closed
    have hround : st'.round = 0 := congrArg Dp.round hdp'
    have hsquare : st'.square = 0 := congrArg Dp.square hdp'
    have hterms' : st'.terms = ts := hterms
    have hpend' : st'.pending = true := hpend
    simp only [joinArgs, hloop, parseAll]
    unfold argsFinish
    simp only [hpend', if_true, harg', ha.trimmed, hq', hterms', hround, hsquare, bne_self_eq_false, Bool.false_eq_true, if_false]
    rw [parseTerm_structured po f a ha.trimmed ha.noBackslash ha.noInfix, termFlags_eq]
    cases hcq : checkQuotes a (qCount a ⟨0, 0, false⟩) with
    | ok u =>
      simp only [Res.bind_ok]
      rw [flags_agree po f a st' _ ha.trimmed ha.nonempty harg' hq' hrel (by rw [hcq])]
      cases makeTerm po f a _ _ _ <;> simp [Res.bind]
    | fail => simp [Res.bind]
    | panic => simp [Res.bind]
    | oof => simp [Res.bind]
  | a :: b :: rest, _, hok, ts => by
    have ha := hok a (by simp)
    have hhead := trim_head_nonws ha.trimmed
    have ih := argsLoop_multi po f (b :: rest) (by simp) (fun x hx => hok x (by simp [hx]))
    obtain ⟨st', hloop, hesc, harg, hdp, hq, hterms, hpend, hrel⟩ :=
      simPre (makeTerm po f) (isDigit ((a.drop 1).head?.getD 'x')) (',' :: ' ' :: joinArgs (b :: rest)) a (argStart ts)
        (false, false, false) 0 rfl ha.noBackslash (by simpa [argStart, ArgSt.dp] using ha.noTopComma) (rel_start ts) rfl
        (fun x hx => by cases hx) (fun _ => hhead)
        (fun _ => (lookahead_eq a _ ha.nonempty (fun x hx => by simp at hx; subst hx; decide)).symm)
    have harg' : st'.arg = a := by simpa [argStart] using harg
    have hq' : st'.numQuotes = qCount a ⟨0, 0, false⟩ := by simpa [argStart, ArgSt.dp] using hq
    have hdp' : st'.dp = ⟨0, 0, false⟩ := by rw [hdp]; simpa [argStart, ArgSt.dp] using ha.closed
    have hround : st'.round = 0 := congrArg Dp.round hdp'
    have hsquare : st'.square = 0 := congrArg Dp.square hdp'
    have hopen : st'.openQuote = false := congrArg Dp.oq hdp'
    have hterms' : st'.terms = ts := hterms
    simp only [joinArgs, hloop]
    rw [show parseAll (parseTerm po (f + 1)) (a :: b :: rest) =
      (parseTerm po (f + 1) a).bind fun t => (parseAll (parseTerm po (f + 1)) (b :: rest)).bind fun ts => .ok (t :: ts) from rfl]
    -- the comma, then the blank after it
    rw [argsLoop, comma_step (makeTerm po f) _ st' hesc hopen hround hsquare]
    unfold argComma
    simp only [harg', ha.trimmed, hq', hterms', List.isEmpty_cons, Bool.not_false]
    rw [parseTerm_structured po f a ha.trimmed ha.noBackslash ha.noInfix, termFlags_eq]
    cases hcq : checkQuotes a (qCount a ⟨0, 0, false⟩) with
    | fail => simp [Res.bind]
    | panic => simp [Res.bind]
    | oof => simp [Res.bind]
    | ok u =>
      simp only [Res.bind_ok]
      rw [flags_agree po f a st' _ ha.trimmed ha.nonempty harg' hq' hrel (by rw [hcq])]
      cases hmk : makeTerm po f a _ _ _ with
      | fail => simp [Res.bind]
      | panic => simp [Res.bind]
      | oof => simp [Res.bind]
      | ok t =>
        simp only [Res.bind_ok]
        rw [comma_state st' (ts ++ [t]) hesc hopen hround hsquare]
        rw [argsLoop, blank_step]
        simp only [Res.bind_ok]
        rw [argsLoop_ws (makeTerm po f) [' '] (by intro c hc; simp at hc; subst hc; decide), ih (ts ++ [t])]
        cases parseAll (parseTerm po (f + 1)) (b :: rest) <;> simp [Res.bind]

theorem joinArgs_ne_nil : ∀ (as : List Text), as ≠ [] → (∀ a ∈ as, a ≠ []) → joinArgs as ≠ []
  | [], h, _ => absurd rfl h
  | [a], _, hne => by simpa [joinArgs] using hne a (by simp)
  | a :: b :: rest, _, _ => by simp [joinArgs]

theorem joinArgs_head : ∀ (as : List Text) (a : Text) (rest : List Text), as = a :: rest → a ≠ [] →
    (joinArgs as).head? = a.head?
  | _, a, [], rfl, _ => by simp [joinArgs]
  | _, a, b :: rest, rfl, hne => by
    cases a with
    | nil => exact absurd rfl hne
    | cons c t => simp [joinArgs]

theorem getLast_append_ne (a b : Text) (h : b ≠ []) : (a ++ b).getLast? = b.getLast? := by
  rw [List.getLast?_append]
  cases hb : b.getLast? with
  | none => simp at hb; exact absurd hb h
  | some x => simp

theorem joinArgs_last : ∀ (as : List Text), as ≠ [] → (∀ a ∈ as, a ≠ []) →
    ∃ z, z ∈ as ∧ (joinArgs as).getLast? = z.getLast?
  | [], h, _ => absurd rfl h
  | [a], _, _ => ⟨a, by simp, by simp [joinArgs]⟩
  | a :: b :: rest, _, hne => by
    obtain ⟨z, hz, hl⟩ := joinArgs_last (b :: rest) (by simp) (fun x hx => hne x (by simp [hx]))
    refine ⟨z, by simp at hz ⊢; right; exact hz, ?_⟩
    have hj : joinArgs (b :: rest) ≠ [] := joinArgs_ne_nil (b :: rest) (by simp) (fun x hx => hne x (by simp [hx]))
    simp only [joinArgs]
    rw [show a ++ ',' :: ' ' :: joinArgs (b :: rest) = (a ++ [',', ' ']) ++ joinArgs (b :: rest) from by simp]
    rw [getLast_append_ne _ _ hj]
    exact hl

theorem dropWhile_getLast (p : Char → Bool) : ∀ (s : Text), s.dropWhile p ≠ [] → (s.dropWhile p).getLast? = s.getLast?
  | [], h => absurd rfl h
  | a :: s, h => by
    simp only [List.dropWhile] at h ⊢
    split
    · rename_i hp
      simp only [hp, if_true] at h
      have hs : s ≠ [] := by intro e; subst e; simp at h
      rw [dropWhile_getLast p s h]
      cases s with
      | nil => exact absurd rfl hs
      | cons b t => simp
    · rfl

theorem trim_last_nonws {s : Text} (h : trim s = s) : ∀ a, s.getLast? = some a → isWs a = false := by
  intro a ha
  cases hw : isWs a with
  | false => rfl
  | true =>
    exfalso
    have hne : s ≠ [] := by intro e; subst e; simp at ha
    have hlen : (trim s).length < s.length := by
      unfold trim trimEnd
      rw [List.length_reverse]
      by_cases ht : trimStart s = []
      · rw [ht]; simp; exact List.length_pos_iff.mpr hne
      · have hl : (trimStart s).getLast? = some a := by
          unfold trimStart at ht ⊢
          rw [dropWhile_getLast isWs s ht]; exact ha
        have hr : (trimStart s).reverse.head? = some a := by rw [← List.getLast?_eq_head?_reverse]; exact hl
        cases hrev : (trimStart s).reverse with
        | nil => rw [hrev] at hr; cases hr
        | cons c r =>
          rw [hrev] at hr
          simp at hr; subst hr
          simp only [List.dropWhile, hw, if_true]
          have h1 : (r.dropWhile isWs).length ≤ r.length := dropWhile_len_le _ _
          have h2 : r.length + 1 = (trimStart s).length := by
            have := congrArg List.length hrev; simp at this; omega
          have h3 : (trimStart s).length ≤ s.length := by unfold trimStart; exact dropWhile_len_le _ _
          omega
    rw [h] at hlen
    exact Nat.lt_irrefl _ hlen

/-- C20, AMONG OTHER ARGUMENTS: `parse_arguments (T1, ..., Tn) = [parse_term T1, ..., parse_term Tn]` -/
theorem parseArguments_multi (po : POps) (f : Nat) (as : List Text) (hne : as ≠ []) (hok : ∀ a ∈ as, ArgOK a) :
    parseArguments po (f + 1) (joinArgs as) = parseAll (parseTerm po (f + 1)) as := by
  have hnes : ∀ a ∈ as, a ≠ [] := fun a ha => (hok a ha).nonempty
  have hj := joinArgs_ne_nil as hne hnes
  obtain ⟨z, hz, hlast⟩ := joinArgs_last as hne hnes
  obtain ⟨a, rest, has⟩ : ∃ a rest, as = a :: rest := by
    cases as with
    | nil => exact absurd rfl hne
    | cons a rest => exact ⟨a, rest, rfl⟩
  have ha := hok a (by rw [has]; simp)
  have hhead := joinArgs_head as a rest has ha.nonempty
  have htrim : trim (joinArgs as) = joinArgs as := by
    apply trim_of_ends hj
    · intro x hx; rw [hhead] at hx; exact trim_head_nonws ha.trimmed x hx
    · intro x hx; rw [hlast] at hx; exact trim_last_nonws (hok z hz).trimmed x hx
  simp only [parseArguments, parseArgumentsWith, htrim]
  cases hs : joinArgs as with
  | nil => exact absurd hs hj
  | cons first t =>
    -- the first character is not a comma, nor is the last
    have hfc : (first == ',') = false := by
      have hh : a.head? = some first := by rw [← hhead, hs]; rfl
      cases ha' : a with
      | nil => exact absurd ha' ha.nonempty
      | cons c u =>
        rw [ha'] at hh; simp at hh; subst hh
        have := ha.noTopComma
        rw [ha'] at this
        simp only [noTopComma, topComma, Bool.and_eq_true, Bool.not_eq_true'] at this
        simpa using this.1
    have hlc : ((first :: t).getLast? == some ',') = false := by
      rw [← hs, hlast]
      have := last_not_comma z (hok z hz).noTopComma (hok z hz).closed
      cases h : z.getLast? with
      | none => rfl
      | some l => rw [h] at this; simpa using this
    simp only [hfc, Bool.false_eq_true, if_false, hlc, Res.bind_ok]
    rw [← hs]
    have := argsLoop_multi po f as hne hok []
    simp only [argStart, List.nil_append] at this
    rw [this]
    cases parseAll (parseTerm po (f + 1)) as <;> simp [Res.bind]

theorem joinArgs_nobs : ∀ (as : List Text), (∀ a ∈ as, ∀ c ∈ a, c ≠ '\\') → ∀ c ∈ joinArgs as, c ≠ '\\'
  | [], _, c, hc => by simp [joinArgs] at hc
  | [a], h, c, hc => h a (by simp) c (by simpa [joinArgs] using hc)
  | a :: b :: rest, h, c, hc => by
    simp only [joinArgs, List.mem_append, List.mem_cons] at hc
    rcases hc with hc | hc | hc | hc
    · exact h a (by simp) c hc
    · subst hc; decide
    · subst hc; decide
    · exact joinArgs_nobs (b :: rest) (fun x hx => h x (by simp [hx])) c hc

theorem joinArgs_closed : ∀ (as : List Text), (∀ a ∈ as, dpScan a ⟨0, 0, false⟩ = ⟨0, 0, false⟩) →
    dpScan (joinArgs as) ⟨0, 0, false⟩ = ⟨0, 0, false⟩
  | [], _ => rfl
  | [a], h => by simpa [joinArgs] using h a (by simp)
  | a :: b :: rest, h => by
    simp only [joinArgs, dpScan_append, h a (by simp), dpScan]
    have : dpStep ' ' (dpStep ',' ⟨0, 0, false⟩) = ⟨0, 0, false⟩ := by simp [dpStep]
    rw [this]
    exact joinArgs_closed (b :: rest) (fun x hx => h x (by simp [hx]))

/-- C20, COMPLEX TERM WITH SEVERAL ARGUMENTS: `parse_complex fn(T1, ..., Tn) = fn(parse_term T1, ..., parse_term Tn)` -/
theorem parseComplex_multi (po : POps) (f : Nat) {fn : Text} (hf : TokenText fn) (as : List Text)
    (hd : fn.head? ≠ some '$') (hne : as ≠ []) (hok : ∀ a ∈ as, ArgOK a)
    (hlen : fn.length + (joinArgs as).length + 2 ≤ 1000) :
    parseComplex po (f + 2) (fn ++ '(' :: joinArgs as ++ [')']) =
      (parseAll (parseTerm po (f + 2)) as).bind fun ts => .ok (.cplx (.cons (.atom (str fn)) (TermList.ofList ts))) := by
  generalize hs : joinArgs as = s at hlen ⊢
  have hbs : ∀ c ∈ s, c ≠ '\\' := by rw [← hs]; exact joinArgs_nobs as (fun a ha => (hok a ha).noBackslash)
  have hcl : dpScan s ⟨0, 0, false⟩ = ⟨0, 0, false⟩ := by rw [← hs]; exact joinArgs_closed as (fun a ha => (hok a ha).closed)
  have hsne : s ≠ [] := by rw [← hs]; exact joinArgs_ne_nil as hne (fun a ha => (hok a ha).nonempty)
  have htr : trim (fn ++ '(' :: s ++ [')']) = fn ++ '(' :: s ++ [')'] := by
    obtain ⟨hne', hall⟩ := hf
    cases fn with
    | nil => exact absurd rfl hne'
    | cons a t =>
      apply trim_of_ends (by simp)
      · intro b hb; simp at hb; subst hb; exact (tokChar_facts (hall _ (by simp))).2.2.2.2.2.2.2.2.2
      · intro b hb
        rw [show (a :: t ++ '(' :: s ++ [')']) = (a :: t ++ '(' :: s) ++ [')'] from by simp, List.getLast?_concat] at hb
        simp at hb; subst hb; decide
  unfold parseComplex parseComplexWith
  simp only [htr]
  have hval : validateComplex (fn ++ '(' :: s ++ [')']) = .ok () := by
    obtain ⟨hne', hall⟩ := hf
    cases fn with
    | nil => exact absurd rfl hne'
    | cons a t =>
      have ha := tokChar_facts (hall a (by simp))
      unfold validateComplex
      have hl : ¬ ((a :: t ++ '(' :: s ++ [')']).length > 1000) := by simp at hlen ⊢; omega
      have h1 : (a == '$') = false := by
        have : a ≠ '$' := by intro he; subst he; exact hd rfl
        simpa using this
      simp only [h1, show (a == '(') = false from by simpa using ha.2.2.1, List.cons_append, if_false, Bool.or_self, Bool.false_eq_true]
      rw [if_neg (by simpa using hl)]
  have hr0 : (dpScan s ⟨0, 0, false⟩).round = 0 := by rw [hcl]
  have hq0 : (dpScan s ⟨0, 0, false⟩).oq = false := by rw [hcl]
  simp only [hval, Res.bind_ok, indices_struct_call hf.2 hbs hr0 hq0]
  have hs1 : slice (fn ++ '(' :: s ++ [')']) 0 fn.length = .ok fn := by
    unfold slice
    have : (0 ≤ fn.length ∧ fn.length ≤ (fn ++ '(' :: s ++ [')']).length) := by simp
    simp only [this, and_self, if_true, List.drop_zero]
    rw [show fn ++ '(' :: s ++ [')'] = fn ++ ('(' :: s ++ [')']) from by simp, List.take_left' rfl]
  have hs2 : slice (fn ++ '(' :: s ++ [')']) (fn.length + 1) (fn.length + 1 + s.length) = .ok s := by
    unfold slice
    have : (fn.length + 1 ≤ fn.length + 1 + s.length ∧ fn.length + 1 + s.length ≤ (fn ++ '(' :: s ++ [')']).length) := by simp; omega
    simp only [this, and_self, if_true]
    rw [show fn ++ '(' :: s ++ [')'] = (fn ++ ['('] ++ s) ++ [')'] from by simp, List.take_left' (by simp; omega)]
    rw [show fn ++ ['('] ++ s = (fn ++ ['(']) ++ s from rfl, List.drop_left' (by simp)]
  simp only [hs1, hs2, Res.bind_ok]
  unfold parseFunctorTerms
  have hne2 : s.isEmpty = false := by cases s with | nil => exact absurd rfl hsne | cons a b => rfl
  simp only [hne2, Bool.false_eq_true, if_false, hf.trim]
  rw [← hs, parseArguments_multi po (f + 1) as hne hok]

end Suiron.Parse
