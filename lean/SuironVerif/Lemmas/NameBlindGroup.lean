/-
  C11 at the level of runs, THE WHOLE CONTROL LANGUAGE: the reference machine with cut, groups, negation and timing
  (`Spec/GroupMachine.lean`) is blind to the names of variables.

  The same simulation as `Lemmas/NameBlindMachine.lean`, for the machine whose goal lists carry cut barriers and end markers:
  a renaming touches the terms only, so it commutes with everything the cut does — marking the end markers (`markCut`),
  cutting the stack back to a height (`truncate`), the heights themselves (`mapCFs_length`).  Fragment: calls with atom
  functors, `!`, `fail`, `nl`, `unify`, `,`, `;`, `not`, `time`; no other built-in predicate and no function term.
-/
import SuironVerif.Lemmas.NameBlindKB
import SuironVerif.Spec.GroupMachine
namespace Suiron.Blind
open Suiron Suiron.Spec.Grp

def mapCG (ν : NMap) : CG → CG
  | .g g b => .g (mapG ν g) b
  | .alt gs b => .alt (mapGL ν gs) b
  | .endG b c => .endG b c
  | .endB b c => .endB b c

def goodCG (n : Nat) : CG → Prop
  | .g g _ => goodG n g = true
  | .alt gs _ => goodGL n gs = true
  | .endG _ _ => True
  | .endB _ _ => True

def mapKc (ν : NMap) (k : List CG) : List CG := k.map (mapCG ν)
def goodKc (n : Nat) (k : List CG) : Prop := ∀ x ∈ k, goodCG n x

theorem goodCG_mono {n m : Nat} (h : n ≤ m) : ∀ x : CG, goodCG n x → goodCG m x
  | .g g _, hg => goodG_mono h g hg
  | .alt gs _, hg => goodGL_mono h gs hg
  | .endG _ _, _ => trivial
  | .endB _ _, _ => trivial

theorem mapCG_congr {ν ν' : NMap} {n : Nat} (h : ∀ i, i ≤ n → ν' i = ν i) : ∀ x : CG, goodCG n x → mapCG ν' x = mapCG ν x
  | .g g _, hg => by simp only [mapCG, mapG_congr h g hg]
  | .alt gs _, hg => by simp only [mapCG, mapGL_congr h gs hg]
  | .endG _ _, _ => rfl
  | .endB _ _, _ => rfl

theorem goodKc_mono {n m : Nat} (h : n ≤ m) {k : List CG} (hk : goodKc n k) : goodKc m k := fun x hx => goodCG_mono h x (hk x hx)

theorem mapKc_congr {ν ν' : NMap} {n : Nat} (h : ∀ i, i ≤ n → ν' i = ν i) {k : List CG} (hk : goodKc n k) : mapKc ν' k = mapKc ν k := by
  unfold mapKc
  apply List.map_congr_left
  intro x hx
  exact mapCG_congr h x (hk x hx)

theorem goodKc_cons {n : Nat} {x : CG} {k : List CG} : goodKc n (x :: k) ↔ goodCG n x ∧ goodKc n k := by
  unfold goodKc
  simp only [List.mem_cons, forall_eq_or_imp]

theorem goodKc_append {n : Nat} {a b : List CG} : goodKc n (a ++ b) ↔ goodKc n a ∧ goodKc n b := by
  unfold goodKc
  simp only [List.mem_append]
  exact ⟨fun h => ⟨fun x hx => h x (Or.inl hx), fun x hx => h x (Or.inr hx)⟩, fun h x hx => hx.elim (h.1 x) (h.2 x)⟩

theorem mapKc_markCut (ν : NMap) : ∀ k : List CG, mapKc ν (markCut k) = markCut (mapKc ν k)
  | [] => rfl
  | x :: k => by
    have ih := mapKc_markCut ν k
    unfold mapKc at ih ⊢
    cases x <;> simp [markCut, mapCG, ih]

theorem goodKc_markCut {n : Nat} : ∀ k : List CG, goodKc n k → goodKc n (markCut k)
  | [], _ => by intro x hx; simp [markCut] at hx
  | x :: k, h => by
    have hk := goodKc_cons.mp h
    cases x with
    | g g b => simp only [markCut]; exact goodKc_cons.mpr ⟨hk.1, goodKc_markCut k hk.2⟩
    | alt gs b => simp only [markCut]; exact goodKc_cons.mpr ⟨hk.1, goodKc_markCut k hk.2⟩
    | endG b c => simp only [markCut]; exact goodKc_cons.mpr ⟨trivial, goodKc_markCut k hk.2⟩
    | endB b c => simp only [markCut]; exact goodKc_cons.mpr ⟨trivial, hk.2⟩

theorem mapKc_gl (ν : NMap) (gs : GoalList) (b : Nat) : mapKc ν (gl gs b) = gl (mapGL ν gs) b := by
  unfold mapKc gl
  rw [toList_mapGL]
  simp [List.map_map, Function.comp_def, mapCG]

theorem goodKc_gl {n : Nat} (gs : GoalList) (b : Nat) (h : goodGL n gs = true) : goodKc n (gl gs b) := by
  intro x hx
  unfold gl at hx
  obtain ⟨g, hg, e⟩ := List.mem_map.mp hx
  rw [← e]
  exact goodGL_toList gs h g hg

theorem mapKc_bodyK (ν : NMap) (body : Goal) (h : Nat) (k : List CG) : mapKc ν (bodyK body h k) = bodyK (mapG ν body) h (mapKc ν k) := by
  unfold bodyK
  rw [isNil_mapG]
  by_cases hb : body.isNil = true <;> simp [hb, mapKc, mapCG]

mutual
def mapCF (ν : NMap) : CFrame → CFrame
  | .goals k σ => .goals (mapKc ν k) (mapS ν σ)
  | .try t σ idx n k => .try (mapN ν t) (mapS ν σ) idx n (mapKc ν k)
  | .notF alts σ k => .notF (mapCFs ν alts) (mapS ν σ) (mapKc ν k)
  | .timeF alts k => .timeF (mapCFs ν alts) (mapKc ν k)
def mapCFs (ν : NMap) : List CFrame → List CFrame
  | [] => []
  | f :: fs => mapCF ν f :: mapCFs ν fs
end

mutual
def goodCF (n : Nat) : CFrame → Prop
  | .goals k σ => goodKc n k ∧ goodS n σ
  | .try t σ _ _ k => (good n t = true ∧ callOK t = true) ∧ goodS n σ ∧ goodKc n k
  | .notF alts σ k => goodCFs n alts ∧ goodS n σ ∧ goodKc n k
  | .timeF alts k => goodCFs n alts ∧ goodKc n k
def goodCFs (n : Nat) : List CFrame → Prop
  | [] => True
  | f :: fs => goodCF n f ∧ goodCFs n fs
end

mutual
theorem goodCF_mono {n m : Nat} (h : n ≤ m) : ∀ f : CFrame, goodCF n f → goodCF m f
  | .goals k σ, hg => by simp only [goodCF] at hg ⊢; exact ⟨goodKc_mono h hg.1, goodS_mono h hg.2⟩
  | .try t σ _ _ k, hg => by
    simp only [goodCF] at hg ⊢
    exact ⟨⟨good_mono h t hg.1.1, hg.1.2⟩, goodS_mono h hg.2.1, goodKc_mono h hg.2.2⟩
  | .notF alts σ k, hg => by
    simp only [goodCF] at hg ⊢
    exact ⟨goodCFs_mono h alts hg.1, goodS_mono h hg.2.1, goodKc_mono h hg.2.2⟩
  | .timeF alts k, hg => by
    simp only [goodCF] at hg ⊢
    exact ⟨goodCFs_mono h alts hg.1, goodKc_mono h hg.2⟩
theorem goodCFs_mono {n m : Nat} (h : n ≤ m) : ∀ fs : List CFrame, goodCFs n fs → goodCFs m fs
  | [], _ => trivial
  | f :: fs, hg => by simp only [goodCFs] at hg ⊢; exact ⟨goodCF_mono h f hg.1, goodCFs_mono h fs hg.2⟩
end

mutual
theorem mapCF_congr {ν ν' : NMap} {n : Nat} (h : ∀ i, i ≤ n → ν' i = ν i) : ∀ f : CFrame, goodCF n f → mapCF ν' f = mapCF ν f
  | .goals k σ, hg => by simp only [goodCF] at hg; simp only [mapCF, mapKc_congr h hg.1, mapS_congr h hg.2]
  | .try t σ _ _ k, hg => by
    simp only [goodCF] at hg
    simp only [mapCF, mapN_congr h t hg.1.1, mapS_congr h hg.2.1, mapKc_congr h hg.2.2]
  | .notF alts σ k, hg => by
    simp only [goodCF] at hg
    simp only [mapCF, mapCFs_congr h alts hg.1, mapS_congr h hg.2.1, mapKc_congr h hg.2.2]
  | .timeF alts k, hg => by
    simp only [goodCF] at hg
    simp only [mapCF, mapCFs_congr h alts hg.1, mapKc_congr h hg.2]
theorem mapCFs_congr {ν ν' : NMap} {n : Nat} (h : ∀ i, i ≤ n → ν' i = ν i) : ∀ fs : List CFrame, goodCFs n fs → mapCFs ν' fs = mapCFs ν fs
  | [], _ => rfl
  | f :: fs, hg => by simp only [goodCFs] at hg; simp only [mapCFs, mapCF_congr h f hg.1, mapCFs_congr h fs hg.2]
end

theorem mapCFs_append (ν : NMap) : ∀ (a b : List CFrame), mapCFs ν (a ++ b) = mapCFs ν a ++ mapCFs ν b
  | [], b => rfl
  | f :: a, b => by simp [mapCFs, mapCFs_append ν a b]

theorem goodCFs_append {n : Nat} : ∀ (a b : List CFrame), goodCFs n (a ++ b) ↔ goodCFs n a ∧ goodCFs n b
  | [], b => by simp [goodCFs]
  | f :: a, b => by simp [goodCFs, goodCFs_append a b, and_assoc]

theorem mapCFs_length (ν : NMap) : ∀ S : List CFrame, (mapCFs ν S).length = S.length
  | [] => rfl
  | f :: S => by simp [mapCFs, mapCFs_length ν S]

theorem mapCFs_drop (ν : NMap) : ∀ (S : List CFrame) (m : Nat), mapCFs ν (S.drop m) = (mapCFs ν S).drop m
  | [], m => by simp [mapCFs]
  | f :: S, 0 => by simp
  | f :: S, m + 1 => by simp [mapCFs, mapCFs_drop ν S m]

theorem mapCFs_truncate (ν : NMap) (S : List CFrame) (h : Nat) : mapCFs ν (truncate S h) = truncate (mapCFs ν S) h := by
  unfold truncate
  rw [mapCFs_drop, mapCFs_length]

theorem goodCFs_drop {n : Nat} : ∀ (S : List CFrame) (m : Nat), goodCFs n S → goodCFs n (S.drop m)
  | [], m, _ => by simp [goodCFs]
  | f :: S, 0, h => by simpa using h
  | f :: S, m + 1, h => by
    simp only [goodCFs] at h
    simpa using goodCFs_drop S m h.2

theorem goodCFs_truncate {n : Nat} (S : List CFrame) (h : Nat) (hg : goodCFs n S) : goodCFs n (truncate S h) := by
  unfold truncate
  exact goodCFs_drop S _ hg

theorem mapCFs_cTry (ν : NMap) (t : Term) (σ : Subst) (idx n : Nat) (k : List CG) :
    mapCFs ν (cTry t σ idx n k) = cTry (mapN ν t) (mapS ν σ) idx n (mapKc ν k) := by
  unfold cTry
  by_cases h : idx < n <;> simp [h, mapCFs, mapCF]

theorem goodCFs_cTry {m : Nat} {t : Term} {σ : Subst} {k : List CG} (idx n : Nat)
    (ht : good m t = true ∧ callOK t = true) (hs : goodS m σ) (hk : goodKc m k) : goodCFs m (cTry t σ idx n k) := by
  unfold cTry
  by_cases h : idx < n <;> simp [h, goodCFs, goodCF, ht, hs, hk]

theorem mapCFs_altF (ν : NMap) (gs : GoalList) (b : Nat) (k : List CG) (σ : Subst) :
    mapCFs ν (altF gs b k σ) = altF (mapGL ν gs) b (mapKc ν k) (mapS ν σ) := by
  unfold altF
  rw [length_mapGL]
  by_cases h : gs.length = 0 <;> simp [h, mapCFs, mapCF, mapKc, mapCG]

theorem goodCFs_altF {n : Nat} (gs : GoalList) (b : Nat) {k : List CG} {σ : Subst}
    (hgs : goodGL n gs = true) (hk : goodKc n k) (hs : goodS n σ) : goodCFs n (altF gs b k σ) := by
  unfold altF
  by_cases h : gs.length = 0
  · simp [h, goodCFs]
  · simp only [h, if_false, goodCFs, goodCF, and_true]
    exact ⟨goodKc_cons.mpr ⟨hgs, hk⟩, hs⟩

/-! ### one step -/

def mapCC (ν : NMap) (a : CConf) : CConf := ⟨mapCFs ν a.stack, a.ctr, a.out⟩

theorem cRuleCount_eq (kb : KB) (key : String) : cRuleCount kb key = Spec.ruleCount kb key := rfl

theorem cstep_sim (fo : FloatOps) {kb kb' : KB} (hk : KBRel kb kb') : ∀ {a b : CConf}, CStep fo kb a b →
    ∀ ν, Inj ν → goodCFs a.ctr a.stack →
      ∃ ν', Inj ν' ∧ (∀ i, i ≤ a.ctr → ν' i = ν i) ∧ CStep fo kb' (mapCC ν a) (mapCC ν' b) ∧ goodCFs b.ctr b.stack ∧ a.ctr ≤ b.ctr := by
  intro a b hstep
  induction hstep with
  | @call t b k σ S c o key hkey =>
    intro ν hinj hg
    simp only [goodCFs, goodCF] at hg
    obtain ⟨⟨hgk, hgs⟩, hgS⟩ := hg
    obtain ⟨hcall, hk'⟩ := goodKc_cons.mp hgk
    simp only [goodCG, goodG, Bool.and_eq_true] at hcall
    refine ⟨ν, hinj, fun _ _ => rfl, ?_, ?_, Nat.le_refl _⟩
    · simp only [mapCC, mapCFs, mapCF, mapKc, List.map_cons, mapCG, mapG, mapCFs_append, mapCFs_cTry]
      rw [cRuleCount_eq, ← hk.count key, ← cRuleCount_eq]
      exact CStep.call (by rw [termKey_mapN _ _ _ hcall.2]; exact hkey)
    · exact (goodCFs_append _ _).mpr ⟨goodCFs_cTry 0 _ hcall hgs hk', hgS⟩
  | @bipOk name args b k σ σ' S c o f txt hne hrun =>
    intro ν hinj hg
    simp only [goodCFs, goodCF] at hg
    obtain ⟨⟨hgk, hgs⟩, hgS⟩ := hg
    obtain ⟨hb, hk'⟩ := goodKc_cons.mp hgk
    simp only [goodCG, goodG, Bool.and_eq_true] at hb
    have hname : blindName name = true := blind_of_allowed hb.1 hne
    obtain ⟨e, g⟩ := runBip_blind fo ν hinj c f name args σ hname hb.2 hgs
    rw [hrun] at e
    refine ⟨ν, hinj, fun _ _ => rfl, ?_, ?_, Nat.le_refl _⟩
    · have hm : mapG ν (.bip name args) = .bip name (mapArgs ν args) := by cases args <;> rfl
      simp only [mapCC, mapCFs, mapCF, mapKc, List.map_cons, mapCG, hm]
      exact CStep.bipOk hne e
    · simp only [goodCFs, goodCF]
      exact ⟨⟨hk', g σ' txt hrun⟩, hgS⟩
  | @bipFail name args b k σ S c o f txt hne hrun =>
    intro ν hinj hg
    simp only [goodCFs, goodCF] at hg
    obtain ⟨⟨hgk, hgs⟩, hgS⟩ := hg
    obtain ⟨hb, _⟩ := goodKc_cons.mp hgk
    simp only [goodCG, goodG, Bool.and_eq_true] at hb
    have hname : blindName name = true := blind_of_allowed hb.1 hne
    obtain ⟨e, _⟩ := runBip_blind fo ν hinj c f name args σ hname hb.2 hgs
    rw [hrun] at e
    refine ⟨ν, hinj, fun _ _ => rfl, ?_, hgS, Nat.le_refl _⟩
    have hm : mapG ν (.bip name args) = .bip name (mapArgs ν args) := by cases args <;> rfl
    simp only [mapCC, mapCFs, mapCF, mapKc, List.map_cons, mapCG, hm]
    exact CStep.bipFail hne e
  | @cut args b k σ S c o =>
    intro ν hinj hg
    simp only [goodCFs, goodCF] at hg
    obtain ⟨⟨hgk, hgs⟩, hgS⟩ := hg
    obtain ⟨hbip, hk'⟩ := goodKc_cons.mp hgk
    refine ⟨ν, hinj, fun _ _ => rfl, ?_, ?_, Nat.le_refl _⟩
    · have hm : mapG ν (.bip "!" args) = .bip "!" (mapArgs ν args) := by cases args <;> rfl
      simp only [mapCC, mapCFs, mapCF, mapKc, List.map_cons, mapCG, hm, mapCFs_truncate]
      have h2 := mapKc_markCut ν k
      unfold mapKc at h2
      rw [h2]
      exact CStep.cut
    · simp only [goodCFs, goodCF]
      exact ⟨⟨goodKc_markCut k hk', hgs⟩, goodCFs_truncate S b hgS⟩
  | @conj gs b k σ S c o =>
    intro ν hinj hg
    simp only [goodCFs, goodCF] at hg
    obtain ⟨⟨hgk, hgs⟩, hgS⟩ := hg
    obtain ⟨hand, hk'⟩ := goodKc_cons.mp hgk
    simp only [goodCG, goodG] at hand
    refine ⟨ν, hinj, fun _ _ => rfl, ?_, ?_, Nat.le_refl _⟩
    · have e : mapKc ν (gl gs b ++ CG.endG b false :: k) = gl (mapGL ν gs) b ++ CG.endG b false :: mapKc ν k := by
        rw [← mapKc_gl]; simp [mapKc, mapCG]
      simp only [mapCC, mapCFs, mapCF, e]
      simp only [mapKc, List.map_cons, mapCG, mapG]
      exact CStep.conj
    · simp only [goodCFs, goodCF]
      exact ⟨⟨goodKc_append.mpr ⟨goodKc_gl gs b hand, goodKc_cons.mpr ⟨trivial, hk'⟩⟩, hgs⟩, hgS⟩
  | @disj gs b k σ S c o =>
    intro ν hinj hg
    simp only [goodCFs, goodCF] at hg
    obtain ⟨⟨hgk, hgs⟩, hgS⟩ := hg
    obtain ⟨hor, hk'⟩ := goodKc_cons.mp hgk
    simp only [goodCG, goodG] at hor
    refine ⟨ν, hinj, fun _ _ => rfl, ?_, ?_, Nat.le_refl _⟩
    · simp only [mapCC, mapCFs, mapCF, mapKc, List.map_cons, mapCG, mapG]
      exact CStep.disj
    · simp only [goodCFs, goodCF]
      exact ⟨⟨goodKc_cons.mpr ⟨hor, goodKc_cons.mpr ⟨trivial, hk'⟩⟩, hgs⟩, hgS⟩
  | @altStep g gs b k σ S c o =>
    intro ν hinj hg
    simp only [goodCFs, goodCF] at hg
    obtain ⟨⟨hgk, hgs⟩, hgS⟩ := hg
    obtain ⟨halt, hk'⟩ := goodKc_cons.mp hgk
    simp only [goodCG, goodGL, Bool.and_eq_true] at halt
    refine ⟨ν, hinj, fun _ _ => rfl, ?_, ?_, Nat.le_refl _⟩
    · simp only [mapCC, mapCFs, mapCF, mapCFs_append, mapCFs_altF]
      simp only [mapKc, List.map_cons, mapCG, mapGL]
      exact CStep.altStep
    · simp only [goodCFs, goodCF]
      exact ⟨⟨goodKc_cons.mpr ⟨halt.1, hk'⟩, hgs⟩, (goodCFs_append _ _).mpr ⟨goodCFs_altF gs b halt.2 hk' hgs, hgS⟩⟩
  | @clauseOk t σ σ' idx n k S c o key rule c' f hkey hrule hun =>
    intro ν hinj hg
    simp only [goodCFs, goodCF] at hg
    obtain ⟨⟨ht, hgs, hgk⟩, hgS⟩ := hg
    obtain ⟨hcc, hhead, hbody, hext⟩ := hk.rule key idx c rule c' hrule
    obtain ⟨ν', hinj', hag, hrule'⟩ := hext ν hinj
    have ub := unify_blind fo ν' hinj' c' f rule.head t σ hhead.1 (good_mono hcc t ht.1) (goodS_mono hcc hgs)
    rw [hun] at ub
    have hσ' : goodS c' σ' := ub.2 σ' rfl
    have e1 : mapN ν' t = mapN ν t := mapN_congr hag t ht.1
    have e2 : mapS ν' σ = mapS ν σ := mapS_congr hag hgs
    have e3 : mapKc ν' k = mapKc ν k := mapKc_congr hag hgk
    have e4 : mapCFs ν' S = mapCFs ν S := mapCFs_congr hag S hgS
    refine ⟨ν', hinj', hag, ?_, ?_, hcc⟩
    · have hu' : unify fo f (mapN ν' rule.head) (mapN ν t) (mapS ν σ) = .ok (mapS ν' σ') := by rw [← e1, ← e2]; exact ub.1
      have := @CStep.clauseOk fo kb' (mapN ν t) (mapS ν σ) (mapS ν' σ') idx n (mapKc ν k) (mapCFs ν S) c o key
        ⟨mapN ν' rule.head, mapG ν' rule.body⟩ c' f (by rw [termKey_mapN _ _ _ ht.2]; exact hkey) hrule' hu'
      simp only [mapCC, mapCFs, mapCF, mapCFs_append, mapCFs_cTry, mapKc_bodyK, e1, e2, e3, e4]
      simpa only [mapCFs_length] using this
    · refine (goodCFs_append (_ :: _) _).mpr ⟨?_, goodCFs_mono hcc S hgS⟩
      simp only [goodCFs, goodCF]
      refine ⟨⟨?_, hσ'⟩, ?_⟩
      · unfold bodyK
        by_cases hb : rule.body.isNil = true
        · simp only [hb, if_true]; exact goodKc_mono hcc hgk
        · simp only [hb, Bool.false_eq_true, if_false]
          exact goodKc_cons.mpr ⟨hbody, goodKc_cons.mpr ⟨trivial, goodKc_mono hcc hgk⟩⟩
      · exact goodCFs_cTry (m := c') (idx + 1) n ⟨good_mono hcc t ht.1, ht.2⟩ (goodS_mono hcc hgs) (goodKc_mono hcc hgk)
  | @clauseFail t σ idx n k S c o key rule c' f hkey hrule hun =>
    intro ν hinj hg
    simp only [goodCFs, goodCF] at hg
    obtain ⟨⟨ht, hgs, hgk⟩, hgS⟩ := hg
    obtain ⟨hcc, hhead, hbody, hext⟩ := hk.rule key idx c rule c' hrule
    obtain ⟨ν', hinj', hag, hrule'⟩ := hext ν hinj
    have ub := unify_blind fo ν' hinj' c' f rule.head t σ hhead.1 (good_mono hcc t ht.1) (goodS_mono hcc hgs)
    rw [hun] at ub
    have e1 : mapN ν' t = mapN ν t := mapN_congr hag t ht.1
    have e2 : mapS ν' σ = mapS ν σ := mapS_congr hag hgs
    refine ⟨ν, hinj, fun _ _ => rfl, ?_, ?_, Nat.le_refl _⟩
    · have hu' : unify fo f (mapN ν' rule.head) (mapN ν t) (mapS ν σ) = .fail := by rw [← e1, ← e2]; exact ub.1
      have := @CStep.clauseFail fo kb' (mapN ν t) (mapS ν σ) idx n (mapKc ν k) (mapCFs ν S) c o key
        ⟨mapN ν' rule.head, mapG ν' rule.body⟩ c' f (by rw [termKey_mapN _ _ _ ht.2]; exact hkey) hrule' hu'
      simpa only [mapCC, mapCFs, mapCF, mapCFs_append, mapCFs_cTry] using this
    · exact (goodCFs_append _ _).mpr ⟨goodCFs_cTry (idx + 1) n ht hgs hgk, hgS⟩
  | @endGroup h k σ S c o =>
    intro ν hinj hg
    simp only [goodCFs, goodCF] at hg
    obtain ⟨⟨hgk, hgs⟩, hgS⟩ := hg
    refine ⟨ν, hinj, fun _ _ => rfl, ?_, ?_, Nat.le_refl _⟩
    · simp only [mapCC, mapCFs, mapCF, mapKc, List.map_cons, mapCG]
      exact CStep.endGroup
    · simp only [goodCFs, goodCF]
      exact ⟨⟨(goodKc_cons.mp hgk).2, hgs⟩, hgS⟩
  | @commitGroup h k σ S c o =>
    intro ν hinj hg
    simp only [goodCFs, goodCF] at hg
    obtain ⟨⟨hgk, hgs⟩, hgS⟩ := hg
    refine ⟨ν, hinj, fun _ _ => rfl, ?_, ?_, Nat.le_refl _⟩
    · simp only [mapCC, mapCFs, mapCF, mapKc, List.map_cons, mapCG, mapCFs_truncate]
      exact CStep.commitGroup
    · simp only [goodCFs, goodCF]
      exact ⟨⟨(goodKc_cons.mp hgk).2, hgs⟩, goodCFs_truncate S h hgS⟩
  | @endBody h k σ S c o =>
    intro ν hinj hg
    simp only [goodCFs, goodCF] at hg
    obtain ⟨⟨hgk, hgs⟩, hgS⟩ := hg
    refine ⟨ν, hinj, fun _ _ => rfl, ?_, ?_, Nat.le_refl _⟩
    · simp only [mapCC, mapCFs, mapCF, mapKc, List.map_cons, mapCG]
      exact CStep.endBody
    · simp only [goodCFs, goodCF]
      exact ⟨⟨(goodKc_cons.mp hgk).2, hgs⟩, hgS⟩
  | @commitBody h k σ S c o =>
    intro ν hinj hg
    simp only [goodCFs, goodCF] at hg
    obtain ⟨⟨hgk, hgs⟩, hgS⟩ := hg
    refine ⟨ν, hinj, fun _ _ => rfl, ?_, ?_, Nat.le_refl _⟩
    · simp only [mapCC, mapCFs, mapCF, mapKc, List.map_cons, mapCG, mapCFs_truncate]
      exact CStep.commitBody
    · simp only [goodCFs, goodCF]
      exact ⟨⟨(goodKc_cons.mp hgk).2, hgs⟩, goodCFs_truncate S h hgS⟩
  | @notEnter g gs b k σ S c o =>
    intro ν hinj hg
    simp only [goodCFs, goodCF] at hg
    obtain ⟨⟨hgk, hgs⟩, hgS⟩ := hg
    obtain ⟨hnot, hk'⟩ := goodKc_cons.mp hgk
    simp only [goodCG, goodG, goodGL, Bool.and_eq_true] at hnot
    refine ⟨ν, hinj, fun _ _ => rfl, ?_, ?_, Nat.le_refl _⟩
    · simp only [mapCC, mapCFs, mapCF, mapKc, List.map_cons, mapCG, mapG, mapGL, List.map_nil]
      exact CStep.notEnter
    · simp only [goodCFs, goodCF, and_true]
      exact ⟨⟨⟨goodKc_cons.mpr ⟨hnot.1, fun x hx => by simp at hx⟩, hgs⟩, hgs, hk'⟩, hgS⟩
  | @notIn A A' σ k S c o c' o' hin ih =>
    intro ν hinj hg
    simp only [goodCFs, goodCF] at hg
    obtain ⟨⟨hgA, hgs, hgk⟩, hgS⟩ := hg
    obtain ⟨ν', hinj', hag, hstep', hgA', hcc⟩ := ih ν hinj hgA
    simp only at hcc hag hgA'
    refine ⟨ν', hinj', hag, ?_, ?_, hcc⟩
    · simp only [mapCC, mapCFs, mapCF]
      rw [mapS_congr hag hgs, mapKc_congr hag hgk, mapCFs_congr hag S hgS]
      exact CStep.notIn hstep'
    · simp only [goodCFs, goodCF]
      exact ⟨⟨hgA', goodS_mono hcc hgs, goodKc_mono hcc hgk⟩, goodCFs_mono hcc S hgS⟩
  | @notOk σ k S c o =>
    intro ν hinj hg
    simp only [goodCFs, goodCF] at hg
    obtain ⟨⟨_, hgs, hgk⟩, hgS⟩ := hg
    refine ⟨ν, hinj, fun _ _ => rfl, ?_, ?_, Nat.le_refl _⟩
    · simp only [mapCC, mapCFs, mapCF]
      exact CStep.notOk
    · simp only [goodCFs, goodCF]
      exact ⟨⟨hgk, hgs⟩, hgS⟩
  | @notFail σ' A σ k S c o =>
    intro ν hinj hg
    simp only [goodCFs, goodCF] at hg
    refine ⟨ν, hinj, fun _ _ => rfl, ?_, hg.2, Nat.le_refl _⟩
    simp only [mapCC, mapCFs, mapCF, mapKc, List.map_nil]
    exact CStep.notFail
  | @timeEnter g gs b k σ S c o =>
    intro ν hinj hg
    simp only [goodCFs, goodCF] at hg
    obtain ⟨⟨hgk, hgs⟩, hgS⟩ := hg
    obtain ⟨htime, hk'⟩ := goodKc_cons.mp hgk
    simp only [goodCG, goodG, goodGL, Bool.and_eq_true] at htime
    refine ⟨ν, hinj, fun _ _ => rfl, ?_, ?_, Nat.le_refl _⟩
    · simp only [mapCC, mapCFs, mapCF, mapKc, List.map_cons, mapCG, mapG, mapGL, List.map_nil]
      exact CStep.timeEnter
    · simp only [goodCFs, goodCF, and_true]
      exact ⟨⟨⟨goodKc_cons.mpr ⟨htime.1, fun x hx => by simp at hx⟩, hgs⟩, hk'⟩, hgS⟩
  | @timeIn A A' k S c o c' o' hin ih =>
    intro ν hinj hg
    simp only [goodCFs, goodCF] at hg
    obtain ⟨⟨hgA, hgk⟩, hgS⟩ := hg
    obtain ⟨ν', hinj', hag, hstep', hgA', hcc⟩ := ih ν hinj hgA
    simp only at hcc hag hgA'
    refine ⟨ν', hinj', hag, ?_, ?_, hcc⟩
    · simp only [mapCC, mapCFs, mapCF]
      rw [mapKc_congr hag hgk, mapCFs_congr hag S hgS]
      exact CStep.timeIn hstep'
    · simp only [goodCFs, goodCF]
      exact ⟨⟨hgA', goodKc_mono hcc hgk⟩, goodCFs_mono hcc S hgS⟩
  | @timeNone k S c o =>
    intro ν hinj hg
    simp only [goodCFs, goodCF] at hg
    refine ⟨ν, hinj, fun _ _ => rfl, ?_, hg.2, Nat.le_refl _⟩
    simp only [mapCC, mapCFs, mapCF]
    exact CStep.timeNone
  | @timeSome σ' A k S c o =>
    intro ν hinj hg
    simp only [goodCFs, goodCF] at hg
    obtain ⟨⟨hgA, hgk⟩, hgS⟩ := hg
    refine ⟨ν, hinj, fun _ _ => rfl, ?_, ?_, Nat.le_refl _⟩
    · simp only [mapCC, mapCFs, mapCF, mapKc, List.map_nil]
      exact CStep.timeSome
    · simp only [goodCFs, goodCF]
      exact ⟨⟨hgk, hgA.1.2⟩, hgS⟩

/-! ### runs -/

theorem csteps_sim (fo : FloatOps) {kb kb' : KB} (hk : KBRel kb kb') : ∀ {a b : CConf}, CSteps fo kb a b →
    ∀ ν, Inj ν → goodCFs a.ctr a.stack →
      ∃ ν', Inj ν' ∧ (∀ i, i ≤ a.ctr → ν' i = ν i) ∧ CSteps fo kb' (mapCC ν a) (mapCC ν' b) ∧ goodCFs b.ctr b.stack ∧ a.ctr ≤ b.ctr := by
  intro a b h
  induction h with
  | refl => intro ν hinj hg; exact ⟨ν, hinj, fun _ _ => rfl, .refl, hg, Nat.le_refl _⟩
  | step hs _ ih =>
    intro ν hinj hg
    obtain ⟨ν1, hinj1, hag1, hs1, hg1, hc1⟩ := cstep_sim fo hk hs ν hinj hg
    obtain ⟨ν2, hinj2, hag2, hs2, hg2, hc2⟩ := ih ν1 hinj1 hg1
    exact ⟨ν2, hinj2, fun i hi => by rw [hag2 i (Nat.le_trans hi hc1), hag1 i hi], .step hs1 hs2, hg2, Nat.le_trans hc1 hc2⟩

theorem crun_sim (fo : FloatOps) {kb kb' : KB} (hk : KBRel kb kb') : ∀ {a : CConf} {tr : List (Option Subst × List String)},
    CRun fo kb a tr → ∀ ν, Inj ν → goodCFs a.ctr a.stack →
      ∃ ν', Inj ν' ∧ (∀ i, i ≤ a.ctr → ν' i = ν i) ∧ CRun fo kb' (mapCC ν a) (mapTr ν' tr) := by
  intro a tr h
  induction h with
  | nil => intro ν hinj _; exact ⟨ν, hinj, fun _ _ => rfl, .nil⟩
  | @ans c σ S ctr out rest hsteps _ ih =>
    intro ν hinj hg
    obtain ⟨ν1, hinj1, hag1, hs1, hg1, hc1⟩ := csteps_sim fo hk hsteps ν hinj hg
    simp only [goodCFs, goodCF] at hg1
    obtain ⟨ν2, hinj2, hag2, hr2⟩ := ih ν1 hinj1 hg1.2
    simp only at hag2 hc1
    refine ⟨ν2, hinj2, fun i hi => by rw [hag2 i (Nat.le_trans hi hc1), hag1 i hi], ?_⟩
    have e : mapS ν2 σ = mapS ν1 σ := mapS_congr hag2 hg1.1.2
    simp only [mapTr, List.map_cons, Option.map_some, e]
    refine CRun.ans (S := mapCFs ν1 S) (ctr := ctr) ?_ hr2
    simpa only [mapCC, mapCFs, mapCF, mapKc, List.map_nil] using hs1
  | @fin c ctr out rest hsteps _ ih =>
    intro ν hinj hg
    obtain ⟨ν1, hinj1, hag1, hs1, hg1, hc1⟩ := csteps_sim fo hk hsteps ν hinj hg
    obtain ⟨ν2, hinj2, hag2, hr2⟩ := ih ν1 hinj1 hg1
    simp only at hag2 hc1
    refine ⟨ν2, hinj2, fun i hi => by rw [hag2 i (Nat.le_trans hi hc1), hag1 i hi], ?_⟩
    simp only [mapTr, List.map_cons, Option.map_none]
    refine CRun.fin (ctr := ctr) ?_ hr2
    simpa only [mapCC, mapCFs] using hs1

/-- C11 FOR THE MACHINE WITH CUT: a query of the fragment (calls, `!`, `,`, `;`, `not`, `time`), solved against two knowledge
    bases that hand out the same clauses up to the names of their variables, shows the same sequence of observations with the
    bindings of the answers renamed by a map that leaves the query's own variables alone -/
theorem group_machine_blind_to_names (fo : FloatOps) {kb kb' : KB} (hk : KBRel kb kb') (q : Goal) (c : Nat) (hq : goodG c q = true)
    (out : List String) {tr : List (Option Subst × List String)} (h : CRun fo kb ⟨[.goals [.g q 0] []], c, out⟩ tr) :
    ∃ ν, Inj ν ∧ (∀ i, i ≤ c → ν i = idN i) ∧ CRun fo kb' ⟨[.goals [.g q 0] []], c, out⟩ (mapTr ν tr) := by
  have hg : goodCFs c [CFrame.goals [.g q 0] []] := by
    simp only [goodCFs, goodCF, and_true]
    exact ⟨goodKc_cons.mpr ⟨hq, fun x hx => by simp at hx⟩, goodS_nil c⟩
  obtain ⟨ν, hinj, hag, hr⟩ := crun_sim fo hk h idN idN_inj hg
  refine ⟨ν, hinj, hag, ?_⟩
  simpa [mapCC, mapCFs, mapCF, mapKc, mapCG, mapG_id, mapS] using hr

end Suiron.Blind
