/-
  C11: the built-in predicates that are blind to the names of variables — `fail`, `nl`, `unify` (the goal `a = b`) and the five
  comparisons (`equal`, `less_than`, ...: they look at constants only).

  `runBip_blind`: on function-free arguments with ids at most `n`, under a renaming that is injective for each id, the
  built-in returns the same outcome with the bindings renamed and writes the same text; a solution keeps the ids at most `n`.
  (`print`, `print_list`, `join` write the names of unbound variables and are not blind; the list built-ins
  are left to the differential stream.)
-/
import SuironVerif.Lemmas.NameBlind
import SuironVerif.Model.Engine
namespace Suiron.Blind
open Suiron

/-- the built-in predicates of the fragment -/
def blindName (name : String) : Bool := name == "fail" || name == "nl" || name == "unify" || (CmpOp.ofName name).isSome
def bipAllowed (name : String) : Bool := name == "!" || blindName name

theorem blind_of_allowed {name : String} (h : bipAllowed name = true) (hne : name ≠ "!") : blindName name = true := by
  simp only [bipAllowed, Bool.or_eq_true, beq_iff_eq] at h
  rcases h with h | h
  · exact absurd h hne
  · exact h

theorem ofName_cases {name : String} {op : CmpOp} (h : CmpOp.ofName name = some op) :
    (name = "equal" ∧ op = .eq) ∨ (name = "less_than" ∧ op = .lt) ∨ (name = "less_than_or_equal" ∧ op = .le) ∨
    (name = "greater_than" ∧ op = .gt) ∨ (name = "greater_than_or_equal" ∧ op = .ge) := by
  unfold CmpOp.ofName at h
  by_cases h1 : name = "equal"
  · simp only [h1, if_true, Option.some.injEq] at h; exact Or.inl ⟨h1, h.symm⟩
  simp only [h1, if_false] at h
  by_cases h2 : name = "less_than"
  · simp only [h2, if_true, Option.some.injEq] at h; exact Or.inr (Or.inl ⟨h2, h.symm⟩)
  simp only [h2, if_false] at h
  by_cases h3 : name = "less_than_or_equal"
  · simp only [h3, if_true, Option.some.injEq] at h; exact Or.inr (Or.inr (Or.inl ⟨h3, h.symm⟩))
  simp only [h3, if_false] at h
  by_cases h4 : name = "greater_than"
  · simp only [h4, if_true, Option.some.injEq] at h; exact Or.inr (Or.inr (Or.inr (Or.inl ⟨h4, h.symm⟩)))
  simp only [h4, if_false] at h
  by_cases h5 : name = "greater_than_or_equal"
  · simp only [h5, if_true, Option.some.injEq] at h; exact Or.inr (Or.inr (Or.inr (Or.inr ⟨h5, h.symm⟩)))
  simp [h5] at h

def goodArgs (n : Nat) : Option TermList → Bool
  | none => true
  | some as => goodL n as

def mapArgs (ν : NMap) : Option TermList → Option TermList
  | none => none
  | some as => some (mapNL ν as)

def mapOut (ν : NMap) (o : BipOut) : BipOut := ⟨o.sol.map (mapS ν), o.out⟩

theorem toList_mapNL (ν : NMap) : ∀ ts : TermList, (mapNL ν ts).toList = ts.toList.map (mapN ν)
  | .nil => rfl
  | .cons a as => by simp [mapNL, TermList.toList, toList_mapNL ν as]

theorem optUnify_blind (fo : FloatOps) (ν : NMap) (hinj : Inj ν) (n f : Nat) (a b : Term) (σ : Subst)
    (ha : good n a = true) (hb : good n b = true) (hs : goodS n σ) :
    optUnify fo f (mapN ν a) (mapN ν b) (mapS ν σ) = Res.map (Option.map (mapS ν)) (optUnify fo f a b σ) ∧
    ∀ σ', optUnify fo f a b σ = .ok (some σ') → goodS n σ' := by
  obtain ⟨e, g⟩ := unify_blind fo ν hinj n f a b σ ha hb hs
  unfold optUnify
  rw [e]
  cases hu : unify fo f a b σ with
  | ok s => exact ⟨rfl, fun σ' h => by simp only [Res.ok.injEq, Option.some.injEq] at h; subst h; exact g s hu⟩
  | fail => exact ⟨rfl, fun σ' h => by simp at h⟩
  | panic => exact ⟨rfl, fun σ' h => by simp at h⟩
  | oof => exact ⟨rfl, fun σ' h => by simp at h⟩

/-! ### the comparisons: they look at constants only -/

theorem walk_mapN (ν : NMap) : ∀ (f : Nat) (σ : Subst) (t : Term),
    walk f (mapS ν σ) (mapN ν t) = Res.map (Option.map (mapN ν)) (walk f σ t)
  | 0, _, _ => rfl
  | f + 1, σ, t => by
    cases t with
    | var id name =>
      simp only [mapN, walk, get_mapS]
      cases σ.get id with
      | none => rfl
      | some e => simp only [Option.map_some]; exact walk_mapN ν f σ e
    | _ => simp [mapN, walk, Res.map]

theorem getConstant_mapN (ν : NMap) (f : Nat) (σ : Subst) (t : Term) : getConstant f (mapS ν σ) (mapN ν t) = getConstant f σ t := by
  cases t with
  | var id name =>
    have := walk_mapN ν f σ (.var id name)
    simp only [mapN] at this
    simp only [mapN, getConstant, this]
    cases walk f σ (.var id name) with
    | ok r =>
      cases r with
      | none => rfl
      | some g => cases g <;> simp [Res.map, Res.bind, mapN]
    | fail => rfl
    | panic => rfl
    | oof => rfl
  | _ => simp [mapN, getConstant]

theorem bipCompare_blind (fo : FloatOps) (ν : NMap) (f : Nat) (op : CmpOp) (args : Option TermList) (σ : Subst) :
    bipCompare fo f op (optList (mapArgs ν args)) (mapS ν σ) = Res.map (Option.map (mapS ν)) (bipCompare fo f op (optList args) σ) ∧
    ∀ σ', bipCompare fo f op (optList args) σ = .ok (some σ') → σ' = σ := by
  cases args with
  | none => exact ⟨rfl, fun σ' h => by simp [optList, bipCompare] at h⟩
  | some as =>
    cases as with
    | nil => exact ⟨rfl, fun σ' h => by simp [optList, TermList.toList, bipCompare] at h⟩
    | cons t0 rest =>
      cases rest with
      | nil => exact ⟨rfl, fun σ' h => by simp [optList, TermList.toList, bipCompare] at h⟩
      | cons t1 rest2 =>
        simp only [optList, mapArgs, mapNL, TermList.toList, bipCompare, getConstant_mapN]
        cases getConstant f σ t0 with
        | ok l =>
          cases l with
          | none => exact ⟨rfl, fun σ' h => by simp [Res.bind] at h⟩
          | some a =>
            simp only [Res.bind_ok]
            cases getConstant f σ t1 with
            | ok r =>
              cases r with
              | none => exact ⟨rfl, fun σ' h => by simp [Res.bind] at h⟩
              | some b =>
                simp only [Res.bind_ok]
                by_cases hc : cmpConst fo op a b = true
                · simp only [hc, if_true]
                  exact ⟨rfl, fun σ' h => by simp only [Res.ok.injEq, Option.some.injEq] at h; exact h.symm⟩
                · simp only [hc, Bool.false_eq_true, if_false]
                  exact ⟨rfl, fun σ' h => by simp at h⟩
            | fail => exact ⟨rfl, fun σ' h => by simp [Res.bind] at h⟩
            | panic => exact ⟨rfl, fun σ' h => by simp [Res.bind] at h⟩
            | oof => exact ⟨rfl, fun σ' h => by simp [Res.bind] at h⟩
        | fail => exact ⟨rfl, fun σ' h => by simp [Res.bind] at h⟩
        | panic => exact ⟨rfl, fun σ' h => by simp [Res.bind] at h⟩
        | oof => exact ⟨rfl, fun σ' h => by simp [Res.bind] at h⟩

theorem runBip_cmp (fo : FloatOps) (f : Nat) {name : String} {op : CmpOp} (h : CmpOp.ofName name = some op)
    (a : Option (List Term)) (s : Subst) : runBip fo f name a s = (bipCompare fo f op a s).bind fun r => .ok ⟨r, ""⟩ := by
  rcases ofName_cases h with ⟨e, o⟩ | ⟨e, o⟩ | ⟨e, o⟩ | ⟨e, o⟩ | ⟨e, o⟩ <;> subst e <;> subst o <;> simp [runBip, CmpOp.ofName]

/-- `fail`, `nl`, `unify` and the comparisons are blind to names -/
theorem runBip_blind (fo : FloatOps) (ν : NMap) (hinj : Inj ν) (n f : Nat) (name : String) (args : Option TermList) (σ : Subst)
    (hname : blindName name = true) (hargs : goodArgs n args = true) (hs : goodS n σ) :
    runBip fo f name (optList (mapArgs ν args)) (mapS ν σ) = Res.map (mapOut ν) (runBip fo f name (optList args) σ) ∧
    ∀ σ' txt, runBip fo f name (optList args) σ = .ok ⟨some σ', txt⟩ → goodS n σ' := by
  simp only [blindName, Bool.or_eq_true, beq_iff_eq] at hname
  rcases hname with ((h | h) | h) | h
  · subst h
    have e : ∀ a s, runBip fo f "fail" a s = .ok ⟨none, ""⟩ := by intro a s; simp [runBip]
    rw [e, e]
    exact ⟨rfl, fun σ' txt h => by simp at h⟩
  · subst h
    have e : ∀ a s, runBip fo f "nl" a s = .ok ⟨some s, "\n"⟩ := by intro a s; simp [runBip]
    rw [e, e]
    exact ⟨rfl, fun σ' txt h => by simp only [Res.ok.injEq, BipOut.mk.injEq, Option.some.injEq] at h; rw [← h.1]; exact hs⟩
  · subst h
    have e0 : ∀ s, runBip fo f "unify" none s = .ok ⟨none, ""⟩ := by intro s; simp [runBip]
    have e1 : ∀ s, runBip fo f "unify" (some []) s = .panic := by intro s; simp [runBip]
    have e2 : ∀ x s, runBip fo f "unify" (some [x]) s = .panic := by intro x s; simp [runBip]
    have e3 : ∀ l r t s, runBip fo f "unify" (some (l :: r :: t)) s = (optUnify fo f l r s).bind fun r => .ok ⟨r, ""⟩ := by
      intro l r t s; simp [runBip]
    cases args with
    | none => simp only [optList, mapArgs, e0]; exact ⟨rfl, fun σ' txt h => by simp at h⟩
    | some as =>
      cases as with
      | nil => simp only [optList, mapArgs, mapNL, TermList.toList, e1]; exact ⟨rfl, fun σ' txt h => by simp at h⟩
      | cons l rest =>
        cases rest with
        | nil => simp only [optList, mapArgs, mapNL, TermList.toList, e2]; exact ⟨rfl, fun σ' txt h => by simp at h⟩
        | cons r rest2 =>
          simp only [goodArgs, goodL, Bool.and_eq_true] at hargs
          obtain ⟨u1, g1⟩ := optUnify_blind fo ν hinj n f l r σ hargs.1 hargs.2.1 hs
          simp only [optList, mapArgs, mapNL, TermList.toList, e3, u1]
          cases hu : optUnify fo f l r σ with
          | ok o =>
            refine ⟨rfl, fun σ' txt h => ?_⟩
            simp only [Res.bind_ok, Res.ok.injEq, BipOut.mk.injEq] at h
            exact g1 σ' (by rw [hu, h.1])
          | fail => exact ⟨rfl, fun σ' txt h => by simp [Res.bind] at h⟩
          | panic => exact ⟨rfl, fun σ' txt h => by simp [Res.bind] at h⟩
          | oof => exact ⟨rfl, fun σ' txt h => by simp [Res.bind] at h⟩
  · cases hop : CmpOp.ofName name with
    | none => simp [hop] at h
    | some op =>
      obtain ⟨e1, g1⟩ := bipCompare_blind fo ν f op args σ
      rw [runBip_cmp fo f hop, runBip_cmp fo f hop, e1]
      cases hc : bipCompare fo f op (optList args) σ with
      | ok o =>
        refine ⟨rfl, fun σ' txt h2 => ?_⟩
        simp only [Res.bind_ok, Res.ok.injEq, BipOut.mk.injEq] at h2
        have := g1 σ' (by rw [hc, h2.1])
        rw [this]; exact hs
      | fail => exact ⟨rfl, fun σ' txt h2 => by simp [Res.bind] at h2⟩
      | panic => exact ⟨rfl, fun σ' txt h2 => by simp [Res.bind] at h2⟩
      | oof => exact ⟨rfl, fun σ' txt h2 => by simp [Res.bind] at h2⟩

end Suiron.Blind
