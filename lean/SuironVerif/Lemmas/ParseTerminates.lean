/-
  Termination of the goal and rule parsers: for every input some fuel suffices (and then every larger one gives
  the same outcome), i.e. the model's "does not return" outcome is not a behaviour of `generate_goal` / `parse_rule`.
-/
import SuironVerif.Lemmas.ParseFuel
import SuironVerif.Lemmas.ParseMono
namespace Suiron.Parse
open Suiron

theorem Res.stable {α} (F : Nat → Res α) (hmono : ∀ f, (F f).le (F (f+1))) {f0 f : Nat} (h : f0 ≤ f) (hne : F f0 ≠ .oof) :
    F f = F f0 := by
  rcases Res.le_lift F hmono f0 f h with h1 | h1
  · exact absurd h1 hne
  · exact h1.symm

theorem generateGoal_terminates (po : POps) (s : Text) : ∃ f0, ∀ f, f0 ≤ f → generateGoal po f s ≠ .oof := by
  unfold generateGoal
  cases htk : tokenize s with
  | oof => exact absurd htk (tokenize_ne_oof s)
  | fail => exact ⟨0, fun f _ => by simp [Res.bind]⟩
  | panic => exact ⟨0, fun f _ => by simp [Res.bind]⟩
  | ok tokens =>
    have hlv := tokenize_leaves s tokens htk
    cases hg : groupTokens tokens (tokens.length + 2) 0 [] with
    | oof => exact absurd hg (groupTokens_ne_oof tokens _ _ _ (by omega) (by omega))
    | fail => exact ⟨0, fun f _ => by simp [Res.bind, hg]⟩
    | panic => exact ⟨0, fun f _ => by simp [Res.bind, hg]⟩
    | ok t0 =>
      have hl0 : LeavesLe (s.length + 1) t0.1 := groupTokens_leaves _ tokens hlv _ _ _ _ (by simp) hg
      let f0 := sizeOf t0.1 + 1
      have hA0 : groupAnd f0 t0.1 ≠ .oof := (group_ne_oof f0).1 t0.1 (by omega)
      have hAs : ∀ f, f0 ≤ f → groupAnd f t0.1 = groupAnd f0 t0.1 := fun f hf =>
        Res.stable (fun f => groupAnd f t0.1) (fun f => (group_le f).1 t0.1) hf hA0
      cases hA : groupAnd f0 t0.1 with
      | oof => exact absurd hA hA0
      | fail => exact ⟨f0, fun f hf => by simp [Res.bind, hg, hAs f hf, hA]⟩
      | panic => exact ⟨f0, fun f hf => by simp [Res.bind, hg, hAs f hf, hA]⟩
      | ok t1 =>
        have hl1 : LeavesLe (s.length + 1) t1 := (group_leaves _ f0).1 t0.1 t1 hl0 hA
        have hO0 : groupOr f0 t1 ≠ .oof := (group_ne_oof f0).2.2 t1 (by omega)
        have hOs : ∀ f, f0 ≤ f → groupOr f t1 = groupOr f0 t1 := fun f hf =>
          Res.stable (fun f => groupOr f t1) (fun f => (group_le f).2.2 t1) hf hO0
        cases hO : groupOr f0 t1 with
        | oof => exact absurd hO hO0
        | fail => exact ⟨f0, fun f hf => by simp [Res.bind, hg, hAs f hf, hA, hOs f hf, hO]⟩
        | panic => exact ⟨f0, fun f hf => by simp [Res.bind, hg, hAs f hf, hA, hOs f hf, hO]⟩
        | ok t2 =>
          have hl2 : LeavesLe (s.length + 1) t2 := (group_leaves _ f0).2.2 t1 t2 hl1 hO
          refine ⟨f0 + (sizeOf t2 + (3 * (s.length + 1) + 4)), fun f hf => ?_⟩
          simp only [Res.bind, hg, hAs f (by omega), hA, hOs f (by omega), hO]
          exact (tree_ne_oof po (s.length + 1) f).1 t2 hl2 (by omega)

theorem parseRule_terminates (po : POps) (s : Text) : ∃ f0, ∀ f, f0 ≤ f → parseRule po f s ≠ .oof := by
  unfold parseRule
  simp only
  split
  · exact ⟨0, fun _ _ => Res.fail_ne_oof⟩
  · split
    · rename_i index _
      generalize (if (trim s).getLast? == some '.' then (trim s).dropLast else trim s) = chrs
      cases h1 : slice chrs 0 index with
      | oof => exact absurd h1 (slice_ne_oof _ _ _)
      | fail => exact ⟨0, fun f _ => by simp [Res.bind]⟩
      | panic => exact ⟨0, fun f _ => by simp [Res.bind]⟩
      | ok headChrs =>
        cases h2 : slice chrs (index + 2) chrs.length with
        | oof => exact absurd h2 (slice_ne_oof _ _ _)
        | fail => exact ⟨0, fun f _ => by simp [Res.bind]⟩
        | panic => exact ⟨0, fun f _ => by simp [Res.bind]⟩
        | ok bodyChrs =>
          obtain ⟨fg, hfg⟩ := generateGoal_terminates po bodyChrs
          refine ⟨fg + (3 * headChrs.length + 4), fun f hf => ?_⟩
          simp only [Res.bind]
          refine Res.ite_ne_oof (fun _ => Res.fail_ne_oof) (fun _ => ?_)
          have hsg := parseSubgoal_fuel po headChrs f (by omega)
          have hgg := hfg f (by omega)
          cases hs : parseSubgoal po f headChrs with
          | oof => exact absurd hs hsg
          | fail => simp
          | panic => simp
          | ok sg =>
            simp only
            split
            · cases hb : generateGoal po f bodyChrs with
              | oof => exact absurd hb hgg
              | fail => simp
              | panic => simp
              | ok body => simp
            · exact Res.fail_ne_oof
    · refine ⟨3 * s.length, fun f hf => ?_⟩
      refine Res.bind_ne_oof (parseComplex_fuel po _ f ?_) (fun _ _ => Res.ok_ne_oof _)
      have := trim_length_le s
      split
      · simp only [List.length_dropLast]; omega
      · omega

end Suiron.Parse
