/-
  Integers round-trip through the printer and the parser: `parse_term (i.to_string()) = SInteger(i)` for every i64.
  `digitsVal` (the model of `str::parse::<i64>` on digit strings) inverts `Nat.repr`, by induction on the digit loop
  of `Nat.toDigitsCore`.
-/
import SuironVerif.Lemmas.ParseToken
namespace Suiron.Parse
open Suiron

theorem digit_facts : ∀ d, d < 10 → isDigit (Nat.digitChar d) = true ∧ (Nat.digitChar d).toNat - '0'.toNat = d ∧
    Nat.digitChar d ≠ '-' ∧ Nat.digitChar d ≠ '+' ∧ tokChar (Nat.digitChar d) = true := by
  intro d hd
  have : d = 0 ∨ d = 1 ∨ d = 2 ∨ d = 3 ∨ d = 4 ∨ d = 5 ∨ d = 6 ∨ d = 7 ∨ d = 8 ∨ d = 9 := by omega
  rcases this with h | h | h | h | h | h | h | h | h | h <;> subst h <;> decide

theorem digitsVal_core : ∀ (fuel n : Nat) (ds : Text), n < fuel →
    ∃ k, ∀ acc, digitsVal (Nat.toDigitsCore 10 fuel n ds) acc = digitsVal ds (acc * 10 ^ k + n) := by
  intro fuel
  induction fuel with
  | zero => intro n ds h; omega
  | succ fuel ih =>
    intro n ds h
    have hd := digit_facts (n % 10) (Nat.mod_lt _ (by decide))
    simp only [Nat.toDigitsCore]
    by_cases h0 : n / 10 = 0
    · simp only [h0, if_true]
      refine ⟨1, fun acc => ?_⟩
      simp only [digitsVal, hd.1, if_true, hd.2.1]
      have : n % 10 = n := by omega
      rw [this]
    · simp only [h0, if_false]
      obtain ⟨k, hk⟩ := ih (n / 10) (Nat.digitChar (n % 10) :: ds) (by omega)
      refine ⟨k + 1, fun acc => ?_⟩
      rw [hk]
      simp only [digitsVal, hd.1, if_true, hd.2.1]
      congr 1
      have := Nat.div_add_mod n 10
      rw [Nat.pow_succ]
      have e : (acc * 10 ^ k + n / 10) * 10 + n % 10 = acc * (10 ^ k * 10) + (10 * (n / 10) + n % 10) := by
        rw [Nat.add_mul, Nat.mul_assoc, Nat.mul_comm (n / 10) 10, Nat.add_assoc]
      rw [e, this]

theorem digitsVal_repr (n : Nat) : digitsVal (Nat.repr n).toList 0 = some n := by
  obtain ⟨k, hk⟩ := digitsVal_core (n + 1) n [] (by omega)
  simp only [Nat.repr, String.toList_ofList, Nat.toDigits, hk, digitsVal]
  simp

/-- every character of a decimal numeral is a digit, and there is at least one -/
theorem core_digits : ∀ (fuel n : Nat) (ds : Text), (∀ c ∈ ds, isDigit c = true ∧ tokChar c = true) →
    (∀ c ∈ Nat.toDigitsCore 10 fuel n ds, isDigit c = true ∧ tokChar c = true) ∧ (0 < fuel → Nat.toDigitsCore 10 fuel n ds ≠ []) := by
  intro fuel
  induction fuel with
  | zero => intro n ds h; exact ⟨by simpa [Nat.toDigitsCore] using h, fun h0 => by omega⟩
  | succ fuel ih =>
    intro n ds h
    have hd := digit_facts (n % 10) (Nat.mod_lt _ (by decide))
    have hds : ∀ c ∈ Nat.digitChar (n % 10) :: ds, isDigit c = true ∧ tokChar c = true := by
      intro c hc
      rcases List.mem_cons.mp hc with e | e
      · rw [e]; exact ⟨hd.1, hd.2.2.2.2⟩
      · exact h c e
    simp only [Nat.toDigitsCore]
    by_cases h0 : n / 10 = 0
    · simp only [h0, if_true]
      exact ⟨hds, fun _ => by simp⟩
    · simp only [h0, if_false]
      refine ⟨(ih (n / 10) _ hds).1, fun _ => ?_⟩
      cases fuel with
      | zero => simp [Nat.toDigitsCore]
      | succ f => exact (ih (n / 10) _ hds).2 (by omega)

theorem repr_digits (n : Nat) : (∀ c ∈ (Nat.repr n).toList, isDigit c = true ∧ tokChar c = true) ∧ (Nat.repr n).toList ≠ [] := by
  simp only [Nat.repr, String.toList_ofList, Nat.toDigits]
  have := core_digits (n + 1) n [] (by simp)
  exact ⟨this.1, this.2 (by omega)⟩

theorem int_text_neg (m : Nat) : (toString (Int.negSucc m)).toList = '-' :: (Nat.repr (m + 1)).toList := by
  show (Int.repr (Int.negSucc m)).toList = _
  simp [Int.repr]

theorem int_text_pos (m : Nat) : (toString (Int.ofNat m)).toList = (Nat.repr m).toList := by
  show (Int.repr (Int.ofNat m)).toList = _
  simp [Int.repr]

theorem parseI64_digits (c : Char) (cs : Text) (h1 : c ≠ '-') (h2 : c ≠ '+') (n : Nat) (h : digitsVal (c :: cs) 0 = some n) (hn : n < 2^63) :
    parseI64 (c :: cs) = some (Int.ofNat n) := by
  unfold parseI64
  split
  · rename_i e; cases e
  · rename_i ds e; cases e; exact absurd rfl h1
  · rename_i ds e; cases e; exact absurd rfl h2
  · simp [h, hn]

/-- `str::parse::<i64>` inverts `i64::to_string` -/
theorem parseI64_toString (i : Int) (hlo : -(2:Int)^63 ≤ i) (hhi : i < (2:Int)^63) : parseI64 (toString i).toList = some i := by
  cases i with
  | ofNat m =>
    rw [int_text_pos]
    obtain ⟨hd, hne⟩ := repr_digits m
    cases hl : (Nat.repr m).toList with
    | nil => exact absurd hl hne
    | cons c cs =>
      have hc := (hd c (by rw [hl]; simp)).1
      have hv := digitsVal_repr m
      rw [hl] at hv
      have hm : m < 2^63 := by
        have : (Int.ofNat m) < (2:Int)^63 := hhi
        exact Int.ofNat_lt.mp (by simpa using this)
      refine parseI64_digits c cs ?_ ?_ m hv hm
      · intro e; subst e; revert hc; decide
      · intro e; subst e; revert hc; decide
  | negSucc m =>
    rw [int_text_neg]
    obtain ⟨hd, hne⟩ := repr_digits (m + 1)
    have hv := digitsVal_repr (m + 1)
    have hm : m + 1 ≤ 2^63 := by
      have : -(2:Int)^63 ≤ Int.negSucc m := hlo
      have h2 : Int.negSucc m = -((m : Int) + 1) := Int.negSucc_eq m
      rw [h2] at this
      have : ((m + 1 : Nat) : Int) ≤ ((2^63 : Nat) : Int) := by
        have e : ((2^63 : Nat) : Int) = (2:Int)^63 := by norm_cast
        rw [e]; push_cast; omega
      exact Int.ofNat_le.mp this
    unfold parseI64
    simp only [List.isEmpty_iff, hne, if_false, hv, Option.bind_some, hm, if_true]
    rw [Int.negSucc_eq]; simp

theorem flagLoop_digits (b : Bool) : ∀ (s : Text) (i : Nat) (acc : Bool × Bool × Bool), (∀ c ∈ s, isDigit c = true) →
    flagLoop b s i acc = (acc.1 || !s.isEmpty, acc.2.1, acc.2.2)
  | [], _, acc, _ => by simp [flagLoop]
  | c :: cs, i, acc, h => by
    have hc : isDigit c = true := h c (by simp)
    rw [flagLoop, flagLoop_digits b cs (i + 1) _ (fun x hx => h x (by simp [hx]))]
    simp [flagStep, hc]

theorem termFlags_int (i : Int) : termFlags (toString i).toList = (true, false, false) := by
  rw [termFlags_eq]
  cases i with
  | ofNat m =>
    rw [int_text_pos]
    obtain ⟨hd, hne⟩ := repr_digits m
    rw [flagLoop_digits _ _ _ _ (fun c hc => (hd c hc).1)]
    cases hl : (Nat.repr m).toList with
    | nil => exact absurd hl hne
    | cons _ _ => simp
  | negSucc m =>
    rw [int_text_neg]
    obtain ⟨hd, hne⟩ := repr_digits (m + 1)
    cases hl : (Nat.repr (m + 1)).toList with
    | nil => exact absurd hl hne
    | cons c cs =>
      have hc : isDigit c = true := (hd c (by rw [hl]; simp)).1
      have hcs : ∀ x ∈ c :: cs, isDigit x = true := fun x hx => (hd x (by rw [hl]; exact hx)).1
      simp only [List.drop_succ_cons, List.drop_zero, List.head?_cons, Option.getD_some, hc]
      rw [flagLoop]
      rw [flagLoop_digits _ _ _ _ hcs]
      simp [flagStep, isDigit]

theorem int_token (i : Int) : TokenText (toString i).toList := by
  cases i with
  | ofNat m =>
    rw [int_text_pos]
    obtain ⟨hd, hne⟩ := repr_digits m
    exact ⟨hne, fun c hc => (hd c hc).2⟩
  | negSucc m =>
    rw [int_text_neg]
    obtain ⟨hd, _⟩ := repr_digits (m + 1)
    refine ⟨by simp, fun c hc => ?_⟩
    rcases List.mem_cons.mp hc with e | e
    · rw [e]; decide
    · exact (hd c e).2

/-- every character of the text of an integer is a digit or the minus sign -/
theorem int_chars (i : Int) : ∀ c ∈ (toString i).toList, isDigit c = true ∨ c = '-' := by
  cases i with
  | ofNat m =>
    rw [int_text_pos]
    exact fun c hc => Or.inl ((repr_digits m).1 c hc).1
  | negSucc m =>
    rw [int_text_neg]
    intro c hc
    rcases List.mem_cons.mp hc with e | e
    · exact Or.inr e
    · exact Or.inl ((repr_digits (m + 1)).1 c e).1

/-- `make_term` on the text of an integer, with the flags `parse_term` computes for it -/
theorem makeTerm_int (po : POps) (f : Nat) (i : Int) (hlo : -(2:Int)^63 ≤ i) (hhi : i < (2:Int)^63) :
    makeTerm po (f + 1) (toString i).toList true false false = .ok (.int i) := by
  have htok := int_token i
  have hch := int_chars i
  have hp := parseI64_toString i hlo hhi
  generalize (toString i).toList = T at *
  have hnot : ∀ c ∈ T, c ≠ '$' ∧ c ≠ '"' ∧ c ≠ '[' ∧ c ≠ ')' := by
    intro c hc
    rcases hch c hc with h | h
    · refine ⟨?_, ?_, ?_, ?_⟩ <;> (intro e; subst e; revert h; decide)
    · subst h; decide
  simp only [makeTerm, htok.trim]
  cases hT : T with
  | nil => exact absurd hT htok.1
  | cons first rest =>
    have hf := hnot first (by rw [hT]; simp)
    rw [hT] at hp
    simp only [beq_iff_eq, hf.1, if_false, Bool.and_self, Bool.not_false, Bool.true_and, if_true, Bool.false_eq_true, hp]
    by_cases hlen : (first :: rest).length ≥ 2
    · simp only [hlen, if_true]
      cases hl : (first :: rest).getLast? with
      | none => simp at hl
      | some last =>
        have hmem : last ∈ T := by rw [hT]; exact List.mem_of_getLast? hl
        have hla := hnot last hmem
        simp [hf.2.1, hf.2.2.1, hla.2.2.2]
    · simp only [hlen, if_false]

/-- the printed text of an integer term parses back to it, alone (and hence, by the token lemmas, in every context) -/
theorem parseTerm_int (po : POps) (f : Nat) (i : Int) (hlo : -(2:Int)^63 ≤ i) (hhi : i < (2:Int)^63) :
    parseTerm po (f + 2) (toString i).toList = .ok (.int i) := by
  rw [parseTerm_token po (f + 1) (int_token i), termFlags_int]
  exact makeTerm_int po f i hlo hhi

end Suiron.Parse
