/-
  Generic invariant principle for the process-global state `G` of the engine model:
  a predicate preserved by the three ways the engine touches `G` (writing output, moving the
  variable counter, `count_rules`) is preserved by every request.
-/
import SuironVerif.Model.Solve
namespace Suiron

structure GStable (kb : KB) (P : G → Prop) : Prop where
  emit : ∀ g s, P g → P (g.emit s)
  counter : ∀ g c, P g → P { g with counter := c }
  count : ∀ g key, P g → P (countRules kb key g).2

theorem mkNode_ginv (sf : UInt64 → String) (kb : KB) (P : G → Prop) (hP : GStable kb P) :
    ∀ (goal : Goal) (σ : Subst) (g : G) (r : Node × G), mkNode sf kb goal σ g = .ok r → P g → P r.2
  | .call t, σ, g, r, h, hg => by
    simp only [mkNode] at h
    obtain ⟨key, _, h⟩ := Res.bind_eq_ok.mp h
    cases h; exact hP.count g key hg
  | .bip name args, σ, g, r, h, hg => by simp [mkNode] at h; cases h; exact hg
  | .and (.cons hd rest), σ, g, r, h, hg => by
    simp only [mkNode] at h
    obtain ⟨x, hx, h⟩ := Res.bind_eq_ok.mp h
    cases h; exact mkNode_ginv sf kb P hP hd σ g x hx hg
  | .or (.cons hd rest), σ, g, r, h, hg => by
    simp only [mkNode] at h
    obtain ⟨x, hx, h⟩ := Res.bind_eq_ok.mp h
    cases h; exact mkNode_ginv sf kb P hP hd σ g x hx hg
  | .time (.cons hd _), σ, g, r, h, hg => by
    simp only [mkNode] at h
    obtain ⟨x, hx, h⟩ := Res.bind_eq_ok.mp h
    cases h; exact mkNode_ginv sf kb P hP hd σ g x hx hg
  | .not (.cons hd _), σ, g, r, h, hg => by
    simp only [mkNode] at h
    obtain ⟨x, hx, h⟩ := Res.bind_eq_ok.mp h
    cases h; exact mkNode_ginv sf kb P hP hd σ g x hx hg
  | .and .nil, σ, g, r, h, _ => by simp [mkNode] at h
  | .or .nil, σ, g, r, h, _ => by simp [mkNode] at h
  | .time .nil, σ, g, r, h, _ => by simp [mkNode] at h
  | .not .nil, σ, g, r, h, _ => by simp [mkNode] at h
  | .nil, σ, g, r, h, _ => by simp [mkNode] at h

theorem ginv_all (fo : FloatOps) (kb : KB) (P : G → Prop) (hP : GStable kb P) : ∀ f,
    (∀ n g st, next fo kb f n g = .ok st → P g → P st.g) ∧
    (∀ t σ nb child idx n g st, callLoop fo kb f t σ nb child idx n g = .ok st → P g → P st.g) ∧
    (∀ σ nb more head rest tail cutAcc g st, andLoop fo kb f σ nb more head rest tail cutAcc g = .ok st → P g → P st.g) := by
  intro f
  induction f with
  | zero =>
    refine ⟨?_, ?_, ?_⟩
    · intro n g st h; simp [next] at h
    · intro t σ nb child idx n g st h; simp [callLoop] at h
    · intro σ nb more head rest tail cutAcc g st h; simp [andLoop] at h
  | succ f ih =>
    obtain ⟨ihN, ihC, ihA⟩ := ih
    refine ⟨?_, ?_, ?_⟩
    · intro n g st h hg
      by_cases hnb : n.nb = true
      · simp [next, hnb] at h; subst h; exact hg
      · cases n with
        | bip name args σ nb more =>
          simp [Node.nb] at hnb; subst hnb
          simp only [next, Node.nb] at h; simp at h
          by_cases hm : more = true
          · simp [hm] at h
            by_cases hc : name = "!"
            · simp [hc] at h; subst h; exact hg
            · simp [hc] at h
              obtain ⟨r, _, h⟩ := Res.bind_eq_ok.mp h; cases h; exact hP.emit g _ hg
          · simp at hm; subst hm; simp at h; subst h; exact hg
        | call t σ nb child idx n =>
          simp [Node.nb] at hnb; subst hnb
          simp only [next, Node.nb] at h; simp at h
          cases child with
          | none => simp at h; exact ihC _ _ _ _ _ _ _ _ h hg
          | some c =>
            simp at h
            obtain ⟨r, hr, h⟩ := Res.bind_eq_ok.mp h
            have hrg := ihN _ _ _ hr hg
            by_cases hsol : r.sol.isSome = true
            · simp [hsol] at h; subst h; exact hrg
            · simp [hsol] at h; exact ihC _ _ _ _ _ _ _ _ h hrg
        | op k σ nb more head rest tail =>
          simp [Node.nb] at hnb; subst hnb
          cases k with
          | and =>
            simp only [next, Node.nb] at h; simp at h
            cases tail with
            | none => simp at h; exact ihA _ _ _ _ _ _ _ _ _ h hg
            | some tn =>
              simp at h
              obtain ⟨r, hr, h⟩ := Res.bind_eq_ok.mp h
              have hrg := ihN _ _ _ hr hg
              by_cases hsol : r.sol.isSome = true
              · simp [hsol] at h; subst h; exact hrg
              · simp [hsol] at h; exact ihA _ _ _ _ _ _ _ _ _ h hrg
          | or =>
            simp only [next, Node.nb] at h; simp at h
            cases tail with
            | some tn =>
              simp at h
              obtain ⟨r, hr, h⟩ := Res.bind_eq_ok.mp h
              cases h; exact (ihN tn g r hr hg : P r.g)
            | none =>
              simp at h
              obtain ⟨r, hr, h⟩ := Res.bind_eq_ok.mp h
              have hrg := ihN _ _ _ hr hg
              by_cases hsol : r.sol.isSome = true
              · simp [hsol] at h; subst h; exact hrg
              · simp [hsol] at h
                by_cases hl : rest.length = 0
                · simp [hl] at h; subst h; exact hrg
                · simp [hl] at h
                  by_cases hcut : r.cut = true
                  · simp [hcut] at h; subst h; exact hrg
                  · simp [hcut] at h
                    obtain ⟨m, hm, h⟩ := Res.bind_eq_ok.mp h
                    obtain ⟨r2, hr2, h⟩ := Res.bind_eq_ok.mp h
                    cases h
                    exact (ihN m.1 m.2 r2 hr2 (mkNode_ginv fo.showF kb P hP _ _ _ _ hm hrg) : P r2.g)
          | not =>
            simp only [next, Node.nb] at h; simp at h
            by_cases hm : more = true
            · simp [hm] at h
              obtain ⟨r, hr, h⟩ := Res.bind_eq_ok.mp h
              cases h; exact (ihN head g r hr hg : P r.g)
            · simp at hm; subst hm; simp at h; subst h; exact hg
          | time =>
            simp only [next, Node.nb] at h; simp at h
            by_cases hm : more = true
            · simp [hm] at h
              obtain ⟨r, hr, h⟩ := Res.bind_eq_ok.mp h
              cases h; exact (hP.emit r.g "<elapsed>" (ihN head g r hr hg) : P (r.g.emit "<elapsed>"))
            · simp at hm; subst hm; simp at h; subst h; exact hg
    · intro t σ nb child idx n g st h hg
      simp only [callLoop] at h
      by_cases hnb : nb = true
      · simp [hnb] at h; subst h; exact hg
      · simp [hnb] at h
        by_cases hge : n ≤ idx
        · simp [hge] at h; subst h; exact hg
        · simp [hge] at h
          obtain ⟨key, _, h⟩ := Res.bind_eq_ok.mp h
          obtain ⟨rc, _, h⟩ := Res.bind_eq_ok.mp h
          split at h
          · exact ihC _ _ _ _ _ _ _ _ h hg
          · cases h
          · cases h
          · have hg1 := hP.counter g rc.2 hg
            split at h
            · cases h; exact hg1
            · obtain ⟨m, hm, h⟩ := Res.bind_eq_ok.mp h
              obtain ⟨r, hr, h⟩ := Res.bind_eq_ok.mp h
              have hrg := ihN _ _ _ hr (mkNode_ginv fo.showF kb P hP _ _ _ _ hm hg1)
              by_cases hsol : r.sol.isSome = true
              · simp [hsol] at h; subst h; exact hrg
              · simp [hsol] at h; exact ihC _ _ _ _ _ _ _ _ h hrg
    · intro σ nb more head rest tail cutAcc g st h hg
      simp only [andLoop] at h
      obtain ⟨r, hr, h⟩ := Res.bind_eq_ok.mp h
      have hrg := ihN _ _ _ hr hg
      cases hrs : r.sol with
      | none => simp [hrs] at h; subst h; exact hrg
      | some ss =>
        simp [hrs] at h
        by_cases hl : rest.length = 0
        · simp [hl] at h; subst h; exact hrg
        · simp [hl] at h
          obtain ⟨m, hm, h⟩ := Res.bind_eq_ok.mp h
          obtain ⟨r2, hr2, h⟩ := Res.bind_eq_ok.mp h
          have hr2g := ihN _ _ _ hr2 (mkNode_ginv fo.showF kb P hP _ _ _ _ hm hrg)
          by_cases hsol : r2.sol.isSome = true
          · simp [hsol] at h; subst h; exact hr2g
          · simp [hsol] at h; exact ihA _ _ _ _ _ _ _ _ _ h hr2g

end Suiron
