/-
  C11 for the ENGINE MODEL: the requests on the base node of a query against a knowledge base whose rules have been renamed
  return, one by one, the renamed answers of the requests against the original knowledge base.

  From `machine_blind_to_names` (the reference machine is blind to names), `query_refines_machine` (the requests of the
  engine model are a run of the machine, for both knowledge bases) and `MRun.det` (the machine's run is unique).
-/
import SuironVerif.Lemmas.NameBlindKB
import SuironVerif.Lemmas.NameBlindGroup
import SuironVerif.Lemmas.EngineRefineGroup
import SuironVerif.Lemmas.GroupMachineProps
import SuironVerif.Lemmas.EngineRefine
import SuironVerif.Lemmas.MachineDet
namespace Suiron.Blind
open Suiron Suiron.Spec

mutual
theorem pureG_mapG (ν : NMap) : ∀ g : Goal, pureG (mapG ν g) = pureG g
  | .call _ => rfl
  | .bip _ none => rfl
  | .bip _ (some _) => rfl
  | .and gs => by simp only [mapG, pureG, length_mapGL, pureGL_mapGL ν gs]
  | .or gs => by simp only [mapG, pureG, length_mapGL, pureGL_mapGL ν gs]
  | .not gs => by simp only [mapG, pureG, length_mapGL, pureGL_mapGL ν gs]
  | .time _ => rfl
  | .nil => rfl
theorem pureGL_mapGL (ν : NMap) : ∀ gs : GoalList, pureGL (mapGL ν gs) = pureGL gs
  | .nil => rfl
  | .cons g gs => by simp only [mapGL, pureGL, pureG_mapG ν g, pureGL_mapGL ν gs]
end

theorem RulesRen.get' {rs rs' : List Rule} (h : RulesRen rs rs') : ∀ (idx : Nat) (r' : Rule), rs'[idx]? = some r' →
    ∃ r ρ, SInj ρ ∧ rs[idx]? = some r ∧ r' = mapRule ρ r := by
  induction h with
  | nil => intro idx r hr; simp at hr
  | @cons r0 rs rs' ρ hρ _ ih =>
    intro idx r' hr
    cases idx with
    | zero => simp at hr; exact ⟨r0, ρ, hρ, by simp, hr.symm⟩
    | succ i => simp at hr; simpa using ih i r' hr

/-- the renamed knowledge base lies in the cut-free fragment when the original does -/
theorem pureKB_ren {kb kb' : KB} (h : KBRen kb kb') (hp : PureKB kb) : PureKB kb' := by
  intro key idx c rule c' hget
  unfold getRule at hget
  rcases h.get key with ⟨_, e2⟩ | ⟨rs, rs', e1, e2, hrr⟩
  · simp [e2] at hget
  simp only [e2] at hget
  cases hi : rs'[idx]? with
  | none => simp [hi] at hget
  | some r' =>
    simp only [hi] at hget
    obtain ⟨r, ρ, hρ, hir, er⟩ := hrr.get' idx r' hi
    subst er
    have hc := renameRule_comm ρ hρ r ⟨[], c⟩
    have e0 : mapSt ρ ⟨[], c⟩ = ⟨[], c⟩ := rfl
    rw [e0] at hc
    rw [hc] at hget
    cases hx : renameRule r ⟨[], c⟩ with
    | ok x =>
      simp only [hx, Res.map, Res.bind_ok, Res.ok.injEq, Prod.mk.injEq] at hget
      have horig : getRule kb key idx c = .ok (x.1, x.2.counter) := by
        unfold getRule
        simp only [e1, hir, hx, Res.bind_ok]
      have := hp key idx c x.1 x.2.counter horig
      rw [← hget.1]
      simp only [mapRule, isNil_mapG, pureG_mapG]
      exact this
    | fail => simp [hx, Res.map, Res.bind] at hget
    | panic => simp [hx, Res.map, Res.bind] at hget
    | oof => simp [hx, Res.map, Res.bind] at hget

/-- C11 FOR THE ENGINE MODEL (cut-free fragment without built-in predicates and function terms): the i-th request on the
    base node of the query against the renamed knowledge base returns the renamed answer (or none) of the i-th request
    against the original one, with the same text written — whatever the timer ticks `fs`, `fs'` of the two sessions -/
theorem engine_blind_to_names (fo : FloatOps) {kb kb' : KB} (hren : KBRen kb kb') (hok : kbOK kb) (hp : PureKB kb)
    (q : Term) (g0 g1 g1' : G) (node node' : Node) (hq : good g0.counter q = true ∧ callOK q = true)
    (hmk : mkNode fo.showF kb (.call q) [] g0 = .ok (node, g1)) (hmk' : mkNode fo.showF kb' (.call q) [] g0 = .ok (node', g1'))
    (hg : GOK g0) (fs fs' : List Nat) :
    ∃ ν, Inj ν ∧ (∀ i, i ≤ g0.counter → ν i = idN i) ∧
      ∀ (i : Nat) x y, (askOut fo kb' fs' node' g1')[i]? = some x → (mapTr ν (askOut fo kb fs node g1))[i]? = some y → x = y := by
  have r1 := query_refines_machine fo kb hp q [] g0 g1 node hmk hg fs
  have r2 := query_refines_machine fo kb' (pureKB_ren hren hp) q [] g0 g1' node' hmk' hg fs'
  have hgq : goodG g0.counter (.call q) = true := by simp only [goodG, Bool.and_eq_true]; exact hq
  obtain ⟨ν, hinj, hag, hrun⟩ := machine_blind_to_names fo (kbRel_of_kbRen hren hok) (.call q) g0.counter hgq g0.out r1
  exact ⟨ν, hinj, hag, fun i x y hx hy => r2.det hrun i x y hx hy⟩

/-! ### the whole control language: cut, groups, negation, timing -/

mutual
theorem ncG_mapG (ν : NMap) : ∀ g : Goal, Grp.ncG (mapG ν g) = Grp.ncG g
  | .call _ => rfl
  | .bip _ none => rfl
  | .bip _ (some _) => rfl
  | .and gs => by simp only [mapG, Grp.ncG, ncGL_mapGL ν gs]
  | .or gs => by simp only [mapG, Grp.ncG, ncGL_mapGL ν gs]
  | .not gs => by simp only [mapG, Grp.ncG, ncGL_mapGL ν gs]
  | .time gs => by simp only [mapG, Grp.ncG, ncGL_mapGL ν gs]
  | .nil => rfl
theorem ncGL_mapGL (ν : NMap) : ∀ gs : GoalList, Grp.ncGL (mapGL ν gs) = Grp.ncGL gs
  | .nil => rfl
  | .cons g gs => by simp only [mapGL, Grp.ncGL, ncG_mapG ν g, ncGL_mapGL ν gs]
end

mutual
theorem okG_mapG (ν : NMap) : ∀ g : Goal, Grp.okG (mapG ν g) = Grp.okG g
  | .call _ => rfl
  | .bip _ none => rfl
  | .bip _ (some _) => rfl
  | .and gs => by simp only [mapG, Grp.okG, length_mapGL, okGL_mapGL ν gs]
  | .or gs => by simp only [mapG, Grp.okG, length_mapGL, okGL_mapGL ν gs]
  | .not gs => by simp only [mapG, Grp.okG, length_mapGL, okGL_mapGL ν gs, ncGL_mapGL ν gs]
  | .time gs => by simp only [mapG, Grp.okG, length_mapGL, okGL_mapGL ν gs, ncGL_mapGL ν gs]
  | .nil => rfl
theorem okGL_mapGL (ν : NMap) : ∀ gs : GoalList, Grp.okGL (mapGL ν gs) = Grp.okGL gs
  | .nil => rfl
  | .cons g gs => by simp only [mapGL, Grp.okGL, okG_mapG ν g, okGL_mapGL ν gs]
end

/-- the renamed knowledge base lies in the fragment of the machine with cut when the original does -/
theorem okKB_ren {kb kb' : KB} (h : KBRen kb kb') (hp : Grp.OkKB kb) : Grp.OkKB kb' := by
  intro key idx c rule c' hget
  unfold getRule at hget
  rcases h.get key with ⟨_, e2⟩ | ⟨rs, rs', e1, e2, hrr⟩
  · simp [e2] at hget
  simp only [e2] at hget
  cases hi : rs'[idx]? with
  | none => simp [hi] at hget
  | some r' =>
    simp only [hi] at hget
    obtain ⟨r, ρ, hρ, hir, er⟩ := hrr.get' idx r' hi
    subst er
    have hc := renameRule_comm ρ hρ r ⟨[], c⟩
    have e0 : mapSt ρ ⟨[], c⟩ = ⟨[], c⟩ := rfl
    rw [e0] at hc
    rw [hc] at hget
    cases hx : renameRule r ⟨[], c⟩ with
    | ok x =>
      simp only [hx, Res.map, Res.bind_ok, Res.ok.injEq, Prod.mk.injEq] at hget
      have horig : getRule kb key idx c = .ok (x.1, x.2.counter) := by
        unfold getRule
        simp only [e1, hir, hx, Res.bind_ok]
      have := hp key idx c x.1 x.2.counter horig
      rw [← hget.1]
      simp only [mapRule, isNil_mapG, okG_mapG]
      exact this
    | fail => simp [hx, Res.map, Res.bind] at hget
    | panic => simp [hx, Res.map, Res.bind] at hget
    | oof => simp [hx, Res.map, Res.bind] at hget

/-- C11 FOR THE ENGINE MODEL, THE WHOLE CONTROL LANGUAGE (calls, `!`, `,`, `;` nested to any depth, `not`, `time`; no other
    built-in predicate, no function term): the i-th request on the base node of the query against the renamed knowledge base
    returns the renamed answer (or none) of the i-th request against the original one, with the same text written -/
theorem engine_blind_to_names_cut (fo : FloatOps) {kb kb' : KB} (hren : KBRen kb kb') (hok : kbOK kb) (hp : Grp.OkKB kb)
    (q : Term) (g0 g1 g1' : G) (node node' : Node) (hq : good g0.counter q = true ∧ callOK q = true)
    (hmk : mkNode fo.showF kb (.call q) [] g0 = .ok (node, g1)) (hmk' : mkNode fo.showF kb' (.call q) [] g0 = .ok (node', g1'))
    (hg : GOK g0) (fs fs' : List Nat) :
    ∃ ν, Inj ν ∧ (∀ i, i ≤ g0.counter → ν i = idN i) ∧
      ∀ (i : Nat) x y, (askOut fo kb' fs' node' g1')[i]? = some x → (mapTr ν (askOut fo kb fs node g1))[i]? = some y → x = y := by
  have r1 := Grp.query_refines_group_machine fo kb hp q [] g0 g1 node hmk hg fs
  have r2 := Grp.query_refines_group_machine fo kb' (okKB_ren hren hp) q [] g0 g1' node' hmk' hg fs'
  have hgq : goodG g0.counter (.call q) = true := by simp only [goodG, Bool.and_eq_true]; exact hq
  obtain ⟨ν, hinj, hag, hrun⟩ := group_machine_blind_to_names fo (kbRel_of_kbRen hren hok) (.call q) g0.counter hgq g0.out r1
  exact ⟨ν, hinj, hag, fun i x y hx hy => r2.det hrun i x y hx hy⟩

end Suiron.Blind
