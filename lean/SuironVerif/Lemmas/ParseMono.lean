/-
  The parsers are monotone in their fuel: a parse that returns anything but "out of fuel" returns the same
  with every larger fuel.
-/
import SuironVerif.Lemmas.FuelMono
import SuironVerif.Model.ParseGoal
namespace Suiron.Parse
open Suiron

/-! parsers that take the parser of their parts as a parameter are monotone in it -/

section
variable (mk mk' : Text → Bool → Bool → Bool → Res Term) (hmk : ∀ x a b c, (mk x a b c).le (mk' x a b c))
include hmk

theorem argComma_le (rest : Text) (st : ArgSt) : (argComma mk rest st).le (argComma mk' rest st) := by
  unfold argComma; mono

theorem argStep_le (ch : Char) (rest : Text) (st : ArgSt) : (argStep mk ch rest st).le (argStep mk' ch rest st) := by
  have := argComma_le mk mk' hmk
  unfold argStep argStepTop; mono

theorem argsFinish_le (st : ArgSt) : (argsFinish mk st).le (argsFinish mk' st) := by
  unfold argsFinish; mono

theorem argsLoop_le : ∀ (s : Text) (st : ArgSt), (argsLoop mk s st).le (argsLoop mk' s st) := by
  intro s
  have := argStep_le mk mk' hmk
  have := argsFinish_le mk mk' hmk
  induction s with
  | nil => intro st; simp only [argsLoop]; mono
  | cons ch rest ih => intro st; simp only [argsLoop]; mono

theorem parseArgumentsWith_le (s : Text) : (parseArgumentsWith mk s).le (parseArgumentsWith mk' s) := by
  have := argsLoop_le mk mk' hmk
  unfold parseArgumentsWith; mono
end

section
variable (po : POps) (pt pt' : Text → Res Term) (hpt : ∀ x, (pt x).le (pt' x))
include hpt

theorem listStep_le (c : Char) (esc : Bool) (st : ListSt) : (listStep po pt c esc st).le (listStep po pt' c esc st) := by
  unfold listStep listStepTop listComma; mono

theorem listFinish_le (st : ListSt) : (listFinish pt st).le (listFinish pt' st) := by
  unfold listFinish; mono

theorem listLoop_le : ∀ (s : Text) (st : ListSt), (listLoop po pt s st).le (listLoop po pt' s st) := by
  intro s
  have := listStep_le po pt pt' hpt
  have := listFinish_le pt pt' hpt
  induction s with
  | nil => intro st; simp only [listLoop]; mono
  | cons c rest ih => intro st; simp only [listLoop]; mono

theorem parseLinkedListWith_le (s : Text) : (parseLinkedListWith po pt s).le (parseLinkedListWith po pt' s) := by
  have := listLoop_le po pt pt' hpt
  unfold parseLinkedListWith; mono
end

section
variable (pa pa' : Text → Res (List Term)) (hpa : ∀ x, (pa x).le (pa' x))
include hpa

theorem parseFunctorTerms_le (f t : Text) : (parseFunctorTerms pa f t).le (parseFunctorTerms pa' f t) := by
  unfold parseFunctorTerms; mono

theorem parseComplexWith_le (s : Text) : (parseComplexWith pa s).le (parseComplexWith pa' s) := by
  have := parseFunctorTerms_le pa pa' hpa
  unfold parseComplexWith; mono

theorem parseFunctionWith_le (s : Text) : (parseFunctionWith pa s).le (parseFunctionWith pa' s) := by
  unfold parseFunctionWith; mono
end

/-! the recursive descent -/

theorem term_le (po : POps) : ∀ f,
    (∀ s, (parseTerm po f s).le (parseTerm po (f+1) s)) ∧
    (∀ s a b c, (makeTerm po f s a b c).le (makeTerm po (f+1) s a b c)) ∧
    (∀ s, (parseArguments po f s).le (parseArguments po (f+1) s)) ∧
    (∀ s, (parseLinkedList po f s).le (parseLinkedList po (f+1) s)) := by
  intro f
  induction f with
  | zero => exact ⟨fun _ => Res.oof_le _, fun _ _ _ _ => Res.oof_le _, fun _ => Res.oof_le _, fun _ => Res.oof_le _⟩
  | succ f ih =>
    obtain ⟨ihT, ihM, ihA, ihL⟩ := ih
    refine ⟨?_, ?_, ?_, ?_⟩
    · intro s; unfold parseTerm; mono
    · intro s a b c
      have := fun x => parseFunctionWith_le _ _ ihA x
      have := fun x => parseComplexWith_le _ _ ihA x
      unfold makeTerm; mono
    · intro s; simp only [parseArguments]; exact parseArgumentsWith_le _ _ ihM s
    · intro s; simp only [parseLinkedList]; exact parseLinkedListWith_le po _ _ ihT s

theorem parseTerm_le (po : POps) (f : Nat) (s : Text) : (parseTerm po f s).le (parseTerm po (f+1) s) := (term_le po f).1 s
theorem parseArguments_le (po : POps) (f : Nat) (s : Text) : (parseArguments po f s).le (parseArguments po (f+1) s) := (term_le po f).2.2.1 s

theorem parseComplex_le (po : POps) (f : Nat) (s : Text) : (parseComplex po f s).le (parseComplex po (f+1) s) := by
  unfold parseComplex; exact parseComplexWith_le _ _ (parseArguments_le po f) s

theorem parseFunction_le (po : POps) (f : Nat) (s : Text) : (parseFunction po f s).le (parseFunction po (f+1) s) := by
  unfold parseFunction; exact parseFunctionWith_le _ _ (parseArguments_le po f) s

theorem parseQuery_le (po : POps) (f : Nat) (s : Text) : (parseQuery po f s).le (parseQuery po (f+1) s) := by
  have := parseComplex_le po f
  unfold parseQuery; mono

theorem parseSubgoal_le (po : POps) : ∀ f s, (parseSubgoal po f s).le (parseSubgoal po (f+1) s) := by
  intro f
  induction f with
  | zero => intro s; exact Res.oof_le _
  | succ f ih =>
    intro s
    have := parseTerm_le po f
    have := parseArguments_le po f
    have := fun a b => parseFunctorTerms_le _ _ (parseArguments_le po f) a b
    unfold parseSubgoal; mono

/-! the token tree -/

theorem group_le : ∀ f,
    (∀ t, (groupAnd f t).le (groupAnd (f+1) t)) ∧
    (∀ ty cs nc al, (groupAndLoop f ty cs nc al).le (groupAndLoop (f+1) ty cs nc al)) ∧
    (∀ t, (groupOr f t).le (groupOr (f+1) t)) := by
  intro f
  induction f with
  | zero => exact ⟨fun _ => Res.oof_le _, fun _ _ _ _ => Res.oof_le _, fun _ => Res.oof_le _⟩
  | succ f ih =>
    obtain ⟨ih1, ih2, ih3⟩ := ih
    refine ⟨?_, ?_, ?_⟩
    · intro t; cases t <;> (unfold groupAnd; mono)
    · intro ty cs nc al; cases cs <;> (unfold groupAndLoop; mono)
    · intro t; cases t <;> (unfold groupOr; mono)

theorem tree_le (po : POps) : ∀ f,
    (∀ t, (tokenTreeToGoal po f t).le (tokenTreeToGoal po (f+1) t)) ∧
    (∀ inOr cs, (operands po f inOr cs).le (operands po (f+1) inOr cs)) := by
  intro f
  induction f with
  | zero => exact ⟨fun _ => Res.oof_le _, fun _ _ => Res.oof_le _⟩
  | succ f ih =>
    obtain ⟨ih1, ih2⟩ := ih
    have := parseSubgoal_le po f
    refine ⟨?_, ?_⟩
    · intro t; cases t <;> (unfold tokenTreeToGoal; mono)
    · intro inOr cs; cases cs <;> (unfold operands; mono)

theorem generateGoal_le (po : POps) (f : Nat) (s : Text) : (generateGoal po f s).le (generateGoal po (f+1) s) := by
  have := (group_le f).1
  have := (group_le f).2.2
  have := (tree_le po f).1
  unfold generateGoal; mono

theorem parseRule_le (po : POps) (f : Nat) (s : Text) : (parseRule po f s).le (parseRule po (f+1) s) := by
  have := parseSubgoal_le po f
  have := generateGoal_le po f
  have := parseComplex_le po f
  unfold parseRule; mono

/-- the outcome of a parse does not depend on the fuel -/
theorem parseRule_unique (po : POps) (s : Text) (f f' : Nat) (h : parseRule po f s ≠ .oof) (h' : parseRule po f' s ≠ .oof) :
    parseRule po f s = parseRule po f' s :=
  Res.unique (fun f => parseRule po f s) (fun f => parseRule_le po f s) f f' h h'

theorem parseTerm_unique (po : POps) (s : Text) (f f' : Nat) (h : parseTerm po f s ≠ .oof) (h' : parseTerm po f' s ≠ .oof) :
    parseTerm po f s = parseTerm po f' s :=
  Res.unique (fun f => parseTerm po f s) (fun f => parseTerm_le po f s) f f' h h'

theorem generateGoal_unique (po : POps) (s : Text) (f f' : Nat) (h : generateGoal po f s ≠ .oof) (h' : generateGoal po f' s ≠ .oof) :
    generateGoal po f s = generateGoal po f' s :=
  Res.unique (fun f => generateGoal po f s) (fun f => generateGoal_le po f s) f f' h h'

end Suiron.Parse
