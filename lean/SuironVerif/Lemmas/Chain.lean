/-
  Variable chains: `walk` (get_ground_term) terminates from every term, and this is
  preserved by the one binding step of `unify` (thanks to the alias test of repair D2).
-/
import SuironVerif.Lemmas.UnifyInv
namespace Suiron

/-- following bindings from any term ends (at an unbound variable or a non-variable term). -/
def ChainWF (σ : Subst) : Prop := ∀ t, ∃ f r, walk f σ t = .ok r

theorem walk_mono : ∀ (f : Nat) (σ : Subst) (t : Term) (r : Option Term),
    walk f σ t = .ok r → walk (f+1) σ t = .ok r
  | 0, _, _, _, h => by simp [walk] at h
  | f+1, σ, t, r, h => by
    cases t with
    | var j nm =>
      cases hg : σ.get j with
      | none => simp [walk, hg] at h ⊢; exact h
      | some e => simp [walk, hg] at h ⊢; exact walk_mono f σ e r h
    | _ => simp [walk] at h ⊢; exact h

theorem walk_mono_le (f g : Nat) (σ : Subst) (t : Term) (r : Option Term)
    (h : walk f σ t = .ok r) (hle : f ≤ g) : walk g σ t = .ok r := by
  induction hle with
  | refl => exact h
  | step _ ih => exact walk_mono _ _ _ _ ih

theorem aliased_mono : ∀ (f : Nat) (σ : Subst) (id : Nat) (t : Term) (r : Bool),
    aliased f σ id t = .ok r → aliased (f+1) σ id t = .ok r
  | 0, _, _, _, _, h => by simp [aliased] at h
  | f+1, σ, id, t, r, h => by
    cases t with
    | var j nm =>
      by_cases hj : j = id
      · simp [aliased, hj] at h ⊢; exact h
      · cases hg : σ.get j with
        | none => simp [aliased, hj, hg] at h ⊢; exact h
        | some e => simp [aliased, hj, hg] at h ⊢; exact aliased_mono f σ id e r h
    | _ => simp [aliased] at h ⊢; exact h

theorem aliased_mono_le (f g : Nat) (σ : Subst) (id : Nat) (t : Term) (r : Bool)
    (h : aliased f σ id t = .ok r) (hle : f ≤ g) : aliased g σ id t = .ok r := by
  induction hle with
  | refl => exact h
  | step _ ih => exact aliased_mono _ _ _ _ _ ih

/-- `aliased` terminates whenever `walk` does (same traversal). -/
theorem aliased_of_walk : ∀ (f : Nat) (σ : Subst) (id : Nat) (t : Term) (r : Option Term),
    walk f σ t = .ok r → ∃ al, aliased f σ id t = .ok al
  | 0, _, _, _, _, h => by simp [walk] at h
  | f+1, σ, id, t, r, h => by
    cases t with
    | var j nm =>
      by_cases hj : j = id
      · exact ⟨true, by simp [aliased, hj]⟩
      · cases hg : σ.get j with
        | none => exact ⟨false, by simp [aliased, hj, hg]⟩
        | some e =>
          simp [walk, hg] at h
          obtain ⟨al, hal⟩ := aliased_of_walk f σ id e r h
          exact ⟨al, by simp [aliased, hj, hg]; exact hal⟩
    | _ => exact ⟨false, by simp [aliased]⟩

/-- a walk that never meets `id` is the same after binding `id`. -/
theorem walk_bind_nohit : ∀ (f : Nat) (σ : Subst) (id : Nat) (b t : Term) (r : Option Term),
    walk f σ t = .ok r → aliased f σ id t = .ok false → walk f (σ.bind id b) t = .ok r
  | 0, _, _, _, _, _, h, _ => by simp [walk] at h
  | f+1, σ, id, b, t, r, h, hal => by
    cases t with
    | var j nm =>
      by_cases hj : j = id
      · simp [aliased, hj] at hal
      · cases hg : σ.get j with
        | none => simp [walk, hg, Subst.get_bind_other _ _ _ _ hj] at h ⊢; exact h
        | some e =>
          simp [walk, hg, Subst.get_bind_other _ _ _ _ hj] at h ⊢
          simp [aliased, hj, hg] at hal
          exact walk_bind_nohit f σ id b e r h hal
    | _ => simp [walk] at h ⊢; exact h

theorem chainWF_bind (σ : Subst) (id : Nat) (b : Term) (hσ : ChainWF σ)
    (hun : σ.get id = none) (hal : ∃ f, aliased f σ id b = .ok false) : ChainWF (σ.bind id b) := by
  obtain ⟨fa, hfa⟩ := hal
  -- the walk from `b` itself terminates in the new set
  have hb : ∃ f r, walk f (σ.bind id b) b = .ok r := by
    obtain ⟨f, r, hw⟩ := hσ b
    obtain ⟨al, hal2⟩ := aliased_of_walk f σ id b r hw
    have h1 := aliased_mono_le _ (max f fa) _ _ _ _ hal2 (Nat.le_max_left _ _)
    have h2 := aliased_mono_le _ (max f fa) _ _ _ _ hfa (Nat.le_max_right _ _)
    rw [h1] at h2; cases h2
    exact ⟨f, r, walk_bind_nohit f σ id b b r hw hal2⟩
  obtain ⟨fb, rb, hwb⟩ := hb
  -- any terminating walk in σ gives a terminating walk in the new set
  have key : ∀ (f : Nat) (t : Term) (r : Option Term), walk f σ t = .ok r → ∃ f' r', walk f' (σ.bind id b) t = .ok r' := by
    intro f
    induction f with
    | zero => intro t r h; simp [walk] at h
    | succ f ih =>
      intro t r h
      cases t with
      | var j nm =>
        by_cases hj : j = id
        · subst hj
          exact ⟨fb + 1, rb, by simp [walk, Subst.get_bind_self]; exact hwb⟩
        · cases hg : σ.get j with
          | none => exact ⟨1, none, by simp [walk, Subst.get_bind_other _ _ _ _ hj, hg]⟩
          | some e =>
            simp [walk, hg] at h
            obtain ⟨f', r', h'⟩ := ih e r h
            exact ⟨f' + 1, r', by simp [walk, Subst.get_bind_other _ _ _ _ hj, hg]; exact h'⟩
      | _ => exact ⟨1, _, by simp [walk]; rfl⟩
  intro t
  obtain ⟨f, r, hw⟩ := hσ t
  exact key f t r hw

theorem chainWF_nil : ChainWF [] := by
  intro t
  cases t <;> exact ⟨1, _, by simp [walk, Subst.get_nil]; rfl⟩

end Suiron
