/-
  The reference machine with cut (`Spec/CutMachine.lean`) is deterministic: every configuration has at most one
  successor, whatever fuel its unification and built-in premises are given; hence silent runs that end where
  nothing is left to do end in one place, and the sequence of observations from a configuration is unique.
  Also: a knowledge base whose stored rules have flat bodies hands out only flat clauses (`flatKB_of_rules`).
-/
import SuironVerif.Spec.CutMachine
import SuironVerif.Lemmas.FuelMono
import SuironVerif.Lemmas.EngineRefineCut
namespace Suiron.Spec
open Suiron

/-- nothing left to do: the stack is empty, or an answer is on top -/
def CFinal (c : CConf) : Prop := c.stack = [] ∨ ∃ σ S, c.stack = .goals [] σ :: S

theorem CStep.not_final {fo : FloatOps} {kb : KB} {a b : CConf} (h : CStep fo kb a b) : ¬ CFinal a := by
  intro hf
  cases h <;> rcases hf with hf | ⟨_, _, hf⟩ <;> cases hf

theorem CStep.det {fo : FloatOps} {kb : KB} {a b : CConf} (h : CStep fo kb a b) : ∀ {b'}, CStep fo kb a b' → b = b' := by
  cases h with
  | call hk => intro b' h'; cases h' with | call hk' => rw [hk] at hk'; cases hk'; rfl
  | @bipOk name args bb k σ σ' S c o f txt hn hr =>
    intro b' h'
    cases h' with
    | @bipOk _ _ _ _ _ σ'' _ _ _ f' txt' _ hr' =>
      have := runBip_unique fo name (optList args) σ f f' (by rw [hr]; simp) (by rw [hr']; simp)
      rw [hr, hr'] at this; cases this; rfl
    | @bipFail _ _ _ _ _ _ _ _ f' txt' _ hr' =>
      have := runBip_unique fo name (optList args) σ f f' (by rw [hr]; simp) (by rw [hr']; simp)
      rw [hr, hr'] at this; cases this
    | cut => exact absurd rfl hn
  | @bipFail name args bb k σ S c o f txt hn hr =>
    intro b' h'
    cases h' with
    | @bipOk _ _ _ _ _ σ'' _ _ _ f' txt' _ hr' =>
      have := runBip_unique fo name (optList args) σ f f' (by rw [hr]; simp) (by rw [hr']; simp)
      rw [hr, hr'] at this; cases this
    | @bipFail _ _ _ _ _ _ _ _ f' txt' _ hr' =>
      have := runBip_unique fo name (optList args) σ f f' (by rw [hr]; simp) (by rw [hr']; simp)
      rw [hr, hr'] at this; cases this; rfl
    | cut => exact absurd rfl hn
  | cut =>
    intro b' h'
    cases h' with
    | bipOk hn _ => exact absurd rfl hn
    | bipFail hn _ => exact absurd rfl hn
    | cut => rfl
  | @clauseOk t σ σ' idx n k S c o key rule c' f hk hg hu =>
    intro b' h'
    cases h' with
    | @clauseOk _ _ σ'' _ _ _ _ _ _ key' rule' c'' f' hk' hg' hu' =>
      rw [hk] at hk'; cases hk'
      rw [hg] at hg'; cases hg'
      have := unify_unique fo rule.head t σ f f' (by rw [hu]; simp) (by rw [hu']; simp)
      rw [hu, hu'] at this; cases this; rfl
    | @clauseFail _ _ _ _ _ _ _ _ key' rule' c'' f' hk' hg' hu' =>
      rw [hk] at hk'; cases hk'
      rw [hg] at hg'; cases hg'
      have := unify_unique fo rule.head t σ f f' (by rw [hu]; simp) (by rw [hu']; simp)
      rw [hu, hu'] at this; cases this
  | @clauseFail t σ idx n k S c o key rule c' f hk hg hu =>
    intro b' h'
    cases h' with
    | @clauseOk _ _ σ'' _ _ _ _ _ _ key' rule' c'' f' hk' hg' hu' =>
      rw [hk] at hk'; cases hk'
      rw [hg] at hg'; cases hg'
      have := unify_unique fo rule.head t σ f f' (by rw [hu]; simp) (by rw [hu']; simp)
      rw [hu, hu'] at this; cases this
    | @clauseFail _ _ _ _ _ _ _ _ key' rule' c'' f' hk' hg' hu' => rfl
  | endBody => intro b' h'; cases h'; rfl
  | commitBody => intro b' h'; cases h'; rfl

/-- two silent runs from one configuration that both end where nothing is left to do end in the same place -/
theorem CSteps.det {fo : FloatOps} {kb : KB} {a b : CConf} (h : CSteps fo kb a b) :
    ∀ {b'}, CSteps fo kb a b' → CFinal b → CFinal b' → b = b' := by
  induction h with
  | refl =>
    intro b' h' hf _
    cases h' with
    | refl => rfl
    | step hs _ => exact absurd hf hs.not_final
  | step hs _ ih =>
    intro b' h' hf hf'
    cases h' with
    | refl => exact absurd hf' hs.not_final
    | step hs' ht' => have := hs.det hs'; subst this; exact ih ht' hf hf'

/-- the run of the machine with cut is unique: any two observation sequences agree position by position -/
theorem CRun.det {fo : FloatOps} {kb : KB} {c : CConf} {tr : List (Option Subst × List String)} (h : CRun fo kb c tr) :
    ∀ {tr' : List (Option Subst × List String)}, CRun fo kb c tr' → ∀ (i : Nat) x y, tr[i]? = some x → tr'[i]? = some y → x = y := by
  induction h with
  | nil => intro tr' _ i x y hx; simp at hx
  | @ans c σ S ctr out rest h1 _ ih =>
    intro tr' h' i x y hx hy
    cases h' with
    | nil => simp at hy
    | @ans _ σ' S' ctr' out' rest' h1' t' =>
      have := h1.det h1' (Or.inr ⟨_, _, rfl⟩) (Or.inr ⟨_, _, rfl⟩)
      cases this
      cases i with
      | zero => simp at hx hy; rw [← hx, ← hy]
      | succ i => simp at hx hy; exact ih t' i x y hx hy
    | @fin _ ctr' out' rest' h1' t' =>
      have := h1.det h1' (Or.inr ⟨_, _, rfl⟩) (Or.inl rfl)
      cases this
  | @fin c ctr out rest h1 _ ih =>
    intro tr' h' i x y hx hy
    cases h' with
    | nil => simp at hy
    | @ans _ σ' S' ctr' out' rest' h1' t' =>
      have := h1.det h1' (Or.inl rfl) (Or.inr ⟨_, _, rfl⟩)
      cases this
    | @fin _ ctr' out' rest' h1' t' =>
      have := h1.det h1' (Or.inl rfl) (Or.inl rfl)
      cases this
      cases i with
      | zero => simp at hx hy; rw [← hx, ← hy]
      | succ i => simp at hx hy; exact ih t' i x y hx hy

/-! ### flat knowledge bases -/

/-- decidable form of `flatBody` -/
def flatBodyB : Goal → Bool
  | .nil => true
  | .call _ => true
  | .bip _ _ => true
  | .and gs => gs.length != 0 && flatGL gs
  | _ => false

mutual
theorem renameGoal_flat : (g : Goal) → (st : RenSt) → (r : Goal × RenSt) → renameGoal g st = .ok r → flatG g = true → flatG r.1 = true
  | .call (.cplx args), st, r, h, _ => by simp only [renameGoal] at h; cases h; rfl
  | .call .nil, _, r, h, _ => by simp [renameGoal] at h
  | .call .anon, _, r, h, _ => by simp [renameGoal] at h
  | .call (.atom _), _, r, h, _ => by simp [renameGoal] at h
  | .call (.flt _), _, r, h, _ => by simp [renameGoal] at h
  | .call (.int _), _, r, h, _ => by simp [renameGoal] at h
  | .call (.var _ _), _, r, h, _ => by simp [renameGoal] at h
  | .call (.cons _ _ _ _), _, r, h, _ => by simp [renameGoal] at h
  | .call (.func _ _), _, r, h, _ => by simp [renameGoal] at h
  | .bip name (some args), st, r, h, _ => by simp only [renameGoal] at h; cases h; rfl
  | .bip name none, st, r, h, _ => by simp only [renameGoal] at h; cases h; rfl
  | .and _, _, _, _, hp => by simp [flatG] at hp
  | .or _, _, _, _, hp => by simp [flatG] at hp
  | .time _, _, _, _, hp => by simp [flatG] at hp
  | .not _, _, _, _, hp => by simp [flatG] at hp
  | .nil, _, _, _, hp => by simp [flatG] at hp
theorem renameGoals_flat : (gs : GoalList) → (st : RenSt) → (r : GoalList × RenSt) → renameGoals gs st = .ok r →
    flatGL gs = true → flatGL r.1 = true ∧ r.1.length = gs.length
  | .nil, st, r, h, _ => by simp only [renameGoals] at h; cases h; exact ⟨rfl, rfl⟩
  | .cons g gs, st, r, h, hp => by
    simp only [renameGoals] at h
    obtain ⟨x1, hx1, h⟩ := Res.bind_eq_ok.mp h
    obtain ⟨x2, hx2, h⟩ := Res.bind_eq_ok.mp h
    cases h
    simp only [flatGL, Bool.and_eq_true] at hp ⊢
    have a := renameGoal_flat g st x1 hx1 hp.1
    have b := renameGoals_flat gs x1.2 x2 hx2 hp.2
    exact ⟨⟨a, b.1⟩, by simp [GoalList.length, b.2]⟩
end

theorem renameRule_flat (r : Rule) (st : RenSt) (x : Rule × RenSt) (h : renameRule r st = .ok x)
    (hp : flatBodyB r.body = true) : flatBody x.1.body := by
  unfold renameRule at h
  simp only at h
  split at h
  · cases h; left; rfl
  · cases h; right; left; rfl
  · cases h; right; left; rfl
  · cases h; right; left; rfl
  · rename_i gs hb
    obtain ⟨b, hbb, h⟩ := Res.bind_eq_ok.mp h
    cases h; right; right
    rw [hb] at hp
    simp only [flatBodyB, Bool.and_eq_true, bne_iff_ne, ne_eq] at hp
    have := renameGoals_flat gs _ b hbb hp.2
    exact ⟨_, rfl, by rw [this.2]; exact hp.1, this.1⟩
  · rename_i gs hb; rw [hb] at hp; simp [flatBodyB] at hp
  · rename_i gs hb; rw [hb] at hp; simp [flatBodyB] at hp
  · rename_i gs hb; rw [hb] at hp; simp [flatBodyB] at hp

/-- a knowledge base whose stored rules have flat bodies hands out only flat clauses -/
theorem flatKB_of_rules (kb : KB)
    (h : ∀ key rs, kb.get key = some rs → ∀ r ∈ rs, flatBodyB r.body = true) : FlatKB kb := by
  intro key idx c rule c' hg
  unfold getRule at hg
  split at hg
  · cases hg
  · rename_i rs hrs
    split at hg
    · cases hg
    · rename_i r hr
      obtain ⟨x, hx, hg⟩ := Res.bind_eq_ok.mp hg
      cases hg
      exact renameRule_flat r _ x hx (h key rs hrs r (List.mem_of_getElem? hr))

/-- the same as a computation over the stored table -/
def flatKBB (kb : KB) : Bool := kb.all fun e => e.2.all fun r => flatBodyB r.body

theorem flatKB_of_check (kb : KB) (h : flatKBB kb = true) : FlatKB kb := by
  apply flatKB_of_rules
  intro key rs hget r hr
  induction kb with
  | nil => simp [KB.get] at hget
  | cons e rest ih =>
    obtain ⟨k, rs'⟩ := e
    simp only [flatKBB, List.all_cons, Bool.and_eq_true] at h
    simp only [KB.get] at hget
    split at hget
    · cases hget
      exact List.all_eq_true.mp h.1 r hr
    · exact ih h.2 hget

end Suiron.Spec
