/-
  Well-formed lists and the builders `mkProper` (append / include / exclude / parser)
  and `mkList` (`make_linked_list`, the documented constructor).
-/
import SuironVerif.Model.Goal
namespace Suiron

/-- the elements of a list term, up to its end node or tail-variable node. -/
def elemsOf : Term → List Term
  | .cons t n _ tv => if t.isNil then [] else if tv then [] else t :: elemsOf n
  | _ => []

/-- the tail variable of a list term, if it has one. -/
def tailOf : Term → Option Term
  | .cons t n _ tv => if t.isNil then none else if tv then some t else tailOf n
  | _ => none

/-- well-formed list: `count` cells, ends in the empty node `cons Nil Nil 0 false`,
    a tail variable (if any) is the last cell, no element is `Nil`. -/
inductive WFList : Term → Nat → Prop where
  | empty : WFList Term.empty 0
  | tail (v : Term) : v.isNil = false → WFList (.cons v Term.empty 1 true) 1
  | cell (e rest : Term) (n : Nat) : e.isNil = false → WFList rest n → WFList (.cons e rest (n+1) false) (n+1)

def NoNil (es : List Term) : Prop := ∀ e ∈ es, e.isNil = false

theorem mkProper_elems : ∀ es : List Term, NoNil es → elemsOf (mkProper es) = es
  | [], _ => by simp [mkProper, elemsOf, Term.empty, Term.isNil]
  | e :: es, h => by
    have he : e.isNil = false := h e (by simp)
    have hes : NoNil es := fun x hx => h x (by simp [hx])
    simp [mkProper, elemsOf, he, mkProper_elems es hes]

theorem mkProper_tail : ∀ es : List Term, NoNil es → tailOf (mkProper es) = none
  | [], _ => by simp [mkProper, tailOf, Term.empty, Term.isNil]
  | e :: es, h => by
    have he : e.isNil = false := h e (by simp)
    have hes : NoNil es := fun x hx => h x (by simp [hx])
    simp [mkProper, tailOf, he, mkProper_tail es hes]

theorem mkProper_wf : ∀ es : List Term, NoNil es → WFList (mkProper es) es.length
  | [], _ => WFList.empty
  | e :: es, h => by
    have he : e.isNil = false := h e (by simp)
    have hes : NoNil es := fun x hx => h x (by simp [hx])
    simpa [mkProper] using WFList.cell e (mkProper es) es.length he (mkProper_wf es hes)

/-- the `count` field of a well-formed list is its number of cells. -/
theorem wf_count (t : Term) (n : Nat) (h : WFList t n) : ∃ a b tv, t = .cons a b n tv := by
  cases h with
  | empty => exact ⟨_, _, _, rfl⟩
  | tail v _ => exact ⟨_, _, _, rfl⟩
  | cell e rest n _ _ => exact ⟨_, _, _, rfl⟩

theorem foldr_flag (mid : List Term) (init : Acc) (h : init.2.2 = false) : (mid.foldr accStep init).2.2 = false := by
  cases mid with
  | nil => simpa using h
  | cons x xs => simp [List.foldr, accStep]

theorem foldr_count : ∀ (mid : List Term) (init : Acc), (mid.foldr accStep init).2.1 = init.2.1 + mid.length
  | [], init => by simp
  | x :: xs, init => by simp [List.foldr, accStep, foldr_count xs init]; omega

/-- wrapping elements around an accumulator whose next flag is clear adds exactly those elements. -/
theorem foldr_elems : ∀ (mid : List Term) (init : Acc), NoNil mid → init.2.2 = false →
    elemsOf ((mid.foldr accStep init).1) = mid ++ elemsOf init.1
  | [], init, _, _ => by simp
  | x :: xs, init, h, hf => by
    have hx : x.isNil = false := h x (by simp)
    have hxs : NoNil xs := fun z hz => h z (by simp [hz])
    simp only [List.foldr, accStep, elemsOf, hx]
    simp [foldr_flag xs init hf, foldr_elems xs init hxs hf]

theorem foldr_tail : ∀ (mid : List Term) (init : Acc), NoNil mid → init.2.2 = false →
    tailOf ((mid.foldr accStep init).1) = tailOf init.1
  | [], init, _, _ => by simp
  | x :: xs, init, h, hf => by
    have hx : x.isNil = false := h x (by simp)
    have hxs : NoNil xs := fun z hz => h z (by simp [hz])
    simp only [List.foldr, accStep, tailOf, hx]
    simp [foldr_flag xs init hf, foldr_tail xs init hxs hf]

/-- `mkList` on at least two terms, in terms of the last one. -/
theorem mkList_unfold (vbar : Bool) (t0 : Term) (mid : List Term) (x : Term) :
    mkList vbar (t0 :: (mid ++ [x])) =
      Term.cons t0 (mid.foldr accStep (mkInit vbar x)).1 (mid.foldr accStep (mkInit vbar x)).2.1
        (mid.foldr accStep (mkInit vbar x)).2.2 := by
  cases mid with
  | nil => simp [mkList]
  | cons m ms =>
    have h2 : (m :: (ms ++ [x])).dropLast = m :: ms := by
      have := List.dropLast_concat (l₁ := m :: ms) (b := x)
      simpa using this
    have h1 : (m :: (ms ++ [x])).getLast? = some x := by
      have : (m :: (ms ++ [x])) = (m :: ms) ++ [x] := by simp
      rw [this, List.getLast?_append]; simp
    simp only [List.cons_append, mkList, h2, h1]

end Suiron
