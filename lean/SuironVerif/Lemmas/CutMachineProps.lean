/-
  What the reference machine with cut (`Spec/CutMachine.lean`) does when a cut runs, as theorems about the
  machine alone (the engine model refines the machine: `Lemmas/EngineRefineCut.lean`):

    * barriers are well-formed in every reachable configuration (`CStep.wf`): the barriers of a continuation
      decrease outwards and none is above the height its frame stands at, so a cut always finds its barrier
      inside the stack;
    * while the machine works above a height, the frames below it are not touched (`CStepsAbove.keeps_bottom`);
    * hence (`call_then_cut`, `call_then_commit`): when a clause was chosen for a call on top of a stack `S0`
      and, with the machine never having dropped back to `S0`, a cut of that clause's body runs, the stack is
      again exactly `S0` under the frame that continues the body: the later clauses of the call and every
      alternative of the goals to the left of the cut are gone, and `S0` — the caller and everything older —
      is what it was.  The same once more at the end of a body in which a cut ran.
-/
import SuironVerif.Spec.CutMachine
namespace Suiron.Spec
open Suiron

def barOf : CG → Nat
  | .g _ b => b
  | .endB b _ => b

/-- the barriers of a continuation decrease outwards, and the first is at most `h` -/
def kOK : List CG → Nat → Prop
  | [], _ => True
  | x :: k, h => barOf x ≤ h ∧ kOK k (barOf x)

def frameK : CFrame → List CG
  | .goals k _ => k
  | .try _ _ _ _ k => k

/-- every frame's continuation is well-formed for the height the frame stands at -/
def CWF : List CFrame → Prop
  | [] => True
  | fr :: S => kOK (frameK fr) S.length ∧ CWF S

theorem kOK.mono : ∀ {k : List CG} {h h' : Nat}, kOK k h → h ≤ h' → kOK k h'
  | [], _, _, _, _ => trivial
  | _ :: _, _, _, hk, hle => ⟨Nat.le_trans hk.1 hle, hk.2⟩

theorem kOK.tail {x : CG} {k : List CG} {h : Nat} (hk : kOK (x :: k) h) : kOK k h := hk.2.mono hk.1

theorem kOK_markCut : ∀ (k : List CG) (h : Nat), kOK k h → kOK (markCut k) h
  | [], _, _ => trivial
  | .endB b c :: k, h, hk => hk
  | .g g b :: k, h, hk => ⟨hk.1, kOK_markCut k b hk.2⟩

theorem kOK_app_const (h : Nat) : ∀ (l k : List CG) (H : Nat), (∀ x ∈ l, barOf x = h) → kOK k h → h ≤ H → kOK (l ++ k) H
  | [], k, H, _, hk, hle => hk.mono hle
  | x :: l, k, H, hl, hk, hle => by
    have hx : barOf x = h := hl x (by simp)
    refine ⟨by rw [hx]; exact hle, ?_⟩
    rw [hx]
    exact kOK_app_const h l k h (fun y hy => hl y (by simp [hy])) hk (Nat.le_refl _)

theorem bodyGoals_bar (body : Goal) (h : Nat) : ∀ x ∈ bodyGoals body h, barOf x = h := by
  intro x hx
  unfold bodyGoals at hx
  split at hx
  · simp at hx
  · rw [List.mem_append] at hx
    rcases hx with hx | hx
    · split at hx
      · rw [List.mem_map] at hx; obtain ⟨_, _, e⟩ := hx; rw [← e]; rfl
      · simp at hx; rw [hx]; rfl
    · simp at hx; rw [hx]; rfl

theorem CWF.drop : ∀ (S : List CFrame) (n : Nat), CWF S → CWF (S.drop n)
  | S, 0, h => by simpa using h
  | [], _ + 1, _ => by simp [CWF]
  | _ :: S, n + 1, h => by simpa using CWF.drop S n h.2

theorem CWF.truncate {S : List CFrame} (h : Nat) (hS : CWF S) : CWF (truncate S h) := CWF.drop S _ hS

theorem CWF.cTry {t : Term} {σ : Subst} {idx n : Nat} {k : List CG} {S : List CFrame} (hk : kOK k S.length) (hS : CWF S) :
    CWF (cTry t σ idx n k ++ S) := by
  unfold Spec.cTry
  split
  · exact ⟨hk, hS⟩
  · exact hS

theorem cTry_length_ge (t : Term) (σ : Subst) (idx n : Nat) (k : List CG) (S : List CFrame) :
    S.length ≤ (cTry t σ idx n k ++ S).length := by
  rw [List.length_append]; omega

/-- barriers stay well-formed -/
theorem CStep.wf {fo : FloatOps} {kb : KB} {a b : CConf} (h : CStep fo kb a b) (hw : CWF a.stack) : CWF b.stack := by
  cases h with
  | call _ => exact CWF.cTry (kOK.tail hw.1) hw.2
  | bipOk _ _ => exact ⟨kOK.tail hw.1, hw.2⟩
  | bipFail _ _ => exact hw.2
  | @cut args b k σ S c o =>
    have hb : b ≤ S.length := hw.1.1
    refine ⟨?_, hw.2.truncate b⟩
    rw [truncate_length S b hb]
    exact kOK_markCut k b hw.1.2
  | @clauseOk t σ σ' idx n k S c o key rule c' f _ _ _ =>
    refine ⟨?_, CWF.cTry hw.1 hw.2⟩
    exact kOK_app_const S.length _ k _ (bodyGoals_bar _ _) hw.1 (cTry_length_ge _ _ _ _ _ _)
  | clauseFail _ _ _ => exact CWF.cTry hw.1 hw.2
  | endBody => exact ⟨kOK.tail hw.1, hw.2⟩
  | @commitBody h k σ S c o =>
    have hb : h ≤ S.length := hw.1.1
    refine ⟨?_, hw.2.truncate h⟩
    rw [truncate_length S h hb]
    exact hw.1.2

theorem CSteps.wf {fo : FloatOps} {kb : KB} {a b : CConf} (h : CSteps fo kb a b) (hw : CWF a.stack) : CWF b.stack := by
  induction h with
  | refl => exact hw
  | step hs _ ih => exact ih (hs.wf hw)

/-- the machine's start on a query is well-formed -/
theorem CWF.init (q : Goal) (σ : Subst) : CWF [.goals [.g q 0] σ] := ⟨⟨Nat.le_refl _, trivial⟩, trivial⟩

/-- so a cut always finds its barrier inside the stack: exactly the bottom `b` frames survive it -/
theorem cut_keeps_exactly_bottom {args : Option TermList} {b : Nat} {k : List CG} {σ : Subst} {S : List CFrame}
    (hw : CWF (.goals (.g (.bip "!" args) b :: k) σ :: S)) :
    ∃ X, S = X ++ truncate S b ∧ (truncate S b).length = b :=
  ⟨S.take (S.length - b), by simp [truncate], truncate_length S b hw.1.1⟩

/-! ### the frames below the machine's working height are not touched -/

/-- silent steps during which the stack stays higher than `n` frames -/
inductive CStepsAbove (fo : FloatOps) (kb : KB) (n : Nat) : CConf → CConf → Prop where
  | refl {c} : CStepsAbove fo kb n c c
  | step {a b c} : CStep fo kb a b → n < b.stack.length → CStepsAbove fo kb n b c → CStepsAbove fo kb n a c

theorem CStepsAbove.toSteps {fo : FloatOps} {kb : KB} {n : Nat} {a b : CConf} (h : CStepsAbove fo kb n a b) : CSteps fo kb a b := by
  induction h with
  | refl => exact .refl
  | step hs _ _ ih => exact .step hs ih

/-- a suffix of `X ++ S0` longer than `S0` ends in `S0` -/
theorem drop_keeps_bottom (X S0 : List CFrame) (d : Nat) (h : S0.length < ((X ++ S0).drop d).length) :
    ∃ X', (X ++ S0).drop d = X' ++ S0 := by
  rw [List.length_drop, List.length_append] at h
  refine ⟨X.drop d, ?_⟩
  rw [List.drop_append]
  have : d - X.length = 0 := by omega
  rw [this]; rfl

theorem truncate_keeps_bottom (X S0 : List CFrame) (b : Nat) (h : S0.length ≤ (truncate (X ++ S0) b).length) :
    ∃ X', truncate (X ++ S0) b = X' ++ S0 := by
  unfold truncate at *
  rw [List.length_drop, List.length_append] at h
  refine ⟨X.drop (X.length + S0.length - b), ?_⟩
  rw [List.length_append, List.drop_append]
  have : X.length + S0.length - b - X.length = 0 := by omega
  rw [this]; rfl

theorem cTry_app (t : Term) (σ : Subst) (idx n : Nat) (k : List CG) (X S0 : List CFrame) :
    cTry t σ idx n k ++ (X ++ S0) = (cTry t σ idx n k ++ X) ++ S0 := by simp

/-- one step of a stack `fr :: X ++ S0` that leaves more than `S0.length` frames leaves `S0` at the bottom -/
theorem CStep.keeps_bottom {fo : FloatOps} {kb : KB} {fr : CFrame} {X S0 : List CFrame} {c : Nat} {o : List String} {b : CConf}
    (h : CStep fo kb ⟨fr :: (X ++ S0), c, o⟩ b) (hl : S0.length < b.stack.length) : ∃ fr' X', b.stack = fr' :: (X' ++ S0) := by
  generalize ha : (⟨fr :: (X ++ S0), c, o⟩ : CConf) = a at h
  cases h with
  | @call t bb k σ S _ _ key hk =>
    cases ha
    simp only at hl ⊢
    unfold cTry at hl ⊢
    split
    · exact ⟨_, X, rfl⟩
    · rename_i hn
      simp only [hn, if_false, List.nil_append] at hl ⊢
      cases X with
      | nil => simp at hl
      | cons x X => exact ⟨x, X, rfl⟩
  | bipOk _ _ => cases ha; exact ⟨_, X, rfl⟩
  | bipFail _ _ =>
    cases ha
    simp only at hl ⊢
    cases X with
    | nil => simp at hl
    | cons x X => exact ⟨x, X, rfl⟩
  | @cut args bb k σ S _ _ =>
    cases ha
    simp only at hl ⊢
    simp only [List.length_cons] at hl
    obtain ⟨X', e⟩ := truncate_keeps_bottom X S0 bb (by omega)
    exact ⟨_, X', by rw [e]⟩
  | @clauseOk t σ σ' idx n k S _ _ key rule c' f _ _ _ =>
    cases ha
    exact ⟨_, cTry t σ (idx + 1) n k ++ X, by rw [List.append_assoc]⟩
  | @clauseFail t σ idx n k S _ _ key rule c' f _ _ _ =>
    cases ha
    simp only at hl ⊢
    unfold cTry at hl ⊢
    split
    · exact ⟨_, X, rfl⟩
    · rename_i hn
      simp only [hn, if_false, List.nil_append] at hl ⊢
      cases X with
      | nil => simp at hl
      | cons x X => exact ⟨x, X, rfl⟩
  | endBody => cases ha; exact ⟨_, X, rfl⟩
  | @commitBody hh k σ S _ _ =>
    cases ha
    simp only at hl ⊢
    simp only [List.length_cons] at hl
    obtain ⟨X', e⟩ := truncate_keeps_bottom X S0 hh (by omega)
    exact ⟨_, X', by rw [e]⟩

/-- while the machine works above `S0`, `S0` is at the bottom of its stack, verbatim -/
theorem CStepsAbove.keeps_bottom {fo : FloatOps} {kb : KB} {S0 : List CFrame} {a b : CConf}
    (h : CStepsAbove fo kb S0.length a b) : (∃ fr X, a.stack = fr :: (X ++ S0)) → ∃ fr X, b.stack = fr :: (X ++ S0) := by
  induction h with
  | refl => exact id
  | @step a b c hs hl _ ih =>
    rintro ⟨fr, X, ha⟩
    obtain ⟨stk, ctr, out⟩ := a
    simp only at ha; subst ha
    exact ih (hs.keeps_bottom hl)

/-- THE CUT, on the machine: a clause of a call is chosen on top of `S0` (so its body's barrier is `S0.length`);
    the machine works on, never dropping back to `S0`; a cut of that body comes to run.  Its step leaves exactly
    `S0` under the frame that goes on with the body: the `try` frame with the later clauses of the call and every
    alternative left by the goals to the left of the cut are gone, `S0` is unchanged. -/
theorem call_then_cut {fo : FloatOps} {kb : KB} {t : Term} {σ : Subst} {idx n : Nat} {k : List CG} {S0 : List CFrame}
    {c : Nat} {o : List String} {mid : CConf} {args : Option TermList} {k' : List CG} {σ' : Subst} {S : List CFrame} {c' : Nat} {o' : List String}
    (h1 : CStep fo kb ⟨.try t σ idx n k :: S0, c, o⟩ mid) (hmid : S0.length < mid.stack.length)
    (h2 : CStepsAbove fo kb S0.length mid ⟨.goals (.g (.bip "!" args) S0.length :: k') σ' :: S, c', o'⟩) :
    CStep fo kb ⟨.goals (.g (.bip "!" args) S0.length :: k') σ' :: S, c', o'⟩ ⟨.goals (markCut k') σ' :: S0, c', o'⟩ := by
  have hb := h2.keeps_bottom ((CStep.keeps_bottom (X := []) h1 hmid))
  obtain ⟨fr, X, e⟩ := hb
  simp only at e
  cases e
  have := @CStep.cut fo kb args S0.length k' σ' (X ++ S0) c' o'
  rwa [truncate_append_of_le X S0 S0.length (Nat.le_refl _), truncate_self] at this

/-- the same at the end of a body in which a cut ran: the call yields nothing beyond the answer being derived -/
theorem call_then_commit {fo : FloatOps} {kb : KB} {t : Term} {σ : Subst} {idx n : Nat} {k : List CG} {S0 : List CFrame}
    {c : Nat} {o : List String} {mid : CConf} {k' : List CG} {σ' : Subst} {S : List CFrame} {c' : Nat} {o' : List String}
    (h1 : CStep fo kb ⟨.try t σ idx n k :: S0, c, o⟩ mid) (hmid : S0.length < mid.stack.length)
    (h2 : CStepsAbove fo kb S0.length mid ⟨.goals (.endB S0.length true :: k') σ' :: S, c', o'⟩) :
    CStep fo kb ⟨.goals (.endB S0.length true :: k') σ' :: S, c', o'⟩ ⟨.goals k' σ' :: S0, c', o'⟩ := by
  have hb := h2.keeps_bottom ((CStep.keeps_bottom (X := []) h1 hmid))
  obtain ⟨fr, X, e⟩ := hb
  simp only at e
  cases e
  have := @CStep.commitBody fo kb S0.length k' σ' (X ++ S0) c' o'
  rwa [truncate_append_of_le X S0 S0.length (Nat.le_refl _), truncate_self] at this

end Suiron.Spec
