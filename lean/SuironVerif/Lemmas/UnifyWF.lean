/-
  The invariant principle of `UnifyInv.lean` for well-formed operands
  (every complex term has an atom as functor, as `make_complex` and the parser
  guarantee).  Under that hypothesis the SComplex loop always unifies the two
  functors first, so its accumulator `ss2` never stays the empty set and no
  `P []` premise is needed: the principle then also yields "every earlier
  binding is kept".
-/
import SuironVerif.Lemmas.UnifyInv
namespace Suiron

mutual
/-- every complex (sub)term has an atom as its functor. -/
def Term.FOK : Term → Bool
  | .cplx (.cons (.atom _) args) => TermList.FOK args
  | .cplx _ => false
  | .cons t n _ _ => Term.FOK t && Term.FOK n
  | .func _ args => TermList.FOK args
  | _ => true
def TermList.FOK : TermList → Bool
  | .nil => true
  | .cons a as => Term.FOK a && TermList.FOK as
end

def Subst.FOK (σ : Subst) : Prop := ∀ i t, σ.get i = some t → t.FOK = true

theorem Subst.FOK_nil : Subst.FOK [] := by intro i t h; simp [Subst.get_nil] at h

theorem Subst.FOK_bind {σ : Subst} {i : Nat} {t : Term} (h : Subst.FOK σ) (ht : t.FOK = true) :
    Subst.FOK (σ.bind i t) := by
  intro j u hj
  by_cases hji : j = i
  · subst hji; rw [Subst.get_bind_self] at hj; cases hj; exact ht
  · rw [Subst.get_bind_other _ _ _ _ hji] at hj; exact h j u hj

theorem evalNums_const (fo : FloatOps) (op : ArithOp) (ns : List Num) (v : Term)
    (h : evalNums fo op ns = .ok v) : (∃ i, v = .int i) ∨ (∃ b, v = .flt b) := by
  unfold evalNums at h
  split at h
  · split at h
    · cases h; exact Or.inr ⟨_, rfl⟩
    · cases h; exact Or.inr ⟨_, rfl⟩
    · split at h
      · cases h
      · cases h; exact Or.inr ⟨_, rfl⟩
    · split at h
      · cases h
      · cases h; exact Or.inr ⟨_, rfl⟩
  · split at h
    · obtain ⟨x, _, h⟩ := Res.bind_eq_ok.mp h; cases h; exact Or.inl ⟨_, rfl⟩
    · obtain ⟨x, _, h⟩ := Res.bind_eq_ok.mp h; cases h; exact Or.inl ⟨_, rfl⟩
    · split at h
      · cases h
      · obtain ⟨x, _, h⟩ := Res.bind_eq_ok.mp h; cases h; exact Or.inl ⟨_, rfl⟩
    · split at h
      · cases h
      · obtain ⟨x, _, h⟩ := Res.bind_eq_ok.mp h; cases h; exact Or.inl ⟨_, rfl⟩

/-- the value of a built-in function is a constant (atom or number). -/
theorem evalFunc_const (fo : FloatOps) (f : Nat) (name : String) (args : List Term) (σ : Subst) (v : Term)
    (h : evalFunc fo f name args σ = .ok v) : (∃ s, v = .atom s) ∨ (∃ i, v = .int i) ∨ (∃ b, v = .flt b) := by
  unfold evalFunc at h
  split at h
  · unfold evalJoin at h
    obtain ⟨ts, _, h⟩ := Res.bind_eq_ok.mp h
    obtain ⟨gs, _, h⟩ := Res.bind_eq_ok.mp h
    cases h; exact Or.inl ⟨_, rfl⟩
  · split at h
    · unfold evalArith at h
      obtain ⟨ns, _, h⟩ := Res.bind_eq_ok.mp h
      exact Or.inr (evalNums_const fo _ ns v h)
    · cases h

theorem evalFunc_FOK (fo : FloatOps) (f : Nat) (name : String) (args : List Term) (σ : Subst) (v : Term)
    (h : evalFunc fo f name args σ = .ok v) : v.FOK = true := by
  rcases evalFunc_const fo f name args σ v h with ⟨s, rfl⟩ | ⟨i, rfl⟩ | ⟨b, rfl⟩ <;> simp [Term.FOK]

theorem unify_inv_wf (fo : FloatOps) (P : Subst → Prop)
    (hbind : ∀ σ id b, P σ → BindOK σ id b → P (σ.bind id b)) :
    ∀ f,
      (∀ a b σ σ', a.FOK = true → b.FOK = true → Subst.FOK σ → unify fo f a b σ = .ok σ' → P σ → P σ' ∧ Subst.FOK σ') ∧
      (∀ as bs cur σ', as.FOK = true → bs.FOK = true → Subst.FOK cur → unifyArgs fo f as bs cur cur = .ok σ' → P cur → P σ' ∧ Subst.FOK σ') ∧
      (∀ x y cur σ', x.FOK = true → y.FOK = true → Subst.FOK cur → unifyList fo f x y cur = .ok σ' → P cur → P σ' ∧ Subst.FOK σ') := by
  intro f
  induction f using Nat.strongRecOn with
  | ind f ih =>
  cases f with
  | zero =>
    refine ⟨?_, ?_, ?_⟩
    · intro a b σ σ' _ _ _ h; simp [unify] at h
    · intro as bs cur σ' _ _ _ h; simp [unifyArgs] at h
    · intro x y cur σ' _ _ _ h; simp [unifyList] at h
  | succ f =>
    obtain ⟨ihU, ihA, ihL⟩ := ih f (Nat.lt_succ_self f)
    refine ⟨?_, ?_, ?_⟩
    · intro a b σ σ' ha hb hσ h hP
      unfold unify at h
      split at h
      · cases h; exact ⟨hP, hσ⟩
      split at h
      · cases h; exact ⟨hP, hσ⟩
      split at h
      · cases h; exact ⟨hP, hσ⟩
      · split at h
        · split at h <;> first | (cases h; exact ⟨hP, hσ⟩) | (cases h)
        · exact ihU _ _ _ _ hb ha hσ h hP
        · exact ihU _ _ _ _ hb ha hσ h hP
        · cases h
      · split at h
        · split at h <;> first | (cases h; exact ⟨hP, hσ⟩) | (cases h)
        · exact ihU _ _ _ _ hb ha hσ h hP
        · exact ihU _ _ _ _ hb ha hσ h hP
        · cases h
      · split at h
        · split at h <;> first | (cases h; exact ⟨hP, hσ⟩) | (cases h)
        · exact ihU _ _ _ _ hb ha hσ h hP
        · exact ihU _ _ _ _ hb ha hσ h hP
        · cases h
      · -- var
        split at h
        · cases h
        split at h
        · exact ihU _ _ _ _ hb ha hσ h hP
        split at h
        · rename_i t hget
          exact ihU _ _ _ _ (hσ _ _ hget) hb hσ h hP
        · rename_i hanon _ _ _ hbeq hid hfun _ hget
          obtain ⟨al, hal, h⟩ := Res.bind_eq_ok.mp h
          cases al with
          | true => simp at h; cases h; exact ⟨hP, hσ⟩
          | false =>
            simp at h; cases h
            refine ⟨hbind _ _ _ hP ⟨hget, ?_, ?_, hid, ⟨f, hal⟩⟩, Subst.FOK_bind hσ hb⟩
            · simpa using hanon
            · simpa using hfun
      · -- cplx
        split at h
        · split at h
          · cases h
          · rename_i _ as _ bs _ _ _
            -- both functors are atoms: the first step of the loop unifies them
            cases as with
            | nil => simp [Term.FOK] at ha
            | cons a0 as =>
              cases bs with
              | nil => simp [Term.FOK] at hb
              | cons b0 bs =>
                cases a0 <;> simp [Term.FOK] at ha
                cases b0 <;> simp [Term.FOK] at hb
                cases f with
                | zero => simp [unifyArgs] at h
                | succ f' =>
                  simp only [unifyArgs, Term.isAnon] at h
                  simp at h
                  obtain ⟨s, hu, h⟩ := Res.bind_eq_ok.mp h
                  obtain ⟨ihU', ihA', _⟩ := ih f' (by omega)
                  have hs := ihU' _ _ _ _ (by simp [Term.FOK]) (by simp [Term.FOK]) hσ hu hP
                  exact ihA' _ _ _ _ ha hb hs.2 h hs.1
        · exact ihU _ _ _ _ hb ha hσ h hP
        · exact ihU _ _ _ _ hb ha hσ h hP
        · cases h
      · -- cons
        split at h
        · exact ihL _ _ _ _ ha hb hσ h hP
        · exact ihU _ _ _ _ hb ha hσ h hP
        · exact ihU _ _ _ _ hb ha hσ h hP
        · cases h
      · -- func
        obtain ⟨v, hev, h⟩ := Res.bind_eq_ok.mp h
        exact ihU _ _ _ _ (evalFunc_FOK fo _ _ _ _ _ hev) hb hσ h hP
      · cases h
    · intro as bs cur σ' ha hb hσ h hc
      cases as with
      | nil =>
        cases bs with
        | nil => simp [unifyArgs] at h; cases h; exact ⟨hc, hσ⟩
        | cons b bs => simp [unifyArgs] at h
      | cons a as =>
        cases bs with
        | nil => simp [unifyArgs] at h
        | cons b bs =>
          simp [TermList.FOK] at ha hb
          simp only [unifyArgs] at h
          split at h
          · exact ihA _ _ _ _ ha.2 hb.2 hσ h hc
          split at h
          · exact ihA _ _ _ _ ha.2 hb.2 hσ h hc
          · obtain ⟨s, hu, h⟩ := Res.bind_eq_ok.mp h
            have hs := ihU _ _ _ _ ha.1 hb.1 hσ hu hc
            exact ihA _ _ _ _ ha.2 hb.2 hs.2 h hs.1
    · intro x y cur σ' hx hy hσ h hc
      simp only [unifyList] at h
      split at h
      · cases h
      split at h
      · simp [Term.FOK] at hx hy
        split at h
        · split at h
          · cases h; exact ⟨hc, hσ⟩
          split at h
          · cases h; exact ⟨hc, hσ⟩
          · exact ihU _ _ _ _ hx.1 hy.1 hσ h hc
        split at h
        · exact ihU _ _ _ _ hx.1 (by simp [Term.FOK, hy]) hσ h hc
        split at h
        · exact ihU _ _ _ _ hy.1 (by simp [Term.FOK, hx]) hσ h hc
        split at h
        · cases h; exact ⟨hc, hσ⟩
        · obtain ⟨s, hu, h⟩ := Res.bind_eq_ok.mp h
          have hs := ihU _ _ _ _ hx.1 hy.1 hσ hu hc
          exact ihL _ _ _ _ hx.2 hy.2 hs.2 h hs.1
      · cases h

end Suiron
