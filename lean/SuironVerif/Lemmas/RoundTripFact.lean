/-
  C19 beyond terms: FACTS round-trip.

  A fact `fn(T1, ..., Tn).` over canonical argument texts (`Canon`, `Lemmas/RoundTrip.lean`) is read by `parse_rule` as the rule
  with that head and no body, and `Rule`'s printer writes it back as the same text.  `parse_rule` trims, drops the final period,
  looks for a neck `:-` outside quotes (`indexOfNeck_none`: a canonical text has no colon and no quote) and hands the rest to
  `parse_complex`, whose several-argument theorem (`parseComplex_multi`) and `parse_canon` do the rest.
-/
import SuironVerif.Lemmas.RoundTrip
import SuironVerif.Model.ParseGoal
namespace Suiron.Parse
open Suiron

theorem mem_joinArgs : ∀ (as : List Text) (c : Char), c ∈ joinArgs as → (∃ a ∈ as, c ∈ a) ∨ c = ',' ∨ c = ' '
  | [], c, h => by simp [joinArgs] at h
  | [a], c, h => by simp only [joinArgs] at h; exact Or.inl ⟨a, by simp, h⟩
  | a :: b :: rest, c, h => by
    simp only [joinArgs, List.mem_append, List.mem_cons] at h
    rcases h with h | h | h | h
    · exact Or.inl ⟨a, by simp, h⟩
    · exact Or.inr (Or.inl h)
    · exact Or.inr (Or.inr h)
    · rcases mem_joinArgs (b :: rest) c h with ⟨x, hx, hc⟩ | e
      · exact Or.inl ⟨x, by simp [List.mem_cons] at hx ⊢; exact Or.inr hx, hc⟩
      · exact Or.inr e

theorem letter_not_colon {c : Char} (h : isLetter c = true) : c ≠ ':' ∧ c ≠ '"' := by
  have hn : (97 ≤ c.toNat ∧ c.toNat ≤ 122) ∨ (65 ≤ c.toNat ∧ c.toNat ≤ 90) := by
    simp only [isLetter, Bool.or_eq_true, Bool.and_eq_true, decide_eq_true_eq] at h
    exact h
  have ne : ∀ (x : Char), (x.toNat < 65) → c ≠ x := by intro x hx e; subst e; omega
  exact ⟨ne _ (by decide), ne _ (by decide)⟩

theorem digit_not_colon {c : Char} (h : isDigit c = true) : c ≠ ':' ∧ c ≠ '"' := by
  unfold isDigit at h
  simp only [Bool.and_eq_true, decide_eq_true_eq] at h
  have h0 : ('0' : Char).toNat = 48 := rfl
  have h9 : ('9' : Char).toNat = 57 := rfl
  have ne : ∀ (x : Char), (x.toNat < 48 ∨ 57 < x.toNat) → c ≠ x := by intro x hx e; subst e; omega
  exact ⟨ne _ (by decide), ne _ (by decide)⟩

/-- a canonical text has no colon and no quote -/
theorem canon_chars {d : Nat} {T : Text} {t : Term} (h : Canon d T t) : ∀ c ∈ T, c ≠ ':' ∧ c ≠ '"' := by
  induction h with
  | int d i _ _ =>
    intro c hc
    cases i with
    | ofNat m => rw [int_text_pos] at hc; exact digit_not_colon ((repr_digits m).1 c hc).1
    | negSucc m =>
      rw [int_text_neg] at hc
      rcases List.mem_cons.mp hc with e | e
      · subst e; exact ⟨by decide, by decide⟩
      · exact digit_not_colon ((repr_digits (m + 1)).1 c e).1
  | word d s h => intro c hc; exact letter_not_colon (h.2 c hc)
  | var d s h =>
    intro c hc
    rcases List.mem_cons.mp hc with e | e
    · subst e; exact ⟨by decide, by decide⟩
    · exact letter_not_colon (h.2 c e)
  | cplx d fn as ts hf hne hlen _ _ _ ih =>
    intro c hc
    simp only [List.mem_append, List.mem_cons, List.mem_singleton] at hc
    rcases hc with (hc | hc | hc) | hc
    · exact letter_not_colon (hf.2 c hc)
    · subst hc; exact ⟨by decide, by decide⟩
    · rcases mem_joinArgs as c hc with ⟨a, ha, hca⟩ | e | e
      · obtain ⟨i, hi, e⟩ := List.mem_iff_getElem.mp ha
        exact ih i hi (by omega) c (by rw [e]; exact hca)
      · subst e; exact ⟨by decide, by decide⟩
      · subst e; exact ⟨by decide, by decide⟩
    · rcases hc with hc | hc
      · subst hc; exact ⟨by decide, by decide⟩
      · cases hc
  | elist d => intro c hc; simp at hc; rcases hc with e | e <;> subst e <;> exact ⟨by decide, by decide⟩
  | zero d fn hf _ _ =>
    intro c hc
    simp only [List.mem_append, List.mem_cons, List.mem_nil_iff, or_false] at hc
    rcases hc with hc | hc | hc
    · exact letter_not_colon (hf.2 c hc)
    · subst hc; exact ⟨by decide, by decide⟩
    · subst hc; exact ⟨by decide, by decide⟩
  | phrase d s h =>
    intro c hc
    rcases h.chars c hc with e | e
    · exact letter_not_colon e
    · subst e; exact ⟨by decide, by decide⟩
  | anon d => intro c hc; simp at hc; rcases hc with e | e <;> subst e <;> exact ⟨by decide, by decide⟩
  | list d as ts hne hlen _ ih =>
    intro c hc
    simp only [List.cons_append, List.mem_cons, List.mem_append, List.mem_nil_iff, or_false] at hc
    rcases hc with hc | hc | hc
    · subst hc; exact ⟨by decide, by decide⟩
    · rcases mem_joinArgs as c hc with ⟨a, ha, hca⟩ | e | e
      · obtain ⟨i, hi, e⟩ := List.mem_iff_getElem.mp ha
        exact ih i hi (by omega) c (by rw [e]; exact hca)
      · subst e; exact ⟨by decide, by decide⟩
      · subst e; exact ⟨by decide, by decide⟩
    · subst hc; exact ⟨by decide, by decide⟩
  | tlist d as ts name hne hlen _ hn ih =>
    intro c hc
    simp only [tailInner, List.cons_append, List.mem_cons, List.mem_append, List.mem_nil_iff, or_false] at hc
    rcases hc with hc | (hc | hc | hc | hc | hc | hc) | hc
    · subst hc; exact ⟨by decide, by decide⟩
    · rcases mem_joinArgs as c hc with ⟨a, ha, hca⟩ | e | e
      · obtain ⟨i, hi, e⟩ := List.mem_iff_getElem.mp ha
        exact ih i hi (by omega) c (by rw [e]; exact hca)
      · subst e; exact ⟨by decide, by decide⟩
      · subst e; exact ⟨by decide, by decide⟩
    · subst hc; exact ⟨by decide, by decide⟩
    · subst hc; exact ⟨by decide, by decide⟩
    · subst hc; exact ⟨by decide, by decide⟩
    · subst hc; exact ⟨by decide, by decide⟩
    · exact letter_not_colon (hn.2 c hc)
    · subst hc; exact ⟨by decide, by decide⟩

/-- no neck in a text without colons and quotes -/
theorem indexOfNeck_none : ∀ (T : Text) (i : Nat), (∀ c ∈ T, c ≠ ':' ∧ c ≠ '"') → indexOfNeck T i false false = none
  | [], _, _ => rfl
  | ch :: rest, i, h => by
    have hc := h ch (by simp)
    have e1 : (ch == '"') = false := by simpa using hc.2
    have e2 : (ch == ':') = false := by simpa using hc.1
    simp only [indexOfNeck, e1, e2, Bool.false_eq_true, if_false, Bool.and_false]
    exact indexOfNeck_none rest (i + 1) (fun c hc' => h c (by simp [hc']))

/-- FACTS: `fn(T1, ..., Tn).` over canonical arguments is read as the rule with that head and no body -/
theorem parseRule_fact (po : POps) (hα : ∀ c, isLetter c = true → po.isAlpha c = true) {d : Nat} {fn : Text} {as : List Text}
    {ts : List Term} (hf : Word fn) (hne : as ≠ []) (hlen : as.length = ts.length)
    (hargs : ∀ (i : Nat) (h1 : i < as.length) (h2 : i < ts.length), Canon d as[i] ts[i])
    (hfun : funPrefix (fn ++ '(' :: joinArgs as ++ [')']) = false)
    (hsize : fn.length + (joinArgs as).length + 2 ≤ 1000) (f : Nat) :
    parseRule po (3 * d + 3 + f) (fn ++ '(' :: joinArgs as ++ [')'] ++ ['.']) =
      .ok ⟨.cplx (.cons (.atom (str fn)) (TermList.ofList ts)), .nil⟩ := by
  have hC : Canon (d + 1) (fn ++ '(' :: joinArgs as ++ [')']) (.cplx (.cons (.atom (str fn)) (TermList.ofList ts))) :=
    Canon.cplx d fn as ts hf hne hlen hargs hfun hsize
  have hI := canon_inv hC
  have hch := canon_chars hC
  generalize hT : fn ++ '(' :: joinArgs as ++ [')'] = T at *
  have htr : trim (T ++ ['.']) = T ++ ['.'] := by
    apply trim_of_ends (by simp)
    · intro a ha
      cases hTT : T with
      | nil => exact absurd hTT hI.nonempty
      | cons x rest =>
        rw [hTT] at ha
        simp at ha
        subst ha
        exact trim_head_nonws hI.trimmed x (by rw [hTT]; rfl)
    · intro a ha
      rw [List.getLast?_concat] at ha
      simp at ha; subst ha; decide
  have hne' : (T ++ ['.']).isEmpty = false := by cases T <;> rfl
  have hlast : (T ++ ['.']).getLast? = some '.' := List.getLast?_concat
  have hdrop : (T ++ ['.']).dropLast = T := by simp
  have hneck := indexOfNeck_none T 0 hch
  simp only [parseRule, htr, hne', Bool.false_eq_true, if_false, hlast, beq_self_eq_true, if_true, hdrop, hneck]
  -- parse_complex
  have hinv : ∀ a ∈ as, TextInv a := by
    intro a ha
    obtain ⟨i, hi, e⟩ := List.mem_iff_getElem.mp ha
    rw [← e]
    exact canon_inv (hargs i hi (by omega))
  have hcomplex := parseComplex_multi po (3 * d + 1 + f) (word_token hf) as
    (by cases hfn : fn with
        | nil => exact absurd hfn hf.1
        | cons a t => intro e; simp at e; subst e; exact absurd rfl (letter_facts (hf.2 _ (by rw [hfn]; simp))).2.2.2.2.1)
    hne (fun a ha => (hinv a ha).argOK) hsize
  rw [hT] at hcomplex
  rw [show 3 * d + 3 + f = 3 * d + 1 + f + 2 from by omega, hcomplex]
  have hall := parseAll_ok (parseTerm po (3 * d + 1 + f + 2)) as ts hlen (fun i h1 h2 => by
    have := parse_canon po hα (hargs i h1 h2) f
    rw [show 3 * d + 3 + f = 3 * d + 1 + f + 2 from by omega] at this
    exact this)
  rw [hall]
  rfl

/-- a text that carries the invariant, followed by the period of a fact: trimmed, and the period comes off -/
theorem fact_text {T : Text} (hI : TextInv T) :
    trim (T ++ ['.']) = T ++ ['.'] ∧ (T ++ ['.']).isEmpty = false ∧ (T ++ ['.']).getLast? = some '.' ∧ (T ++ ['.']).dropLast = T := by
  refine ⟨?_, by cases T <;> rfl, List.getLast?_concat, by simp⟩
  apply trim_of_ends (by simp)
  · intro a ha
    cases hTT : T with
    | nil => exact absurd hTT hI.nonempty
    | cons x rest =>
      rw [hTT] at ha
      simp at ha
      subst ha
      exact trim_head_nonws hI.trimmed x (by rw [hTT]; rfl)
  · intro a ha
    rw [List.getLast?_concat] at ha
    simp at ha; subst ha; decide

/-- FACTS WITHOUT ARGUMENTS: `fn().` is read as the rule whose head is the functor alone -/
theorem parseRule_fact_zero (po : POps) {fn : Text} (hf : Word fn) (hsize : fn.length + 2 ≤ 1000)
    (hfun : funPrefix (fn ++ ['(', ')']) = false) (f : Nat) :
    parseRule po f (fn ++ ['(', ')'] ++ ['.']) = .ok ⟨.cplx (.cons (.atom (str fn)) .nil), .nil⟩ := by
  have hC : Canon 0 (fn ++ ['(', ')']) (.cplx (.cons (.atom (str fn)) .nil)) := Canon.zero 0 fn hf hsize hfun
  have hI := canon_inv hC
  have hch := canon_chars hC
  have hcomplex := parseComplex_zero po f hf hsize
  generalize hT : fn ++ ['(', ')'] = T at *
  obtain ⟨htr, hne', hlast, hdrop⟩ := fact_text hI
  have hneck := indexOfNeck_none T 0 hch
  simp only [parseRule, htr, hne', Bool.false_eq_true, if_false, hlast, beq_self_eq_true, if_true, hdrop, hneck, hcomplex]
  rfl

end Suiron.Parse
