/-
  Termination of the term-level parsers: a fuel linear in the length of the input suffices, so the model's
  "out of fuel" outcome (the rendering of "does not return") never occurs for `parse_term`, `make_term`,
  `parse_arguments`, `parse_linked_list`, `parse_complex`, `parse_function`, `parse_query` — every recursive
  call is on a strictly shorter text.
-/
import SuironVerif.Lemmas.ParseSafe
import SuironVerif.Model.ParseGoal
namespace Suiron.Parse
open Suiron

theorem Res.bind_ne_oof {α β} {r : Res α} {g : α → Res β} (h1 : r ≠ .oof) (h2 : ∀ x, r = .ok x → g x ≠ .oof) :
    r.bind g ≠ .oof := by
  cases r with
  | ok x => exact h2 x rfl
  | fail => simp [Res.bind]
  | panic => simp [Res.bind]
  | oof => exact absurd rfl h1

theorem Res.ite_ne_oof {α} {c : Prop} [Decidable c] {a b : Res α} (h1 : c → a ≠ .oof) (h2 : ¬c → b ≠ .oof) :
    (if c then a else b) ≠ .oof := by
  by_cases h : c
  · simp only [h, if_true]; exact h1 h
  · simp only [h, if_false]; exact h2 h

/-- descent through a definition that contains no `oof` of its own -/
theorem Res.ok_ne_oof {α} (x : α) : (Res.ok x : Res α) ≠ .oof := nofun
theorem Res.fail_ne_oof {α} : (Res.fail : Res α) ≠ .oof := nofun
theorem Res.panic_ne_oof {α} : (Res.panic : Res α) ≠ .oof := nofun

macro "nooof" : tactic => `(tactic| repeat' (first
  | exact Res.ok_ne_oof _
  | exact Res.fail_ne_oof
  | exact Res.panic_ne_oof
  | (apply_assumption; done)
  | refine Res.bind_ne_oof ?_ (fun _ _ => ?_)
  | refine Res.ite_ne_oof (fun _ => ?_) (fun _ => ?_)
  | split
  | dsimp only))

theorem trim_length_le (s : Text) : (trim s).length ≤ s.length := by
  unfold trim trimEnd trimStart
  have h1 : ∀ l : Text, (l.dropWhile isWs).length ≤ l.length := fun l => (List.dropWhile_sublist _).length_le
  rw [List.length_reverse]
  exact Nat.le_trans (h1 _) (by rw [List.length_reverse]; exact h1 _)

theorem checkQuotes_ne_oof (s : Text) (n : Nat) : checkQuotes s n ≠ .oof := by unfold checkQuotes; nooof
theorem linkFront_ne_oof (t : Term) (tl : Bool) (l : Term) : linkFront t tl l ≠ .oof := by unfold linkFront; nooof
theorem makeLogicVar_ne_oof (po : POps) (s : Text) : makeLogicVar po s ≠ .oof := by unfold makeLogicVar; nooof
theorem slice_ne_oof (s : Text) (a b : Nat) : slice s a b ≠ .oof := by unfold slice; nooof
theorem validateComplex_ne_oof (s : Text) : validateComplex s ≠ .oof := by unfold validateComplex; nooof
theorem indicesOfParentheses_ne_oof (s : Text) : indicesOfParentheses s ≠ .oof := by unfold indicesOfParentheses; nooof

/-! ### `parse_arguments`: `make_term` only ever sees a piece of the text -/

theorem argComma_len (mk : Text → Bool → Bool → Bool → Res Term) (rest : Text) (st st' : ArgSt)
    (h : argComma mk rest st = .ok st') : st'.arg.length = 0 := by
  unfold argComma at h
  obtain ⟨_, _, h⟩ := Res.bind_eq_ok.mp h
  obtain ⟨_, _, h⟩ := Res.bind_eq_ok.mp h
  cases h; rfl

theorem argStepTop_len (mk : Text → Bool → Bool → Bool → Res Term) (ch : Char) (rest : Text) (st st' : ArgSt)
    (h : argStepTop mk ch rest st = .ok st') : st'.arg.length ≤ st.arg.length + 1 := by
  unfold argStepTop at h
  split at h
  · have := argComma_len mk rest st st' h; omega
  repeat' (split at h)
  all_goals (cases h; simp [ArgSt.push, argSign])

theorem argStep_len (mk : Text → Bool → Bool → Bool → Res Term) (ch : Char) (rest : Text) (st st' : ArgSt)
    (h : argStep mk ch rest st = .ok st') : st'.arg.length ≤ st.arg.length + 1 := by
  unfold argStep at h
  repeat' (split at h)
  all_goals first
    | exact argStepTop_len mk ch rest st st' h
    | (cases h; simp [ArgSt.push])

theorem argComma_ne_oof (mk : Text → Bool → Bool → Bool → Res Term) (m : Nat)
    (hmk : ∀ x a b c, x.length ≤ m → mk x a b c ≠ .oof) (rest : Text) (st : ArgSt) (hl : st.arg.length ≤ m) :
    argComma mk rest st ≠ .oof := by
  have := checkQuotes_ne_oof
  have hm : ∀ a b c, mk (trim st.arg) a b c ≠ .oof := fun a b c => hmk _ a b c (Nat.le_trans (trim_length_le _) hl)
  clear hmk
  unfold argComma; nooof

theorem argStep_ne_oof (mk : Text → Bool → Bool → Bool → Res Term) (m : Nat)
    (hmk : ∀ x a b c, x.length ≤ m → mk x a b c ≠ .oof) (ch : Char) (rest : Text) (st : ArgSt) (hl : st.arg.length ≤ m) :
    argStep mk ch rest st ≠ .oof := by
  have := argComma_ne_oof mk m hmk rest st hl
  unfold argStep argStepTop; nooof

theorem argsFinish_ne_oof (mk : Text → Bool → Bool → Bool → Res Term) (m : Nat)
    (hmk : ∀ x a b c, x.length ≤ m → mk x a b c ≠ .oof) (st : ArgSt) (hl : st.arg.length ≤ m) :
    argsFinish mk st ≠ .oof := by
  have := checkQuotes_ne_oof
  have hm : ∀ a b c, mk (trim st.arg) a b c ≠ .oof := fun a b c => hmk _ a b c (Nat.le_trans (trim_length_le _) hl)
  clear hmk
  unfold argsFinish; nooof

theorem argsLoop_ne_oof (mk : Text → Bool → Bool → Bool → Res Term) (m : Nat)
    (hmk : ∀ x a b c, x.length ≤ m → mk x a b c ≠ .oof) :
    ∀ (s : Text) (st : ArgSt), st.arg.length + s.length ≤ m → argsLoop mk s st ≠ .oof := by
  intro s
  induction s with
  | nil => intro st hl; simp only [argsLoop]; exact argsFinish_ne_oof mk m hmk st (by simpa using hl)
  | cons ch rest ih =>
    intro st hl
    simp only [argsLoop]
    simp only [List.length_cons] at hl
    refine Res.bind_ne_oof (argStep_ne_oof mk m hmk ch rest st (by omega)) (fun st' h => ih st' ?_)
    have := argStep_len mk ch rest st st' h
    omega

theorem parseArgumentsWith_ne_oof (mk : Text → Bool → Bool → Bool → Res Term) (s : Text)
    (hmk : ∀ x a b c, x.length ≤ s.length → mk x a b c ≠ .oof) : parseArgumentsWith mk s ≠ .oof := by
  have hl := trim_length_le s
  have := fun st (h : st.arg.length + (trim s).length ≤ s.length) => argsLoop_ne_oof mk s.length hmk (trim s) st h
  have h0 : argsLoop mk (trim s) {} ≠ .oof := this {} (by simpa using hl)
  unfold parseArgumentsWith
  simp only
  split
  · nooof
  · clear this hmk
    nooof

/-! ### `parse_linked_list`: `parse_term` only ever sees a piece of the text between the brackets -/

theorem listStep_len (po : POps) (pt : Text → Res Term) (c : Char) (esc : Bool) (st st' : ListSt)
    (h : listStep po pt c esc st = .ok st') : st'.seg.length ≤ st.seg.length + 1 := by
  unfold listStep listStepTop at h
  simp only at h
  repeat' (split at h)
  all_goals first
    | (cases h; simp [ListSt.push])
    | (unfold listComma at h
       simp only at h
       split at h
       · cases h
       · obtain ⟨_, _, h⟩ := Res.bind_eq_ok.mp h
         obtain ⟨_, _, h⟩ := Res.bind_eq_ok.mp h
         obtain ⟨_, _, h⟩ := Res.bind_eq_ok.mp h
         cases h; simp)
    | (unfold listBar at h
       simp only at h
       split at h
       · cases h
       · split at h
         · cases h
         · obtain ⟨_, _, h⟩ := Res.bind_eq_ok.mp h
           obtain ⟨_, _, h⟩ := Res.bind_eq_ok.mp h
           cases h; simp)

theorem listStep_ne_oof (po : POps) (pt : Text → Res Term) (m : Nat) (hpt : ∀ x, x.length ≤ m → pt x ≠ .oof)
    (c : Char) (esc : Bool) (st : ListSt) (hl : st.seg.length ≤ m) : listStep po pt c esc st ≠ .oof := by
  have := checkQuotes_ne_oof
  have := linkFront_ne_oof
  have := makeLogicVar_ne_oof
  have hm : pt (trim st.seg) ≠ .oof := hpt _ (Nat.le_trans (trim_length_le _) hl)
  clear hpt
  unfold listStep listStepTop listComma listBar; nooof

theorem listFinish_ne_oof (pt : Text → Res Term) (m : Nat) (hpt : ∀ x, x.length ≤ m → pt x ≠ .oof)
    (st : ListSt) (hl : st.seg.length ≤ m) : listFinish pt st ≠ .oof := by
  have := checkQuotes_ne_oof
  have := linkFront_ne_oof
  have hm : pt (trim st.seg) ≠ .oof := hpt _ (Nat.le_trans (trim_length_le _) hl)
  clear hpt
  unfold listFinish; nooof

theorem listLoop_ne_oof (po : POps) (pt : Text → Res Term) (m : Nat) (hpt : ∀ x, x.length ≤ m → pt x ≠ .oof) :
    ∀ (s : Text) (st : ListSt), st.seg.length + s.length ≤ m → listLoop po pt s st ≠ .oof := by
  intro s
  induction s with
  | nil => intro st _; simp [listLoop]
  | cons c rest ih =>
    intro st hl
    simp only [List.length_cons] at hl
    simp only [listLoop]
    refine Res.bind_ne_oof (listStep_ne_oof po pt m hpt c _ st (by omega)) (fun st' h => ?_)
    have hlen := listStep_len po pt c _ st st' h
    split
    · exact listFinish_ne_oof pt m hpt st' (by simp at hl; omega)
    · exact ih st' (by omega)

theorem parseLinkedListWith_ne_oof (po : POps) (pt : Text → Res Term) (s : Text)
    (hpt : ∀ x, x.length + 2 ≤ s.length → pt x ≠ .oof) : parseLinkedListWith po pt s ≠ .oof := by
  have hl := trim_length_le s
  unfold parseLinkedListWith
  simp only
  refine Res.ite_ne_oof (fun _ => by nooof) (fun h2 => ?_)
  split
  · refine Res.ite_ne_oof (fun _ => by nooof) (fun _ => ?_)
    refine Res.ite_ne_oof (fun _ => by nooof) (fun _ => ?_)
    refine Res.ite_ne_oof (fun _ => by nooof) (fun _ => ?_)
    apply listLoop_ne_oof po pt (s.length - 2) (fun x hx => hpt x (by omega))
    simp
    omega
  · nooof

/-! ### `parse_complex`, `parse_function`: the argument text is strictly shorter -/

theorem slice_len {s x : Text} {a b : Nat} (h : slice s a b = .ok x) : x.length + a ≤ s.length := by
  unfold slice at h
  split at h
  · rename_i hc
    cases h
    simp only [List.length_drop, List.length_take]
    omega
  · cases h

theorem parseFunctorTerms_ne_oof (pa : Text → Res (List Term)) (f t : Text) (h : pa t ≠ .oof) :
    parseFunctorTerms pa f t ≠ .oof := by
  unfold parseFunctorTerms; nooof

theorem parseComplexWith_ne_oof (pa : Text → Res (List Term)) (s : Text)
    (hpa : ∀ x, x.length + 1 ≤ s.length → pa x ≠ .oof) : parseComplexWith pa s ≠ .oof := by
  have hl := trim_length_le s
  unfold parseComplexWith
  simp only
  refine Res.bind_ne_oof (validateComplex_ne_oof _) (fun _ hv => ?_)
  refine Res.bind_ne_oof (indicesOfParentheses_ne_oof _) (fun idx _ => ?_)
  split
  · refine Res.bind_ne_oof (slice_ne_oof _ _ _) (fun fn _ => ?_)
    refine Res.bind_ne_oof (slice_ne_oof _ _ _) (fun args ha => ?_)
    have := slice_len ha
    exact parseFunctorTerms_ne_oof pa _ _ (hpa _ (by omega))
  · unfold parseFunctorTerms; simp

theorem parseFunctionWith_ne_oof (pa : Text → Res (List Term)) (s : Text)
    (hpa : ∀ x, x.length + 1 ≤ s.length → pa x ≠ .oof) : parseFunctionWith pa s ≠ .oof := by
  have hl := trim_length_le s
  unfold parseFunctionWith
  simp only
  refine Res.bind_ne_oof (validateComplex_ne_oof _) (fun _ hv => ?_)
  refine Res.bind_ne_oof (indicesOfParentheses_ne_oof _) (fun idx _ => ?_)
  split
  · refine Res.bind_ne_oof (slice_ne_oof _ _ _) (fun fn _ => ?_)
    refine Res.bind_ne_oof (slice_ne_oof _ _ _) (fun args ha => ?_)
    have := slice_len ha
    have : pa args ≠ .oof := hpa _ (by omega)
    clear hpa
    nooof
  · nooof

theorem unescLoop_length_le : ∀ (n : Nat) (s : Text), s.length ≤ n → ∀ (r q : Int) (oq : Bool), (unescLoop s r q oq).1.length ≤ s.length := by
  intro n
  induction n with
  | zero =>
    intro s hs r q oq
    have : s = [] := List.eq_nil_of_length_eq_zero (by omega)
    subst this; simp [unescLoop]
  | succ n ih =>
    intro s hs r q oq
    cases s with
    | nil => simp [unescLoop]
    | cons ch rest =>
      simp only [List.length_cons] at hs
      have one : ∀ r q oq, (ch :: (unescLoop rest r q oq).1).length ≤ (ch :: rest).length := by
        intro r q oq; simp only [List.length_cons]; exact Nat.succ_le_succ (ih rest (by omega) r q oq)
      unfold unescLoop
      simp only
      repeat' split
      all_goals first
        | exact one _ _ _
        | (rename_i c rest'
           simp only [List.length_cons] at hs ⊢
           have := ih rest' (by omega) r q false
           omega)
        | (simp; done)

/-- when quotes were counted, the unescaped text contains one -/
theorem unescLoop_quote_mem : ∀ (n : Nat) (s : Text), s.length ≤ n → ∀ (r q : Int) (oq : Bool),
    (unescLoop s r q oq).2 ≠ 0 → '"' ∈ (unescLoop s r q oq).1 := by
  intro n
  induction n with
  | zero =>
    intro s hs r q oq
    have : s = [] := List.eq_nil_of_length_eq_zero (by omega)
    subst this; simp [unescLoop]
  | succ n ih =>
    intro s hs r q oq
    cases s with
    | nil => simp [unescLoop]
    | cons ch rest =>
      simp only [List.length_cons] at hs
      have keep0 : ∀ r q oq, (unescLoop rest r q oq).2 + 0 ≠ 0 → '"' ∈ ch :: (unescLoop rest r q oq).1 := by
        intro r q oq h; exact List.mem_cons_of_mem _ (ih rest (by omega) r q oq (by simpa using h))
      unfold unescLoop
      simp only
      repeat' split
      all_goals first
        | exact keep0 _ _ _
        | (rename_i hq; intro _; simp at hq; simp [hq]; done)
        | (rename_i c rest'
           simp only [List.length_cons] at hs
           intro h
           exact List.mem_cons_of_mem _ (ih rest' (by omega) r q false h))
        | (intro h; simp at h; done)
        | skip

theorem unescape_length_le (s : Text) : (unescape s).1.length ≤ s.length := unescLoop_length_le s.length s (Nat.le_refl _) 0 0 false

/-! ### the mutual recursion: three units of fuel per character suffice -/

theorem makeTerm_step (po : POps) (n : Nat)
    (ihT : ∀ s, s.length + 1 ≤ n → ∀ f, 3 * n ≤ f → parseTerm po f s ≠ .oof)
    (ihM : ∀ s a b c, s.length + 1 ≤ n → ∀ f, 3 * n ≤ f + 1 → makeTerm po f s a b c ≠ .oof)
    (s : Text) (a b c : Bool) (hs : s.length ≤ n) (f : Nat) (hf : 3 * n + 2 ≤ f) : makeTerm po f s a b c ≠ .oof := by
  obtain ⟨f1, rfl⟩ : ∃ f1, f = f1 + 1 := ⟨f - 1, by omega⟩
  obtain ⟨f2, rfl⟩ : ∃ f2, f1 = f2 + 1 := ⟨f1 - 1, by omega⟩
  have hl := trim_length_le s
  have hLL : parseLinkedList po (f2 + 1) (trim s) ≠ .oof := by
    simp only [parseLinkedList]
    exact parseLinkedListWith_ne_oof po _ _ (fun x hx => ihT x (by omega) f2 (by omega))
  have hPA : ∀ x, x.length + 1 ≤ (trim s).length → parseArguments po (f2 + 1) x ≠ .oof := by
    intro x hx
    simp only [parseArguments]
    exact parseArgumentsWith_ne_oof _ _ (fun y a b c hy => ihM y a b c (by omega) f2 (by omega))
  have hF := parseFunctionWith_ne_oof (parseArguments po (f2 + 1)) (trim s) hPA
  have hC := parseComplexWith_ne_oof (parseArguments po (f2 + 1)) (trim s) hPA
  clear hPA ihT ihM
  unfold makeTerm
  dsimp only
  split
  · exact Res.fail_ne_oof
  · have hnum : (if (a && !b) = true then
          if c = true then (match po.parseF (trim s) with | some b => Res.ok (Term.flt b) | none => Res.fail)
          else (match parseI64 (trim s) with | some i => Res.ok (Term.int i) | none => Res.fail)
        else Res.ok (Term.atom (str (trim s)))) ≠ Res.oof := by
      refine Res.ite_ne_oof (fun _ => ?_) (fun _ => Res.ok_ne_oof _)
      refine Res.ite_ne_oof (fun _ => ?_) (fun _ => ?_)
      · split
        · exact Res.ok_ne_oof _
        · exact Res.fail_ne_oof
      · split
        · exact Res.ok_ne_oof _
        · exact Res.fail_ne_oof
    refine Res.ite_ne_oof (fun _ => ?_) (fun _ => ?_)
    · refine Res.ite_ne_oof (fun _ => Res.ok_ne_oof _) (fun _ => ?_)
      split <;> exact Res.ok_ne_oof _
    · refine Res.ite_ne_oof (fun _ => ?_) (fun _ => hnum)
      split
      · exact Res.panic_ne_oof
      · refine Res.ite_ne_oof (fun _ => ?_) (fun _ => ?_)
        · refine Res.ite_ne_oof (fun _ => ?_) (fun _ => Res.fail_ne_oof)
          exact Res.ite_ne_oof (fun _ => Res.fail_ne_oof) (fun _ => Res.ok_ne_oof _)
        · refine Res.ite_ne_oof (fun _ => hLL) (fun _ => ?_)
          refine Res.ite_ne_oof (fun _ => ?_) (fun _ => hnum)
          exact Res.ite_ne_oof (fun _ => hF) (fun _ => hC)

theorem term_fuel (po : POps) : ∀ n,
    (∀ s, s.length ≤ n → ∀ f, 3 * n + 3 ≤ f → parseTerm po f s ≠ .oof) ∧
    (∀ s a b c, s.length ≤ n → ∀ f, 3 * n + 2 ≤ f → makeTerm po f s a b c ≠ .oof) := by
  intro n
  induction n with
  | zero =>
    have hM : ∀ s a b c, s.length ≤ 0 → ∀ f, 3 * 0 + 2 ≤ f → makeTerm po f s a b c ≠ .oof :=
      fun s a b c hs f hf => makeTerm_step po 0 (fun _ h => by omega) (fun _ _ _ _ h => by omega) s a b c hs f hf
    refine ⟨?_, hM⟩
    intro s hs f hf
    obtain ⟨f1, rfl⟩ : ∃ f1, f = f1 + 1 := ⟨f - 1, by omega⟩
    have hs0 : s = [] := List.eq_nil_of_length_eq_zero (by omega)
    subst hs0
    have : makeTerm po f1 [] false false false ≠ .oof := hM [] _ _ _ (by simp) f1 (by omega)
    simp only [parseTerm]
    simpa [trim, trimEnd, trimStart, checkArithmeticInfix, arithLoop, termFlags, flagLoop, unescape, unescLoop, checkQuotes, Res.bind] using this
  | succ n ih =>
    obtain ⟨ihT, ihM⟩ := ih
    have hM : ∀ s a b c, s.length ≤ n + 1 → ∀ f, 3 * (n + 1) + 2 ≤ f → makeTerm po f s a b c ≠ .oof :=
      fun s a b c hs f hf => makeTerm_step po (n + 1)
        (fun x hx f hf => ihT x (by omega) f (by omega))
        (fun x a b c hx f hf => ihM x a b c (by omega) f (by omega)) s a b c hs f hf
    refine ⟨?_, hM⟩
    intro s hs f hf
    obtain ⟨f1, rfl⟩ : ∃ f1, f = f1 + 1 := ⟨f - 1, by omega⟩
    have hl := trim_length_le s
    simp only [parseTerm]
    split
    · rename_i hop
      have hb : (checkArithmeticInfix (trim s)).2 + 2 ≤ (trim s).length := by
        apply checkArithmeticInfix_bound (op := (checkArithmeticInfix (trim s)).1) rfl
        intro hn; rw [hn] at hop; simp at hop
      refine Res.bind_ne_oof (slice_ne_oof _ _ _) (fun a1 h1 => ?_)
      refine Res.bind_ne_oof (slice_ne_oof _ _ _) (fun a2 h2 => ?_)
      have l1 := slice_len h1
      have l2 := slice_len h2
      have l1' : a1.length ≤ (checkArithmeticInfix (trim s)).2 := by
        unfold slice at h1; split at h1
        · cases h1; simp; omega
        · cases h1
      refine Res.bind_ne_oof (ihT a1 (by omega) f1 (by omega)) (fun _ _ => ?_)
      refine Res.bind_ne_oof (ihT a2 (by omega) f1 (by omega)) (fun _ _ => ?_)
      simp
    · refine Res.bind_ne_oof (checkQuotes_ne_oof _ _) (fun _ _ => ?_)
      apply hM
      · exact Nat.le_trans (trim_length_le _) (Nat.le_trans (unescape_length_le _) (by omega))
      · omega

theorem parseTerm_fuel (po : POps) (s : Text) (f : Nat) (hf : 3 * s.length + 3 ≤ f) : parseTerm po f s ≠ .oof :=
  (term_fuel po s.length).1 s (Nat.le_refl _) f hf

theorem makeTerm_fuel (po : POps) (s : Text) (a b c : Bool) (f : Nat) (hf : 3 * s.length + 2 ≤ f) : makeTerm po f s a b c ≠ .oof :=
  (term_fuel po s.length).2 s a b c (Nat.le_refl _) f hf

theorem parseArguments_fuel (po : POps) (s : Text) (f : Nat) (hf : 3 * s.length + 3 ≤ f) : parseArguments po f s ≠ .oof := by
  obtain ⟨f1, rfl⟩ : ∃ f1, f = f1 + 1 := ⟨f - 1, by omega⟩
  simp only [parseArguments]
  exact parseArgumentsWith_ne_oof _ _ (fun y a b c hy => (term_fuel po s.length).2 y a b c hy f1 (by omega))

theorem parseLinkedList_fuel (po : POps) (s : Text) (f : Nat) (hf : 3 * s.length + 1 ≤ f) : parseLinkedList po f s ≠ .oof := by
  obtain ⟨f1, rfl⟩ : ∃ f1, f = f1 + 1 := ⟨f - 1, by omega⟩
  simp only [parseLinkedList]
  exact parseLinkedListWith_ne_oof po _ _ (fun x hx => (term_fuel po x.length).1 x (Nat.le_refl _) f1 (by omega))

theorem parseComplex_fuel (po : POps) (s : Text) (f : Nat) (hf : 3 * s.length ≤ f) : parseComplex po f s ≠ .oof := by
  unfold parseComplex
  exact parseComplexWith_ne_oof _ _ (fun x hx => parseArguments_fuel po x f (by omega))

theorem parseFunction_fuel (po : POps) (s : Text) (f : Nat) (hf : 3 * s.length ≤ f) : parseFunction po f s ≠ .oof := by
  unfold parseFunction
  exact parseFunctionWith_ne_oof _ _ (fun x hx => parseArguments_fuel po x f (by omega))

theorem makeQuery_ne_oof (ts : List Term) : makeQuery ts ≠ .oof := by unfold makeQuery; nooof

theorem parseQuery_fuel (po : POps) (s : Text) (f : Nat) (hf : 3 * s.length ≤ f) : parseQuery po f s ≠ .oof := by
  have h1 : parseComplex po f (if s.getLast? == some '.' then s.dropLast else s) ≠ .oof := by
    apply parseComplex_fuel
    split
    · simp only [List.length_dropLast]; omega
    · exact hf
  have := makeQuery_ne_oof
  unfold parseQuery; nooof

/-! ### `parse_subgoal` -/

theorem subgoal_fuel (po : POps) : ∀ n s, s.length ≤ n → ∀ f, 3 * n + 4 ≤ f → parseSubgoal po f s ≠ .oof := by
  intro n
  induction n with
  | zero =>
    intro s hs f hf
    obtain ⟨f1, rfl⟩ : ∃ f1, f = f1 + 1 := ⟨f - 1, by omega⟩
    have hs0 : s = [] := List.eq_nil_of_length_eq_zero (by omega)
    subst hs0
    simp [parseSubgoal, trim, trimEnd, trimStart]
  | succ n ih =>
    intro s hs f hf
    obtain ⟨f1, rfl⟩ : ∃ f1, f = f1 + 1 := ⟨f - 1, by omega⟩
    have hl := trim_length_le s
    simp only [parseSubgoal]
    refine Res.ite_ne_oof (fun _ => Res.fail_ne_oof) (fun _ => ?_)
    refine Res.ite_ne_oof (fun _ => Res.ok_ne_oof _) (fun _ => ?_)
    refine Res.ite_ne_oof (fun _ => ?_) (fun _ => ?_)
    · refine Res.bind_ne_oof (slice_ne_oof _ _ _) (fun a1 h1 => ?_)
      refine Res.bind_ne_oof (slice_ne_oof _ _ _) (fun a2 h2 => ?_)
      have l1 := slice_len h1
      have l2 := slice_len h2
      refine Res.bind_ne_oof (parseTerm_fuel po a1 f1 (by omega)) (fun _ _ => ?_)
      refine Res.bind_ne_oof (parseTerm_fuel po a2 f1 (by omega)) (fun _ _ => ?_)
      split <;> first | exact Res.ok_ne_oof _ | exact Res.fail_ne_oof
    · refine Res.bind_ne_oof (indicesOfParentheses_ne_oof _) (fun idx _ => ?_)
      split
      · refine Res.bind_ne_oof ?_ (fun _ _ => Res.ok_ne_oof _)
        exact parseFunctorTerms_ne_oof _ _ _ (parseArguments_fuel po [] f1 (by simp; omega))
      · refine Res.bind_ne_oof (slice_ne_oof _ _ _) (fun fn _ => ?_)
        refine Res.bind_ne_oof (slice_ne_oof _ _ _) (fun args ha => ?_)
        have la := slice_len ha
        have hsub : parseSubgoal po f1 args ≠ .oof := ih args (by omega) f1 (by omega)
        have hargs : parseArguments po f1 args ≠ .oof := parseArguments_fuel po args f1 (by omega)
        refine Res.ite_ne_oof (fun _ => Res.bind_ne_oof hsub (fun _ _ => Res.ok_ne_oof _)) (fun _ => ?_)
        refine Res.ite_ne_oof (fun _ => Res.bind_ne_oof hsub (fun _ _ => Res.ok_ne_oof _)) (fun _ => ?_)
        refine Res.ite_ne_oof (fun _ => Res.ok_ne_oof _) (fun _ => ?_)
        exact Res.bind_ne_oof hargs (fun _ _ => Res.ok_ne_oof _)

theorem parseSubgoal_fuel (po : POps) (s : Text) (f : Nat) (hf : 3 * s.length + 4 ≤ f) : parseSubgoal po f s ≠ .oof :=
  subgoal_fuel po s.length s (Nat.le_refl _) f hf

/-! ### the tokenizer: the index grows with every iteration -/

theorem tokLoop_ne_oof (s : Text) : ∀ (fuel i : Nat) (st : TokSt), 1 ≤ fuel → s.length + 1 ≤ fuel + i →
    tokLoop s fuel i st ≠ .oof := by
  intro fuel
  induction fuel with
  | zero => intro i st h; omega
  | succ fuel ih =>
    intro i st _ hb
    simp only [tokLoop]
    split
    · nooof
    · rename_i ch hch
      have hi : i < s.length := by
        rcases Nat.lt_or_ge i s.length with h | h
        · exact h
        · have : s[i]? = none := by simp; omega
          rw [this] at hch; cases hch
      have hrec : ∀ i' st', i + 1 ≤ i' → tokLoop s fuel i' st' ≠ .oof :=
        fun i' st' hi' => ih i' st' (by omega) (by omega)
      have rec1 : ∀ st', tokLoop s fuel (i + 1) st' ≠ .oof := fun st' => hrec _ st' (Nat.le_refl _)
      have hslice := slice_ne_oof
      split
      · split
        · rename_i j hj
          have := findQuote_ge _ _ _ _ hj
          exact hrec _ _ (by omega)
        · exact rec1 _
      clear ih hrec
      nooof

theorem tokenize_ne_oof (s : Text) : tokenize s ≠ .oof := by
  unfold tokenize
  simp only
  split
  · exact Res.fail_ne_oof
  · exact tokLoop_ne_oof _ _ _ _ (by omega) (by omega)

/-! ### `group_tokens`: a call stops at or behind the index it started from, so the caller goes on behind it -/

theorem makeBranchToken_ne_oof (ty : TokTy) (cs : List Token) : makeBranchToken ty cs ≠ .oof := by
  unfold makeBranchToken; nooof

theorem groupTokens_stop (tokens : List Token) : ∀ (fuel index : Nat) (acc : List Token) (r : Token × Nat),
    groupTokens tokens fuel index acc = .ok r → index ≤ r.2 := by
  intro fuel
  induction fuel with
  | zero => intro index acc r h; simp [groupTokens] at h
  | succ fuel ih =>
    intro index acc r h
    simp only [groupTokens] at h
    split at h
    · obtain ⟨t, _, h⟩ := Res.bind_eq_ok.mp h; cases h; exact Nat.le_refl _
    · split at h
      · obtain ⟨r1, h1, h⟩ := Res.bind_eq_ok.mp h
        have a := ih _ _ _ h1
        have b := ih _ _ _ h
        omega
      · split at h
        · obtain ⟨t, _, h⟩ := Res.bind_eq_ok.mp h; cases h; exact Nat.le_refl _
        · have := ih _ _ _ h; omega

theorem groupTokens_ne_oof (tokens : List Token) : ∀ (fuel index : Nat) (acc : List Token), 1 ≤ fuel →
    tokens.length + 1 ≤ fuel + index → groupTokens tokens fuel index acc ≠ .oof := by
  intro fuel
  induction fuel with
  | zero => intro index acc h; omega
  | succ fuel ih =>
    intro index acc _ hb
    simp only [groupTokens]
    have hmk := makeBranchToken_ne_oof
    split
    · nooof
    · rename_i token htok
      have hi : index < tokens.length := by
        rcases Nat.lt_or_ge index tokens.length with h | h
        · exact h
        · have : tokens[index]? = none := by simp; omega
          rw [this] at htok; cases htok
      refine Res.ite_ne_oof (fun _ => ?_) (fun _ => ?_)
      · refine Res.bind_ne_oof (ih _ _ (by omega) (by omega)) (fun r hr => ?_)
        have := groupTokens_stop tokens _ _ _ _ hr
        exact ih _ _ (by omega) (by omega)
      · refine Res.ite_ne_oof (fun _ => ?_) (fun _ => ih _ _ (by omega) (by omega))
        nooof

/-! ### grouping by `,` and `;`: structural recursion over the token tree -/

theorem group_ne_oof : ∀ fuel,
    (∀ t, sizeOf t < fuel → groupAnd fuel t ≠ .oof) ∧
    (∀ ty cs nc al, sizeOf cs < fuel → groupAndLoop fuel ty cs nc al ≠ .oof) ∧
    (∀ t, 1 ≤ fuel → groupOr fuel t ≠ .oof) := by
  intro fuel
  induction fuel with
  | zero => exact ⟨fun _ h => by omega, fun _ _ _ _ h => by omega, fun _ h => by omega⟩
  | succ fuel ih =>
    obtain ⟨ih1, ih2, ih3⟩ := ih
    have hmk := makeBranchToken_ne_oof
    refine ⟨?_, ?_, ?_⟩
    · intro t hs
      cases t with
      | leaf ty s => simp [groupAnd]
      | branch ty cs =>
        simp only [groupAnd]
        apply ih2
        simp at hs; omega
    · intro ty cs nc al hs
      cases cs with
      | nil => simp only [groupAndLoop]; nooof
      | cons child rest =>
        simp at hs
        have hrest : ∀ nc al, groupAndLoop fuel ty rest nc al ≠ .oof := fun nc al => ih2 ty rest nc al (by omega)
        have hchild : groupAnd fuel child ≠ .oof := ih1 child (by omega)
        have hor : ∀ t, groupOr fuel t ≠ .oof := fun t => ih3 t (by omega)
        clear ih1 ih2 ih3
        simp only [groupAndLoop]; nooof
    · intro t _
      cases t with
      | leaf ty s => simp [groupOr]
      | branch ty cs => simp only [groupOr]; nooof

/-- every leaf text of a token tree has at most `m` characters -/
inductive LeavesLe (m : Nat) : Token → Prop where
  | leaf {ty s} : s.length ≤ m → LeavesLe m (.leaf ty s)
  | branch {ty cs} : (∀ c ∈ cs, LeavesLe m c) → LeavesLe m (.branch ty cs)

theorem tree_ne_oof (po : POps) (m : Nat) : ∀ f,
    (∀ t, LeavesLe m t → sizeOf t + (3 * m + 4) ≤ f → tokenTreeToGoal po f t ≠ .oof) ∧
    (∀ inOr cs, (∀ c ∈ cs, LeavesLe m c) → sizeOf cs + (3 * m + 4) ≤ f → operands po f inOr cs ≠ .oof) := by
  intro f
  induction f with
  | zero =>
    refine ⟨fun t _ h => ?_, fun _ cs _ h => ?_⟩
    · cases t <;> simp at h <;> omega
    · omega
  | succ f ih =>
    obtain ⟨ih1, ih2⟩ := ih
    refine ⟨?_, ?_⟩
    · intro t hl hs
      cases t with
      | leaf ty s =>
        cases hl with
        | leaf hlen =>
          simp at hs
          simp only [tokenTreeToGoal]
          refine Res.ite_ne_oof (fun _ => parseSubgoal_fuel po s f (by omega)) (fun _ => Res.panic_ne_oof)
      | branch ty cs =>
        cases hl with
        | branch hcs =>
          simp at hs
          have hops : ∀ inOr, operands po f inOr cs ≠ .oof := fun inOr => ih2 inOr cs hcs (by omega)
          simp only [tokenTreeToGoal]
          refine Res.ite_ne_oof (fun _ => Res.bind_ne_oof (hops _) (fun _ _ => Res.ok_ne_oof _)) (fun _ => ?_)
          refine Res.ite_ne_oof (fun _ => Res.bind_ne_oof (hops _) (fun _ _ => Res.ok_ne_oof _)) (fun _ => ?_)
          refine Res.ite_ne_oof (fun _ => ?_) (fun _ => Res.fail_ne_oof)
          split
          · rename_i child
            apply ih1 child (hcs child (by simp))
            simp at hs; omega
          · exact Res.panic_ne_oof
    · intro inOr cs hcs hs
      cases cs with
      | nil => simp [operands]
      | cons child rest =>
        simp at hs
        have hrest : operands po f inOr rest ≠ .oof := ih2 inOr rest (fun c hc => hcs c (by simp [hc])) (by omega)
        have hchild : tokenTreeToGoal po f child ≠ .oof := ih1 child (hcs child (by simp)) (by omega)
        simp only [operands]
        split
        · rename_i ty s
          have hlen : s.length ≤ m := by cases hcs (.leaf ty s) (by simp) with | leaf h => exact h
          refine Res.ite_ne_oof (fun _ => ?_) (fun _ => hrest)
          refine Res.bind_ne_oof (parseSubgoal_fuel po s f (by omega)) (fun _ _ => ?_)
          exact Res.bind_ne_oof hrest (fun _ _ => Res.ok_ne_oof _)
        · refine Res.ite_ne_oof (fun _ => ?_) (fun _ => hrest)
          refine Res.bind_ne_oof hchild (fun _ _ => ?_)
          exact Res.bind_ne_oof hrest (fun _ _ => Res.ok_ne_oof _)

/-! ### the leaves of the token tree are pieces of the input -/

theorem makeLeafToken_leaves (m : Nat) (x : Text) (h : x.length ≤ m) : LeavesLe m (makeLeafToken x) := by
  have := Nat.le_trans (trim_length_le x) h
  unfold makeLeafToken
  simp only
  repeat' split
  all_goals exact .leaf this

theorem all_append {m : Nat} {l : List Token} {a : List Token} (hl : ∀ t ∈ l, LeavesLe m t) (ha : ∀ t ∈ a, LeavesLe m t) :
    ∀ t ∈ l ++ a, LeavesLe m t := by
  intro t ht
  rcases List.mem_append.mp ht with h | h
  · exact hl t h
  · exact ha t h

theorem tokLoop_leaves (s : Text) (m : Nat) (hm : s.length ≤ m) (h1 : 1 ≤ m) : ∀ (fuel i : Nat) (st : TokSt) (ts : List Token),
    (∀ t ∈ st.tokens, LeavesLe m t) → tokLoop s fuel i st = .ok ts → ∀ t ∈ ts, LeavesLe m t := by
  intro fuel
  induction fuel with
  | zero => intro i st ts _ h; simp [tokLoop] at h
  | succ fuel ih =>
    intro i st ts hst h
    have one : ∀ c : Char, LeavesLe m (makeLeafToken [c]) := fun c => makeLeafToken_leaves m [c] (by simpa using h1)
    have sl : ∀ a b x, slice s a b = .ok x → LeavesLe m (makeLeafToken x) := fun a b x hx =>
      makeLeafToken_leaves m x (by have := slice_len hx; omega)
    simp only [tokLoop] at h
    repeat' (split at h)
    all_goals first
      | (cases h; done)
      | (cases h; exact hst)
      | (refine ih _ _ _ ?_ h; exact hst)
      | (obtain ⟨x, hx, h⟩ := Res.bind_eq_ok.mp h
         first
           | (cases h
              exact all_append hst (by intro t ht; simp at ht; subst ht; exact sl _ _ _ hx))
           | (refine ih _ _ _ ?_ h
              apply all_append hst
              intro t ht
              simp at ht
              rcases ht with rfl | rfl
              · exact sl _ _ _ hx
              · exact one _))
      | (refine ih _ _ _ ?_ h
         apply all_append hst
         intro t ht
         simp at ht
         subst ht
         exact one _)

theorem tokenize_leaves (s : Text) (ts : List Token) (h : tokenize s = .ok ts) : ∀ t ∈ ts, LeavesLe (s.length + 1) t := by
  unfold tokenize at h
  simp only at h
  split at h
  · cases h
  · exact tokLoop_leaves _ _ (by have := trim_length_le s; omega) (by omega) _ _ _ _ (by simp [TokSt.tokens]) h

theorem makeBranchToken_leaves {m : Nat} {ty : TokTy} {cs : List Token} {t : Token}
    (h : makeBranchToken ty cs = .ok t) (hcs : ∀ c ∈ cs, LeavesLe m c) : LeavesLe m t := by
  unfold makeBranchToken at h
  split at h
  · cases h
  · cases h; exact .branch hcs

theorem all_one {m : Nat} {t : Token} (h : LeavesLe m t) : ∀ c ∈ [t], LeavesLe m c := by
  intro c hc; simp at hc; subst hc; exact h

theorem groupTokens_leaves (m : Nat) (tokens : List Token) (htok : ∀ t ∈ tokens, LeavesLe m t) :
    ∀ (fuel index : Nat) (acc : List Token) (r : Token × Nat), (∀ t ∈ acc, LeavesLe m t) →
      groupTokens tokens fuel index acc = .ok r → LeavesLe m r.1 := by
  intro fuel
  induction fuel with
  | zero => intro index acc r _ h; simp [groupTokens] at h
  | succ fuel ih =>
    intro index acc r hacc h
    simp only [groupTokens] at h
    split at h
    · obtain ⟨t, ht, h⟩ := Res.bind_eq_ok.mp h; cases h; exact makeBranchToken_leaves ht hacc
    · rename_i token htk
      have hin : LeavesLe m token := htok token (List.mem_of_getElem? htk)
      split at h
      · obtain ⟨r1, h1, h⟩ := Res.bind_eq_ok.mp h
        have a := ih _ _ _ (by simp) h1
        exact ih _ _ _ (all_append hacc (all_one a)) h
      · split at h
        · obtain ⟨t, ht, h⟩ := Res.bind_eq_ok.mp h; cases h; exact makeBranchToken_leaves ht hacc
        · exact ih _ _ _ (all_append hacc (all_one hin)) h

theorem LeavesLe.children {m : Nat} {ty : TokTy} {cs : List Token} (h : LeavesLe m (.branch ty cs)) : ∀ c ∈ cs, LeavesLe m c := by
  cases h with | branch h => exact h

theorem group_leaves (m : Nat) : ∀ fuel,
    (∀ t r, LeavesLe m t → groupAnd fuel t = .ok r → LeavesLe m r) ∧
    (∀ ty cs nc al r, (∀ c ∈ cs, LeavesLe m c) → (∀ c ∈ nc, LeavesLe m c) → (∀ c ∈ al, LeavesLe m c) →
        groupAndLoop fuel ty cs nc al = .ok r → LeavesLe m r) ∧
    (∀ t r, LeavesLe m t → groupOr fuel t = .ok r → LeavesLe m r) := by
  intro fuel
  induction fuel with
  | zero =>
    refine ⟨fun t r _ h => ?_, fun ty cs nc al r _ _ _ h => ?_, fun t r _ h => ?_⟩
    · simp [groupAnd] at h
    · simp [groupAndLoop] at h
    · simp [groupOr] at h
  | succ fuel ih =>
    obtain ⟨ih1, ih2, ih3⟩ := ih
    refine ⟨?_, ?_, ?_⟩
    · intro t r hl h
      cases t with
      | leaf ty s => simp [groupAnd] at h
      | branch ty cs =>
        simp only [groupAnd] at h
        exact ih2 ty cs [] [] r hl.children (by simp) (by simp) h
    · intro ty cs nc al r hcs hnc hal h
      cases cs with
      | nil =>
        simp only [groupAndLoop] at h
        split at h
        · exact makeBranchToken_leaves h (all_append hnc hal)
        · split at h
          · obtain ⟨a, ha, h⟩ := Res.bind_eq_ok.mp h
            exact makeBranchToken_leaves h (all_append hnc (all_one (makeBranchToken_leaves ha hal)))
          · exact makeBranchToken_leaves h hnc
      | cons child rest =>
        have hchild : LeavesLe m child := hcs child (by simp)
        have hrest : ∀ c ∈ rest, LeavesLe m c := fun c hc => hcs c (by simp [hc])
        simp only [groupAndLoop] at h
        split at h
        · exact ih2 _ _ _ _ r hrest hnc (all_append hal (all_one hchild)) h
        · split at h
          · exact ih2 _ _ _ _ r hrest hnc hal h
          · split at h
            · split at h
              · exact ih2 _ _ _ _ r hrest (all_append (all_append hnc hal) (all_one hchild)) (by simp) h
              · obtain ⟨a, ha, h⟩ := Res.bind_eq_ok.mp h
                refine ih2 _ _ _ _ r hrest (all_append hnc ?_) (by simp) h
                intro c hc; simp at hc
                rcases hc with rfl | rfl
                · exact makeBranchToken_leaves ha hal
                · exact hchild
            · split at h
              · obtain ⟨t1, h1, h⟩ := Res.bind_eq_ok.mp h
                obtain ⟨t2, h2, h⟩ := Res.bind_eq_ok.mp h
                have a := ih1 child t1 hchild h1
                have b := ih3 t1 t2 a h2
                exact ih2 _ _ _ _ r hrest hnc (all_append hal (all_one b)) h
              · exact ih2 _ _ _ _ r hrest hnc hal h
    · intro t r hl h
      cases t with
      | leaf ty s => simp [groupOr] at h
      | branch ty cs =>
        simp only [groupOr] at h
        have hf : ∀ c ∈ cs.filter (fun c => c.ty == .subgoal || c.ty == .and || c.ty == .group), LeavesLe m c :=
          fun c hc => hl.children c (List.mem_filter.mp hc).1
        split at h
        · exact makeBranchToken_leaves h hf
        · split at h
          · obtain ⟨o, ho, h⟩ := Res.bind_eq_ok.mp h
            exact makeBranchToken_leaves h (all_one (makeBranchToken_leaves ho hf))
          · exact makeBranchToken_leaves h (by simp)

end Suiron.Parse
