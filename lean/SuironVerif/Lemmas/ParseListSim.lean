/-
  C20 beyond tokens: the LIST-ELEMENT context for structured texts.

  `parse_linked_list` reads its text from the right: `]` opens, `[` closes, and what lies to the right of a character is
  what it has seen when it meets that character.  For a text whose quotes, parentheses and brackets are closed, the state of
  that backward scan just before a character equals the state of the forward scan (of `parse_arguments` / `unescape`) just
  after it (`back_is_forward`), so the two scanners agree on which commas, bars and quotes are the text's own.  Hence
  for every structured text T without a bar or comma of its own:   parse_linked_list [T] = [parse_term T].
-/
import SuironVerif.Lemmas.ParseArgSim
namespace Suiron.Parse
open Suiron

/-- how one character moves the depth of `parse_linked_list`, which scans from the right -/
def bStep (c : Char) (d : Dp) : Dp :=
  if d.oq then { d with oq := !(c == '"') }
  else if c == '"' then { d with oq := true }
  else if c == ']' then { d with square := d.square + 1 }
  else if c == '[' then { d with square := d.square - 1 }
  else if c == ')' then { d with round := d.round + 1 }
  else if c == '(' then { d with round := d.round - 1 }
  else d

/-- the backward scan, over the characters in the order it meets them -/
def bScan : Text → Dp → Dp
  | [], d => d
  | c :: rest, d => bScan rest (bStep c d)

theorem dpScan_append : ∀ (a b : Text) (d : Dp), dpScan (a ++ b) d = dpScan b (dpScan a d)
  | [], _, _ => rfl
  | c :: a, b, d => by simp only [List.cons_append, dpScan]; exact dpScan_append a b _

theorem bScan_append : ∀ (a b : Text) (d : Dp), bScan (a ++ b) d = bScan b (bScan a d)
  | [], _, _ => rfl
  | c :: a, b, d => by simp only [List.cons_append, bScan]; exact bScan_append a b _

/-- the depth counters only add up; which characters count depends on the quote state alone -/
theorem dpStep_translate (c : Char) (r s : Int) (q : Bool) :
    dpStep c ⟨r, s, q⟩ = ⟨r + (dpStep c ⟨0, 0, q⟩).round, s + (dpStep c ⟨0, 0, q⟩).square, (dpStep c ⟨0, 0, q⟩).oq⟩ := by
  unfold dpStep
  simp only
  repeat' split
  all_goals first | (simp; done) | (simp; omega)

theorem dpScan_translate : ∀ (x : Text) (r s : Int) (q : Bool),
    dpScan x ⟨r, s, q⟩ = ⟨r + (dpScan x ⟨0, 0, q⟩).round, s + (dpScan x ⟨0, 0, q⟩).square, (dpScan x ⟨0, 0, q⟩).oq⟩
  | [], r, s, q => by simp [dpScan]
  | c :: x, r, s, q => by
    simp only [dpScan]
    rw [dpStep_translate c r s q]
    generalize dpStep c ⟨0, 0, q⟩ = d1
    obtain ⟨r1, s1, q1⟩ := d1
    simp only
    rw [dpScan_translate x (r + r1) (s + s1) q1, dpScan_translate x r1 s1 q1]
    simp only [Dp.mk.injEq, and_true]
    constructor <;> omega

/-- one character: stepping backward from the quote state the forward step arrives in undoes the forward step -/
theorem bStep_undoes (c : Char) (x y : Int) (q : Bool) :
    bStep c ⟨x, y, (dpStep c ⟨0, 0, q⟩).oq⟩ = ⟨x - (dpStep c ⟨0, 0, q⟩).round, y - (dpStep c ⟨0, 0, q⟩).square, q⟩ := by
  cases q with
  | true =>
    by_cases h : (c == '"') = true
    · simp [dpStep, bStep, h]
    · have h' : (c == '"') = false := by simpa using h
      simp [dpStep, bStep, h']
  | false =>
    by_cases h : (c == '"') = true
    · simp [dpStep, bStep, h]
    · have h' : (c == '"') = false := by simpa using h
      simp only [dpStep, bStep, h', Bool.false_eq_true, if_false]
      by_cases e1 : (c == '[') = true
      · have hc : c = '[' := by simpa using e1
        subst hc; simp
      · have e1' : (c == '[') = false := by simpa using e1
        by_cases e2 : (c == ']') = true
        · have hc : c = ']' := by simpa using e2
          subst hc; simp
        · have e2' : (c == ']') = false := by simpa using e2
          by_cases e3 : (c == '(') = true
          · have hc : c = '(' := by simpa using e3
            subst hc; simp
          · have e3' : (c == '(') = false := by simpa using e3
            by_cases e4 : (c == ')') = true
            · have hc : c = ')' := by simpa using e4
              subst hc; simp
            · have e4' : (c == ')') = false := by simpa using e4
              simp [e1', e2', e3', e4']

/-- the backward scan of a text, started in the quote state the forward scan ends in, undoes the forward scan -/
theorem bScan_undoes : ∀ (x : Text) (q : Bool),
    bScan x.reverse ⟨0, 0, (dpScan x ⟨0, 0, q⟩).oq⟩ = ⟨-(dpScan x ⟨0, 0, q⟩).round, -(dpScan x ⟨0, 0, q⟩).square, q⟩
  | [], q => by simp [bScan, dpScan]
  | c :: x, q => by
    simp only [List.reverse_cons, bScan_append, dpScan, bScan]
    generalize hd1 : dpStep c ⟨0, 0, q⟩ = d1
    obtain ⟨r1, s1, q1⟩ := d1
    rw [dpScan_translate x r1 s1 q1]
    simp only
    rw [bScan_undoes x q1]
    have hq1 : q1 = (dpStep c ⟨0, 0, q⟩).oq := by rw [hd1]
    have hr1 : r1 = (dpStep c ⟨0, 0, q⟩).round := by rw [hd1]
    have hs1 : s1 = (dpStep c ⟨0, 0, q⟩).square := by rw [hd1]
    rw [hq1, bStep_undoes c _ _ q, ← hr1, ← hs1]
    simp only [Dp.mk.injEq, and_true]
    constructor <;> omega

/-- BACKWARD = FORWARD: in a text whose quotes, parentheses and brackets are closed, the state of the scan from the right
    just before a character is the state of the scan from the left just after it -/
theorem back_is_forward (p : Text) (c : Char) (s : Text)
    (hbal : dpScan (p ++ c :: s) ⟨0, 0, false⟩ = ⟨0, 0, false⟩) :
    bScan s.reverse ⟨0, 0, false⟩ = dpStep c (dpScan p ⟨0, 0, false⟩) := by
  rw [dpScan_append] at hbal
  simp only [dpScan] at hbal
  generalize hd1 : dpStep c (dpScan p ⟨0, 0, false⟩) = d1 at hbal ⊢
  obtain ⟨r1, s1, q1⟩ := d1
  rw [dpScan_translate s r1 s1 q1] at hbal
  have h := bScan_undoes s q1
  simp only [Dp.mk.injEq] at hbal
  rw [hbal.2.2] at h
  rw [h]
  simp only [Dp.mk.injEq, and_true]
  constructor <;> omega

/-! ### the loop of `parse_linked_list` over a structured element -/

def ListSt.dp (st : ListSt) : Dp := ⟨st.round, st.square, st.openQuote⟩

/-- a bar that would introduce a tail variable: outside quotes, parentheses and brackets -/
def topBar (ch : Char) (d : Dp) : Bool := ch == '|' && !d.oq && d.round == 0 && d.square == 0

def noTopBar : Text → Dp → Bool
  | [], _ => true
  | ch :: rest, d => !topBar ch d && noTopBar rest (dpStep ch d)

theorem noTopComma_split : ∀ (p : Text) (c : Char) (s : Text) (d : Dp), noTopComma (p ++ c :: s) d = true →
    topComma c (dpScan p d) = false
  | [], c, s, d, h => by simp only [List.nil_append, noTopComma, Bool.and_eq_true, Bool.not_eq_true'] at h; exact h.1
  | a :: p, c, s, d, h => by
    simp only [List.cons_append, noTopComma, Bool.and_eq_true] at h
    exact noTopComma_split p c s _ h.2

theorem noTopBar_split : ∀ (p : Text) (c : Char) (s : Text) (d : Dp), noTopBar (p ++ c :: s) d = true →
    topBar c (dpScan p d) = false
  | [], c, s, d, h => by simp only [List.nil_append, noTopBar, Bool.and_eq_true, Bool.not_eq_true'] at h; exact h.1
  | a :: p, c, s, d, h => by
    simp only [List.cons_append, noTopBar, Bool.and_eq_true] at h
    exact noTopBar_split p c s _ h.2

/-- one character of a structured element: it is collected, the depth moves by `bStep`, a quote outside parentheses and
    brackets is counted -/
theorem listStep_struct (po : POps) (pt : Text → Res Term) (c : Char) (st : ListSt)
    (hcm : (c == ',' && !st.openQuote && st.round == 0 && st.square == 0) = false)
    (hbar : (c == '|' && !st.openQuote && st.round == 0 && st.square == 0) = false) :
    ∃ st', listStep po pt c false st = .ok st' ∧ st'.seg = c :: st.seg ∧ st'.dp = bStep c st.dp ∧
      st'.numQuotes = st.numQuotes + (if c == '"' && st.round == 0 && st.square == 0 then 1 else 0) ∧
      st'.list = st.list ∧ st'.vbar = st.vbar := by
  unfold listStep
  simp only [Bool.not_false, Bool.and_true]
  by_cases hoq : st.openQuote = true
  · simp only [hoq, if_true]
    by_cases hq : (c == '"') = true
    · simp only [hq, if_true]
      refine ⟨_, rfl, rfl, by simp [ListSt.dp, ListSt.push, bStep, hoq, hq], ?_, rfl, rfl⟩
      simp only [ListSt.push, Bool.true_and]
      by_cases ht : (st.round == 0 && st.square == 0) = true
      · simp [ht]
      · have ht' : (st.round == 0 && st.square == 0) = false := by simpa using ht
        simp [ht']
    · have hq' : (c == '"') = false := by simpa using hq
      simp only [hq', Bool.false_eq_true, if_false]
      exact ⟨_, rfl, rfl, by simp [ListSt.dp, ListSt.push, bStep, hoq, hq'], by simp [ListSt.push], rfl, rfl⟩
  · have hoq' : st.openQuote = false := by simpa using hoq
    simp only [hoq', Bool.false_eq_true, if_false]
    by_cases hq : (c == '"') = true
    · have hc : c = '"' := by simpa using hq
      by_cases ht : (st.round == 0 && st.square == 0) = true
      · -- a quote outside parentheses and brackets
        simp only [ht, Bool.not_true, Bool.false_and, Bool.false_eq_true, if_false, if_true]
        subst hc
        simp only [show (('"' : Char) == ']') = false from by decide, show (('"' : Char) == '[') = false from by decide,
          show (('"' : Char) == ')') = false from by decide, show (('"' : Char) == '(') = false from by decide,
          Bool.false_eq_true, if_false]
        unfold listStepTop
        simp only [Bool.not_false, Bool.and_true, show (('"' : Char) == '"') = true from by decide, if_true]
        refine ⟨_, rfl, rfl, by simp [ListSt.dp, ListSt.push, bStep, hoq'], ?_, rfl, rfl⟩
        simp only [ListSt.push, Bool.true_and, ht, if_true]
      · have ht' : (st.round == 0 && st.square == 0) = false := by simpa using ht
        simp only [ht', Bool.not_false, Bool.true_and, hq, if_true]
        refine ⟨_, rfl, rfl, by simp [ListSt.dp, ListSt.push, bStep, hoq', hq], ?_, rfl, rfl⟩
        simp [ListSt.push, ht']
    · have hq' : (c == '"') = false := by simpa using hq
      simp only [hq', Bool.and_false, Bool.false_eq_true, if_false]
      by_cases e1 : (c == ']') = true
      · have hc : c = ']' := by simpa using e1
        subst hc
        simp only [show ((']' : Char) == ']') = true from by decide, if_true]
        exact ⟨_, rfl, rfl, by simp [ListSt.dp, ListSt.push, bStep, hoq'], by simp [ListSt.push], rfl, rfl⟩
      · have e1' : (c == ']') = false := by simpa using e1
        simp only [e1', Bool.false_eq_true, if_false]
        by_cases e2 : (c == '[') = true
        · have hc : c = '[' := by simpa using e2
          subst hc
          simp only [show (('[' : Char) == '[') = true from by decide, if_true]
          exact ⟨_, rfl, rfl, by simp [ListSt.dp, ListSt.push, bStep, hoq'], by simp [ListSt.push], rfl, rfl⟩
        · have e2' : (c == '[') = false := by simpa using e2
          simp only [e2', Bool.false_eq_true, if_false]
          by_cases e3 : (c == ')') = true
          · have hc : c = ')' := by simpa using e3
            subst hc
            simp only [show ((')' : Char) == ')') = true from by decide, if_true]
            exact ⟨_, rfl, rfl, by simp [ListSt.dp, ListSt.push, bStep, hoq'], by simp [ListSt.push], rfl, rfl⟩
          · have e3' : (c == ')') = false := by simpa using e3
            simp only [e3', Bool.false_eq_true, if_false]
            by_cases e4 : (c == '(') = true
            · have hc : c = '(' := by simpa using e4
              subst hc
              simp only [show (('(' : Char) == '(') = true from by decide, if_true]
              exact ⟨_, rfl, rfl, by simp [ListSt.dp, ListSt.push, bStep, hoq'], by simp [ListSt.push], rfl, rfl⟩
            · have e4' : (c == '(') = false := by simpa using e4
              simp only [e4', Bool.false_eq_true, if_false]
              have hb : bStep c st.dp = st.dp := by simp [bStep, ListSt.dp, hoq', hq', e1', e2', e3', e4']
              by_cases ht : (st.round == 0 && st.square == 0) = true
              · simp only [ht, if_true]
                unfold listStepTop
                have hcm' : (c == ',') = false := by
                  rw [hoq'] at hcm
                  have : (c == ',' && (st.round == 0 && st.square == 0)) = false := by
                    rw [← Bool.and_assoc]; simpa using hcm
                  rw [ht] at this; simpa using this
                have hbar' : (c == '|') = false := by
                  rw [hoq'] at hbar
                  have : (c == '|' && (st.round == 0 && st.square == 0)) = false := by
                    rw [← Bool.and_assoc]; simpa using hbar
                  rw [ht] at this; simpa using this
                simp only [Bool.not_false, Bool.and_true, hq', hcm', hbar', Bool.false_eq_true, if_false]
                exact ⟨_, rfl, rfl, by rw [hb]; rfl, by simp [ListSt.push], rfl, rfl⟩
              · have ht' : (st.round == 0 && st.square == 0) = false := by simpa using ht
                simp only [ht', Bool.false_eq_true, if_false]
                exact ⟨_, rfl, rfl, by rw [hb]; rfl, by simp [ListSt.push], rfl, rfl⟩

theorem quote_cond (c : Char) (d dP : Dp) (h : d = dpStep c dP) :
    (c == '"' && d.round == 0 && d.square == 0) = (c == '"' && dP.round == 0 && dP.square == 0) := by
  by_cases hq : (c == '"') = true
  · have hr : d.round = dP.round ∧ d.square = dP.square := by
      rw [h]; unfold dpStep; split <;> simp [hq]
    rw [hr.1, hr.2]
  · have hq' : (c == '"') = false := by simpa using hq
    simp [hq']

theorem listLoop_struct (po : POps) (pt : Text → Res Term) (T : Text)
    (hbal : dpScan T ⟨0, 0, false⟩ = ⟨0, 0, false⟩) (hbs : ∀ c ∈ T, c ≠ '\\')
    (hcm : noTopComma T ⟨0, 0, false⟩ = true) (hbar : noTopBar T ⟨0, 0, false⟩ = true) :
    ∀ (rv S : Text) (st : ListSt), rv ≠ [] → T = rv.reverse ++ S → st.seg = S → st.dp = bScan S.reverse ⟨0, 0, false⟩ →
      st.numQuotes = qCount S (dpScan rv.reverse ⟨0, 0, false⟩) →
      ∃ st', listLoop po pt rv st = listFinish pt st' ∧ st'.seg = T ∧ st'.numQuotes = qCount T ⟨0, 0, false⟩ ∧
        st'.list = st.list ∧ st'.vbar = st.vbar := by
  intro rv
  induction rv with
  | nil => intro S st h; exact absurd rfl h
  | cons c rv' ih =>
    intro S st _ hT hseg hdp hnq
    have hT' : T = rv'.reverse ++ c :: S := by rw [hT]; simp
    have hbal' : dpScan (rv'.reverse ++ c :: S) ⟨0, 0, false⟩ = ⟨0, 0, false⟩ := by rw [← hT']; exact hbal
    have hbf := back_is_forward rv'.reverse c S hbal'
    have hdp' : st.dp = dpStep c (dpScan rv'.reverse ⟨0, 0, false⟩) := by rw [hdp, hbf]
    generalize hdP : dpScan rv'.reverse ⟨0, 0, false⟩ = dP at hdp' hbf
    -- no comma and no bar of the element's own
    have hc1 : topComma c dP = false := by
      have := noTopComma_split rv'.reverse c S ⟨0, 0, false⟩ (by rw [← hT']; exact hcm)
      rw [hdP] at this; exact this
    have hb1 : topBar c dP = false := by
      have := noTopBar_split rv'.reverse c S ⟨0, 0, false⟩ (by rw [← hT']; exact hbar)
      rw [hdP] at this; exact this
    have hround : st.round = (dpStep c dP).round := by have := congrArg Dp.round hdp'; exact this
    have hsquare : st.square = (dpStep c dP).square := by have := congrArg Dp.square hdp'; exact this
    have hopen : st.openQuote = (dpStep c dP).oq := by have := congrArg Dp.oq hdp'; exact this
    have hcm' : (c == ',' && !st.openQuote && st.round == 0 && st.square == 0) = false := by
      by_cases hcc : (c == ',') = true
      · have hc : c = ',' := by simpa using hcc
        subst hc
        rw [hround, hsquare, hopen]
        by_cases hoq : dP.oq = true
        · simp [dpStep, hoq]
        · have hoq' : dP.oq = false := by simpa using hoq
          simp only [topComma, hoq', Bool.not_false, Bool.and_true, Bool.true_and] at hc1
          simp only [dpStep, hoq', Bool.false_eq_true, if_false, show ((',' : Char) == '"') = false from by decide,
            show ((',' : Char) == '[') = false from by decide, show ((',' : Char) == ']') = false from by decide,
            show ((',' : Char) == '(') = false from by decide, show ((',' : Char) == ')') = false from by decide,
            Bool.not_false, Bool.and_true, Bool.true_and]
          rw [Bool.and_assoc] at hc1
          simpa using hc1
      · have hcc' : (c == ',') = false := by simpa using hcc
        simp [hcc']
    have hbar' : (c == '|' && !st.openQuote && st.round == 0 && st.square == 0) = false := by
      by_cases hcc : (c == '|') = true
      · have hc : c = '|' := by simpa using hcc
        subst hc
        rw [hround, hsquare, hopen]
        by_cases hoq : dP.oq = true
        · simp [dpStep, hoq]
        · have hoq' : dP.oq = false := by simpa using hoq
          simp only [topBar, hoq', Bool.not_false, Bool.and_true, Bool.true_and] at hb1
          simp only [dpStep, hoq', Bool.false_eq_true, if_false, show (('|' : Char) == '"') = false from by decide,
            show (('|' : Char) == '[') = false from by decide, show (('|' : Char) == ']') = false from by decide,
            show (('|' : Char) == '(') = false from by decide, show (('|' : Char) == ')') = false from by decide,
            Bool.not_false, Bool.and_true, Bool.true_and]
          rw [Bool.and_assoc] at hb1
          simpa using hb1
      · have hcc' : (c == '|') = false := by simpa using hcc
        simp [hcc']
    obtain ⟨st1, h1, hs1, hd1, hq1, hl1, hv1⟩ := listStep_struct po pt c st hcm' hbar'
    have hesc : (rv'.head? == some '\\') = false := by
      cases rv' with
      | nil => rfl
      | cons a t =>
        have : a ≠ '\\' := hbs a (by rw [hT]; simp)
        simpa using this
    have hnq1 : st1.numQuotes = qCount (c :: S) dP := by
      rw [hq1, hnq]
      simp only [List.reverse_cons, dpScan_append, dpScan, hdP, qCount]
      have := quote_cond c st.dp dP hdp'
      simp only [ListSt.dp] at this
      rw [this, Nat.add_comm]
    have hdp1 : st1.dp = bScan (c :: S).reverse ⟨0, 0, false⟩ := by
      rw [hd1, hdp, List.reverse_cons, bScan_append]; rfl
    simp only [listLoop, hesc, h1, Res.bind_ok]
    cases hrv : rv' with
    | nil =>
      subst hrv
      simp only [List.reverse_nil, dpScan] at hdP
      subst hdP
      refine ⟨st1, rfl, by rw [hs1, hseg, hT]; simp, by rw [hnq1, hT]; simp, hl1, hv1⟩
    | cons a t =>
      simp only
      rw [← hrv]
      obtain ⟨st', h2, hs2, hq2, hl2, hv2⟩ := ih (c :: S) st1 (by rw [hrv]; simp) hT' (by rw [hs1, hseg]) hdp1 (by rw [hnq1, hdP])
      exact ⟨st', h2, hs2, hq2, by rw [hl2, hl1], by rw [hv2, hv1]⟩

/-- `parse_term` on a text without backslashes and without an arithmetic infix: quotes checked, then `make_term` -/
theorem parseTerm_structured (po : POps) (f : Nat) (s : Text) (htrim : trim s = s) (hbs : ∀ c ∈ s, c ≠ '\\')
    (hinf : (checkArithmeticInfix s).1 = .none) :
    parseTerm po (f + 1) s =
      (checkQuotes s (qCount s ⟨0, 0, false⟩)).bind fun _ =>
        makeTerm po f s (termFlags s).1 (termFlags s).2.1 (termFlags s).2.2 := by
  simp only [parseTerm, htrim, hinf]
  simp only [show ((Infix.none == Infix.plus || Infix.none == Infix.minus || Infix.none == Infix.mul || Infix.none == Infix.div) = true) = False from by decide, if_false]
  have hu : unescape s = (s, qCount s ⟨0, 0, false⟩) := unescLoop_nobs s 0 0 false hbs
  rw [hu]
  simp only [htrim]

/-- C20, LIST-ELEMENT context, structured texts: a trimmed non-empty text without a backslash, without a comma or a bar of
    its own outside quotes / parentheses / brackets, with its quotes, parentheses and brackets closed, and without an
    arithmetic infix (F3): as the only element of a list it is what it is alone. -/
theorem parseLinkedList_structured (po : POps) (f : Nat) (T : Text) (htrim : trim T = T) (hne : T ≠ [])
    (hbs : ∀ c ∈ T, c ≠ '\\') (hcm : noTopComma T ⟨0, 0, false⟩ = true) (hbar : noTopBar T ⟨0, 0, false⟩ = true)
    (hbal : dpScan T ⟨0, 0, false⟩ = ⟨0, 0, false⟩) (hinf : (checkArithmeticInfix T).1 = .none) :
    parseLinkedList po (f + 2) ('[' :: T ++ [']']) =
      (parseTerm po (f + 1) T).bind fun t => .ok (.cons t Term.empty 1 false) := by
  have hb : ('[' :: T ++ [']']) = '[' :: (T ++ [']']) := rfl
  have htr : trim ('[' :: (T ++ [']'])) = '[' :: (T ++ [']']) := by
    apply trim_of_ends (by simp)
    · intro a ha; simp at ha; subst ha; decide
    · intro a ha
      have : a = ']' := by
        rw [show ('[' :: (T ++ [']'])) = ('[' :: T) ++ [']'] from rfl, List.getLast?_concat] at ha
        simpa using ha.symm
      subst this; decide
  simp only [parseLinkedList, parseLinkedListWith, hb, htr]
  have hlen : ¬ ((('[' :: (T ++ [']'])).length) < 2) := by simp
  have hlen2 : ((('[' :: (T ++ [']'])).length) == 2) = false := by
    cases T with
    | nil => exact absurd rfl hne
    | cons a t => simp
  have hlast : ('[' :: (T ++ [']'])).getLast? = some ']' := by
    rw [show ('[' :: (T ++ [']'])) = ('[' :: T) ++ [']'] from rfl, List.getLast?_concat]
  simp only [hlen, if_false, List.head?_cons, hlast, show ('[' != '[') = false from by decide,
    show (']' != ']') = false from by decide, Bool.false_eq_true, hlen2]
  have hmid : (List.drop 1 ('[' :: (T ++ [']']))).dropLast = T := by simp
  rw [hmid]
  obtain ⟨st', hloop, hseg, hq, hlist, _⟩ := listLoop_struct po (parseTerm po (f + 1)) T hbal hbs hcm hbar T.reverse [] {}
    (by simpa using hne) (by simp) rfl rfl (by simp [qCount])
  rw [hloop]
  unfold listFinish
  have hnE : (trim T).isEmpty = false := by
    rw [htrim]; cases T with
    | nil => exact absurd rfl hne
    | cons a t => rfl
  simp only [hseg, hnE, Bool.false_eq_true, if_false, htrim, hq, hlist]
  rw [parseTerm_structured po f T htrim hbs hinf]
  cases checkQuotes T (qCount T ⟨0, 0, false⟩) with
  | ok _ =>
    simp only [Res.bind_ok]
    cases makeTerm po f T (termFlags T).1 (termFlags T).2.1 (termFlags T).2.2 <;> simp [Res.bind, linkFront, Term.empty, hne]
  | fail => simp [Res.bind, hne]
  | panic => simp [Res.bind, hne]
  | oof => simp [Res.bind, hne]

end Suiron.Parse
