/-
  Frame lemma for the engine: output written earlier (the old part of `G.out`) is never read;
  running with an older history underneath gives the same results with that history underneath.
-/
import SuironVerif.Model.Solve
namespace Suiron

def G.withOld (g : G) (old : List String) : G := { g with out := g.out ++ old }

def Step.withOld (st : Step) (old : List String) : Step := { st with g := st.g.withOld old }

def Res.mapStep (r : Res Step) (old : List String) : Res Step :=
  match r with
  | .ok st => .ok (st.withOld old)
  | .fail => .fail
  | .panic => .panic
  | .oof => .oof

@[simp] theorem withOld_counter (g : G) (old : List String) : (g.withOld old).counter = g.counter := rfl
@[simp] theorem withOld_stop (g : G) (old : List String) : (g.withOld old).stop = g.stop := rfl

theorem emit_withOld (g : G) (s : String) (old : List String) : (g.withOld old).emit s = (g.emit s).withOld old := by
  unfold G.emit G.withOld
  by_cases h : s = "" <;> simp [h]

theorem countRules_withOld (kb : KB) (key : String) (g : G) (old : List String) :
    countRules kb key (g.withOld old) = ((countRules kb key g).1, (countRules kb key g).2.withOld old) := by
  unfold countRules G.withOld
  simp only []
  by_cases h1 : (g.stop || g.fireAt == some (g.ticks + 1)) = true
  · simp [h1]
  · simp [h1]
    cases kb.get key <;> simp

theorem mkNode_withOld (sf : UInt64 → String) (kb : KB) : ∀ (goal : Goal) (σ : Subst) (g : G) (old : List String),
    mkNode sf kb goal σ (g.withOld old) =
      (match mkNode sf kb goal σ g with
       | .ok r => .ok (r.1, r.2.withOld old)
       | .fail => .fail | .panic => .panic | .oof => .oof)
  | .call t, σ, g, old => by
    simp only [mkNode]
    cases termKey sf t <;> simp [countRules_withOld]
  | .bip name args, σ, g, old => by simp [mkNode]
  | .and (.cons h rest), σ, g, old => by
    simp only [mkNode, mkNode_withOld sf kb h σ g old]
    cases mkNode sf kb h σ g <;> simp
  | .or (.cons h rest), σ, g, old => by
    simp only [mkNode, mkNode_withOld sf kb h σ g old]
    cases mkNode sf kb h σ g <;> simp
  | .time (.cons h _), σ, g, old => by
    simp only [mkNode, mkNode_withOld sf kb h σ g old]
    cases mkNode sf kb h σ g <;> simp
  | .not (.cons h _), σ, g, old => by
    simp only [mkNode, mkNode_withOld sf kb h σ g old]
    cases mkNode sf kb h σ g <;> simp
  | .and .nil, σ, g, old => by simp [mkNode]
  | .or .nil, σ, g, old => by simp [mkNode]
  | .time .nil, σ, g, old => by simp [mkNode]
  | .not .nil, σ, g, old => by simp [mkNode]
  | .nil, σ, g, old => by simp [mkNode]

end Suiron

namespace Suiron

@[simp] theorem Step.withOld_sol (st : Step) (old : List String) : (st.withOld old).sol = st.sol := rfl
@[simp] theorem Step.withOld_node (st : Step) (old : List String) : (st.withOld old).node = st.node := rfl
@[simp] theorem Step.withOld_cut (st : Step) (old : List String) : (st.withOld old).cut = st.cut := rfl
@[simp] theorem Step.withOld_g (st : Step) (old : List String) : (st.withOld old).g = st.g.withOld old := rfl

theorem mapStep_bind (r : Res Step) (old : List String) (k : Step → Res Step) :
    (Res.mapStep r old).bind k = r.bind (fun st => k (st.withOld old)) := by
  cases r <;> rfl

theorem bind_mapStep (r : Res Step) (old : List String) (k : Step → Res Step) (k' : Step → Res Step)
    (h : ∀ st, k' (st.withOld old) = Res.mapStep (k st) old) :
    (Res.mapStep r old).bind k' = Res.mapStep (r.bind k) old := by
  cases r <;> simp [Res.mapStep, Res.bind, h]

theorem withOld_mk_counter (g : G) (c : Nat) (old : List String) :
    ({ g.withOld old with counter := c } : G) = ({ g with counter := c } : G).withOld old := rfl

theorem frame_all (fo : FloatOps) (kb : KB) : ∀ f,
    (∀ n g old, next fo kb f n (G.withOld g old) = Res.mapStep (next fo kb f n g) old) ∧
    (∀ t σ nb child idx n g old,
        callLoop fo kb f t σ nb child idx n (G.withOld g old) = Res.mapStep (callLoop fo kb f t σ nb child idx n g) old) ∧
    (∀ σ nb more head rest tail cutAcc g old,
        andLoop fo kb f σ nb more head rest tail cutAcc (G.withOld g old) =
          Res.mapStep (andLoop fo kb f σ nb more head rest tail cutAcc g) old) := by
  intro f
  induction f with
  | zero => exact ⟨fun _ _ _ => rfl, fun _ _ _ _ _ _ _ _ => rfl, fun _ _ _ _ _ _ _ _ _ => rfl⟩
  | succ f ih =>
    obtain ⟨ihN, ihC, ihA⟩ := ih
    refine ⟨?_, ?_, ?_⟩
    · intro n g old
      by_cases hnb : n.nb = true
      · (simp [next, hnb, Res.mapStep, Step.withOld] <;> (try constructor) <;> rfl)
      · cases n with
        | bip name args σ nb more =>
          simp [Node.nb] at hnb; subst hnb
          simp only [next, Node.nb]
          by_cases hm : more = true
          · by_cases hc : name = "!"
            · (simp [hm, hc, Res.mapStep, Step.withOld] <;> (try constructor) <;> rfl)
            · simp only [hm, hc]
              cases runBip fo f name (optList args) σ <;> (simp [Res.mapStep, Step.withOld, emit_withOld] <;> (try constructor) <;> rfl)
          · simp at hm; subst hm; (simp [Res.mapStep, Step.withOld] <;> (try constructor) <;> rfl)
        | call t σ nb child idx n =>
          simp [Node.nb] at hnb; subst hnb
          simp only [next, Node.nb]
          cases child with
          | none => simpa using ihC t σ false none idx n g old
          | some c =>
            simp only [Bool.false_eq_true, if_false, ihN c g old]
            apply bind_mapStep
            intro st
            by_cases hs : st.sol.isSome = true
            · (simp [hs, Res.mapStep, Step.withOld] <;> (try constructor) <;> rfl)
            · (simp [hs, ihC] <;> (try constructor) <;> rfl)
        | op k σ nb more head rest tail =>
          simp [Node.nb] at hnb; subst hnb
          cases k with
          | and =>
            simp only [next, Node.nb]
            cases tail with
            | none => simpa using ihA σ false more head rest none false g old
            | some tn =>
              simp only [Bool.false_eq_true, if_false, ihN tn g old]
              apply bind_mapStep
              intro st
              by_cases hs : st.sol.isSome = true
              · (simp [hs, Res.mapStep, Step.withOld] <;> (try constructor) <;> rfl)
              · (simp [hs, ihA] <;> (try constructor) <;> rfl)
          | or =>
            simp only [next, Node.nb]
            cases tail with
            | some tn =>
              simp only [Bool.false_eq_true, if_false, ihN tn g old]
              apply bind_mapStep
              intro st
              (simp [Res.mapStep, Step.withOld] <;> (try constructor) <;> rfl)
            | none =>
              simp only [Bool.false_eq_true, if_false, ihN head g old]
              apply bind_mapStep
              intro st
              by_cases hs : st.sol.isSome = true
              · (simp [hs, Res.mapStep, Step.withOld] <;> (try constructor) <;> rfl)
              · by_cases hl : (rest.length == 0) = true
                · (simp [hs, hl, Res.mapStep, Step.withOld] <;> (try constructor) <;> rfl)
                · by_cases hcut : st.cut = true
                  · (simp [hs, hl, hcut, Res.mapStep, Step.withOld] <;> (try constructor) <;> rfl)
                  · have hs' : st.sol.isSome = false := by simpa using hs
                    have hcut' : st.cut = false := by simpa using hcut
                    simp only [hs', hl, hcut', Step.withOld_sol, Step.withOld_cut, Step.withOld_g, Step.withOld_node,
                      Bool.false_eq_true, if_false, Bool.or_false, mkNode_withOld]
                    cases mkNode fo.showF kb (.or rest) σ st.g with
                    | ok m =>
                      simp only [Res.bind_ok, ihN]
                      apply bind_mapStep
                      intro st2
                      (simp [Res.mapStep, Step.withOld] <;> (try constructor) <;> rfl)
                    | fail => rfl
                    | panic => rfl
                    | oof => rfl
          | not =>
            simp only [next, Node.nb]
            by_cases hm : more = true
            · simp only [hm, Bool.false_eq_true, if_false, Bool.not_true, ihN head g old]
              apply bind_mapStep
              intro st
              (simp [Res.mapStep, Step.withOld] <;> (try constructor) <;> rfl)
            · simp at hm; subst hm; (simp [Res.mapStep, Step.withOld] <;> (try constructor) <;> rfl)
          | time =>
            simp only [next, Node.nb]
            by_cases hm : more = true
            · simp only [hm, Bool.false_eq_true, if_false, Bool.not_true, ihN head g old]
              apply bind_mapStep
              intro st
              (simp [Res.mapStep, Step.withOld, emit_withOld] <;> (try constructor) <;> rfl)
            · simp at hm; subst hm; (simp [Res.mapStep, Step.withOld] <;> (try constructor) <;> rfl)
    · intro t σ nb child idx n g old
      simp only [callLoop]
      by_cases hnb : nb = true
      · (simp [hnb, Res.mapStep, Step.withOld] <;> (try constructor) <;> rfl)
      · by_cases hge : idx ≥ n
        · (simp [hnb, hge, Res.mapStep, Step.withOld] <;> (try constructor) <;> rfl)
        · simp only [hnb, hge, Bool.false_eq_true, if_false, withOld_counter]
          cases termKey fo.showF t with
          | ok key =>
            simp only [Res.bind_ok]
            cases getRule kb key idx g.counter with
            | ok rc =>
              simp only [Res.bind_ok]
              cases unify fo f rc.1.head t σ with
              | fail => (simp [ihC] <;> (try constructor) <;> rfl)
              | panic => (simp [Res.mapStep] <;> (try constructor) <;> rfl)
              | oof => (simp [Res.mapStep] <;> (try constructor) <;> rfl)
              | ok σ' =>
                simp only []
                by_cases hb : rc.1.body.isNil = true
                · (simp [hb, Res.mapStep, Step.withOld, withOld_mk_counter] <;> (try constructor) <;> rfl)
                · simp only [hb, Bool.false_eq_true, if_false, withOld_mk_counter, mkNode_withOld]
                  cases mkNode fo.showF kb rc.1.body σ' { g with counter := rc.2 } with
                  | ok m =>
                    simp only [Res.bind_ok, ihN]
                    apply bind_mapStep
                    intro st
                    by_cases hs : st.sol.isSome = true
                    · (simp [hs, Res.mapStep, Step.withOld] <;> (try constructor) <;> rfl)
                    · (simp [hs, ihC] <;> (try constructor) <;> rfl)
                  | fail => (simp [Res.mapStep] <;> (try constructor) <;> rfl)
                  | panic => (simp [Res.mapStep] <;> (try constructor) <;> rfl)
                  | oof => (simp [Res.mapStep] <;> (try constructor) <;> rfl)
            | fail => (simp [Res.mapStep] <;> (try constructor) <;> rfl)
            | panic => (simp [Res.mapStep] <;> (try constructor) <;> rfl)
            | oof => (simp [Res.mapStep] <;> (try constructor) <;> rfl)
          | fail => (simp [Res.mapStep] <;> (try constructor) <;> rfl)
          | panic => (simp [Res.mapStep] <;> (try constructor) <;> rfl)
          | oof => (simp [Res.mapStep] <;> (try constructor) <;> rfl)
    · intro σ nb more head rest tail cutAcc g old
      simp only [andLoop, ihN head g old]
      apply bind_mapStep
      intro st
      cases hrs : st.sol with
      | none => (simp [hrs, Res.mapStep, Step.withOld] <;> (try constructor) <;> rfl)
      | some ss =>
        by_cases hl : (rest.length == 0) = true
        · (simp [hrs, hl, Res.mapStep, Step.withOld] <;> (try constructor) <;> rfl)
        · simp only [hrs, hl, Step.withOld_sol, Step.withOld_cut, Step.withOld_g, Step.withOld_node, mkNode_withOld,
            Bool.false_eq_true, if_false]
          cases mkNode fo.showF kb (.and rest) ss st.g with
          | ok m =>
            simp only [Res.bind_ok, ihN]
            apply bind_mapStep
            intro st2
            by_cases hs : st2.sol.isSome = true
            · (simp [hs, Res.mapStep, Step.withOld] <;> (try constructor) <;> rfl)
            · (simp [hs, ihA] <;> (try constructor) <;> rfl)
          | fail => rfl
          | panic => rfl
          | oof => rfl

end Suiron
